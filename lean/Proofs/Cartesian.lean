/-
  Proofs/Cartesian.lean — lemmas about Model/Cartesian.lean (property C19).

  1. `call_eq_run`: calling a well-typed diagram whose boxes respect their arity on atomic
     inputs is `untuplify` of the reference run (`Function.then/tensor/id` compose "modulo
     tuplify"; the outermost closure of every layer is a `product`, which re-packs strictly).
  2. the scanning constructor returns well-typed diagrams; `>>` and `@` preserve well-typedness
     and `run` is functorial for them.
  3. `Swap`, `Copy`, `Discard` of every width: the networks cartesian.py builds permute,
     duplicate and delete their inputs as a whole; naturality follows.
-/
import Model.Cartesian

namespace DV.Cart
open DV

/-! ### Python slices -/

theorem pyIdx_nat (n i : Nat) : pyIdx n (i : Int) = min i n := by
  unfold pyIdx
  have : ¬ ((i : Int) < 0) := by omega
  simp [this]

theorem pySlice_take {α} (xs : List α) (i : Nat) :
    pySlice xs none (some (i : Int)) = xs.take i := by
  simp [pySlice, pyLo, pyHi, pyIdx_nat, List.take_eq_take_iff]

theorem pySlice_drop {α} (xs : List α) (i : Nat) :
    pySlice xs (some (i : Int)) none = xs.drop i := by
  simp only [pySlice, pyLo, pyHi, pyIdx_nat]
  by_cases h : i ≤ xs.length
  · rw [Nat.min_eq_left h]
    apply List.take_of_length_le; simp
  · have h' : xs.length ≤ i := by omega
    rw [Nat.min_eq_right h']
    simp [List.drop_eq_nil_of_le h']

theorem proSlice_take (n i : Nat) : proSlice n none (some (i : Int)) = min i n := by
  simp [proSlice, pySlice_take]

theorem proSlice_drop (n i : Nat) : proSlice n (some (i : Int)) none = n - i := by
  simp [proSlice, pySlice_drop]

/-! ### tuplify / untuplify -/

/-- No tuple among the values: what the wires of the property carry. -/
def AllAtoms (xs : List PyVal) : Prop := ∀ x ∈ xs, x.isAtom = true

theorem AllAtoms.append {xs ys : List PyVal} (h1 : AllAtoms xs) (h2 : AllAtoms ys) :
    AllAtoms (xs ++ ys) := by
  intro x hx
  rcases List.mem_append.mp hx with h | h
  · exact h1 x h
  · exact h2 x h

theorem AllAtoms.take {xs : List PyVal} (h : AllAtoms xs) (n : Nat) : AllAtoms (xs.take n) :=
  fun x hx => h x (List.mem_of_mem_take hx)

theorem AllAtoms.drop {xs : List PyVal} (h : AllAtoms xs) (n : Nat) : AllAtoms (xs.drop n) :=
  fun x hx => h x (List.mem_of_mem_drop hx)

theorem AllAtoms.left {xs ys : List PyVal} (h : AllAtoms (xs ++ ys)) : AllAtoms xs :=
  fun x hx => h x (List.mem_append_left _ hx)

theorem AllAtoms.right {xs ys : List PyVal} (h : AllAtoms (xs ++ ys)) : AllAtoms ys :=
  fun x hx => h x (List.mem_append_right _ hx)

theorem allAtoms_nil : AllAtoms [] := fun _ h => by cases h

theorem untuplify_single (x : PyVal) : untuplify [x] = x := rfl

theorem untuplify_of_length_ne_one {xs : List PyVal} (h : xs.length ≠ 1) :
    untuplify xs = .tup xs := by
  match xs, h with
  | [], _ => rfl
  | [_], h => exact absurd rfl h
  | _ :: _ :: _, _ => rfl

/-- The round trip that fails for a tuple alone on a wire: `tuplify (untuplify [tup ys]) = ys`. -/
theorem tuplify_untuplify {xs : List PyVal} (h : AllAtoms xs) : tuplify (untuplify xs) = xs := by
  match xs, h with
  | [], _ => rfl
  | [.atom _], _ => rfl
  | [.tok _ _], _ => rfl
  | [.tup ys], h => exact absurd (h (.tup ys) (by simp)) (by simp [PyVal.isAtom])
  | _ :: _ :: _, _ => rfl

/-! ### Functions computing list functions "modulo tuplify" -/

/-- A box *respects its arity*: on `dom` atomic arguments, whatever it returns unpacks to
    exactly `cod` atomic values (a bare value or a 1-tuple when `cod = 1`, `()` when `cod = 0`). -/
def CBox.Respects (b : CBox) : Prop :=
  ∀ xs v, xs.length = b.dom → AllAtoms xs → b.f xs = .ok v →
    (tuplify v).length = b.cod ∧ AllAtoms (tuplify v)

abbrev LFun := List PyVal → Except Err (List PyVal)

/-- `F` returns an object that unpacks to what `g` returns. -/
def Computes (F : Function) (g : LFun) : Prop :=
  ∀ xs, xs.length = F.dom → AllAtoms xs → (F.f xs).map tuplify = g xs

/-- `F` returns exactly the packed form of what `g` returns. -/
def Strict (F : Function) (g : LFun) : Prop :=
  ∀ xs, xs.length = F.dom → AllAtoms xs → F.f xs = (g xs).map untuplify

/-- `g` maps `dom` atoms to `cod` atoms. -/
def Good (dom cod : Nat) (g : LFun) : Prop :=
  ∀ xs ys, xs.length = dom → AllAtoms xs → g xs = .ok ys → ys.length = cod ∧ AllAtoms ys

theorem Strict.computes {F : Function} {g : LFun} {cod : Nat} (hs : Strict F g)
    (hg : Good F.dom cod g) : Computes F g := by
  intro xs hl ha
  rw [hs xs hl ha]
  cases h : g xs with
  | error e => rfl
  | ok ys =>
    show Except.ok (tuplify (untuplify ys)) = Except.ok ys
    rw [tuplify_untuplify (hg xs ys hl ha h).2]

theorem Strict.congr {F : Function} {g g' : LFun} (hs : Strict F g)
    (h : ∀ xs, xs.length = F.dom → g xs = g' xs) : Strict F g' := by
  intro xs hl ha
  rw [hs xs hl ha, h xs hl]

theorem Good.congr {dom cod : Nat} {g g' : LFun} (hg : Good dom cod g)
    (h : ∀ xs, xs.length = dom → g xs = g' xs) : Good dom cod g' := by
  intro xs ys hl ha hy
  exact hg xs ys hl ha (by rw [h xs hl]; exact hy)

/-- Sequential composition of list functions. -/
def seqL (g1 g2 : LFun) : LFun := fun xs => (g1 xs).bind g2

/-- Parallel composition: `g1` on the first `n` values, `g2` on the rest. -/
def parL (n : Nat) (g1 g2 : LFun) : LFun := fun xs =>
  (g1 (xs.take n)).bind (fun a => (g2 (xs.drop n)).bind (fun b => .ok (a ++ b)))

theorem strict_id (n : Nat) : Strict (Function.id n) Except.ok := fun _ _ _ => rfl

theorem good_id (n : Nat) : Good n n Except.ok := by
  intro xs ys hl ha h
  cases h
  exact ⟨hl, ha⟩

theorem computes_box (b : CBox) : Computes b.toFunction (fun xs => (b.f xs).map tuplify) :=
  fun _ _ _ => rfl

theorem good_box {b : CBox} (hb : b.Respects) : Good b.dom b.cod (fun xs => (b.f xs).map tuplify) := by
  intro xs ys hl ha h
  have h' : (b.f xs).map tuplify = .ok ys := h
  cases hv : b.f xs with
  | error e => rw [hv] at h'; cases h'
  | ok v =>
    rw [hv] at h'
    cases h'
    exact hb xs v hl ha hv

theorem call_of_length {F : Function} {xs : List PyVal} (h : xs.length = F.dom) :
    F.call xs = F.f xs := by
  simp [Function.call, h]

theorem call_of_length_ne {F : Function} {xs : List PyVal} (h : xs.length ≠ F.dom) :
    F.call xs = .error .type := by
  simp [Function.call, h]

/-- cartesian.py:141-144: the product closure re-packs strictly whatever its factors return. -/
theorem strict_tensor {F G : Function} {g1 g2 : LFun} (h1 : Computes F g1) (h2 : Computes G g2) :
    Strict (F.tensor G) (parL F.dom g1 g2) := by
  intro xs hl ha
  have hl' : xs.length = F.dom + G.dom := hl
  show F.product G xs = _
  unfold Function.product parL
  rw [pySlice_take, pySlice_drop]
  have ht : (xs.take F.dom).length = F.dom := by simp; omega
  have hd : (xs.drop F.dom).length = G.dom := by simp; omega
  rw [call_of_length ht, call_of_length hd]
  have e1 := h1 _ ht (ha.take _)
  have e2 := h2 _ hd (ha.drop _)
  rw [← e1, ← e2]
  cases F.f (xs.take F.dom) with
  | error e => rfl
  | ok v0 =>
    cases G.f (xs.drop F.dom) with
    | error e => rfl
    | ok v1 => rfl

theorem good_par {d1 c1 d2 c2 : Nat} {g1 g2 : LFun} (h1 : Good d1 c1 g1) (h2 : Good d2 c2 g2) :
    Good (d1 + d2) (c1 + c2) (parL d1 g1 g2) := by
  intro xs ys hl ha h
  unfold parL at h
  have ht : (xs.take d1).length = d1 := by simp; omega
  have hd : (xs.drop d1).length = d2 := by simp; omega
  cases ea : g1 (xs.take d1) with
  | error e => rw [ea] at h; cases h
  | ok a =>
    cases eb : g2 (xs.drop d1) with
    | error e => rw [ea, eb] at h; cases h
    | ok b =>
      rw [ea, eb] at h
      cases h
      have r1 := h1 _ _ ht (ha.take _) ea
      have r2 := h2 _ _ hd (ha.drop _) eb
      exact ⟨by simp [r1.1, r2.1], r1.2.append r2.2⟩

/-- cartesian.py:123: `other(*tuplify(self(*vals)))`. -/
theorem strict_then {F G : Function} {g1 g2 : LFun} (hc : F.cod = G.dom)
    (h1 : Computes F g1) (hg1 : Good F.dom F.cod g1) (h2 : Strict G g2) :
    Strict ⟨F.dom, G.cod, F.thenFn G⟩ (seqL g1 g2) := by
  intro xs hl ha
  have hl' : xs.length = F.dom := hl
  show F.thenFn G xs = _
  unfold Function.thenFn seqL
  rw [call_of_length hl']
  have e1 := h1 xs hl' ha
  cases hv : F.f xs with
  | error e => rw [hv] at e1; rw [← e1]; rfl
  | ok v =>
    rw [hv] at e1
    rw [← e1]
    have hg := hg1 xs (tuplify v) hl' ha e1.symm
    show G.call (tuplify v) = (g2 (tuplify v)).map untuplify
    rw [call_of_length (by rw [hg.1, hc])]
    exact h2 _ (by rw [hg.1, hc]) hg.2

theorem good_seq {d m c : Nat} {g1 g2 : LFun} (h1 : Good d m g1) (h2 : Good m c g2) :
    Good d c (seqL g1 g2) := by
  intro xs ys hl ha h
  unfold seqL at h
  cases ea : g1 xs with
  | error e => rw [ea] at h; cases h
  | ok a =>
    rw [ea] at h
    have r1 := h1 _ _ hl ha ea
    exact h2 _ _ r1.1 r1.2 h

/-! ### One layer -/

theorem layerFn_eq (scan : Nat) (b : CBox) (off : Nat) :
    layerFn scan b off =
      ((Function.id (min off scan)).tensor b.toFunction).tensor
        (Function.id (scan - (off + b.dom))) := by
  simp only [layerFn, proSlice_take, proSlice_drop]

theorem scanStep_eq (scan : Nat) (b : CBox) (off : Nat) :
    scanStep scan b off = min off scan + b.cod + (scan - (off + b.dom)) := by
  simp only [scanStep, proSlice_take, proSlice_drop]

theorem applyAt_good {b : CBox} (hb : b.Respects) {scan off : Nat} (h : off + b.dom ≤ scan) :
    Good scan (scan - b.dom + b.cod) (applyAt b off) := by
  intro xs ys hl ha hy
  unfold applyAt at hy
  have hlen : ((xs.drop off).take b.dom).length = b.dom := by simp; omega
  cases hv : b.f ((xs.drop off).take b.dom) with
  | error e => rw [hv] at hy; cases hy
  | ok v =>
    rw [hv] at hy
    cases hy
    have r := hb _ v hlen ((ha.drop _).take _) hv
    refine ⟨?_, ((ha.take _).append r.2).append (ha.drop _)⟩
    simp [r.1]; omega

theorem layer_strict (b : CBox) {scan off : Nat} (h : off + b.dom ≤ scan) (hb : b.Respects) :
    Strict (layerFn scan b off) (applyAt b off) := by
  rw [layerFn_eq]
  have hmin : min off scan = off := by omega
  rw [hmin]
  have inner : Strict ((Function.id off).tensor b.toFunction)
      (parL off Except.ok (fun xs => (b.f xs).map tuplify)) :=
    strict_tensor (F := Function.id off) ((strict_id off).computes (good_id off)) (computes_box b)
  have innerG : Good (off + b.dom) (off + b.cod)
      (parL off Except.ok (fun xs => (b.f xs).map tuplify)) := good_par (good_id off) (good_box hb)
  have outer := strict_tensor (F := (Function.id off).tensor b.toFunction)
    (G := Function.id (scan - (off + b.dom)))
    (inner.computes (cod := off + b.cod) innerG)
    ((strict_id _).computes (good_id _))
  refine outer.congr ?_
  intro xs hl
  have hl' : xs.length = off + b.dom + (scan - (off + b.dom)) := hl
  show parL (off + b.dom) (parL off Except.ok fun xs => (b.f xs).map tuplify) Except.ok xs = _
  unfold parL applyAt
  have e1 : (xs.take (off + b.dom)).take off = xs.take off := by
    rw [List.take_take]; congr 1; omega
  have e2 : (xs.take (off + b.dom)).drop off = (xs.drop off).take b.dom := by
    rw [List.drop_take]; congr 1; omega
  rw [e1, e2]
  dsimp only
  cases b.f ((xs.drop off).take b.dom) with
  | error e => rfl
  | ok v => simp [Except.bind, Except.map]

theorem layerFn_dom (b : CBox) {scan off : Nat} (h : off + b.dom ≤ scan) :
    (layerFn scan b off).dom = scan := by
  rw [layerFn_eq]; show min off scan + b.dom + (scan - (off + b.dom)) = scan; omega

theorem layerFn_cod (b : CBox) {scan off : Nat} (h : off + b.dom ≤ scan) :
    (layerFn scan b off).cod = scan - b.dom + b.cod := by
  rw [layerFn_eq]; show min off scan + b.cod + (scan - (off + b.dom)) = _; omega

theorem scanStep_wf (b : CBox) {scan off : Nat} (h : off + b.dom ≤ scan) :
    scanStep scan b off = scan - b.dom + b.cod := by
  rw [scanStep_eq]; omega

/-! ### Well-typed diagrams and the main theorem -/

/-- The property's typing discipline on `PRO`s: each box finds its `dom` wires at its offset,
    and the scan ends at `cod`. -/
def WFfrom : Nat → List CBox → List Nat → Nat → Prop
  | scan, [], [], cod => scan = cod
  | scan, b :: bs, o :: os, cod => o + b.dom ≤ scan ∧ WFfrom (scan - b.dom + b.cod) bs os cod
  | _, [], _ :: _, _ => False
  | _, _ :: _, [], _ => False

def CDiagram.WF (d : CDiagram) : Prop := WFfrom d.dom d.boxes d.offsets d.cod

instance decWFfrom : ∀ (scan : Nat) (bs : List CBox) (os : List Nat) (cod : Nat),
    Decidable (WFfrom scan bs os cod)
  | scan, [], [], cod => inferInstanceAs (Decidable (scan = cod))
  | scan, b :: bs, _ :: os, cod =>
    @instDecidableAnd _ _ _ (decWFfrom (scan - b.dom + b.cod) bs os cod)
  | _, [], _ :: _, _ => isFalse (fun h => h)
  | _, _ :: _, [], _ => isFalse (fun h => h)

instance (d : CDiagram) : Decidable d.WF := decWFfrom _ _ _ _

/-- Every box of the diagram respects its arity. -/
def CDiagram.BoxesOK (d : CDiagram) : Prop := ∀ b ∈ d.boxes, b.Respects

theorem functorLoop_spec (D : Nat) (bs : List CBox) :
    ∀ (os : List Nat) (scan cod : Nat) (res : Function) (g : LFun),
      WFfrom scan bs os cod → (∀ b ∈ bs, b.Respects) →
      res.dom = D → res.cod = scan → Strict res g → Good D scan g →
      ∃ R, functorLoop scan res bs os = .ok R ∧ R.dom = D ∧ R.cod = cod ∧
        Strict R (fun xs => (g xs).bind (fun st => runLoop st bs os)) ∧
        Good D cod (fun xs => (g xs).bind (fun st => runLoop st bs os)) := by
  induction bs with
  | nil =>
    intro os scan cod res g hwf _ hd hc hs hg
    cases os with
    | cons o os => exact absurd hwf (by simp [WFfrom])
    | nil =>
      have hsc : scan = cod := hwf
      subst hsc
      have e : (fun xs => (g xs).bind (fun st => runLoop st [] [])) = g := by
        funext xs
        cases g xs <;> rfl
      refine ⟨res, rfl, hd, hc, ?_, ?_⟩
      · rw [e]; exact hs
      · rw [e]; exact hg
  | cons b bs ih =>
    intro os scan cod res g hwf hb hd hc hs hg
    cases os with
    | nil => exact absurd hwf (by simp [WFfrom])
    | cons o os =>
      obtain ⟨hle, hrest⟩ := hwf
      have hbR := hb b (by simp)
      have hcomp : res.cod = (layerFn scan b o).dom := by rw [layerFn_dom b hle, hc]
      have hthen : res.then (layerFn scan b o) =
          .ok ⟨res.dom, (layerFn scan b o).cod, res.thenFn (layerFn scan b o)⟩ := by
        simp [Function.then, hcomp]
      have hs' : Strict ⟨res.dom, (layerFn scan b o).cod, res.thenFn (layerFn scan b o)⟩
          (seqL g (applyAt b o)) :=
        strict_then hcomp (hs.computes (cod := scan) (by rw [hd]; exact hg))
          (by rw [hd, hc]; exact hg) (layer_strict b hle hbR)
      have hg' : Good D (scan - b.dom + b.cod) (seqL g (applyAt b o)) :=
        good_seq hg (applyAt_good hbR hle)
      obtain ⟨R, hR, hRd, hRc, hRs, hRg⟩ :=
        ih os (scan - b.dom + b.cod) cod
          ⟨res.dom, (layerFn scan b o).cod, res.thenFn (layerFn scan b o)⟩
          (seqL g (applyAt b o)) hrest (fun b' hb' => hb b' (by simp [hb'])) hd
          (layerFn_cod b hle) hs' hg'
      have e : (fun xs => (seqL g (applyAt b o) xs).bind (fun st => runLoop st bs os)) =
          (fun xs => (g xs).bind (fun st => runLoop st (b :: bs) (o :: os))) := by
        funext xs
        unfold seqL
        cases g xs with
        | error e => rfl
        | ok st =>
          show ((applyAt b o st).bind fun st => runLoop st bs os) = runLoop st (b :: bs) (o :: os)
          rfl
      refine ⟨R, ?_, hRd, hRc, ?_, ?_⟩
      · show (res.then (layerFn scan b o)).bind _ = _
        rw [hthen, scanStep_wf b hle]
        exact hR
      · rw [← e]; exact hRs
      · rw [← e]; exact hRg

/-- The functor of cartesian.py:199-202 succeeds on a well-typed diagram with good boxes and
    returns a function that strictly computes the reference run. -/
theorem functor_spec {d : CDiagram} (hwf : d.WF) (hb : d.BoxesOK) :
    ∃ R, d.functor = .ok R ∧ R.dom = d.dom ∧ R.cod = d.cod ∧
      Strict R (fun xs => runLoop xs d.boxes d.offsets) ∧
      Good d.dom d.cod (fun xs => runLoop xs d.boxes d.offsets) := by
  obtain ⟨R, h1, h2, h3, h4, h5⟩ :=
    functorLoop_spec d.dom d.boxes d.offsets d.dom d.cod (Function.id d.dom) Except.ok hwf hb
      rfl rfl (strict_id _) (good_id _)
  exact ⟨R, h1, h2, h3, h4, h5⟩

/-- **C19, main clause.**  Calling = packing the result of the reference run, errors included
    (a wrong number of inputs is a `TypeError` on both sides). -/
theorem call_eq_run {d : CDiagram} (hwf : d.WF) (hb : d.BoxesOK) (xs : List PyVal)
    (hx : AllAtoms xs) : d.call xs = (d.run xs).map untuplify := by
  obtain ⟨R, hR, hd, _, hs, _⟩ := functor_spec hwf hb
  unfold CDiagram.call CDiagram.run
  rw [hR]
  show R.call xs = _
  by_cases hl : xs.length = d.dom
  · rw [call_of_length (by rw [hd]; exact hl), hs xs (by rw [hd]; exact hl) hx]
    simp [hl]
  · rw [call_of_length_ne (by rw [hd]; exact hl)]
    simp [hl]
    rfl

/-- The reference run of a well-typed diagram with good boxes maps `dom` atoms to `cod` atoms. -/
theorem run_good {d : CDiagram} (hwf : d.WF) (hb : d.BoxesOK) {xs ys : List PyVal}
    (hx : AllAtoms xs) (h : d.run xs = .ok ys) : ys.length = d.cod ∧ AllAtoms ys := by
  obtain ⟨_, _, _, _, _, hg⟩ := functor_spec hwf hb
  unfold CDiagram.run at h
  by_cases hl : xs.length = d.dom
  · simp [hl] at h
    exact hg xs ys hl hx h
  · simp [hl] at h

/-- The `Box` branch of the functor: a box called directly returns the function's own object,
    which unpacks to the reference run of the one-box diagram (no hypothesis on the box). -/
theorem box_call_eq_run (b : CBox) (xs : List PyVal) :
    (b.call xs).map tuplify = b.diagram.run xs := by
  unfold CBox.call CDiagram.run CBox.diagram
  by_cases hl : xs.length = b.dom
  · rw [call_of_length (F := b.toFunction) hl]
    simp only [hl, ne_eq, not_true_eq_false, ↓reduceIte]
    show _ = (applyAt b 0 xs).bind (fun st => runLoop st [] [])
    unfold applyAt
    have e : (xs.drop 0).take b.dom = xs := by simp [← hl]
    have e' : xs.drop (0 + b.dom) = [] := by simp [← hl]
    rw [e, e']
    show (b.f xs).map tuplify = _
    cases b.f xs with
    | error e => rfl
    | ok v => simp [Except.map, Except.bind, runLoop]
  · rw [call_of_length_ne (F := b.toFunction) hl]
    simp [hl]
    rfl

/-! ### The scanning constructor returns exactly the well-typed requests -/

theorem wfFrom_length : ∀ (bs : List CBox) (os : List Nat) (scan cod : Nat),
    WFfrom scan bs os cod → bs.length = os.length
  | [], [], _, _, _ => rfl
  | [], _ :: _, _, _, h => absurd h (by simp [WFfrom])
  | _ :: _, [], _, _, h => absurd h (by simp [WFfrom])
  | _ :: bs, _ :: os, _, _, h => by
    have := wfFrom_length bs os _ _ h.2
    simp [this]

theorem proSlice_take_int {n : Nat} {o : Int} (h : (proSlice n none (some o) : Int) = o) :
    ∃ m : Nat, o = (m : Int) ∧ m ≤ n := by
  have ho : 0 ≤ o := by omega
  obtain ⟨m, rfl⟩ := Int.eq_ofNat_of_zero_le ho
  rw [proSlice_take] at h
  exact ⟨m, rfl, by omega⟩

theorem mkScan_ok : ∀ (bs : List CBox) (os : List Int) (scan r : Nat),
    bs.length = os.length → mkScan scan bs os = .ok r →
      WFfrom scan bs (os.map Int.toNat) r ∧ (os.map Int.toNat).map Int.ofNat = os
  | [], [], scan, r, _, h => by
    simp only [mkScan] at h
    cases h
    exact ⟨rfl, rfl⟩
  | [], _ :: _, _, _, hl, _ => by simp at hl
  | _ :: _, [], _, _, hl, _ => by simp at hl
  | b :: bs, o :: os, scan, r, hl, h => by
    simp only [mkScan] at h
    split at h
    · cases h
    · rename_i h1
      have h1' : (proSlice scan none (some o) : Int) = o := by
        have := h1; simp only [ne_eq, Decidable.not_not] at this; exact this
      obtain ⟨m, rfl, hm⟩ := proSlice_take_int h1'
      split at h
      · cases h
      · rename_i h2
        simp only [ne_eq, Decidable.not_not] at h2
        rw [proSlice_take, ← Int.natCast_add, proSlice_drop] at h2 h
        have hle : m + b.dom ≤ scan := by omega
        have e : min m scan + b.cod + (scan - (m + b.dom)) = scan - b.dom + b.cod := by omega
        rw [e] at h
        have ih := mkScan_ok bs os _ r (by simpa using hl) h
        refine ⟨?_, ?_⟩
        · simpa [WFfrom] using ⟨hle, ih.1⟩
        · simpa using ih.2

/-- The constructor hands back only well-typed diagrams, carrying the requested fields. -/
theorem mk?_ok {dom cod : Nat} {bs : List CBox} {os : List Int} {d : CDiagram}
    (h : CDiagram.mk? dom cod bs os = .ok d) :
    d.WF ∧ d.dom = dom ∧ d.cod = cod ∧ d.boxes = bs ∧ d.offsets.map Int.ofNat = os := by
  unfold CDiagram.mk? at h
  split at h
  · cases h
  · rename_i hl
    simp only [ne_eq, Decidable.not_not] at hl
    cases hs : mkScan dom bs os with
    | error e => rw [hs] at h; cases h
    | ok scan =>
      rw [hs] at h
      have h' : mkFinish dom cod bs os scan = .ok d := h
      unfold mkFinish at h'
      split at h'
      · cases h'
      · rename_i hc
        simp only [ne_eq, Decidable.not_not] at hc
        cases h'
        subst hc
        have := mkScan_ok bs os dom scan hl hs
        exact ⟨this.1, rfl, rfl, rfl, this.2⟩

theorem mkScan_of_wf : ∀ (bs : List CBox) (os : List Nat) (scan cod : Nat),
    WFfrom scan bs os cod → mkScan scan bs (os.map Int.ofNat) = .ok cod
  | [], [], scan, cod, h => by
    have : scan = cod := h
    simp [mkScan, this]
  | [], _ :: _, _, _, h => absurd h (by simp [WFfrom])
  | _ :: _, [], _, _, h => absurd h (by simp [WFfrom])
  | b :: bs, o :: os, scan, cod, h => by
    obtain ⟨hle, hrest⟩ := h
    have ih := mkScan_of_wf bs os _ cod hrest
    simp only [List.map_cons, mkScan, Int.ofNat_eq_natCast]
    rw [proSlice_take, ← Int.natCast_add, proSlice_drop]
    have e1 : ((min o scan : Nat) : Int) = (o : Int) := by
      have : min o scan = o := by omega
      rw [this]
    have e2 : scan = min o scan + b.dom + (scan - (o + b.dom)) := by omega
    have e3 : min o scan + b.cod + (scan - (o + b.dom)) = scan - b.dom + b.cod := by omega
    rw [if_neg (by simpa using e1), if_neg (by simpa using e2), e3]
    exact ih

/-- Conversely every well-typed request is accepted. -/
theorem mk?_of_wf {dom cod : Nat} {bs : List CBox} {os : List Nat}
    (h : WFfrom dom bs os cod) :
    CDiagram.mk? dom cod bs (os.map Int.ofNat) = .ok ⟨dom, cod, bs, os⟩ := by
  unfold CDiagram.mk?
  have hl := wfFrom_length bs os dom cod h
  rw [if_neg (by simpa using hl), mkScan_of_wf bs os dom cod h]
  show mkFinish dom cod bs (os.map Int.ofNat) cod = _
  unfold mkFinish
  simp [Function.comp_def]

/-! ### `>>` and `@` on diagrams: typing and functoriality of the reference run -/

theorem wfFrom_append : ∀ (bs1 : List CBox) (os1 : List Nat) (bs2 : List CBox) (os2 : List Nat)
    (s m c : Nat), WFfrom s bs1 os1 m → WFfrom m bs2 os2 c → WFfrom s (bs1 ++ bs2) (os1 ++ os2) c
  | [], [], _, _, s, m, c, h1, h2 => by
    have : s = m := h1
    subst this
    simpa using h2
  | [], _ :: _, _, _, _, _, _, h1, _ => absurd h1 (by simp [WFfrom])
  | _ :: _, [], _, _, _, _, _, h1, _ => absurd h1 (by simp [WFfrom])
  | b :: bs1, o :: os1, bs2, os2, s, m, c, h1, h2 =>
    ⟨h1.1, wfFrom_append bs1 os1 bs2 os2 _ m c h1.2 h2⟩

/-- Whiskering on the right: `k` more wires that no box touches. -/
theorem wfFrom_widen (k : Nat) : ∀ (bs : List CBox) (os : List Nat) (s c : Nat),
    WFfrom s bs os c → WFfrom (s + k) bs os (c + k)
  | [], [], s, c, h => by
    have : s = c := h
    subst this
    rfl
  | [], _ :: _, _, _, h => absurd h (by simp [WFfrom])
  | _ :: _, [], _, _, h => absurd h (by simp [WFfrom])
  | b :: bs, o :: os, s, c, h => by
    refine ⟨by have := h.1; omega, ?_⟩
    have e : s + k - b.dom + b.cod = s - b.dom + b.cod + k := by have := h.1; omega
    rw [e]
    exact wfFrom_widen k bs os _ c h.2

/-- Whiskering on the left: all offsets move by `k`. -/
theorem wfFrom_shift (k : Nat) : ∀ (bs : List CBox) (os : List Nat) (s c : Nat),
    WFfrom s bs os c → WFfrom (k + s) bs (os.map (· + k)) (k + c)
  | [], [], s, c, h => by
    have : s = c := h
    subst this
    rfl
  | [], _ :: _, _, _, h => absurd h (by simp [WFfrom])
  | _ :: _, [], _, _, h => absurd h (by simp [WFfrom])
  | b :: bs, o :: os, s, c, h => by
    refine ⟨by have := h.1; show o + k + b.dom ≤ k + s; omega, ?_⟩
    have e : k + s - b.dom + b.cod = k + (s - b.dom + b.cod) := by have := h.1; omega
    rw [e]
    exact wfFrom_shift k bs os _ c h.2

theorem then_ok {a b : CDiagram} (h : a.cod = b.dom) :
    a.then b = .ok ⟨a.dom, b.cod, a.boxes ++ b.boxes, a.offsets ++ b.offsets⟩ := by
  simp [CDiagram.then, h]

theorem then_wf {a b : CDiagram} (ha : a.WF) (hb : b.WF) (h : a.cod = b.dom) :
    CDiagram.WF ⟨a.dom, b.cod, a.boxes ++ b.boxes, a.offsets ++ b.offsets⟩ :=
  wfFrom_append _ _ _ _ _ a.cod _ ha (by rw [h]; exact hb)

theorem tensor_wf {a b : CDiagram} (ha : a.WF) (hb : b.WF) : (a.tensor b).WF :=
  wfFrom_append _ _ _ _ _ (a.cod + b.dom) _ (wfFrom_widen b.dom _ _ _ _ ha)
    (wfFrom_shift a.cod _ _ _ _ hb)

theorem id_wf (n : Nat) : (CDiagram.id n).WF := rfl

theorem box_wf (b : CBox) : b.diagram.WF := by
  show 0 + b.dom ≤ b.dom ∧ b.dom - b.dom + b.cod = b.cod
  omega

theorem boxesOK_append {a b : CDiagram} {dom cod : Nat} {os : List Nat}
    (ha : a.BoxesOK) (hb : b.BoxesOK) : CDiagram.BoxesOK ⟨dom, cod, a.boxes ++ b.boxes, os⟩ := by
  intro x hx
  rcases List.mem_append.mp hx with h | h
  · exact ha x h
  · exact hb x h

theorem tensor_boxesOK {a b : CDiagram} (ha : a.BoxesOK) (hb : b.BoxesOK) :
    (a.tensor b).BoxesOK := boxesOK_append ha hb

theorem runLoop_append : ∀ (bs1 : List CBox) (os1 : List Nat) (bs2 : List CBox) (os2 : List Nat)
    (st : List PyVal), bs1.length = os1.length →
    runLoop st (bs1 ++ bs2) (os1 ++ os2) = (runLoop st bs1 os1).bind (fun st' => runLoop st' bs2 os2)
  | [], [], _, _, _, _ => rfl
  | [], _ :: _, _, _, _, h => by simp at h
  | _ :: _, [], _, _, _, h => by simp at h
  | b :: bs1, o :: os1, bs2, os2, st, h => by
    show (applyAt b o st).bind _ = ((applyAt b o st).bind _).bind _
    cases applyAt b o st with
    | error e => rfl
    | ok st' => exact runLoop_append bs1 os1 bs2 os2 st' (by simpa using h)

/-- Wires to the left of every box are carried along (no hypothesis needed). -/
theorem runLoop_frame_left (pre : List PyVal) : ∀ (bs : List CBox) (os : List Nat) (st : List PyVal),
    runLoop (pre ++ st) bs (os.map (· + pre.length)) = (runLoop st bs os).map (pre ++ ·)
  | [], _, _ => rfl
  | _ :: _, [], _ => rfl
  | b :: bs, o :: os, st => by
    show (applyAt b (o + pre.length) (pre ++ st)).bind _ = ((applyAt b o st).bind _).map _
    have e : applyAt b (o + pre.length) (pre ++ st) = (applyAt b o st).map (pre ++ ·) := by
      unfold applyAt
      have e1 : (pre ++ st).drop (o + pre.length) = st.drop o := by
        rw [List.drop_append]; simp [List.drop_eq_nil_of_le]
      have e2 : (pre ++ st).take (o + pre.length) = pre ++ st.take o := by
        rw [List.take_append]; simp [List.take_of_length_le]
      have e3 : (pre ++ st).drop (o + pre.length + b.dom) = st.drop (o + b.dom) := by
        rw [List.drop_append]
        have : o + pre.length + b.dom - pre.length = o + b.dom := by omega
        have h' : pre.length ≤ o + pre.length + b.dom := by omega
        simp [this, h']
      rw [e1, e2, e3]
      cases b.f ((st.drop o).take b.dom) with
      | error e => rfl
      | ok v => simp [Except.map]
    rw [e]
    cases applyAt b o st with
    | error e => rfl
    | ok st' => exact runLoop_frame_left pre bs os st'

/-- Wires to the right of every box are carried along, as long as every box finds its wires
    inside `st` (typing) and keeps the wire count (arity). -/
theorem runLoop_frame_right (post : List PyVal) : ∀ (bs : List CBox) (os : List Nat)
    (st : List PyVal) (c : Nat), WFfrom st.length bs os c → (∀ b ∈ bs, b.Respects) → AllAtoms st →
    runLoop (st ++ post) bs os = (runLoop st bs os).map (· ++ post)
  | [], [], _, _, _, _, _ => rfl
  | [], _ :: _, _, _, h, _, _ => absurd h (by simp [WFfrom])
  | _ :: _, [], _, _, h, _, _ => absurd h (by simp [WFfrom])
  | b :: bs, o :: os, st, c, h, hb, ha => by
    show (applyAt b o (st ++ post)).bind _ = ((applyAt b o st).bind _).map _
    obtain ⟨hle, hrest⟩ := h
    have e : applyAt b o (st ++ post) = (applyAt b o st).map (· ++ post) := by
      unfold applyAt
      have e1 : ((st ++ post).drop o).take b.dom = (st.drop o).take b.dom := by
        rw [List.drop_append_of_le_length (by omega), List.take_append_of_le_length (by simp; omega)]
      have e2 : (st ++ post).take o = st.take o := by
        rw [List.take_append_of_le_length (by omega)]
      have e3 : (st ++ post).drop (o + b.dom) = st.drop (o + b.dom) ++ post := by
        rw [List.drop_append_of_le_length (by omega)]
      rw [e1, e2, e3]
      cases b.f ((st.drop o).take b.dom) with
      | error e => rfl
      | ok v => simp [Except.map]
    rw [e]
    cases hst : applyAt b o st with
    | error e => rfl
    | ok st' =>
      have g := applyAt_good (hb b (by simp)) hle st st' rfl ha hst
      exact runLoop_frame_right post bs os st' c (by rw [g.1]; exact hrest)
        (fun b' hb' => hb b' (by simp [hb'])) g.2

/-- `run` of `a >> b` is `run a` followed by `run b`. -/
theorem run_then {a b : CDiagram} (ha : a.WF) (hba : a.BoxesOK) (h : a.cod = b.dom)
    (xs : List PyVal) (hx : AllAtoms xs) :
    CDiagram.run ⟨a.dom, b.cod, a.boxes ++ b.boxes, a.offsets ++ b.offsets⟩ xs =
      (a.run xs).bind b.run := by
  unfold CDiagram.run
  by_cases hl : xs.length = a.dom
  · simp only [hl, ne_eq, not_true_eq_false, ↓reduceIte]
    rw [runLoop_append _ _ _ _ _ (wfFrom_length _ _ _ _ ha)]
    cases hr : runLoop xs a.boxes a.offsets with
    | error e => rfl
    | ok st =>
      have g := run_good ha hba hx (by unfold CDiagram.run; simp [hl]; exact hr)
      simp [Except.bind, g.1, h]
  · simp [hl]
    rfl

/-- `run` of `a @ b` runs `a` on the first `a.dom` inputs and `b` on the rest. -/
theorem run_tensor {a b : CDiagram} (ha : a.WF) (hba : a.BoxesOK)
    (xs ys : List PyVal) (hx : AllAtoms xs) (hlx : xs.length = a.dom) (hly : ys.length = b.dom) :
    (a.tensor b).run (xs ++ ys) =
      (a.run xs).bind (fun xs' => (b.run ys).bind (fun ys' => .ok (xs' ++ ys'))) := by
  unfold CDiagram.run CDiagram.tensor
  simp only [List.length_append, hlx, hly, ne_eq, not_true_eq_false, ↓reduceIte]
  rw [runLoop_append _ _ _ _ _ (wfFrom_length _ _ _ _ ha),
    runLoop_frame_right ys a.boxes a.offsets xs a.cod (by rw [hlx]; exact ha) hba hx]
  cases hr : runLoop xs a.boxes a.offsets with
  | error e => rfl
  | ok xs' =>
    have g := run_good ha hba hx (by unfold CDiagram.run; simp [hlx]; exact hr)
    show runLoop (xs' ++ ys) b.boxes (b.offsets.map (· + a.cod)) = _
    rw [← g.1, runLoop_frame_left]
    cases runLoop ys b.boxes b.offsets with
    | error e => rfl
    | ok ys' => rfl

/-! ### Swap, Copy, Discard -/

theorem applyAt_mid (b : CBox) (pre mid post : List PyVal) (v : PyVal)
    (hm : mid.length = b.dom) (hf : b.f mid = .ok v) :
    applyAt b pre.length (pre ++ mid ++ post) = .ok (pre ++ tuplify v ++ post) := by
  unfold applyAt
  have e1 : ((pre ++ mid ++ post).drop pre.length).take b.dom = mid := by
    rw [List.append_assoc, List.drop_left, ← hm, List.take_left]
  have e2 : (pre ++ mid ++ post).take pre.length = pre := by
    rw [List.append_assoc, List.take_left]
  have e3 : (pre ++ mid ++ post).drop (pre.length + b.dom) = post := by
    have : pre.length + b.dom = (pre ++ mid).length := by simp [hm]
    rw [this, List.drop_left]
  rw [e1, e2, e3, hf]
  rfl

theorem SWAP_f (x y : PyVal) : SWAP.f [x, y] = .ok (.tup [y, x]) := rfl
theorem COPY_f (x : PyVal) : COPY.f [x] = .ok (.tup [x, x]) := rfl
theorem DISCARD_f (x : PyVal) : DISCARD.f [x] = .ok (.tup []) := rfl

theorem SWAP_respects : SWAP.Respects := by
  intro xs v hl ha hv
  match xs, hl with
  | [x, y], _ =>
    rw [SWAP_f] at hv
    cases hv
    exact ⟨rfl, fun z hz => ha z (by simp [tuplify] at hz; rcases hz with rfl | rfl <;> simp)⟩

theorem COPY_respects : COPY.Respects := by
  intro xs v hl ha hv
  match xs, hl with
  | [x], _ =>
    rw [COPY_f] at hv
    cases hv
    exact ⟨rfl, fun z hz => ha z (by simp [tuplify] at hz; simp [hz])⟩

theorem DISCARD_respects : DISCARD.Respects := by
  intro xs v hl ha hv
  match xs, hl with
  | [x], _ =>
    rw [DISCARD_f] at hv
    cases hv
    exact ⟨rfl, allAtoms_nil⟩

/-- One row of the swap network: `x` travels to the right across `ys`. -/
theorem swapRow_run : ∀ (ys pre : List PyVal) (x : PyVal) (post : List PyVal),
    runLoop (pre ++ x :: ys ++ post) (List.replicate ys.length SWAP)
      ((List.range ys.length).map (pre.length + ·)) = .ok (pre ++ ys ++ x :: post)
  | [], pre, x, post => by simp [runLoop]
  | y :: ys, pre, x, post => by
    have ih := swapRow_run ys (pre ++ [y]) x post
    simp only [List.length_cons, List.replicate_succ, List.range_succ_eq_map, List.map_cons,
      List.map_map]
    show (applyAt SWAP (pre.length + 0) (pre ++ x :: (y :: ys) ++ post)).bind _ = _
    have e : pre ++ x :: (y :: ys) ++ post = pre ++ [x, y] ++ (ys ++ post) := by simp
    rw [e, Nat.add_zero, applyAt_mid SWAP pre [x, y] (ys ++ post) _ rfl (SWAP_f x y)]
    show runLoop _ _ _ = _
    have e2 : pre ++ tuplify (.tup [y, x]) ++ (ys ++ post) = (pre ++ [y]) ++ x :: ys ++ post := by
      simp [tuplify]
    have e3 : List.map ((fun x => pre.length + x) ∘ Nat.succ) (List.range ys.length) =
        List.map (fun x => (pre ++ [y]).length + x) (List.range ys.length) := by
      apply List.map_congr_left
      intro i _
      simp; omega
    rw [e2, e3, ih]
    simp

theorem swapOffsets_succ (l r : Nat) :
    swapOffsets (l + 1) r = (List.range r).map (l + ·) ++ swapOffsets l r := by
  simp only [swapOffsets, List.range_succ_eq_map, List.flatMap_cons, List.flatMap_map]
  congr 1
  · apply List.map_congr_left
    intro i _
    omega
  · congr 1
    funext j
    apply List.map_congr_left
    intro i _
    show l + 1 + i - 1 - (j + 1) = l + i - 1 - j
    omega

theorem swapBoxes_succ (l r : Nat) :
    swapBoxes (l + 1) r = List.replicate r SWAP ++ swapBoxes l r := by
  simp only [swapBoxes, List.range_succ_eq_map, List.flatMap_cons, List.flatMap_map]
  congr 1
  rw [List.map_const', List.length_range]

theorem swapBoxes_zero (r : Nat) : swapBoxes 0 r = [] := rfl
theorem swapOffsets_zero (r : Nat) : swapOffsets 0 r = [] := rfl

/-- The whole network: `xs` and `ys` change places, whatever follows is untouched. -/
theorem swap_runLoop : ∀ (l : Nat) (xs ys post : List PyVal), xs.length = l →
    runLoop (xs ++ ys ++ post) (swapBoxes l ys.length) (swapOffsets l ys.length) =
      .ok (ys ++ xs ++ post)
  | 0, xs, ys, post, h => by
    have : xs = [] := List.eq_nil_of_length_eq_zero h
    subst this
    simp [swapBoxes_zero, swapOffsets_zero, runLoop]
  | l + 1, xs, ys, post, h => by
    have hne : xs ≠ [] := by intro e; rw [e] at h; simp at h
    obtain ⟨xs', x, rfl⟩ : ∃ xs' x, xs = xs' ++ [x] :=
      ⟨xs.dropLast, xs.getLast hne, (List.dropLast_concat_getLast hne).symm⟩
    have hl' : xs'.length = l := by simpa using h
    rw [swapBoxes_succ, swapOffsets_succ, runLoop_append _ _ _ _ _ (by simp)]
    have e : xs' ++ [x] ++ ys ++ post = xs' ++ x :: ys ++ post := by simp
    have row := swapRow_run ys xs' x post
    rw [hl'] at row
    rw [e, row]
    show runLoop _ _ _ = _
    have ih := swap_runLoop l xs' ys (x :: post) hl'
    rw [ih]
    simp

theorem wfFrom_swaps (n : Nat) : ∀ os : List Nat, (∀ o ∈ os, o + 2 ≤ n) →
    WFfrom n (List.replicate os.length SWAP) os n
  | [], _ => rfl
  | o :: os, h => by
    refine ⟨h o (by simp), ?_⟩
    have e : n - SWAP.dom + SWAP.cod = n := by
      have := h o (by simp)
      show n - 2 + 2 = n
      omega
    rw [e]
    exact wfFrom_swaps n os (fun o' ho' => h o' (by simp [ho']))

theorem swap_wfFrom (r n : Nat) : ∀ l : Nat, l + r ≤ n →
    WFfrom n (swapBoxes l r) (swapOffsets l r) n
  | 0, _ => rfl
  | l + 1, h => by
    rw [swapBoxes_succ, swapOffsets_succ]
    refine wfFrom_append _ _ _ _ n n n ?_ (swap_wfFrom r n l (by omega))
    have := wfFrom_swaps n ((List.range r).map (l + ·)) (by
      intro o ho
      simp only [List.mem_map, List.mem_range] at ho
      obtain ⟨i, hi, rfl⟩ := ho
      omega)
    simpa using this

theorem swapBoxes_ok (l r : Nat) : ∀ b ∈ swapBoxes l r, b.Respects := by
  intro b hb
  simp only [swapBoxes, List.mem_flatMap, List.mem_map, List.mem_range] at hb
  obtain ⟨_, _, _, _, rfl⟩ := hb
  exact SWAP_respects

/-- `Swap(left, right)` passes the scanning constructor with the listed wiring. -/
theorem swapD_eq (l r : Nat) :
    swapD l r = .ok ⟨l + r, r + l, swapBoxes l r, swapOffsets l r⟩ := by
  unfold swapD
  exact mk?_of_wf (by rw [Nat.add_comm r l]; exact swap_wfFrom r (l + r) l (Nat.le_refl _))

/-- **C19, Swap.**  `Swap(l, r)` of every width exchanges its first `l` inputs with the rest. -/
theorem swap_spec (xs ys : List PyVal) (hx : AllAtoms xs) (hy : AllAtoms ys) :
    ∃ d, swapD xs.length ys.length = .ok d ∧ d.dom = xs.length + ys.length ∧
      d.cod = ys.length + xs.length ∧ d.WF ∧ d.BoxesOK ∧
      d.run (xs ++ ys) = .ok (ys ++ xs) ∧ d.call (xs ++ ys) = .ok (untuplify (ys ++ xs)) := by
  have hwf : CDiagram.WF ⟨xs.length + ys.length, ys.length + xs.length,
      swapBoxes xs.length ys.length, swapOffsets xs.length ys.length⟩ := by
    show WFfrom _ _ _ _
    rw [Nat.add_comm ys.length]
    exact swap_wfFrom _ _ _ (Nat.le_refl _)
  have hrun : CDiagram.run ⟨xs.length + ys.length, ys.length + xs.length,
      swapBoxes xs.length ys.length, swapOffsets xs.length ys.length⟩ (xs ++ ys) =
      .ok (ys ++ xs) := by
    unfold CDiagram.run
    have := swap_runLoop xs.length xs ys [] rfl
    simp only [List.append_nil] at this
    simp [this]
  refine ⟨_, swapD_eq _ _, rfl, rfl, hwf, swapBoxes_ok _ _, hrun, ?_⟩
  rw [call_eq_run hwf (swapBoxes_ok _ _) _ (hx.append hy), hrun]
  rfl

/-! #### iterated tensor of one box -/

theorem tensorAll_replicate (B : CBox) : ∀ k m : Nat,
    CDiagram.tensorAll ⟨m * B.dom, m * B.cod, List.replicate m B, (List.range m).map (· * B.cod)⟩
      (List.replicate k B.diagram) =
    ⟨(m + k) * B.dom, (m + k) * B.cod, List.replicate (m + k) B,
      (List.range (m + k)).map (· * B.cod)⟩
  | 0, m => rfl
  | k + 1, m => by
    have e : (CDiagram.mk (m * B.dom) (m * B.cod) (List.replicate m B)
        ((List.range m).map (· * B.cod))).tensor B.diagram =
        ⟨(m + 1) * B.dom, (m + 1) * B.cod, List.replicate (m + 1) B,
          (List.range (m + 1)).map (· * B.cod)⟩ := by
      simp [CDiagram.tensor, CBox.diagram, Nat.succ_mul, List.replicate_succ', List.range_succ]
    show CDiagram.tensorAll (CDiagram.tensor _ B.diagram) (List.replicate k B.diagram) = _
    rw [e, tensorAll_replicate B k (m + 1)]
    have : m + 1 + k = m + (k + 1) := by omega
    rw [this]

theorem tensorAll_replicate0 (B : CBox) (k : Nat) :
    (CDiagram.id 0).tensorAll (List.replicate k B.diagram) =
      ⟨k * B.dom, k * B.cod, List.replicate k B, (List.range k).map (· * B.cod)⟩ := by
  have := tensorAll_replicate B k 0
  simpa [CDiagram.id] using this

/-! #### Discard -/

theorem discard_runLoop : ∀ (xs : List PyVal) (os : List Nat), (∀ o ∈ os, o = 0) →
    os.length = xs.length → runLoop xs (List.replicate xs.length DISCARD) os = .ok []
  | [], [], _, _ => rfl
  | [], _ :: _, _, h => by simp at h
  | _ :: _, [], _, h => by simp at h
  | x :: xs, o :: os, hz, hl => by
    have ho : o = 0 := hz o (by simp)
    subst ho
    show (applyAt DISCARD 0 (x :: xs)).bind _ = _
    have := applyAt_mid DISCARD [] [x] xs _ rfl (DISCARD_f x)
    simp only [List.nil_append, List.length_nil] at this
    have e : [x] ++ xs = x :: xs := rfl
    rw [e] at this
    rw [this]
    exact discard_runLoop xs os (fun o ho => hz o (by simp [ho])) (by simpa using hl)

theorem discard_wfFrom : ∀ (n : Nat) (os : List Nat), (∀ o ∈ os, o = 0) → os.length = n →
    WFfrom n (List.replicate n DISCARD) os 0
  | 0, [], _, _ => rfl
  | 0, _ :: _, _, h => by simp at h
  | _ + 1, [], _, h => by simp at h
  | n + 1, o :: os, hz, hl => by
    have ho : o = 0 := hz o (by simp)
    subst ho
    refine ⟨by show 0 + 1 ≤ n + 1; omega, ?_⟩
    show WFfrom (n + 1 - 1 + 0) _ _ _
    exact discard_wfFrom n os (fun o ho => hz o (by simp [ho])) (by simpa using hl)

theorem discardD_eq (n : Nat) :
    discardD n = ⟨n, 0, List.replicate n DISCARD, (List.range n).map (· * 0)⟩ := by
  unfold discardD
  rw [tensorAll_replicate0]
  simp [DISCARD, Prim.box]

/-- **C19, Discard.**  `Discard(n)` of every width deletes all its inputs. -/
theorem discard_spec (xs : List PyVal) (hx : AllAtoms xs) :
    (discardD xs.length).dom = xs.length ∧ (discardD xs.length).cod = 0 ∧
      (discardD xs.length).WF ∧ (discardD xs.length).BoxesOK ∧
      (discardD xs.length).run xs = .ok [] ∧ (discardD xs.length).call xs = .ok (.tup []) := by
  have hz : ∀ o ∈ (List.range xs.length).map (· * 0), o = 0 := by
    intro o ho
    simp only [List.mem_map] at ho
    obtain ⟨_, _, rfl⟩ := ho
    rfl
  have hwf : (discardD xs.length).WF := by
    rw [discardD_eq]
    exact discard_wfFrom _ _ hz (by simp)
  have hok : (discardD xs.length).BoxesOK := by
    rw [discardD_eq]
    intro b hb
    rw [List.eq_of_mem_replicate hb]
    exact DISCARD_respects
  have hrun : (discardD xs.length).run xs = .ok [] := by
    rw [discardD_eq]
    unfold CDiagram.run
    simp only [ne_eq, not_true_eq_false, ↓reduceIte]
    exact discard_runLoop xs _ hz (by simp)
  refine ⟨by rw [discardD_eq], by rw [discardD_eq], hwf, hok, hrun, ?_⟩
  rw [call_eq_run hwf hok xs hx, hrun]
  rfl

/-! #### Copy: `COPY` on every wire, then the unshuffle network of cartesian.py:295-297 -/

/-- `a0 b0 a1 b1 …` (stops at the shorter list). -/
def interleave : List PyVal → List PyVal → List PyVal
  | a :: as, b :: bs => a :: b :: interleave as bs
  | _, _ => []

theorem interleave_length : ∀ (a b : List PyVal), a.length = b.length →
    (interleave a b).length = 2 * a.length
  | [], [], _ => rfl
  | [], _ :: _, h => by simp at h
  | _ :: _, [], h => by simp at h
  | _ :: a, _ :: b, h => by
    have := interleave_length a b (by simpa using h)
    simp [interleave, this]; omega

theorem interleave_cons_snoc : ∀ (a' b' : List PyVal) (a0 bn : PyVal), a'.length = b'.length →
    interleave (a0 :: a') (b' ++ [bn]) = a0 :: interleave b' a' ++ [bn]
  | [], [], _, _, _ => rfl
  | [], _ :: _, _, _, h => by simp at h
  | _ :: _, [], _, _, h => by simp at h
  | a1 :: a', b0 :: b', a0, bn, h => by
    have ih := interleave_cons_snoc a' b' a1 bn (by simpa using h)
    show a0 :: b0 :: interleave (a1 :: a') (b' ++ [bn]) = _
    rw [ih]
    rfl

/-- The first phase: one `COPY` per wire. -/
theorem copies_run : ∀ (xs pre : List PyVal),
    runLoop (pre ++ xs) (List.replicate xs.length COPY)
      ((List.range xs.length).map (fun k => pre.length + k * 2)) = .ok (pre ++ interleave xs xs)
  | [], pre => by simp [runLoop, interleave]
  | x :: xs, pre => by
    have ih := copies_run xs (pre ++ [x, x])
    simp only [List.length_cons, List.replicate_succ, List.range_succ_eq_map, List.map_cons,
      List.map_map]
    show (applyAt COPY (pre.length + 0 * 2) (pre ++ x :: xs)).bind _ = _
    have e : pre ++ x :: xs = pre ++ [x] ++ xs := by simp
    rw [e, Nat.zero_mul, Nat.add_zero, applyAt_mid COPY pre [x] xs _ rfl (COPY_f x)]
    show runLoop _ _ _ = _
    have e2 : pre ++ tuplify (.tup [x, x]) ++ xs = (pre ++ [x, x]) ++ xs := by simp [tuplify]
    have e3 : List.map ((fun k => pre.length + k * 2) ∘ Nat.succ) (List.range xs.length) =
        List.map (fun k => (pre ++ [x, x]).length + k * 2) (List.range xs.length) := by
      apply List.map_congr_left
      intro i _
      simp; omega
    rw [e2, e3, ih]
    simp [interleave]

/-- One row of the second phase: every pair of neighbours is exchanged. -/
theorem pairSwap_run : ∀ (u v pre post : List PyVal), u.length = v.length →
    runLoop (pre ++ interleave u v ++ post) (List.replicate u.length SWAP)
      ((List.range u.length).map (fun k => pre.length + 2 * k)) =
      .ok (pre ++ interleave v u ++ post)
  | [], [], pre, post, _ => by simp [runLoop, interleave]
  | [], _ :: _, _, _, h => by simp at h
  | _ :: _, [], _, _, h => by simp at h
  | x :: u, y :: v, pre, post, h => by
    have ih := pairSwap_run u v (pre ++ [y, x]) post (by simpa using h)
    simp only [List.length_cons, List.replicate_succ, List.range_succ_eq_map, List.map_cons,
      List.map_map]
    show (applyAt SWAP (pre.length + 2 * 0) (pre ++ interleave (x :: u) (y :: v) ++ post)).bind _ = _
    have e : pre ++ interleave (x :: u) (y :: v) ++ post =
        pre ++ [x, y] ++ (interleave u v ++ post) := by simp [interleave]
    rw [e, Nat.mul_zero, Nat.add_zero,
      applyAt_mid SWAP pre [x, y] (interleave u v ++ post) _ rfl (SWAP_f x y)]
    show runLoop _ _ _ = _
    have e2 : pre ++ tuplify (.tup [y, x]) ++ (interleave u v ++ post) =
        (pre ++ [y, x]) ++ interleave u v ++ post := by simp [tuplify]
    have e3 : List.map ((fun k => pre.length + 2 * k) ∘ Nat.succ) (List.range u.length) =
        List.map (fun k => (pre ++ [y, x]).length + 2 * k) (List.range u.length) := by
      apply List.map_congr_left
      intro i _
      simp; omega
    rw [e2, e3, ih]
    simp [interleave]

/-- Boxes and offsets of the rows `i = 1 … n-1`, the leftmost wire of the network at `p`. -/
def rowsB (n : Nat) : List CBox :=
  (List.range' 1 (n - 1)).flatMap (fun i => List.replicate (n - i) SWAP)
def rowsO (n p : Nat) : List Nat :=
  (List.range' 1 (n - 1)).flatMap (fun i => (List.range (n - i)).map (fun k => p + i + 2 * k))

theorem range'_two (m : Nat) : List.range' 2 m = (List.range' 1 m).map (· + 1) := by
  have h := List.map_add_range' (a := 1) 1 m 1
  have e : (fun x : Nat => x + 1) = (fun x => 1 + x) := by funext x; omega
  rw [e, h]

theorem rowsB_succ : ∀ n : Nat, rowsB (n + 1) = List.replicate n SWAP ++ rowsB n
  | 0 => rfl
  | m + 1 => by
    show (List.range' 1 (m + 1)).flatMap _ = _ ++ (List.range' 1 m).flatMap _
    rw [List.range'_succ, List.flatMap_cons, range'_two, List.flatMap_map]
    congr 1
    congr 1
    funext i
    show List.replicate (m + 1 + 1 - (i + 1)) SWAP = List.replicate (m + 1 - i) SWAP
    congr 1
    omega

theorem rowsO_succ : ∀ n p : Nat,
    rowsO (n + 1) p = (List.range n).map (fun k => p + 1 + 2 * k) ++ rowsO n (p + 1)
  | 0, _ => rfl
  | m + 1, p => by
    show (List.range' 1 (m + 1)).flatMap _ = _ ++ (List.range' 1 m).flatMap _
    rw [List.range'_succ, List.flatMap_cons, range'_two, List.flatMap_map]
    congr 1
    congr 1
    funext i
    show (List.range (m + 1 + 1 - (i + 1))).map (fun k => p + (i + 1) + 2 * k) =
      (List.range (m + 1 - i)).map (fun k => p + 1 + i + 2 * k)
    have : m + 1 + 1 - (i + 1) = m + 1 - i := by omega
    rw [this]
    apply List.map_congr_left
    intro k _
    omega

theorem rows_length (n : Nat) : ∀ p, (rowsB n).length = (rowsO n p).length := by
  induction n with
  | zero => intro p; rfl
  | succ n ih => intro p; rw [rowsB_succ, rowsO_succ]; simp [ih (p + 1)]

/-- The unshuffle network turns `a0 b0 a1 b1 …` into `a0 a1 … b0 b1 …`. -/
theorem unshuffle_run : ∀ (n : Nat) (a b pre post : List PyVal), a.length = n → b.length = n →
    runLoop (pre ++ interleave a b ++ post) (rowsB n) (rowsO n pre.length) =
      .ok (pre ++ a ++ b ++ post)
  | 0, a, b, pre, post, ha, hb => by
    have : a = [] := List.eq_nil_of_length_eq_zero ha
    subst this
    have : b = [] := List.eq_nil_of_length_eq_zero hb
    subst this
    simp [rowsB, rowsO, runLoop, interleave]
  | n + 1, a, b, pre, post, ha, hb => by
    match a, ha with
    | a0 :: a', ha =>
      have hne : b ≠ [] := by intro e; rw [e] at hb; simp at hb
      obtain ⟨b', bn, rfl⟩ : ∃ b' bn, b = b' ++ [bn] :=
        ⟨b.dropLast, b.getLast hne, (List.dropLast_concat_getLast hne).symm⟩
      have ha' : a'.length = n := by simpa using ha
      have hb' : b'.length = n := by simpa using hb
      rw [interleave_cons_snoc a' b' a0 bn (by rw [ha', hb']), rowsB_succ, rowsO_succ,
        runLoop_append _ _ _ _ _ (by simp)]
      have row := pairSwap_run b' a' (pre ++ [a0]) (bn :: post) (by rw [ha', hb'])
      have e : pre ++ (a0 :: interleave b' a' ++ [bn]) ++ post =
          (pre ++ [a0]) ++ interleave b' a' ++ bn :: post := by simp
      have e3 : (List.range n).map (fun k => pre.length + 1 + 2 * k) =
          (List.range b'.length).map (fun k => (pre ++ [a0]).length + 2 * k) := by
        rw [hb']; simp
      rw [e, e3, ← hb', row]
      show runLoop _ _ _ = _
      have ih := unshuffle_run n a' b' (pre ++ [a0]) (bn :: post) ha' hb'
      have e4 : (pre ++ [a0]).length = pre.length + 1 := by simp
      rw [e4] at ih
      rw [hb', ih]
      simp

theorem copyLoop1_eq : ∀ (n : Nat) (r : CDiagram),
    copyLoop1 n r = r.tensorAll (List.replicate n COPY.diagram)
  | 0, _ => rfl
  | n + 1, _ => copyLoop1_eq n _

theorem copyRow_eq (dom i : Nat) :
    copyRow dom i = ⟨i + (dom - i) * 2 + i, i + (dom - i) * 2 + i,
      List.replicate (dom - i) SWAP, (List.range (dom - i)).map (fun k => 0 + i + 2 * k)⟩ := by
  unfold copyRow
  rw [tensorAll_replicate0]
  simp only [CDiagram.tensor, CDiagram.id, SWAP, Prim.box, List.nil_append, List.append_nil,
    List.map_nil, List.map_map]
  congr 1
  apply List.map_congr_left
  intro k _
  simp only [Function.comp]
  omega

theorem copyLoop2_eq (dom : Nat) : ∀ (is : List Nat) (res : CDiagram), res.cod = 2 * dom →
    (∀ i ∈ is, i ≤ dom) →
    copyLoop2 dom res is = .ok ⟨res.dom, 2 * dom,
      res.boxes ++ is.flatMap (fun i => List.replicate (dom - i) SWAP),
      res.offsets ++ is.flatMap (fun i => (List.range (dom - i)).map (fun k => 0 + i + 2 * k))⟩
  | [], res, hc, _ => by
    cases res
    simp only [copyLoop2, List.flatMap_nil, List.append_nil]
    simp at hc
    rw [hc]
  | i :: is, res, hc, hi => by
    have hle : i ≤ dom := hi i (by simp)
    have hcod : i + (dom - i) * 2 + i = 2 * dom := by omega
    show (res.then (copyRow dom i)).bind _ = _
    rw [copyRow_eq, then_ok (by rw [hc]; exact hcod.symm)]
    show copyLoop2 dom _ is = _
    rw [copyLoop2_eq dom is _ hcod (fun j hj => hi j (by simp [hj]))]
    simp [List.append_assoc]

theorem copyD_eq (n : Nat) :
    copyD n = .ok ⟨n, 2 * n, List.replicate n COPY ++ rowsB n,
      (List.range n).map (· * 2) ++ rowsO n 0⟩ := by
  unfold copyD
  rw [copyLoop1_eq, tensorAll_replicate0,
    copyLoop2_eq n _ _ (by show n * COPY.cod = 2 * n; show n * 2 = 2 * n; omega) (by
      intro i hi
      simp only [List.mem_range'_1] at hi
      omega)]
  rfl

theorem copies_wfFrom : ∀ m p : Nat,
    WFfrom (p + m) (List.replicate m COPY) ((List.range m).map (fun k => p + k * 2)) (p + 2 * m)
  | 0, _ => rfl
  | m + 1, p => by
    simp only [List.replicate_succ, List.range_succ_eq_map, List.map_cons, List.map_map]
    refine ⟨by show p + 0 * 2 + 1 ≤ p + (m + 1); omega, ?_⟩
    have ih := copies_wfFrom m (p + 2)
    have e1 : p + (m + 1) - COPY.dom + COPY.cod = p + 2 + m := by
      show p + (m + 1) - 1 + 2 = p + 2 + m; omega
    have e2 : p + 2 * (m + 1) = p + 2 + 2 * m := by omega
    have e3 : List.map ((fun k => p + k * 2) ∘ Nat.succ) (List.range m) =
        List.map (fun k => p + 2 + k * 2) (List.range m) := by
      apply List.map_congr_left
      intro k _
      simp; omega
    rw [e1, e2, e3]
    exact ih

theorem rowsB_all (n : Nat) : ∀ b ∈ rowsB n, b = SWAP := by
  intro b hb
  simp only [rowsB, List.mem_flatMap] at hb
  obtain ⟨_, _, hb⟩ := hb
  exact List.eq_of_mem_replicate hb

theorem rows_wfFrom (n : Nat) : WFfrom (2 * n) (rowsB n) (rowsO n 0) (2 * n) := by
  have h := wfFrom_swaps (2 * n) (rowsO n 0) (by
    intro o ho
    simp only [rowsO, List.mem_flatMap, List.mem_map, List.mem_range, List.mem_range'_1] at ho
    obtain ⟨i, hi, k, hk, rfl⟩ := ho
    omega)
  have e : rowsB n = List.replicate (rowsO n 0).length SWAP := by
    rw [List.eq_replicate_iff]
    exact ⟨rows_length n 0, rowsB_all n⟩
  rw [e]
  exact h

/-- **C19, Copy.**  `Copy(n)` of every width returns its inputs twice, as two whole blocks. -/
theorem copy_spec (xs : List PyVal) (hx : AllAtoms xs) :
    ∃ d, copyD xs.length = .ok d ∧ d.dom = xs.length ∧ d.cod = 2 * xs.length ∧ d.WF ∧
      d.BoxesOK ∧ d.run xs = .ok (xs ++ xs) ∧ d.call xs = .ok (untuplify (xs ++ xs)) := by
  have hc := copies_wfFrom xs.length 0
  simp only [Nat.zero_add] at hc
  have hwf : CDiagram.WF ⟨xs.length, 2 * xs.length, List.replicate xs.length COPY ++ rowsB xs.length,
      (List.range xs.length).map (· * 2) ++ rowsO xs.length 0⟩ :=
    wfFrom_append _ _ _ _ _ (2 * xs.length) _ hc (rows_wfFrom _)
  have hok : CDiagram.BoxesOK ⟨xs.length, 2 * xs.length,
      List.replicate xs.length COPY ++ rowsB xs.length,
      (List.range xs.length).map (· * 2) ++ rowsO xs.length 0⟩ := by
    intro b hb
    rcases List.mem_append.mp hb with h | h
    · rw [List.eq_of_mem_replicate h]; exact COPY_respects
    · rw [rowsB_all _ b h]; exact SWAP_respects
  have hrun : CDiagram.run ⟨xs.length, 2 * xs.length,
      List.replicate xs.length COPY ++ rowsB xs.length,
      (List.range xs.length).map (· * 2) ++ rowsO xs.length 0⟩ xs = .ok (xs ++ xs) := by
    unfold CDiagram.run
    simp only [ne_eq, not_true_eq_false, ↓reduceIte]
    rw [runLoop_append _ _ _ _ _ (by simp)]
    have c := copies_run xs []
    simp only [List.nil_append, List.length_nil, Nat.zero_add] at c
    rw [c]
    have u := unshuffle_run xs.length xs xs [] [] rfl rfl
    simp only [List.nil_append, List.append_nil, List.length_nil] at u
    exact u
  refine ⟨_, copyD_eq _, rfl, rfl, hwf, hok, hrun, ?_⟩
  rw [call_eq_run hwf hok xs hx, hrun]
  rfl

/-! ### Naturality of swap, copy and discard (the cartesian axioms), as corollaries -/

theorem run_ok_length {d : CDiagram} {xs ys : List PyVal} (h : d.run xs = .ok ys) :
    xs.length = d.dom := by
  unfold CDiagram.run at h
  by_cases hl : xs.length = d.dom
  · exact hl
  · simp [hl] at h

/-- Calling `a >> b`: run `a`, run `b`, pack. -/
theorem call_then {a b : CDiagram} (ha : a.WF) (hb : b.WF) (hba : a.BoxesOK) (hbb : b.BoxesOK)
    (h : a.cod = b.dom) (xs : List PyVal) (hx : AllAtoms xs) :
    ∃ c, a.then b = .ok c ∧ c.WF ∧ c.BoxesOK ∧ c.run xs = (a.run xs).bind b.run ∧
      c.call xs = ((a.run xs).bind b.run).map untuplify := by
  refine ⟨_, then_ok h, then_wf ha hb h, boxesOK_append hba hbb, run_then ha hba h xs hx, ?_⟩
  rw [call_eq_run (then_wf ha hb h) (boxesOK_append hba hbb) xs hx, run_then ha hba h xs hx]

/-- **Naturality of swap**: `f @ g >> Swap(f.cod, g.cod)` and `Swap(f.dom, g.dom) >> g @ f`
    are both accepted and return the outputs of `g` followed by those of `f`. -/
theorem swap_natural {f g : CDiagram} (hf : f.WF) (hg : g.WF) (hbf : f.BoxesOK) (hbg : g.BoxesOK)
    {xs ys xs' ys' : List PyVal} (hx : AllAtoms xs) (hy : AllAtoms ys)
    (hfx : f.run xs = .ok xs') (hgy : g.run ys = .ok ys') :
    ∃ s1 s2 l r, swapD f.cod g.cod = .ok s1 ∧ swapD f.dom g.dom = .ok s2 ∧
      (f.tensor g).then s1 = .ok l ∧ s2.then (g.tensor f) = .ok r ∧
      l.call (xs ++ ys) = .ok (untuplify (ys' ++ xs')) ∧
      r.call (xs ++ ys) = .ok (untuplify (ys' ++ xs')) := by
  have hlx := run_ok_length hfx
  have hly := run_ok_length hgy
  have gx := run_good hf hbf hx hfx
  have gy := run_good hg hbg hy hgy
  obtain ⟨s1, hs1, d1, _, w1, o1, r1, _⟩ := swap_spec xs' ys' gx.2 gy.2
  obtain ⟨s2, hs2, _, c2, w2, o2, r2, _⟩ := swap_spec xs ys hx hy
  rw [gx.1, gy.1] at hs1 d1
  rw [hlx, hly] at hs2 c2
  obtain ⟨l, hl, _, _, _, cl⟩ := call_then (tensor_wf hf hg) w1 (tensor_boxesOK hbf hbg) o1
    (show (f.tensor g).cod = s1.dom by rw [d1]; rfl) (xs ++ ys) (hx.append hy)
  obtain ⟨r, hr, _, _, _, cr⟩ := call_then w2 (tensor_wf hg hf) o2 (tensor_boxesOK hbg hbf)
    (show s2.cod = (g.tensor f).dom by rw [c2]; rfl) (xs ++ ys) (hx.append hy)
  refine ⟨s1, s2, l, r, hs1, hs2, hl, hr, ?_, ?_⟩
  · rw [cl, run_tensor hf hbf xs ys hx hlx hly, hfx, hgy]
    show (s1.run (xs' ++ ys')).map untuplify = _
    rw [r1]; rfl
  · rw [cr, r2]
    show ((g.tensor f).run (ys ++ xs)).map untuplify = _
    rw [run_tensor hg hbg ys xs hy hly hlx, hgy, hfx]
    rfl

/-- **Naturality of copy**: `f >> Copy(f.cod)` and `Copy(f.dom) >> f @ f` both return the
    outputs of `f` twice. -/
theorem copy_natural {f : CDiagram} (hf : f.WF) (hbf : f.BoxesOK) {xs xs' : List PyVal}
    (hx : AllAtoms xs) (hfx : f.run xs = .ok xs') :
    ∃ c1 c2 l r, copyD f.cod = .ok c1 ∧ copyD f.dom = .ok c2 ∧
      f.then c1 = .ok l ∧ c2.then (f.tensor f) = .ok r ∧
      l.call xs = .ok (untuplify (xs' ++ xs')) ∧ r.call xs = .ok (untuplify (xs' ++ xs')) := by
  have hlx := run_ok_length hfx
  have gx := run_good hf hbf hx hfx
  obtain ⟨c1, hc1, d1, _, w1, o1, r1, _⟩ := copy_spec xs' gx.2
  obtain ⟨c2, hc2, _, k2, w2, o2, r2, _⟩ := copy_spec xs hx
  rw [gx.1] at hc1 d1
  rw [hlx] at hc2 k2
  obtain ⟨l, hl, _, _, _, cl⟩ := call_then hf w1 hbf o1 (by rw [d1]) xs hx
  obtain ⟨r, hr, _, _, _, cr⟩ := call_then w2 (tensor_wf hf hf) o2 (tensor_boxesOK hbf hbf)
    (show c2.cod = (f.tensor f).dom by rw [k2]; show 2 * f.dom = f.dom + f.dom; omega) xs hx
  refine ⟨c1, c2, l, r, hc1, hc2, hl, hr, ?_, ?_⟩
  · rw [cl, hfx]
    show (c1.run xs').map untuplify = _
    rw [r1]; rfl
  · rw [cr, r2]
    show ((f.tensor f).run (xs ++ xs)).map untuplify = _
    rw [run_tensor hf hbf xs xs hx hlx hlx, hfx]
    rfl

/-- **Naturality of discard**: `f >> Discard(f.cod)` returns `()` like `Discard(f.dom)`
    (for an `f` that returns at all: Python is strict, an exception in `f` is not discarded). -/
theorem discard_natural {f : CDiagram} (hf : f.WF) (hbf : f.BoxesOK) {xs xs' : List PyVal}
    (hx : AllAtoms xs) (hfx : f.run xs = .ok xs') :
    ∃ l, f.then (discardD f.cod) = .ok l ∧ l.call xs = .ok (.tup []) ∧
      (discardD f.dom).call xs = .ok (.tup []) := by
  have hlx := run_ok_length hfx
  have gx := run_good hf hbf hx hfx
  obtain ⟨d1, _, w1, o1, r1, _⟩ := discard_spec xs' gx.2
  obtain ⟨_, _, _, _, _, k2⟩ := discard_spec xs hx
  rw [gx.1] at d1 w1 o1 r1
  rw [hlx] at k2
  obtain ⟨l, hl, _, _, _, cl⟩ := call_then hf w1 hbf o1 (by rw [d1]) xs hx
  refine ⟨l, hl, ?_, k2⟩
  rw [cl, hfx]
  show ((discardD f.cod).run xs').map untuplify = _
  rw [r1]; rfl

/-! ### The pool: primitives that respect their declared arity (non-vacuity of `Respects`) -/

/-- A non-tuple value alone on a wire is that wire. -/
theorem tuplify_atom : ∀ {x : PyVal}, x.isAtom = true → tuplify x = [x]
  | .atom _, _ => rfl
  | .tok _ _, _ => rfl
  | .tup _, h => by simp [PyVal.isAtom] at h

theorem ofNum_isAtom (f : Bool) (a : Int) : (PyVal.ofNum f a).isAtom = true := by
  cases f <;> rfl

theorem addNum_isAtom {p q : Option (Bool × Int)} {v : PyVal} (h : addNum p q = .ok v) :
    v.isAtom = true := by
  match p, q, h with
  | some (f, a), some (g, b), h =>
    have : (Except.ok (PyVal.ofNum (f || g) (a + b)) : Except Err PyVal) = .ok v := h
    cases this
    exact ofNum_isAtom _ _

/-- `x + y` of two non-tuples, when it returns, is a non-tuple (numbers of every flavour). -/
theorem add_isAtom : ∀ {x y v : PyVal}, x.isAtom = true → y.isAtom = true →
    x.add y = .ok v → v.isAtom = true
  | .atom _, .atom _, _, _, _, h => by unfold PyVal.add at h; exact addNum_isAtom h
  | .atom _, .tok _ _, _, _, _, h => by unfold PyVal.add at h; exact addNum_isAtom h
  | .tok _ _, .atom _, _, _, _, h => by unfold PyVal.add at h; exact addNum_isAtom h
  | .tok _ _, .tok _ _, _, _, _, h => by unfold PyVal.add at h; exact addNum_isAtom h
  | .tup _, _, _, hx, _, _ => by simp [PyVal.isAtom] at hx
  | .atom _, .tup _, _, _, hy, _ => by simp [PyVal.isAtom] at hy
  | .tok _ _, .tup _, _, _, hy, _ => by simp [PyVal.isAtom] at hy

/-- `k * x` of a non-tuple, when it returns, is a non-tuple. -/
theorem rmul_isAtom (k : Int) : ∀ {x v : PyVal}, x.isAtom = true → x.rmul k = .ok v →
    v.isAtom = true
  | .tup _, _, hx, _ => by simp [PyVal.isAtom] at hx
  | .atom a, v, _, h => by
    have : (Except.ok (PyVal.ofNum false (k * a)) : Except Err PyVal) = .ok v := h
    cases this; rfl
  | .tok t a, v, _, h => by
    have h' : (match (PyVal.tok t a).num? with
      | some (f, a) => Except.ok (PyVal.ofNum f (k * a))
      | none => Except.error Err.type) = Except.ok v := h
    cases hn : (PyVal.tok t a).num? with
    | none => rw [hn] at h'; cases h'
    | some p =>
      obtain ⟨f, b⟩ := p
      rw [hn] at h'
      have : (Except.ok (PyVal.ofNum f (k * b)) : Except Err PyVal) = .ok v := h'
      cases this; exact ofNum_isAtom _ _

theorem ADD_respects : ADD.Respects := by
  intro xs v hl ha hv
  match xs, hl with
  | [x, y], _ =>
    have hv' : x.add y = .ok v := hv
    have hat := add_isAtom (ha x (by simp)) (ha y (by simp)) hv'
    rw [tuplify_atom hat]
    exact ⟨rfl, fun z hz => by simp at hz; rw [hz]; exact hat⟩

theorem affRow_atoms (j : Nat) : ∀ (xs : List PyVal) (i : Nat) (acc v : PyVal),
    acc.isAtom = true → AllAtoms xs → affRow j i acc xs = .ok v → v.isAtom = true
  | [], _, acc, v, hacc, _, h => by
    have : (Except.ok acc : Except Err PyVal) = .ok v := h
    cases this; exact hacc
  | x :: xs, i, acc, v, hacc, hx, h => by
    have h' : ((x.rmul ((i + j + 1 : Nat) : Int)).bind acc.add).bind
        (fun a => affRow j (i + 1) a xs) = .ok v := h
    cases h1 : x.rmul ((i + j + 1 : Nat) : Int) with
    | error e => rw [h1] at h'; cases h'
    | ok p =>
      rw [h1] at h'
      cases h2 : acc.add p with
      | error e =>
        have h'' : (acc.add p).bind (fun a => affRow j (i + 1) a xs) = .ok v := h'
        rw [h2] at h''; cases h''
      | ok a =>
        have h'' : (acc.add p).bind (fun a => affRow j (i + 1) a xs) = .ok v := h'
        rw [h2] at h''
        exact affRow_atoms j xs (i + 1) a v
          (add_isAtom hacc (rmul_isAtom _ (hx x (by simp)) h1) h2)
          (fun z hz => hx z (by simp [hz])) h''

theorem affOuts_atoms (s : Int) (xs : List PyVal) (h : AllAtoms xs) : ∀ (js : List Nat)
    (vs : List PyVal), affOuts s xs js = .ok vs → vs.length = js.length ∧ AllAtoms vs
  | [], vs, hv => by
    have : (Except.ok [] : Except Err (List PyVal)) = .ok vs := hv
    cases this; exact ⟨rfl, allAtoms_nil⟩
  | j :: js, vs, hv => by
    have hv' : (affRow j 0 (.atom (s + (j : Int))) xs).bind (fun v =>
      (affOuts s xs js).bind (fun vs => .ok (v :: vs))) = .ok vs := hv
    cases h1 : affRow j 0 (.atom (s + (j : Int))) xs with
    | error e => rw [h1] at hv'; cases hv'
    | ok r =>
      rw [h1] at hv'
      cases h2 : affOuts s xs js with
      | error e =>
        have h'' : (affOuts s xs js).bind (fun vs => Except.ok (r :: vs)) = .ok vs := hv'
        rw [h2] at h''; cases h''
      | ok ws =>
        have h'' : (affOuts s xs js).bind (fun vs => Except.ok (r :: vs)) = .ok vs := hv'
        rw [h2] at h''
        have : (Except.ok (r :: ws) : Except Err (List PyVal)) = .ok vs := h''
        cases this
        obtain ⟨hl, hat⟩ := affOuts_atoms s xs h js ws h2
        refine ⟨by simp [hl], ?_⟩
        intro z hz
        rcases List.mem_cons.mp hz with rfl | hz
        · exact affRow_atoms j xs 0 _ _ rfl h h1
        · exact hat z hz

/-- Every `affine m n s bare` box declared `m → n` respects its arity, for all arities
    including 0 and 1 and both conventions (bare value / 1-tuple) for a single output, on
    numbers of every flavour (on `None`, a dict, … it raises `TypeError`: nothing to respect). -/
theorem affine_respects (m n : Nat) (s : Int) (bare : Bool) :
    ((Prim.affine m n s bare).box m n).Respects := by
  intro xs v hl ha hv
  have hl' : xs.length = m := hl
  have hv' : Prim.sem (.affine m n s bare) xs = .ok v := hv
  simp only [Prim.sem, arity, hl', ne_eq, not_true_eq_false, ↓reduceIte] at hv'
  cases hvs : affOuts s xs (List.range n) with
  | error e => rw [hvs] at hv'; cases hv'
  | ok vs =>
    rw [hvs] at hv'
    obtain ⟨hlen, hat⟩ := affOuts_atoms s xs ha (List.range n) vs hvs
    have : (Except.ok (affPack n bare vs) : Except Err PyVal) = .ok v := hv'
    cases this
    rw [List.length_range] at hlen
    show (tuplify (affPack n bare vs)).length = n ∧ _
    unfold affPack
    split
    · rename_i hb
      obtain ⟨_, rfl⟩ := hb
      match vs, hlen, hat with
      | [r], _, hat =>
        have hr : r.isAtom = true := hat r (by simp)
        show (tuplify r).length = 1 ∧ AllAtoms (tuplify r)
        rw [tuplify_atom hr]
        exact ⟨rfl, hat⟩
    · exact ⟨hlen, hat⟩

/-- `tyc m i : m → 1` (the type of its i-th argument, as an int) respects its arity. -/
theorem tyc_respects (m i : Nat) : ((Prim.tyc m i).box m 1).Respects := by
  intro xs v hl ha hv
  have hl' : xs.length = m := hl
  have hv' : Prim.sem (.tyc m i) xs = .ok v := hv
  simp only [Prim.sem, arity, hl', ne_eq, not_true_eq_false, ↓reduceIte] at hv'
  split at hv'
  · cases hv'
    exact ⟨rfl, fun z hz => by simp [tuplify] at hz; simp [hz, PyVal.isAtom]⟩
  · cases hv'

/-- `const m v : m → 1` for a non-tuple `v` respects its arity (states when `m = 0`). -/
theorem const_respects (m : Nat) (v : PyVal) (hv : v.isAtom = true) :
    ((Prim.const m v).box m 1).Respects := by
  intro xs w hl _ hw
  have hl' : xs.length = m := hl
  have hw' : Prim.sem (.const m v) xs = .ok w := hw
  simp only [Prim.sem, arity, hl', ne_eq, not_true_eq_false, ↓reduceIte] at hw'
  cases hw'
  rw [tuplify_atom hv]
  exact ⟨rfl, fun z hz => by simp at hz; rw [hz]; exact hv⟩

/-- `proj m i : m → 1` hands back its i-th argument as it is (type included). -/
theorem proj_respects (m i : Nat) : ((Prim.proj m i).box m 1).Respects := by
  intro xs v hl ha hv
  have hl' : xs.length = m := hl
  have hv' : Prim.sem (.proj m i) xs = .ok v := hv
  simp only [Prim.sem, arity, hl', ne_eq, not_true_eq_false, ↓reduceIte] at hv'
  split at hv'
  · rename_i w hw
    cases hv'
    have hat : v.isAtom = true := ha v (List.mem_of_getElem? hw)
    rw [tuplify_atom hat]
    exact ⟨rfl, fun z hz => by simp at hz; rw [hz]; exact hat⟩
  · cases hv'

theorem pickAll_atoms {xs : List PyVal} (ha : AllAtoms xs) : ∀ (is : List Nat) (vs : List PyVal),
    pickAll xs is = .ok vs → vs.length = is.length ∧ AllAtoms vs
  | [], vs, h => by
    have : (Except.ok [] : Except Err (List PyVal)) = .ok vs := h
    cases this; exact ⟨rfl, allAtoms_nil⟩
  | i :: is, vs, h => by
    unfold pickAll at h
    split at h
    · rename_i v hv
      cases h2 : pickAll xs is with
      | error e => rw [h2] at h; cases h
      | ok ws =>
        rw [h2] at h
        have : (Except.ok (v :: ws) : Except Err (List PyVal)) = .ok vs := h
        cases this
        obtain ⟨hl, hat⟩ := pickAll_atoms ha is ws h2
        refine ⟨by simp [hl], ?_⟩
        intro z hz
        rcases List.mem_cons.mp hz with rfl | hz
        · exact ha _ (List.mem_of_getElem? hv)
        · exact hat z hz
    · cases h

/-- `pick m is : m → |is|` (any rearrangement, duplication, deletion of its arguments, handed back
    as they are) respects its arity. -/
theorem pick_respects (m : Nat) (is : List Nat) : ((Prim.pick m is).box m is.length).Respects := by
  intro xs v hl ha hv
  have hl' : xs.length = m := hl
  have hv' : Prim.sem (.pick m is) xs = .ok v := hv
  simp only [Prim.sem, arity, hl', ne_eq, not_true_eq_false, ↓reduceIte] at hv'
  cases h2 : pickAll xs is with
  | error e => rw [h2] at hv'; cases hv'
  | ok ws =>
    rw [h2] at hv'
    have : (Except.ok (PyVal.tup ws) : Except Err PyVal) = .ok v := hv'
    cases this
    exact pickAll_atoms ha is ws h2

/-- A hierarchical box whose function is the identity sub-diagram `Id(m)`. -/
theorem ident_respects (m : Nat) : ((Prim.ident m).box m m).Respects := by
  intro xs v hl ha hv
  have hl' : xs.length = m := hl
  have hv' : (Function.id m).call xs = .ok v := hv
  rw [call_of_length (F := Function.id m) hl'] at hv'
  have : v = untuplify xs := by
    have h : (Except.ok (untuplify xs) : Except Err PyVal) = .ok v := hv'
    cases h; rfl
  subst this
  rw [tuplify_untuplify ha]
  exact ⟨hl', ha⟩

end DV.Cart
