/-
  Proofs/TkImportRank.lean — the rank of a bit among the non-post-selected bits is below `n_bits`
  (tk.py:274, 323-324) when the post-selection keys are distinct bits of the circuit: a
  well-formed tket circuit is importable (C13).
-/
import Proofs.TkImportTotal

namespace DV.Tk
open DV

/-- Distinct naturals below `n` are at most `n`. -/
theorem nodup_length_le (n : Nat) (l : List Nat) (hn : l.Nodup) (hb : ∀ x ∈ l, x < n) : l.length ≤ n := by
  induction n generalizing l with
  | zero =>
    cases l with
    | nil => simp
    | cons x xs => exact absurd (hb x (by simp)) (by omega)
  | succ n ih =>
    have h1 := ih (l.erase n) (hn.erase n) (by
      intro x hx
      have := (List.Nodup.mem_erase_iff hn).mp hx
      have := hb x this.2
      omega)
    have h2 := List.length_erase (a := n) (l := l)
    split at h2 <;> omega

theorem rank_lt (ps : PS) (nb b : Nat) (hn : (ps.map (·.1)).Nodup) (hk : ∀ e ∈ ps, e.1 < nb) (hb : b < nb)
    (hnot : ps.has b = false) : b - psBelow ps b < nb - ps.length := by
  have hne : ∀ e ∈ ps, e.1 ≠ b := by
    intro e he h
    have : ps.has b = true := by
      simp only [PS.has, List.any_eq_true]
      exact ⟨e, he, by simp [h]⟩
    rw [hnot] at this; cases this
  -- the keys below and above b
  have hsplit : ps.length = (ps.filter fun e => e.1 < b).length + (ps.filter fun e => b < e.1).length := by
    have := List.length_eq_countP_add_countP (fun e : Nat × Nat => decide (e.1 < b)) (l := ps)
    rw [List.countP_eq_length_filter, List.countP_eq_length_filter] at this
    rw [this]
    congr 2
    apply List.filter_congr
    intro e he
    have := hne e he
    simp; omega
  have hbelow : ((ps.filter fun e => e.1 < b).map (·.1)).length ≤ b := by
    apply nodup_length_le
    · exact (hn.sublist (List.Sublist.map _ List.filter_sublist))
    · intro x hx
      simp only [List.mem_map, List.mem_filter, decide_eq_true_eq] at hx
      obtain ⟨e, ⟨_, h⟩, rfl⟩ := hx
      exact h
  have habove : (((ps.filter fun e => b < e.1).map (·.1)) ++ List.range (b + 1)).length ≤ nb := by
    apply nodup_length_le
    · rw [List.nodup_append]
      refine ⟨hn.sublist (List.Sublist.map _ List.filter_sublist), List.nodup_range, ?_⟩
      intro x hx y hy
      simp only [List.mem_map, List.mem_filter, decide_eq_true_eq] at hx
      obtain ⟨e, ⟨_, h⟩, rfl⟩ := hx
      simp only [List.mem_range] at hy
      omega
    · intro x hx
      simp only [List.mem_append, List.mem_map, List.mem_filter, decide_eq_true_eq, List.mem_range] at hx
      rcases hx with ⟨e, ⟨he, _⟩, rfl⟩ | hx
      · exact hk e he
      · omega
  simp only [List.length_append, List.length_map, List.length_range] at habove hbelow
  unfold psBelow
  omega

theorem importable_of_wellFormed {inp : TkIn} (h : inp.wellFormed = true) : inp.importable = true := by
  unfold TkIn.wellFormed at h
  simp only [Bool.and_eq_true, decide_eq_true_eq, List.all_eq_true] at h
  obtain ⟨⟨hc, hn⟩, hk⟩ := h
  unfold TkIn.importable
  rw [List.all_eq_true]
  intro c hcm
  have hw := hc c hcm
  unfold Cmd.wellFormed at hw
  by_cases hop : c.op = "Measure"
  · simp only [hop, if_true] at hw
    unfold Cmd.importable
    simp only [hop, if_true]
    match hq : c.qs, hb : c.bs, hw with
    | [q], [b], hw =>
      simp only [Bool.and_eq_true, decide_eq_true_eq] at hw
      simp only [Bool.and_eq_true, decide_eq_true_eq, Bool.or_eq_true, hw.1, true_and]
      cases hh : inp.ps.has b with
      | true => exact .inl rfl
      | false => exact .inr (rank_lt inp.ps inp.nb b hn hk hw.2 hh)
  · simpa only [hop, if_false] using hw

end DV.Tk
