/-
  Proofs/FunctorSum.lean — C04: functors are additive.  `F(a + b) = F(a) + F(b)`,
  `F(Sum([], dom, cod)) = Sum([], F dom, F cod)`, `F(Sum([d])) = Sum([F d])`, and `F` commutes with
  `Sum.then`, `Sum.tensor` (and `Sum.dagger` under the box-level dagger law), term by term.
-/
import Proofs.FunctorSlice
import Proofs.SumLaws
import Model.FunctorSum

namespace DV

/-! ### `list(map(F, terms))` as a relation -/

/-- `ys` are the images of `xs`, term by term (all applications succeed). -/
inductive Functor.Maps (F : Functor) : List Diagram → List Diagram → Prop
  | nil : Functor.Maps F [] []
  | cons {x y xs ys} : F.apply x = .ok y → Functor.Maps F xs ys → Functor.Maps F (x :: xs) (y :: ys)

theorem Functor.mapE_ok_iff (F : Functor) {xs ys : List Diagram} :
    mapE F.apply xs = .ok ys ↔ F.Maps xs ys := by
  constructor
  · intro h
    induction xs generalizing ys with
    | nil => simp only [mapE, Except.ok.injEq] at h; subst h; exact .nil
    | cons x xs ih =>
      simp only [mapE] at h
      split at h
      · cases h
      · rename_i y hy
        split at h
        · cases h
        · rename_i ys' hys
          cases h
          exact .cons hy (ih hys)
  · intro h
    induction h with
    | nil => rfl
    | cons hy _ ih => simp only [mapE, hy, ih]

theorem Functor.Maps.append {F : Functor} {as as' bs bs' : List Diagram} (ha : F.Maps as as')
    (hb : F.Maps bs bs') : F.Maps (as ++ bs) (as' ++ bs') := by
  induction ha with
  | nil => simpa using hb
  | cons hy _ ih => exact .cons hy ih

theorem Functor.Maps.mem {F : Functor} {xs ys : List Diagram} (h : F.Maps xs ys) {y : Diagram}
    (hy : y ∈ ys) : ∃ x ∈ xs, F.apply x = .ok y := by
  induction h with
  | nil => simp at hy
  | cons hx _ ih =>
    rcases List.mem_cons.mp hy with rfl | hy
    · exact ⟨_, List.mem_cons_self .., hx⟩
    · obtain ⟨x, hx1, hx2⟩ := ih hy
      exact ⟨x, List.mem_cons_of_mem _ hx1, hx2⟩

theorem Functor.Maps.map {F : Functor} {f f' : Diagram → Diagram} {bs bs' : List Diagram}
    (hb : F.Maps bs bs') (h : ∀ g ∈ bs, ∀ g', F.apply g = .ok g' → F.apply (f g) = .ok (f' g')) :
    F.Maps (bs.map f) (bs'.map f') := by
  induction hb with
  | nil => exact .nil
  | cons hy _ ih =>
    exact .cons (h _ (List.mem_cons_self ..) _ hy)
      (ih (fun g hg g' hg' => h g (List.mem_cons_of_mem _ hg) g' hg'))

/-- The images of `[op f g for f in as for g in bs]` are `[op' f' g' for f' in as' for g' in bs']`
    when `F` sends `op` to `op'` on every pair. -/
theorem Functor.Maps.prod {F : Functor} {op op' : Diagram → Diagram → Diagram}
    {as as' bs bs' : List Diagram} (ha : F.Maps as as') (hb : F.Maps bs bs')
    (h : ∀ f ∈ as, ∀ g ∈ bs, ∀ f' g', F.apply f = .ok f' → F.apply g = .ok g' →
      F.apply (op f g) = .ok (op' f' g')) :
    F.Maps (as.flatMap fun f => bs.map (op f)) (as'.flatMap fun f' => bs'.map (op' f')) := by
  induction ha with
  | nil => exact .nil
  | @cons x y xs ys hy _ ih =>
    simp only [List.flatMap_cons]
    exact Functor.Maps.append
      (hb.map (fun g hg g' hg' => h x (List.mem_cons_self ..) g hg y g' hy hg'))
      (ih (fun f hf g hg f' g' hf' hg' => h f (List.mem_cons_of_mem _ hf) g hg f' g' hf' hg'))

/-! ### Inversion and closed form of `F(sum)` -/

theorem Sum.mk?_some_inv {ts : List Diagram} {d c : Ty} {r : Sum}
    (h : Sum.mk? ts (some d) (some c) = .ok r) :
    (∀ t ∈ ts, t.dom = d ∧ t.cod = c) ∧ r = ⟨ts, d, c⟩ := by
  cases ts with
  | nil => simp only [Sum.mk?, Except.ok.injEq] at h; exact ⟨by simp, h.symm⟩
  | cons t ts =>
    simp only [Sum.mk?, Option.getD_some] at h
    split at h
    · rename_i hty
      cases h
      exact ⟨Sum.typesOk_iff.mp hty, rfl⟩
    · cases h

theorem Functor.applySum_inv (F : Functor) {s r : Sum} (h : F.applySum s = .ok r) :
    ∃ ts d c, F.Maps s.terms ts ∧ F.ty s.dom = .ok d ∧ F.ty s.cod = .ok c ∧
      (∀ t ∈ ts, t.dom = d ∧ t.cod = c) ∧ r = ⟨ts, d, c⟩ := by
  unfold Functor.applySum at h
  split at h
  · cases h
  · rename_i ts hts
    split at h
    · cases h
    · rename_i d hd
      split at h
      · cases h
      · rename_i c hc
        obtain ⟨hty, rfl⟩ := Sum.mk?_some_inv h
        exact ⟨ts, d, c, F.mapE_ok_iff.mp hts, hd, hc, hty, rfl⟩

theorem Functor.applySum_eq (F : Functor) {s : Sum} {ts : List Diagram} {d c : Ty}
    (hm : F.Maps s.terms ts) (hd : F.ty s.dom = .ok d) (hc : F.ty s.cod = .ok c)
    (hty : ∀ t ∈ ts, t.dom = d ∧ t.cod = c) : F.applySum s = .ok ⟨ts, d, c⟩ := by
  unfold Functor.applySum
  simp only [F.mapE_ok_iff.mpr hm, hd, hc]
  exact Sum.mk?_some hty

/-- `F` is well-typed on every box of every term. -/
def Functor.okOnSum (F : Functor) (s : Sum) : Prop := ∀ t ∈ s.terms, ∀ b ∈ t.boxes, F.okOn b

/-- Typing of the image of a sum: on a well-typed sum the constructor's re-validation of the images
    (cat.py:655-657) never fails, the image is a well-typed sum from `F(dom)` to `F(cod)`, and its
    terms are the images of the terms. -/
theorem Functor.applySum_props (F : Functor) {s : Sum} {ts : List Diagram} {d c : Ty} (hs : s.WF)
    (hok : F.okOnSum s) (hm : F.Maps s.terms ts) (hd : F.ty s.dom = .ok d)
    (hc : F.ty s.cod = .ok c) :
    F.applySum s = .ok ⟨ts, d, c⟩ ∧ (⟨ts, d, c⟩ : Sum).WF := by
  have hall : ∀ t ∈ ts, t.WF ∧ t.dom = d ∧ t.cod = c := by
    intro t ht
    obtain ⟨x, hx, hxt⟩ := hm.mem ht
    obtain ⟨xw, xd, xc⟩ := hs x hx
    obtain ⟨tw, td, tc⟩ := F.apply_props xw (hok x hx) hxt
    rw [xd, hd] at td; rw [xc, hc] at tc
    exact ⟨tw, (Except.ok.inj td).symm, (Except.ok.inj tc).symm⟩
  exact ⟨F.applySum_eq hm hd hc (fun t ht => (hall t ht).2), hall⟩

theorem Functor.applySum_wf (F : Functor) {s r : Sum} (hs : s.WF) (hok : F.okOnSum s)
    (h : F.applySum s = .ok r) : r.WF ∧ F.ty s.dom = .ok r.dom ∧ F.ty s.cod = .ok r.cod := by
  obtain ⟨ts, d, c, hm, hd, hc, _, rfl⟩ := F.applySum_inv h
  exact ⟨(F.applySum_props hs hok hm hd hc).2, hd, hc⟩

/-! ### The laws -/

/-- `F(Sum([], dom, cod)) = Sum([], F(dom), F(cod))`. -/
theorem Functor.applySum_zero (F : Functor) {dom cod d c : Ty} (hd : F.ty dom = .ok d)
    (hc : F.ty cod = .ok c) : F.applySum (Sum.zero dom cod) = .ok (Sum.zero d c) := by
  simp [Functor.applySum, Sum.zero, mapE, hd, hc, Sum.mk?]

/-- `F(Sum([x])) = Sum([F(x)])`. -/
theorem Functor.applySum_single (F : Functor) {x fx : Diagram} (hx : x.WF)
    (hok : ∀ b ∈ x.boxes, F.okOn b) (h : F.apply x = .ok fx) :
    F.applySum (Sum.single x) = .ok (Sum.single fx) := by
  obtain ⟨_, hd, hc⟩ := F.apply_props hx hok h
  exact F.applySum_eq (s := Sum.single x) (.cons h .nil) hd hc (by simp)

/-- `F(a + b) = F(a) + F(b)`: no hypothesis on the functor or on the terms beyond the two sums
    having the same types. -/
theorem Functor.applySum_add (F : Functor) {a b ab fa fb : Sum} (hd : a.dom = b.dom)
    (hc : a.cod = b.cod) (hab : a.add b = .ok ab) (hfa : F.applySum a = .ok fa)
    (hfb : F.applySum b = .ok fb) : ∃ r, fa.add fb = .ok r ∧ F.applySum ab = .ok r := by
  obtain ⟨_, rfl⟩ := Sum.mk?_some_inv hab
  obtain ⟨tsa, da, ca, hma, hda, hca, htya, rfl⟩ := F.applySum_inv hfa
  obtain ⟨tsb, db, cb, hmb, hdb, hcb, htyb, rfl⟩ := F.applySum_inv hfb
  rw [← hd, hda] at hdb; rw [← hc, hca] at hcb
  cases hdb; cases hcb
  have hty : ∀ t ∈ tsa ++ tsb, t.dom = da ∧ t.cod = ca := by
    intro t ht
    rcases List.mem_append.mp ht with h | h
    · exact htya t h
    · exact htyb t h
  exact ⟨⟨tsa ++ tsb, da, ca⟩, Sum.add_spec hty,
    F.applySum_eq (s := ⟨a.terms ++ b.terms, a.dom, a.cod⟩) (hma.append hmb) hda hca hty⟩

/-- `F(a >> b) = F(a) >> F(b)` for sums: the images of `[f >> g for f in a for g in b]`. -/
theorem Functor.applySum_then (F : Functor) {a b ab fa fb : Sum} (ha : a.WF) (hb : b.WF)
    (hoka : F.okOnSum a) (hokb : F.okOnSum b) (h : a.cod = b.dom) (hab : a.then b = .ok ab)
    (hfa : F.applySum a = .ok fa) (hfb : F.applySum b = .ok fb) :
    ∃ r, fa.then fb = .ok r ∧ F.applySum ab = .ok r := by
  rw [Sum.then_spec ha hb h] at hab
  cases hab
  obtain ⟨tsa, da, ca, hma, hda, hca, _, rfl⟩ := F.applySum_inv hfa
  obtain ⟨tsb, db, cb, hmb, hdb, hcb, _, rfl⟩ := F.applySum_inv hfb
  have faw := (F.applySum_props ha hoka hma hda hca).2
  have fbw := (F.applySum_props hb hokb hmb hdb hcb).2
  have hcd : ca = db := by rw [h, hdb] at hca; exact (Except.ok.inj hca).symm
  refine ⟨_, Sum.then_spec faw fbw hcd, ?_⟩
  have hm : F.Maps (a.thenD b).terms (Sum.thenD ⟨tsa, da, ca⟩ ⟨tsb, db, cb⟩).terms := by
    apply Functor.Maps.prod hma hmb
    intro f hf g hg f' g' hf' hg'
    obtain ⟨fw, _, fc⟩ := ha f hf
    obtain ⟨gw, gd, _⟩ := hb g hg
    obtain ⟨r, hr1, hr2⟩ := F.apply_then fw gw (hoka f hf)
      (Diagram.then_spec fw gw (by rw [fc, gd, h])) hf' hg'
    rw [(Diagram.then_ok' hr1).2] at hr2
    exact hr2
  exact F.applySum_eq (s := a.thenD b) hm hda hcb
    (fun t ht => (Sum.thenD_wf faw fbw hcd t ht).2)

/-- `F(a @ b) = F(a) @ F(b)` for sums. -/
theorem Functor.applySum_tensor (F : Functor) {a b ab fa fb : Sum} (ha : a.WF) (hb : b.WF)
    (hoka : F.okOnSum a) (hokb : F.okOnSum b) (hab : a.tensor b = .ok ab)
    (hfa : F.applySum a = .ok fa) (hfb : F.applySum b = .ok fb) :
    ∃ r, fa.tensor fb = .ok r ∧ F.applySum ab = .ok r := by
  rw [Sum.tensor_spec ha hb] at hab
  cases hab
  obtain ⟨tsa, da, ca, hma, hda, hca, _, rfl⟩ := F.applySum_inv hfa
  obtain ⟨tsb, db, cb, hmb, hdb, hcb, _, rfl⟩ := F.applySum_inv hfb
  have faw := (F.applySum_props ha hoka hma hda hca).2
  have fbw := (F.applySum_props hb hokb hmb hdb hcb).2
  refine ⟨_, Sum.tensor_spec faw fbw, ?_⟩
  have hm : F.Maps (a.tensorD b).terms (Sum.tensorD ⟨tsa, da, ca⟩ ⟨tsb, db, cb⟩).terms := by
    apply Functor.Maps.prod hma hmb
    intro f hf g hg f' g' hf' hg'
    exact F.apply_tensorD (ha f hf).1 (hb g hg).1 (hoka f hf) (hokb g hg) hf' hg'
  exact F.applySum_eq (s := a.tensorD b) hm (F.ty_append hda hdb) (F.ty_append hca hcb)
    (fun t ht => (Sum.tensorD_wf faw fbw t ht).2)

/-- `F(a†) = F(a)†` for sums whose boxes satisfy the box-level dagger law (cf. `apply_dagger`). -/
theorem Functor.applySum_dagger (F : Functor) {a a' fa : Sum} (ha : a.WF) (hok : F.okOnSum a)
    (hdag : ∀ t ∈ a.terms, ∀ b ∈ t.boxes, ∀ x, F.box b = .ok x → F.box b.dag = .ok x.dagger)
    (had : a.dagger = .ok a') (hfa : F.applySum a = .ok fa) :
    ∃ r, fa.dagger = .ok r ∧ F.applySum a' = .ok r := by
  rw [Sum.dagger_spec ha] at had
  cases had
  obtain ⟨ts, d, c, hm, hd, hc, _, rfl⟩ := F.applySum_inv hfa
  have faw := (F.applySum_props ha hok hm hd hc).2
  refine ⟨_, Sum.dagger_spec faw, ?_⟩
  have hm' : F.Maps a.daggerD.terms (Sum.daggerD ⟨ts, d, c⟩).terms := by
    apply hm.map
    intro g hg g' hg'
    exact F.apply_dagger (ha g hg).1 (hok g hg) (hdag g hg) hg'
  exact F.applySum_eq (s := a.daggerD) hm' hc hd (fun t ht => (Sum.daggerD_wf faw t ht).2)

end DV
