/-
  Proofs/ParamSeq.lean — lemmas about Model/ParamSeq.lean: the result of `subs` / `lambdify` is a
  coherent diagram (its three copies agree), so operations compose.
-/
import Model.ParamSeq
import Proofs.Param

namespace DV.Param

variable {R S T : Type}

theorem PLayer.dom_mapData (f : R → S) (l : PLayer R) : (l.mapData f).dom = l.dom := rfl
theorem PLayer.cod_mapData (f : R → S) (l : PLayer R) : (l.mapData f).cod = l.cod := rfl
theorem PLayer.box_mapData (f : R → S) (l : PLayer R) : (l.mapData f).box = l.box.mapData f := rfl
theorem PLayer.left_mapData (f : R → S) (l : PLayer R) : (l.mapData f).left = l.left := rfl

theorem chained_mapData (f : R → S) : ∀ (t : List Nat) (ls : List (PLayer R)),
    Chained t (ls.map (PLayer.mapData f)) ↔ Chained t ls
  | _, [] => Iff.rfl
  | t, l :: ls => by
    simp only [List.map_cons, Chained, PLayer.dom_mapData, PLayer.cod_mapData]
    exact and_congr Iff.rfl (chained_mapData f l.cod ls)

theorem codAfter_mapData (f : R → S) : ∀ (t : List Nat) (ls : List (PLayer R)),
    codAfter t (ls.map (PLayer.mapData f)) = codAfter t ls
  | _, [] => rfl
  | _, l :: ls => by
    simp only [List.map_cons, codAfter, PLayer.cod_mapData]
    exact codAfter_mapData f l.cod ls

/-- Composing whiskered boxes one by one onto `a` appends them to all three copies. -/
theorem thenAll_ofLayers : ∀ (ls : List (PLayer R)) (a : RDiagram R), Chained a.cod ls →
    a.thenAll (ls.map RDiagram.ofLayer) =
      .ok { dom := a.dom, cod := codAfter a.cod ls, boxes := a.boxes ++ ls.map (·.box),
            offsets := a.offsets ++ ls.map (·.left.length), layers := a.layers ++ ls }
  | [], a, _ => by simp [RDiagram.thenAll, codAfter]
  | l :: ls, a, h => by
    obtain ⟨h1, h2⟩ := h
    have hstep : a.thenOne (RDiagram.ofLayer l) =
        .ok { dom := a.dom, cod := l.cod, boxes := a.boxes ++ [l.box],
              offsets := a.offsets ++ [l.left.length], layers := a.layers ++ [l] } := by
      simp [RDiagram.thenOne, RDiagram.ofLayer, h1]
    simp only [List.map_cons, RDiagram.thenAll, hstep]
    rw [thenAll_ofLayers ls _ h2]
    simp [codAfter]

theorem ofLayers_coherent (dom : List Nat) (ls : List (PLayer R)) (h : Chained dom ls) :
    (RDiagram.ofLayers dom ls).Coherent := ⟨rfl, rfl, h, rfl⟩

/-- `subs` as the code writes it rebuilds ALL copies from the substituted layers. -/
theorem subs_eq (f : R → S) (d : RDiagram R) (h : Chained d.dom d.layers) :
    d.subs f = .ok (RDiagram.ofLayers d.dom (d.layers.map (PLayer.mapData f))) := by
  have hc : Chained (RDiagram.id (R := S) d.dom).cod (d.layers.map (PLayer.mapData f)) :=
    (chained_mapData f d.dom d.layers).mpr h
  have := thenAll_ofLayers (d.layers.map (PLayer.mapData f)) (RDiagram.id d.dom) hc
  have e : d.layers.map (fun l => RDiagram.ofLayer (l.mapData f))
      = (d.layers.map (PLayer.mapData f)).map RDiagram.ofLayer := by
    simp [List.map_map, Function.comp_def]
  simp only [RDiagram.subs]
  rw [e, this]
  simp [RDiagram.id, RDiagram.ofLayers]

theorem lambdify_eq_subs_seq (f : R → S) (d : RDiagram R) : d.lambdify f = d.subs f := rfl

theorem mapData_coherent (f : R → S) (d : RDiagram R) (h : d.Coherent) : (d.mapData f).Coherent := by
  refine ⟨?_, ?_, (chained_mapData f d.dom d.layers).mpr h.chained, ?_⟩
  · simp [RDiagram.mapData, h.boxes, List.map_map, PLayer.mapData, Function.comp_def]
  · simp [RDiagram.mapData, h.offsets, List.map_map, PLayer.mapData, Function.comp_def]
  · simp only [RDiagram.mapData, codAfter_mapData]
    exact h.cod

theorem subs_of_coherent (f : R → S) (d : RDiagram R) (h : d.Coherent) :
    d.subs f = .ok (d.mapData f) := by
  rw [subs_eq f d h.chained]
  congr 1
  simp [RDiagram.ofLayers, RDiagram.mapData, h.boxes, h.offsets, h.cod, codAfter_mapData,
    List.map_map, PLayer.mapData, Function.comp_def]

theorem RDiagram.mapData_mapData (f : R → S) (g : S → T) (d : RDiagram R) :
    (d.mapData f).mapData g = d.mapData (g ∘ f) := by
  simp [RDiagram.mapData, List.map_map, PLayer.mapData, PBox.mapData, Function.comp_def]

theorem sliceL_map {α β : Type} (g : α → β) (i j : Nat) (xs : List α) :
    sliceL i j (xs.map g) = (sliceL i j xs).map g := by
  simp [sliceL, List.map_drop, List.map_take]

theorem getLast?_getD_map (f : R → S) (l : PLayer R) (ls : List (PLayer R)) :
    (((l :: ls).map (PLayer.mapData f)).getLast?.getD (l.mapData f))
      = (((l :: ls).getLast?.getD l)).mapData f := by
  rw [List.getLast?_map]
  cases (l :: ls).getLast? <;> rfl

/-- Slicing reads the layers only, and commutes with rebuilding the boxes. -/
theorem slice_mapData (f : R → S) (i j : Nat) (d : RDiagram R) :
    (d.mapData f).slice i j = (d.slice i j).mapData f := by
  unfold RDiagram.slice
  have hs : sliceL i j (d.mapData f).layers = (sliceL i j d.layers).map (PLayer.mapData f) :=
    sliceL_map _ i j d.layers
  rw [hs]
  cases hl : sliceL i j d.layers with
  | nil =>
    simp only [List.map_nil]
    have hlen : (d.mapData f).layers.length = d.layers.length := by simp [RDiagram.mapData]
    rw [hlen]
    split
    · rfl
    · have hget : (d.mapData f).layers[i]? = (d.layers[i]?).map (PLayer.mapData f) := by
        simp [RDiagram.mapData]
      rw [hget]
      cases d.layers[i]? <;> rfl
  | cons l ls =>
    simp only [List.map_cons]
    have := getLast?_getD_map f l ls
    simp only [List.map_cons] at this
    rw [this]
    simp [RDiagram.mapData, PLayer.cod_mapData, PLayer.dom_mapData, PLayer.box_mapData,
      PLayer.left_mapData, List.map_map, Function.comp_def]

theorem slice_boxes_of_coherent (i j : Nat) (d : RDiagram R) (h : d.Coherent) :
    (d.slice i j).boxes = sliceL i j d.boxes ∧ (d.slice i j).offsets = sliceL i j d.offsets := by
  rw [h.boxes, h.offsets, sliceL_map, sliceL_map]
  unfold RDiagram.slice
  cases hl : sliceL i j d.layers with
  | nil =>
    simp only [List.map_nil]
    split
    · exact ⟨rfl, rfl⟩
    · cases d.layers[i]? <;> exact ⟨rfl, rfl⟩
  | cons l ls => exact ⟨rfl, rfl⟩

/-- Reading a coherent diagram through boxes and offsets recovers its layers. -/
theorem layersOfBoxes_of_chained : ∀ (ls : List (PLayer R)) (t : List Nat), Chained t ls →
    layersOfBoxes t (ls.map (·.box)) (ls.map (·.left.length)) = ls
  | [], _, _ => rfl
  | l :: ls, t, h => by
    obtain ⟨h1, h2⟩ := h
    subst h1
    have e1 : l.dom.take l.left.length = l.left := by
      simp [PLayer.dom, List.append_assoc]
    have e2 : l.dom.drop (l.left.length + l.box.dom.length) = l.right := by
      simp [PLayer.dom, List.append_assoc, List.drop_append]
    simp only [List.map_cons, layersOfBoxes, e1, e2]
    have hcod : l.left ++ l.box.cod ++ l.right = l.cod := rfl
    rw [hcod, layersOfBoxes_of_chained ls l.cod h2]

theorem evalBoxes_eq_eval [Add R] [Mul R] [Zero R] [One R] [HasConj R] (d : RDiagram R)
    (h : d.Coherent) : d.evalBoxes = d.eval := by
  unfold RDiagram.evalBoxes RDiagram.eval
  rw [h.boxes, h.offsets, layersOfBoxes_of_chained d.layers d.dom h.chained]

end DV.Param
