/-
  Proofs/Foliate.lean — every diagram yielded by `foliate` is reached from the input by
  interchanges only (hence well-typed, same type, same boxes, same denotation), and every slice
  is well-typed.
-/
import Proofs.Interchange
import Model.Foliate

namespace DV

/-- Reachability by (general) interchanges. -/
inductive IReach : Diagram → Diagram → Prop
  | refl (d : Diagram) : IReach d d
  | step {a b c : Diagram} : IReach a b → (∃ i j left, b.interchange i j left = .ok c) → IReach a c

theorem IReach.trans {a b c : Diagram} (h1 : IReach a b) (h2 : IReach b c) : IReach a c := by
  induction h2 with
  | refl => exact h1
  | step _ hs ih => exact .step ih hs

theorem IReach.wf {d d' : Diagram} (hd : d.WF) (h : IReach d d') :
    d'.WF ∧ d'.dom = d.dom ∧ d'.cod = d.cod ∧ d'.boxes.Perm d.boxes := by
  induction h with
  | refl => exact ⟨hd, rfl, rfl, List.Perm.refl _⟩
  | step _ hs ih =>
    obtain ⟨w, a, b, p⟩ := ih
    obtain ⟨i, j, left, hij⟩ := hs
    obtain ⟨w', a', b'⟩ := Diagram.interchange_wf w hij
    exact ⟨w', a'.trans a, b'.trans b, (Diagram.interchange_perm w hij).trans p⟩

theorem IReach.sound {O M : Type} {C : SMC O M} (F : MFunctor C) {d d' : Diagram} (hd : d.WF)
    (h : IReach d d') : F.eval d' = F.eval d := by
  induction h with
  | refl => rfl
  | step hr hs ih =>
    obtain ⟨i, j, left, hij⟩ := hs
    exact (Diagram.interchange_sound F (hr.wf hd).1 hij).trans ih

theorem tryInterchange_reach {d r : Diagram} {i j : Nat} (h : tryInterchange d i j = .ok (some r)) :
    IReach d r := by
  unfold tryInterchange at h
  split at h
  · rename_i r' hr
    simp only [Except.ok.injEq, Option.some.injEq] at h
    subst h
    exact .step (.refl d) ⟨i, j, false, hr⟩
  · cases h
  · cases h

theorem moveInSlice_reach {fuel first last k : Nat} {d r : Diagram}
    (h : moveInSlice fuel first last k d = .ok (some r)) : IReach d r := by
  induction fuel generalizing last k d with
  | zero => simp [moveInSlice] at h
  | succ fuel ih =>
    simp only [moveInSlice] at h
    split at h
    · cases h
    · cases h
    · rename_i result hres
      have h0 : IReach d result := by
        split at hres
        · simp only [Except.ok.injEq, Option.some.injEq] at hres; subst hres; exact .refl d
        · exact tryInterchange_reach hres
      split at h
      · cases h
      · cases h
      · simp only [Except.ok.injEq, Option.some.injEq] at h; subst h; exact h0
      · split at h
        · cases h
        · cases h
        · rename_i result' hres'
          have h1 : IReach d result' := h0.trans (tryInterchange_reach hres')
          split at h
          · simp only [Except.ok.injEq, Option.some.injEq] at h; subst h; exact h1
          · exact h1.trans (ih h)

theorem sliceLoop_reach {first n last k : Nat} {d0 d d' : Diagram} {acc steps : List Diagram}
    {last' : Nat} (hd : IReach d0 d) (hacc : ∀ s ∈ acc, IReach d0 s)
    (h : sliceLoop first n last k d acc = .ok (d', last', steps)) :
    IReach d0 d' ∧ ∀ s ∈ steps, IReach d0 s := by
  induction n generalizing last k d acc with
  | zero =>
    simp only [sliceLoop, Except.ok.injEq, Prod.mk.injEq] at h
    obtain ⟨rfl, _, rfl⟩ := h
    exact ⟨hd, hacc⟩
  | succ n ih =>
    simp only [sliceLoop] at h
    split at h
    · cases h
    · exact ih hd hacc h
    · rename_i r hr
      have hr' : IReach d0 r := hd.trans (moveInSlice_reach hr)
      refine ih hr' ?_ h
      intro s hs
      rcases List.mem_append.mp hs with hs | hs
      · exact hacc s hs
      · simp at hs; subst hs; exact hr'

theorem foliateLoop_reach {fuel start : Nat} {d0 d : Diagram} {steps slices out outSlices : List Diagram}
    (hd0 : d0.WF) (hd : IReach d0 d) (hsteps : ∀ s ∈ steps, IReach d0 s)
    (hslices : ∀ s ∈ slices, s.WF)
    (h : foliateLoop fuel start d steps slices = .ok (out, outSlices)) :
    (∀ s ∈ out, IReach d0 s) ∧ (∀ s ∈ outSlices, s.WF) := by
  induction fuel generalizing start d steps slices with
  | zero =>
    simp only [foliateLoop, Except.ok.injEq, Prod.mk.injEq] at h
    obtain ⟨rfl, rfl⟩ := h
    exact ⟨hsteps, hslices⟩
  | succ fuel ih =>
    simp only [foliateLoop] at h
    split at h
    · split at h
      · cases h
      · rename_i d' last new hloop
        obtain ⟨hd', hnew⟩ := sliceLoop_reach (d0 := d0) hd (by simp) hloop
        split at h
        · cases h
        · rename_i sl hsl
          have hslw : sl.WF := Diagram.slice_wf _ _ (hd'.wf hd0).1 hsl
          refine ih hd' ?_ ?_ h
          · intro s hs
            rcases List.mem_append.mp hs with hs | hs
            · exact hsteps s hs
            · exact hnew s hs
          · intro s hs
            rcases List.mem_append.mp hs with hs | hs
            · exact hslices s hs
            · simp at hs; subst hs; exact hslw
    · simp only [Except.ok.injEq, Prod.mk.injEq] at h
      obtain ⟨rfl, rfl⟩ := h
      exact ⟨hsteps, hslices⟩

/-- Every diagram yielded by `foliate` is reached from the input by interchanges, and every slice
    is well-typed. -/
theorem Diagram.foliate_reach {d : Diagram} {steps slices : List Diagram} (hd : d.WF)
    (h : d.foliate = .ok (steps, slices)) :
    (∀ s ∈ steps, IReach d s) ∧ (∀ s ∈ slices, s.WF) :=
  foliateLoop_reach hd (.refl d) (by simp) (by simp) h

end DV
