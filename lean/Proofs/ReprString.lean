/-
  Proofs/ReprString.lean — the printed STRING determines the printed syntax tree.

  `RT.render` is uniquely decodable on trees whose atoms (name / data tokens, integer literals,
  constructor and keyword names) are "safe words": non-empty and free of the six characters
  `, ( ) [ ] =` that carry the bracket structure.  This is the explicit token-hygiene hypothesis:
  it holds for the reprs of identifier-like strings (`'abc'`), ints and floats; it does NOT hold
  for list- or dict-valued `data` (those print with brackets and commas of their own).

  Method: work on `List Char`; a safe word followed by a terminator splits uniquely
  (`word_split`); every node is recognised by its head word and the character after it
  (`(` call, `=` keyword, `[` list, a delimiter: atom); arguments are decoded left to right.
-/
import Proofs.Eq

namespace DV

/-! ### Safe words -/

/-- The characters that carry structure in the printed form. -/
def structural (c : Char) : Bool :=
  c == ',' || c == '(' || c == ')' || c == '[' || c == ']' || c == '='

def SafeWord (w : List Char) : Prop := ∀ c ∈ w, structural c = false

/-- Token hygiene: non-empty, no structural character. -/
def SafeTok (s : String) : Prop := s.toList ≠ [] ∧ SafeWord s.toList

/-- What may follow an atom: end of text, or a character that closes / separates arguments. -/
def Delim (u : List Char) : Prop := u = [] ∨ ∃ c r, u = c :: r ∧ (c = ',' ∨ c = ')' ∨ c = ']')

/-- What ends a word: end of text or any structural character. -/
def Stop (u : List Char) : Prop := u = [] ∨ ∃ c r, u = c :: r ∧ structural c = true

theorem Delim.stop {u : List Char} (h : Delim u) : Stop u := by
  rcases h with rfl | ⟨c, r, rfl, hc⟩
  · exact .inl rfl
  · refine .inr ⟨c, r, rfl, ?_⟩
    rcases hc with rfl | rfl | rfl <;> decide

theorem stop_cons {c : Char} {r : List Char} (h : structural c = true) : Stop (c :: r) :=
  .inr ⟨c, r, rfl, h⟩

theorem word_split {x y u v : List Char} (hx : SafeWord x) (hy : SafeWord y) (hu : Stop u)
    (hv : Stop v) (h : x ++ u = y ++ v) : x = y ∧ u = v := by
  induction x generalizing y with
  | nil =>
    cases y with
    | nil => exact ⟨rfl, by simpa using h⟩
    | cons c y =>
      exfalso
      simp only [List.nil_append, List.cons_append] at h
      rcases hu with rfl | ⟨c', r, rfl, hc'⟩
      · cases h
      · simp only [List.cons.injEq] at h
        have := hy c (by simp)
        rw [← h.1, hc'] at this
        cases this
  | cons c x ih =>
    cases y with
    | nil =>
      exfalso
      simp only [List.nil_append, List.cons_append] at h
      rcases hv with rfl | ⟨c', r, rfl, hc'⟩
      · cases h
      · simp only [List.cons.injEq] at h
        have := hx c (by simp)
        rw [h.1, hc'] at this
        cases this
    | cons d y =>
      simp only [List.cons_append, List.cons.injEq] at h
      obtain ⟨rfl, h⟩ := h
      obtain ⟨e1, e2⟩ := ih (fun a ha => hx a (by simp [ha])) (fun a ha => hy a (by simp [ha])) h
      exact ⟨by rw [e1], e2⟩

/-! ### Rendering on character lists -/

mutual
def RT.chars : RT → List Char
  | .tok s => s.toList
  | .call fn args => fn.toList ++ '(' :: (RT.charsArgs args ++ [')'])
  | .kw key v => key.toList ++ '=' :: v.chars
  | .list xs => '[' :: (RT.charsArgs xs ++ [']'])
  | .callm fn args m => fn.toList ++ '(' :: (RT.charsArgs args ++ ')' :: '.' :: (m.toList ++ ['(', ')']))
def RT.charsArgs : List RT → List Char
  | [] => []
  | [x] => x.chars
  | x :: y :: r => x.chars ++ ',' :: ' ' :: RT.charsArgs (y :: r)
end

mutual
theorem RT.render_toList : ∀ t : RT, t.render.toList = t.chars
  | .tok s => by simp [RT.render, RT.chars]
  | .call fn args => by
    simp [RT.render, RT.chars, String.toList_append, RT.renderArgs_toList args]
  | .kw key v => by simp [RT.render, RT.chars, String.toList_append, RT.render_toList v]
  | .list xs => by simp [RT.render, RT.chars, String.toList_append, RT.renderArgs_toList xs]
  | .callm fn args m => by
    simp [RT.render, RT.chars, String.toList_append, RT.renderArgs_toList args]
theorem RT.renderArgs_toList : ∀ ts : List RT, (RT.renderArgs ts).toList = RT.charsArgs ts
  | [] => by simp [RT.renderArgs, RT.charsArgs]
  | [x] => by simp [RT.renderArgs, RT.charsArgs, RT.render_toList x]
  | x :: y :: r => by
    simp [RT.renderArgs, RT.charsArgs, String.toList_append, RT.render_toList x,
      RT.renderArgs_toList (y :: r)]
end

/-! ### Hygienic trees -/

mutual
/-- Every atom, constructor name, keyword and method name is a safe word. -/
def RT.Good : RT → Prop
  | .tok s => SafeTok s
  | .call fn args => SafeTok fn ∧ RT.GoodList args
  | .kw key v => SafeTok key ∧ v.Good
  | .list xs => RT.GoodList xs
  | .callm fn args m => SafeTok fn ∧ RT.GoodList args ∧ SafeTok m
def RT.GoodList : List RT → Prop
  | [] => True
  | x :: xs => x.Good ∧ RT.GoodList xs
end

theorem RT.goodList_iff {xs : List RT} : RT.GoodList xs ↔ ∀ x ∈ xs, x.Good := by
  induction xs with
  | nil => simp [RT.GoodList]
  | cons x xs ih => simp [RT.GoodList, ih]

/-- The text after the first argument: a closer, or `, ` and the remaining arguments. -/
def tailC (xs : List RT) (c : Char) (u : List Char) : List Char :=
  match xs with
  | [] => c :: u
  | y :: r => ',' :: ' ' :: (RT.charsArgs (y :: r) ++ c :: u)

theorem charsArgs_cons (x : RT) (xs : List RT) (c : Char) (u : List Char) :
    RT.charsArgs (x :: xs) ++ c :: u = x.chars ++ tailC xs c u := by
  cases xs with
  | nil => simp [RT.charsArgs, tailC]
  | cons y r => simp [RT.charsArgs, tailC]

theorem tailC_delim (xs : List RT) {c : Char} (hc : c = ')' ∨ c = ']') (u : List Char) :
    Delim (tailC xs c u) := by
  cases xs with
  | nil => exact .inr ⟨c, u, rfl, .inr hc⟩
  | cons y r => exact .inr ⟨',', _, rfl, .inl rfl⟩

/-- A hygienic tree never starts with a closer or a comma. -/
theorem RT.Good.head {t : RT} (h : t.Good) :
    ∃ c r, t.chars = c :: r ∧ c ≠ ')' ∧ c ≠ ']' ∧ c ≠ ',' := by
  have word : ∀ (s : String) (rest : List Char), SafeTok s →
      ∃ c r, s.toList ++ rest = c :: r ∧ c ≠ ')' ∧ c ≠ ']' ∧ c ≠ ',' := by
    intro s rest hs
    cases hl : s.toList with
    | nil => exact absurd hl hs.1
    | cons c w =>
      have := hs.2 c (by simp [hl])
      refine ⟨c, w ++ rest, rfl, ?_, ?_, ?_⟩ <;> (rintro rfl; revert this; decide)
  cases t with
  | tok s => simpa [RT.chars] using word s [] h
  | call fn args => exact word fn _ h.1
  | kw key v => exact word key _ h.1
  | list xs => exact ⟨'[', _, rfl, by decide, by decide, by decide⟩
  | callm fn args m => exact word fn _ h.1

/-- Atoms against compound nodes: a compound node continues its head word with `(`, `=` or is a
    list; an atom is followed by a delimiter. -/
theorem tok_ne_compound {s : String} {t : RT} (hs : SafeTok s) (ht : t.Good) (hnt : ∀ a, t ≠ .tok a)
    {u v : List Char} (hu : Delim u) (h : s.toList ++ u = t.chars ++ v) : False := by
  have key : ∀ (w : String) (c : Char) (rest : List Char), SafeTok w → (c = '(' ∨ c = '=') →
      s.toList ++ u = w.toList ++ c :: rest → False := by
    intro w c rest hw hc e
    have hstop : Stop (c :: rest) := stop_cons (by rcases hc with rfl | rfl <;> decide)
    obtain ⟨_, e2⟩ := word_split hs.2 hw.2 hu.stop hstop e
    rcases hu with rfl | ⟨d, r, rfl, hd⟩
    · cases e2
    · simp only [List.cons.injEq] at e2
      rcases hc with rfl | rfl <;> rcases hd with rfl | rfl | rfl <;> simp at e2
  cases t with
  | tok a => exact hnt a rfl
  | call fn args => exact key fn '(' _ ht.1 (.inl rfl) (by simpa [RT.chars] using h)
  | kw k x => exact key k '=' _ ht.1 (.inr rfl) (by simpa [RT.chars] using h)
  | callm fn args m => exact key fn '(' _ ht.1 (.inl rfl) (by simpa [RT.chars] using h)
  | list xs =>
    cases hl : s.toList with
    | nil => exact hs.1 hl
    | cons c w =>
      have := hs.2 c (by simp [hl])
      simp only [hl, RT.chars, List.cons_append, List.cons.injEq] at h
      rw [h.1] at this
      revert this; decide

theorem String.eq_of_toList_eq {a b : String} (h : a.toList = b.toList) : a = b :=
  String.toList_inj.mp h

/-! ### Unique decoding -/

mutual
/-- A hygienic tree followed by a delimiter is read back uniquely. -/
theorem RT.dec : ∀ (s t : RT) (u v : List Char), s.Good → t.Good → Delim u → Delim v →
    s.chars ++ u = t.chars ++ v → s = t ∧ u = v
  | .tok a, t, u, v, hs, ht, hu, hv, h => by
    cases t with
    | tok b =>
      obtain ⟨e1, e2⟩ := word_split hs.2 ht.2 hu.stop hv.stop (by simpa [RT.chars] using h)
      exact ⟨by rw [String.eq_of_toList_eq e1], e2⟩
    | call fn args => exact (tok_ne_compound hs ht (by simp) hu (by simpa [RT.chars] using h)).elim
    | kw k x => exact (tok_ne_compound hs ht (by simp) hu (by simpa [RT.chars] using h)).elim
    | list xs => exact (tok_ne_compound hs ht (by simp) hu (by simpa [RT.chars] using h)).elim
    | callm fn args m =>
      exact (tok_ne_compound hs ht (by simp) hu (by simpa [RT.chars] using h)).elim
  | .call fn args, t, u, v, hs, ht, hu, hv, h => by
    cases t with
    | tok b => exact (tok_ne_compound ht hs (by simp) hv (by simpa [RT.chars] using h.symm)).elim
    | call fn' args' =>
      simp only [RT.chars, List.append_assoc, List.cons_append, List.nil_append] at h
      obtain ⟨e1, e2⟩ := word_split hs.1.2 ht.1.2 (stop_cons (by decide)) (stop_cons (by decide)) h
      simp only [List.cons.injEq, true_and] at e2
      obtain ⟨e3, e4⟩ := RT.decArgs args args' ')' u v (.inl rfl) hs.2 ht.2 e2
      exact ⟨by rw [String.eq_of_toList_eq e1, e3], e4⟩
    | kw k x =>
      simp only [RT.chars, List.append_assoc, List.cons_append, List.nil_append] at h
      obtain ⟨_, e2⟩ := word_split hs.1.2 ht.1.2 (stop_cons (by decide)) (stop_cons (by decide)) h
      simp at e2
    | list xs =>
      obtain ⟨c, r, e, _⟩ := hs.head
      have := hs.1
      exfalso
      cases hl : fn.toList with
      | nil => exact this.1 hl
      | cons c w =>
        have hc := this.2 c (by simp [hl])
        simp only [RT.chars, hl, List.cons_append, List.cons.injEq] at h
        rw [h.1] at hc
        revert hc; decide
    | callm fn' args' m =>
      simp only [RT.chars, List.append_assoc, List.cons_append, List.nil_append] at h
      obtain ⟨e1, e2⟩ := word_split hs.1.2 ht.1.2 (stop_cons (by decide)) (stop_cons (by decide)) h
      simp only [List.cons.injEq, true_and] at e2
      obtain ⟨_, e4⟩ := RT.decArgs args args' ')' u _ (.inl rfl) hs.2 ht.2.1 e2
      exfalso
      rcases hu with rfl | ⟨d, r, rfl, hd⟩
      · cases e4
      · simp only [List.cons.injEq] at e4
        rcases hd with rfl | rfl | rfl <;> simp at e4
  | .kw k x, t, u, v, hs, ht, hu, hv, h => by
    cases t with
    | tok b => exact (tok_ne_compound ht hs (by simp) hv (by simpa [RT.chars] using h.symm)).elim
    | call fn' args' =>
      simp only [RT.chars, List.append_assoc, List.cons_append, List.nil_append] at h
      obtain ⟨_, e2⟩ := word_split hs.1.2 ht.1.2 (stop_cons (by decide)) (stop_cons (by decide)) h
      simp at e2
    | kw k' y =>
      simp only [RT.chars, List.append_assoc, List.cons_append] at h
      obtain ⟨e1, e2⟩ := word_split hs.1.2 ht.1.2 (stop_cons (by decide)) (stop_cons (by decide)) h
      simp only [List.cons.injEq, true_and] at e2
      obtain ⟨e3, e4⟩ := RT.dec x y u v hs.2 ht.2 hu hv e2
      exact ⟨by rw [String.eq_of_toList_eq e1, e3], e4⟩
    | list xs =>
      exfalso
      cases hl : k.toList with
      | nil => exact hs.1.1 hl
      | cons c w =>
        have hc := hs.1.2 c (by simp [hl])
        simp only [RT.chars, hl, List.cons_append, List.cons.injEq] at h
        rw [h.1] at hc
        revert hc; decide
    | callm fn' args' m =>
      simp only [RT.chars, List.append_assoc, List.cons_append, List.nil_append] at h
      obtain ⟨_, e2⟩ := word_split hs.1.2 ht.1.2 (stop_cons (by decide)) (stop_cons (by decide)) h
      simp at e2
  | .list xs, t, u, v, hs, ht, hu, hv, h => by
    have not_word : ∀ (w : String) (rest : List Char), SafeTok w →
        '[' :: (RT.charsArgs xs ++ ']' :: u) = w.toList ++ rest → False := by
      intro w rest hw e
      cases hl : w.toList with
      | nil => exact hw.1 hl
      | cons c r =>
        have hc := hw.2 c (by simp [hl])
        simp only [hl, List.cons_append, List.cons.injEq] at e
        rw [← e.1] at hc
        revert hc; decide
    cases t with
    | tok b => exact (tok_ne_compound ht hs (by simp) hv (by simpa [RT.chars] using h.symm)).elim
    | call fn' args' => exact (not_word fn' _ ht.1 (by simpa [RT.chars] using h)).elim
    | kw k' y => exact (not_word k' _ ht.1 (by simpa [RT.chars] using h)).elim
    | callm fn' args' m => exact (not_word fn' _ ht.1 (by simpa [RT.chars] using h)).elim
    | list ys =>
      simp only [RT.chars, List.append_assoc, List.cons_append, List.nil_append, List.cons.injEq,
        true_and] at h
      obtain ⟨e3, e4⟩ := RT.decArgs xs ys ']' u v (.inr rfl) hs ht h
      exact ⟨by rw [e3], e4⟩
  | .callm fn args m, t, u, v, hs, ht, hu, hv, h => by
    cases t with
    | tok b => exact (tok_ne_compound ht hs (by simp) hv (by simpa [RT.chars] using h.symm)).elim
    | call fn' args' =>
      simp only [RT.chars, List.append_assoc, List.cons_append, List.nil_append] at h
      obtain ⟨e1, e2⟩ := word_split hs.1.2 ht.1.2 (stop_cons (by decide)) (stop_cons (by decide)) h
      simp only [List.cons.injEq, true_and] at e2
      obtain ⟨_, e4⟩ := RT.decArgs args args' ')' _ v (.inl rfl) hs.2.1 ht.2 e2
      exfalso
      rcases hv with rfl | ⟨d, r, rfl, hd⟩
      · cases e4
      · simp only [List.cons.injEq] at e4
        rcases hd with rfl | rfl | rfl <;> simp at e4
    | kw k' y =>
      simp only [RT.chars, List.append_assoc, List.cons_append, List.nil_append] at h
      obtain ⟨_, e2⟩ := word_split hs.1.2 ht.1.2 (stop_cons (by decide)) (stop_cons (by decide)) h
      simp at e2
    | list ys =>
      exfalso
      cases hl : fn.toList with
      | nil => exact hs.1.1 hl
      | cons c w =>
        have hc := hs.1.2 c (by simp [hl])
        simp only [RT.chars, hl, List.cons_append, List.cons.injEq] at h
        rw [h.1] at hc
        revert hc; decide
    | callm fn' args' m' =>
      simp only [RT.chars, List.append_assoc, List.cons_append, List.nil_append] at h
      obtain ⟨e1, e2⟩ := word_split hs.1.2 ht.1.2 (stop_cons (by decide)) (stop_cons (by decide)) h
      simp only [List.cons.injEq, true_and] at e2
      obtain ⟨e3, e4⟩ := RT.decArgs args args' ')' _ _ (.inl rfl) hs.2.1 ht.2.1 e2
      simp only [List.cons.injEq, true_and] at e4
      obtain ⟨e5, e6⟩ := word_split hs.2.2.2 ht.2.2.2 (stop_cons (by decide)) (stop_cons (by decide)) e4
      simp only [List.cons.injEq, true_and] at e6
      exact ⟨by rw [String.eq_of_toList_eq e1, e3, String.eq_of_toList_eq e5], e6⟩
/-- An argument list followed by its closer is read back uniquely. -/
theorem RT.decArgs : ∀ (xs ys : List RT) (c : Char) (u v : List Char), (c = ')' ∨ c = ']') →
    RT.GoodList xs → RT.GoodList ys →
    RT.charsArgs xs ++ c :: u = RT.charsArgs ys ++ c :: v → xs = ys ∧ u = v
  | [], ys, c, u, v, hc, _, hy, h => by
    cases ys with
    | nil => simpa [RT.charsArgs] using h
    | cons y r =>
      exfalso
      rw [charsArgs_cons] at h
      obtain ⟨d, w, e, h1, h2, _⟩ := hy.1.head
      simp only [RT.charsArgs, List.nil_append, e, List.cons_append, List.cons.injEq] at h
      rcases hc with rfl | rfl
      · exact h1 h.1.symm
      · exact h2 h.1.symm
  | x :: xs, ys, c, u, v, hc, hx, hy, h => by
    cases ys with
    | nil =>
      exfalso
      rw [charsArgs_cons] at h
      obtain ⟨d, w, e, h1, h2, _⟩ := hx.1.head
      simp only [RT.charsArgs, List.nil_append, e, List.cons_append, List.cons.injEq] at h
      rcases hc with rfl | rfl
      · exact h1 h.1
      · exact h2 h.1
    | cons y ys =>
      rw [charsArgs_cons, charsArgs_cons] at h
      obtain ⟨e1, e2⟩ := RT.dec x y _ _ hx.1 hy.1 (tailC_delim xs hc u) (tailC_delim ys hc v) h
      subst e1
      cases xs with
      | nil =>
        cases ys with
        | nil => simp only [tailC, List.cons.injEq, true_and] at e2; exact ⟨rfl, e2⟩
        | cons y' r' =>
          exfalso
          simp only [tailC, List.cons.injEq] at e2
          rcases hc with rfl | rfl <;> simp at e2
      | cons x' r =>
        cases ys with
        | nil =>
          exfalso
          simp only [tailC, List.cons.injEq] at e2
          rcases hc with rfl | rfl <;> simp at e2
        | cons y' r' =>
          simp only [tailC, List.cons.injEq, true_and] at e2
          obtain ⟨e3, e4⟩ := RT.decArgs (x' :: r) (y' :: r') c u v hc hx.2 hy.2 e2
          exact ⟨by rw [e3], e4⟩
end

/-- The printed string of a hygienic tree determines the tree. -/
theorem RT.render_inj {s t : RT} (hs : s.Good) (ht : t.Good) (h : s.render = t.render) : s = t := by
  have e : s.chars ++ [] = t.chars ++ [] := by
    rw [List.append_nil, List.append_nil, ← RT.render_toList, ← RT.render_toList, h]
  exact (RT.dec s t [] [] hs ht (.inl rfl) (.inl rfl) e).1

/-! ### The trees printed by the `__repr__` methods are hygienic -/

theorem structural_of_isDigit {c : Char} (h : c.isDigit = true) : structural c = false := by
  simp only [Char.isDigit, Bool.and_eq_true, decide_eq_true_eq] at h
  have h1 : 48 ≤ c.val.toNat := by have := h.1; simpa [UInt32.le_iff_toNat_le] using this
  have h2 : c.val.toNat ≤ 57 := by have := h.2; simpa [UInt32.le_iff_toNat_le] using this
  have ne : ∀ d : Char, (d.val.toNat < 48 ∨ 57 < d.val.toNat) → (c == d) = false := by
    intro d hd
    rw [beq_eq_false_iff_ne]
    rintro rfl
    omega
  simp [structural, ne ',' (by decide), ne '(' (by decide), ne ')' (by decide), ne '[' (by decide),
    ne ']' (by decide), ne '=' (by decide)]

theorem safeTok_nat (n : Nat) : SafeTok n.repr := by
  refine ⟨?_, ?_⟩
  · rw [Nat.toList_repr]; exact Nat.toDigits_ne_nil
  · intro c hc
    rw [Nat.toList_repr] at hc
    exact structural_of_isDigit (Nat.isDigit_of_mem_toDigits (by decide) (by decide) hc)

/-- Python int literals are hygienic. -/
theorem safeTok_int (i : Int) : SafeTok (toString i) := by
  rw [Int.toString_eq_repr, Int.repr_eq_if]
  split
  · exact safeTok_nat _
  · have := safeTok_nat (-i).toNat
    refine ⟨by simp [String.toList_append], ?_⟩
    intro c hc
    simp only [String.toList_append, List.mem_append] at hc
    rcases hc with hc | hc
    · have : c = '-' := by simpa using hc
      subst this; decide
    · exact this.2 c hc

/-- Token hygiene of a type / box / diagram: every name, and every `data` payload that is not
    `None`, is a safe word. -/
def Ty.TokensSafe (t : Ty) : Prop := ∀ x ∈ t, SafeTok x.name
def Box.TokensSafe (b : Box) : Prop :=
  SafeTok b.name ∧ (b.data = "-" ∨ SafeTok b.data) ∧ Ty.TokensSafe b.dom ∧ Ty.TokensSafe b.cod
def Diagram.TokensSafe (d : Diagram) : Prop :=
  Ty.TokensSafe d.dom ∧ Ty.TokensSafe d.cod ∧ ∀ b ∈ d.boxes, b.TokensSafe

theorem lit_safe (s : String) (h : (s.toList ≠ [] ∧ s.toList.all (fun c => !structural c)) := by decide) :
    SafeTok s := ⟨h.1, fun c hc => by simpa using List.all_eq_true.mp h.2 c hc⟩

theorem reprTTy_good {t : Ty} (h : Ty.TokensSafe t) : (reprTTy t).Good := by
  refine ⟨lit_safe "Ty", RT.goodList_iff.mpr ?_⟩
  intro e he
  obtain ⟨x, hx, rfl⟩ := List.mem_map.mp he
  unfold reprTTyEntry reprTOb
  split
  · exact h x hx
  · exact ⟨lit_safe "Ob", h x hx, ⟨lit_safe "z", safeTok_int _⟩, trivial⟩

theorem Ty.TokensSafe.take {t : Ty} (h : Ty.TokensSafe t) (n : Nat) : Ty.TokensSafe (t.take n) :=
  fun x hx => h x (List.mem_of_mem_take hx)
theorem Ty.TokensSafe.drop {t : Ty} (h : Ty.TokensSafe t) (n : Nat) : Ty.TokensSafe (t.drop n) :=
  fun x hx => h x (List.mem_of_mem_drop hx)

theorem reprTGenArgs_good {n : String} {d c : Ty} {x : String} (hn : SafeTok n)
    (hd : Ty.TokensSafe d) (hc : Ty.TokensSafe c) (hx : x = "-" ∨ SafeTok x) :
    RT.GoodList (reprTGenArgs n d c x) := by
  unfold reprTGenArgs reprTData
  split
  · exact ⟨hn, reprTTy_good hd, reprTTy_good hc, trivial⟩
  · rename_i hne
    have : SafeTok x := hx.resolve_left hne
    exact ⟨hn, reprTTy_good hd, reprTTy_good hc, ⟨lit_safe "data", this⟩, trivial⟩

theorem reprTBox_good {b : Box} (h : b.TokensSafe) : (reprTBox b).Good := by
  obtain ⟨hn, hx, hd, hc⟩ := h
  unfold reprTBox
  split
  · split
    · exact ⟨lit_safe "Box", reprTGenArgs_good hn hc hd hx, lit_safe "dagger"⟩
    · exact ⟨lit_safe "Box", reprTGenArgs_good hn hd hc hx⟩
  · exact ⟨lit_safe "Swap", reprTTy_good (hd.take 1), reprTTy_good (hd.drop 1), trivial⟩
  · exact ⟨lit_safe "Cup", reprTTy_good (hd.take 1), reprTTy_good (hd.drop 1), trivial⟩
  · exact ⟨lit_safe "Cap", reprTTy_good (hc.take 1), reprTTy_good (hc.drop 1), trivial⟩

theorem reprTDiagram_good {d : Diagram} (h : d.TokensSafe) : (reprTDiagram d).Good := by
  obtain ⟨hd, hc, hb⟩ := h
  have full : (reprTFull d).Good := by
    refine ⟨lit_safe "Diagram", ⟨lit_safe "dom", reprTTy_good hd⟩, ⟨lit_safe "cod", reprTTy_good hc⟩,
      ⟨lit_safe "boxes", RT.goodList_iff.mpr ?_⟩, ⟨lit_safe "offsets", RT.goodList_iff.mpr ?_⟩, trivial⟩
    · intro e he
      obtain ⟨b, hbm, rfl⟩ := List.mem_map.mp he
      exact reprTBox_good (hb b hbm)
    · intro e he
      obtain ⟨o, _, rfl⟩ := List.mem_map.mp he
      exact safeTok_int o
  unfold reprTDiagram
  split
  · exact ⟨lit_safe "Id", reprTTy_good hd, trivial⟩
  · rename_i b hbx
    split
    · exact reprTBox_good (hb b (by simp [hbx]))
    · exact full
  · exact full

/-- The printed STRING of a diagram determines its printed syntax tree, under token hygiene. -/
theorem reprDiagram_determines_tree {a b : Diagram} (ha : a.TokensSafe) (hb : b.TokensSafe)
    (h : reprDiagram a = reprDiagram b) : reprTDiagram a = reprTDiagram b :=
  RT.render_inj (reprTDiagram_good ha) (reprTDiagram_good hb) h

/-- **String-level injectivity of `repr`**: well-typed diagrams (over boxes the Python classes can
    produce, with hygienic name/data tokens) that print alike are `==`. -/
theorem repr_inj {a b : Diagram} (ha : a.WF) (hb : b.WF) (hca : a.Canon) (hcb : b.Canon)
    (hta : a.TokensSafe) (htb : b.TokensSafe) (h : reprDiagram a = reprDiagram b) :
    a.eqv b = true :=
  reprTDiagram_inj ha hb hca hcb (reprDiagram_determines_tree hta htb h)

/-- The same across box instances and plain diagrams. -/
theorem Val.repr_inj {u v : Val} (hu : u.WF) (hv : v.WF) (hcu : u.toDiagram.Canon)
    (hcv : v.toDiagram.Canon) (htu : u.toDiagram.TokensSafe) (htv : v.toDiagram.TokensSafe)
    (h : u.repr = v.repr) : u.eqv v = true := by
  apply Val.reprT_inj hu hv hcu hcv
  rw [Val.reprT_eq_toDiagram, Val.reprT_eq_toDiagram]
  apply RT.render_inj (reprTDiagram_good htu) (reprTDiagram_good htv)
  simpa [Val.repr, Val.reprT_eq_toDiagram] using h

def Sum.TokensSafe (s : Sum) : Prop :=
  Ty.TokensSafe s.dom ∧ Ty.TokensSafe s.cod ∧ ∀ t ∈ s.terms, t.TokensSafe

theorem reprTSum_good {s : Sum} (h : s.TokensSafe) : (reprTSum s).Good := by
  obtain ⟨hd, hc, ht⟩ := h
  unfold reprTSum
  split
  · exact ⟨lit_safe "Sum", trivial, ⟨lit_safe "dom", reprTTy_good hd⟩,
      ⟨lit_safe "cod", reprTTy_good hc⟩, trivial⟩
  · rename_i t ts hts
    refine ⟨lit_safe "Sum", RT.goodList_iff.mpr ?_, trivial⟩
    intro e he
    obtain ⟨d, hdm, rfl⟩ := List.mem_map.mp he
    exact reprTDiagram_good (ht d (by rw [hts]; exact hdm))

/-- String-level injectivity of `repr` on sums. -/
theorem reprSum_inj {a b : Sum} (ha : a.WF) (hb : b.WF) (hca : ∀ t ∈ a.terms, t.Canon)
    (hcb : ∀ t ∈ b.terms, t.Canon) (hta : a.TokensSafe) (htb : b.TokensSafe)
    (h : reprSum a = reprSum b) : a.eqv b = true :=
  reprTSum_inj ha hb hca hcb (RT.render_inj (reprTSum_good hta) (reprTSum_good htb) h)

theorem reprTy_inj {s t : Ty} (hs : Ty.TokensSafe s) (ht : Ty.TokensSafe t)
    (h : reprTy s = reprTy t) : s = t :=
  reprTTy_inj (RT.render_inj (reprTTy_good hs) (reprTTy_good ht) h)

theorem reprBox_inj {a b : Box} (ha : a.Canon) (hb : b.Canon) (hta : a.TokensSafe)
    (htb : b.TokensSafe) (h : reprBox a = reprBox b) : a = b :=
  reprTBox_inj ha hb (RT.render_inj (reprTBox_good hta) (reprTBox_good htb) h)

end DV
