/-
  Proofs/Tk.lean — C13: `toTk` refines the wire-id specification `canon` on every circuit
  inside the fragment delimited by `violation`; invariants of the register lists.
-/
import Proofs.TkPrepBits

namespace DV.Tk
open DV

theorem removeAt_zero {α} (xs : List α) (off : Nat) : removeAt xs off 0 = xs := by
  simp [removeAt]

/-- One layer. -/
theorem step_inv {sp : Sp} {st st' : St} {ρq ρb dreg} {lq lb nbw : Nat} {box : TBox}
    (h : Inv sp st ρq ρb dreg) (hv : violation st lb nbw box = none) (hs : step st lq lb box = .ok st') :
    ∃ sp' ρq' ρb' dreg', Sp.step sp lq lb box = .ok sp' ∧ Inv sp' st' ρq' ρb' dreg' := by
  cases box with
  | ket bs =>
    obtain ⟨ρq', inv⟩ := prepareQubits_inv h hs
    exact ⟨_, ρq', ρb, dreg, rfl, inv⟩
  | bits bs d =>
    cases d with
    | false =>
      simp only [step] at hs
      split at hs
      · cases hs
      · rename_i hc
        have hclean : ∀ start, startOf st.bits st.nb lb = .ok start →
            ∀ r, r < st.nb → start ≤ r → st.ps.has r = true := by
          intro start hst r hr hsr
          simp only [violation, hst] at hv
          split at hv
          · cases hv
          · rename_i hany
            cases hh : st.ps.has r
            · exfalso
              apply hany
              rw [List.any_eq_true]
              exact ⟨r, List.mem_range.mpr hr, by simp [hsr, hh]⟩
            · rfl
        obtain ⟨ρb', dreg', inv⟩ := prepareBits_inv h hs hclean
        exact ⟨_, ρq, ρb', dreg', by simp only [Sp.step, hc]; rfl, inv⟩
    | true =>
      obtain ⟨sp', e, inv⟩ := classical_inv h hs
      exact ⟨sp', ρq, ρb, dreg, e, inv⟩
  | measure n de ov =>
    cases ov with
    | false =>
      simp only [step, measureQubits, Bool.false_eq_true, ↓reduceIte, List.range_eq_range'] at hs
      split at hs
      · cases hs
      · rename_i st1 h1
        cases hs
        obtain ⟨sp1, ρb1, dreg1, e1, inv1⟩ := measureLoop_inv n 0 h h1
        refine ⟨_, ρq, ρb1, dreg1, by simp only [Sp.step, List.range_eq_range', e1]; rfl, ?_⟩
        cases de with
        | false => exact inv1
        | true => exact dropQubits_inv inv1
    | true =>
      simp only [violation] at hv
      split at hv
      · cases hv
      · rename_i hl
        have hraw : st.pp.layers = [] := by simpa using hl
        simp only [step, measureQubits, ↓reduceIte] at hs
        split at hs
        · cases hs
        · rename_i st1 h1
          cases hs
          obtain ⟨sp1, e1, inv1⟩ := overrideLoop_inv (List.range n) h hraw h1
          refine ⟨_, ρq, ρb, dreg, by simp only [Sp.step, e1]; rfl, ?_⟩
          cases de with
          | false => exact inv1
          | true => exact dropQubits_inv inv1
  | bra bs =>
    simp only [step, braQubits] at hs
    split at hs
    · cases hs
    · rename_i st1 h1
      cases hs
      obtain ⟨sp1, ρb1, e1, inv1⟩ := braLoop_inv _ h h1
      exact ⟨_, ρq, ρb1, dreg, by simp only [Sp.step, e1], dropQubits_inv inv1⟩
  | discard t =>
    simp only [violation] at hv
    have h0 : countW .b t = 0 := by
      split at hv
      · cases hv
      · rename_i hne; simpa using hne
    simp only [step] at hs
    cases hs
    refine ⟨_, ρq, ρb, dreg, rfl, ?_⟩
    rw [h0]
    have e1 : removeRegs st.bits lb 0 = st.bits := removeAt_zero _ _
    have e2 : removeAt sp.bw lb 0 = sp.bw := removeAt_zero _ _
    have := dropQubits_inv (lq := lq) (n := countW .q t) h
    simp only [dropQubits, Sp.dropQubits] at this
    rw [e1, e2]
    exact this
  | swap l r =>
    cases l <;> cases r
    · -- qubit, qubit
      obtain ⟨ρq', hlen, inv⟩ := swapQubits_inv h hs
      have : ¬ (sp.qw.length < lq + 2) := by omega
      exact ⟨_, ρq', ρb, dreg, by simp only [Sp.step, this, ↓reduceIte], inv⟩
    · simp only [step] at hs; cases hs; exact ⟨sp, ρq, ρb, dreg, rfl, h⟩
    · simp only [step] at hs; cases hs; exact ⟨sp, ρq, ρb, dreg, rfl, h⟩
    · -- bit, bit
      simp only [step] at hs
      cases he : st.pp.layers.isEmpty with
      | true =>
        obtain ⟨ρb', hlen, inv⟩ := swapBits_raw_inv h he hs
        have : ¬ (sp.bw.length < lb + 2) := by omega
        exact ⟨_, ρq, ρb', dreg, by simp only [Sp.step, this, ↓reduceIte], inv⟩
      | false =>
        obtain ⟨hlen, inv⟩ := swapBits_pp_inv h he hs
        have : ¬ (sp.bw.length < lb + 2) := by omega
        exact ⟨_, ρq, ρb, dreg, by simp only [Sp.step, this, ↓reduceIte], inv⟩
  | scalar k m =>
    simp only [step] at hs
    cases hs
    exact ⟨_, ρq, ρb, dreg, rfl, { h with ref := { h.ref with scal := by simp [h.ref.scal] } }⟩
  | cgate name i o =>
    obtain ⟨sp', e, inv⟩ := classical_inv h hs
    exact ⟨sp', ρq, ρb, dreg, e, inv⟩
  | rot cls num =>
    obtain ⟨sp', e, inv⟩ := addGate_inv h hs
    exact ⟨sp', ρq, ρb, dreg, e, inv⟩
  | gate name n =>
    obtain ⟨sp', e, inv⟩ := addGate_inv h hs
    exact ⟨sp', ρq, ρb, dreg, e, inv⟩
  | other d c => simp only [step] at hs; cases hs

/-- All layers. -/
theorem run_inv (layers : Layers) : ∀ {sp : Sp} {st st' : St} {ρq ρb dreg} {cur : List W} {i : Nat},
    Inv sp st ρq ρb dreg → firstViolation st cur layers i = none → run st cur layers = .ok st' →
    ∃ sp' ρq' ρb' dreg', Sp.run sp cur layers = .ok sp' ∧ Inv sp' st' ρq' ρb' dreg' := by
  induction layers with
  | nil =>
    intro sp st st' ρq ρb dreg cur i h _ hs
    simp only [run] at hs; cases hs
    exact ⟨sp, ρq, ρb, dreg, rfl, h⟩
  | cons l rest ih =>
    intro sp st st' ρq ρb dreg cur i h hv hs
    obtain ⟨b, off⟩ := l
    simp only [run] at hs
    simp only [firstViolation] at hv
    split at hs
    · cases hs
    · rename_i st1 h1
      split at hv
      · cases hv
      · rename_i hv1
        simp only [h1] at hv
        obtain ⟨sp1, ρq1, ρb1, dreg1, e1, inv1⟩ := step_inv h hv1 h1
        obtain ⟨sp2, ρq2, ρb2, dreg2, e2, inv2⟩ := ih inv1 hv hs
        exact ⟨sp2, ρq2, ρb2, dreg2, by simp only [Sp.run, e1]; exact e2, inv2⟩

/-- **Refinement inside the fragment.**  If `to_tk` succeeds on a circuit none of whose layers
    violates an excluding condition, the specification is defined on it and the exported state
    is the specification up to an injective naming of wire ids by registers. -/
theorem toTk_refines {c : Circ} {st : St} (hc : c.clean = true) (h : toTk c = .ok st) :
    ∃ sp ρq ρb dreg, canon c = .ok sp ∧ Refines sp st ρq ρb dreg := by
  have hv : firstViolation {} [] (prep c) 0 = none := by
    simpa [Circ.clean, Circ.firstViolation] using hc
  obtain ⟨sp, ρq, ρb, dreg, e, inv⟩ := run_inv (prep c) inv_init hv h
  exact ⟨sp, ρq, ρb, dreg, e, inv.ref⟩

/-- What the invariant says about the two register lists of the Python loop, inside the
    fragment: `qubits` is strictly increasing (hence duplicate-free), has one entry per qubit
    wire, all entries are units of the circuit; before any classical box `bits` is the list of
    non-post-selected bit units in increasing order. -/
theorem toTk_lists {c : Circ} {st : St} (hc : c.clean = true) (h : toTk c = .ok st) :
    ∃ sp, canon c = .ok sp ∧ st.qubits.Pairwise (· < ·) ∧ st.qubits.length = sp.qw.length ∧
      (∀ r ∈ st.qubits, r < st.nq) ∧ (∀ r ∈ st.bits, r < st.nb) ∧
      (st.pp.layers = [] → st.bits.Pairwise (· < ·) ∧ st.bits.length = sp.bw.length) := by
  have hv : firstViolation {} [] (prep c) 0 = none := by
    simpa [Circ.clean, Circ.firstViolation] using hc
  obtain ⟨sp, ρq, ρb, dreg, e, inv⟩ := run_inv (prep c) inv_init hv h
  refine ⟨sp, e, inv.qsorted, by rw [inv.ref.qubits]; simp, inv.qubits_lt, inv.bits_lt, ?_⟩
  intro hl
  have hb := inv.raw hl
  have hpp := inv.ref.pp
  simp only [PP.run, hl, List.foldl_nil, Prod.mk.injEq] at hpp
  refine ⟨by rw [hb]; exact inv.ref.readout.1, ?_⟩
  have := congrArg List.length hpp.2
  rw [hb]; simpa using this

/-- Every command of an export inside the fragment acts on existing units. -/
theorem toTk_cmds_live {c : Circ} {st : St} (hc : c.clean = true) (h : toTk c = .ok st) :
    ∀ cmd ∈ st.cmds, (∀ q ∈ cmd.qs, q < st.nq) ∧ (∀ b ∈ cmd.bs, b < st.nb) := by
  have hv : firstViolation {} [] (prep c) 0 = none := by
    simpa [Circ.clean, Circ.firstViolation] using hc
  obtain ⟨sp, ρq, ρb, dreg, e, inv⟩ := run_inv (prep c) inv_init hv h
  intro cmd hcmd
  rw [inv.ref.cmds] at hcmd
  obtain ⟨c0, hc0, rfl⟩ := List.mem_map.mp hcmd
  obtain ⟨h1, h2⟩ := inv.cmd_ids c0 hc0
  constructor
  · intro q hq
    obtain ⟨a, ha, rfl⟩ := List.mem_map.mp hq
    exact inv.ref.injq.1 a (h1 a ha)
  · intro b hb
    obtain ⟨a, ha, rfl⟩ := List.mem_map.mp hb
    exact inv.ref.injb.1 a (h2 a ha)

end DV.Tk
