/-
  Proofs/GatesComplex.lean — the hypotheses of Proofs/Gates.lean hold in ℂ for EVERY real phase φ,
  so the rotation theorems (C11) and the gate2zx theorems (C16) hold "for all real phases":
      c = cos πφ, s = sin πφ, ν = e^{iπφ}, ν' = e^{-iπφ}, r = 1/√2, i = Complex.I, star = conjugation.
  Analytic facts used (all from Mathlib): `exp (a + b) = exp a * exp b`, `cos² + sin² = 1`,
  Euler's formulas `2 cos x = e^{ix} + e^{-ix}`, `2 sin x = (e^{-ix} − e^{ix}) i`, `conj (exp z) = exp (conj z)`.
-/
import Mathlib.Analysis.SpecialFunctions.Trigonometric.Basic
import Proofs.Gates

noncomputable section
namespace DV.Gates
open Complex

/-- `cos πφ`, `sin πφ` as complex numbers (`half_theta = π * phase`, gates.py:388). -/
def cC (φ : ℝ) : ℂ := ((Real.cos (Real.pi * φ) : ℝ) : ℂ)
def sC (φ : ℝ) : ℂ := ((Real.sin (Real.pi * φ) : ℝ) : ℂ)
/-- `ν = e^{iπφ}` (gates.py:414-415: `exp(1j * half_theta)`). -/
def nuC (φ : ℝ) : ℂ := Complex.exp (Complex.I * ((Real.pi * φ : ℝ) : ℂ))
/-- `1/√2`. -/
def rC : ℂ := (((Real.sqrt 2)⁻¹ : ℝ) : ℂ)
/-- The value `e^{2πiψ}` of a ZX spider of phase `ψ` (full turns). -/
def spiderVal (ψ : ℝ) : ℂ := Complex.exp (Complex.I * ((2 * Real.pi * ψ : ℝ) : ℂ))

theorem hyp_i : Complex.I * Complex.I = -1 := Complex.I_mul_I

theorem hyp_cs (φ : ℝ) : cC φ * cC φ + sC φ * sC φ = 1 := by
  unfold cC sC
  rw [← Complex.ofReal_mul, ← Complex.ofReal_mul, ← Complex.ofReal_add]
  have := Real.cos_sq_add_sin_sq (Real.pi * φ)
  rw [show Real.cos (Real.pi * φ) * Real.cos (Real.pi * φ) + Real.sin (Real.pi * φ) * Real.sin (Real.pi * φ) = 1 by nlinarith [this]]
  simp

theorem hyp_nu (φ : ℝ) : nuC φ * nuC (-φ) = 1 := by
  unfold nuC
  rw [← Complex.exp_add]
  simp

theorem hyp_c (φ : ℝ) : 2 * cC φ = nuC φ + nuC (-φ) := by
  unfold cC nuC
  rw [Complex.ofReal_cos, Complex.two_cos]
  congr 1 <;> congr 1 <;> push_cast <;> ring

theorem hyp_s (φ : ℝ) : 2 * Complex.I * sC φ = nuC φ - nuC (-φ) := by
  unfold sC nuC
  rw [Complex.ofReal_sin]
  have h := Complex.two_sin ((Real.pi * φ : ℝ) : ℂ)
  have e1 : Complex.I * ((Real.pi * φ : ℝ) : ℂ) = ((Real.pi * φ : ℝ) : ℂ) * Complex.I := by ring
  have e2 : Complex.I * ((Real.pi * -φ : ℝ) : ℂ) = -((Real.pi * φ : ℝ) : ℂ) * Complex.I := by
    push_cast; ring
  rw [e1, e2]
  linear_combination Complex.I * h + (Complex.exp (-((Real.pi * φ : ℝ) : ℂ) * Complex.I) - Complex.exp (((Real.pi * φ : ℝ) : ℂ) * Complex.I)) * Complex.I_mul_I

theorem hyp_r : 2 * rC * rC = 1 := by
  unfold rC
  rw [mul_assoc, ← Complex.ofReal_mul]
  have h2 : (Real.sqrt 2)⁻¹ * (Real.sqrt 2)⁻¹ = (2 : ℝ)⁻¹ := by
    rw [← mul_inv, Real.mul_self_sqrt (by norm_num)]
  rw [h2]; push_cast; norm_num

theorem star_c (φ : ℝ) : star (cC φ) = cC φ := by
  unfold cC; rw [Complex.star_def, Complex.conj_ofReal]
theorem star_s (φ : ℝ) : star (sC φ) = sC φ := by
  unfold sC; rw [Complex.star_def, Complex.conj_ofReal]
theorem star_i : star Complex.I = -Complex.I := by simp
theorem star_r : star rC = rC := by unfold rC; simp
theorem star_nu (φ : ℝ) : star (nuC φ) = nuC (-φ) := by
  unfold nuC
  rw [Complex.star_def, ← Complex.exp_conj]
  congr 1
  simp
theorem neg_cos (φ : ℝ) : cC (-φ) = cC φ := by unfold cC; simp
theorem neg_sin (φ : ℝ) : sC (-φ) = -sC φ := by unfold sC; simp

/-- A spider of phase `φ` carries `ν·ν`, one of phase `φ/2` carries `ν` (`ν = e^{iπφ}`). -/
theorem spiderVal_full (φ : ℝ) : spiderVal φ = nuC φ * nuC φ := by
  unfold spiderVal nuC
  rw [← Complex.exp_add]; congr 1; push_cast; ring
theorem spiderVal_half (φ : ℝ) : spiderVal (φ / 2) = nuC φ := by
  unfold spiderVal nuC
  congr 2; push_cast; ring
theorem spiderVal_neg_half (φ : ℝ) : spiderVal (-(φ / 2)) = nuC (-φ) := by
  unfold spiderVal nuC
  congr 2; push_cast; ring


/-! ## The arrays of gates.py at an arbitrary real phase -/

/-- gates.py:387-390, 399-402, 411-415, 428-434, 454-462, 483-490 evaluated in ℂ. -/
def RxC (φ : ℝ) : Mat ℂ := rx Complex.I (cC φ) (sC φ)
def RyAsIsC (φ : ℝ) : Mat ℂ := ryAsIs (cC φ) (sC φ)
def RyFixedC (φ : ℝ) : Mat ℂ := ryFixed (cC φ) (sC φ)
def RzC (φ : ℝ) : Mat ℂ := rz (nuC φ) (nuC (-φ))
def CU1C (φ : ℝ) : Mat ℂ := cu1 (spiderVal φ)
def CRzC (φ : ℝ) : Mat ℂ := crz (nuC φ) (nuC (-φ))
def CRxC (φ : ℝ) : Mat ℂ := crx Complex.I (cC φ) (sC φ)

theorem star_nu' (φ : ℝ) : star (nuC (-φ)) = nuC φ := by
  have := star_nu (-φ); rwa [neg_neg] at this

/-- C11 `rot_unitary`: every rotation is unitary at every real phase. -/
theorem rot_unitary_complex (φ : ℝ) :
    mul (RxC φ) (dagger (RxC φ)) = identity 2 ∧ mul (RyAsIsC φ) (dagger (RyAsIsC φ)) = identity 2 ∧
    mul (RyFixedC φ) (dagger (RyFixedC φ)) = identity 2 ∧ mul (RzC φ) (dagger (RzC φ)) = identity 2 ∧
    mul (CU1C φ) (dagger (CU1C φ)) = identity 4 ∧ mul (CRzC φ) (dagger (CRzC φ)) = identity 4 ∧
    mul (CRxC φ) (dagger (CRxC φ)) = identity 4 := by
  refine ⟨(rx_unitary _ _ _ hyp_i (hyp_cs φ) (star_c φ) (star_s φ) star_i).1,
    (ry_unitary _ _ (hyp_cs φ) (star_c φ) (star_s φ)).1, (ry_unitary _ _ (hyp_cs φ) (star_c φ) (star_s φ)).2,
    (rz_unitary _ _ (hyp_nu φ) (star_nu φ) (star_nu' φ)).1, ?_,
    crz_unitary _ _ (hyp_nu φ) (star_nu φ) (star_nu' φ),
    crx_unitary _ _ _ hyp_i (hyp_cs φ) (star_c φ) (star_s φ) star_i⟩
  refine cu1_unitary (spiderVal φ) (nuC (-φ) * nuC (-φ)) ?_ ?_
  · rw [spiderVal_full]; linear_combination (nuC φ * nuC (-φ) + 1) * hyp_nu φ
  · rw [spiderVal_full, star_mul', star_nu]

/-- C11 `rot_dagger`: `U(−φ) = U(φ)ᴴ` at every real phase (the negated-phase dagger, gates.py:361). -/
theorem rot_dagger_complex (φ : ℝ) :
    RxC (-φ) = dagger (RxC φ) ∧ RyAsIsC (-φ) = dagger (RyAsIsC φ) ∧ RyFixedC (-φ) = dagger (RyFixedC φ) ∧
    RzC (-φ) = dagger (RzC φ) ∧ CU1C (-φ) = dagger (CU1C φ) ∧ CRzC (-φ) = dagger (CRzC φ) ∧
    CRxC (-φ) = dagger (CRxC φ) := by
  unfold RxC RyAsIsC RyFixedC RzC CU1C CRzC CRxC
  rw [neg_cos, neg_sin, neg_neg]
  refine ⟨rx_dagger _ _ _ (star_c φ) (star_s φ) star_i, (ry_dagger _ _ (star_c φ) (star_s φ)).1,
    (ry_dagger _ _ (star_c φ) (star_s φ)).2, rz_dagger _ _ (star_nu φ) (star_nu' φ), ?_,
    crz_dagger _ _ (star_nu φ) (star_nu' φ), crx_dagger _ _ _ (star_c φ) (star_s φ) star_i⟩
  refine cu1_dagger _ _ ?_
  rw [spiderVal_full, spiderVal_full, star_mul', star_nu]

/-! ## gate2zx at an arbitrary real phase (C16) -/

theorem nuC_ne_zero (φ : ℝ) : nuC φ ≠ 0 := Complex.exp_ne_zero _
theorem rC_ne_zero : rC ≠ 0 := by
  intro h; have := hyp_r; rw [h] at this; simp at this

/-- zx.py:374-375: `⟦Z(1,1,φ)⟧ = e^{iπφ} • Rz(φ)`, `⟦X(1,1,φ)⟧ = e^{iπφ} • Rx(φ)`. -/
theorem gate2zx_rot1_complex (φ : ℝ) :
    evalZX rC 1 [(.z 1 1 (spiderVal φ), 0)] = msmul (nuC φ) (RzC φ) ∧
    evalZX rC 1 [(.x 1 1 (spiderVal φ), 0)] = msmul (nuC φ) (RxC φ) := by
  rw [spiderVal_full]
  exact ⟨zxRz_sound rC _ _ (hyp_nu φ), zxRx_sound rC _ _ _ _ _ hyp_r (hyp_nu φ) (hyp_c φ) (hyp_s φ)⟩

/-- The CORRECTED decompositions (spider phases `φ/2`, `−φ/2`) denote `(1/√2) •` the gate, at every
    real phase. -/
theorem gate2zx_fixed_complex (φ : ℝ) :
    evalZX rC 2 [(.z 1 2 1, 0), (.z 1 2 (spiderVal (φ / 2)), 2), (.x 2 1 1, 1),
                 (.z 1 0 (spiderVal (-(φ / 2))), 1)] = msmul rC (CRzC φ) ∧
    evalZX rC 2 [(.z 1 2 (spiderVal (φ / 2)), 0), (.z 1 2 (spiderVal (φ / 2)), 2), (.x 2 1 1, 1),
                 (.z 1 0 (spiderVal (-(φ / 2))), 1)] = msmul rC (CU1C φ) ∧
    evalZX rC 2 [(.z 1 2 1, 0), (.x 1 2 (spiderVal (φ / 2)), 2), (.h, 1), (.z 2 1 1, 1),
                 (.x 1 0 (spiderVal (-(φ / 2))), 1)] = msmul rC (CRxC φ) := by
  rw [spiderVal_half, spiderVal_neg_half]
  refine ⟨zxCRzFixed_sound rC _ _ hyp_r (hyp_nu φ), ?_,
    zxCRxFixed_sound rC _ _ _ _ _ hyp_r (hyp_nu φ) (hyp_c φ) (hyp_s φ)⟩
  unfold CU1C; rw [spiderVal_full]
  exact zxCU1Fixed_sound rC _ _ hyp_r (hyp_nu φ)

/-- The decompositions AS THEY ARE (spider phases `φ`, `−φ`; zx.py:376-378, 382-384) denote the gate
    at TWICE the phase — finding F7. -/
theorem gate2zx_asis_complex (φ : ℝ) :
    evalZX rC 2 [(.z 1 2 1, 0), (.z 1 2 (spiderVal φ), 2), (.x 2 1 1, 1),
                 (.z 1 0 (spiderVal (-φ)), 1)] = msmul rC (CRzC (2 * φ)) ∧
    evalZX rC 2 [(.z 1 2 (spiderVal φ), 0), (.z 1 2 (spiderVal φ), 2), (.x 2 1 1, 1),
                 (.z 1 0 (spiderVal (-φ)), 1)] = msmul rC (CU1C (2 * φ)) := by
  have h2 : nuC (2 * φ) = nuC φ * nuC φ := by
    unfold nuC; rw [← Complex.exp_add]; congr 1; push_cast; ring
  have h2' : nuC (-(2 * φ)) = nuC (-φ) * nuC (-φ) := by
    unfold nuC; rw [← Complex.exp_add]; congr 1; push_cast; ring
  rw [spiderVal_full, spiderVal_full]
  constructor
  · unfold CRzC; rw [h2, h2']
    exact zxCRzAsIs_denotes_double rC _ _ hyp_r (hyp_nu φ)
  · unfold CU1C; rw [spiderVal_full, h2]
    exact zxCU1AsIs_denotes_double rC _ _ hyp_r (hyp_nu φ)


/-- F7, exact extent: the CRz decomposition AS IT IS denotes the gate up to a scalar ONLY at the
    phases with `e^{iπφ} = 1` (φ an even integer) — at every other real phase no scalar works. -/
theorem asis_CRz_sound_iff (φ : ℝ) :
    (∃ k : ℂ, evalZX rC 2 [(.z 1 2 1, 0), (.z 1 2 (spiderVal φ), 2), (.x 2 1 1, 1),
                 (.z 1 0 (spiderVal (-φ)), 1)] = msmul k (CRzC φ)) ↔ nuC φ = 1 := by
  rw [(gate2zx_asis_complex φ).1]
  have h2 : nuC (2 * φ) = nuC φ * nuC φ := by
    unfold nuC; rw [← Complex.exp_add]; congr 1; push_cast; ring
  have h2' : nuC (-(2 * φ)) = nuC (-φ) * nuC (-φ) := by
    unfold nuC; rw [← Complex.exp_add]; congr 1; push_cast; ring
  constructor
  · rintro ⟨k, hk⟩
    simp only [CRzC, crz, msmul, smul, List.map, h2, h2'] at hk
    simp at hk
    obtain ⟨hk1, -, hk3⟩ := hk
    have hr := rC_ne_zero
    have hn := nuC_ne_zero φ
    rw [← hk1] at hk3
    have : rC * nuC φ * (nuC φ - 1) = 0 := by linear_combination hk3
    rcases mul_eq_zero.mp this with h | h
    · exact absurd h (mul_ne_zero hr hn)
    · linear_combination h
  · intro h
    refine ⟨rC, ?_⟩
    have h' : nuC (-φ) = 1 := by
      have := hyp_nu φ; rw [h] at this; simpa using this
    simp only [CRzC, h2, h2', h, h']
    simp

/-- The same for CU1: sound only where `e^{2πiφ} = 1` (φ an integer). -/
theorem asis_CU1_sound_iff (φ : ℝ) :
    (∃ k : ℂ, evalZX rC 2 [(.z 1 2 (spiderVal φ), 0), (.z 1 2 (spiderVal φ), 2), (.x 2 1 1, 1),
                 (.z 1 0 (spiderVal (-φ)), 1)] = msmul k (CU1C φ)) ↔ spiderVal φ = 1 := by
  rw [(gate2zx_asis_complex φ).2]
  have h2 : spiderVal (2 * φ) = spiderVal φ * spiderVal φ := by
    unfold spiderVal; rw [← Complex.exp_add]; congr 1; push_cast; ring
  have hn : spiderVal φ ≠ 0 := Complex.exp_ne_zero _
  constructor
  · rintro ⟨k, hk⟩
    simp only [CU1C, cu1, msmul, smul, List.map, h2] at hk
    simp at hk
    obtain ⟨hk1, hk3⟩ := hk
    rw [← hk1] at hk3
    have : rC * spiderVal φ * (spiderVal φ - 1) = 0 := by linear_combination hk3
    rcases mul_eq_zero.mp this with h | h
    · exact absurd h (mul_ne_zero rC_ne_zero hn)
    · linear_combination h
  · intro h
    refine ⟨rC, ?_⟩
    simp only [CU1C, h2, h]
    simp

end DV.Gates
