/-
  Proofs/Spiders.lean — lemmas about Model/Spiders.lean (`MatBackend.draw_spiders`).
  Core Lean only.
-/
import Model.Spiders

namespace DV.Spiders
open DV

/-! ### `pySet` is a set -/

theorem mem_pySet (a : Shape) (l : List Shape) : a ∈ pySet l ↔ a ∈ l := by
  induction l with
  | nil => simp [pySet]
  | cons x xs ih =>
    unfold pySet
    by_cases h : x ∈ pySet xs
    · simp only [h, if_true, List.mem_cons, ih]
      constructor
      · intro h'; exact Or.inr h'
      · intro h'; cases h' with
        | inl e => subst e; exact (ih.mp h)
        | inr h' => exact h'
    · simp only [h, if_false, List.mem_cons, ih]

theorem nodup_pySet (l : List Shape) : (pySet l).Nodup := by
  induction l with
  | nil => simp [pySet]
  | cons x xs ih =>
    unfold pySet
    by_cases h : x ∈ pySet xs
    · simp only [h, if_true]; exact ih
    · simp only [h, if_false]; exact List.nodup_cons.mpr ⟨h, ih⟩

/-! ### the loop never raises -/

theorem mem_shapesOf {ns : List BoxNode} {s : Shape} :
    s ∈ shapesOf ns ↔ ∃ n ∈ ns, n.shape = s := by
  unfold shapesOf
  rw [mem_pySet, List.mem_map]

theorem colorsOf_ne_nil {ns : List BoxNode} {s : Shape} (h : s ∈ shapesOf ns) :
    colorsOf ns s ≠ [] := by
  obtain ⟨n, hn, hs⟩ := mem_shapesOf.mp h
  intro hnil
  have : n ∈ colorsOf ns s := by
    unfold colorsOf
    exact List.mem_filter.mpr ⟨hn, by simp [hs]⟩
  rw [hnil] at this
  exact absurd this (List.not_mem_nil)

theorem drawCall_ok {ns : List BoxNode} {s : Shape} (h : s ∈ shapesOf ns) :
    drawCall ns s = .ok ⟨s, colorsOf ns s⟩ := by
  unfold drawCall
  have := colorsOf_ne_nil h
  cases hc : colorsOf ns s with
  | nil => exact absurd hc this
  | cons a as => simp

theorem drawCalls_ok (ns : List BoxNode) (ss : List Shape) (h : ∀ s ∈ ss, s ∈ shapesOf ns) :
    drawCalls ns ss = .ok (ss.map (fun s => ⟨s, colorsOf ns s⟩)) := by
  induction ss with
  | nil => rfl
  | cons s ss ih =>
    have h1 := drawCall_ok (h s (List.mem_cons_self ..))
    have h2 := ih (fun t ht => h t (List.mem_cons_of_mem _ ht))
    simp only [drawCalls, h1, h2, List.map_cons]

/-- `MatBackend.draw_spiders` never raises, and makes exactly the calls `calls g`. -/
theorem matSpiders_eq (g : List BoxNode) : matSpiders g = .ok (calls g) := by
  unfold matSpiders calls
  exact drawCalls_ok _ _ (fun s hs => hs)

/-! ### every spider is drawn exactly once -/

/-- Splitting a list by a key that is not among `ks`. -/
theorem filter_key_cons_perm (l : List BoxNode) (k : Shape) (ks : List Shape) (hk : k ∉ ks) :
    (l.filter (fun n => n.shape ∈ k :: ks)).Perm
      (l.filter (fun n => n.shape == k) ++ l.filter (fun n => n.shape ∈ ks)) := by
  induction l with
  | nil => simp
  | cons a as ih =>
    by_cases h1 : a.shape = k
    · have h2 : a.shape ∉ ks := by rw [h1]; exact hk
      simp only [List.filter_cons, h1, List.mem_cons, true_or, decide_true, if_true, beq_self_eq_true,
        List.cons_append]
      have h2' : k ∉ ks := hk
      simp only [h2', decide_false, Bool.false_eq_true, if_false]
      have ih' := ih
      simp only [List.mem_cons] at ih'
      exact List.Perm.cons a ih'
    · by_cases h2 : a.shape ∈ ks
      · have hb : (a.shape == k) = false := by simp [h1]
        simp only [List.filter_cons, List.mem_cons, h1, false_or, h2, decide_true, if_true, hb,
          Bool.false_eq_true, if_false]
        have ih' := ih
        simp only [List.mem_cons] at ih'
        exact (List.Perm.cons a ih').trans (List.perm_middle).symm
      · have hb : (a.shape == k) = false := by simp [h1]
        simp only [List.filter_cons, List.mem_cons, h1, false_or, h2, decide_false, hb,
          Bool.false_eq_true, if_false]
        have ih' := ih
        simp only [List.mem_cons] at ih'
        exact ih'

theorem flatMap_groups_perm (l : List BoxNode) (ks : List Shape) (hks : ks.Nodup) :
    (ks.flatMap (fun k => colorsOf l k)).Perm (l.filter (fun n => n.shape ∈ ks)) := by
  induction ks with
  | nil => simp
  | cons k ks ih =>
    have hk : k ∉ ks := (List.nodup_cons.mp hks).1
    have ih' := ih (List.nodup_cons.mp hks).2
    rw [List.flatMap_cons]
    refine (List.Perm.append_left _ ih').trans ?_
    exact (filter_key_cons_perm l k ks hk).symm

/-- The node lists of the calls, put together, are a permutation of the spiders of the graph:
    every spider is in exactly one `nodelist`, nothing else is. -/
theorem calls_perm (g : List BoxNode) :
    ((calls g).flatMap (fun c => c.nodelist)).Perm (spiderNodes g) := by
  unfold calls
  rw [List.flatMap_map]
  have h := flatMap_groups_perm (spiderNodes g) (shapesOf (spiderNodes g)) (nodup_pySet _)
  have hall : (spiderNodes g).filter (fun n => n.shape ∈ shapesOf (spiderNodes g)) = spiderNodes g := by
    apply List.filter_eq_self.mpr
    intro n hn
    simp only [decide_eq_true_eq]
    exact mem_shapesOf.mpr ⟨n, hn, rfl⟩
  rw [hall] at h
  exact h

/-- Each call draws nodes of its own shape only, and only spiders. -/
theorem calls_own_shape (g : List BoxNode) (c : Call) (hc : c ∈ calls g) (n : BoxNode)
    (hn : n ∈ c.nodelist) : n.shape = c.shape ∧ n.spider = true ∧ n ∈ g := by
  unfold calls at hc
  obtain ⟨s, _, rfl⟩ := List.mem_map.mp hc
  simp only [colorsOf, List.mem_filter, beq_iff_eq] at hn
  have := hn.1
  simp only [spiderNodes, List.mem_filter] at this
  exact ⟨hn.2, this.2, this.1⟩

/-- One call per shape. -/
theorem calls_shapes_nodup (g : List BoxNode) : ((calls g).map (fun c => c.shape)).Nodup := by
  unfold calls
  rw [List.map_map]
  have : ((fun c : Call => c.shape) ∘ fun s => (⟨s, colorsOf (spiderNodes g) s⟩ : Call)) = id := by
    funext s; rfl
  rw [this, List.map_id]
  exact nodup_pySet _

/-- No call has an empty node list (what line 444 needs). -/
theorem calls_nonempty (g : List BoxNode) (c : Call) (hc : c ∈ calls g) : c.nodelist ≠ [] := by
  unfold calls at hc
  obtain ⟨s, hs, rfl⟩ := List.mem_map.mp hc
  exact colorsOf_ne_nil hs

end DV.Spiders
