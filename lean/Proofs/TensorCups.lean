/-
  Proofs/TensorCups.lean — the nested cups of `Tensor.cups` (rigid.cups with
  `ar_factory = Tensor`, rigid.py:442-455, tensor.py:219-228) are well-formed tensors of type
  `left ⊗ right → 1` for EVERY pair of adjoint dimension tuples (`right = left[::-1]`), and the
  call is refused (AxiomError) otherwise.  (Their snake equations are not proved here.)
-/
import Proofs.TensorLayer
import Proofs.WFOps

namespace DV
namespace Tensor
open NDArray

section
variable {R : Type} [CommSemiring R]

theorem pySlice_one {α} (xs : List α) (j : Nat) (h : j < xs.length) :
    pySlice xs (some (j : Int)) (some ((j + 1 : Nat) : Int)) = [xs[j]] := by
  simp only [pySlice, pyLo, pyHi, pyIdx_nat]
  rw [Nat.min_eq_left (by omega), Nat.min_eq_left (by omega)]
  have : j + 1 - j = 1 := by omega
  rw [this, List.drop_eq_getElem_cons h]
  rfl

/-- The loop of rigid.cups on tensors: it succeeds, keeps the domain and empties the codomain. -/
theorem cupsLoop_spec (left : List Nat) : ∀ (n i : Nat) (t : Tensor R), i + n = left.length →
    t.WF → t.cod = left.take (left.length - i) ++ left.reverse.drop i →
    ∃ t', cupsLoop left left.reverse n i t = .ok t' ∧ t'.WF ∧ t'.dom = t.dom ∧ t'.cod = []
  | 0, i, t, hi, hw, hc => by
    refine ⟨t, rfl, hw, rfl, ?_⟩
    have : i = left.length := by omega
    subst this
    rw [hc]; simp
  | n + 1, i, t, hi, hw, hc => by
    have hlt : i < left.length := by omega
    have hj : left.length - i - 1 < left.length := by omega
    have hri : i < left.reverse.length := by simpa using hlt
    -- the four slices of rigid.py:451-452
    have s1 : pySlice left none (some ((left.length - i - 1 : Nat) : Int))
        = left.take (left.length - i - 1) := pySlice_take _ _
    have s2 : pySlice left (some ((left.length - i - 1 : Nat) : Int))
        (some ((left.length - i - 1 + 1 : Nat) : Int)) = [left[left.length - i - 1]] :=
      pySlice_one left _ hj
    have s3 : pySlice left.reverse (some ((i : Nat) : Int)) (some ((i + 1 : Nat) : Int))
        = [left[left.length - i - 1]] := by
      rw [pySlice_one _ _ hri, List.getElem_reverse]
      congr 2
      omega
    have s4 : pySlice left.reverse (some ((i + 1 : Nat) : Int)) none = left.reverse.drop (i + 1) :=
      pySlice_drop _ _
    unfold cupsLoop
    rw [s1, s2, s3, s4]
    generalize ha : left[left.length - i - 1] = a
    have hlayer : (((Tensor.id (R := R) (left.take (left.length - i - 1))).tensor
        (cupFactory [a] [a])).tensor (Tensor.id (left.reverse.drop (i + 1)))).WF :=
      tensor_wf _ _ (tensor_wf _ _ (id_wf _) (cupFactory_wf [a])) (id_wf _)
    have hcd : t.cod = (((Tensor.id (R := R) (left.take (left.length - i - 1))).tensor
        (cupFactory [a] [a])).tensor (Tensor.id (left.reverse.drop (i + 1)))).dom := by
      rw [hc]
      have e1 : left.length - i = (left.length - i - 1) + 1 := by omega
      have e2 : left.take (left.length - i) = left.take (left.length - i - 1) ++ [a] := by
        have h := List.take_succ_eq_append_getElem hj
        rw [ha, ← e1] at h
        exact h
      have e3 : left.reverse.drop i = a :: left.reverse.drop (i + 1) := by
        rw [List.drop_eq_getElem_cons hri, List.getElem_reverse]
        congr 1
        rw [← ha]; congr 1
        omega
      rw [e2, e3]
      simp [cupFactory, List.append_assoc]
    rw [then_ok hcd]
    simp only
    have ih := cupsLoop_spec left n (i + 1) _ (by omega)
      (thenCore_wf t _ hw hlayer hcd) (by
        simp only [thenCore_cod, tensor_cod, id_cod, cupFactory, mk'_cod, List.append_nil]
        congr 2)
    obtain ⟨t', h1, h2, h3, h4⟩ := ih
    exact ⟨t', h1, h2, h3, h4⟩

theorem ite_and_mul (p q : Prop) [Decidable p] [Decidable q] :
    (if p ∧ q then (1 : R) else 0) = (if p then 1 else 0) * (if q then 1 else 0) := by
  by_cases hp : p <;> by_cases hq : q <;> simp [hp, hq]

/-- Pure list bookkeeping of one pass of the cups loop. -/
theorem cup_step_cond {a b a'' b'' u : List Nat} {j i : Nat} (haj : j < a.length)
    (hbi : i < b.length) (la : a''.length = j) (hul : u.length = 1) :
    (a.take (j + 1) = a'' ++ u ∧ b.drop i = u ++ b'' ∧ a.drop (j + 1) = (b.take i).reverse)
      ↔ ([a[j]] = u ∧ (a.take j = a'' ∧ b.drop (i + 1) = b''
          ∧ a.drop j = (b.take (i + 1)).reverse)) := by
  have ta : a.take (j + 1) = a.take j ++ [a[j]] := List.take_succ_eq_append_getElem haj
  have tb : b.drop i = [b[i]] ++ b.drop (i + 1) := by
    rw [List.drop_eq_getElem_cons hbi]; rfl
  have da : a.drop j = a[j] :: a.drop (j + 1) := List.drop_eq_getElem_cons haj
  have rb : (b.take (i + 1)).reverse = b[i] :: (b.take i).reverse := by
    rw [List.take_succ_eq_append_getElem hbi, List.reverse_append]; rfl
  have la' : (a.take j).length = a''.length := by rw [la]; simp; omega
  rw [ta, tb, da, rb, List.cons_eq_cons]
  constructor
  · rintro ⟨h1, h2, h3⟩
    obtain ⟨h1a, h1b⟩ := List.append_inj h1 la'
    obtain ⟨h2a, h2b⟩ := List.append_inj h2 (by simp [hul])
    refine ⟨h1b, h1a, h2b, ?_, h3⟩
    have : [b[i]] = [a[j]] := by rw [h2a, h1b]
    exact (List.cons.inj this).1.symm
  · rintro ⟨h1, h2, h3, h4, h5⟩
    refine ⟨by rw [h2, h1], ?_, h5⟩
    rw [h3, ← h1, h4]

/-- Entries after one more pass of the loop of rigid.cups. -/
theorem cupsStep_entry (l : List Nat) (i j v : Nat) (t : Tensor R) (hij : j + 1 + i = l.length)
    (hv : l[j]'(by omega) = v) (hw : t.WF) (hd : t.dom = l ++ l.reverse)
    (hc : t.cod = (l.take j ++ (cupFactory (R := R) [v] [v]).dom) ++ l.reverse.drop (i + 1))
    (hent : ∀ a b a' b', InRange l a → InRange l.reverse b → InRange (l.take j ++ [v]) a' →
      InRange ([v] ++ l.reverse.drop (i + 1)) b' →
      t.entry ((a ++ b) ++ (a' ++ b'))
        = if a.take (j + 1) = a' ∧ b.drop i = b' ∧ a.drop (j + 1) = (b.take i).reverse
          then 1 else 0)
    {a b a'' b'' : List Nat} (hia : InRange l a) (hib : InRange l.reverse b)
    (hia'' : InRange (l.take j) a'') (hib'' : InRange (l.reverse.drop (i + 1)) b'') :
    (thenCore t (layerT (l.take j) (l.reverse.drop (i + 1)) (cupFactory [v] [v]))).entry
        ((a ++ b) ++ (a'' ++ b''))
      = if a.take j = a'' ∧ b.drop (i + 1) = b'' ∧ a.drop j = (b.take (i + 1)).reverse
        then 1 else 0 := by
  have hcup := cupFactory_wf (R := R) [v]
  have hab : InRange t.dom (a ++ b) := by rw [hd]; exact inRange_append hia hib
  have h0 := then_layer_entry t (cupFactory (R := R) [v] [v]) (l.take j)
    (l.reverse.drop (i + 1)) hw hcup hc hab hia'' (bc := []) trivial hib''
  simp only [List.append_nil] at h0
  rw [h0]
  have hdomc : (cupFactory (R := R) [v] [v]).dom = [v] ++ [v] := rfl
  rw [hdomc, sumOver_append]
  have hal : a.length = l.length := hia.length_eq
  have hbl : b.length = l.length := by rw [hib.length_eq]; simp
  have haj : j < a.length := by omega
  have hbi : i < b.length := by omega
  have hain : InRange [v] [a[j]] := by
    have := (inRange_iff_getD.1 hia).2 j (by omega)
    rw [getD_of_lt _ haj, getD_of_lt _ (by omega), hv] at this
    simpa using this
  have la'' : a''.length = j := by rw [hia''.length_eq]; simp; omega
  rw [sumOver_congr (g := fun u => (if [a[j]] = u then 1 else 0) *
      (if a.take j = a'' ∧ b.drop (i + 1) = b'' ∧ a.drop j = (b.take (i + 1)).reverse
        then 1 else 0)) (fun u hu => ?_)]
  · rw [sumOver_delta hain]
  · rw [sumOver_congr (g := fun w => (if u = w then 1 else 0) *
        t.entry ((a ++ b) ++ (a'' ++ (u ++ w) ++ b''))) (fun w hw'' => ?_)]
    · rw [sumOver_delta hu]
      have hidx : a'' ++ (u ++ u) ++ b'' = (a'' ++ u) ++ (u ++ b'') := by
        simp [List.append_assoc]
      rw [hidx, hent a b (a'' ++ u) (u ++ b'') hia hib (inRange_append hia'' hu)
        (inRange_append hu hib''), ← ite_and_mul]
      have hul : u.length = 1 := by rw [hu.length_eq]; rfl
      exact if_congr (cup_step_cond haj hbi la'' hul) rfl rfl
    · have hcupe := cupFactory_entry (R := R) [v] hu hw''
      simp only [List.append_nil] at hcupe
      rw [hcupe]
      ring

/-- The loop of rigid.cups on tensors, with its entries: after `i` passes the tensor is the
    Kronecker delta matching the `i` innermost wires of `left` with those of `right` (nested)
    and copying the others. -/
theorem cupsLoop_entry (l : List Nat) : ∀ (n i : Nat) (t : Tensor R), i + n = l.length →
    t.WF → t.dom = l ++ l.reverse → t.cod = l.take (l.length - i) ++ l.reverse.drop i →
    (∀ a b a' b', InRange l a → InRange l.reverse b → InRange (l.take (l.length - i)) a' →
      InRange (l.reverse.drop i) b' →
      t.entry ((a ++ b) ++ (a' ++ b'))
        = if a.take (l.length - i) = a' ∧ b.drop i = b'
            ∧ a.drop (l.length - i) = (b.take i).reverse then 1 else 0) →
    ∃ t', cupsLoop l l.reverse n i t = .ok t' ∧ t'.WF ∧ t'.dom = l ++ l.reverse ∧ t'.cod = [] ∧
      ∀ a b, InRange l a → InRange l.reverse b →
        t'.entry ((a ++ b) ++ []) = if a = b.reverse then 1 else 0
  | 0, i, t, hi, hw, hd, hc, hent => by
    have hil : i = l.length := by omega
    subst hil
    refine ⟨t, rfl, hw, hd, by rw [hc]; simp, ?_⟩
    intro a b ha hb
    have := hent a b [] [] ha hb (by rw [Nat.sub_self]; exact trivial)
      (by rw [← List.length_reverse, List.drop_length]; exact trivial)
    simp only [List.append_nil] at this ⊢
    rw [this]
    have hbl : b.length = l.length := by rw [hb.length_eq]; simp
    have e1 : b.take l.length = b := by rw [← hbl]; exact List.take_length
    have e2 : b.drop l.length = [] := by rw [← hbl]; exact List.drop_length
    simp [e1, e2]
  | n + 1, i, t, hi, hw, hd, hc, hent => by
    obtain ⟨j, hj⟩ : ∃ j, j + 1 + i = l.length := ⟨l.length - i - 1, by omega⟩
    have hjl : j < l.length := by omega
    have hri : i < l.reverse.length := by simp; omega
    have ej : l.length - i - 1 = j := by omega
    have ej1 : l.length - i = j + 1 := by omega
    have ej2 : l.length - (i + 1) = j := by omega
    have s1 : pySlice l none (some ((l.length - i - 1 : Nat) : Int)) = l.take j := by
      rw [ej]; exact pySlice_take _ _
    have s2 : pySlice l (some ((l.length - i - 1 : Nat) : Int))
        (some ((l.length - i - 1 + 1 : Nat) : Int)) = [l[j]] := by
      rw [ej]; exact pySlice_one l _ hjl
    have s3 : pySlice l.reverse (some ((i : Nat) : Int)) (some ((i + 1 : Nat) : Int)) = [l[j]] := by
      rw [pySlice_one _ _ hri, List.getElem_reverse]
      congr 2
      omega
    have s4 : pySlice l.reverse (some ((i + 1 : Nat) : Int)) none = l.reverse.drop (i + 1) :=
      pySlice_drop _ _
    unfold cupsLoop
    rw [s1, s2, s3, s4]
    have hv : l.reverse[i] = l[j] := by
      rw [List.getElem_reverse]; congr 1; omega
    generalize ha : l[j] = v at hv
    have e2 : l.take (j + 1) = l.take j ++ [v] := by
      rw [List.take_succ_eq_append_getElem hjl, ha]
    have e3 : l.reverse.drop i = [v] ++ l.reverse.drop (i + 1) := by
      rw [List.drop_eq_getElem_cons hri, hv]; rfl
    have hcup := cupFactory_wf (R := R) [v]
    have hlayer : (layerT (R := R) (l.take j) (l.reverse.drop (i + 1))
        (cupFactory [v] [v])).WF := layerT_wf _ _ _ hcup
    have hcd : t.cod = (l.take j ++ (cupFactory (R := R) [v] [v]).dom)
        ++ l.reverse.drop (i + 1) := by
      rw [hc, ej1, e2, e3]; simp [cupFactory, List.append_assoc]
    have hL : ((Tensor.id (R := R) (l.take j)).tensor (cupFactory [v] [v])).tensor
        (Tensor.id (l.reverse.drop (i + 1)))
        = layerT (l.take j) (l.reverse.drop (i + 1)) (cupFactory [v] [v]) := rfl
    rw [hL, then_ok (by rw [hcd]; rfl)]
    simp only
    have hw' := thenCore_wf t _ hw hlayer (by rw [hcd]; rfl)
    have hent' : ∀ a b a' b', InRange l a → InRange l.reverse b → InRange (l.take j ++ [v]) a' →
        InRange ([v] ++ l.reverse.drop (i + 1)) b' →
        t.entry ((a ++ b) ++ (a' ++ b'))
          = if a.take (j + 1) = a' ∧ b.drop i = b' ∧ a.drop (j + 1) = (b.take i).reverse
            then 1 else 0 := by
      intro a b a' b' h1 h2 h3 h4
      have := hent a b a' b' h1 h2 (by rw [ej1, e2]; exact h3) (by rw [e3]; exact h4)
      rw [ej1] at this
      exact this
    apply cupsLoop_entry l n (i + 1) _ (by omega) hw' hd
    · simp only [thenCore_cod, layerT_cod, cupFactory, mk'_cod, List.append_nil]
      rw [ej2]
    · intro a b a'' b'' hia hib hia'' hib''
      rw [ej2] at hia'' ⊢
      exact cupsStep_entry l i j v t hj ha hw hd hcd hent' hia hib hia'' hib''

/-- `Tensor.cups(left, right)` succeeds iff the dimension tuples are adjoint, and then gives a
    well-formed tensor `left ⊗ right → 1`. -/
theorem cups_spec (left right : List Nat) :
    (right = left.reverse → ∃ t, Tensor.cups (R := R) left right = .ok t ∧ t.WF ∧
        t.dom = left ++ right ∧ t.cod = []) ∧
    (right ≠ left.reverse → Tensor.cups (R := R) left right = .error .axiom) := by
  refine ⟨?_, ?_⟩
  · intro h
    subst h
    unfold Tensor.cups
    simp only [ne_eq, not_true_eq_false, false_and, if_false]
    obtain ⟨t', h1, h2, h3, h4⟩ := cupsLoop_spec (R := R) left left.length 0
      (Tensor.id (left ++ left.reverse)) (by omega) (id_wf _) (by simp)
    exact ⟨t', h1, h2, h3, h4⟩
  · intro h
    unfold Tensor.cups
    have h1 : left.reverse ≠ right := fun e => h e.symm
    have h2 : right.reverse ≠ left := fun e => h (by rw [← e]; simp)
    simp [h1, h2]

theorem cups_ok {left right : List Nat} {t : Tensor R} (h : Tensor.cups left right = .ok t) :
    t.WF ∧ t.dom = left ++ right ∧ t.cod = [] := by
  by_cases hr : right = left.reverse
  · obtain ⟨t', h1, h2, h3, h4⟩ := (cups_spec (R := R) left right).1 hr
    rw [h1] at h; cases h
    exact ⟨h2, h3, h4⟩
  · rw [(cups_spec (R := R) left right).2 hr] at h; cases h

end

section
variable {R : Type} [CommSemiring R] [StarRing R]

theorem caps_ok {left right : List Nat} {t : Tensor R} (h : Tensor.caps left right = .ok t) :
    t.WF ∧ t.dom = [] ∧ t.cod = left ++ right := by
  unfold Tensor.caps at h
  cases hc : Tensor.cups (R := R) left right with
  | error e => rw [hc] at h; cases h
  | ok t0 =>
    rw [hc] at h; cases h
    obtain ⟨h1, h2, h3⟩ := cups_ok hc
    exact ⟨dagger_wf _ h1, by rw [dagger_dom, h3], by rw [dagger_cod, h2]⟩

end
end Tensor
end DV
