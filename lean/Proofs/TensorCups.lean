/-
  Proofs/TensorCups.lean — the nested cups of `Tensor.cups` (rigid.cups with
  `ar_factory = Tensor`, rigid.py:442-455, tensor.py:219-228) are well-formed tensors of type
  `left ⊗ right → 1` for EVERY pair of adjoint dimension tuples (`right = left[::-1]`), and the
  call is refused (AxiomError) otherwise.  (Their snake equations are not proved here.)
-/
import Proofs.TensorSnake
import Proofs.WFOps

namespace DV
namespace Tensor
open NDArray

section
variable {R : Type} [CommSemiring R]

theorem pySlice_one {α} (xs : List α) (j : Nat) (h : j < xs.length) :
    pySlice xs (some (j : Int)) (some ((j + 1 : Nat) : Int)) = [xs[j]] := by
  simp only [pySlice, pyLo, pyHi, pyIdx_nat]
  rw [Nat.min_eq_left (by omega), Nat.min_eq_left (by omega)]
  have : j + 1 - j = 1 := by omega
  rw [this, List.drop_eq_getElem_cons h]
  rfl

/-- The loop of rigid.cups on tensors: it succeeds, keeps the domain and empties the codomain. -/
theorem cupsLoop_spec (left : List Nat) : ∀ (n i : Nat) (t : Tensor R), i + n = left.length →
    t.WF → t.cod = left.take (left.length - i) ++ left.reverse.drop i →
    ∃ t', cupsLoop left left.reverse n i t = .ok t' ∧ t'.WF ∧ t'.dom = t.dom ∧ t'.cod = []
  | 0, i, t, hi, hw, hc => by
    refine ⟨t, rfl, hw, rfl, ?_⟩
    have : i = left.length := by omega
    subst this
    rw [hc]; simp
  | n + 1, i, t, hi, hw, hc => by
    have hlt : i < left.length := by omega
    have hj : left.length - i - 1 < left.length := by omega
    have hri : i < left.reverse.length := by simpa using hlt
    -- the four slices of rigid.py:451-452
    have s1 : pySlice left none (some ((left.length - i - 1 : Nat) : Int))
        = left.take (left.length - i - 1) := pySlice_take _ _
    have s2 : pySlice left (some ((left.length - i - 1 : Nat) : Int))
        (some ((left.length - i - 1 + 1 : Nat) : Int)) = [left[left.length - i - 1]] :=
      pySlice_one left _ hj
    have s3 : pySlice left.reverse (some ((i : Nat) : Int)) (some ((i + 1 : Nat) : Int))
        = [left[left.length - i - 1]] := by
      rw [pySlice_one _ _ hri, List.getElem_reverse]
      congr 2
      omega
    have s4 : pySlice left.reverse (some ((i + 1 : Nat) : Int)) none = left.reverse.drop (i + 1) :=
      pySlice_drop _ _
    unfold cupsLoop
    rw [s1, s2, s3, s4]
    generalize ha : left[left.length - i - 1] = a
    have hlayer : (((Tensor.id (R := R) (left.take (left.length - i - 1))).tensor
        (cupFactory [a] [a])).tensor (Tensor.id (left.reverse.drop (i + 1)))).WF :=
      tensor_wf _ _ (tensor_wf _ _ (id_wf _) (cupFactory_wf [a])) (id_wf _)
    have hcd : t.cod = (((Tensor.id (R := R) (left.take (left.length - i - 1))).tensor
        (cupFactory [a] [a])).tensor (Tensor.id (left.reverse.drop (i + 1)))).dom := by
      rw [hc]
      have e1 : left.length - i = (left.length - i - 1) + 1 := by omega
      have e2 : left.take (left.length - i) = left.take (left.length - i - 1) ++ [a] := by
        have h := List.take_succ_eq_append_getElem hj
        rw [ha, ← e1] at h
        exact h
      have e3 : left.reverse.drop i = a :: left.reverse.drop (i + 1) := by
        rw [List.drop_eq_getElem_cons hri, List.getElem_reverse]
        congr 1
        rw [← ha]; congr 1
        omega
      rw [e2, e3]
      simp [cupFactory, List.append_assoc]
    rw [then_ok hcd]
    simp only
    have ih := cupsLoop_spec left n (i + 1) _ (by omega)
      (thenCore_wf t _ hw hlayer hcd) (by
        simp only [thenCore_cod, tensor_cod, id_cod, cupFactory, mk'_cod, List.append_nil]
        congr 2)
    obtain ⟨t', h1, h2, h3, h4⟩ := ih
    exact ⟨t', h1, h2, h3, h4⟩

/-- `Tensor.cups(left, right)` succeeds iff the dimension tuples are adjoint, and then gives a
    well-formed tensor `left ⊗ right → 1`. -/
theorem cups_spec (left right : List Nat) :
    (right = left.reverse → ∃ t, Tensor.cups (R := R) left right = .ok t ∧ t.WF ∧
        t.dom = left ++ right ∧ t.cod = []) ∧
    (right ≠ left.reverse → Tensor.cups (R := R) left right = .error .axiom) := by
  refine ⟨?_, ?_⟩
  · intro h
    subst h
    unfold Tensor.cups
    simp only [ne_eq, not_true_eq_false, false_and, if_false]
    obtain ⟨t', h1, h2, h3, h4⟩ := cupsLoop_spec (R := R) left left.length 0
      (Tensor.id (left ++ left.reverse)) (by omega) (id_wf _) (by simp)
    exact ⟨t', h1, h2, h3, h4⟩
  · intro h
    unfold Tensor.cups
    have h1 : left.reverse ≠ right := fun e => h e.symm
    have h2 : right.reverse ≠ left := fun e => h (by rw [← e]; simp)
    simp [h1, h2]

theorem cups_ok {left right : List Nat} {t : Tensor R} (h : Tensor.cups left right = .ok t) :
    t.WF ∧ t.dom = left ++ right ∧ t.cod = [] := by
  by_cases hr : right = left.reverse
  · obtain ⟨t', h1, h2, h3, h4⟩ := (cups_spec (R := R) left right).1 hr
    rw [h1] at h; cases h
    exact ⟨h2, h3, h4⟩
  · rw [(cups_spec (R := R) left right).2 hr] at h; cases h

end

section
variable {R : Type} [CommSemiring R] [StarRing R]

theorem caps_ok {left right : List Nat} {t : Tensor R} (h : Tensor.caps left right = .ok t) :
    t.WF ∧ t.dom = [] ∧ t.cod = left ++ right := by
  unfold Tensor.caps at h
  cases hc : Tensor.cups (R := R) left right with
  | error e => rw [hc] at h; cases h
  | ok t0 =>
    rw [hc] at h; cases h
    obtain ⟨h1, h2, h3⟩ := cups_ok hc
    exact ⟨dagger_wf _ h1, by rw [dagger_dom, h3], by rw [dagger_cod, h2]⟩

end
end Tensor
end DV
