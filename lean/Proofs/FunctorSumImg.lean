/-
  Proofs/FunctorSumImg.lean — C04 for box maps with formal sums among their images
  (`FunctorS.applyS`, Model/FunctorSumImg.lean): typing, `F(Id) = Id`, and the image of a composite /
  tensor is the composite / tensor of the images with the library's own `>>`, `@` on sums — i.e. the
  sum over all choices of one term per box, the earlier box varying slowest.
-/
import Proofs.DSLaws

namespace DV

/-- `F` is well-typed on box `b`: its image (a diagram or a sum) is well-typed, from the image of
    the domain to the image of the codomain. -/
def FunctorS.okOn (F : FunctorS) (b : Box) : Prop :=
  ∀ x, F.box b = .ok x → x.WF ∧ F.base.ty b.dom = .ok x.dom ∧ F.base.ty b.cod = .ok x.cod

theorem FunctorS.stepBox_scan (F : FunctorS) {scan scan' : Ty} {result res : DS} {b : Box}
    {off : Int} (h : F.stepBox scan result b off = .ok (scan', res)) :
    scan' = pySlice scan none (some off) ++ b.cod ++ pySlice scan (some (off + b.dom.length)) none := by
  unfold FunctorS.stepBox at h
  split at h
  · split at h
    · cases h
    · split at h
      · cases h
      · simp only [Except.ok.injEq, Prod.mk.injEq] at h; exact h.1.symm
  all_goals cases h

/-- `stepBox` in closed form, for a well-typed running result and a well-typed box image. -/
theorem FunctorS.stepBox_eq (F : FunctorS) {scan : Ty} {result x : DS} {b : Box} {off : Int}
    {l r : Ty} (hr : result.WF) (hx : x.WF)
    (hl : F.base.ty (pySlice scan none (some off)) = .ok l)
    (hrr : F.base.ty (pySlice scan (some (off + b.dom.length)) none) = .ok r)
    (hb : F.box b = .ok x) (hcod : result.cod = l ++ x.dom ++ r) :
    F.stepBox scan result b off =
      .ok (pySlice scan none (some off) ++ b.cod ++ pySlice scan (some (off + b.dom.length)) none,
           result.thenD (DS.layerD l x r)) := by
  unfold FunctorS.stepBox
  simp only [FunctorS.ty, hl, hrr, hb]
  rw [DS.whisker_spec hx]
  simp only
  rw [DS.then_spec hr (DS.layerD_wf hx) (by simp [hcod])]

/-- Inversion: a successful step on well-typed data has the closed form.  (Unlike for plain
    diagrams, `result.cod = l ++ x.dom ++ r` cannot be read off the success of `>>`: a sum with no
    terms composes with anything, cat.py:712-718.  It follows from the typing of the scan.) -/
theorem FunctorS.stepBox_inv (F : FunctorS) {scan scan' : Ty} {result res : DS} {b : Box}
    {off : Int} (hr : result.WF) (hb : F.okOn b) (hty : F.base.ty scan = .ok result.cod)
    (hsplit : scan = pySlice scan none (some off) ++ b.dom ++
      pySlice scan (some (off + b.dom.length)) none)
    (h : F.stepBox scan result b off = .ok (scan', res)) :
    ∃ l r x, F.base.ty (pySlice scan none (some off)) = .ok l ∧
      F.base.ty (pySlice scan (some (off + b.dom.length)) none) = .ok r ∧ F.box b = .ok x ∧ x.WF ∧
      result.cod = l ++ x.dom ++ r ∧ res = result.thenD (DS.layerD l x r) ∧
      F.base.ty scan' = .ok res.cod := by
  have hsc := F.stepBox_scan h
  unfold FunctorS.stepBox at h
  split at h
  · rename_i l r x hl hrr hx
    obtain ⟨xw, xd, xc⟩ := hb x hx
    have hcod : result.cod = l ++ x.dom ++ r := by
      have e := F.base.ty_append (F.base.ty_append hl xd) hrr
      rw [← hsplit, hty] at e
      exact Except.ok.inj e
    rw [DS.whisker_spec xw] at h
    simp only at h
    rw [DS.then_spec hr (DS.layerD_wf xw) (by simp [hcod])] at h
    simp only [Except.ok.injEq, Prod.mk.injEq] at h
    obtain ⟨_, rfl⟩ := h
    refine ⟨l, r, x, hl, hrr, hx, xw, hcod, rfl, ?_⟩
    rw [hsc]
    have e := F.base.ty_append (F.base.ty_append hl xc) hrr
    simpa using e
  all_goals cases h

/-! ### Typing of the image -/

theorem layer_split (l : Layer) (t : Ty) :
    l.dom ++ t = pySlice (l.dom ++ t) none (some (l.left.length : Int)) ++ l.box.dom ++
      pySlice (l.dom ++ t) (some ((l.left.length : Int) + l.box.dom.length)) none := by
  rw [slice_left_of_layer, slice_right_of_layer]; simp [Layer.dom]

theorem layer_split0 (l : Layer) :
    l.dom = pySlice l.dom none (some (l.left.length : Int)) ++ l.box.dom ++
      pySlice l.dom (some ((l.left.length : Int) + l.box.dom.length)) none := by
  have := layer_split l []
  simpa using this

theorem layer_split_shift (l : Layer) (u : Ty) :
    u ++ l.dom = pySlice (u ++ l.dom) none (some ((l.left.length : Int) + u.length)) ++ l.box.dom ++
      pySlice (u ++ l.dom) (some ((l.left.length : Int) + u.length + l.box.dom.length)) none := by
  rw [slice_left_shift, slice_right_shift]; simp [Layer.dom]

theorem FunctorS.loop_props (F : FunctorS) {scan c : Ty} {result r : DS} {bs : List Box}
    {os : List Int} (hfit : Fits scan bs os c) (hr : result.WF)
    (hty : F.base.ty scan = .ok result.cod) (hok : ∀ b ∈ bs, F.okOn b)
    (h : F.loop scan result bs os = .ok r) :
    r.WF ∧ r.dom = result.dom ∧ F.base.ty c = .ok r.cod := by
  induction bs generalizing scan result os with
  | nil =>
    obtain ⟨ls, hch, hm, ho⟩ := hfit
    have : ls = [] := by simpa using hm
    subst this
    simp [Chain] at hch; subst hch
    cases os <;> (simp only [FunctorS.loop, Except.ok.injEq] at h; subst h; exact ⟨hr, rfl, hty⟩)
  | cons b bs ih =>
    cases os with
    | nil => obtain ⟨ls, _, hm, ho⟩ := hfit; cases ls <;> simp at hm ho
    | cons o os =>
      obtain ⟨l, hlb, hlo, hscan, hfit'⟩ := hfit.cons_inv
      subst hlb hlo hscan
      simp only [FunctorS.loop] at h
      split at h
      · cases h
      · rename_i scan' res hstep
        obtain ⟨L, R, x, hL, hR, hx, xw, hcod, rfl, hty'⟩ :=
          F.stepBox_inv hr (hok _ (List.mem_cons_self ..)) hty (layer_split0 l) hstep
        have hsc := F.stepBox_scan hstep
        have e1 := slice_left_of_layer (l := l) []
        have e2 := slice_right_of_layer (l := l) []
        simp only [List.append_nil] at e1 e2
        have hscan' : scan' = l.cod := by rw [hsc, e1, e2]; rfl
        subst hscan'
        have hw' : (result.thenD (DS.layerD L x R)).WF :=
          DS.thenD_wf hr (DS.layerD_wf xw) (by simp [hcod])
        obtain ⟨a1, a2, a3⟩ := ih hfit' hw' hty'
          (fun b' hb' => hok b' (List.mem_cons_of_mem _ hb')) h
        exact ⟨a1, by simpa using a2, a3⟩

/-- The image of a well-typed diagram under a functor that is well-typed on its boxes is well-typed
    (every term of it, when it is a sum), from the image of the domain to the image of the codomain. -/
theorem FunctorS.applyS_props (F : FunctorS) {d : Diagram} {r : DS} (hd : d.WF)
    (hb : ∀ b ∈ d.boxes, F.okOn b) (h : F.applyS d = .ok r) :
    r.WF ∧ F.base.ty d.dom = .ok r.dom ∧ F.base.ty d.cod = .ok r.cod := by
  unfold FunctorS.applyS at h
  split at h
  · cases h
  · rename_i t ht
    obtain ⟨a, b, c⟩ := F.loop_props hd.fits (DS.idD_wf t) ht hb h
    exact ⟨a, by rw [b]; exact ht, c⟩

/-- `F(Id(t)) = Id(F(t))`. -/
theorem FunctorS.applyS_id (F : FunctorS) {t t' : Ty} (h : F.base.ty t = .ok t') :
    F.applyS (Diagram.id t) = .ok (.diag (Diagram.id t')) := by
  simp [FunctorS.applyS, FunctorS.ty, Diagram.id, h, FunctorS.loop]

/-! ### The loop over `bs1 ++ bs2`, and from an accumulated result -/

theorem FunctorS.loop_append' (F : FunctorS) {scan : Ty} {res r1 r : DS} {bs1 bs2 : List Box}
    {os1 os2 : List Int} (hlen : bs1.length = os1.length)
    (h1 : F.loop scan res bs1 os1 = .ok r1)
    (h2 : F.loop (scanAfter scan bs1 os1) r1 bs2 os2 = .ok r) :
    F.loop scan res (bs1 ++ bs2) (os1 ++ os2) = .ok r := by
  induction bs1 generalizing scan res os1 with
  | nil =>
    cases os1 with
    | nil => simp only [FunctorS.loop, Except.ok.injEq] at h1; subst h1; simpa [scanAfter] using h2
    | cons o os => simp at hlen
  | cons b bs ih =>
    cases os1 with
    | nil => simp at hlen
    | cons o os =>
      simp only [List.cons_append, FunctorS.loop] at h1 ⊢
      split at h1
      · cases h1
      · rename_i scan' res' hstep
        have := F.stepBox_scan hstep
        subst this
        simp only [scanAfter] at h2
        exact ih (by simpa using hlen) h1 h2

/-- Running the loop from `a >> r0` is `a >>` running it from `r0`. -/
theorem FunctorS.loop_acc (F : FunctorS) {scan c : Ty} {a r0 q : DS} {bs : List Box}
    {os : List Int} (hfit : Fits scan bs os c) (ha : a.WF) (hr0 : r0.WF) (hac : a.cod = r0.dom)
    (hty : F.base.ty scan = .ok r0.cod) (hok : ∀ b ∈ bs, F.okOn b)
    (h : F.loop scan r0 bs os = .ok q) :
    F.loop scan (a.thenD r0) bs os = .ok (a.thenD q) := by
  induction bs generalizing scan r0 os with
  | nil => cases os <;> (simp only [FunctorS.loop, Except.ok.injEq] at h ⊢; rw [h])
  | cons b bs ih =>
    cases os with
    | nil => obtain ⟨ls, _, hm, ho⟩ := hfit; cases ls <;> simp at hm ho
    | cons o os =>
      obtain ⟨l, hlb, hlo, hscan, hfit'⟩ := hfit.cons_inv
      subst hlb hlo hscan
      simp only [FunctorS.loop] at h ⊢
      split at h
      · cases h
      · rename_i scan' res hstep
        obtain ⟨L, R, x, hL, hR, hx, xw, hcod, rfl, hty'⟩ :=
          F.stepBox_inv hr0 (hok _ (List.mem_cons_self ..)) hty (layer_split0 l) hstep
        have hsc := F.stepBox_scan hstep
        have hstep' := F.stepBox_eq (scan := l.dom) (result := a.thenD r0) (b := l.box)
          (off := (l.left.length : Int)) (DS.thenD_wf ha hr0 hac) xw hL hR hx (by simpa using hcod)
        rw [hstep']
        simp only
        rw [← hsc, DS.thenD_assoc]
        have hw' : (r0.thenD (DS.layerD L x R)).WF :=
          DS.thenD_wf hr0 (DS.layerD_wf xw) (by simp [hcod])
        have e1 := slice_left_of_layer (l := l) []
        have e2 := slice_right_of_layer (l := l) []
        simp only [List.append_nil] at e1 e2
        have hscan' : scan' = l.cod := by rw [hsc, e1, e2]; rfl
        subst hscan'
        exact ih hfit' hw' (by simpa using hac) hty'
          (fun b' hb' => hok b' (List.mem_cons_of_mem _ hb')) h

/-- C04 with sums among the box images: `F(a >> b) = F(a) >> F(b)` in closed form. -/
theorem FunctorS.applyS_thenD (F : FunctorS) {a b : Diagram} {fa fb : DS} (ha : a.WF) (hb : b.WF)
    (hcod : a.cod = b.dom) (hoka : ∀ bx ∈ a.boxes, F.okOn bx) (hokb : ∀ bx ∈ b.boxes, F.okOn bx)
    (hfa : F.applyS a = .ok fa) (hfb : F.applyS b = .ok fb) :
    F.applyS (a.thenD b) = .ok (fa.thenD fb) := by
  obtain ⟨faw, fadom, facod⟩ := F.applyS_props ha hoka hfa
  unfold FunctorS.applyS at hfa hfb ⊢
  simp only [FunctorS.ty] at hfa hfb ⊢
  rw [fadom] at hfa
  have hbd : F.base.ty b.dom = .ok fa.cod := by rw [← hcod]; exact facod
  rw [hbd] at hfb
  simp only at hfa hfb
  show (match F.base.ty a.dom with
    | .error e => Except.error e
    | .ok t => F.loop a.dom (.diag (Diagram.id t)) (a.boxes ++ b.boxes) (a.offsets ++ b.offsets)) = _
  rw [fadom]
  simp only
  have hlen : a.boxes.length = a.offsets.length := by rw [ha.boxes, ha.offsets]; simp
  apply F.loop_append' hlen hfa
  have hsa : scanAfter a.dom a.boxes a.offsets = b.dom := by
    rw [ha.boxes, ha.offsets, ← hcod]
    apply scanAfter_chain
    have := ha.chain
    rwa [LArrow.WF, ha.ldom, ha.lcod] at this
  rw [hsa]
  have := F.loop_acc (a := fa) (r0 := DS.idD fa.cod) hb.fits faw (DS.idD_wf _) rfl
    (by simpa using hbd) hokb hfb
  rwa [DS.thenD_id faw rfl] at this

/-- `F(a >> b) = F(a) >> F(b)`: the library's `>>` on the two images succeeds and is the image of
    the composite; when a sum is involved its terms are all the pairs (term of `F(a)`, term of
    `F(b)`), the terms of `F(a)` varying slowest (`DS.thenD`). -/
theorem FunctorS.applyS_then (F : FunctorS) {a b ab : Diagram} {fa fb : DS} (ha : a.WF) (hb : b.WF)
    (hoka : ∀ bx ∈ a.boxes, F.okOn bx) (hokb : ∀ bx ∈ b.boxes, F.okOn bx)
    (hab : a.then b = .ok ab) (hfa : F.applyS a = .ok fa) (hfb : F.applyS b = .ok fb) :
    fa.then fb = .ok (fa.thenD fb) ∧ F.applyS ab = .ok (fa.thenD fb) := by
  obtain ⟨hc, rfl⟩ := Diagram.then_ok' hab
  have hcod : a.cod = b.dom := by rw [← ha.lcod, ← hb.ldom]; exact hc
  obtain ⟨faw, _, facod⟩ := F.applyS_props ha hoka hfa
  obtain ⟨fbw, fbdom, _⟩ := F.applyS_props hb hokb hfb
  have : fa.cod = fb.dom := by
    rw [hcod, fbdom] at facod; exact (Except.ok.inj facod).symm
  exact ⟨DS.then_spec faw fbw this, F.applyS_thenD ha hb hcod hoka hokb hfa hfb⟩

/-! ### Whiskering the loop on the right and on the left -/

theorem FunctorS.loop_whiskR (F : FunctorS) {scan c t tt : Ty} {res r : DS} {bs : List Box}
    {os : List Int} (hfit : Fits scan bs os c) (hres : res.WF)
    (hty : F.base.ty scan = .ok res.cod) (hok : ∀ b ∈ bs, F.okOn b)
    (ht : F.base.ty t = .ok tt) (h : F.loop scan res bs os = .ok r) :
    F.loop (scan ++ t) (res.tensorD (DS.idD tt)) bs os = .ok (r.tensorD (DS.idD tt)) := by
  induction bs generalizing scan res os with
  | nil => cases os <;> (simp only [FunctorS.loop, Except.ok.injEq] at h ⊢; rw [h])
  | cons b bs ih =>
    cases os with
    | nil => obtain ⟨ls, _, hm, ho⟩ := hfit; cases ls <;> simp at hm ho
    | cons o os =>
      obtain ⟨l, hlb, hlo, hscan, hfit'⟩ := hfit.cons_inv
      subst hlb hlo hscan
      simp only [FunctorS.loop] at h ⊢
      split at h
      · cases h
      · rename_i scan' res' hstep
        obtain ⟨L, R, x, hL, hR, hx, xw, hcod, rfl, hty'⟩ :=
          F.stepBox_inv hres (hok _ (List.mem_cons_self ..)) hty (layer_split0 l) hstep
        have hsc := F.stepBox_scan hstep
        have e1 := slice_left_of_layer (l := l) []
        have e2 := slice_right_of_layer (l := l) []
        simp only [List.append_nil] at e1 e2
        rw [e1] at hL; rw [e2] at hR
        have hRt := F.base.ty_append hR ht
        have hstep' := F.stepBox_eq (scan := l.dom ++ t) (result := res.tensorD (DS.idD tt))
          (b := l.box) (off := (l.left.length : Int)) (l := L) (r := R ++ tt) (x := x)
          (DS.tensorD_wf hres (DS.idD_wf tt)) xw
          (by rw [slice_left_of_layer]; exact hL) (by rw [slice_right_of_layer]; exact hRt) hx
          (by simp [hcod])
        rw [hstep']
        simp only
        rw [slice_left_of_layer, slice_right_of_layer]
        have hscan' : scan' = l.cod := by rw [hsc, e1, e2]; rfl
        subst hscan'
        have hw' : (res.thenD (DS.layerD L x R)).WF :=
          DS.thenD_wf hres (DS.layerD_wf xw) (by simp [hcod])
        have := ih hfit' hw' hty' (fun b' hb' => hok b' (List.mem_cons_of_mem _ hb')) h
        rw [DS.thenD_tensorD_id, DS.layerD_whiskR] at this
        have eq : l.left ++ l.box.cod ++ (l.right ++ t) = l.cod ++ t := by simp [Layer.cod]
        rw [eq]; exact this

theorem FunctorS.loop_whiskL (F : FunctorS) {scan c u tu : Ty} {res r : DS} {bs : List Box}
    {os : List Int} (hfit : Fits scan bs os c) (hres : res.WF)
    (hty : F.base.ty scan = .ok res.cod) (hok : ∀ b ∈ bs, F.okOn b)
    (hu : F.base.ty u = .ok tu) (h : F.loop scan res bs os = .ok r) :
    F.loop (u ++ scan) ((DS.idD tu).tensorD res) bs (os.map (· + (u.length : Int))) =
      .ok ((DS.idD tu).tensorD r) := by
  induction bs generalizing scan res os with
  | nil =>
    cases os <;> (simp only [FunctorS.loop, Except.ok.injEq] at h ⊢; rw [h])
  | cons b bs ih =>
    cases os with
    | nil => obtain ⟨ls, _, hm, ho⟩ := hfit; cases ls <;> simp at hm ho
    | cons o os =>
      obtain ⟨l, hlb, hlo, hscan, hfit'⟩ := hfit.cons_inv
      subst hlb hlo hscan
      simp only [FunctorS.loop, List.map_cons] at h ⊢
      split at h
      · cases h
      · rename_i scan' res' hstep
        obtain ⟨L, R, x, hL, hR, hx, xw, hcod, rfl, hty'⟩ :=
          F.stepBox_inv hres (hok _ (List.mem_cons_self ..)) hty (layer_split0 l) hstep
        have hsc := F.stepBox_scan hstep
        have e1 := slice_left_of_layer (l := l) []
        have e2 := slice_right_of_layer (l := l) []
        simp only [List.append_nil] at e1 e2
        rw [e1] at hL; rw [e2] at hR
        have hLu := F.base.ty_append hu hL
        have hstep' := F.stepBox_eq (scan := u ++ l.dom) (result := (DS.idD tu).tensorD res)
          (b := l.box) (off := (l.left.length : Int) + u.length) (l := tu ++ L) (r := R) (x := x)
          (DS.tensorD_wf (DS.idD_wf tu) hres) xw
          (by rw [slice_left_shift]; exact hLu) (by rw [slice_right_shift]; exact hR) hx
          (by simp [hcod])
        rw [hstep']
        simp only
        rw [slice_left_shift, slice_right_shift]
        have hscan' : scan' = l.cod := by rw [hsc, e1, e2]; rfl
        subst hscan'
        have hw' : (res.thenD (DS.layerD L x R)).WF :=
          DS.thenD_wf hres (DS.layerD_wf xw) (by simp [hcod])
        have := ih hfit' hw' hty' (fun b' hb' => hok b' (List.mem_cons_of_mem _ hb')) h
        rw [DS.id_tensorD_thenD, DS.layerD_whiskL] at this
        have eq : u ++ l.left ++ l.box.cod ++ l.right = u ++ l.cod := by simp [Layer.cod]
        rw [eq]; exact this

/-- C04 with sums among the box images: `F(a @ b) = F(a) @ F(b)` in closed form. -/
theorem FunctorS.applyS_tensorD (F : FunctorS) {a b : Diagram} {fa fb : DS} (ha : a.WF) (hb : b.WF)
    (hoka : ∀ bx ∈ a.boxes, F.okOn bx) (hokb : ∀ bx ∈ b.boxes, F.okOn bx)
    (hfa : F.applyS a = .ok fa) (hfb : F.applyS b = .ok fb) :
    F.applyS (a.tensorD b) = .ok (fa.tensorD fb) := by
  obtain ⟨faw, fadom, facod⟩ := F.applyS_props ha hoka hfa
  obtain ⟨fbw, fbdom, fbcod⟩ := F.applyS_props hb hokb hfb
  unfold FunctorS.applyS at hfa hfb ⊢
  simp only [FunctorS.ty] at hfa hfb ⊢
  rw [fadom] at hfa; rw [fbdom] at hfb
  simp only at hfa hfb
  have hdom : F.base.ty (a.tensorD b).dom = .ok (fa.dom ++ fb.dom) := F.base.ty_append fadom fbdom
  rw [hdom]
  simp only
  have hlen : a.boxes.length = a.offsets.length := by rw [ha.boxes, ha.offsets]; simp
  -- first half: the boxes of `a`, whiskered on the right by `b.dom`
  have h1 := F.loop_whiskR (t := b.dom) (tt := fb.dom) ha.fits (DS.idD_wf fa.dom)
    (by simpa using fadom) hoka fbdom hfa
  rw [DS.tensorD_id_id] at h1
  -- second half: the boxes of `b`, whiskered on the left by `a.cod`
  have h2 := F.loop_whiskL (u := a.cod) (tu := fa.cod) hb.fits (DS.idD_wf fb.dom)
    (by simpa using fbdom) hokb facod hfb
  rw [DS.tensorD_id_id] at h2
  have hfit2 : Fits (a.cod ++ b.dom) b.boxes (b.offsets.map (· + (a.cod.length : Int)))
      (a.cod ++ b.cod) := by
    obtain ⟨ls, hch, hm, ho⟩ := hb.fits
    refine ⟨ls.map (whiskL a.cod), ?_, ?_, ?_⟩
    · exact chain_whiskL a.cod hch
    · rw [← hm]; simp [whiskL, Function.comp_def]
    · rw [← ho]; simp [whiskL, Function.comp_def]; intro l _; omega
  have hacc := F.loop_acc (a := fa.tensorD (DS.idD fb.dom)) (r0 := DS.idD (fa.cod ++ fb.dom)) hfit2
    (DS.tensorD_wf faw (DS.idD_wf _)) (DS.idD_wf _) (by simp)
    (by simpa using F.base.ty_append facod fbdom)
    hokb h2
  rw [DS.thenD_id (DS.tensorD_wf faw (DS.idD_wf _)) (by simp)] at hacc
  have hq : (fa.tensorD (DS.idD fb.dom)).thenD ((DS.idD fa.cod).tensorD fb) = fa.tensorD fb :=
    DS.exchange faw fbw
  rw [hq] at hacc
  show F.loop (a.dom ++ b.dom) (DS.diag (Diagram.id (fa.dom ++ fb.dom))) (a.boxes ++ b.boxes)
    (a.offsets ++ b.offsets.map (· + (a.cod.length : Int))) = _
  apply F.loop_append' hlen h1
  rw [scanAfter_fits_append b.dom ha.fits]
  exact hacc

theorem FunctorS.applyS_tensor (F : FunctorS) {a b ab : Diagram} {fa fb : DS} (ha : a.WF) (hb : b.WF)
    (hoka : ∀ bx ∈ a.boxes, F.okOn bx) (hokb : ∀ bx ∈ b.boxes, F.okOn bx)
    (hab : a.tensor b = .ok ab) (hfa : F.applyS a = .ok fa) (hfb : F.applyS b = .ok fb) :
    fa.tensor fb = .ok (fa.tensorD fb) ∧ F.applyS ab = .ok (fa.tensorD fb) := by
  obtain ⟨faw, _, _⟩ := F.applyS_props ha hoka hfa
  obtain ⟨fbw, _, _⟩ := F.applyS_props hb hokb hfb
  rw [Diagram.tensor_eq_tensorD ha hb] at hab
  cases hab
  exact ⟨DS.tensor_spec faw fbw, F.applyS_tensorD ha hb hoka hokb hfa hfb⟩

/-! ### Plain images: the model with sums among the images extends the model of plain functors -/

theorem Functor.toS_ty (F : Functor) (t : Ty) : F.toS.base.ty t = F.ty t := by
  induction t with
  | nil => rfl
  | cons o os ih =>
    have e : F.toS.base.ob1 o = F.ob1 o := rfl
    simp only [Functor.ty, e, ih]

theorem Functor.toS_arLookup (F : Functor) (b : Box) : F.toS.arLookup b = DS.ofDiag (F.arLookup b) := by
  unfold FunctorS.arLookup Functor.arLookup Functor.toS
  simp only [List.find?_map]
  cases h : List.find? (fun p => p.1 == b) F.ar with
  | none =>
    have : List.find? ((fun p : Box × DS => p.1 == b) ∘ fun p : Box × Diagram => (p.1, DS.diag p.2)) F.ar = none := by
      simpa [Function.comp_def] using h
    simp [this, DS.ofDiag]
  | some p =>
    have : List.find? ((fun p : Box × DS => p.1 == b) ∘ fun p : Box × Diagram => (p.1, DS.diag p.2)) F.ar = some p := by
      simpa [Function.comp_def] using h
    simp [this, DS.ofDiag]

theorem Functor.toS_box (F : Functor) (b : Box) : F.toS.box b = DS.ofDiag (F.box b) := by
  unfold FunctorS.box Functor.box
  cases hk : b.kind with
  | gen =>
    simp only
    by_cases hd : b.dagger
    · simp only [hd, if_true, Functor.toS_arLookup]
      cases F.arLookup b.dag <;> simp [DS.ofDiag, DS.dagger]
    · simp only [hd, Functor.toS_arLookup]
      simp
  | swap =>
    simp only [FunctorS.special, Functor.box, hk, Functor.toS_ty]
  | cup =>
    simp only [FunctorS.special, Functor.box, hk, Functor.toS_ty]
  | cap =>
    simp only [FunctorS.special, Functor.box, hk, Functor.toS_ty]

theorem DS.whisker_diag (l r : Ty) (x : Diagram) :
    DS.whisker l (.diag x) r = DS.ofDiag (match (Diagram.id l).tensor x with
      | .error e => .error e
      | .ok lx => lx.tensor (Diagram.id r)) := by
  unfold DS.whisker
  simp only [DS.tensor]
  cases (Diagram.id l).tensor x with
  | error e => rfl
  | ok lx => simp only [DS.ofDiag]

def liftStep (r : Except Err (Ty × Diagram)) : Except Err (Ty × DS) :=
  match r with
  | .error e => .error e
  | .ok (s, d) => .ok (s, .diag d)

theorem Functor.toS_stepBox (F : Functor) (scan : Ty) (result : Diagram) (b : Box) (off : Int) :
    F.toS.stepBox scan (.diag result) b off = liftStep (F.stepBox scan result b off) := by
  unfold FunctorS.stepBox Functor.stepBox
  simp only [FunctorS.ty, Functor.toS_ty, Functor.toS_box]
  cases F.ty (pySlice scan none (some off)) <;>
  cases F.ty (pySlice scan (some (off + b.dom.length)) none) <;>
  cases F.box b <;> simp only [DS.ofDiag, liftStep]
  rename_i l r x
  rw [DS.whisker_diag]
  cases (Diagram.id l).tensor x with
  | error e => rfl
  | ok lx =>
    dsimp only
    cases lx.tensor (Diagram.id r) with
    | error e => rfl
    | ok layer =>
      simp only [DS.ofDiag, DS.then]
      cases result.then layer <;> rfl

theorem Functor.toS_loop (F : Functor) (scan : Ty) (result : Diagram) (bs : List Box) (os : List Int) :
    F.toS.loop scan (.diag result) bs os = DS.ofDiag (F.loop scan result bs os) := by
  induction bs generalizing scan result os with
  | nil => cases os <;> simp [FunctorS.loop, Functor.loop, DS.ofDiag]
  | cons b bs ih =>
    cases os with
    | nil => simp [FunctorS.loop, Functor.loop, DS.ofDiag]
    | cons o os =>
      simp only [FunctorS.loop, Functor.loop, Functor.toS_stepBox]
      cases F.stepBox scan result b o with
      | error e => simp [liftStep, DS.ofDiag]
      | ok p => obtain ⟨s, d⟩ := p; simp only [liftStep]; exact ih s d os

/-- The model with sums among the images restricted to plain images IS the model of plain functors. -/
theorem Functor.toS_applyS (F : Functor) (d : Diagram) : F.toS.applyS d = DS.ofDiag (F.apply d) := by
  unfold FunctorS.applyS Functor.apply
  simp only [FunctorS.ty, Functor.toS_ty]
  cases F.ty d.dom with
  | error e => simp [DS.ofDiag]
  | ok t => exact F.toS_loop d.dom (Diagram.id t) d.boxes d.offsets

/-! ### Dagger -/

/-- The image of a daggered generator is the dagger of the image of the generator (`Sum.dagger`
    for a sum: the daggers of the terms, in the same order). -/
theorem FunctorS.box_dagger (F : FunctorS) (b : Box) (hk : b.kind = .gen) (hd : b.dagger = false)
    {x : DS} (hx : F.box b = .ok x) : F.box b.dag = x.dagger := by
  have hdag : b.dag.dagger = true := by simp [Box.dag, hk, hd]
  have hkd : b.dag.kind = .gen := by simp [Box.dag, hk]
  simp only [FunctorS.box, hk, hd] at hx
  simp only [FunctorS.box, hkd, hdag, if_true, Box.dag_dag]
  simp only [Bool.false_eq_true, if_false] at hx
  rw [hx]

/-! FALSE for the code (finding F4c04a): with two boxes sent to two-term sums, `F(d†)` and `F(d)†`
    list the same four terms in different orders, and `Sum.__eq__` compares ordered lists. -/
namespace SumImgDagger
def x : Ob := ⟨"x", 0⟩
def y : Ob := ⟨"y", 0⟩
def z : Ob := ⟨"z", 0⟩
def f : Box := { name := "f", dom := [x], cod := [y] }
def g : Box := { name := "g", dom := [y], cod := [z] }
def a : Box := { name := "a", dom := [x], cod := [y] }
def b : Box := { name := "b", dom := [x], cod := [y] }
def c : Box := { name := "c", dom := [y], cod := [z] }
def e : Box := { name := "e", dom := [y], cod := [z] }
def F : FunctorS :=
  { ob := [("x", [x]), ("y", [y]), ("z", [z])],
    ar := [(f, .sum ⟨[Diagram.ofBox a, Diagram.ofBox b], [x], [y]⟩),
           (g, .sum ⟨[Diagram.ofBox c, Diagram.ofBox e], [y], [z]⟩)] }
def d : Diagram := (Diagram.ofBox f).thenD (Diagram.ofBox g)

/-- `F(d†)`: `c†a† + c†b† + e†a† + e†b†`. -/
def lhs : Except Err DS := F.applyS d.dagger
/-- `F(d)†`: `c†a† + e†a† + c†b† + e†b†`. -/
def rhs : Except Err DS := match F.applyS d with
  | .ok r => r.dagger
  | .error err => .error err

def termsOf : Except Err DS → List Diagram
  | .ok (.sum s) => s.terms
  | _ => []

theorem lhs_ne_rhs : (match lhs, rhs with
    | .ok p, .ok q => p.eqv q
    | _, _ => true) = false := by decide
theorem four_terms : (termsOf lhs).length = 4 ∧ (termsOf rhs).length = 4 := by decide
theorem same_terms : (termsOf lhs).all (fun t => (termsOf rhs).contains t) = true ∧
    (termsOf rhs).all (fun t => (termsOf lhs).contains t) = true := by decide
end SumImgDagger

/-! ### The image of a one-box diagram -/

theorem Diagram.tensorD_id_nil_left {a : Diagram} (ha : a.WF) : (Diagram.id []).tensorD a = a := by
  have h := Diagram.tensor_id_nil_left ha
  rw [Diagram.tensor_eq_tensorD (Diagram.id_wf []) ha] at h
  exact Except.ok.inj h

theorem Diagram.tensorD_id_nil_right {a : Diagram} (ha : a.WF) : a.tensorD (Diagram.id []) = a := by
  have h := Diagram.tensor_id_nil_right ha
  rw [Diagram.tensor_eq_tensorD ha (Diagram.id_wf [])] at h
  exact Except.ok.inj h

theorem Diagram.layer_nil {a : Diagram} (ha : a.WF) :
    ((Diagram.id []).tensorD a).tensorD (Diagram.id []) = a := by
  rw [Diagram.tensorD_id_nil_left ha, Diagram.tensorD_id_nil_right ha]

theorem Sum.layer_nil {a : Sum} (ha : a.WF) :
    ((Sum.single (Diagram.id [])).tensorD a).tensorD (Sum.single (Diagram.id [])) = a := by
  cases a with | mk ts d c =>
  simp only [Sum.tensorD, Sum.single, Diagram.id, List.flatMap_cons, List.flatMap_nil,
    List.append_nil, List.nil_append, Sum.mk.injEq, and_true]
  have key : ∀ t ∈ ts, ((Diagram.id []).tensorD t).tensorD (Diagram.id []) = t :=
    fun t ht => Diagram.layer_nil (ha t ht).1
  clear ha
  induction ts with
  | nil => rfl
  | cons t ts ih =>
    simp only [List.map_cons, List.flatMap_cons, List.map_nil, List.singleton_append]
    have := key t (by simp)
    simp only [Diagram.id] at this
    rw [this]
    congr 1
    exact ih (fun u hu => key u (by simp [hu]))

theorem DS.layerD_nil {x : DS} (hx : x.WF) : DS.layerD [] x [] = x := by
  cases x with
  | diag d => simp only [DS.layerD, DS.idD, DS.tensorD]; rw [Diagram.layer_nil hx]
  | sum s => simp only [DS.layerD, DS.idD, DS.tensorD]; rw [Sum.layer_nil hx]

/-- The image of a one-box diagram is the image of the box: what the box map says. -/
theorem FunctorS.applyS_ofBox (F : FunctorS) {b : Box} {x : DS} (hb : F.okOn b)
    (hx : F.box b = .ok x) : F.applyS (Diagram.ofBox b) = .ok x := by
  obtain ⟨xw, xd, xc⟩ := hb x hx
  unfold FunctorS.applyS
  simp only [FunctorS.ty, Diagram.ofBox, xd, FunctorS.loop]
  have e1 : pySlice b.dom none (some (0 : Int)) = [] := by
    rw [show (0 : Int) = ((0 : Nat) : Int) from rfl, pySlice_take]; simp
  have e2 : pySlice b.dom (some ((0 : Int) + b.dom.length)) none = [] := by
    rw [show ((0 : Int) + (b.dom.length : Int)) = ((b.dom.length : Nat) : Int) by simp, pySlice_drop]
    simp
  have hstep := F.stepBox_eq (scan := b.dom) (result := DS.idD x.dom) (b := b) (off := 0)
    (l := []) (r := []) (DS.idD_wf _) xw (by rw [e1]; rfl) (by rw [e2]; rfl) hx (by simp)
  show (match F.stepBox b.dom (DS.idD x.dom) b 0 with
    | .error e => Except.error e
    | .ok (scan', res) => F.loop scan' res [] []) = _
  rw [hstep]
  simp only [FunctorS.loop]
  rw [DS.layerD_nil xw, DS.id_thenD xw rfl]

end DV
