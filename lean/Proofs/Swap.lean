/-
  Proofs/Swap.lean — C10: `Diagram.swap` and `Diagram.permutation` realise exactly the requested
  wire permutation (wire following is `Model/Wires.lean`).

  Contents
  * algebra of `traceWire` (append, offsets shifted by `@`, the staircase `range' s n`)
  * `Diagram.SwapNet`: the invariant "adjacent-swap network", closed under `id`, `>>`, `@`
  * `Diagram.mk?_of_layers`: the scanning constructor accepts every explicit chain of layers
  * `swapOne_spec`, `Diagram.swap_spec`, `Diagram.swap_wirePerm`   (monoidal.py:486-514)
  * `Diagram.wire_types`: in a well-typed swap network `cod[follow p] = dom[p]`
  * `permLayer_spec`, `perm_step`, `permLoop_spec` (the loop invariant), `Diagram.permutation_spec`,
    `Diagram.permutation_wirePerm`, `Diagram.permutation_refuses`   (monoidal.py:516-548)
  * `Diagram.permute_spec`, `Diagram.permute_dom_ne_cod`            (monoidal.py:550-564)
  Everything is proved for all types and all lengths; nothing is left as an unproved `Prop`.
-/
import Model.Wires
import Proofs.WFOps

namespace DV

/-! ### Following wires: algebra of `stepPos` / `traceWire` -/

@[simp] theorem traceWire_nil (p : Nat) : traceWire [] p = p := rfl

@[simp] theorem traceWire_cons (o : Nat) (os : List Nat) (p : Nat) :
    traceWire (o :: os) p = traceWire os (stepPos o p) := rfl

theorem traceWire_append (xs ys : List Nat) (p : Nat) :
    traceWire (xs ++ ys) p = traceWire ys (traceWire xs p) := by
  simp [traceWire, List.foldl_append]

theorem stepPos_shift (o k p : Nat) :
    stepPos (o + k) p = if p < k then p else stepPos o (p - k) + k := by
  unfold stepPos
  grind

/-- Swaps at offsets shifted by `k` leave the first `k` wires alone and act on the others as the
    unshifted swaps do. -/
theorem traceWire_shift (offs : List Nat) (k p : Nat) :
    traceWire (offs.map (· + k)) p = if p < k then p else traceWire offs (p - k) + k := by
  induction offs generalizing p with
  | nil => simp; omega
  | cons o os ih =>
    simp only [List.map_cons, traceWire_cons, ih, stepPos_shift]
    by_cases h : p < k
    · simp [h]
    · simp only [h, if_false]
      have : ¬ (stepPos o (p - k) + k < k) := by omega
      simp [this]

/-- Swaps inside the first `n` wires keep a wire inside / outside the first `n` wires. -/
theorem traceWire_lt {offs : List Nat} {n p : Nat} (h : ∀ o ∈ offs, o + 2 ≤ n) (hp : p < n) :
    traceWire offs p < n := by
  induction offs generalizing p with
  | nil => simpa
  | cons o os ih =>
    simp only [traceWire_cons]
    have ho := h o (by simp)
    apply ih (fun o' ho' => h o' (by simp [ho']))
    unfold stepPos; split <;> (try split) <;> omega

theorem traceWire_ge {offs : List Nat} {n p : Nat} (h : ∀ o ∈ offs, o + 2 ≤ n) (hp : n ≤ p) :
    traceWire offs p = p := by
  induction offs generalizing p with
  | nil => simp
  | cons o os ih =>
    simp only [traceWire_cons]
    have ho := h o (by simp)
    have : stepPos o p = p := by unfold stepPos; split <;> (try split) <;> omega
    rw [this]
    exact ih (fun o' ho' => h o' (by simp [ho'])) hp

/-- The staircase `Swap @ offset s, s+1, …, s+n-1` carries wire `s` to `s + n` and moves the `n`
    wires it crosses one step to the left (monoidal.py:507-512). -/
theorem traceWire_range' (s n p : Nat) :
    traceWire (List.range' s n) p =
      if p = s then s + n else if s < p ∧ p ≤ s + n then p - 1 else p := by
  induction n generalizing s p with
  | zero => simp; grind
  | succ n ih =>
    simp only [List.range'_succ, traceWire_cons, ih]
    unfold stepPos
    grind

/-- Wire following through `a @ b` when `a`'s swaps live on the first `w` wires. -/
theorem traceWire_tensor {xs ys : List Nat} {w : Nat} (h : ∀ o ∈ xs, o + 2 ≤ w) (p : Nat) :
    traceWire (xs ++ ys.map (· + w)) p =
      if p < w then traceWire xs p else traceWire ys (p - w) + w := by
  rw [traceWire_append, traceWire_shift]
  by_cases hp : p < w
  · have := traceWire_lt h hp
    simp [hp, this]
  · have := traceWire_ge h (Nat.le_of_not_lt hp)
    simp [hp, this]

/-! ### The invariant "adjacent-swap network" and its closure under `id`, `>>`, `@` -/

structure Diagram.SwapNet (d : Diagram) : Prop where
  swaps : d.allSwaps = true
  len : d.boxes.length = d.offsets.length
  range : ∀ o ∈ d.offsets, 0 ≤ o ∧ o + 2 ≤ (d.dom.length : Int)
  width : d.cod.length = d.dom.length

theorem Diagram.SwapNet.network {d : Diagram} (h : d.SwapNet) : d.swapNetwork = true := by
  have hr : offsetsInRange d.dom.length d.offsets = true := by
    simp only [offsetsInRange, List.all_eq_true, Bool.and_eq_true, decide_eq_true_eq]
    exact h.range
  simp [Diagram.swapNetwork, h.swaps, h.len, hr]

theorem Diagram.SwapNet.wirePerm_eq {d : Diagram} (h : d.SwapNet) :
    wirePerm d = some ((List.range d.dom.length).map (traceWire d.natOffsets)) := by
  simp [wirePerm, h.network]

theorem Diagram.SwapNet.nat_range {d : Diagram} (h : d.SwapNet) :
    ∀ o ∈ d.natOffsets, o + 2 ≤ d.dom.length := by
  intro o ho
  simp only [Diagram.natOffsets, List.mem_map] at ho
  obtain ⟨z, hz, rfl⟩ := ho
  have := h.range z hz
  omega

theorem Diagram.id_swapNet (t : Ty) : (Diagram.id t).SwapNet :=
  ⟨by simp [Diagram.id, Diagram.allSwaps], rfl, by simp [Diagram.id], rfl⟩

@[simp] theorem Diagram.id_natOffsets (t : Ty) : (Diagram.id t).natOffsets = [] := rfl

theorem Diagram.then_swapNet {a b d : Diagram} (ha : a.SwapNet) (hb : b.SwapNet)
    (hcd : a.cod = b.dom) (h : a.then b = .ok d) :
    d.SwapNet ∧ d.natOffsets = a.natOffsets ++ b.natOffsets := by
  obtain ⟨ls, _, rfl⟩ := Diagram.then_ok h
  have hw : b.dom.length = a.dom.length := by rw [← hcd, ha.width]
  refine ⟨⟨?_, ?_, ?_, ?_⟩, ?_⟩
  · have h1 := ha.swaps; have h2 := hb.swaps
    simp only [Diagram.allSwaps] at h1 h2 ⊢
    simp [List.all_append, h1, h2]
  · simp [ha.len, hb.len]
  · intro o ho
    simp only [List.mem_append] at ho
    rcases ho with ho | ho
    · exact ha.range o ho
    · have := hb.range o ho
      simp only at this ⊢
      omega
  · simp only [hb.width, hw]
  · simp [Diagram.natOffsets]

theorem Diagram.tensor_swapNet {a b d : Diagram} (ha : a.WF) (hb : b.WF) (sa : a.SwapNet)
    (sb : b.SwapNet) (h : a.tensor b = .ok d) :
    d.SwapNet ∧ ∀ p, traceWire d.natOffsets p =
      if p < a.dom.length then traceWire a.natOffsets p
      else traceWire b.natOffsets (p - a.dom.length) + a.dom.length := by
  rw [Diagram.tensor_spec ha hb] at h
  cases h
  have hnat : (a.offsets ++ b.offsets.map (· + (a.cod.length : Int))).map Int.toNat
      = a.natOffsets ++ b.natOffsets.map (· + a.dom.length) := by
    simp only [Diagram.natOffsets, List.map_append, List.map_map]
    congr 1
    apply List.map_congr_left
    intro o ho
    have := sb.range o ho
    simp only [Function.comp]
    rw [sa.width]; omega
  refine ⟨⟨?_, ?_, ?_, ?_⟩, ?_⟩
  · have h1 := sa.swaps; have h2 := sb.swaps
    simp only [Diagram.allSwaps] at h1 h2 ⊢
    simp [List.all_append, h1, h2]
  · simp [sa.len, sb.len]
  · intro o ho
    simp only [List.mem_append, List.mem_map] at ho
    simp only [List.length_append]
    rcases ho with ho | ⟨z, hz, rfl⟩
    · have := sa.range o ho; omega
    · have := sb.range z hz
      have := sa.width
      omega
  · simp [sa.width, sb.width]
  · intro p
    show traceWire ((a.offsets ++ b.offsets.map (· + (a.cod.length : Int))).map Int.toNat) p = _
    rw [hnat]
    exact traceWire_tensor sa.nat_range p

/-! ### The scanning constructor succeeds on every explicit chain of layers -/

theorem scanLayers_ok {ls : LArrow} {layers : List Layer} {c : Ty} (h : Chain ls.cod layers c) :
    scanLayers ls (layers.map (·.box)) (layers.map (fun l => (l.left.length : Int)))
      = .ok ⟨ls.dom, c, ls.boxes ++ layers⟩ := by
  induction layers generalizing ls with
  | nil =>
    simp only [Chain] at h
    cases ls; simp_all [scanLayers]
  | cons x xs ih =>
    obtain ⟨h1, h2⟩ := h
    have hl : pySlice ls.cod none (some (x.left.length : Int)) = x.left := by
      rw [pySlice_take, h1]; simp [Layer.dom]
    have hr : pySlice ls.cod (some ((x.left.length : Int) + (x.box.dom.length : Int))) none
        = x.right := by
      have : ((x.left.length : Int) + (x.box.dom.length : Int))
          = ((x.left.length + x.box.dom.length : Nat) : Int) := by omega
      rw [this, pySlice_drop, h1]
      simp only [Layer.dom, List.append_assoc]
      rw [← List.append_assoc, List.drop_left' (by simp)]
    have hx : (⟨x.left, x.box, x.right⟩ : Layer) = x := rfl
    have hthen : ls.thenLayer x = .ok ⟨ls.dom, x.cod, ls.boxes ++ [x]⟩ := by
      simp [LArrow.thenLayer, LArrow.then, Layer.arrow, h1]
    simp only [List.map_cons, scanLayers, hl, hr, hx, hthen, ne_eq, not_true_eq_false, if_false]
    have := ih (ls := ⟨ls.dom, x.cod, ls.boxes ++ [x]⟩) h2
    simpa using this

theorem Diagram.mk?_of_layers {dom cod : Ty} {layers : List Layer} (h : Chain dom layers cod) :
    Diagram.mk? dom cod (layers.map (·.box)) (layers.map (fun l => (l.left.length : Int)))
      = .ok ⟨dom, cod, layers.map (·.box), layers.map (fun l => (l.left.length : Int)),
          ⟨dom, cod, layers⟩⟩ := by
  have := scanLayers_ok (ls := LArrow.id dom) (layers := layers) (c := cod) h
  simp only [LArrow.id, List.nil_append] at this
  simp [Diagram.mk?, this, LArrow.then, LArrow.id]

/-! ### `swap` of one wire past a type: the staircase of monoidal.py:507-512 -/

/-- The layers of `swap(Ty(l), right)` standing to the right of `pre`. -/
def swapLayers (l : Ob) : Ty → Ty → List Layer
  | _, [] => []
  | pre, r :: rs => ⟨pre, Box.swap l r, rs⟩ :: swapLayers l (pre ++ [r]) rs

theorem swapLayers_chain (l : Ob) (pre right : Ty) :
    Chain (pre ++ [l] ++ right) (swapLayers l pre right) (pre ++ right ++ [l]) := by
  induction right generalizing pre with
  | nil => simp [swapLayers, Chain]
  | cons r rs ih =>
    refine ⟨by simp [Layer.dom, Box.swap], ?_⟩
    have := ih (pre ++ [r])
    simpa [Layer.cod, Box.swap] using this

theorem swapLayers_boxes (l : Ob) (pre right : Ty) :
    (swapLayers l pre right).map (·.box) = right.map (fun r => Box.swap l r) := by
  induction right generalizing pre with
  | nil => rfl
  | cons r rs ih => simp [swapLayers, ih]

theorem swapLayers_offsets (l : Ob) (pre right : Ty) :
    (swapLayers l pre right).map (fun x => (x.left.length : Int))
      = (List.range' pre.length right.length).map (fun (n : Nat) => (n : Int)) := by
  induction right generalizing pre with
  | nil => rfl
  | cons r rs ih => simp [swapLayers, ih, List.range'_succ]

theorem Box.isSwap_swap (l r : Ob) : (Box.swap l r).isSwap = true := by
  simp [Box.isSwap, Box.swap]

/-- `swap(Ty(l), right)`: never refused; the wire `0` goes to position `len(right)`, the wires of
    `right` move one step to the left. -/
theorem swapOne_spec (l : Ob) (right : Ty) :
    ∃ d, swapOne l right = .ok d ∧ d.WF ∧ d.dom = [l] ++ right ∧ d.cod = right ++ [l] ∧
      d.SwapNet ∧ ∀ p, traceWire d.natOffsets p = blockExch 1 right.length p := by
  have hc := swapLayers_chain l [] right
  have hm := Diagram.mk?_of_layers hc
  rw [swapLayers_boxes, swapLayers_offsets] at hm
  simp only [List.nil_append, List.length_nil] at hm
  have hso : swapOne l right = .ok ⟨[l] ++ right, right ++ [l],
      right.map (fun r => Box.swap l r),
      (List.range' 0 right.length).map (fun (n : Nat) => (n : Int)),
      ⟨[l] ++ right, right ++ [l], swapLayers l [] right⟩⟩ := by
    unfold swapOne; rw [List.range_eq_range']; exact hm
  refine ⟨_, hso, (Diagram.mk?_ok hso).1, rfl, rfl, ⟨?_, ?_, ?_, ?_⟩, ?_⟩
  · simp [Diagram.allSwaps, Box.isSwap_swap]
  · simp
  · intro o ho
    simp only [List.mem_map, List.mem_range'_1] at ho
    obtain ⟨k, hk, rfl⟩ := ho
    simp only [List.length_append, List.length_cons, List.length_nil]
    omega
  · simp
  · intro p
    have : (⟨[l] ++ right, right ++ [l], right.map (fun r => Box.swap l r),
        (List.range' 0 right.length).map (fun (n : Nat) => (n : Int)),
        ⟨[l] ++ right, right ++ [l], swapLayers l [] right⟩⟩ : Diagram).natOffsets
        = List.range' 0 right.length := by
      simp [Diagram.natOffsets, Function.comp_def]
    rw [this, traceWire_range']
    unfold blockExch
    grind

/-! ### `Diagram.swap`: the block exchange, by induction on `left` (monoidal.py:505-514) -/

theorem blockExch_zero (b p : Nat) : blockExch 0 b p = p := by
  unfold blockExch; grind

theorem Diagram.swap_spec (left right : Ty) :
    ∃ d, Diagram.swap left right = .ok d ∧ d.WF ∧ d.dom = left ++ right ∧ d.cod = right ++ left ∧
      d.SwapNet ∧ ∀ p, traceWire d.natOffsets p = blockExch left.length right.length p := by
  induction left with
  | nil =>
    exact ⟨Diagram.id right, rfl, Diagram.id_wf _, by simp [Diagram.id], by simp [Diagram.id],
      Diagram.id_swapNet _, by simp [blockExch_zero]⟩
  | cons l ls ih =>
    cases ls with
    | nil => simpa [Diagram.swap] using swapOne_spec l right
    | cons l2 ls =>
      obtain ⟨rest, hrest, rw_, rd, rc, rs, rf⟩ := ih
      obtain ⟨s1, hs1, sw, sd, sc, ss, sf⟩ := swapOne_spec l right
      obtain ⟨top, htop⟩ := Diagram.tensor_total (Diagram.id_wf [l]) rw_
      obtain ⟨tw, td, tc⟩ := Diagram.tensor_props (Diagram.id_wf [l]) rw_ htop
      obtain ⟨ts, tf⟩ := Diagram.tensor_swapNet (Diagram.id_wf [l]) rw_ (Diagram.id_swapNet _) rs htop
      obtain ⟨bot, hbot⟩ := Diagram.tensor_total sw (Diagram.id_wf (l2 :: ls))
      obtain ⟨bw, bd, bc⟩ := Diagram.tensor_props sw (Diagram.id_wf (l2 :: ls)) hbot
      obtain ⟨bs, bf⟩ := Diagram.tensor_swapNet sw (Diagram.id_wf (l2 :: ls)) ss
        (Diagram.id_swapNet _) hbot
      have hcd : top.cod = bot.dom := by
        rw [tc, bd, rc, sd]; simp [Diagram.id]
      obtain ⟨d, hd⟩ := (Diagram.then_ok_iff tw bw).mpr hcd
      obtain ⟨dw, dd, dc⟩ := Diagram.then_props tw bw hd
      obtain ⟨ds, dn⟩ := Diagram.then_swapNet ts bs hcd hd
      refine ⟨d, ?_, dw, ?_, ?_, ds, ?_⟩
      · simp only [Diagram.swap, hrest, htop, hs1, hbot, hd]
      · rw [dd, td, rd]; simp [Diagram.id]
      · rw [dc, bc, sc]; simp [Diagram.id]
      · intro p
        have e1 : (Diagram.id [l]).dom.length = 1 := rfl
        have e2 : (Diagram.id [l]).natOffsets = [] := rfl
        have e3 : (Diagram.id (l2 :: ls)).natOffsets = [] := rfl
        have e4 : s1.dom.length = 1 + right.length := by rw [sd]; simp; omega
        rw [dn, traceWire_append, tf, bf]
        simp only [e1, e2, e3, e4, traceWire_nil, sf, rf, List.length_cons]
        unfold blockExch
        grind

theorem blockExch_list (a b : Nat) :
    (List.range (a + b)).map (blockExch a b) = List.range' b a ++ List.range b := by
  apply List.ext_getElem
  · simp
  · intro q h1 h2
    simp only [List.length_map, List.length_range] at h1
    simp only [List.getElem_map, List.getElem_range, List.getElem_append, List.length_range',
      List.getElem_range']
    unfold blockExch
    grind

/-- `Diagram.swap` in terms of the public observation `wirePerm`: the wires of `left` arrive, in
    order, at positions `len(right) …`, those of `right` at positions `0 …`. -/
theorem Diagram.swap_wirePerm (left right : Ty) :
    ∃ d, Diagram.swap left right = .ok d ∧ d.WF ∧ d.dom = left ++ right ∧ d.cod = right ++ left ∧
      d.allSwaps = true ∧
      wirePerm d = some (List.range' right.length left.length ++ List.range right.length) := by
  obtain ⟨d, hd, w, dd, dc, s, f⟩ := Diagram.swap_spec left right
  refine ⟨d, hd, w, dd, dc, s.swaps, ?_⟩
  rw [s.wirePerm_eq, dd, List.length_append, ← blockExch_list]
  congr 1
  apply List.map_congr_left
  intro p _; exact f p

/-! ### Wires carry their types: in any well-typed swap network `cod[follow p] = dom[p]` -/

theorem swap_getElem? {α} (L R : List α) (a b : α) (p : Nat) :
    (L ++ [b, a] ++ R)[stepPos L.length p]? = (L ++ [a, b] ++ R)[p]? := by
  unfold stepPos
  by_cases h1 : p < L.length
  · have h2 : ¬ p = L.length := by omega
    have h3 : ¬ p = L.length + 1 := by omega
    simp [h2, h3, List.getElem?_append_left, h1]
  · by_cases h2 : p = L.length
    · subst h2; simp
    · by_cases h3 : p = L.length + 1
      · subst h3; simp
      · simp only [h2, h3, if_false]
        have h4 : L.length + 2 ≤ p := by omega
        have key : ∀ (M : List α), M.length = 2 → (L ++ M ++ R)[p]? = R[p - (L.length + 2)]? := by
          intro M hM
          rw [List.getElem?_append_right (by simp only [List.length_append]; omega)]
          simp only [List.length_append, hM]
        rw [key [b, a] rfl, key [a, b] rfl]

theorem Box.isSwap_iff {b : Box} (h : b.isSwap = true) :
    ∃ l r, b.dom = [l, r] ∧ b.cod = [r, l] := by
  unfold Box.isSwap at h
  split at h
  · rename_i l r hd
    have : b = Box.swap l r := by simpa using h
    exact ⟨l, r, hd, by rw [this]; rfl⟩
  · cases h

theorem chain_follow {s c : Ty} {layers : List Layer} (h : Chain s layers c)
    (hs : ∀ x ∈ layers, x.box.isSwap = true) (p : Nat) :
    c[traceWire (layers.map (·.left.length)) p]? = s[p]? := by
  induction layers generalizing s p with
  | nil => simp only [Chain] at h; simp [h]
  | cons x xs ih =>
    obtain ⟨h1, h2⟩ := h
    obtain ⟨l, r, hd, hc⟩ := Box.isSwap_iff (hs x (by simp))
    simp only [List.map_cons, traceWire_cons]
    rw [ih h2 (fun y hy => hs y (by simp [hy])), h1]
    simp only [Layer.cod, Layer.dom, hd, hc]
    exact swap_getElem? x.left x.right l r p

/-- The wire that enters a well-typed swap network at position `p` leaves it with the same
    type at position `traceWire … p`. -/
theorem Diagram.wire_types {d : Diagram} (hw : d.WF) (hs : d.allSwaps = true) (p : Nat) :
    d.cod[traceWire d.natOffsets p]? = d.dom[p]? := by
  have hn : d.natOffsets = d.layers.boxes.map (·.left.length) := by
    simp [Diagram.natOffsets, hw.offsets, Function.comp_def]
  have hb : ∀ x ∈ d.layers.boxes, x.box.isSwap = true := by
    intro x hx
    have := hs
    simp only [Diagram.allSwaps, hw.boxes, List.all_map, List.all_eq_true] at this
    exact this x hx
  have hc : Chain d.dom d.layers.boxes d.cod := by
    have := hw.chain
    rwa [LArrow.WF, hw.ldom, hw.lcod] at this
  rw [hn]; exact chain_follow hc hb p

/-! ### One round of the permutation loop -/

def insertPos (i j p : Nat) : Nat := if p < i then p else blockExch (j - i) 1 (p - i) + i

theorem move_getElem? {α} (A M C : List α) (x : α) (p : Nat) :
    (A ++ [x] ++ M ++ C)[insertPos A.length (A.length + M.length) p]? = (A ++ M ++ [x] ++ C)[p]? := by
  unfold insertPos blockExch
  simp only [List.getElem?_append, List.length_append, List.length_cons, List.length_nil]
  grind

theorem split_at {α} (xs : List α) (i j : Nat) (hij : i ≤ j) (hj : j < xs.length) :
    xs = xs.take i ++ (xs.drop i).take (j - i) ++ [xs[j]] ++ xs.drop (j+1) := by
  have h2 : (xs.drop i).drop (j - i) = xs.drop j := by
    rw [List.drop_drop]; congr 1; omega
  have h3 : xs.drop j = xs[j] :: xs.drop (j+1) := List.drop_eq_getElem_cons hj
  have h4 : xs.drop i = (xs.drop i).take (j - i) ++ ([xs[j]] ++ xs.drop (j+1)) := by
    conv => lhs; rw [← List.take_append_drop (j - i) (xs.drop i), h2, h3]
    simp
  conv => lhs; rw [← List.take_append_drop i xs, h4]
  simp

theorem isPermList_iff (π : List Int) : isPermList π = true ↔
    (∀ x ∈ π, 0 ≤ x ∧ x < (π.length : Int)) ∧ (∀ k, k < π.length → (k : Int) ∈ π) := by
  simp [isPermList, List.all_eq_true, List.mem_range]

theorem indexOf?_some {π : List Int} {i : Int} (h : i ∈ π) :
    ∃ j, indexOf? π i = some j ∧ ∃ hj : j < π.length, π[j] = i ∧ ∀ k, (hk : k < j) → π[k] ≠ i := by
  have hex : ∃ x ∈ π, (x == i) = true := ⟨i, h, by simp⟩
  have hlt := List.findIdx_lt_length_of_exists hex
  refine ⟨π.findIdx (· == i), by simp [indexOf?, hlt], hlt, ?_, ?_⟩
  · have := List.findIdx_getElem (w := hlt)
    simpa using this
  · intro k hk
    have := List.not_of_lt_findIdx hk
    simpa using this

theorem pySlice_mid {α} (xs : List α) (i j : Nat) (hij : i ≤ j) (hj : j ≤ xs.length) :
    pySlice xs (some (i : Int)) (some (j : Int)) = (xs.drop i).take (j - i) := by
  simp only [pySlice, pyLo, pyHi, pyIdx_nat]
  rw [Nat.min_eq_left (show i ≤ xs.length by omega), Nat.min_eq_left hj]

theorem perm_step {A M C : List Int} {i j : Nat} (hA : A.length = i)
    (hM : A.length + M.length = j)
    (hperm : isPermList (A ++ M ++ [(i : Int)] ++ C) = true)
    (hfix : ∀ k, k < i → (A ++ M ++ [(i : Int)] ++ C)[k]? = some (k : Int)) :
    (A ++ [(i : Int)] ++ M ++ C).length = (A ++ M ++ [(i : Int)] ++ C).length ∧
    isPermList (A ++ [(i : Int)] ++ M ++ C) = true ∧
    (∀ k, k < i + 1 → (A ++ [(i : Int)] ++ M ++ C)[k]? = some (k : Int)) ∧
    ∀ q, (A ++ [(i : Int)] ++ M ++ C)[insertPos i j q]? = (A ++ M ++ [(i : Int)] ++ C)[q]? := by
  have hlen : (A ++ [(i : Int)] ++ M ++ C).length = (A ++ M ++ [(i : Int)] ++ C).length := by
    simp only [List.length_append, List.length_cons, List.length_nil]; omega
  have hmem : ∀ x, x ∈ (A ++ [(i : Int)] ++ M ++ C) ↔ x ∈ (A ++ M ++ [(i : Int)] ++ C) := by
    intro x; simp only [List.mem_append, List.mem_singleton]; grind
  refine ⟨hlen, ?_, ?_, ?_⟩
  · rw [isPermList_iff] at hperm ⊢
    rw [hlen]
    exact ⟨fun x hx => hperm.1 x ((hmem x).mp hx), fun k hk => (hmem _).mpr (hperm.2 k hk)⟩
  · intro k hk
    by_cases hki : k < i
    · have := hfix k hki
      rw [List.append_assoc, List.append_assoc, List.getElem?_append_left (by omega)] at this ⊢
      exact this
    · have : k = A.length := by omega
      subst this
      simp [hA]
  · intro q
    have := move_getElem? A M C (i : Int) q
    rw [hM, hA] at this
    exact this

/-- The layer built by one round of the loop (monoidal.py:544-546): the wire at `j` is carried
    to position `i` across the block `cod[i:j]`. -/
theorem permLayer_spec (c : Ty) (i j : Nat) (hij : i ≤ j) (hj : j < c.length) :
    ∃ s x layer,
      Diagram.swap (pySlice c (some (i : Int)) (some (j : Int)))
        (pySlice c (some (j : Int)) (some ((j + 1 : Nat) : Int))) = .ok s ∧
      (Diagram.id (pySlice c none (some (i : Int)))).tensor s = .ok x ∧
      x.tensor (Diagram.id (pySlice c (some ((j + 1 : Nat) : Int)) none)) = .ok layer ∧
      layer.WF ∧ layer.dom = c ∧ layer.SwapNet ∧
      ∀ p, traceWire layer.natOffsets p = insertPos i j p := by
  have hM : pySlice c (some (i : Int)) (some (j : Int)) = (c.drop i).take (j - i) :=
    pySlice_mid c i j hij (by omega)
  have hX : pySlice c (some (j : Int)) (some ((j + 1 : Nat) : Int)) = [c[j]] := by
    rw [pySlice_mid c j (j + 1) (by omega) (by omega)]
    have : j + 1 - j = 1 := by omega
    rw [this, List.drop_eq_getElem_cons hj]
    rfl
  have hA : pySlice c none (some (i : Int)) = c.take i := pySlice_take c i
  have hC : pySlice c (some ((j + 1 : Nat) : Int)) none = c.drop (j + 1) := pySlice_drop c (j + 1)
  rw [hM, hX, hA, hC]
  have hMl : ((c.drop i).take (j - i)).length = j - i := by
    simp only [List.length_take, List.length_drop]; omega
  have hAl : (c.take i).length = i := by simp only [List.length_take]; omega
  obtain ⟨s, hs, sw, sd, sc, ss, sf⟩ := Diagram.swap_spec ((c.drop i).take (j - i)) [c[j]]
  obtain ⟨x, hx⟩ := Diagram.tensor_total (Diagram.id_wf (c.take i)) sw
  obtain ⟨xw, xd, xc⟩ := Diagram.tensor_props (Diagram.id_wf (c.take i)) sw hx
  obtain ⟨xs, xf⟩ := Diagram.tensor_swapNet (Diagram.id_wf (c.take i)) sw (Diagram.id_swapNet _) ss hx
  obtain ⟨layer, hl⟩ := Diagram.tensor_total xw (Diagram.id_wf (c.drop (j + 1)))
  obtain ⟨lw, ld, lc⟩ := Diagram.tensor_props xw (Diagram.id_wf (c.drop (j + 1))) hl
  obtain ⟨ls, lf⟩ := Diagram.tensor_swapNet xw (Diagram.id_wf (c.drop (j + 1))) xs
    (Diagram.id_swapNet _) hl
  refine ⟨s, x, layer, hs, hx, hl, lw, ?_, ls, ?_⟩
  · rw [ld, xd, sd]
    have := split_at c i j hij hj
    simp only [Diagram.id]
    rw [List.append_assoc (c.take i)] at this
    exact this.symm
  · intro p
    have e1 : (Diagram.id (c.take i)).dom.length = i := hAl
    have e2 : (Diagram.id (c.take i)).natOffsets = [] := rfl
    have e3 : (Diagram.id (c.drop (j + 1))).natOffsets = [] := rfl
    have e4 : x.dom.length = j + 1 := by
      rw [xd, sd]; simp only [Diagram.id, List.length_append, hAl, hMl, List.length_cons,
        List.length_nil]; omega
    rw [lf, xf]
    simp only [e1, e2, e3, e4, traceWire_nil, sf, hMl, List.length_cons, List.length_nil]
    unfold insertPos blockExch
    grind

/-- Loop invariant of monoidal.py:542-547.  Entering round `i` with the current list `perm`
    (`perm[k] = k` for the `i` positions already placed) and the diagram `d` built so far, the loop
    runs to completion and the finished diagram sends the wire that `d` leaves at position `q`
    to position `perm[q]`. -/
theorem permLoop_spec (n i : Nat) (perm : List Int) (d : Diagram)
    (hd : d.WF) (sd : d.SwapNet) (hlen : perm.length = i + n) (hc : d.cod.length = perm.length)
    (hperm : isPermList perm = true) (hfix : ∀ k, k < i → perm[k]? = some (k : Int)) :
    ∃ d', permLoop n i perm d = .ok d' ∧ d'.WF ∧ d'.SwapNet ∧ d'.dom = d.dom ∧
      ∀ p, p < perm.length →
        perm[traceWire d.natOffsets p]? = some (traceWire d'.natOffsets p : Int) := by
  induction n generalizing i perm d with
  | zero =>
    refine ⟨d, rfl, hd, sd, rfl, ?_⟩
    intro p hp
    have hdl : d.dom.length = perm.length := by rw [← sd.width, hc]
    have := traceWire_lt sd.nat_range (by rw [hdl]; exact hp)
    exact hfix _ (by omega)
  | succ n ih =>
    have hi : i < perm.length := by omega
    have hmem : (i : Int) ∈ perm := ((isPermList_iff perm).mp hperm).2 i hi
    obtain ⟨j, hidx, hj, hpj, hmin⟩ := indexOf?_some hmem
    have hij : i ≤ j := by
      apply Nat.le_of_not_lt
      intro hlt
      have h1 := hfix j hlt
      rw [List.getElem?_eq_getElem hj, hpj] at h1
      simp at h1; omega
    obtain ⟨s, x, layer, hs, hx, hl, lw, ld, ls, lf⟩ :=
      permLayer_spec d.cod i j hij (by omega)
    obtain ⟨d1, hd1⟩ := (Diagram.then_ok_iff hd lw).mpr ld.symm
    obtain ⟨w1, dd1, dc1⟩ := Diagram.then_props hd lw hd1
    obtain ⟨s1, n1⟩ := Diagram.then_swapNet sd ls ld.symm hd1
    -- the updated list
    have hsplit := split_at perm i j hij hj
    rw [hpj] at hsplit
    have hA : (perm.take i).length = i := by simp only [List.length_take]; omega
    have hM : (perm.take i).length + ((perm.drop i).take (j - i)).length = j := by
      simp only [List.length_take, List.length_drop]; omega
    have hperm' := hperm
    have hfix' := hfix
    rw [hsplit] at hperm' hfix'
    obtain ⟨plen, pperm, pfix, pget⟩ := perm_step hA hM hperm' hfix'
    rw [← hsplit] at plen pget
    have hπ' : pySlice perm none (some (i : Int)) ++ [(i : Int)]
        ++ pySlice perm (some (i : Int)) (some (j : Int))
        ++ pySlice perm (some ((j + 1 : Nat) : Int)) none
        = perm.take i ++ [(i : Int)] ++ (perm.drop i).take (j - i) ++ perm.drop (j + 1) := by
      rw [pySlice_take, pySlice_mid perm i j hij (by omega), pySlice_drop]
    have hc1 : d1.cod.length = (perm.take i ++ [(i : Int)] ++ (perm.drop i).take (j - i)
        ++ perm.drop (j + 1)).length := by
      rw [plen, dc1, ls.width, ld, hc]
    obtain ⟨d', hd', w', s', dd', f'⟩ := ih (i + 1) _ d1 w1 s1 (by rw [plen]; omega) hc1 pperm pfix
    refine ⟨d', ?_, w', s', dd'.trans dd1, ?_⟩
    · simp only [permLoop, hidx, hs, hx, hl, hd1, hπ']
      exact hd'
    · intro p hp
      have := f' p (by rw [plen]; exact hp)
      rw [n1, traceWire_append, lf, pget] at this
      exact this

/-! ### `Diagram.permutation` -/

/-- For a permutation of the right length the call succeeds, is well-typed with the requested
    domain, is an adjacent-swap network, and sends the wire at input position `q` to `perm[q]`. -/
theorem Diagram.permutation_spec (perm : List Int) (dom : Ty) (hperm : isPermList perm = true)
    (hlen : dom.length = perm.length) :
    ∃ d, Diagram.permutation perm dom = .ok d ∧ d.WF ∧ d.dom = dom ∧ d.SwapNet ∧
      ∀ q, q < perm.length → perm[q]? = some (traceWire d.natOffsets q : Int) := by
  obtain ⟨d, hd, w, s, dd, f⟩ := permLoop_spec dom.length 0 perm (Diagram.id dom)
    (Diagram.id_wf dom) (Diagram.id_swapNet dom) (by omega) hlen hperm (by intro k hk; omega)
  refine ⟨d, ?_, w, dd, s, ?_⟩
  · rw [hlen] at hd
    simp [Diagram.permutation, hperm, hlen, hd]
  · intro q hq
    simpa using f q hq

theorem Diagram.permutation_wirePerm (perm : List Int) (dom : Ty) (hperm : isPermList perm = true)
    (hlen : dom.length = perm.length) :
    ∃ d, Diagram.permutation perm dom = .ok d ∧ d.WF ∧ d.dom = dom ∧ d.allSwaps = true ∧
      wirePerm d = some (perm.map Int.toNat) ∧
      ∀ q, (hq : q < perm.length) → d.cod[(perm[q]).toNat]? = dom[q]? := by
  obtain ⟨d, hd, w, dd, s, f⟩ := Diagram.permutation_spec perm dom hperm hlen
  have hf : ∀ q, (hq : q < perm.length) → (perm[q]).toNat = traceWire d.natOffsets q := by
    intro q hq
    have := f q hq
    rw [List.getElem?_eq_getElem hq] at this
    simp only [Option.some.injEq] at this
    rw [this]; simp
  refine ⟨d, hd, w, dd, s.swaps, ?_, ?_⟩
  · rw [s.wirePerm_eq, dd, hlen]
    congr 1
    apply List.ext_getElem
    · simp
    · intro q h1 h2
      simp only [List.length_map, List.length_range] at h1
      simp [hf q h1]
  · intro q hq
    rw [hf q hq, Diagram.wire_types w s.swaps, dd]

/-- Refusal: exactly the non-permutations and the length mismatches get `ValueError`. -/
theorem Diagram.permutation_refuses (perm : List Int) (dom : Ty) :
    Diagram.permutation perm dom = .error .value ↔
      (isPermList perm = false ∨ dom.length ≠ perm.length) := by
  constructor
  · intro h
    by_cases hp : isPermList perm = true
    · by_cases hl : dom.length = perm.length
      · obtain ⟨d, hd, _⟩ := Diagram.permutation_spec perm dom hp hl
        rw [hd] at h; cases h
      · exact Or.inr hl
    · exact Or.inl (by simpa using hp)
  · rintro (h | h)
    · simp [Diagram.permutation, h]
    · simp [Diagram.permutation, h]

/-- No other error class ever comes out of `permutation`. -/
theorem Diagram.permutation_total (perm : List Int) (dom : Ty) :
    (∃ d, Diagram.permutation perm dom = .ok d) ∨ Diagram.permutation perm dom = .error .value := by
  by_cases hp : isPermList perm = true
  · by_cases hl : dom.length = perm.length
    · obtain ⟨d, hd, _⟩ := Diagram.permutation_spec perm dom hp hl
      exact Or.inl ⟨d, hd⟩
    · exact Or.inr ((Diagram.permutation_refuses perm dom).mpr (Or.inr hl))
  · exact Or.inr ((Diagram.permutation_refuses perm dom).mpr (Or.inl (by simpa using hp)))

/-! ### `Diagram.permute`, monoidal.py:550-564 -/

/-- On a well-typed diagram whose codomain equals its domain, `d.permute(*perm)` appends the
    permutation network: the wire leaving `d` at output position `q` ends at `perm[q]`. -/
theorem Diagram.permute_spec (d : Diagram) (perm : List Int) (hd : d.WF) (hdc : d.cod = d.dom)
    (hperm : isPermList perm = true) (hlen : d.dom.length = perm.length) :
    ∃ s d', Diagram.permutation perm d.dom = .ok s ∧ d.permute perm = .ok d' ∧ d'.WF ∧
      d'.dom = d.dom ∧ d'.boxes = d.boxes ++ s.boxes ∧ d'.offsets = d.offsets ++ s.offsets ∧
      wirePerm s = some (perm.map Int.toNat) ∧
      ∀ q, (hq : q < perm.length) → d'.cod[(perm[q]).toNat]? = d.cod[q]? := by
  obtain ⟨s, hs, sw, sd, _, swp, sc⟩ := Diagram.permutation_wirePerm perm d.dom hperm hlen
  obtain ⟨d', hd'⟩ := (Diagram.then_ok_iff hd sw).mpr (by rw [hdc, sd])
  obtain ⟨w', dd', dc'⟩ := Diagram.then_props hd sw hd'
  obtain ⟨ls, _, rfl⟩ := Diagram.then_ok hd'
  refine ⟨s, _, hs, by simp [Diagram.permute, hs, hd'], w', rfl, rfl, rfl, swp, ?_⟩
  intro q hq
  rw [hdc]; exact sc q hq

/-- `permute` builds the permutation on `self.dom` (as its docstring says), so on a diagram
    whose codomain differs from its domain the composition is refused. -/
theorem Diagram.permute_dom_ne_cod (d : Diagram) (perm : List Int) (hd : d.WF) (hdc : d.cod ≠ d.dom)
    (hperm : isPermList perm = true) (hlen : d.dom.length = perm.length) :
    d.permute perm = .error .axiom := by
  obtain ⟨s, hs, sw, sd, _⟩ := Diagram.permutation_spec perm d.dom hperm hlen
  have := Diagram.then_err hd sw (by rw [sd]; exact hdc)
  simp [Diagram.permute, hs, this]

/-! ### Statements in terms of the observation `wirePerm` only -/

/-- Whatever `wirePerm` reports for a well-typed diagram is consistent with the types: the wire
    entering at `i` leaves at `w[i]` carrying the same type. -/
theorem wirePerm_types {d : Diagram} {w : List Nat} (hw : d.WF) (h : wirePerm d = some w) :
    w.length = d.dom.length ∧ ∀ i, (hi : i < w.length) → d.cod[w[i]]? = d.dom[i]? := by
  unfold wirePerm at h
  split at h
  · rename_i hn
    simp only [Option.some.injEq] at h
    subst h
    have hs : d.allSwaps = true := by
      simp only [Diagram.swapNetwork, Bool.and_eq_true] at hn
      exact hn.1.1
    refine ⟨by simp, ?_⟩
    intro i hi
    simp only [List.getElem_map, List.getElem_range]
    exact Diagram.wire_types hw hs i
  · cases h

theorem swap_wires_pointwise (a b : Nat) :
    (∀ i, i < a → (List.range' b a ++ List.range b)[i]? = some (b + i)) ∧
    (∀ k, k < b → (List.range' b a ++ List.range b)[a + k]? = some k) := by
  constructor
  · intro i hi
    rw [List.getElem?_append_left (by simp; exact hi)]
    simp [hi]
  · intro k hk
    rw [List.getElem?_append_right (by simp)]
    simp [hk]

end DV
