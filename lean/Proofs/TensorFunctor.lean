/-
  Proofs/TensorFunctor.lean — the single-pass evaluation of `tensor.Functor.__call__`
  (Model/Tensor.lean `TFunctor.call`, tensor.py:365-391) equals the layer-by-layer composite
  (`TFunctor.layerwise`).

  Loop invariant (`Inv`): the running array has axes `[F dom | F scan | 1 … 1]` (the trailing
  axes of size one come from the `or (1, )` of tensor.py:128, see Model/Tensor.lean) and,
  reshaped to a tensor `F dom → F scan` (`accOf`), it IS the composite of the layers so far.
-/
import Proofs.TensorCups

namespace DV
namespace TFunctor
open NDArray Tensor

section
variable {R : Type} [CommSemiring R] [StarRing R]

theorem ty_append (F : TFunctor R) (s t : Ty) : F.ty (s ++ t) = F.ty s ++ F.ty t := by
  simp [TFunctor.ty]

theorem ty_nil (F : TFunctor R) : F.ty [] = [] := rfl

theorem dim_append (F : TFunctor R) (s t : Ty) : F.dim (s ++ t) = F.dim s + F.dim t := by
  simp [TFunctor.dim, ty_append]

/-- `self(box)` has the type the functor assigns to the box. -/
def BoxOK (F : TFunctor R) (b : Box) : Prop :=
  ∀ t, F.box b = .ok t → t.WF ∧ t.dom = F.ty b.dom ∧ t.cod = F.ty b.cod

/-- A `Swap` box exchanges its first wire with the rest (monoidal.py:717-735). -/
def SwapOK (b : Box) : Prop :=
  b.kind = .swap → b.cod = pySlice b.dom (some 1) none ++ pySlice b.dom none (some 1)

/-- The loop invariant on the shape of the running array. -/
def Inv (F : TFunctor R) (ddom S : Ty) (arr : NDArray R) : Prop :=
  ∃ m, arr.shape = (F.ty ddom ++ F.ty S) ++ padShape m ∧ arr.WF

/-- The running array seen as a tensor `F dom → F scan`. -/
def accOf (F : TFunctor R) (ddom S : Ty) (arr : NDArray R) : Tensor R :=
  Tensor.mk' (F.ty ddom) (F.ty S) arr

theorem accOf_wf {F : TFunctor R} {ddom S : Ty} {arr : NDArray R} (h : Inv F ddom S arr) :
    (accOf F ddom S arr).WF := by
  obtain ⟨m, hs, hw⟩ := h
  apply mk'_wf _ _ _ hw
  rw [hs, prod_append, prod_padShape, Nat.mul_one]

theorem accOf_entry {F : TFunctor R} {ddom S : Ty} {arr : NDArray R} {m : Nat}
    (hs : arr.shape = (F.ty ddom ++ F.ty S) ++ padShape m) {x : List Nat}
    (hx : x.length = (F.ty ddom ++ F.ty S).length) :
    (accOf F ddom S arr).entry x = arr.get (x ++ padIdx m) := by
  have := entry_mk'_pad (F.ty ddom) (F.ty S) arr 0 m (by simpa using hs) hx
  unfold accOf
  simpa using this

/-! ### bookkeeping of the scan -/

theorem layer_left (l : Layer) : pySlice l.dom none (some (l.left.length : Int)) = l.left := by
  rw [pySlice_take]; simp [Layer.dom, List.append_assoc]

theorem layer_right (l : Layer) :
    pySlice l.dom (some ((l.left.length : Int) + l.box.dom.length)) none = l.right := by
  have : ((l.left.length : Int) + l.box.dom.length) = ((l.left.length + l.box.dom.length : Nat) : Int) := by
    simp
  rw [this, pySlice_drop]
  simp [Layer.dom]

theorem nextScan_layer (l : Layer) : nextScan l.dom l.box l.left.length = l.cod := by
  unfold nextScan
  rw [layer_left, layer_right]
  rfl

theorem ty_layer_dom (F : TFunctor R) (l : Layer) :
    F.ty l.dom = (F.ty l.left ++ F.ty l.box.dom) ++ F.ty l.right := by
  simp [Layer.dom, ty_append]

theorem ty_layer_cod (F : TFunctor R) (l : Layer) :
    F.ty l.cod = (F.ty l.left ++ F.ty l.box.cod) ++ F.ty l.right := by
  simp [Layer.cod, ty_append]

theorem padShape_add (m k : Nat) : padShape (m + k) = padShape m ++ padShape k := by
  unfold padShape; exact List.replicate_add ..

theorem padIdx_add (m k : Nat) : padIdx (m + k) = padIdx m ++ padIdx k := by
  unfold padIdx; exact List.replicate_add ..

theorem moveaxisOrder_nil (n : Nat) : moveaxisOrder n [] [] = List.range n := by
  simp [moveaxisOrder, sortPairs]

/-! ### the non-swap branch, tensor.py:380-390 -/

/-- tensor.py:380-385. -/
theorem boxContract_spec (F : TFunctor R) (ddom : Ty) (l : Layer) (arr : NDArray R)
    (t : Tensor R) (m : Nat)
    (hs : arr.shape = (F.ty ddom ++ F.ty l.dom) ++ padShape m) (ht : t.WF)
    (hd : t.dom = F.ty l.box.dom) :
    (F.boxContract ddom ⟨l.dom, arr⟩ l.box l.left.length t).shape
        = (F.ty ddom ++ F.ty l.left) ++ (F.ty l.right ++ padShape m)
            ++ (t.cod ++ padShape (spad t.dom t.cod)) ∧
    ∀ {i l' rr bc : List Nat}, InRange (F.ty ddom) i → InRange (F.ty l.left) l' →
      InRange (F.ty l.right) rr → InRange t.cod bc →
      (F.boxContract ddom ⟨l.dom, arr⟩ l.box l.left.length t).get
          ((i ++ l') ++ (rr ++ padIdx m) ++ (bc ++ padIdx (spad t.dom t.cod)))
        = sumOver t.dom (fun j => arr.get (((i ++ l') ++ j) ++ (rr ++ padIdx m))
            * t.entry (j ++ bc)) := by
  have hsa : arr.shape = (F.ty ddom ++ F.ty l.left) ++ t.dom ++ (F.ty l.right ++ padShape m) := by
    rw [hs, ty_layer_dom, hd]; simp [List.append_assoc]
  have hsb : t.arr.shape = t.dom ++ (t.cod ++ padShape (spad t.dom t.cod)) := by
    rw [ht.shape, ashape_eq_padR]; simp [List.append_assoc]
  have hsrc : pyRange (F.dim ddom + F.dim (pySlice l.dom none (some (l.left.length : Int))))
      (F.dim ddom + F.dim (pySlice l.dom none (some (l.left.length : Int))) + F.dim l.box.dom)
      = List.range' (F.ty ddom ++ F.ty l.left).length t.dom.length := by
    rw [layer_left]
    unfold pyRange TFunctor.dim
    rw [hd]
    congr 1
    · simp
    · omega
  have htgt : pyRange 0 (F.dim l.box.dom) = List.range' 0 t.dom.length := by
    unfold pyRange TFunctor.dim
    rw [hd]; simp
  have hb := tensordotAxes_block arr t.arr hsa hsb
  unfold TFunctor.boxContract
  simp only
  rw [hsrc, htgt]
  refine ⟨hb.1, ?_⟩
  intro i l' rr bc hi hl' hrr hbc
  rw [hb.2 (inRange_append hi hl') (inRange_append hrr (inRange_padShape m))
    (inRange_append hbc (inRange_padShape _))]
  apply sumOver_congr
  intro j hj
  rw [entry_eq_get_padR ht (by simp [hj.length_eq, hbc.length_eq])]
  simp [List.append_assoc]

/-- tensor.py:386-389: the new codomain axes (last) move next to the left wires. -/
theorem boxMoveBack_spec (F : TFunctor R) (ddom : Ty) (l : Layer) (a : NDArray R)
    (Bc : List Nat) (m pt : Nat) (hBc : Bc = F.ty l.box.cod) (hpt : pt = 1 → Bc = [])
    (hs : a.shape = (F.ty ddom ++ F.ty l.left) ++ (F.ty l.right ++ padShape m)
            ++ (Bc ++ padShape pt)) (hpt' : pt ≤ 1) (st : St R) (hst : st.scan = l.dom) :
    (F.boxMoveBack ddom st l.box l.left.length a).shape
        = (F.ty ddom ++ F.ty l.cod) ++ padShape (m + pt) ∧
    ∀ {i l' rr bc : List Nat}, InRange (F.ty ddom) i → InRange (F.ty l.left) l' →
      InRange (F.ty l.right) rr → InRange Bc bc →
      (F.boxMoveBack ddom st l.box l.left.length a).get
          ((i ++ ((l' ++ bc) ++ rr)) ++ padIdx (m + pt))
        = a.get ((i ++ l') ++ (rr ++ padIdx m) ++ (bc ++ padIdx pt)) := by
  unfold TFunctor.boxMoveBack NDArray.moveaxis
  rw [hst, layer_left]
  have hdimc : F.dim l.box.cod = Bc.length := by rw [hBc]; rfl
  have hdd : F.dim ddom + F.dim l.left = (F.ty ddom ++ F.ty l.left).length := by
    simp [TFunctor.dim]
  rw [hdimc, hdd]
  by_cases hp : pt = 1
  · -- the box is a scalar: nothing moves
    have hb : Bc = [] := hpt hp
    subst hp
    subst hb
    have e1 : pyRange (a.ndim - ([] : List Nat).length) a.ndim = [] := by simp [pyRange]
    have e2 : pyRange (F.ty ddom ++ F.ty l.left).length
        ((F.ty ddom ++ F.ty l.left).length + ([] : List Nat).length) = [] := by simp [pyRange]
    rw [e1, e2, moveaxisOrder_nil]
    have hcod : F.ty l.cod = (F.ty l.left ++ []) ++ F.ty l.right := by
      rw [ty_layer_cod, ← hBc]
    refine ⟨?_, ?_⟩
    · rw [transpose_range_shape, hs, hcod, padShape_add]; simp [List.append_assoc]
    · intro i l' rr bc hi hl' hrr hbc
      have hbc' : bc = [] := inRange_nil_iff.1 hbc
      subst hbc'
      have hin : InRange a.shape ((i ++ ((l' ++ []) ++ rr)) ++ padIdx (m + 1)) := by
        rw [hs, padIdx_add]
        have := inRange_append (inRange_append (inRange_append hi hl')
          (inRange_append hrr (inRange_padShape m))) (inRange_append (s := []) (i := []) trivial
            (inRange_padShape 1))
        simpa [List.append_assoc] using this
      rw [transpose_range_get a hin, padIdx_add]
      simp [List.append_assoc]
  · have hp0 : pt = 0 := by omega
    subst hp0
    have hs' : a.shape = (F.ty ddom ++ F.ty l.left) ++ (F.ty l.right ++ padShape m) ++ Bc ++ [] := by
      rw [hs]; simp
    have hnd : a.ndim = (F.ty ddom ++ F.ty l.left).length + (F.ty l.right ++ padShape m).length
        + Bc.length := by
      simp [NDArray.ndim, hs, Nat.add_assoc]
    have e1 : pyRange (a.ndim - Bc.length) a.ndim
        = List.range' ((F.ty ddom ++ F.ty l.left).length + (F.ty l.right ++ padShape m).length)
            Bc.length := by
      unfold pyRange; rw [hnd]; congr 1 <;> omega
    have e2 : pyRange (F.ty ddom ++ F.ty l.left).length
        ((F.ty ddom ++ F.ty l.left).length + Bc.length)
        = List.range' (F.ty ddom ++ F.ty l.left).length Bc.length := by
      unfold pyRange; congr 1; omega
    rw [e1, e2, hnd, moveaxisOrder_moveback]
    have hsh := transpose_swapOrder_shape a hs'
    simp only [List.length_nil] at hsh
    refine ⟨?_, ?_⟩
    · rw [hsh, ty_layer_cod, ← hBc]; simp [List.append_assoc]
    · intro i l' rr bc hi hl' hrr hbc
      have := transpose_swapOrder_get a hs' (inRange_append hi hl')
        (inRange_append hrr (inRange_padShape m)) hbc (q := []) trivial
      simp only [List.append_nil, List.length_nil, Nat.add_zero, padIdx_zero] at this ⊢
      rw [← this]
      simp [List.append_assoc]

theorem spad_le (dom cod : List Nat) : spad dom cod ≤ 1 := by
  unfold spad; split <;> omega

theorem spad_one {dom cod : List Nat} (h : spad dom cod = 1) : cod = [] := by
  unfold spad at h
  split at h
  · rename_i h'; exact (List.append_eq_nil_iff.1 h').2
  · omega

theorem moveaxis_wf (a : NDArray R) (s t : List Nat) : (a.moveaxis s t).WF := by
  unfold NDArray.moveaxis NDArray.transpose
  exact ofFn_wf _ _

/-- **The box branch preserves the loop invariant**: one pass of tensor.py:380-390 composes the
    running tensor with `id(F left) ⊗ F(box) ⊗ id(F right)`. -/
theorem stepBox_spec (F : TFunctor R) (ddom : Ty) (l : Layer) (arr : NDArray R) (t : Tensor R)
    (hinv : Inv F ddom l.dom arr) (ht : t.WF) (hd : t.dom = F.ty l.box.dom)
    (hc : t.cod = F.ty l.box.cod) :
    (F.stepBox ddom ⟨l.dom, arr⟩ l.box l.left.length t).scan = l.cod ∧
    Inv F ddom l.cod (F.stepBox ddom ⟨l.dom, arr⟩ l.box l.left.length t).arr ∧
    accOf F ddom l.cod (F.stepBox ddom ⟨l.dom, arr⟩ l.box l.left.length t).arr
      = thenCore (accOf F ddom l.dom arr) (layerT (F.ty l.left) (F.ty l.right) t) := by
  obtain ⟨m, hs, hw⟩ := hinv
  have h1 := boxContract_spec F ddom l arr t m hs ht hd
  have h2 := boxMoveBack_spec F ddom l (F.boxContract ddom ⟨l.dom, arr⟩ l.box l.left.length t)
    t.cod m (spad t.dom t.cod) hc (fun h => spad_one h) h1.1 (spad_le _ _) ⟨l.dom, arr⟩ rfl
  have hinv' : Inv F ddom l.cod (F.stepBox ddom ⟨l.dom, arr⟩ l.box l.left.length t).arr :=
    ⟨m + spad t.dom t.cod, h2.1, moveaxis_wf _ _ _⟩
  refine ⟨nextScan_layer l, hinv', ?_⟩
  have hacc : (accOf F ddom l.dom arr).WF := accOf_wf ⟨m, hs, hw⟩
  have hcod : (accOf F ddom l.dom arr).cod = (F.ty l.left ++ t.dom) ++ F.ty l.right := by
    rw [hd, ← ty_layer_dom]; rfl
  have hcod' : F.ty l.cod = (F.ty l.left ++ t.cod) ++ F.ty l.right := by
    rw [ty_layer_cod, hc]
  have harr : (F.stepBox ddom ⟨l.dom, arr⟩ l.box l.left.length t).arr
      = F.boxMoveBack ddom ⟨l.dom, arr⟩ l.box l.left.length
          (F.boxContract ddom ⟨l.dom, arr⟩ l.box l.left.length t) := rfl
  rw [harr] at hinv' ⊢
  apply ext_entry
    (t := thenCore (accOf F ddom l.dom arr) (layerT (F.ty l.left) (F.ty l.right) t))
    (accOf_wf hinv') (thenCore_wf _ _ hacc (layerT_wf _ _ t ht) hcod) rfl hcod'
  intro x hx
  have hx' : InRange (F.ty ddom ++ ((F.ty l.left ++ t.cod) ++ F.ty l.right)) x := by
    rw [← hcod']; exact hx
  obtain ⟨i, y, rfl, hi, hy⟩ := Tensor.split2 hx'
  obtain ⟨lb, rr, rfl, hlb, hrr⟩ := Tensor.split2 hy
  obtain ⟨l', bc, rfl, hl', hbc⟩ := Tensor.split2 hlb
  rw [accOf_entry h2.1 (by rw [hx.length_eq]; rfl), h2.2 hi hl' hrr hbc, h1.2 hi hl' hrr hbc,
    then_layer_entry _ t _ _ hacc ht hcod hi hl' hbc hrr]
  apply sumOver_congr
  intro j hj
  rw [accOf_entry hs (by
    rw [ty_layer_dom, ← hd]
    simp [hi.length_eq, hl'.length_eq, hj.length_eq, hrr.length_eq])]
  simp [List.append_assoc]

/-! ### the swap branch, tensor.py:369-379 -/

theorem swapMap_eq (p x y : Nat) :
    (List.range' p (x + y)).map (fun i => if i < p + x then i + y else i - x)
      = swapTargets p 0 x y 0 := by
  unfold swapTargets
  rw [range'_split, List.map_append]
  simp only [List.range'_zero, List.nil_append, List.append_nil, Nat.add_zero]
  congr 1
  · apply map_range'_eq; intro j hj
    have : p + j < p + x := by omega
    simp only [this, if_true]; omega
  · apply map_range'_eq; intro j hj
    have : ¬ (p + x + j < p + x) := by omega
    simp only [this, if_false]; omega

theorem take1_drop1 (xs : Ty) :
    pySlice xs none (some 1) ++ pySlice xs (some 1) none = xs := by
  have h1 := pySlice_take xs 1
  have h2 := pySlice_drop xs 1
  simp only [Nat.cast_one] at h1 h2
  rw [h1, h2, List.take_append_drop]

/-- The defining tensor of a swap box has the type the functor assigns to the box. -/
theorem swapT_type (F : TFunctor R) (b : Box)
    (hsw : b.cod = pySlice b.dom (some 1) none ++ pySlice b.dom none (some 1)) :
    (Tensor.swap (R := R) (F.ty (pySlice b.dom none (some 1))) (F.ty (pySlice b.dom (some 1) none))).dom
      = F.ty b.dom ∧
    (Tensor.swap (R := R) (F.ty (pySlice b.dom none (some 1))) (F.ty (pySlice b.dom (some 1) none))).cod
      = F.ty b.cod := by
  refine ⟨?_, ?_⟩
  · rw [swap_dom, ← ty_append, take1_drop1]
  · rw [swap_cod, ← ty_append, ← hsw]

/-- **The swap branch preserves the loop invariant**: moving the axes (tensor.py:370-377)
    composes the running tensor with `id(F left) ⊗ swap(F x, F y) ⊗ id(F right)`. -/
theorem stepSwap_spec (F : TFunctor R) (ddom : Ty) (l : Layer) (arr : NDArray R)
    (hinv : Inv F ddom l.dom arr)
    (hsw : l.box.cod = pySlice l.box.dom (some 1) none ++ pySlice l.box.dom none (some 1)) :
    (F.stepSwap ddom ⟨l.dom, arr⟩ l.box l.left.length).scan = l.cod ∧
    Inv F ddom l.cod (F.stepSwap ddom ⟨l.dom, arr⟩ l.box l.left.length).arr ∧
    accOf F ddom l.cod (F.stepSwap ddom ⟨l.dom, arr⟩ l.box l.left.length).arr
      = thenCore (accOf F ddom l.dom arr) (layerT (F.ty l.left) (F.ty l.right)
          (Tensor.swap (F.ty (pySlice l.box.dom none (some 1)))
            (F.ty (pySlice l.box.dom (some 1) none)))) := by
  obtain ⟨m, hs, hw⟩ := hinv
  generalize hX : F.ty (pySlice l.box.dom none (some 1)) = X
  generalize hY : F.ty (pySlice l.box.dom (some 1) none) = Y
  have htype := swapT_type F l.box hsw
  rw [hX, hY] at htype
  have hdomXY : F.ty l.box.dom = X ++ Y := by rw [← htype.1]; rfl
  have hcodYX : F.ty l.box.cod = Y ++ X := by rw [← htype.2]; rfl
  have hsa : arr.shape = (F.ty ddom ++ F.ty l.left) ++ [] ++ X ++ Y ++ []
      ++ (F.ty l.right ++ padShape m) := by
    rw [hs, ty_layer_dom, hdomXY]; simp [List.append_assoc]
  have hsrc : F.swapSource ddom l.dom l.box l.left.length
      = List.range' (F.ty ddom ++ F.ty l.left).length
          (([] : List Nat).length + X.length + Y.length + ([] : List Nat).length) := by
    unfold TFunctor.swapSource pyRange
    rw [layer_left]
    simp only [dim_append]
    congr 1
    · simp [TFunctor.dim]
    · have : F.dim l.box.dom = X.length + Y.length := by
        unfold TFunctor.dim; rw [hdomXY]; simp
      simp only [List.length_nil]; omega
  have htgt : F.swapTargetF ddom l.dom l.box l.left.length
      = swapTargets (F.ty ddom ++ F.ty l.left).length ([] : List Nat).length X.length Y.length
          ([] : List Nat).length := by
    unfold TFunctor.swapTargetF
    rw [hsrc, layer_left]
    have e1 : F.dim (ddom ++ l.left) = (F.ty ddom ++ F.ty l.left).length := by
      simp [TFunctor.dim, ty_append]
    have e2 : F.dim (pySlice l.box.dom none (some 1)) = X.length := by
      unfold TFunctor.dim; rw [hX]
    have e3 : F.dim (pySlice l.box.dom (some 1) none) = Y.length := by
      unfold TFunctor.dim; rw [hY]
    rw [e1, e2, e3]
    simp only [List.length_nil, Nat.zero_add, Nat.add_zero]
    exact swapMap_eq _ _ _
  have hm := moveaxis_blockswap arr hsa
  have harr : (F.stepSwap ddom ⟨l.dom, arr⟩ l.box l.left.length).arr
      = arr.moveaxis (F.swapSource ddom l.dom l.box l.left.length)
          (F.swapTargetF ddom l.dom l.box l.left.length) := rfl
  rw [harr, hsrc, htgt]
  have hcod' : F.ty l.cod = (F.ty l.left ++ (Y ++ X)) ++ F.ty l.right := by
    rw [ty_layer_cod, hcodYX]
  have hs2 : (arr.moveaxis (List.range' (F.ty ddom ++ F.ty l.left).length
        (([] : List Nat).length + X.length + Y.length + ([] : List Nat).length))
      (swapTargets (F.ty ddom ++ F.ty l.left).length ([] : List Nat).length X.length Y.length
          ([] : List Nat).length)).shape = (F.ty ddom ++ F.ty l.cod) ++ padShape m := by
    rw [hm.1, hcod']; simp [List.append_assoc]
  have hinv' : Inv F ddom l.cod (arr.moveaxis (List.range' (F.ty ddom ++ F.ty l.left).length
        (([] : List Nat).length + X.length + Y.length + ([] : List Nat).length))
      (swapTargets (F.ty ddom ++ F.ty l.left).length ([] : List Nat).length X.length Y.length
          ([] : List Nat).length)) := ⟨m, hs2, moveaxis_wf _ _ _⟩
  refine ⟨nextScan_layer l, hinv', ?_⟩
  have hacc : (accOf F ddom l.dom arr).WF := accOf_wf ⟨m, hs, hw⟩
  have hsw_wf : (Tensor.swap (R := R) X Y).WF := swap_wf X Y
  have hcod : (accOf F ddom l.dom arr).cod
      = (F.ty l.left ++ (Tensor.swap (R := R) X Y).dom) ++ F.ty l.right := by
    rw [swap_dom, ← hdomXY, ← ty_layer_dom]; rfl
  have hcod'' : F.ty l.cod = (F.ty l.left ++ (Tensor.swap (R := R) X Y).cod) ++ F.ty l.right := by
    rw [swap_cod]; exact hcod'
  apply ext_entry
    (t := thenCore (accOf F ddom l.dom arr) (layerT (F.ty l.left) (F.ty l.right)
      (Tensor.swap X Y)))
    (accOf_wf hinv') (thenCore_wf _ _ hacc (layerT_wf _ _ _ hsw_wf) hcod) rfl hcod''
  intro z hz
  have hz' : InRange (F.ty ddom ++ ((F.ty l.left ++ (Y ++ X)) ++ F.ty l.right)) z := by
    rw [← hcod']; exact hz
  obtain ⟨i, w, rfl, hi, hw'⟩ := Tensor.split2 hz'
  obtain ⟨lb, rr, rfl, hlb, hrr⟩ := Tensor.split2 hw'
  obtain ⟨l', yx, rfl, hl', hyx⟩ := Tensor.split2 hlb
  obtain ⟨y, x, rfl, hy, hx⟩ := Tensor.split2 hyx
  rw [accOf_entry hs2 (by rw [hz.length_eq]; rfl)]
  have hget := hm.2 (pw := i ++ l') (x := x) (y := y) (zq := rr ++ padIdx m)
    (by simpa using inRange_append hi hl') hx hy
    (by simpa using inRange_append hrr (inRange_padShape m))
  have e : (i ++ ((l' ++ (y ++ x)) ++ rr)) ++ padIdx m = (i ++ l') ++ y ++ x ++ (rr ++ padIdx m) := by
    simp [List.append_assoc]
  rw [e, hget]
  rw [then_layer_entry _ _ _ _ hacc hsw_wf hcod hi hl' (by rw [swap_cod]; exact hyx) hrr]
  rw [swap_dom, sumOver_append]
  rw [sumOver_congr (g := fun x' => (if x = x' then 1 else 0) *
      (accOf F ddom l.dom arr).entry (i ++ ((l' ++ (x' ++ y)) ++ rr))) (fun x' hx' => ?_)]
  · rw [sumOver_delta hx, accOf_entry hs (by
      rw [ty_layer_dom, hdomXY]
      simp [hi.length_eq, hl'.length_eq, hx.length_eq, hy.length_eq, hrr.length_eq])]
    simp [List.append_assoc]
  · rw [sumOver_congr (g := fun y' => (if y = y' then 1 else 0) * ((if x = x' then 1 else 0) *
        (accOf F ddom l.dom arr).entry (i ++ ((l' ++ (x' ++ y')) ++ rr)))) (fun y' hy' => ?_)]
    · rw [sumOver_delta hy]
    · rw [swap_entry X Y hx' hy' hy hx, ite_comm' y y', ite_comm' x x']
      by_cases e1 : x' = x <;> by_cases e2 : y' = y <;> simp [e1, e2]

/-! ### the loop -/

theorem box_swap (F : TFunctor R) (b : Box) (hk : b.kind = .swap) :
    F.box b = .ok (Tensor.swap (F.ty (pySlice b.dom none (some 1)))
      (F.ty (pySlice b.dom (some 1) none))) := by
  unfold TFunctor.box; rw [hk]

theorem accOf_then_layer (F : TFunctor R) (ddom : Ty) (l : Layer) (arr : NDArray R)
    (t : Tensor R) (hd : t.dom = F.ty l.box.dom) :
    (accOf F ddom l.dom arr).then
        (((Tensor.id (F.ty l.left)).tensor t).tensor (Tensor.id (F.ty l.right)))
      = .ok (thenCore (accOf F ddom l.dom arr) (layerT (F.ty l.left) (F.ty l.right) t)) := by
  show (accOf F ddom l.dom arr).then (layerT (F.ty l.left) (F.ty l.right) t) = _
  apply then_ok
  rw [layerT_dom, hd, ← ty_layer_dom]; rfl

/-- The loop of tensor.py:368-390 against the fold of the reference semantics: they fail
    together (same error), or the loop ends in a state satisfying the invariant whose tensor is
    the layer-by-layer composite. -/
theorem loop_spec (F : TFunctor R) (ddom : Ty) : ∀ (ls : List Layer) (S : Ty) (arr : NDArray R)
    (c : Ty), Chain S ls c → Inv F ddom S arr → (∀ l ∈ ls, SwapOK l.box) →
    (∀ l ∈ ls, BoxOK F l.box) →
    (∃ e, F.loop ddom ⟨S, arr⟩ (ls.map (·.box)) (ls.map (fun l => (l.left.length : Int)))
          = .error e ∧ F.layerFold (accOf F ddom S arr) ls = .error e) ∨
    (∃ st, F.loop ddom ⟨S, arr⟩ (ls.map (·.box)) (ls.map (fun l => (l.left.length : Int)))
          = .ok st ∧ st.scan = c ∧ Inv F ddom c st.arr ∧
        F.layerFold (accOf F ddom S arr) ls = .ok (accOf F ddom c st.arr))
  | [], S, arr, c, hch, hinv, _, _ => by
    have : S = c := hch
    subst this
    exact Or.inr ⟨⟨S, arr⟩, rfl, rfl, hinv, rfl⟩
  | l :: ls, S, arr, c, hch, hinv, hsw, hbox => by
    obtain ⟨hS, hch'⟩ := hch
    subst hS
    have hsw' : ∀ l' ∈ ls, SwapOK l'.box := fun l' h => hsw l' (List.mem_cons_of_mem _ h)
    have hbox' : ∀ l' ∈ ls, BoxOK F l'.box := fun l' h => hbox l' (List.mem_cons_of_mem _ h)
    simp only [List.map_cons, TFunctor.loop, TFunctor.layerFold, TFunctor.step, TFunctor.layer]
    by_cases hk : l.box.kind = .swap
    · -- swap branch
      have hspec := stepSwap_spec F ddom l arr hinv (hsw l (List.mem_cons_self) hk)
      rw [if_pos hk, box_swap F l.box hk]
      simp only
      have hty := swapT_type F l.box (hsw l (List.mem_cons_self) hk)
      rw [accOf_then_layer F ddom l arr _ hty.1]
      simp only
      rw [← hspec.2.2]
      have ih := loop_spec F ddom ls l.cod
        (F.stepSwap ddom ⟨l.dom, arr⟩ l.box l.left.length).arr c hch' hspec.2.1 hsw' hbox'
      have hst : F.stepSwap ddom ⟨l.dom, arr⟩ l.box l.left.length
          = ⟨l.cod, (F.stepSwap ddom ⟨l.dom, arr⟩ l.box l.left.length).arr⟩ := by
        rw [← hspec.1]
      rw [hst]
      exact ih
    · rw [if_neg hk]
      cases hb : F.box l.box with
      | error e => exact Or.inl ⟨e, rfl, rfl⟩
      | ok t =>
        simp only
        obtain ⟨ht, hd, hc⟩ := hbox l (List.mem_cons_self) t hb
        have hspec := stepBox_spec F ddom l arr t hinv ht hd hc
        rw [accOf_then_layer F ddom l arr t hd]
        simp only
        rw [← hspec.2.2]
        have ih := loop_spec F ddom ls l.cod
          (F.stepBox ddom ⟨l.dom, arr⟩ l.box l.left.length t).arr c hch' hspec.2.1 hsw' hbox'
        have hst : F.stepBox ddom ⟨l.dom, arr⟩ l.box l.left.length t
            = ⟨l.cod, (F.stepBox ddom ⟨l.dom, arr⟩ l.box l.left.length t).arr⟩ := by
          rw [← hspec.1]
        rw [hst]
        exact ih

theorem inv_init (F : TFunctor R) (ddom : Ty) :
    Inv F ddom ddom (Tensor.id (R := R) (F.ty ddom)).arr :=
  ⟨spad (F.ty ddom) (F.ty ddom), by rw [(id_wf (R := R) (F.ty ddom)).shape, ashape_eq_padR]; rfl,
    (id_wf (R := R) (F.ty ddom)).arr_wf⟩

theorem mk?_of_inv (F : TFunctor R) (ddom c : Ty) (arr : NDArray R) (h : Inv F ddom c arr) :
    Tensor.mk? (F.ty ddom) (F.ty c) arr = .ok (accOf F ddom c arr) := by
  obtain ⟨m, hs, hw⟩ := h
  unfold Tensor.mk?
  have : arr.reshapeOk (ashape (F.ty ddom) (F.ty c)) = true := by
    unfold NDArray.reshapeOk
    rw [hw, hs, prod_append, prod_padShape, Nat.mul_one, prod_ashape]
    simp
  rw [if_pos this]
  rfl

/-- **C09, the equivalence of the two programs**: on a well-typed diagram whose swap boxes are
    swaps and whose boxes are sent to tensors of the right type, the single-pass evaluation of
    `tensor.Functor.__call__` equals the layer-by-layer composite
    `id(F left) ⊗ F(box) ⊗ id(F right)` — including the error when some `F(box)` fails. -/
theorem call_eq_layerwise (F : TFunctor R) (d : Diagram) (hwf : d.WF)
    (hsw : ∀ b ∈ d.boxes, SwapOK b) (hbox : ∀ b ∈ d.boxes, BoxOK F b) :
    F.call d = F.layerwise d := by
  have hch : Chain d.dom d.layers.boxes d.cod := by
    have := hwf.chain
    unfold LArrow.WF at this
    rw [hwf.ldom, hwf.lcod] at this
    exact this
  have hsw' : ∀ l ∈ d.layers.boxes, SwapOK l.box := fun l hl =>
    hsw _ (by rw [hwf.boxes]; exact List.mem_map_of_mem hl)
  have hbox' : ∀ l ∈ d.layers.boxes, BoxOK F l.box := fun l hl =>
    hbox _ (by rw [hwf.boxes]; exact List.mem_map_of_mem hl)
  have hl := loop_spec F d.dom d.layers.boxes d.dom (Tensor.id (R := R) (F.ty d.dom)).arr d.cod
    hch (inv_init F d.dom) hsw' hbox'
  have hacc : accOf F d.dom d.dom (Tensor.id (R := R) (F.ty d.dom)).arr = Tensor.id (F.ty d.dom) :=
    rfl
  unfold TFunctor.call TFunctor.layerwise
  rw [hwf.boxes, hwf.offsets]
  rw [hacc] at hl
  rcases hl with ⟨e, h1, h2⟩ | ⟨st, h1, _, h3, h4⟩
  · rw [h1, h2]
  · rw [h1, h4]
    simp only
    exact mk?_of_inv F d.dom d.cod st.arr h3

/-! ### which boxes are `BoxOK` -/

theorem mk?_ok {dom cod : List Nat} {a : NDArray R} {t : Tensor R}
    (h : Tensor.mk? dom cod a = .ok t) : t.WF ∧ t.dom = dom ∧ t.cod = cod := by
  unfold Tensor.mk? at h
  split at h
  · rename_i hr
    cases h
    refine ⟨⟨rfl, ?_⟩, rfl, rfl⟩
    unfold NDArray.reshapeOk at hr
    simp only [mk', NDArray.reshape]
    rw [← prod_ashape]
    simpa using hr
  · cases h

/-- Generators and daggered generators (tensor.py:358-361). -/
theorem boxOK_gen (F : TFunctor R) (b : Box) (hk : b.kind = .gen) : BoxOK F b := by
  intro t ht
  unfold TFunctor.box at ht
  rw [hk] at ht
  simp only at ht
  split at ht
  · -- daggered: `self(box.dagger()).dagger()`
    cases hg : F.gen b.dag with
    | error e => rw [hg] at ht; cases ht
    | ok t0 =>
      rw [hg] at ht
      cases ht
      obtain ⟨hw, hd, hc⟩ := mk?_ok hg
      have hdag : b.dag.dom = b.cod ∧ b.dag.cod = b.dom := by
        unfold Box.dag; rw [hk]; exact ⟨rfl, rfl⟩
      exact ⟨dagger_wf t0 hw, by rw [dagger_dom, hc, hdag.2], by rw [dagger_cod, hd, hdag.1]⟩
  · exact mk?_ok ht

/-- Swap boxes: the defining tensor is `Tensor.swap`. -/
theorem boxOK_swap (F : TFunctor R) (b : Box) (hk : b.kind = .swap) (hsw : SwapOK b) :
    BoxOK F b := by
  intro t ht
  rw [box_swap F b hk] at ht
  cases ht
  have := swapT_type F b (hsw hk)
  exact ⟨swap_wf _ _, this.1, this.2⟩

/-! ### cups and caps -/

/-- A genuine `Cup(x, y)`: two wires, empty codomain (rigid.py:325-351). -/
def CupOK (b : Box) : Prop :=
  b.kind = .cup → ∃ x y : Ob, b.dom = [x, y] ∧ b.cod = []

/-- A genuine `Cap(x, y)` (rigid.py:354-384). -/
def CapOK (b : Box) : Prop :=
  b.kind = .cap → ∃ x y : Ob, b.cod = [x, y] ∧ b.dom = []

/-- `F(Cup(x, y)) = Tensor.cups(F x, F y)` has the right type whenever it is defined (it is an
    AxiomError when `F x`, `F y` are not adjoint dimension tuples, e.g. a non-palindromic
    multi-wire `Dim`: winding numbers are erased, tensor.py:343-344). -/
theorem boxOK_cup (F : TFunctor R) (b : Box) (hk : b.kind = .cup) (hb : CupOK b) :
    BoxOK F b := by
  obtain ⟨x, y, hd, hc⟩ := hb hk
  intro t ht
  unfold TFunctor.box at ht
  rw [hk] at ht
  simp only at ht
  have h1 : pySlice b.dom none (some 1) = [x] := by rw [hd]; rfl
  have h2 : pySlice b.dom (some 1) none = [y] := by rw [hd]; rfl
  rw [h1, h2] at ht
  obtain ⟨hw, hdom, hcod⟩ := cups_ok ht
  refine ⟨hw, ?_, ?_⟩
  · rw [hdom, hd, ← ty_append]; rfl
  · rw [hcod, hc]; rfl

theorem boxOK_cap (F : TFunctor R) (b : Box) (hk : b.kind = .cap) (hb : CapOK b) :
    BoxOK F b := by
  obtain ⟨x, y, hc, hd⟩ := hb hk
  intro t ht
  unfold TFunctor.box at ht
  rw [hk] at ht
  simp only at ht
  have h1 : pySlice b.cod none (some 1) = [x] := by rw [hc]; rfl
  have h2 : pySlice b.cod (some 1) none = [y] := by rw [hc]; rfl
  rw [h1, h2] at ht
  obtain ⟨hw, hdom, hcod⟩ := caps_ok ht
  refine ⟨hw, ?_, ?_⟩
  · rw [hdom, hd]; rfl
  · rw [hcod, hc, ← ty_append]; rfl

/-- All special boxes are genuine (what discopy's classes `Swap`, `Cup`, `Cap` guarantee). -/
def Genuine (b : Box) : Prop := SwapOK b ∧ CupOK b ∧ CapOK b

/-- Every genuine box is sent to a well-formed tensor of the right type (when `F(box)` is
    defined at all). -/
theorem boxOK_of_genuine (F : TFunctor R) (b : Box) (hb : Genuine b) : BoxOK F b := by
  cases hk : b.kind with
  | gen => exact boxOK_gen F b hk
  | swap => exact boxOK_swap F b hk hb.1
  | cup => exact boxOK_cup F b hk hb.2.1
  | cap => exact boxOK_cap F b hk hb.2.2

/-- The Boolean the driver reports (`fgenuine`) implies the hypothesis of the theorem. -/
theorem genuine_of_genuineB (b : Box) (h : TFunctor.genuineB b = true) : Genuine b := by
  unfold TFunctor.genuineB at h
  refine ⟨fun hk => ?_, fun hk => ?_, fun hk => ?_⟩
  · rw [hk] at h; simpa using h
  · rw [hk] at h
    simp only [Bool.and_eq_true, beq_iff_eq, List.isEmpty_iff] at h
    match hd : b.dom, h.1 with
    | [x, y], _ => exact ⟨x, y, rfl, h.2⟩
  · rw [hk] at h
    simp only [Bool.and_eq_true, beq_iff_eq, List.isEmpty_iff] at h
    match hd : b.cod, h.1 with
    | [x, y], _ => exact ⟨x, y, rfl, h.2⟩

/-! ### a box seen as a one-box diagram -/

theorem layerwise_ofBox (F : TFunctor R) (b : Box) (hb : BoxOK F b) :
    F.layerwise (Diagram.ofBox b) = F.box b := by
  unfold TFunctor.layerwise Diagram.ofBox
  simp only [TFunctor.layerFold, TFunctor.layer]
  cases hbx : F.box b with
  | error e => rfl
  | ok t =>
    obtain ⟨hw, hd, _⟩ := hb t hbx
    simp only
    have e1 : F.ty ([] : Ty) = [] := rfl
    rw [e1, id_nil_tensor t hw, tensor_id_nil t hw, ← hd, then_ok rfl, id_then t hw]

end
end TFunctor
end DV
