/-
  Proofs/CQ.lean — lemmas about the classical-quantum model (Model/CQ.lean), for every
  commutative star-ring `R` (conjugation := `star`).
-/
import Model.CQ
import Mathlib.Algebra.Star.Basic
import Mathlib.Algebra.Ring.Basic
import Mathlib.Tactic.Ring
import Mathlib.Tactic.Linarith

namespace DV.CQ

set_option linter.unusedSectionVars false

variable {R : Type} [CommRing R] [StarRing R]

/-- Conjugation of the model := the star of the ring. -/
instance (priority := low) starConj : Conj R := ⟨star⟩

@[simp] theorem conj_eq_star (x : R) : (conj x : R) = star x := rfl

/-! ### finite sums -/

@[simp] theorem sumN_zero_n (g : Nat → R) : sumN 0 g = 0 := rfl
theorem sumN_succ (n : Nat) (g : Nat → R) : sumN (n + 1) g = sumN n g + g n := rfl

theorem sumN_congr {n : Nat} {f g : Nat → R} (h : ∀ i, i < n → f i = g i) : sumN n f = sumN n g := by
  induction n with
  | zero => rfl
  | succ n ih =>
    rw [sumN_succ, sumN_succ, ih (fun i hi => h i (Nat.lt_succ_of_lt hi)), h n (Nat.lt_succ_self n)]

@[simp] theorem sumN_const_zero (n : Nat) : sumN n (fun _ => (0 : R)) = 0 := by
  induction n with
  | zero => rfl
  | succ n ih => rw [sumN_succ, ih, add_zero]

theorem sumN_add (n : Nat) (f g : Nat → R) :
    sumN n (fun i => f i + g i) = sumN n f + sumN n g := by
  induction n with
  | zero => simp
  | succ n ih => rw [sumN_succ, sumN_succ, sumN_succ, ih]; ring

theorem mul_sumN (n : Nat) (a : R) (f : Nat → R) : a * sumN n f = sumN n (fun i => a * f i) := by
  induction n with
  | zero => simp
  | succ n ih => rw [sumN_succ, sumN_succ, mul_add, ih]

theorem sumN_mul (n : Nat) (a : R) (f : Nat → R) : sumN n f * a = sumN n (fun i => f i * a) := by
  induction n with
  | zero => simp
  | succ n ih => rw [sumN_succ, sumN_succ, add_mul, ih]

theorem star_sumN (n : Nat) (f : Nat → R) : star (sumN n f) = sumN n (fun i => star (f i)) := by
  induction n with
  | zero => simp
  | succ n ih => rw [sumN_succ, sumN_succ, star_add, ih]

theorem sumN_comm (n m : Nat) (f : Nat → Nat → R) :
    sumN n (fun i => sumN m (fun j => f i j)) = sumN m (fun j => sumN n (fun i => f i j)) := by
  induction n with
  | zero => simp
  | succ n ih => simp only [sumN_succ]; rw [ih, sumN_add]

/-- `Σ_{i<n} [i = k] f i = f k` for `k < n`. -/
theorem sumN_ite_eq {n k : Nat} (hk : k < n) (f : Nat → R) :
    sumN n (fun i => if i = k then f i else 0) = f k := by
  induction n with
  | zero => omega
  | succ n ih =>
    rw [sumN_succ]
    by_cases h : k = n
    · subst h
      rw [sumN_congr (g := fun _ => 0) (fun i hi => by simp; omega)]
      simp
    · rw [ih (by omega)]; simp; omega

theorem sumN_ite_eq_zero {n k : Nat} (hk : n ≤ k) (f : Nat → R) :
    sumN n (fun i => if i = k then f i else 0) = 0 := by
  rw [sumN_congr (g := fun _ => 0) (fun i hi => by simp; omega)]; simp

theorem sumN_append (n m : Nat) (f : Nat → R) :
    sumN (n + m) f = sumN n f + sumN m (fun j => f (n + j)) := by
  induction m with
  | zero => simp
  | succ m ih => rw [← Nat.add_assoc, sumN_succ, sumN_succ, ih]; ring

/-- Fubini over a flattened pair index. -/
theorem sumN_divmod (a b : Nat) (f : Nat → Nat → R) :
    sumN (a * b) (fun k => f (k / b) (k % b)) = sumN a (fun i => sumN b (fun j => f i j)) := by
  induction a with
  | zero => simp
  | succ a ih =>
    rw [Nat.succ_mul, sumN_append, ih, sumN_succ]
    congr 1
    apply sumN_congr
    intro j hj
    have hb : 0 < b := by omega
    rw [Nat.mul_comm a b, Nat.mul_add_div hb, Nat.mul_add_mod, Nat.div_eq_of_lt hj, Nat.mod_eq_of_lt hj]
    simp

theorem sumN_mul_sumN (n m : Nat) (f g : Nat → R) :
    sumN n f * sumN m g = sumN n (fun i => sumN m (fun j => f i * g j)) := by
  rw [sumN_mul]; apply sumN_congr; intro i _; rw [mul_sumN]

theorem sumN_single {n k : Nat} (hk : k < n) {f : Nat → R} (h : ∀ i, i < n → i ≠ k → f i = 0) :
    sumN n f = f k := by
  rw [← sumN_ite_eq hk f]
  apply sumN_congr
  intro i hi
  by_cases e : i = k
  · simp [e]
  · simp [e, h i hi e]

theorem sumN_eq_zero {n : Nat} {f : Nat → R} (h : ∀ i, i < n → f i = 0) : sumN n f = 0 := by
  rw [sumN_congr h]; simp

/-! ### Iverson brackets -/

theorem iv_def (p : Prop) [Decidable p] : (iv p : R) = if p then 1 else 0 := rfl
@[simp] theorem iv_pos {p : Prop} [Decidable p] (h : p) : (iv p : R) = 1 := by simp [iv_def, h]
@[simp] theorem iv_neg {p : Prop} [Decidable p] (h : ¬p) : (iv p : R) = 0 := by simp [iv_def, h]
theorem iv_and (p q : Prop) [Decidable p] [Decidable q] : (iv (p ∧ q) : R) = iv p * iv q := by
  by_cases hp : p <;> by_cases hq : q <;> simp [hp, hq]
theorem iv_congr {p q : Prop} [Decidable p] [Decidable q] (h : p ↔ q) : (iv p : R) = iv q := by
  by_cases hp : p
  · rw [iv_pos hp, iv_pos (h.mp hp)]
  · rw [iv_neg hp, iv_neg (fun hq => hp (h.mpr hq))]
@[simp] theorem star_iv (p : Prop) [Decidable p] : star (iv p : R) = iv p := by
  by_cases hp : p <;> simp [hp]

/-! ### sums over a classical-quantum index -/

theorem sum3_congr {C Q : Nat} {f g : Nat → Nat → Nat → R}
    (h : ∀ x y z, x < C → y < Q → z < Q → f x y z = g x y z) : sum3 C Q f = sum3 C Q g := by
  unfold sum3
  exact sumN_congr fun x hx => sumN_congr fun y hy => sumN_congr fun z hz => h x y z hx hy hz

theorem sum3_eq_zero {C Q : Nat} {f : Nat → Nat → Nat → R}
    (h : ∀ x y z, x < C → y < Q → z < Q → f x y z = 0) : sum3 C Q f = 0 := by
  unfold sum3
  exact sumN_eq_zero fun x hx => sumN_eq_zero fun y hy => sumN_eq_zero fun z hz => h x y z hx hy hz

theorem mul_sum3 (C Q : Nat) (a : R) (f : Nat → Nat → Nat → R) :
    a * sum3 C Q f = sum3 C Q (fun x y z => a * f x y z) := by
  unfold sum3; simp only [mul_sumN]

theorem sum3_mul (C Q : Nat) (a : R) (f : Nat → Nat → Nat → R) :
    sum3 C Q f * a = sum3 C Q (fun x y z => f x y z * a) := by
  unfold sum3; simp only [sumN_mul]

theorem star_sum3 (C Q : Nat) (f : Nat → Nat → Nat → R) :
    star (sum3 C Q f) = sum3 C Q (fun x y z => star (f x y z)) := by
  unfold sum3; simp only [star_sumN]

theorem sumN_sum3_comm (n C Q : Nat) (f : Nat → Nat → Nat → Nat → R) :
    sumN n (fun i => sum3 C Q (f i)) = sum3 C Q (fun x y z => sumN n (fun i => f i x y z)) := by
  unfold sum3
  rw [sumN_comm]
  refine sumN_congr fun x _ => ?_
  rw [sumN_comm]
  refine sumN_congr fun y _ => ?_
  rw [sumN_comm]

theorem sum3_comm (C Q C' Q' : Nat) (f : Nat → Nat → Nat → Nat → Nat → Nat → R) :
    sum3 C Q (fun x y z => sum3 C' Q' (f x y z)) =
    sum3 C' Q' (fun x' y' z' => sum3 C Q (fun x y z => f x y z x' y' z')) := by
  calc sum3 C Q (fun x y z => sum3 C' Q' (f x y z))
      = sumN C (fun x => sumN Q fun y => sumN Q fun z => sum3 C' Q' (f x y z)) := rfl
    _ = sumN C (fun x => sumN Q fun y =>
          sum3 C' Q' (fun x' y' z' => sumN Q fun z => f x y z x' y' z')) := by
        refine sumN_congr fun x _ => sumN_congr fun y _ => ?_
        exact sumN_sum3_comm Q C' Q' (fun z => f x y z)
    _ = sumN C (fun x =>
          sum3 C' Q' (fun x' y' z' => sumN Q fun y => sumN Q fun z => f x y z x' y' z')) := by
        refine sumN_congr fun x _ => ?_
        exact sumN_sum3_comm Q C' Q' (fun y x' y' z' => sumN Q fun z => f x y z x' y' z')
    _ = sum3 C' Q' (fun x' y' z' => sumN C fun x => sumN Q fun y => sumN Q fun z => f x y z x' y' z') :=
        sumN_sum3_comm C C' Q' (fun x x' y' z' => sumN Q fun y => sumN Q fun z => f x y z x' y' z')
    _ = _ := rfl

/-- exactly one summand may be non-zero. -/
theorem sum3_single {C Q c q p : Nat} (hc : c < C) (hq : q < Q) (hp : p < Q)
    {f : Nat → Nat → Nat → R}
    (h : ∀ x y z, x < C → y < Q → z < Q → ¬(x = c ∧ y = q ∧ z = p) → f x y z = 0) :
    sum3 C Q f = f c q p := by
  unfold sum3
  rw [sumN_single hc (f := fun x => sumN Q fun y => sumN Q fun z => f x y z)]
  · rw [sumN_single hq (f := fun y => sumN Q fun z => f c y z)]
    · exact sumN_single hp fun z hz hne => h c q z hc hq hz (by simp [hne])
    · intro y hy hne
      exact sumN_eq_zero fun z hz => h c y z hc hy hz (by simp [hne])
  · intro x hx hne
    exact sumN_eq_zero fun y hy => sumN_eq_zero fun z hz => h x y z hx hy hz (by simp [hne])

/-- Fubini over the three flattened pair indices of a tensor product, for a separable summand. -/
theorem sum3_prod (C Q C' Q' : Nat) (f g : Nat → Nat → Nat → R) :
    sum3 (C * C') (Q * Q') (fun x y z => f (x / C') (y / Q') (z / Q') * g (x % C') (y % Q') (z % Q')) =
    sum3 C Q f * sum3 C' Q' g := by
  unfold sum3
  rw [sumN_divmod C C' (fun x0 x1 => sumN (Q * Q') fun y => sumN (Q * Q') fun z =>
        f x0 (y / Q') (z / Q') * g x1 (y % Q') (z % Q'))]
  rw [sumN_mul_sumN]
  refine sumN_congr fun x0 _ => sumN_congr fun x1 _ => ?_
  rw [sumN_divmod Q Q' (fun y0 y1 => sumN (Q * Q') fun z => f x0 y0 (z / Q') * g x1 y1 (z % Q'))]
  rw [sumN_mul_sumN]
  refine sumN_congr fun y0 _ => sumN_congr fun y1 _ => ?_
  rw [sumN_divmod Q Q' (fun z0 z1 => f x0 y0 z0 * g x1 y1 z1)]
  rw [sumN_mul_sumN]

/-! ### index arithmetic -/

theorem pair_lt {a A b B : Nat} (ha : a < A) (hb : b < B) : a * B + b < A * B := by
  calc a * B + b < a * B + B := by omega
    _ = (a + 1) * B := by rw [Nat.add_mul, Nat.one_mul]
    _ ≤ A * B := Nat.mul_le_mul_right B ha

theorem pair_div {a b B : Nat} (hb : b < B) : (a * B + b) / B = a := by
  have hB : 0 < B := by omega
  rw [Nat.mul_comm a B, Nat.mul_add_div hB, Nat.div_eq_of_lt hb, Nat.add_zero]

theorem pair_mod {a b B : Nat} (hb : b < B) : (a * B + b) % B = b := by
  rw [Nat.mul_comm a B, Nat.mul_add_mod, Nat.mod_eq_of_lt hb]

theorem div_lt_of_lt_mul' {x A B : Nat} (h : x < A * B) : x / B < A :=
  Nat.div_lt_of_lt_mul (by rwa [Nat.mul_comm] at h)

theorem mod_lt_of_lt_mul {x A B : Nat} (h : x < A * B) : x % B < B := by
  apply Nat.mod_lt
  rcases Nat.eq_zero_or_pos B with h0 | h0
  · subst h0; simp at h
  · exact h0

theorem eq_iff_divmod (x y B : Nat) : x = y ↔ x / B = y / B ∧ x % B = y % B := by
  constructor
  · rintro rfl; exact ⟨rfl, rfl⟩
  · rintro ⟨h1, h2⟩
    rw [← Nat.div_add_mod x B, ← Nat.div_add_mod y B, h1, h2]

theorem flat_lt {C Q c q p : Nat} (hc : c < C) (hq : q < Q) (hp : p < Q) :
    CQMap.flat Q c q p < C * Q * Q := pair_lt (pair_lt hc hq) hp

theorem flat_div2 {Q c q p : Nat} (hq : q < Q) (hp : p < Q) : CQMap.flat Q c q p / (Q * Q) = c := by
  unfold CQMap.flat
  rw [← Nat.div_div_eq_div_mul, pair_div hp, pair_div hq]

theorem flat_div1 {Q c q p : Nat} (hq : q < Q) (hp : p < Q) : CQMap.flat Q c q p / Q % Q = q := by
  unfold CQMap.flat
  rw [pair_div hp, pair_mod hq]

theorem flat_mod {Q c q p : Nat} (hp : p < Q) : CQMap.flat Q c q p % Q = p := by
  unfold CQMap.flat
  rw [pair_mod hp]

/-! ### types -/

theorem prodL_append (a b : List Nat) : prodL (a ++ b) = prodL a * prodL b := by
  induction a with
  | nil => simp [prodL]
  | cons x xs ih => simp [prodL, ih, Nat.mul_assoc]

@[simp] theorem CQTy.tensor_C (s t : CQTy) : (s.tensor t).C = s.C * t.C := prodL_append _ _
@[simp] theorem CQTy.tensor_Q (s t : CQTy) : (s.tensor t).Q = s.Q * t.Q := prodL_append _ _
@[simp] theorem CQTy.unit_C : CQTy.unit.C = 1 := rfl
@[simp] theorem CQTy.unit_Q : CQTy.unit.Q = 1 := rfl
@[simp] theorem CQTy.ofC_C (d : List Nat) : (CQTy.ofC d).C = prodL d := rfl
@[simp] theorem CQTy.ofC_Q (d : List Nat) : (CQTy.ofC d).Q = 1 := rfl
@[simp] theorem CQTy.ofQ_C (d : List Nat) : (CQTy.ofQ d).C = 1 := rfl
@[simp] theorem CQTy.ofQ_Q (d : List Nat) : (CQTy.ofQ d).Q = prodL d := rfl
theorem CQTy.tensor_assoc (a b c : CQTy) : (a.tensor b).tensor c = a.tensor (b.tensor c) := by
  simp [CQTy.tensor, List.append_assoc]
@[simp] theorem CQTy.unit_tensor (a : CQTy) : CQTy.unit.tensor a = a := by
  cases a; simp [CQTy.tensor, CQTy.unit]
@[simp] theorem CQTy.tensor_unit (a : CQTy) : a.tensor CQTy.unit = a := by
  cases a; simp [CQTy.tensor, CQTy.unit]

/-! ### observable equality: same type, same entries in range -/

/-- Two matrices with the same shape and the same entries (what the driver prints). -/
def Mat.Eqv (A B : Mat R) : Prop :=
  A.r = B.r ∧ A.c = B.c ∧ ∀ i j, i < A.r → j < A.c → A.f i j = B.f i j

/-- Two classical-quantum maps with the same type and the same entries. -/
def CQMap.Eqv (A B : CQMap R) : Prop :=
  A.dom = B.dom ∧ A.cod = B.cod ∧
  ∀ c q p c' q' p', c < A.dom.C → q < A.dom.Q → p < A.dom.Q →
    c' < A.cod.C → q' < A.cod.Q → p' < A.cod.Q → A.f c q p c' q' p' = B.f c q p c' q' p'

infix:50 " ≈ₘ " => Mat.Eqv
infix:50 " ≈ " => CQMap.Eqv

theorem Mat.Eqv.rfl' (A : Mat R) : A ≈ₘ A := ⟨rfl, rfl, fun _ _ _ _ => rfl⟩
theorem Mat.Eqv.symm {A B : Mat R} (h : A ≈ₘ B) : B ≈ₘ A :=
  ⟨h.1.symm, h.2.1.symm, fun i j hi hj => (h.2.2 i j (h.1 ▸ hi) (h.2.1 ▸ hj)).symm⟩
theorem Mat.Eqv.trans {A B C : Mat R} (h : A ≈ₘ B) (k : B ≈ₘ C) : A ≈ₘ C :=
  ⟨h.1.trans k.1, h.2.1.trans k.2.1, fun i j hi hj =>
    (h.2.2 i j hi hj).trans (k.2.2 i j (h.1 ▸ hi) (h.2.1 ▸ hj))⟩

theorem CQMap.Eqv.rfl' (A : CQMap R) : A ≈ A := ⟨rfl, rfl, fun _ _ _ _ _ _ _ _ _ _ _ _ => rfl⟩
theorem CQMap.Eqv.symm {A B : CQMap R} (h : A ≈ B) : B ≈ A :=
  ⟨h.1.symm, h.2.1.symm, fun c q p c' q' p' h1 h2 h3 h4 h5 h6 =>
    (h.2.2 c q p c' q' p' (h.1 ▸ h1) (h.1 ▸ h2) (h.1 ▸ h3) (h.2.1 ▸ h4) (h.2.1 ▸ h5) (h.2.1 ▸ h6)).symm⟩
theorem CQMap.Eqv.trans {A B C : CQMap R} (h : A ≈ B) (k : B ≈ C) : A ≈ C :=
  ⟨h.1.trans k.1, h.2.1.trans k.2.1, fun c q p c' q' p' h1 h2 h3 h4 h5 h6 =>
    (h.2.2 c q p c' q' p' h1 h2 h3 h4 h5 h6).trans
      (k.2.2 c q p c' q' p' (h.1 ▸ h1) (h.1 ▸ h2) (h.1 ▸ h3) (h.2.1 ▸ h4) (h.2.1 ▸ h5) (h.2.1 ▸ h6))⟩

/-! ### tabulation does not change a map -/

theorem table_getD {n k : Nat} (g : Nat → R) (d : R) (hk : k < n) : (table n g).getD k d = g k := by
  simp [table, Array.getD, hk]

theorem Mat.memo_f (A : Mat R) {i j : Nat} (hi : i < A.r) (hj : j < A.c) :
    A.memo.f i j = A.f i j := by
  show (table (A.r * A.c) fun k => A.f (k / A.c) (k % A.c)).getD (i * A.c + j) 0 = A.f i j
  rw [table_getD _ _ (pair_lt hi hj), pair_div hj, pair_mod hj]

theorem Mat.memo_eqv (A : Mat R) : A.memo ≈ₘ A := ⟨rfl, rfl, fun _ _ hi hj => A.memo_f hi hj⟩

@[simp] theorem CQMap.memo_dom (A : CQMap R) : A.memo.dom = A.dom := rfl
@[simp] theorem CQMap.memo_cod (A : CQMap R) : A.memo.cod = A.cod := rfl

theorem CQMap.memo_f (A : CQMap R) {c q p c' q' p' : Nat} (hc : c < A.dom.C) (hq : q < A.dom.Q)
    (hp : p < A.dom.Q) (hc' : c' < A.cod.C) (hq' : q' < A.cod.Q) (hp' : p' < A.cod.Q) :
    A.memo.f c q p c' q' p' = A.f c q p c' q' p' := by
  show A.toMat.memo.f (CQMap.flat A.dom.Q c q p) (CQMap.flat A.cod.Q c' q' p') = _
  rw [Mat.memo_f _ (flat_lt hc hq hp) (flat_lt hc' hq' hp')]
  show A.f _ _ _ _ _ _ = _
  rw [flat_div2 hq hp, flat_div1 hq hp, flat_mod hp, flat_div2 hq' hp', flat_div1 hq' hp', flat_mod hp']

theorem CQMap.memo_eqv (A : CQMap R) : A.memo ≈ A :=
  ⟨rfl, rfl, fun _ _ _ _ _ _ h1 h2 h3 h4 h5 h6 => A.memo_f h1 h2 h3 h4 h5 h6⟩

/-! ### the category of classical-quantum maps -/

namespace CQMap

@[simp] theorem comp_dom (A B : CQMap R) : (A.comp B).dom = A.dom := rfl
@[simp] theorem comp_cod (A B : CQMap R) : (A.comp B).cod = B.cod := rfl
@[simp] theorem tensor_dom (A B : CQMap R) : (A.tensor B).dom = A.dom.tensor B.dom := rfl
@[simp] theorem tensor_cod (A B : CQMap R) : (A.tensor B).cod = A.cod.tensor B.cod := rfl
@[simp] theorem dagger_dom (A : CQMap R) : A.dagger.dom = A.cod := rfl
@[simp] theorem dagger_cod (A : CQMap R) : A.dagger.cod = A.dom := rfl
@[simp] theorem id_dom (t : CQTy) : (CQMap.id t : CQMap R).dom = t := rfl
@[simp] theorem id_cod (t : CQTy) : (CQMap.id t : CQMap R).cod = t := rfl
@[simp] theorem discard_dom (t : CQTy) : (CQMap.discard t : CQMap R).dom = t := rfl
@[simp] theorem discard_cod (t : CQTy) : (CQMap.discard t : CQMap R).cod = .unit := rfl
@[simp] theorem pure_dom (d e : List Nat) (u : Mat R) : (CQMap.pure d e u).dom = .ofQ d := rfl
@[simp] theorem pure_cod (d e : List Nat) (u : Mat R) : (CQMap.pure d e u).cod = .ofQ e := rfl
@[simp] theorem ofMat_dom (d e : CQTy) (u : Mat R) : (CQMap.ofMat d e u).dom = d := rfl
@[simp] theorem ofMat_cod (d e : CQTy) (u : Mat R) : (CQMap.ofMat d e u).cod = e := rfl

theorem comp_f (A B : CQMap R) (c q p c' q' p' : Nat) :
    (A.comp B).f c q p c' q' p' =
      sum3 A.cod.C A.cod.Q fun x y z => A.f c q p x y z * B.f x y z c' q' p' := rfl

theorem tensor_f (A B : CQMap R) (c q p c' q' p' : Nat) :
    (A.tensor B).f c q p c' q' p' =
      A.f (c / B.dom.C) (q / B.dom.Q) (p / B.dom.Q) (c' / B.cod.C) (q' / B.cod.Q) (p' / B.cod.Q) *
      B.f (c % B.dom.C) (q % B.dom.Q) (p % B.dom.Q) (c' % B.cod.C) (q' % B.cod.Q) (p' % B.cod.Q) := rfl

theorem dagger_f (A : CQMap R) (c q p c' q' p' : Nat) :
    A.dagger.f c q p c' q' p' = star (A.f c' q' p' c q p) := rfl

theorem comp_congr {A A' B B' : CQMap R} (hA : A ≈ A') (hB : B ≈ B') (h : A.cod = B.dom) :
    A.comp B ≈ A'.comp B' := by
  refine ⟨hA.1, hB.2.1, ?_⟩
  intro c q p c' q' p' h1 h2 h3 h4 h5 h6
  rw [comp_f, comp_f, ← hA.2.1]
  refine sum3_congr fun x y z hx hy hz => ?_
  rw [hA.2.2 c q p x y z h1 h2 h3 hx hy hz,
    hB.2.2 x y z c' q' p' (h ▸ hx) (h ▸ hy) (h ▸ hz) h4 h5 h6]

theorem tensor_congr {A A' B B' : CQMap R} (hA : A ≈ A') (hB : B ≈ B') :
    A.tensor B ≈ A'.tensor B' := by
  refine ⟨by simp [hA.1, hB.1], by simp [hA.2.1, hB.2.1], ?_⟩
  intro c q p c' q' p' h1 h2 h3 h4 h5 h6
  simp only [tensor_dom, tensor_cod, CQTy.tensor_C, CQTy.tensor_Q] at h1 h2 h3 h4 h5 h6
  rw [tensor_f, tensor_f, ← hB.1, ← hB.2.1]
  rw [hA.2.2 _ _ _ _ _ _ (div_lt_of_lt_mul' h1) (div_lt_of_lt_mul' h2) (div_lt_of_lt_mul' h3)
        (div_lt_of_lt_mul' h4) (div_lt_of_lt_mul' h5) (div_lt_of_lt_mul' h6),
    hB.2.2 _ _ _ _ _ _ (mod_lt_of_lt_mul h1) (mod_lt_of_lt_mul h2) (mod_lt_of_lt_mul h3)
        (mod_lt_of_lt_mul h4) (mod_lt_of_lt_mul h5) (mod_lt_of_lt_mul h6)]

theorem dagger_congr {A A' : CQMap R} (hA : A ≈ A') : A.dagger ≈ A'.dagger :=
  ⟨hA.2.1, hA.1, fun c q p c' q' p' h1 h2 h3 h4 h5 h6 => by
    rw [dagger_f, dagger_f, hA.2.2 c' q' p' c q p h4 h5 h6 h1 h2 h3]⟩

theorem id_comp (A : CQMap R) : (CQMap.id A.dom).comp A ≈ A := by
  refine ⟨rfl, rfl, ?_⟩
  intro c q p c' q' p' h1 h2 h3 _ _ _
  rw [comp_f]
  show sum3 A.dom.C A.dom.Q _ = _
  rw [sum3_single (C := A.dom.C) (Q := A.dom.Q) h1 h2 h3]
  · show iv _ * _ = _
    simp
  · intro x y z _ _ _ hne
    show iv _ * _ = _
    rw [iv_neg (fun h => hne ⟨h.1.symm, h.2.1.symm, h.2.2.symm⟩), zero_mul]

theorem comp_id (A : CQMap R) : A.comp (CQMap.id A.cod) ≈ A := by
  refine ⟨rfl, rfl, ?_⟩
  intro c q p c' q' p' _ _ _ h4 h5 h6
  rw [comp_f, sum3_single (C := A.cod.C) (Q := A.cod.Q) h4 h5 h6]
  · show _ * iv _ = _
    simp
  · intro x y z _ _ _ hne
    show _ * iv _ = _
    rw [iv_neg hne, mul_zero]

/-- Composition is associative (no side condition: the sums range over the codomains). -/
theorem comp_assoc (A B C : CQMap R) : (A.comp B).comp C = A.comp (B.comp C) := by
  show CQMap.mk _ _ _ = CQMap.mk _ _ _
  congr 1
  funext c q p c' q' p'
  show sum3 B.cod.C B.cod.Q (fun x y z =>
      sum3 A.cod.C A.cod.Q (fun x' y' z' => A.f c q p x' y' z' * B.f x' y' z' x y z) * C.f x y z c' q' p')
    = sum3 A.cod.C A.cod.Q (fun x' y' z' => A.f c q p x' y' z' *
        sum3 B.cod.C B.cod.Q (fun x y z => B.f x' y' z' x y z * C.f x y z c' q' p'))
  simp only [sum3_mul, mul_sum3]
  rw [sum3_comm]
  refine sum3_congr fun _ _ _ _ _ _ => sum3_congr fun _ _ _ _ _ _ => ?_
  ring

/-- The interchange law of `⊗` and `≫` (mixed-product property of the block-wise Kronecker
    product); only the inner types of the right factors have to agree. -/
theorem interchange (A A' B B' : CQMap R) (h : B.cod = B'.dom) :
    (A.tensor B).comp (A'.tensor B') = (A.comp A').tensor (B.comp B') := by
  show CQMap.mk _ _ _ = CQMap.mk _ _ _
  congr 1
  funext c q p c' q' p'
  simp only [tensor_cod, CQTy.tensor_C, CQTy.tensor_Q, tensor_f, comp_dom, comp_cod, comp_f, ← h]
  rw [← sum3_prod]
  refine sum3_congr fun _ _ _ _ _ _ => ?_
  ring

theorem dagger_dagger (A : CQMap R) : A.dagger.dagger = A := by
  cases A with | mk d c f =>
  show CQMap.mk _ _ _ = CQMap.mk _ _ _
  congr 1
  funext c q p c' q' p'
  show star (star _) = _
  rw [star_star]

/-- `(A ≫ B)† = B† ≫ A†`. -/
theorem dagger_comp (A B : CQMap R) (h : A.cod = B.dom) :
    (A.comp B).dagger = B.dagger.comp A.dagger := by
  show CQMap.mk _ _ _ = CQMap.mk _ _ _
  congr 1
  funext c q p c' q' p'
  show star (sum3 _ _ _) = sum3 B.dom.C B.dom.Q _
  rw [star_sum3, h]
  refine sum3_congr fun _ _ _ _ _ _ => ?_
  show star (_ * _) = star _ * star _
  rw [star_mul', mul_comm]

/-- `(A ⊗ B)† = A† ⊗ B†`. -/
theorem dagger_tensor (A B : CQMap R) : (A.tensor B).dagger = A.dagger.tensor B.dagger := by
  show CQMap.mk _ _ _ = CQMap.mk _ _ _
  congr 1
  funext c q p c' q' p'
  exact star_mul' _ _

theorem dagger_id (t : CQTy) : (CQMap.id t : CQMap R).dagger = CQMap.id t := by
  show CQMap.mk _ _ _ = CQMap.mk _ _ _
  congr 1
  funext c q p c' q' p'
  show star (iv _) = iv _
  rw [star_iv]
  exact iv_congr ⟨fun h => ⟨h.1.symm, h.2.1.symm, h.2.2.symm⟩, fun h => ⟨h.1.symm, h.2.1.symm, h.2.2.symm⟩⟩

end CQMap

/-! ### `CQMap.tensor` is the Kronecker product between the two block permutations -/

namespace CQMap

theorem toMat_f (A : CQMap R) {c q p c' q' p' : Nat} (hq : q < A.dom.Q) (hp : p < A.dom.Q)
    (hq' : q' < A.cod.Q) (hp' : p' < A.cod.Q) :
    A.toMat.f (flat A.dom.Q c q p) (flat A.cod.Q c' q' p') = A.f c q p c' q' p' := by
  show A.f _ _ _ _ _ _ = _
  rw [flat_div2 hq hp, flat_div1 hq hp, flat_mod hp, flat_div2 hq' hp', flat_div1 hq' hp', flat_mod hp']

/-- **cq_tensor_blocks**.  Reading `A ⊗ B` (cqmap.py:163-186) at the index
    `[c₀ c₁ | q₀ q₁ | q₀' q₁']` (each block flattened on its own) is reading the Kronecker product
    of the underlying tensors at `[c₀ q₀ q₀' | c₁ q₁ q₁']` — on the domain and on the codomain. -/
theorem tensor_blocks (A B : CQMap R) {c0 q0 p0 c1 q1 p1 c0' q0' p0' c1' q1' p1' : Nat}
    (hq0 : q0 < A.dom.Q) (hp0 : p0 < A.dom.Q) (hc1 : c1 < B.dom.C) (hq1 : q1 < B.dom.Q)
    (hp1 : p1 < B.dom.Q) (hq0' : q0' < A.cod.Q) (hp0' : p0' < A.cod.Q) (hc1' : c1' < B.cod.C)
    (hq1' : q1' < B.cod.Q) (hp1' : p1' < B.cod.Q) :
    (A.tensor B).f (c0 * B.dom.C + c1) (q0 * B.dom.Q + q1) (p0 * B.dom.Q + p1)
        (c0' * B.cod.C + c1') (q0' * B.cod.Q + q1') (p0' * B.cod.Q + p1') =
      (A.toMat.kron B.toMat).f
        (flat A.dom.Q c0 q0 p0 * B.dom.size + flat B.dom.Q c1 q1 p1)
        (flat A.cod.Q c0' q0' p0' * B.cod.size + flat B.cod.Q c1' q1' p1') := by
  have hB : flat B.dom.Q c1 q1 p1 < B.dom.size := flat_lt hc1 hq1 hp1
  have hB' : flat B.cod.Q c1' q1' p1' < B.cod.size := flat_lt hc1' hq1' hp1'
  rw [tensor_f]
  show _ = A.toMat.f (_ / B.dom.size) (_ / B.cod.size) * B.toMat.f (_ % B.dom.size) (_ % B.cod.size)
  rw [pair_div hB, pair_div hB', pair_mod hB, pair_mod hB', toMat_f A hq0 hp0 hq0' hp0',
    toMat_f B hq1 hp1 hq1' hp1', pair_div hc1, pair_div hq1, pair_div hp1, pair_div hc1',
    pair_div hq1', pair_div hp1', pair_mod hc1, pair_mod hq1, pair_mod hp1, pair_mod hc1',
    pair_mod hq1', pair_mod hp1']

end CQMap

/-! ### doubling -/

namespace CQMap

/-- **pure_then**: doubling is functorial, `pure (u ≫ v) = pure u ≫ pure v`. -/
theorem pure_comp (d m e : List Nat) (u v : Mat R) (h : u.c = prodL m) :
    CQMap.pure d e (u.comp v) = (CQMap.pure d m u).comp (CQMap.pure m e v) := by
  show CQMap.mk _ _ _ = CQMap.mk _ _ _
  congr 1
  funext c q p c' q' p'
  show star (sumN u.c fun j => u.f q j * v.f j q') * (sumN u.c fun k => u.f p k * v.f k p') =
    sum3 1 (prodL m) fun x y z => (star (u.f q y) * u.f p z) * (star (v.f y q') * v.f z p')
  rw [star_sumN, sumN_mul_sumN, h]
  unfold sum3
  simp only [sumN_succ, sumN_zero_n, zero_add]
  refine sumN_congr fun y _ => sumN_congr fun z _ => ?_
  rw [star_mul']
  ring

/-- **pure_tensor**: doubling is monoidal; the block permutation of `CQMap.tensor` is exactly
    what turns `(ū ⊗ u) ⊗ (v̄ ⊗ v)` into the doubled `u ⊗ v`. -/
theorem pure_tensor (d e d' e' : List Nat) (u v : Mat R) (hr : v.r = prodL d') (hc : v.c = prodL e') :
    CQMap.pure (d ++ d') (e ++ e') (u.kron v) = (CQMap.pure d e u).tensor (CQMap.pure d' e' v) := by
  show CQMap.mk _ _ _ = CQMap.mk _ _ _
  congr 1
  funext c q p c' q' p'
  show star (u.f (q / v.r) (q' / v.c) * v.f (q % v.r) (q' % v.c)) *
      (u.f (p / v.r) (p' / v.c) * v.f (p % v.r) (p' % v.c)) =
    (star (u.f (q / prodL d') (q' / prodL e')) * u.f (p / prodL d') (p' / prodL e')) *
      (star (v.f (q % prodL d') (q' % prodL e')) * v.f (p % prodL d') (p' % prodL e'))
  rw [hr, hc, star_mul']
  ring

/-! ### measurement -/

@[simp] theorem measure1_dom (d : Nat) (b : Bool) : (measure1 d b : CQMap R).dom = .ofQ [d] := by
  cases b <;> rfl
theorem measure1_cod (d : Nat) (b : Bool) :
    (measure1 d b : CQMap R).cod = if b then .ofC [d] else ⟨[d], [d]⟩ := by
  cases b <;> rfl

@[simp] theorem measure_dom (ds : List Nat) (b : Bool) : (measure ds b : CQMap R).dom = .ofQ ds := by
  induction ds with
  | nil => rfl
  | cons d ds ih =>
    cases ds with
    | nil => simp [measure]
    | cons d' ds => simp [measure, ih, CQTy.tensor, CQTy.ofQ]

theorem measure_cod (ds : List Nat) (b : Bool) :
    (measure ds b : CQMap R).cod = if b then .ofC ds else ⟨ds, ds⟩ := by
  induction ds with
  | nil => cases b <;> rfl
  | cons d ds ih =>
    cases ds with
    | nil => simp [measure, measure1_cod]
    | cons d' ds => cases b <;> simp_all [measure, measure1_cod, CQTy.tensor, CQTy.ofC]

theorem measure_cod_C (ds : List Nat) (b : Bool) : (measure ds b : CQMap R).cod.C = prodL ds := by
  rw [measure_cod]; cases b <;> rfl

theorem measure_cod_Q (ds : List Nat) (b : Bool) :
    (measure ds b : CQMap R).cod.Q = if b then 1 else prodL ds := by
  rw [measure_cod]; cases b <;> rfl

/-- The multi-wire destructive measurement is the measurement of the flattened index. -/
theorem measure_flat_destructive (ds : List Nat) {q p k : Nat} (c q' p' : Nat)
    (hq : q < prodL ds) (hp : p < prodL ds) (hk : k < prodL ds) :
    (measure ds true : CQMap R).f c q p k q' p' = iv (q = p ∧ p = k) := by
  induction ds generalizing q p k c q' p' with
  | nil =>
    simp only [prodL, Nat.lt_one_iff] at hq hp hk
    subst hq hp hk
    show (1 : R) = iv _
    simp
  | cons d ds ih =>
    cases ds with
    | nil => rfl
    | cons d' ds =>
      show (measure1 d true : CQMap R).f _ _ _ _ _ _ * (measure (d' :: ds) true : CQMap R).f _ _ _ _ _ _ = _
      rw [measure_dom, measure_cod_C]
      simp only [CQTy.ofQ_Q]
      have hN : prodL (d :: d' :: ds) = d * prodL (d' :: ds) := rfl
      rw [hN] at hq hp hk
      rw [ih _ _ _ (mod_lt_of_lt_mul hq) (mod_lt_of_lt_mul hp) (mod_lt_of_lt_mul hk)]
      show iv (_ ∧ _) * _ = _
      rw [← iv_and]
      apply iv_congr
      rw [eq_iff_divmod q p (prodL (d' :: ds)), eq_iff_divmod p k (prodL (d' :: ds))]
      tauto

/-- The multi-wire non-destructive measurement, likewise. -/
theorem measure_flat_nondestructive (ds : List Nat) {q p k l m : Nat} (c : Nat)
    (hq : q < prodL ds) (hp : p < prodL ds) (hk : k < prodL ds) (hl : l < prodL ds)
    (hm : m < prodL ds) :
    (measure ds false : CQMap R).f c q p k l m = iv (q = p ∧ p = k ∧ k = l ∧ l = m) := by
  induction ds generalizing q p k l m c with
  | nil =>
    simp only [prodL, Nat.lt_one_iff] at hq hp hk hl hm
    subst hq hp hk hl hm
    show (1 : R) = iv _
    simp
  | cons d ds ih =>
    cases ds with
    | nil => rfl
    | cons d' ds =>
      show (measure1 d false : CQMap R).f _ _ _ _ _ _ * (measure (d' :: ds) false : CQMap R).f _ _ _ _ _ _ = _
      rw [measure_dom, measure_cod_C, measure_cod_Q]
      simp only [CQTy.ofQ_Q, Bool.false_eq_true, if_false]
      have hN : prodL (d :: d' :: ds) = d * prodL (d' :: ds) := rfl
      rw [hN] at hq hp hk hl hm
      rw [ih _ (mod_lt_of_lt_mul hq) (mod_lt_of_lt_mul hp) (mod_lt_of_lt_mul hk)
        (mod_lt_of_lt_mul hl) (mod_lt_of_lt_mul hm)]
      show iv (_ ∧ _ ∧ _ ∧ _) * _ = _
      rw [← iv_and]
      apply iv_congr
      rw [eq_iff_divmod q p (prodL (d' :: ds)), eq_iff_divmod p k (prodL (d' :: ds)),
        eq_iff_divmod k l (prodL (d' :: ds)), eq_iff_divmod l m (prodL (d' :: ds))]
      tauto

end CQMap

/-! ### Born rule, discarding, unitarity -/

theorem sumN_divmod' (a b : Nat) (g : Nat → R) :
    sumN (a * b) g = sumN a (fun i => sumN b (fun j => g (i * b + j))) := by
  rw [← sumN_divmod a b (fun i j => g (i * b + j))]
  refine sumN_congr fun k _ => ?_
  rw [Nat.div_add_mod']

/-- A sum over the index of a tensor product type, split into its two factors. -/
theorem sum3_split (C Q C' Q' : Nat) (g : Nat → Nat → Nat → R) :
    sum3 (C * C') (Q * Q') g =
      sum3 C Q fun x y z => sum3 C' Q' fun x' y' z' => g (x * C' + x') (y * Q' + y') (z * Q' + z') := by
  unfold sum3
  rw [sumN_divmod']
  refine sumN_congr fun x0 _ => ?_
  calc sumN C' (fun x1 => sumN (Q * Q') fun y => sumN (Q * Q') fun z => g (x0 * C' + x1) y z)
      = sumN C' (fun x1 => sumN Q fun y0 => sumN Q' fun y1 => sumN Q fun z0 => sumN Q' fun z1 =>
          g (x0 * C' + x1) (y0 * Q' + y1) (z0 * Q' + z1)) := by
        refine sumN_congr fun x1 _ => ?_
        rw [sumN_divmod']
        refine sumN_congr fun y0 _ => sumN_congr fun y1 _ => ?_
        rw [sumN_divmod']
    _ = sumN Q (fun y0 => sumN C' fun x1 => sumN Q' fun y1 => sumN Q fun z0 => sumN Q' fun z1 =>
          g (x0 * C' + x1) (y0 * Q' + y1) (z0 * Q' + z1)) := sumN_comm _ _ _
    _ = sumN Q (fun y0 => sumN C' fun x1 => sumN Q fun z0 => sumN Q' fun y1 => sumN Q' fun z1 =>
          g (x0 * C' + x1) (y0 * Q' + y1) (z0 * Q' + z1)) := by
        refine sumN_congr fun y0 _ => sumN_congr fun x1 _ => ?_
        exact sumN_comm _ _ _
    _ = sumN Q (fun y0 => sumN Q fun z0 => sumN C' fun x1 => sumN Q' fun y1 => sumN Q' fun z1 =>
          g (x0 * C' + x1) (y0 * Q' + y1) (z0 * Q' + z1)) := by
        refine sumN_congr fun y0 _ => ?_
        exact sumN_comm _ _ _

namespace CQMap

theorem pure_f (d e : List Nat) (u : Mat R) (c q p c' q' p' : Nat) :
    (CQMap.pure d e u).f c q p c' q' p' = star (u.f q q') * u.f p p' := rfl

theorem discard_f (t : CQTy) (c q p c' q' p' : Nat) :
    (CQMap.discard t : CQMap R).f c q p c' q' p' = iv (q = p) := rfl

/-- **measure_pure** (Born rule): measuring after a pure map reads the squared magnitudes — for a
    state `ψ` (`d = []`, `q = p = 0`) the outcome `k` has weight `ψ̄ₖ ψₖ`. -/
theorem born (d e : List Nat) (u : Mat R) {k : Nat} (hk : k < prodL e) (c q p q' p' : Nat) :
    ((CQMap.pure d e u).comp (measure e true)).f c q p k q' p' = star (u.f q k) * u.f p k := by
  rw [comp_f]
  show sum3 1 (prodL e) (fun x y z => (star (u.f q y) * u.f p z) * (measure e true).f x y z k q' p') = _
  rw [sum3_congr (g := fun x y z => (star (u.f q y) * u.f p z) * iv (y = z ∧ z = k))
    (fun x y z _ hy hz => by rw [measure_flat_destructive e x q' p' hy hz hk])]
  rw [sum3_single (c := 0) (q := k) (p := k) (by omega) hk hk]
  · simp
  · intro x y z hx _ _ hne
    rw [iv_neg, mul_zero]
    rintro ⟨rfl, rfl⟩
    exact hne ⟨by omega, rfl, rfl⟩

/-- The non-destructive variant: the outcome and the collapsed copy. -/
theorem born_nondestructive (d e : List Nat) (u : Mat R) {k l m : Nat} (hk : k < prodL e)
    (hl : l < prodL e) (hm : m < prodL e) (c q p : Nat) :
    ((CQMap.pure d e u).comp (measure e false)).f c q p k l m =
      iv (k = l ∧ l = m) * (star (u.f q k) * u.f p k) := by
  rw [comp_f]
  show sum3 1 (prodL e) (fun x y z => (star (u.f q y) * u.f p z) * (measure e false).f x y z k l m) = _
  rw [sum3_congr (g := fun x y z => (star (u.f q y) * u.f p z) * iv (y = z ∧ z = k ∧ k = l ∧ l = m))
    (fun x y z _ hy hz => by rw [measure_flat_nondestructive e x hy hz hk hl hm])]
  rw [sum3_single (c := 0) (q := k) (p := k) (by omega) hk hk]
  · by_cases h : k = l ∧ l = m
    · rw [iv_pos h, iv_pos ⟨rfl, rfl, h.1, h.2⟩]; ring
    · rw [iv_neg h, iv_neg (fun h' => h ⟨h'.2.2.1, h'.2.2.2⟩)]; ring
  · intro x y z hx _ _ hne
    rw [iv_neg, mul_zero]
    rintro ⟨rfl, rfl, _⟩
    exact hne ⟨by omega, rfl, rfl⟩

/-- **discard_pure**: discarding after a pure map takes the trace: `Σₖ ūₖ uₖ` (for a state,
    `Σ |ψₖ|²`). -/
theorem discard_pure (d e : List Nat) (u : Mat R) (c q p c' q' p' : Nat) :
    ((CQMap.pure d e u).comp (CQMap.discard (.ofQ e))).f c q p c' q' p' =
      sumN (prodL e) fun k => star (u.f q k) * u.f p k := by
  rw [comp_f]
  show sum3 1 (prodL e) (fun x y z => (star (u.f q y) * u.f p z) * iv (y = z)) = _
  unfold sum3
  simp only [sumN_succ, sumN_zero_n, zero_add]
  refine sumN_congr fun y hy => ?_
  rw [sumN_single hy]
  · simp
  · intro z _ hne
    rw [iv_neg (fun h => hne h.symm), mul_zero]

/-- An isometry in the index convention of tensor.py (`array[input, output]`): `u ≫ u† = 1`. -/
def _root_.DV.CQ.Mat.Isometry (u : Mat R) : Prop := u.comp u.dagger ≈ₘ Mat.id u.r

/-- **discard_unitary**: pure isometries (unitaries, state preparations) are trace preserving:
    `pure U ≫ discard = discard`. -/
theorem discard_isometry (d e : List Nat) (u : Mat R) (hr : u.r = prodL d) (hc : u.c = prodL e)
    (hu : u.Isometry) :
    (CQMap.pure d e u).comp (CQMap.discard (.ofQ e)) ≈ CQMap.discard (.ofQ d) := by
  refine ⟨rfl, rfl, ?_⟩
  intro c q p c' q' p' _ hq hp _ _ _
  rw [discard_pure, discard_f]
  have hq : q < u.r := by rw [hr]; exact hq
  have hp : p < u.r := by rw [hr]; exact hp
  have h := hu.2.2 p q hp hq
  have e1 : (u.comp u.dagger).f p q = sumN u.c fun k => u.f p k * star (u.f q k) := rfl
  have e2 : (Mat.id u.r : Mat R).f p q = iv (p = q) := rfl
  rw [e1, e2, hc] at h
  rw [iv_congr (q := p = q) eq_comm, ← h]
  exact sumN_congr fun k _ => mul_comm _ _

/-- **Discarding gives marginals**: discarding the right factor `B` of a map into `A ⊗ B` sums
    the classical index of `B` and traces its quantum index, leaving the `A` index alone. -/
theorem discard_marginal (ρ : CQMap R) (A B : CQTy) (h : ρ.cod = A.tensor B) {ca qa pa : Nat}
    (hc : ca < A.C) (hq : qa < A.Q) (hp : pa < A.Q) (c q p : Nat) :
    (ρ.comp ((CQMap.id A).tensor (CQMap.discard B))).f c q p ca qa pa =
      sum3 B.C B.Q fun x y z =>
        ρ.f c q p (ca * B.C + x) (qa * B.Q + y) (pa * B.Q + z) * iv (y = z) := by
  rw [comp_f, h]
  simp only [CQTy.tensor_C, CQTy.tensor_Q]
  rw [sum3_split, sum3_single hc hq hp]
  · refine sum3_congr fun x y z hx hy hz => ?_
    rw [tensor_f]
    show _ * (iv (_ ∧ _ ∧ _) * iv _) = _
    simp only [discard_dom, discard_cod, CQTy.unit_C, CQTy.unit_Q, Nat.div_one,
      pair_div hx, pair_div hy, pair_div hz, pair_mod hy, pair_mod hz]
    simp
  · intro x y z _ _ _ hne
    refine sum3_eq_zero fun x' y' z' hx' hy' hz' => ?_
    rw [tensor_f]
    show _ * (iv (_ ∧ _ ∧ _) * iv _) = _
    simp only [discard_dom, discard_cod, CQTy.unit_C, CQTy.unit_Q, Nat.div_one,
      pair_div hx', pair_div hy', pair_div hz', iv_neg hne]
    ring

/-! ### trace preservation -/

/-- Trace preservation (causality): `A ≫ discard = discard`. -/
def TP (A : CQMap R) : Prop := A.comp (CQMap.discard A.cod) ≈ CQMap.discard A.dom

theorem TP_iff (A : CQMap R) : A.TP ↔ ∀ c q p, c < A.dom.C → q < A.dom.Q → p < A.dom.Q →
    sum3 A.cod.C A.cod.Q (fun x y z => A.f c q p x y z * iv (y = z)) = iv (q = p) := by
  constructor
  · intro h c q p hc hq hp
    exact h.2.2 c q p 0 0 0 hc hq hp (by simp) (by simp) (by simp)
  · intro h
    exact ⟨rfl, rfl, fun c q p _ _ _ hc hq hp _ _ _ => h c q p hc hq hp⟩

theorem TP_congr {A B : CQMap R} (h : A ≈ B) (hA : A.TP) : B.TP := by
  rw [TP_iff] at hA ⊢
  intro c q p hc hq hp
  rw [← h.1] at hc hq hp
  rw [← hA c q p hc hq hp, ← h.2.1]
  exact sum3_congr fun x y z hx hy hz => by rw [h.2.2 c q p x y z hc hq hp hx hy hz]

theorem TP_memo {A : CQMap R} (hA : A.TP) : A.memo.TP := TP_congr A.memo_eqv.symm hA

theorem TP_id (t : CQTy) : (CQMap.id t : CQMap R).TP := by
  rw [TP_iff]
  intro c q p hc hq hp
  show sum3 t.C t.Q _ = _
  rw [sum3_single (C := t.C) (Q := t.Q) hc hq hp]
  · show iv _ * _ = _
    simp
  · intro x y z _ _ _ hne
    show iv _ * _ = _
    rw [iv_neg (fun h => hne ⟨h.1.symm, h.2.1.symm, h.2.2.symm⟩), zero_mul]

/-- The scalar 1 (the doubled value of a phase) is trace-preserving. -/
theorem TP_scalar_one : (CQMap.scalar 1 : CQMap R).TP := by
  rw [TP_iff]
  intro c q p _ hq hp
  have hq : q < 1 := hq
  have hp : p < 1 := hp
  obtain rfl : q = 0 := by omega
  obtain rfl : p = 0 := by omega
  show sum3 1 1 (fun x y z => (1 : R) * iv (y = z)) = _
  simp [sum3, sumN_succ]

theorem TP_discard (t : CQTy) : (CQMap.discard t : CQMap R).TP := by
  rw [TP_iff]
  intro c q p _ _ _
  show sum3 1 1 (fun x y z => iv (q = p) * iv (y = z)) = _
  simp [sum3, sumN_succ]

/-- Sequential composition of trace-preserving maps. -/
theorem TP_comp {A B : CQMap R} (h : A.cod = B.dom) (hA : A.TP) (hB : B.TP) : (A.comp B).TP := by
  rw [TP_iff] at hA hB ⊢
  intro c q p hc hq hp
  show sum3 B.cod.C B.cod.Q (fun x y z =>
    sum3 A.cod.C A.cod.Q (fun x' y' z' => A.f c q p x' y' z' * B.f x' y' z' x y z) * iv (y = z)) = _
  simp only [sum3_mul]
  rw [sum3_comm, ← hA c q p hc hq hp]
  refine sum3_congr fun x' y' z' hx hy hz => ?_
  rw [← hB x' y' z' (h ▸ hx) (h ▸ hy) (h ▸ hz), mul_sum3]
  exact sum3_congr fun _ _ _ _ _ _ => by ring

/-- Parallel composition of trace-preserving maps. -/
theorem TP_tensor {A B : CQMap R} (hA : A.TP) (hB : B.TP) : (A.tensor B).TP := by
  rw [TP_iff] at hA hB ⊢
  intro c q p hc hq hp
  simp only [tensor_dom, tensor_cod, CQTy.tensor_C, CQTy.tensor_Q] at hc hq hp ⊢
  rw [sum3_congr (g := fun x y z =>
      (A.f (c / B.dom.C) (q / B.dom.Q) (p / B.dom.Q) (x / B.cod.C) (y / B.cod.Q) (z / B.cod.Q) *
        iv (y / B.cod.Q = z / B.cod.Q)) *
      (B.f (c % B.dom.C) (q % B.dom.Q) (p % B.dom.Q) (x % B.cod.C) (y % B.cod.Q) (z % B.cod.Q) *
        iv (y % B.cod.Q = z % B.cod.Q)))
    (fun x y z _ _ _ => by
      rw [tensor_f, iv_congr (eq_iff_divmod y z B.cod.Q), iv_and]; ring)]
  rw [sum3_prod A.cod.C A.cod.Q B.cod.C B.cod.Q
      (fun x y z => A.f (c / B.dom.C) (q / B.dom.Q) (p / B.dom.Q) x y z * iv (y = z))
      (fun x y z => B.f (c % B.dom.C) (q % B.dom.Q) (p % B.dom.Q) x y z * iv (y = z)),
    hA _ _ _ (div_lt_of_lt_mul' hc) (div_lt_of_lt_mul' hq) (div_lt_of_lt_mul' hp),
    hB _ _ _ (mod_lt_of_lt_mul hc) (mod_lt_of_lt_mul hq) (mod_lt_of_lt_mul hp),
    ← iv_and]
  exact iv_congr (eq_iff_divmod q p B.dom.Q).symm

/-- Pure isometries — unitaries and state preparations — are trace preserving. -/
theorem TP_pure (d e : List Nat) (u : Mat R) (hr : u.r = prodL d) (hc : u.c = prodL e)
    (hu : u.Isometry) : (CQMap.pure d e u).TP := discard_isometry d e u hr hc hu

/-- Measurements, destructive or not, are trace preserving. -/
theorem TP_measure (ds : List Nat) (b : Bool) : (measure ds b : CQMap R).TP := by
  rw [TP_iff]
  intro c q p _ hq hp
  simp only [measure_dom, CQTy.ofQ_Q] at hq hp
  rw [measure_cod_C, measure_cod_Q]
  cases b with
  | true =>
    simp only [if_true]
    rw [sum3_congr (g := fun x y z => iv (q = p ∧ p = x) * iv (y = z))
      (fun x y z hx _ _ => by rw [measure_flat_destructive ds c y z hq hp hx])]
    rw [sum3_single (c := p) (q := 0) (p := 0) hp (by omega) (by omega)]
    · simp
    · intro x y z _ hy hz hne
      rw [iv_neg, zero_mul]
      rintro ⟨_, rfl⟩
      exact hne ⟨rfl, by omega, by omega⟩
  | false =>
    simp only [Bool.false_eq_true, if_false]
    rw [sum3_congr (g := fun x y z => iv (q = p ∧ p = x ∧ x = y ∧ y = z) * iv (y = z))
      (fun x y z hx hy hz => by rw [measure_flat_nondestructive ds c hq hp hx hy hz])]
    rw [sum3_single (c := p) (q := p) (p := p) hp hp hp]
    · simp
    · intro x y z _ _ _ hne
      rw [iv_neg, zero_mul]
      rintro ⟨_, rfl, rfl, rfl⟩
      exact hne ⟨rfl, rfl, rfl⟩

/-- A classical gate whose rows (`array[input, ·]`) sum to one — a stochastic map — is trace
    preserving. -/
theorem TP_classical (d e : CQTy) (u : Mat R) (hd : d.Q = 1) (he : e.Q = 1)
    (hu : ∀ i, i < d.C → sumN e.C (fun j => u.f i j) = 1) : (CQMap.ofMat d e u).TP := by
  rw [TP_iff]
  intro c q p hc hq hp
  simp only [ofMat_dom, ofMat_cod, hd, he, Nat.lt_one_iff] at hc hq hp ⊢
  subst hq hp
  show sum3 e.C 1 (fun x y z => u.f (flat d.Q c 0 0) (flat e.Q x y z) * iv (y = z)) = _
  simp only [sum3, sumN_succ, sumN_zero_n, zero_add, hd, he, flat]
  simp only [Nat.mul_one, Nat.add_zero]
  simp only [iv_pos trivial, mul_one]
  exact hu c hc

theorem swap_f_eq {a b i : Nat} (hi : i < a * b) (j : Nat) :
    (Mat.swap a b : Mat R).f i j = iv (j = (i % b) * a + i / b) := by
  show iv _ = iv _
  apply iv_congr
  have ha : i / b < a := div_lt_of_lt_mul' hi
  constructor
  · rintro ⟨h1, h2⟩
    rw [h1, h2, Nat.div_add_mod']
  · rintro rfl
    rw [pair_mod ha, pair_div ha]
    exact ⟨rfl, rfl⟩

theorem swap_perm_inj {a b i j : Nat} (hi : i < a * b) (hj : j < a * b)
    (h : (i % b) * a + i / b = (j % b) * a + j / b) : i = j := by
  have h1 := congrArg (· / a) h
  have h2 := congrArg (· % a) h
  simp only [pair_div (div_lt_of_lt_mul' hi), pair_div (div_lt_of_lt_mul' hj),
    pair_mod (div_lt_of_lt_mul' hi), pair_mod (div_lt_of_lt_mul' hj)] at h1 h2
  exact (eq_iff_divmod i j b).mpr ⟨h2, h1⟩

/-- Swaps of classical-quantum types are trace preserving. -/
theorem TP_swap (l r : CQTy) : (CQMap.swap l r : CQMap R).TP := by
  rw [TP_iff]
  intro c q p hc hq hp
  have hc : c < (l.tensor r).C := hc
  have hq : q < (l.tensor r).Q := hq
  have hp : p < (l.tensor r).Q := hp
  show sum3 (r.tensor l).C (r.tensor l).Q _ = _
  simp only [CQTy.tensor_C, CQTy.tensor_Q] at hc hq hp ⊢
  have bound : ∀ {a b i : Nat}, i < a * b → (i % b) * a + i / b < b * a := fun h =>
    pair_lt (mod_lt_of_lt_mul h) (div_lt_of_lt_mul' h)
  rw [sum3_congr (g := fun x y z =>
      (iv (x = (c % r.C) * l.C + c / r.C) * iv (y = (q % r.Q) * l.Q + q / r.Q) *
        iv (z = (p % r.Q) * l.Q + p / r.Q)) * iv (y = z))
    (fun x y z _ _ _ => by
      show (Mat.swap l.C r.C).f c x * (Mat.swap l.Q r.Q).f q y * (Mat.swap l.Q r.Q).f p z * _ = _
      rw [swap_f_eq hc, swap_f_eq hq, swap_f_eq hp])]
  rw [sum3_single (bound hc) (bound hq) (bound hp)]
  · simp only [iv_pos, one_mul]
    apply iv_congr
    exact ⟨fun h => swap_perm_inj hq hp h, fun h => by rw [h]⟩
  · intro x y z _ _ _ hne
    by_cases hx : x = (c % r.C) * l.C + c / r.C
    · by_cases hy : y = (q % r.Q) * l.Q + q / r.Q
      · by_cases hz : z = (p % r.Q) * l.Q + p / r.Q
        · exact absurd ⟨hx, hy, hz⟩ hne
        · rw [iv_neg hz]; ring
      · rw [iv_neg hy]; ring
    · rw [iv_neg hx]; ring

theorem dagger_pure (d e : List Nat) (u : Mat R) :
    (CQMap.pure d e u).dagger = CQMap.pure e d u.dagger := by
  show CQMap.mk _ _ _ = CQMap.mk _ _ _
  congr 1
  funext c q p c' q' p'
  show star (star (u.f q' q) * u.f p' p) = star (star (u.f q' q)) * star (u.f p' p)
  rw [star_mul', star_star]

end CQMap

/-! ### the functor on types and boxes -/

theorem F_append (s t : WTy) : F (s ++ t) = (F s).tensor (F t) := by
  induction s with
  | nil => simp [F]
  | cons w ws ih => simp [F, ih, CQTy.tensor_assoc]

theorem F_qubits (n : Nat) : F (qubits n) = .ofQ (List.replicate n 2) := by
  induction n with
  | zero => rfl
  | succ n ih =>
    show F (Wire.qubit 2 :: qubits n) = _
    simp [F, ih, CQTy.tensor, CQTy.ofQ, Wire.cdim, Wire.qdim, List.replicate_succ]

theorem F_bits (n : Nat) : F (bits n) = .ofC (List.replicate n 2) := by
  induction n with
  | zero => rfl
  | succ n ih =>
    show F (Wire.bit 2 :: bits n) = _
    simp [F, ih, CQTy.tensor, CQTy.ofC, Wire.cdim, Wire.qdim, List.replicate_succ]

theorem F_measureDom (n : Nat) (o : Bool) :
    F (CBox.measureDom n o) = ⟨if o then List.replicate n 2 else [], List.replicate n 2⟩ := by
  cases o <;> simp [CBox.measureDom, F_append, F_qubits, F_bits, CQTy.tensor, CQTy.ofQ, CQTy.ofC]

theorem F_measureCod (n : Nat) (d : Bool) :
    F (CBox.measureCod n d) = if d then .ofC (List.replicate n 2)
      else ⟨List.replicate n 2, List.replicate n 2⟩ := by
  cases d <;> simp [CBox.measureCod, F_append, F_qubits, F_bits, CQTy.tensor, CQTy.ofQ, CQTy.ofC]

namespace CBox

/-- Shape conditions the Python classes guarantee: quantum boxes sit on qudits only. -/
def Typed : CBox R → Prop
  | quantum d c _ => (F d).c = [] ∧ (F c).c = []
  | _ => True

theorem arMeasure_dom (n : Nat) (d o : Bool) : (arMeasure n d o : CQMap R).dom = F (measureDom n o) := by
  unfold arMeasure
  rw [F_measureDom]
  cases o <;> simp [CQTy.tensor, CQTy.ofQ, CQTy.ofC]

theorem arMeasure_cod (n : Nat) (d o : Bool) : (arMeasure n d o : CQMap R).cod = F (measureCod n d) := by
  unfold arMeasure
  rw [F_measureDom, F_measureCod]
  cases o <;> cases d <;> simp [CQMap.measure_cod, CQTy.tensor, CQTy.ofC, CQTy.unit]

theorem ar_dom (b : CBox R) (h : b.Typed) : b.ar.dom = F b.dom := by
  cases b with
  | discard d => rfl
  | mixedState c => rfl
  | measure n d o => exact arMeasure_dom n d o
  | encode n c r => exact arMeasure_cod n c r
  | scalar m z => rfl
  | classical d c u => rfl
  | quantum d c u =>
    show CQTy.ofQ (F d).q = F d
    have := h.1
    cases hd : F d with | mk cc qq => rw [hd] at this; simp at this; subst this; rfl
  | mixedArr d c u => rfl
  | swap l r => exact (F_append l r).symm

theorem ar_cod (b : CBox R) (h : b.Typed) : b.ar.cod = F b.cod := by
  cases b with
  | discard d => rfl
  | mixedState c => rfl
  | measure n d o => exact arMeasure_cod n d o
  | encode n c r => exact arMeasure_dom n c r
  | scalar m z => rfl
  | classical d c u => rfl
  | quantum d c u =>
    show CQTy.ofQ (F c).q = F c
    have := h.2
    cases hd : F c with | mk cc qq => rw [hd] at this; simp at this; subst this; rfl
  | mixedArr d c u => rfl
  | swap l r => exact (F_append r l).symm

/-- The box kinds of the trace-preservation clause of C12: state preparations and unitaries
    (pure isometries), measurements (every variant), discards, stochastic classical gates, and
    swaps. -/
inductive Listed : CBox R → Prop
  | discard (d : WTy) : Listed (.discard d)
  | measure (n : Nat) (d o : Bool) : Listed (.measure n d o)
  | isometry (d c : WTy) (u : Mat R) : (F d).c = [] → (F c).c = [] → u.r = (F d).Q → u.c = (F c).Q →
      u.Isometry → Listed (.quantum d c u)
  | stochastic (d c : WTy) (u : Mat R) : (F d).Q = 1 → (F c).Q = 1 →
      (∀ i, i < (F d).C → sumN (F c).C (fun j => u.f i j) = 1) → Listed (.classical d c u)
  | swap (l r : WTy) : Listed (.swap l r)
  /-- a global phase: a pure scalar box of modulus one (`scalar(-1)`, `scalar(1j)`, `sqrt(-1)`, whose
      value is `i`): a unitary on no qubit. -/
  | phase (z : R) : star z * z = 1 → Listed (.scalar false z)

theorem Listed.typed {b : CBox R} (h : b.Listed) : b.Typed := by
  cases h <;> simp_all [Typed]

theorem Listed.tp {b : CBox R} (h : b.Listed) : b.ar.TP := by
  cases h with
  | discard d => exact CQMap.TP_discard _
  | measure n d o =>
    show (arMeasure n d o).TP
    unfold arMeasure
    split
    · exact CQMap.TP_tensor (CQMap.TP_measure _ _) (CQMap.TP_discard _)
    · exact CQMap.TP_measure _ _
  | isometry d c u _ _ hr hc hu => exact CQMap.TP_pure _ _ u hr hc hu
  | stochastic d c u hd hc hu => exact CQMap.TP_classical _ _ u hd hc hu
  | swap l r => exact CQMap.TP_swap _ _
  | phase z hz =>
    show (CQMap.scalar (star z * z) : CQMap R).TP
    rw [hz]
    exact CQMap.TP_scalar_one

end CBox

namespace LBox

/-- Listed box occurrences: a listed box, or the dagger (`is_dagger` flag) of a unitary. -/
inductive Listed : LBox R → Prop
  | plain (b : CBox R) : b.Listed → Listed ⟨false, b⟩
  | unitaryDagger (d c : WTy) (u : Mat R) : (F d).c = [] → (F c).c = [] → u.r = (F d).Q →
      u.c = (F c).Q → u.dagger.Isometry → Listed ⟨true, .quantum d c u⟩

theorem Listed.typed {b : LBox R} (h : b.Listed) : b.box.Typed := by
  cases h with
  | plain b hb => exact hb.typed
  | unitaryDagger d c u h1 h2 => exact ⟨h1, h2⟩

theorem eval_dom (b : LBox R) (h : b.box.Typed) : b.eval.dom = F b.dom := by
  unfold eval dom
  split
  · exact b.box.ar_cod h
  · exact b.box.ar_dom h

theorem eval_cod (b : LBox R) (h : b.box.Typed) : b.eval.cod = F b.cod := by
  unfold eval cod
  split
  · exact b.box.ar_dom h
  · exact b.box.ar_cod h

theorem Listed.tp {b : LBox R} (h : b.Listed) : b.eval.TP := by
  cases h with
  | plain b hb => exact hb.tp
  | unitaryDagger d c u _ _ hr hc hu =>
    show (CQMap.pure (F d).q (F c).q u).dagger.TP
    rw [CQMap.dagger_pure]
    exact CQMap.TP_pure _ _ _ hc hr hu

end LBox

/-! ### whole circuits -/

/-- Every box finds its domain at its offset (what the scanning constructor of circuits checks;
    property C01). -/
def WT : WTy → List (Nat × LBox R) → Prop
  | _, [] => True
  | scan, (off, b) :: rest =>
    (scan.drop off).take b.dom.length = b.dom ∧ WT (scanStep scan off b) rest

theorem scan_split {scan : WTy} {off : Nat} {b : LBox R}
    (h : (scan.drop off).take b.dom.length = b.dom) :
    scan = scan.take off ++ b.dom ++ scan.drop (off + b.dom.length) := by
  conv_lhs => rw [← List.take_append_drop off scan, ← List.take_append_drop b.dom.length (scan.drop off)]
  rw [h, List.drop_drop, List.append_assoc]

theorem layerMap_dom (l r : WTy) (b : LBox R) (h : b.box.Typed) :
    (layerMap l b r).dom = F (l ++ b.dom ++ r) := by
  simp [layerMap, F_append, LBox.eval_dom b h, CQTy.tensor_assoc]

theorem layerMap_cod (l r : WTy) (b : LBox R) (h : b.box.Typed) :
    (layerMap l b r).cod = F (l ++ b.cod ++ r) := by
  simp [layerMap, F_append, LBox.eval_cod b h, CQTy.tensor_assoc]

theorem layerMap_TP (l r : WTy) (b : LBox R) (h : b.eval.TP) : (layerMap l b r).TP :=
  CQMap.TP_memo (CQMap.TP_tensor (CQMap.TP_tensor (CQMap.TP_id _) (CQMap.TP_memo h)) (CQMap.TP_id _))

/-- **trace_preserving**, the induction over the boxes of a circuit: if the map accumulated so
    far is trace preserving and every remaining box occurrence is trace preserving (and typed),
    the evaluation succeeds and its result is trace preserving, with the expected type. -/
theorem evalMixedGo_TP (boxes : List (Nat × LBox R)) :
    ∀ (acc : CQMap R) (scan : WTy), acc.cod = F scan → acc.TP → WT scan boxes →
      (∀ ob ∈ boxes, ob.2.box.Typed ∧ ob.2.eval.TP) →
      ∃ m, evalMixedGo acc scan boxes = .ok m ∧ m.TP ∧ m.dom = acc.dom ∧
        m.cod = F (finalScan scan boxes) := by
  induction boxes with
  | nil => intro acc scan hcod hTP _ _; exact ⟨acc, rfl, hTP, rfl, hcod⟩
  | cons ob rest ih =>
    obtain ⟨off, b⟩ := ob
    intro acc scan hcod hTP hWT hb
    obtain ⟨hty, htp⟩ := hb (off, b) (List.mem_cons_self)
    have hsplit := scan_split hWT.1
    have hdom : (layerMap (scan.take off) b (scan.drop (off + b.dom.length))).dom = acc.cod := by
      rw [layerMap_dom _ _ b hty, ← hsplit, hcod]
    have hcomp : acc.comp? (layerMap (scan.take off) b (scan.drop (off + b.dom.length))) =
        .ok (acc.comp (layerMap (scan.take off) b (scan.drop (off + b.dom.length)))) := by
      unfold CQMap.comp?
      rw [hdom, if_pos rfl, if_pos rfl]
    have hstep := ih ((acc.comp (layerMap (scan.take off) b (scan.drop (off + b.dom.length)))).memo)
      (scanStep scan off b)
      (by simp only [CQMap.memo_cod, CQMap.comp_cod]; exact layerMap_cod _ _ b hty)
      (CQMap.TP_memo (CQMap.TP_comp hdom.symm hTP (layerMap_TP _ _ b htp)))
      hWT.2 (fun ob hob => hb ob (List.mem_cons_of_mem _ hob))
    obtain ⟨m, hm, hmTP, hmdom, hmcod⟩ := hstep
    refine ⟨m, ?_, hmTP, hmdom, hmcod⟩
    unfold evalMixedGo
    rw [hcomp]
    exact hm

/-- **trace_preserving** for circuits. -/
theorem Circuit.evalMixed_TP (c : Circuit R) (hWT : WT c.dom c.boxes)
    (hb : ∀ ob ∈ c.boxes, ob.2.box.Typed ∧ ob.2.eval.TP) :
    ∃ m, c.evalMixed = .ok m ∧ m.TP ∧ m.dom = F c.dom ∧ m.cod = F c.cod :=
  evalMixedGo_TP c.boxes (CQMap.id (F c.dom)) c.dom rfl (CQMap.TP_id _) hWT hb

/-! ### clause (a) for whole circuits: the mixed evaluation of a pure circuit is the doubled
    pure evaluation -/

namespace Mat

theorem comp_congr {A A' B B' : Mat R} (hA : A ≈ₘ A') (hB : B ≈ₘ B') (h : A.c = B.r) :
    A.comp B ≈ₘ A'.comp B' := by
  refine ⟨hA.1, hB.2.1, fun i k hi hk => ?_⟩
  show sumN A.c _ = sumN A'.c _
  rw [← hA.2.1]
  exact sumN_congr fun j hj => by rw [hA.2.2 i j hi hj, hB.2.2 j k (h ▸ hj) hk]

theorem kron_congr {A A' B B' : Mat R} (hA : A ≈ₘ A') (hB : B ≈ₘ B') : A.kron B ≈ₘ A'.kron B' := by
  refine ⟨by show A.r * B.r = A'.r * B'.r; rw [hA.1, hB.1],
    by show A.c * B.c = A'.c * B'.c; rw [hA.2.1, hB.2.1], fun i j hi hj => ?_⟩
  show A.f _ _ * B.f _ _ = A'.f _ _ * B'.f _ _
  rw [← hB.1, ← hB.2.1, hA.2.2 _ _ (div_lt_of_lt_mul' hi) (div_lt_of_lt_mul' hj),
    hB.2.2 _ _ (mod_lt_of_lt_mul hi) (mod_lt_of_lt_mul hj)]

theorem dagger_congr {A A' : Mat R} (hA : A ≈ₘ A') : A.dagger ≈ₘ A'.dagger :=
  ⟨hA.2.1, hA.1, fun i j hi hj => by
    show star _ = star _
    rw [hA.2.2 j i hj hi]⟩

end Mat

namespace CQMap

theorem pure_congr (d e : List Nat) {u v : Mat R} (h : u ≈ₘ v) (hr : u.r = prodL d)
    (hc : u.c = prodL e) : CQMap.pure d e u ≈ CQMap.pure d e v := by
  refine ⟨rfl, rfl, fun c q p c' q' p' _ hq hp _ hq' hp' => ?_⟩
  simp only [pure_dom, pure_cod, CQTy.ofQ_Q] at hq hp hq' hp'
  rw [pure_f, pure_f, h.2.2 q q' (hr ▸ hq) (hc ▸ hq'), h.2.2 p p' (hr ▸ hp) (hc ▸ hp')]

theorem pure_id (d : List Nat) : CQMap.pure d d (Mat.id (prodL d) : Mat R) ≈ CQMap.id (.ofQ d) := by
  refine ⟨rfl, rfl, fun c q p c' q' p' hc _ _ hc' _ _ => ?_⟩
  simp only [pure_dom, pure_cod, CQTy.ofQ_C, Nat.lt_one_iff] at hc hc'
  subst hc hc'
  show star (iv (q = q')) * iv (p = p') = iv (0 = 0 ∧ q = q' ∧ p = p')
  rw [star_iv, ← iv_and]
  exact iv_congr ⟨fun h => ⟨rfl, h⟩, fun h => h.2⟩

theorem swap_pure (l r : List Nat) :
    (CQMap.swap (.ofQ l) (.ofQ r) : CQMap R) ≈
      CQMap.pure (l ++ r) (r ++ l) (Mat.swap (prodL l) (prodL r)) := by
  refine ⟨by simp [CQMap.swap, CQTy.tensor, CQTy.ofQ], by simp [CQMap.swap, CQTy.tensor, CQTy.ofQ],
    fun c q p c' q' p' hc _ _ hc' _ _ => ?_⟩
  have hc : c < 1 := by simpa [CQMap.swap, CQTy.tensor, CQTy.ofQ, CQTy.C, prodL] using hc
  have hc' : c' < 1 := by simpa [CQMap.swap, CQTy.tensor, CQTy.ofQ, CQTy.C, prodL] using hc'
  have hc : c = 0 := by omega
  have hc' : c' = 0 := by omega
  subst hc hc'
  show (Mat.swap 1 1).f 0 0 * (Mat.swap (prodL l) (prodL r)).f q q' * (Mat.swap (prodL l) (prodL r)).f p p' =
    star ((Mat.swap (prodL l) (prodL r)).f q q') * (Mat.swap (prodL l) (prodL r)).f p p'
  have e : ((Mat.swap 1 1 : Mat R).f 0 0) = 1 := by
    show (iv (0 / 1 = 0 % 1 ∧ 0 % 1 = 0 / 1) : R) = 1
    exact iv_pos (by decide)
  have e2 : star ((Mat.swap (prodL l) (prodL r) : Mat R).f q q') = (Mat.swap (prodL l) (prodL r)).f q q' := by
    show star (iv _) = iv _
    rw [star_iv]
  rw [e, e2, one_mul]

end CQMap

/-- A type of qudits only. -/
def allQ (t : WTy) : Prop := ∀ w ∈ t, ∃ d, w = Wire.qubit d

theorem allQ_append {s t : WTy} : allQ (s ++ t) ↔ allQ s ∧ allQ t := by
  simp [allQ, or_imp, forall_and]

theorem F_allQ {t : WTy} (h : allQ t) : F t = .ofQ (dims t) := by
  induction t with
  | nil => rfl
  | cons w ws ih =>
    obtain ⟨d, rfl⟩ := h w (List.mem_cons_self)
    have := ih (fun w hw => h w (List.mem_cons_of_mem _ hw))
    simp [F, this, CQTy.tensor, CQTy.ofQ, Wire.cdim, Wire.qdim, dims, Wire.dim]

theorem dims_append (s t : WTy) : dims (s ++ t) = dims s ++ dims t := List.map_append

/-- A box of a pure circuit: its mixed interpretation is the doubled pure one. -/
structure LBox.Pure (b : LBox R) : Prop where
  dom : allQ b.dom
  cod : allQ b.cod
  r : b.evalPure.r = prodL (dims b.dom)
  c : b.evalPure.c = prodL (dims b.cod)
  doubled : b.eval ≈ CQMap.pure (dims b.dom) (dims b.cod) b.evalPure

theorem layer_doubled (l r : WTy) (b : LBox R) (hl : allQ l) (hr : allQ r) (hb : b.Pure) :
    layerMap l b r ≈ CQMap.pure (dims (l ++ b.dom ++ r)) (dims (l ++ b.cod ++ r)) (layerPure l b r) := by
  have hbm : b.evalPure.memo ≈ₘ b.evalPure := Mat.memo_eqv _
  -- the doubled map of the tabulated pure layer
  have e1 : CQMap.pure (dims (l ++ b.dom ++ r)) (dims (l ++ b.cod ++ r)) (layerPure l b r) ≈
      CQMap.pure (dims (l ++ b.dom ++ r)) (dims (l ++ b.cod ++ r))
        (((Mat.id (prodL (dims l))).kron b.evalPure).kron (Mat.id (prodL (dims r)))) := by
    refine CQMap.pure_congr _ _ ((Mat.memo_eqv _).trans
      (Mat.kron_congr (Mat.kron_congr (Mat.Eqv.rfl' _) hbm) (Mat.Eqv.rfl' _))) ?_ ?_
    · show (prodL (dims l) * b.evalPure.memo.r) * prodL (dims r) = _
      rw [dims_append, dims_append, prodL_append, prodL_append, ← hb.r]; rfl
    · show (prodL (dims l) * b.evalPure.memo.c) * prodL (dims r) = _
      rw [dims_append, dims_append, prodL_append, prodL_append, ← hb.c]; rfl
  refine CQMap.Eqv.trans ?_ e1.symm
  rw [dims_append, dims_append, dims_append, dims_append]
  rw [CQMap.pure_tensor _ _ _ _ _ _ rfl rfl, CQMap.pure_tensor _ _ _ _ _ _ hb.r hb.c]
  refine (CQMap.memo_eqv _).trans (CQMap.tensor_congr (CQMap.tensor_congr ?_ ?_) ?_)
  · rw [F_allQ hl]; exact (CQMap.pure_id _).symm
  · exact (CQMap.memo_eqv _).trans hb.doubled
  · rw [F_allQ hr]; exact (CQMap.pure_id _).symm

theorem layerPure_c (l r : WTy) (b : LBox R) (hb : b.Pure) :
    (layerPure l b r).c = prodL (dims (l ++ b.cod ++ r)) := by
  show (prodL (dims l) * b.evalPure.memo.c) * prodL (dims r) = _
  rw [dims_append, dims_append, prodL_append, prodL_append, ← hb.c]; rfl

/-- Clause (a) of C12 for whole circuits, by induction over the boxes. -/
theorem eval_doubled_go (boxes : List (Nat × LBox R)) :
    ∀ (acc : CQMap R) (accP : Mat R) (dom scan : WTy), allQ scan →
      acc ≈ CQMap.pure (dims dom) (dims scan) accP → accP.r = prodL (dims dom) →
      accP.c = prodL (dims scan) → WT scan boxes → (∀ ob ∈ boxes, ob.2.Pure) →
      ∃ m, evalMixedGo acc scan boxes = .ok m ∧
        m ≈ CQMap.pure (dims dom) (dims (finalScan scan boxes)) (evalPureGo accP scan boxes) := by
  induction boxes with
  | nil => intro acc accP dom scan _ h _ _ _ _; exact ⟨acc, rfl, h⟩
  | cons ob rest ih =>
    obtain ⟨off, b⟩ := ob
    intro acc accP dom scan hscan hacc hr hc hWT hb
    have hp := hb (off, b) (List.mem_cons_self)
    have hsplit := scan_split hWT.1
    have hq : allQ (scan.take off) ∧ allQ (scan.drop (off + b.dom.length)) := by
      rw [hsplit] at hscan
      have := allQ_append.mp hscan
      exact ⟨(allQ_append.mp this.1).1, this.2⟩
    have hL := layer_doubled (scan.take off) (scan.drop (off + b.dom.length)) b hq.1 hq.2 hp
    rw [← hsplit] at hL
    have hdomL : (layerMap (scan.take off) b (scan.drop (off + b.dom.length))).dom = acc.cod := by
      rw [hL.1, hacc.2.1]; rfl
    have hcomp : acc.comp? (layerMap (scan.take off) b (scan.drop (off + b.dom.length))) =
        .ok (acc.comp (layerMap (scan.take off) b (scan.drop (off + b.dom.length)))) := by
      unfold CQMap.comp?
      rw [hdomL, if_pos rfl, if_pos rfl]
    have hscan' : allQ (scanStep scan off b) := by
      unfold scanStep
      exact allQ_append.mpr ⟨allQ_append.mpr ⟨hq.1, hp.cod⟩, hq.2⟩
    have hc' : (accP.comp (layerPure (scan.take off) b (scan.drop (off + b.dom.length)))).memo.c =
        prodL (dims (scanStep scan off b)) := layerPure_c _ _ b hp
    have hnew : (acc.comp (layerMap (scan.take off) b (scan.drop (off + b.dom.length)))).memo ≈
        CQMap.pure (dims dom) (dims (scanStep scan off b))
          (accP.comp (layerPure (scan.take off) b (scan.drop (off + b.dom.length)))).memo := by
      refine (CQMap.memo_eqv _).trans ((CQMap.comp_congr hacc hL hdomL.symm).trans ?_)
      rw [← CQMap.pure_comp _ _ _ _ _ hc]
      exact (CQMap.pure_congr _ _
        (Mat.memo_eqv (accP.comp (layerPure (scan.take off) b (scan.drop (off + b.dom.length)))))
        hr hc').symm
    obtain ⟨m, hm, hmd⟩ := ih _ _ dom _ hscan' hnew hr hc' hWT.2
      (fun ob hob => hb ob (List.mem_cons_of_mem _ hob))
    refine ⟨m, ?_, hmd⟩
    unfold evalMixedGo
    rw [hcomp]
    exact hm

/-- **Clause (a)**: the mixed evaluation of a pure circuit is the doubled map `ū ⊗ u` of its pure
    evaluation `u`. -/
theorem Circuit.eval_doubled (c : Circuit R) (hdom : allQ c.dom) (hWT : WT c.dom c.boxes)
    (hb : ∀ ob ∈ c.boxes, ob.2.Pure) :
    ∃ m, c.evalMixed = .ok m ∧ m ≈ CQMap.pure (dims c.dom) (dims c.cod) c.evalPure := by
  refine eval_doubled_go c.boxes _ _ c.dom c.dom hdom ?_ rfl rfl hWT hb
  rw [F_allQ hdom]
  exact (CQMap.pure_id _).symm

/-! ### the boxes of pure circuits are `Pure` -/

theorem LBox.Pure.quantum (dag : Bool) (d c : WTy) (u : Mat R) (hd : allQ d) (hc : allQ c)
    (hr : u.r = prodL (dims d)) (hcc : u.c = prodL (dims c)) : LBox.Pure ⟨dag, .quantum d c u⟩ := by
  have ed : (F d).q = dims d := by rw [F_allQ hd]; rfl
  have ec : (F c).q = dims c := by rw [F_allQ hc]; rfl
  cases dag with
  | false =>
    exact ⟨hd, hc, hr, hcc, by
      show CQMap.pure (F d).q (F c).q u ≈ CQMap.pure (dims d) (dims c) u
      rw [ed, ec]; exact CQMap.Eqv.rfl' _⟩
  | true =>
    exact ⟨hc, hd, hcc, hr, by
      show (CQMap.pure (F d).q (F c).q u).dagger ≈ CQMap.pure (dims c) (dims d) u.dagger
      rw [ed, ec, CQMap.dagger_pure]; exact CQMap.Eqv.rfl' _⟩

theorem LBox.Pure.scalar (dag : Bool) (z : R) : LBox.Pure ⟨dag, .scalar false z⟩ := by
  have h0 : allQ ([] : WTy) := fun _ h => by cases h
  cases dag with
  | false => exact ⟨h0, h0, rfl, rfl, ⟨rfl, rfl, fun _ _ _ _ _ _ _ _ _ _ _ _ => rfl⟩⟩
  | true =>
    refine ⟨h0, h0, rfl, rfl, ⟨rfl, rfl, fun _ _ _ _ _ _ _ _ _ _ _ _ => ?_⟩⟩
    show star (star z * z) = star (star z) * star z
    rw [star_mul', mul_comm]

theorem LBox.Pure.swap (l r : WTy) (hl : allQ l) (hr : allQ r) : LBox.Pure (R := R) ⟨false, .swap l r⟩ := by
  refine ⟨allQ_append.mpr ⟨hl, hr⟩, allQ_append.mpr ⟨hr, hl⟩, ?_, ?_, ?_⟩
  · show prodL (dims l) * prodL (dims r) = prodL (dims (l ++ r))
    rw [dims_append, prodL_append]
  · show prodL (dims r) * prodL (dims l) = prodL (dims (r ++ l))
    rw [dims_append, prodL_append]
  · show CQMap.swap (F l) (F r) ≈ CQMap.pure (dims (l ++ r)) (dims (r ++ l)) (Mat.swap _ _)
    rw [F_allQ hl, F_allQ hr, dims_append, dims_append]
    exact CQMap.swap_pure _ _

end DV.CQ
