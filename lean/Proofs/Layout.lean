/-
  Proofs/Layout.lean — lemmas about the layout model (Model/Layout.lean), core Lean only
  (linear arithmetic over `Rat` is discharged by `grind`).

  Plan.  (1-2) the two shifts of `make_space` are *expanding* maps (never shrink a gap), and on
  the three numbers they read they leave the left neighbour `half_width` left of the box, the
  right neighbour `half_width` right of it, and do not move anything strictly in between —
  whatever `x_pos` is.  (3) the `pos` dict as an association list: lookups commute with a map of
  all coordinates and with appending fresh keys; `sep g a b` (a at least g left of b) and `eqx`
  survive both.  (4-8) the loop invariant `Inv` and its preservation by one iteration
  (`step_inv`), together with what the iteration establishes about its own box (`StepFacts`).
  (9-11) the whole loop by induction over the boxes: facts established by an iteration survive
  all later ones (`Pos.le`), so they hold in the returned graph.  (12-16) census of nodes and
  edges, heights, verticality, and the identification of the scan lists with the independent
  wire follower `follow`.
-/
import Model.Layout

namespace DV.Layout
open DV

/-! ### 1. The two shifts are expanding maps -/

/-- `f` never shrinks a gap: `a + g ≤ b → f a + g ≤ f b` for every `g ≥ 0`
    (in particular `f` is strictly monotone and preserves `≤`). -/
def Expanding (f : Rat → Rat) : Prop := ∀ a b g : Rat, 0 ≤ g → a + g ≤ b → f a + g ≤ f b

theorem sl_expanding (limit pad : Rat) (hp : 0 ≤ pad) : Expanding (sl limit pad) := by
  intro a b g hg h; unfold sl; grind

theorem sr_expanding (limit pad : Rat) (hp : 0 ≤ pad) : Expanding (sr limit pad) := by
  intro a b g hg h; unfold sr; grind

theorem Expanding.comp {f g : Rat → Rat} (hf : Expanding f) (hg : Expanding g) :
    Expanding (fun t => f (g t)) := fun a b d hd h => hf _ _ d hd (hg a b d hd h)

theorem Expanding.id : Expanding (fun t => t) := fun _ _ _ _ h => h

/-! ### 2. `make_space` on values

  `gLv`/`gRv` are the maps applied to every horizontal coordinate by drawing.py:159-164 and
  165-171, written over the three numbers they read: the left neighbour `XL = pos[scan[off-1]]`,
  the right neighbour `XR = pos[scan[off+len(dom)]]`, the box position `x` and `hw = half_width`. -/

def gLv (offNZ : Bool) (XL x hw t : Rat) : Rat :=
  if offNZ = true ∧ XL > x - hw then sl XL (XL - x + hw) t else t

def gRv (inR : Bool) (XR x hw t : Rat) : Rat :=
  if inR = true ∧ XR < x + hw then sr XR (x + hw - XR) t else t

/-- Both passes of `make_space` (the right pass reads the right neighbour AFTER the left pass). -/
def gV (offNZ inR : Bool) (XL XR x hw t : Rat) : Rat :=
  gRv inR (gLv offNZ XL x hw XR) x hw (gLv offNZ XL x hw t)

theorem gLv_expanding (offNZ : Bool) (XL x hw : Rat) : Expanding (gLv offNZ XL x hw) := by
  intro a b g hg h; unfold gLv sl; grind

theorem gRv_expanding (inR : Bool) (XR x hw : Rat) : Expanding (gRv inR XR x hw) := by
  intro a b g hg h; unfold gRv sr; grind

theorem gV_expanding (offNZ inR : Bool) (XL XR x hw : Rat) : Expanding (gV offNZ inR XL XR x hw) := by
  intro a b g hg h
  unfold gV
  exact gRv_expanding _ _ _ _ _ _ g hg (gLv_expanding _ _ _ _ a b g hg h)

/-- After `make_space` the left neighbour is at least `half_width` to the left of the box. -/
theorem gV_left (inR : Bool) (XL XR x hw : Rat) (h : inR = true → XL < XR) :
    gV true inR XL XR x hw XL + hw ≤ x := by
  unfold gV gRv gLv sr sl; grind

/-- After `make_space` the right neighbour is at least `half_width` to the right of the box. -/
theorem gV_right (offNZ : Bool) (XL XR x hw : Rat) :
    x + hw ≤ gV offNZ true XL XR x hw XR := by
  unfold gV gRv gLv sr sl; grind

/-- Wires strictly between the two neighbours (the box's own domain) do not move. -/
theorem gV_mid (offNZ inR : Bool) (XL XR x hw t : Rat)
    (hl : offNZ = true → XL < t) (hr : inR = true → t < XR) :
    gV offNZ inR XL XR x hw t = t := by
  unfold gV gRv gLv sr sl; grind

/-! ### 3. The `pos` dict: lookups, keys, the two order relations -/

def keys (p : Pos) : List Node := p.map (·.node)

@[simp] theorem keys_append (p q : Pos) : keys (p ++ q) = keys p ++ keys q := by simp [keys]

@[simp] theorem keys_mapX (f : Rat → Rat) (p : Pos) : keys (p.mapX f) = keys p := by
  simp [keys, Pos.mapX]

theorem x?_mapX (f : Rat → Rat) (p : Pos) (v : Node) : (p.mapX f).x? v = (p.x? v).map f := by
  induction p with
  | nil => rfl
  | cons q p ih =>
    simp only [Pos.x?, Pos.mapX, List.map_cons, List.find?_cons] at ih ⊢
    split <;> simp_all

theorem y?_mapX (f : Rat → Rat) (p : Pos) (v : Node) : (p.mapX f).y? v = p.y? v := by
  induction p with
  | nil => rfl
  | cons q p ih =>
    simp only [Pos.y?, Pos.mapX, List.map_cons, List.find?_cons] at ih ⊢
    split <;> simp_all

theorem x?_append (p q : Pos) (v : Node) : (p ++ q).x? v = (p.x? v).or (q.x? v) := by
  simp only [Pos.x?, List.find?_append]
  cases List.find? (fun q => q.node == v) p <;> simp

theorem y?_append (p q : Pos) (v : Node) : (p ++ q).y? v = (p.y? v).or (q.y? v) := by
  simp only [Pos.y?, List.find?_append]
  cases List.find? (fun q => q.node == v) p <;> simp

theorem x?_append_of_some {p : Pos} {v : Node} {x : Rat} (q : Pos) (h : p.x? v = some x) :
    (p ++ q).x? v = some x := by simp [x?_append, h]

theorem find?_eq_none_of_not_mem {p : Pos} {v : Node} (h : v ∉ keys p) :
    p.find? (fun q => q.node == v) = none := by
  simp only [List.find?_eq_none]
  intro q hq hqv
  exact h (by simp only [keys, List.mem_map]; exact ⟨q, hq, by simpa using hqv⟩)

theorem x?_eq_none {p : Pos} {v : Node} (h : v ∉ keys p) : p.x? v = none := by
  simp [Pos.x?, find?_eq_none_of_not_mem h]

theorem find?_of_mem {p : Pos} {q : Placed} (hn : (keys p).Nodup) (hq : q ∈ p) :
    p.find? (fun r => r.node == q.node) = some q := by
  induction p with
  | nil => cases hq
  | cons r p ih =>
    simp only [keys, List.map_cons, List.nodup_cons] at hn
    simp only [List.find?_cons]
    rcases List.mem_cons.mp hq with rfl | hq'
    · simp
    · have : r.node ≠ q.node := by
        intro e; exact hn.1 (by rw [e]; exact List.mem_map.mpr ⟨q, hq', rfl⟩)
      have hb : (r.node == q.node) = false := by simpa using this
      simp [hb, ih hn.2 hq']

theorem x?_of_mem {p : Pos} {q : Placed} (hn : (keys p).Nodup) (hq : q ∈ p) :
    p.x? q.node = some q.x := by simp [Pos.x?, find?_of_mem hn hq]

theorem y?_of_mem {p : Pos} {q : Placed} (hn : (keys p).Nodup) (hq : q ∈ p) :
    p.y? q.node = some q.y := by simp [Pos.y?, find?_of_mem hn hq]

theorem mem_keys_of_x? {p : Pos} {v : Node} {x : Rat} (h : p.x? v = some x) : v ∈ keys p := by
  apply Classical.byContradiction
  intro hv; rw [x?_eq_none hv] at h; cases h

/-- `a` is at least `g` to the left of `b` (both placed). -/
def Pos.sep (p : Pos) (g : Rat) (a b : Node) : Prop :=
  ∃ xa xb, p.x? a = some xa ∧ p.x? b = some xb ∧ xa + g ≤ xb

/-- `a` and `b` have the same horizontal coordinate (both placed). -/
def Pos.eqx (p : Pos) (a b : Node) : Prop := ∃ x, p.x? a = some x ∧ p.x? b = some x

theorem Pos.sep.mapX {p : Pos} {g : Rat} {a b : Node} {f : Rat → Rat} (hf : Expanding f)
    (hg : 0 ≤ g) (h : p.sep g a b) : (p.mapX f).sep g a b := by
  obtain ⟨xa, xb, ha, hb, hab⟩ := h
  exact ⟨f xa, f xb, by simp [x?_mapX, ha], by simp [x?_mapX, hb], hf _ _ _ hg hab⟩

theorem Pos.sep.append {p : Pos} {g : Rat} {a b : Node} (q : Pos) (h : p.sep g a b) :
    (p ++ q).sep g a b := by
  obtain ⟨xa, xb, ha, hb, hab⟩ := h
  exact ⟨xa, xb, x?_append_of_some q ha, x?_append_of_some q hb, hab⟩

theorem Pos.eqx.mapX {p : Pos} {a b : Node} (f : Rat → Rat) (h : p.eqx a b) :
    (p.mapX f).eqx a b := by
  obtain ⟨x, ha, hb⟩ := h
  exact ⟨f x, by simp [x?_mapX, ha], by simp [x?_mapX, hb]⟩

theorem Pos.eqx.append {p : Pos} {a b : Node} (q : Pos) (h : p.eqx a b) : (p ++ q).eqx a b := by
  obtain ⟨x, ha, hb⟩ := h
  exact ⟨x, x?_append_of_some q ha, x?_append_of_some q hb⟩

theorem Pos.sep.weaken {p : Pos} {g g' : Rat} {a b : Node} (hg : g' ≤ g) (h : p.sep g a b) :
    p.sep g' a b := by
  obtain ⟨xa, xb, ha, hb, hab⟩ := h
  exact ⟨xa, xb, ha, hb, by grind⟩

theorem xD_of_x? {p : Pos} {v : Node} {x : Rat} (h : p.x? v = some x) : p.xD v = x := by
  simp [Pos.xD, h]

theorem mapX_id (p : Pos) : p.mapX (fun t => t) = p := by
  simp [Pos.mapX]

theorem mapX_mapX (f g : Rat → Rat) (p : Pos) : (p.mapX g).mapX f = p.mapX (fun t => f (g t)) := by
  simp [Pos.mapX]

/-! ### 4. The loop invariant -/

/-- A node placed before box `depth` is treated: an input, or a node of an earlier box. -/
def Old (depth : Nat) (v : Node) : Prop :=
  v.kind = .input ∨ (v.kind ≠ .output ∧ v.kind ≠ .input ∧ v.depth < depth)

/-- Invariant of the `for depth, (box, off)` loop (drawing.py:179-181): keys are unique and old,
    every open wire is placed, and the open wires are at least one unit apart, in scan order. -/
structure Inv (p : Pos) (scan : List Node) (depth : Nat) : Prop where
  nodup : (keys p).Nodup
  old : ∀ v ∈ keys p, Old depth v
  has : ∀ v ∈ scan, ∃ x, p.x? v = some x
  sorted : scan.Pairwise (p.sep 1)

theorem getD_eq {α} (l : List α) (k : Nat) (d : α) (hk : k < l.length) : l.getD k d = l[k] := by
  simp [List.getD_eq_getElem?_getD, hk]

theorem scanX_of_has {p : Pos} {scan : List Node} (has : ∀ v ∈ scan, ∃ x, p.x? v = some x)
    {k : Nat} (hk : k < scan.length) : p.x? scan[k] = some (scanX p scan k) := by
  obtain ⟨x, hx⟩ := has scan[k] (List.getElem_mem hk)
  rw [scanX, getD_eq _ _ _ hk, Pos.xD, hx]; rfl

theorem scanX_mapX (f : Rat → Rat) {p : Pos} {scan : List Node}
    (has : ∀ v ∈ scan, ∃ x, p.x? v = some x) {k : Nat} (hk : k < scan.length) :
    scanX (p.mapX f) scan k = f (scanX p scan k) := by
  obtain ⟨x, hx⟩ := has scan[k] (List.getElem_mem hk)
  rw [scanX, scanX, getD_eq _ _ _ hk, Pos.xD, Pos.xD, x?_mapX, hx]; rfl

theorem Inv.X_sep {p : Pos} {scan : List Node} {depth : Nat} (h : Inv p scan depth)
    {i j : Nat} (hij : i < j) (hj : j < scan.length) :
    scanX p scan i + 1 ≤ scanX p scan j := by
  have hi : i < scan.length := Nat.lt_trans hij hj
  obtain ⟨xa, xb, ha, hb, hab⟩ := List.pairwise_iff_getElem.mp h.sorted i j hi hj hij
  rw [scanX_of_has h.has hi] at ha
  rw [scanX_of_has h.has hj] at hb
  cases ha; cases hb; exact hab

theorem Inv.X_le {p : Pos} {scan : List Node} {depth : Nat} (h : Inv p scan depth)
    {i j : Nat} (hij : i ≤ j) (hj : j < scan.length) :
    scanX p scan i + 0 ≤ scanX p scan j := by
  rcases Nat.lt_or_eq_of_le hij with h1 | rfl
  · have := h.X_sep h1 hj; grind
  · grind

/-! ### 5. `make_space` is one expanding map -/

/-- The map `make_space` applies to every horizontal coordinate in `pos`. -/
def stepG (p : Pos) (scan : List Node) (st : Step) (t : Rat) : Rat :=
  if scan.isEmpty then t
  else gV (decide (st.off ≠ 0)) (decide (st.off + st.m < scan.length))
    (scanX p scan (st.off - 1)) (scanX p scan (st.off + st.m)) (xPos p scan st) (halfWidth st.c) t

theorem padLeft_eq (p : Pos) (scan : List Node) (st : Step) (x : Rat) :
    padLeft p scan st x
      = p.mapX (gLv (decide (st.off ≠ 0)) (scanX p scan (st.off - 1)) x (halfWidth st.c)) := by
  unfold padLeft
  by_cases hc : st.off ≠ 0 ∧ scanX p scan (st.off - 1) > x - halfWidth st.c
  · rw [if_pos hc]; congr 1; funext t; unfold gLv; rw [if_pos (by simpa using hc)]
  · rw [if_neg hc]
    have : gLv (decide (st.off ≠ 0)) (scanX p scan (st.off - 1)) x (halfWidth st.c) = fun t => t := by
      funext t; unfold gLv; rw [if_neg (by simpa using hc)]
    rw [this, mapX_id]

theorem padRight_eq (p : Pos) (scan : List Node) (st : Step) (x : Rat) :
    padRight p scan st x
      = p.mapX (gRv (decide (st.off + st.m < scan.length)) (scanX p scan (st.off + st.m)) x
          (halfWidth st.c)) := by
  unfold padRight
  by_cases hc : st.off + st.m < scan.length ∧ scanX p scan (st.off + st.m) < x + halfWidth st.c
  · rw [if_pos hc]; congr 1; funext t; unfold gRv; rw [if_pos (by simpa using hc)]
  · rw [if_neg hc]
    have : gRv (decide (st.off + st.m < scan.length)) (scanX p scan (st.off + st.m)) x
        (halfWidth st.c) = fun t => t := by
      funext t; unfold gRv; rw [if_neg (by simpa using hc)]
    rw [this, mapX_id]

theorem gRv_false (XR XR' x hw : Rat) : gRv false XR x hw = gRv false XR' x hw := by
  funext t; simp [gRv]

theorem spacePos_eq {p : Pos} {scan : List Node} {st : Step}
    (has : ∀ v ∈ scan, ∃ x, p.x? v = some x) :
    spacePos p scan st = p.mapX (stepG p scan st) := by
  unfold spacePos
  by_cases he : scan.isEmpty
  · have : stepG p scan st = fun t => t := by funext t; simp [stepG, he]
    rw [if_pos he, this, mapX_id]
  · rw [if_neg he, padLeft_eq, padRight_eq, mapX_mapX]
    congr 1; funext t
    simp only [stepG, he, Bool.false_eq_true, if_false, gV]
    by_cases hin : st.off + st.m < scan.length
    · rw [scanX_mapX _ has hin]
    · simp only [hin, decide_false]
      rw [gRv_false]

/-! ### 6. What `make_space` achieves, on the open wires -/

theorem stepG_expanding (p : Pos) (scan : List Node) (st : Step) : Expanding (stepG p scan st) := by
  intro a b g hg h
  unfold stepG
  by_cases he : scan.isEmpty
  · simpa [he] using h
  · simp only [he, Bool.false_eq_true, if_false]
    exact gV_expanding _ _ _ _ _ _ a b g hg h

theorem halfWidth_ge (c : Nat) : 1 ≤ halfWidth c := by
  have : (0 : Rat) ≤ ((c - 1 : Nat) : Rat) := by exact_mod_cast Nat.zero_le _
  unfold halfWidth; grind

theorem isEmpty_false_of_lt {scan : List Node} {j : Nat} (h : j < scan.length) :
    scan.isEmpty = false := by
  cases scan with
  | nil => simp at h
  | cons _ _ => rfl

section
variable {p : Pos} {scan : List Node} {depth : Nat} {st : Step}

/-- Every open wire left of the box ends up at least `half_width` left of `x_pos`. -/
theorem stepG_left (h : Inv p scan depth) (hin : st.off + st.m ≤ scan.length) {j : Nat}
    (hj : j < st.off) :
    stepG p scan st (scanX p scan j) + halfWidth st.c ≤ spaceX p scan st := by
  have hlen : st.off - 1 < scan.length := by omega
  have he := isEmpty_false_of_lt hlen
  have hoff : decide (st.off ≠ 0) = true := by simp; omega
  have h1 := stepG_expanding p scan st _ _ 0 (by grind) (h.X_le (show j ≤ st.off - 1 by omega) hlen)
  have h2 := gV_left (decide (st.off + st.m < scan.length)) (scanX p scan (st.off - 1))
    (scanX p scan (st.off + st.m)) (xPos p scan st) (halfWidth st.c) (by
      intro hd
      have hd' : st.off + st.m < scan.length := by simpa using hd
      have := h.X_sep (show st.off - 1 < st.off + st.m by omega) hd'
      grind)
  simp only [stepG, spaceX, he, Bool.false_eq_true, if_false, hoff] at h1 ⊢
  grind

/-- Every open wire right of the box ends up at least `half_width` right of `x_pos`. -/
theorem stepG_right (h : Inv p scan depth) {j : Nat}
    (hj1 : st.off + st.m ≤ j) (hj2 : j < scan.length) :
    spaceX p scan st + halfWidth st.c ≤ stepG p scan st (scanX p scan j) := by
  have hlen : st.off + st.m < scan.length := by omega
  have he := isEmpty_false_of_lt hlen
  have hd : decide (st.off + st.m < scan.length) = true := by simpa using hlen
  have h1 := stepG_expanding p scan st _ _ 0 (by grind) (h.X_le hj1 hj2)
  have h2 := gV_right (decide (st.off ≠ 0)) (scanX p scan (st.off - 1))
    (scanX p scan (st.off + st.m)) (xPos p scan st) (halfWidth st.c)
  simp only [stepG, spaceX, he, Bool.false_eq_true, if_false, hd] at h1 ⊢
  grind

/-- The wires the box consumes do not move. -/
theorem stepG_mid (h : Inv p scan depth) (hin : st.off + st.m ≤ scan.length) {i : Nat}
    (hi : i < st.m) :
    stepG p scan st (scanX p scan (st.off + i)) = scanX p scan (st.off + i) := by
  have hlen : st.off + i < scan.length := by omega
  have he := isEmpty_false_of_lt hlen
  simp only [stepG, he, Bool.false_eq_true, if_false]
  apply gV_mid
  · intro hd
    have hd' : st.off ≠ 0 := by simpa using hd
    have := h.X_sep (show st.off - 1 < st.off + i by omega) hlen
    grind
  · intro hd
    have hd' : st.off + st.m < scan.length := by simpa using hd
    have := h.X_sep (show st.off + i < st.off + st.m by omega) hd'
    grind

end

/-! ### 7. One iteration of the loop -/

theorem mem_take_idx {l : List Node} {k : Nat} {a : Node} (h : a ∈ l.take k) :
    ∃ j, j < k ∧ ∃ hj : j < l.length, l[j] = a := by
  obtain ⟨j, hm, e⟩ := List.mem_take_iff_getElem.mp h
  exact ⟨j, by omega, by omega, e⟩

theorem mem_drop_idx {l : List Node} {k : Nat} {a : Node} (h : a ∈ l.drop k) :
    ∃ j, k ≤ j ∧ ∃ hj : j < l.length, l[j] = a := by
  obtain ⟨j, hm, e⟩ := List.mem_drop_iff_getElem.mp h
  exact ⟨k + j, by omega, by omega, e⟩

/-- The nodes `add_box` inserts for box `depth`. -/
def stepNodes (st : Step) (depth : Nat) : List Node :=
  [boxNode depth] ++ (List.range st.m).map (domNode depth) ++ (List.range st.c).map (codNode depth)

theorem keys_boxPlaced (p : Pos) (scan : List Node) (st : Step) (n depth : Nat) (x : Rat) :
    keys (boxPlaced p scan st n depth x) = stepNodes st depth := by
  simp [keys, boxPlaced, stepNodes, Function.comp_def]

theorem nodup_map_range (f : Nat → Node) (hf : ∀ i j, i < j → f i ≠ f j) (n : Nat) :
    ((List.range n).map f).Nodup := by
  rw [List.Nodup, List.pairwise_map]
  exact List.pairwise_lt_range.imp (fun h => hf _ _ h)

theorem mem_stepNodes {st : Step} {depth : Nat} {v : Node} (h : v ∈ stepNodes st depth) :
    v = boxNode depth ∨ (∃ i, i < st.m ∧ v = domNode depth i) ∨ (∃ i, i < st.c ∧ v = codNode depth i) := by
  simp only [stepNodes, List.mem_append, List.mem_singleton, List.mem_map, List.mem_range] at h
  rcases h with (h | ⟨i, hi, e⟩) | ⟨i, hi, e⟩
  · exact Or.inl h
  · exact Or.inr (Or.inl ⟨i, hi, e.symm⟩)
  · exact Or.inr (Or.inr ⟨i, hi, e.symm⟩)

theorem stepNodes_nodup (st : Step) (depth : Nat) : (stepNodes st depth).Nodup := by
  unfold stepNodes
  rw [List.nodup_append, List.nodup_append]
  refine ⟨⟨by simp, nodup_map_range _ (fun i j h => by simp [domNode]; omega) _, ?_⟩,
    nodup_map_range _ (fun i j h => by simp [codNode]; omega) _, ?_⟩
  · intro a ha b hb
    simp only [List.mem_singleton] at ha
    simp only [List.mem_map] at hb
    obtain ⟨i, -, rfl⟩ := hb
    subst ha; simp [boxNode, domNode]
  · intro a ha b hb
    simp only [List.mem_append, List.mem_singleton, List.mem_map] at ha hb
    obtain ⟨j, -, rfl⟩ := hb
    rcases ha with rfl | ⟨i, -, rfl⟩ <;> simp [boxNode, domNode, codNode]

theorem stepNodes_new {st : Step} {depth : Nat} {v : Node} (h : v ∈ stepNodes st depth) :
    v.kind ≠ .input ∧ v.kind ≠ .output ∧ v.depth = depth := by
  rcases mem_stepNodes h with rfl | ⟨i, -, rfl⟩ | ⟨i, -, rfl⟩ <;> simp [boxNode, domNode, codNode]

/-- The `pos` dict after one iteration. -/
def stepPos (n : Nat) (p : Pos) (scan : List Node) (depth : Nat) (st : Step) : Pos :=
  spacePos p scan st ++ boxPlaced (spacePos p scan st) scan st n depth (spaceX p scan st)

/-- `p'` extends `p`: every gap and every vertical alignment of `p` still holds in `p'`. -/
def Pos.le (p p' : Pos) : Prop :=
  (∀ g a b, 0 ≤ g → p.sep g a b → p'.sep g a b) ∧ (∀ a b, p.eqx a b → p'.eqx a b)

theorem Pos.le.refl (p : Pos) : p.le p := ⟨fun _ _ _ _ h => h, fun _ _ h => h⟩

theorem Pos.le.trans {p q r : Pos} (h1 : p.le q) (h2 : q.le r) : p.le r :=
  ⟨fun g a b hg h => h2.1 g a b hg (h1.1 g a b hg h), fun a b h => h2.2 a b (h1.2 a b h)⟩

theorem Pos.le.mapX_append (p : Pos) {f : Rat → Rat} (hf : Expanding f) (q : Pos) :
    p.le (p.mapX f ++ q) :=
  ⟨fun _ _ _ hg h => (h.mapX hf hg).append q, fun _ _ h => (h.mapX f).append q⟩

section
variable {p : Pos} {scan : List Node} {depth : Nat} {st : Step} (n : Nat)

theorem stepPos_eq (h : Inv p scan depth) :
    stepPos n p scan depth st = p.mapX (stepG p scan st)
      ++ boxPlaced (p.mapX (stepG p scan st)) scan st n depth (spaceX p scan st) := by
  unfold stepPos; rw [spacePos_eq h.has]

theorem step_le (h : Inv p scan depth) : p.le (stepPos n p scan depth st) := by
  rw [stepPos_eq n h]; exact Pos.le.mapX_append p (stepG_expanding p scan st) _

theorem keys_stepPos (h : Inv p scan depth) :
    keys (stepPos n p scan depth st) = keys p ++ stepNodes st depth := by
  rw [stepPos_eq n h, keys_append, keys_mapX, keys_boxPlaced]

theorem step_nodup (h : Inv p scan depth) : (keys (stepPos n p scan depth st)).Nodup := by
  rw [keys_stepPos n h, List.nodup_append]
  refine ⟨h.nodup, stepNodes_nodup _ _, ?_⟩
  intro a ha b hb e
  subst e
  have hn := stepNodes_new hb
  rcases h.old a ha with h1 | ⟨_, _, h3⟩
  · exact hn.1 h1
  · omega

theorem step_old (h : Inv p scan depth) :
    ∀ v ∈ keys (stepPos n p scan depth st), Old (depth + 1) v := by
  intro v hv
  rw [keys_stepPos n h, List.mem_append] at hv
  rcases hv with hv | hv
  · rcases h.old v hv with h1 | ⟨h1, h2, h3⟩
    · exact Or.inl h1
    · exact Or.inr ⟨h1, h2, by omega⟩
  · have hn := stepNodes_new hv
    exact Or.inr ⟨hn.2.1, hn.1, by omega⟩

/-- Coordinates after the iteration: old open wires. -/
theorem step_x?_scan (h : Inv p scan depth) {j : Nat} (hj : j < scan.length) :
    (stepPos n p scan depth st).x? scan[j] = some (stepG p scan st (scanX p scan j)) := by
  rw [stepPos_eq n h]
  apply x?_append_of_some
  rw [x?_mapX, scanX_of_has h.has hj]; rfl

theorem step_x?_box (h : Inv p scan depth) :
    (stepPos n p scan depth st).x? (boxNode depth) = some (spaceX p scan st) := by
  have hq : (⟨boxNode depth, spaceX p scan st, boxY n depth⟩ : Placed) ∈ stepPos n p scan depth st := by
    rw [stepPos_eq n h]; simp [boxPlaced]
  exact x?_of_mem (step_nodup n h) hq

theorem step_x?_dom (h : Inv p scan depth) (hin : st.off + st.m ≤ scan.length) {i : Nat}
    (hi : i < st.m) :
    (stepPos n p scan depth st).x? (domNode depth i)
      = some (stepG p scan st (scanX p scan (st.off + i))) := by
  have hq : (⟨domNode depth i, scanX (p.mapX (stepG p scan st)) scan (st.off + i), domY n depth⟩
      : Placed) ∈ stepPos n p scan depth st := by
    rw [stepPos_eq n h]
    simp only [boxPlaced, List.mem_append, List.mem_map, List.mem_range]
    exact Or.inr (Or.inl (Or.inr ⟨i, hi, rfl⟩))
  have := x?_of_mem (step_nodup n h) hq
  rwa [scanX_mapX _ h.has (by omega)] at this

theorem step_x?_cod (h : Inv p scan depth) {i : Nat} (hi : i < st.c) :
    (stepPos n p scan depth st).x? (codNode depth i)
      = some (codX (p.mapX (stepG p scan st)) scan st (spaceX p scan st) i) := by
  have hq : (⟨codNode depth i, codX (p.mapX (stepG p scan st)) scan st (spaceX p scan st) i,
      codY n depth⟩ : Placed) ∈ stepPos n p scan depth st := by
    rw [stepPos_eq n h]
    simp only [boxPlaced, List.mem_append, List.mem_map, List.mem_range]
    exact Or.inr (Or.inr ⟨i, hi, rfl⟩)
  exact x?_of_mem (step_nodup n h) hq

end

/-! ### 8. The new nodes sit inside the gap `make_space` opened -/

/-- `xv` is at least one unit right of every open wire left of the box and at least one unit
    left of every open wire right of it (positions after `make_space`). -/
def InGap (p : Pos) (scan : List Node) (st : Step) (xv : Rat) : Prop :=
  (∀ j, j < st.off → stepG p scan st (scanX p scan j) + 1 ≤ xv) ∧
  (∀ j, st.off + st.m ≤ j → j < scan.length → xv + 1 ≤ stepG p scan st (scanX p scan j))

section
variable {p : Pos} {scan : List Node} {depth : Nat} {st : Step} (n : Nat)

theorem inGap_box (h : Inv p scan depth) (hin : st.off + st.m ≤ scan.length) :
    InGap p scan st (spaceX p scan st) := by
  have hw := halfWidth_ge st.c
  constructor
  · intro j hj; have := stepG_left h hin hj; grind
  · intro j h1 h2; have := stepG_right h h1 h2; grind

theorem inGap_mid (h : Inv p scan depth) (hin : st.off + st.m ≤ scan.length) {i : Nat}
    (hi : i < st.m) : InGap p scan st (stepG p scan st (scanX p scan (st.off + i))) := by
  constructor
  · intro j hj
    exact stepG_expanding p scan st _ _ 1 (by grind)
      (h.X_sep (show j < st.off + i by omega) (by omega))
  · intro j h1 h2
    exact stepG_expanding p scan st _ _ 1 (by grind)
      (h.X_sep (show st.off + i < j by omega) h2)

theorem inGap_cod (h : Inv p scan depth) (hin : st.off + st.m ≤ scan.length) {i : Nat}
    (hi : i < st.c) :
    InGap p scan st (codX (p.mapX (stepG p scan st)) scan st (spaceX p scan st) i) := by
  unfold codX
  by_cases hmc : st.m = st.c
  · rw [if_pos hmc, scanX_mapX _ h.has (by omega)]
    exact inGap_mid h hin (by omega)
  · rw [if_neg hmc]
    have h0 : (0 : Rat) ≤ (i : Rat) := by exact_mod_cast Nat.zero_le _
    have h1 : (i : Rat) ≤ ((st.c - 1 : Nat) : Rat) := by
      exact_mod_cast (show i ≤ st.c - 1 by omega)
    constructor
    · intro j hj; have := stepG_left h hin hj; unfold halfWidth at this; grind
    · intro j hj1 hj2; have := stepG_right h hj1 hj2; unfold halfWidth at this; grind

/-- Every node of the new box is placed, inside the gap. -/
theorem step_new_inGap (h : Inv p scan depth) (hin : st.off + st.m ≤ scan.length) {v : Node}
    (hv : v ∈ stepNodes st depth) :
    ∃ xv, (stepPos n p scan depth st).x? v = some xv ∧ InGap p scan st xv := by
  rcases mem_stepNodes hv with rfl | ⟨i, hi, rfl⟩ | ⟨i, hi, rfl⟩
  · exact ⟨_, step_x?_box n h, inGap_box h hin⟩
  · exact ⟨_, step_x?_dom n h hin hi, inGap_mid h hin hi⟩
  · exact ⟨_, step_x?_cod n h hi, inGap_cod h hin hi⟩

theorem sep_left_of_inGap (h : Inv p scan depth) {v : Node} {xv : Rat}
    (hv : (stepPos n p scan depth st).x? v = some xv) (hg : InGap p scan st xv) :
    ∀ a ∈ scan.take st.off, (stepPos n p scan depth st).sep 1 a v := by
  intro a ha
  obtain ⟨j, hj, hjl, rfl⟩ := mem_take_idx ha
  exact ⟨_, xv, step_x?_scan n h hjl, hv, hg.1 j hj⟩

theorem sep_right_of_inGap (h : Inv p scan depth) {v : Node} {xv : Rat}
    (hv : (stepPos n p scan depth st).x? v = some xv) (hg : InGap p scan st xv) :
    ∀ b ∈ scan.drop (st.off + st.m), (stepPos n p scan depth st).sep 1 v b := by
  intro b hb
  obtain ⟨j, hj, hjl, rfl⟩ := mem_drop_idx hb
  exact ⟨xv, _, hv, step_x?_scan n h hjl, hg.2 j hj hjl⟩

/-- What one iteration establishes about the box it adds (all in the NEW positions). -/
structure StepFacts (p' : Pos) (scan : List Node) (st : Step) (depth : Nat) : Prop where
  /-- the open wires before the box are (still) at least one unit apart, in order -/
  sorted : scan.Pairwise (p'.sep 1)
  /-- box centre and every port: at least one unit right of every wire left of the box -/
  left : ∀ a ∈ scan.take st.off, ∀ v ∈ stepNodes st depth, p'.sep 1 a v
  /-- … and at least one unit left of every wire right of the box -/
  right : ∀ b ∈ scan.drop (st.off + st.m), ∀ v ∈ stepNodes st depth, p'.sep 1 v b
  /-- each consumed wire enters its port vertically -/
  vertical : ∀ i, i < st.m → p'.eqx (scan.getD (st.off + i) default) (domNode depth i)

theorem StepFacts.mono {p' p'' : Pos} {scan : List Node} {st : Step} {depth : Nat}
    (hle : p'.le p'') (h : StepFacts p' scan st depth) : StepFacts p'' scan st depth :=
  ⟨h.sorted.imp (fun hab => hle.1 _ _ _ (by grind) hab),
   fun a ha v hv => hle.1 _ _ _ (by grind) (h.left a ha v hv),
   fun b hb v hv => hle.1 _ _ _ (by grind) (h.right b hb v hv),
   fun i hi => hle.2 _ _ (h.vertical i hi)⟩

theorem step_facts (h : Inv p scan depth) (hin : st.off + st.m ≤ scan.length) :
    StepFacts (stepPos n p scan depth st) scan st depth := by
  refine ⟨h.sorted.imp (fun hab => (step_le n h).1 _ _ _ (by grind) hab), ?_, ?_, ?_⟩
  · intro a ha v hv
    obtain ⟨xv, hx, hg⟩ := step_new_inGap n h hin hv
    exact sep_left_of_inGap n h hx hg a ha
  · intro b hb v hv
    obtain ⟨xv, hx, hg⟩ := step_new_inGap n h hin hv
    exact sep_right_of_inGap n h hx hg b hb
  · intro i hi
    have hl : st.off + i < scan.length := by omega
    rw [getD_eq _ _ _ hl]
    exact ⟨_, step_x?_scan n h hl, step_x?_dom n h hin hi⟩

/-- The new open wires (the box's codomain ports) are at least one unit apart. -/
theorem step_cod_sorted (h : Inv p scan depth) (hin : st.off + st.m ≤ scan.length) :
    ((List.range st.c).map (codNode depth)).Pairwise ((stepPos n p scan depth st).sep 1) := by
  rw [List.pairwise_map]
  refine List.pairwise_lt_range.imp_of_mem ?_
  intro i j hi hj hij
  have hi := List.mem_range.mp hi
  have hj := List.mem_range.mp hj
  refine ⟨_, _, step_x?_cod n h hi, step_x?_cod n h hj, ?_⟩
  unfold codX
  by_cases hmc : st.m = st.c
  · rw [if_pos hmc, if_pos hmc, scanX_mapX _ h.has (by omega), scanX_mapX _ h.has (by omega)]
    exact stepG_expanding p scan st _ _ 1 (by grind)
      (h.X_sep (show st.off + i < st.off + j by omega) (by omega))
  · rw [if_neg hmc, if_neg hmc]
    have : (i : Rat) + 1 ≤ (j : Rat) := by exact_mod_cast hij
    grind

/-- The invariant is re-established for the scan `add_box` returns. -/
theorem step_inv (h : Inv p scan depth) (hin : st.off + st.m ≤ scan.length) :
    Inv (stepPos n p scan depth st) (nextScan scan st depth) (depth + 1) := by
  have hf := step_facts n h hin
  refine ⟨step_nodup n h, step_old n h, ?_, ?_⟩
  · intro v hv
    simp only [nextScan, List.mem_append] at hv
    rcases hv with (hv | hv) | hv
    · obtain ⟨j, _, hjl, rfl⟩ := mem_take_idx hv
      exact ⟨_, step_x?_scan n h hjl⟩
    · obtain ⟨i, hi, rfl⟩ := List.mem_map.mp hv
      exact ⟨_, step_x?_cod n h (List.mem_range.mp hi)⟩
    · obtain ⟨j, _, hjl, rfl⟩ := mem_drop_idx hv
      exact ⟨_, step_x?_scan n h hjl⟩
  · have hcod : ∀ v ∈ (List.range st.c).map (codNode depth), v ∈ stepNodes st depth := by
      intro v hv; simp only [stepNodes, List.mem_append]; exact Or.inr hv
    have hAB : (scan.take st.off ++ scan.drop (st.off + st.m)).Pairwise
        ((stepPos n p scan depth st).sep 1) := by
      refine List.Pairwise.sublist ?_ hf.sorted
      have : scan.take st.off ++ scan.drop (st.off + st.m)
          = scan.take st.off ++ (scan.drop st.off).drop st.m := by rw [List.drop_drop]
      rw [this]
      conv => rhs; rw [← List.take_append_drop st.off scan]
      exact List.Sublist.append (List.Sublist.refl _) (List.drop_sublist _ _)
    rw [List.pairwise_append] at hAB
    simp only [nextScan]
    rw [List.pairwise_append, List.pairwise_append]
    refine ⟨⟨hAB.1, step_cod_sorted n h hin, fun a ha v hv => hf.left a ha v (hcod v hv)⟩,
      hAB.2.1, ?_⟩
    intro a ha b hb
    rcases List.mem_append.mp ha with ha | ha
    · exact hAB.2.2 a ha b hb
    · exact hf.right b hb a (hcod a ha)

end

/-! ### 9. The whole loop -/

theorem nextScan_length {scan : List Node} {st : Step} (depth : Nat)
    (hin : st.off + st.m ≤ scan.length) :
    (nextScan scan st depth).length = scan.length - st.m + st.c := by
  simp only [nextScan, List.length_append, List.length_take, List.length_map, List.length_range,
    List.length_drop]
  omega

theorem Pos.le.append (p q : Pos) : p.le (p ++ q) :=
  ⟨fun _ _ _ _ h => h.append q, fun _ _ h => h.append q⟩

/-- Scans are looked up by index: `(scansFrom scan d steps)[k]?` is the scan before box `k`. -/
theorem scansFrom_zero (scan : List Node) (d : Nat) (steps : List Step) :
    (scansFrom scan d steps)[0]? = some scan := by
  cases steps <;> rfl

theorem scansFrom_length (scan : List Node) (d : Nat) (steps : List Step) :
    (scansFrom scan d steps).length = steps.length + 1 := by
  induction steps generalizing scan d with
  | nil => rfl
  | cons st r ih => simp [scansFrom, ih]

/-- The facts established by a run, in its FINAL positions, for each of its boxes. -/
theorem run_spec (n : Nat) : ∀ (steps : List Step) (s : St) (depth out : Nat),
    Inv s.pos s.scan depth → StepsOK s.scan.length steps out →
    Inv (run n s depth steps).pos (run n s depth steps).scan (depth + steps.length)
    ∧ s.pos.le (run n s depth steps).pos
    ∧ (run n s depth steps).scan.length = out
    ∧ (scansFrom s.scan depth steps)[steps.length]? = some (run n s depth steps).scan
    ∧ ∀ k st sc, steps[k]? = some st → (scansFrom s.scan depth steps)[k]? = some sc →
        st.off + st.m ≤ sc.length ∧ StepFacts (run n s depth steps).pos sc st (depth + k) := by
  intro steps
  induction steps with
  | nil =>
    intro s depth out hinv hok
    refine ⟨by simpa [run] using hinv, Pos.le.refl _, by simpa [StepsOK, run] using hok, rfl, ?_⟩
    intro k st sc hk; simp at hk
  | cons st0 r ih =>
    intro s depth out hinv hok
    obtain ⟨hin, hok'⟩ := hok
    have hinv' := step_inv n hinv hin
    have hfacts := step_facts (n := n) hinv hin
    have hle := step_le (st := st0) n hinv
    have hlen : (step n s depth st0).scan.length = s.scan.length - st0.m + st0.c :=
      nextScan_length depth hin
    obtain ⟨i1, i2, i3, i4, i5⟩ := ih (step n s depth st0) (depth + 1) out hinv'
      (by rw [hlen]; exact hok')
    refine ⟨?_, hle.trans i2, i3, ?_, ?_⟩
    · have : depth + (st0 :: r).length = depth + 1 + r.length := by simp; omega
      rw [this]; exact i1
    · simpa [scansFrom, run, step] using i4
    · intro k st sc hk hsc
      cases k with
      | zero =>
        simp only [List.getElem?_cons_zero, Option.some.injEq] at hk
        simp only [scansFrom, List.getElem?_cons_zero, Option.some.injEq] at hsc
        subst hk; subst hsc
        exact ⟨hin, hfacts.mono i2⟩
      | succ k =>
        simp only [List.getElem?_cons_succ] at hk
        simp only [scansFrom, List.getElem?_cons_succ] at hsc
        have := i5 k st sc hk hsc
        have e : depth + 1 + k = depth + (k + 1) := by omega
        rw [e] at this
        exact this

/-! ### 10. The initial state -/

theorem nodup_inputs (k : Nat) : ((List.range k).map inputNode).Nodup :=
  nodup_map_range _ (fun i j h => by simp [inputNode]; omega) _

theorem keys_init (nIn n : Nat) : keys (initSt nIn n).pos = (List.range nIn).map inputNode := by
  simp [keys, initSt, Function.comp_def]

theorem init_x? (nIn n : Nat) {i : Nat} (hi : i < nIn) :
    (initSt nIn n).pos.x? (inputNode i) = some (i : Rat) := by
  have hq : (⟨inputNode i, (i : Rat), topY n⟩ : Placed) ∈ (initSt nIn n).pos := by
    simp only [initSt, List.mem_map, List.mem_range]; exact ⟨i, hi, rfl⟩
  exact x?_of_mem (by rw [keys_init]; exact nodup_inputs _) hq

theorem init_inv (nIn n : Nat) : Inv (initSt nIn n).pos (initSt nIn n).scan 0 := by
  refine ⟨by rw [keys_init]; exact nodup_inputs _, ?_, ?_, ?_⟩
  · intro v hv
    rw [keys_init] at hv
    obtain ⟨i, -, rfl⟩ := List.mem_map.mp hv
    exact Or.inl rfl
  · intro v hv
    obtain ⟨i, hi, rfl⟩ := List.mem_map.mp hv
    exact ⟨_, init_x? nIn n (List.mem_range.mp hi)⟩
  · show ((List.range nIn).map inputNode).Pairwise _
    rw [List.pairwise_map]
    refine List.pairwise_lt_range.imp_of_mem ?_
    intro i j hi hj hij
    refine ⟨_, _, init_x? nIn n (List.mem_range.mp hi), init_x? nIn n (List.mem_range.mp hj), ?_⟩
    exact_mod_cast hij

/-! ### 11. The graph `diagram2nx` returns -/

/-- The state after the last box. -/
def finalSt (sh : Shape) : St := run sh.steps.length (initSt sh.nIn sh.steps.length) 0 sh.steps

theorem layout_nodes (sh : Shape) :
    (layout sh).nodes = (finalSt sh).pos ++ outPlaced (finalSt sh).pos (finalSt sh).scan sh.nOut := rfl

theorem layout_scans (sh : Shape) :
    (layout sh).scans = scansFrom ((List.range sh.nIn).map inputNode) 0 sh.steps := rfl

theorem final_spec (sh : Shape) (h : sh.WF) :
    Inv (finalSt sh).pos (finalSt sh).scan (0 + sh.steps.length)
    ∧ (initSt sh.nIn sh.steps.length).pos.le (finalSt sh).pos
    ∧ (finalSt sh).scan.length = sh.nOut
    ∧ (scansFrom (initSt sh.nIn sh.steps.length).scan 0 sh.steps)[sh.steps.length]?
        = some (finalSt sh).scan
    ∧ ∀ k st sc, sh.steps[k]? = some st →
        (scansFrom (initSt sh.nIn sh.steps.length).scan 0 sh.steps)[k]? = some sc →
        st.off + st.m ≤ sc.length ∧ StepFacts (finalSt sh).pos sc st (0 + k) :=
  run_spec sh.steps.length sh.steps (initSt sh.nIn sh.steps.length) 0 sh.nOut
    (init_inv _ _) (by simpa [initSt, Shape.WF] using h)

theorem keys_outPlaced (p : Pos) (scan : List Node) (k : Nat) :
    keys (outPlaced p scan k) = (List.range k).map outputNode := by
  simp [keys, outPlaced, Function.comp_def]

theorem layout_nodup (sh : Shape) (h : sh.WF) : (keys (layout sh).nodes).Nodup := by
  obtain ⟨hinv, -⟩ := final_spec sh h
  rw [layout_nodes, keys_append, keys_outPlaced, List.nodup_append]
  refine ⟨hinv.nodup, nodup_map_range _ (fun i j h => by simp [outputNode]; omega) _, ?_⟩
  intro a ha b hb e
  obtain ⟨i, -, rfl⟩ := List.mem_map.mp hb
  subst e
  rcases hinv.old _ ha with h1 | ⟨h1, -⟩
  · simp [outputNode] at h1
  · simp [outputNode] at h1

theorem final_le_layout (sh : Shape) : (finalSt sh).pos.le (layout sh).nodes := by
  rw [layout_nodes]; exact Pos.le.append _ _

theorem layout_x?_output (sh : Shape) (h : sh.WF) {i : Nat} (hi : i < sh.nOut) :
    (layout sh).nodes.x? (outputNode i) = some (scanX (finalSt sh).pos (finalSt sh).scan i) := by
  have hq : (⟨outputNode i, scanX (finalSt sh).pos (finalSt sh).scan i, 0⟩ : Placed)
      ∈ (layout sh).nodes := by
    rw [layout_nodes]
    simp only [outPlaced, List.mem_append, List.mem_map, List.mem_range]
    exact Or.inr ⟨i, hi, rfl⟩
  exact x?_of_mem (layout_nodup sh h) hq

/-- At every height the open wires are at least one unit apart, in scan order. -/
theorem layout_scans_sorted (sh : Shape) (h : sh.WF) :
    ∀ s ∈ (layout sh).scans, s.Pairwise ((layout sh).nodes.sep 1) := by
  intro s hs
  obtain ⟨hinv, -, -, hlast, hfacts⟩ := final_spec sh h
  rw [layout_scans] at hs
  obtain ⟨k, hk, rfl⟩ := List.mem_iff_getElem.mp hs
  rw [scansFrom_length] at hk
  have hle := final_le_layout sh
  by_cases hkn : k < sh.steps.length
  · have h1 := (hfacts k sh.steps[k] _ (by simp [hkn]) (by
      simp only [initSt]; rw [List.getElem?_eq_getElem (by rw [scansFrom_length]; omega)])).2.sorted
    exact h1.imp (fun hab => hle.1 _ _ _ (by grind) hab)
  · have hk' : k = sh.steps.length := by omega
    subst hk'
    simp only [initSt] at hlast
    rw [List.getElem?_eq_getElem (by rw [scansFrom_length]; omega)] at hlast
    have hlast' := Option.some.inj hlast
    rw [hlast']
    exact hinv.sorted.imp (fun hab => hle.1 _ _ _ (by grind) hab)

/-- Every box (centre and all ports) is at least one unit right of every open wire to its left
    and at least one unit left of every open wire to its right, at its own height. -/
theorem layout_box_between (sh : Shape) (h : sh.WF) (k : Nat) (st : Step) (sc : List Node)
    (hst : sh.steps[k]? = some st) (hsc : (layout sh).scans[k]? = some sc) :
    st.off + st.m ≤ sc.length
    ∧ (∀ a ∈ sc.take st.off, ∀ v ∈ stepNodes st k, (layout sh).nodes.sep 1 a v)
    ∧ (∀ b ∈ sc.drop (st.off + st.m), ∀ v ∈ stepNodes st k, (layout sh).nodes.sep 1 v b)
    ∧ (∀ i, i < st.m → (layout sh).nodes.eqx (sc.getD (st.off + i) default) (domNode k i)) := by
  obtain ⟨-, -, -, -, hfacts⟩ := final_spec sh h
  obtain ⟨hin, hf⟩ := hfacts k st sc hst (by simpa [initSt, layout_scans] using hsc)
  have hf' := hf.mono (final_le_layout sh)
  rw [Nat.zero_add] at hf'
  exact ⟨hin, hf'.left, hf'.right, hf'.vertical⟩

/-- Each output hangs vertically below the open wire it closes. -/
theorem layout_output_vertical (sh : Shape) (h : sh.WF) {i : Nat} (hi : i < sh.nOut) :
    (layout sh).nodes.eqx ((finalSt sh).scan.getD i default) (outputNode i) := by
  obtain ⟨hinv, -, hlen, -, -⟩ := final_spec sh h
  have hl : i < (finalSt sh).scan.length := by rw [hlen]; exact hi
  rw [getD_eq _ _ _ hl]
  refine ⟨_, ?_, layout_x?_output sh h hi⟩
  rw [layout_nodes]
  exact x?_append_of_some _ (scanX_of_has hinv.has hl)

/-! ### 12. Census of nodes and edges (no hypothesis on the shape) -/

theorem spacePos_mapX (p : Pos) (scan : List Node) (st : Step) :
    ∃ f, spacePos p scan st = p.mapX f := by
  unfold spacePos
  by_cases he : scan.isEmpty
  · exact ⟨fun t => t, by rw [if_pos he, mapX_id]⟩
  · rw [if_neg he, padLeft_eq, padRight_eq, mapX_mapX]; exact ⟨_, rfl⟩

theorem keys_spacePos (p : Pos) (scan : List Node) (st : Step) :
    keys (spacePos p scan st) = keys p := by
  obtain ⟨f, hf⟩ := spacePos_mapX p scan st
  rw [hf, keys_mapX]

/-- The nodes inserted for boxes `depth, depth+1, …`. -/
def nodesFrom : Nat → List Step → List Node
  | _, [] => []
  | depth, st :: r => stepNodes st depth ++ nodesFrom (depth + 1) r

/-- The edges inserted for boxes `depth, depth+1, …`, starting from the open wires `scan`. -/
def edgesFrom : List Node → Nat → List Step → List (Node × Node)
  | _, _, [] => []
  | scan, depth, st :: r => boxEdges scan st depth ++ edgesFrom (nextScan scan st depth) (depth + 1) r

theorem run_keys (n : Nat) : ∀ (steps : List Step) (s : St) (d : Nat),
    keys (run n s d steps).pos = keys s.pos ++ nodesFrom d steps := by
  intro steps
  induction steps with
  | nil => intro s d; simp [run, nodesFrom]
  | cons st r ih =>
    intro s d
    simp only [run, nodesFrom]
    rw [ih]
    simp [step, keys_spacePos, keys_boxPlaced]

theorem run_edges (n : Nat) : ∀ (steps : List Step) (s : St) (d : Nat),
    (run n s d steps).edges = s.edges ++ edgesFrom s.scan d steps := by
  intro steps
  induction steps with
  | nil => intro s d; simp [run, edgesFrom]
  | cons st r ih =>
    intro s d
    simp only [run, edgesFrom]
    rw [ih]
    simp [step]

theorem run_scan (n : Nat) : ∀ (steps : List Step) (s : St) (d : Nat),
    (scansFrom s.scan d steps)[steps.length]? = some (run n s d steps).scan := by
  intro steps
  induction steps with
  | nil => intro s d; rfl
  | cons st r ih =>
    intro s d
    simpa [scansFrom, run, step] using ih (step n s d st) (d + 1)

/-- All nodes of the graph, in insertion order. -/
def allNodes (sh : Shape) : List Node :=
  (List.range sh.nIn).map inputNode ++ nodesFrom 0 sh.steps ++ (List.range sh.nOut).map outputNode

theorem layout_keys (sh : Shape) : keys (layout sh).nodes = allNodes sh := by
  rw [layout_nodes, keys_append, keys_outPlaced, finalSt, run_keys, keys_init, allNodes]

theorem nodesFrom_length (d : Nat) (steps : List Step) :
    (nodesFrom d steps).length = (steps.map (fun st => 1 + st.m + st.c)).sum := by
  induction steps generalizing d with
  | nil => rfl
  | cons st r ih => simp [nodesFrom, stepNodes, ih]; omega

/-- One node per input, per box, per box port, per output. -/
theorem layout_nodes_length (sh : Shape) :
    (layout sh).nodes.length
      = sh.nIn + (sh.steps.map (fun st => 1 + st.m + st.c)).sum + sh.nOut := by
  have : (layout sh).nodes.length = (keys (layout sh).nodes).length := by simp [keys]
  rw [this, layout_keys]
  simp [allNodes, nodesFrom_length]; omega

theorem layout_edges (sh : Shape) :
    (layout sh).edges = edgesFrom ((List.range sh.nIn).map inputNode) 0 sh.steps
      ++ outEdges (finalSt sh).scan sh.nOut := by
  show (finalSt sh).edges ++ _ = _
  rw [finalSt, run_edges]; rfl

theorem mem_nodesFrom {d : Nat} {steps : List Step} {k : Nat} {st : Step} {v : Node}
    (hk : steps[k]? = some st) (hv : v ∈ stepNodes st (d + k)) : v ∈ nodesFrom d steps := by
  induction steps generalizing d k with
  | nil => simp at hk
  | cons st0 r ih =>
    cases k with
    | zero =>
      simp only [List.getElem?_cons_zero, Option.some.injEq] at hk
      subst hk
      exact List.mem_append_left _ (by simpa using hv)
    | succ k =>
      simp only [List.getElem?_cons_succ] at hk
      refine List.mem_append_right _ (ih hk ?_)
      have e : d + 1 + k = d + (k + 1) := by omega
      rw [e]; exact hv

theorem mem_boxEdges {sc : List Node} {st : Step} {d : Nat} {e : Node × Node} :
    e ∈ boxEdges sc st d ↔
      (∃ i, i < st.m ∧ e = (sc.getD (st.off + i) default, domNode d i))
      ∨ (∃ i, i < st.m ∧ e = (domNode d i, boxNode d))
      ∨ (∃ i, i < st.c ∧ e = (boxNode d, codNode d i)) := by
  simp only [boxEdges, List.mem_append, List.mem_flatten, List.mem_map, List.mem_range]
  constructor
  · rintro (⟨l, ⟨i, hi, rfl⟩, hel⟩ | ⟨i, hi, rfl⟩)
    · simp only [List.mem_cons, List.not_mem_nil, or_false] at hel
      rcases hel with rfl | rfl
      · exact Or.inl ⟨i, hi, rfl⟩
      · exact Or.inr (Or.inl ⟨i, hi, rfl⟩)
    · exact Or.inr (Or.inr ⟨i, hi, rfl⟩)
  · rintro (⟨i, hi, rfl⟩ | ⟨i, hi, rfl⟩ | ⟨i, hi, rfl⟩)
    · exact Or.inl ⟨_, ⟨i, hi, rfl⟩, by simp⟩
    · exact Or.inl ⟨_, ⟨i, hi, rfl⟩, by simp⟩
    · exact Or.inr ⟨i, hi, rfl⟩

theorem mem_edgesFrom {scan : List Node} {d : Nat} {steps : List Step} {e : Node × Node} :
    e ∈ edgesFrom scan d steps ↔
      ∃ k st sc, steps[k]? = some st ∧ (scansFrom scan d steps)[k]? = some sc
        ∧ e ∈ boxEdges sc st (d + k) := by
  induction steps generalizing scan d with
  | nil => simp [edgesFrom]
  | cons st0 r ih =>
    simp only [edgesFrom, List.mem_append, ih]
    constructor
    · rintro (h | ⟨k, st, sc, h1, h2, h3⟩)
      · exact ⟨0, st0, scan, rfl, rfl, by simpa using h⟩
      · refine ⟨k + 1, st, sc, by simpa using h1, by simpa [scansFrom] using h2, ?_⟩
        have e' : d + 1 + k = d + (k + 1) := by omega
        rw [← e']; exact h3
    · rintro ⟨k, st, sc, h1, h2, h3⟩
      cases k with
      | zero =>
        simp only [List.getElem?_cons_zero, Option.some.injEq] at h1
        simp only [scansFrom, List.getElem?_cons_zero, Option.some.injEq] at h2
        subst h1; subst h2
        exact Or.inl (by simpa using h3)
      | succ k =>
        simp only [List.getElem?_cons_succ] at h1
        simp only [scansFrom, List.getElem?_cons_succ] at h2
        refine Or.inr ⟨k, st, sc, h1, h2, ?_⟩
        have e' : d + 1 + k = d + (k + 1) := by omega
        rw [e']; exact h3

/-! ### 13. Heights -/

/-- The height (in quarter-units) `diagram2nx` gives a node of a diagram with `n` boxes. -/
def yOf (n : Nat) (v : Node) : Int :=
  match v.kind with
  | .input => topY n
  | .output => 0
  | .box => boxY n v.depth
  | .dom => domY n v.depth
  | .cod => codY n v.depth

def YOk (n : Nat) (p : Pos) : Prop := ∀ q ∈ p, q.y = yOf n q.node

theorem YOk.mapX {n : Nat} {p : Pos} (f : Rat → Rat) (h : YOk n p) : YOk n (p.mapX f) := by
  intro q hq
  simp only [Pos.mapX, List.mem_map] at hq
  obtain ⟨q0, hq0, rfl⟩ := hq
  exact h q0 hq0

theorem YOk.append {n : Nat} {p q : Pos} (hp : YOk n p) (hq : YOk n q) : YOk n (p ++ q) := by
  intro r hr
  rcases List.mem_append.mp hr with h | h
  · exact hp r h
  · exact hq r h

theorem yOk_boxPlaced (n : Nat) (p : Pos) (scan : List Node) (st : Step) (d : Nat) (x : Rat) :
    YOk n (boxPlaced p scan st n d x) := by
  intro q hq
  simp only [boxPlaced, List.mem_append, List.mem_singleton, List.mem_map, List.mem_range] at hq
  rcases hq with (rfl | ⟨i, -, rfl⟩) | ⟨i, -, rfl⟩ <;> rfl

theorem run_yOk (n : Nat) : ∀ (steps : List Step) (s : St) (d : Nat),
    YOk n s.pos → YOk n (run n s d steps).pos := by
  intro steps
  induction steps with
  | nil => intro s d h; exact h
  | cons st r ih =>
    intro s d h
    apply ih
    obtain ⟨f, hf⟩ := spacePos_mapX s.pos s.scan st
    show YOk n (spacePos s.pos s.scan st ++ _)
    exact YOk.append (by rw [hf]; exact h.mapX f) (yOk_boxPlaced _ _ _ _ _ _)

theorem layout_yOk (sh : Shape) : YOk sh.steps.length (layout sh).nodes := by
  rw [layout_nodes]
  refine YOk.append (run_yOk _ _ _ _ ?_) ?_
  · intro q hq
    simp only [initSt, List.mem_map, List.mem_range] at hq
    obtain ⟨i, -, rfl⟩ := hq; rfl
  · intro q hq
    simp only [outPlaced, List.mem_map, List.mem_range] at hq
    obtain ⟨i, -, rfl⟩ := hq; rfl

theorem y?_of_mem_keys {n : Nat} {p : Pos} (h : YOk n p) {v : Node} (hv : v ∈ keys p) :
    p.y? v = some (yOf n v) := by
  induction p with
  | nil => simp [keys] at hv
  | cons q p ih =>
    simp only [Pos.y?, List.find?_cons]
    by_cases e : q.node = v
    · subst e; simp [h q (List.mem_cons_self ..)]
    · have hb : (q.node == v) = false := by simpa using e
      simp only [hb]
      have hv' : v ∈ keys p := by
        simp only [keys, List.map_cons, List.mem_cons] at hv
        rcases hv with rfl | hv
        · exact absurd rfl e
        · exact hv
      exact ih (fun r hr => h r (List.mem_cons_of_mem _ hr)) hv'

/-! ### 14. Open wires are inputs or codomain ports of earlier boxes -/

def Open (depth : Nat) (v : Node) : Prop :=
  v.kind = .input ∨ (v.kind = .cod ∧ v.depth < depth)

theorem nextScan_open {scan : List Node} {st : Step} {d : Nat} (h : ∀ v ∈ scan, Open d v) :
    ∀ v ∈ nextScan scan st d, Open (d + 1) v := by
  intro v hv
  simp only [nextScan, List.mem_append, List.mem_map, List.mem_range] at hv
  have up : ∀ w, Open d w → Open (d + 1) w := by
    rintro w (h1 | ⟨h1, h2⟩)
    · exact Or.inl h1
    · exact Or.inr ⟨h1, by omega⟩
  rcases hv with (hv | ⟨i, -, rfl⟩) | hv
  · exact up v (h v (List.mem_of_mem_take hv))
  · exact Or.inr ⟨rfl, by simp [codNode]⟩
  · exact up v (h v (List.mem_of_mem_drop hv))

theorem scansFrom_open {scan : List Node} {d : Nat} {steps : List Step}
    (h : ∀ v ∈ scan, Open d v) {k : Nat} {sc : List Node}
    (hsc : (scansFrom scan d steps)[k]? = some sc) : ∀ v ∈ sc, Open (d + k) v := by
  induction steps generalizing scan d k with
  | nil =>
    cases k with
    | zero => simp only [scansFrom, List.getElem?_cons_zero, Option.some.injEq] at hsc; subst hsc; exact h
    | succ k => simp [scansFrom] at hsc
  | cons st r ih =>
    cases k with
    | zero => simp only [scansFrom, List.getElem?_cons_zero, Option.some.injEq] at hsc; subst hsc; exact h
    | succ k =>
      simp only [scansFrom, List.getElem?_cons_succ] at hsc
      have := ih (nextScan_open h) hsc
      have e : d + 1 + k = d + (k + 1) := by omega
      rw [e] at this; exact this

theorem inputs_open (k : Nat) : ∀ v ∈ (List.range k).map inputNode, Open 0 v := by
  intro v hv
  obtain ⟨i, -, rfl⟩ := List.mem_map.mp hv
  exact Or.inl rfl

/-! ### 15. Edges: classification, heights, verticality -/

/-- The three sorts of edges of box `k` and the edges into the outputs. -/
inductive EdgeKind (sh : Shape) : Node × Node → Prop
  | wire (k : Nat) (st : Step) (sc : List Node) (i : Nat) :
      sh.steps[k]? = some st → (layout sh).scans[k]? = some sc → i < st.m →
      EdgeKind sh (sc.getD (st.off + i) default, domNode k i)
  | domBox (k : Nat) (st : Step) (i : Nat) : sh.steps[k]? = some st → i < st.m →
      EdgeKind sh (domNode k i, boxNode k)
  | boxCod (k : Nat) (st : Step) (i : Nat) : sh.steps[k]? = some st → i < st.c →
      EdgeKind sh (boxNode k, codNode k i)
  | out (i : Nat) : i < sh.nOut → EdgeKind sh ((finalSt sh).scan.getD i default, outputNode i)

theorem mem_layout_edges (sh : Shape) (e : Node × Node) :
    e ∈ (layout sh).edges ↔ EdgeKind sh e := by
  rw [layout_edges, List.mem_append, mem_edgesFrom]
  constructor
  · rintro (⟨k, st, sc, h1, h2, h3⟩ | h)
    · rw [Nat.zero_add] at h3
      rcases mem_boxEdges.mp h3 with ⟨i, hi, rfl⟩ | ⟨i, hi, rfl⟩ | ⟨i, hi, rfl⟩
      · exact .wire k st sc i h1 (by rw [layout_scans]; exact h2) hi
      · exact .domBox k st i h1 hi
      · exact .boxCod k st i h1 hi
    · simp only [outEdges, List.mem_map, List.mem_range] at h
      obtain ⟨i, hi, rfl⟩ := h
      exact .out i hi
  · rintro (⟨k, st, sc, i, h1, h2, hi⟩ | ⟨k, st, i, h1, hi⟩ | ⟨k, st, i, h1, hi⟩ | ⟨i, hi⟩)
    · exact Or.inl ⟨k, st, sc, h1, by rw [← layout_scans]; exact h2,
        by rw [Nat.zero_add]; exact mem_boxEdges.mpr (Or.inl ⟨i, hi, rfl⟩)⟩
    · have hk : k < sh.steps.length := by
        rcases Nat.lt_or_ge k sh.steps.length with h | h
        · exact h
        · rw [List.getElem?_eq_none h] at h1; cases h1
      exact Or.inl ⟨k, st, (layout sh).scans[k]'(by rw [layout_scans, scansFrom_length]; omega), h1,
        (List.getElem?_eq_getElem (l := (layout sh).scans) _),
        by rw [Nat.zero_add]; exact mem_boxEdges.mpr (Or.inr (Or.inl ⟨i, hi, rfl⟩))⟩
    · have hk : k < sh.steps.length := by
        rcases Nat.lt_or_ge k sh.steps.length with h | h
        · exact h
        · rw [List.getElem?_eq_none h] at h1; cases h1
      exact Or.inl ⟨k, st, (layout sh).scans[k]'(by rw [layout_scans, scansFrom_length]; omega), h1,
        (List.getElem?_eq_getElem (l := (layout sh).scans) _),
        by rw [Nat.zero_add]; exact mem_boxEdges.mpr (Or.inr (Or.inr ⟨i, hi, rfl⟩))⟩
    · exact Or.inr (by simp only [outEdges, List.mem_map, List.mem_range]; exact ⟨i, hi, rfl⟩)

theorem getElem?_lt {α} {l : List α} {k : Nat} {a : α} (h : l[k]? = some a) : k < l.length := by
  rcases Nat.lt_or_ge k l.length with h' | h'
  · exact h'
  · rw [List.getElem?_eq_none h'] at h; cases h

/-- Wires (edges into a domain port or into an output) are vertical. -/
theorem layout_wires_vertical (sh : Shape) (h : sh.WF) :
    ∀ e ∈ (layout sh).edges, (e.2.kind = .dom ∨ e.2.kind = .output) →
      (layout sh).nodes.eqx e.1 e.2 := by
  intro e he hk
  rcases (mem_layout_edges sh e).mp he with ⟨k, st, sc, i, h1, h2, hi⟩ | ⟨k, st, i, h1, hi⟩
      | ⟨k, st, i, h1, hi⟩ | ⟨i, hi⟩
  · exact (layout_box_between sh h k st sc h1 h2).2.2.2 i hi
  · simp [boxNode] at hk
  · simp [codNode] at hk
  · exact layout_output_vertical sh h hi

theorem yOf_wire {n k : Nat} {a : Node} (ha : Open k a) (hk : k < n) (i : Nat) :
    yOf n (domNode k i) < yOf n a := by
  rcases ha with h1 | ⟨h1, h2⟩
  · simp only [yOf, h1, domNode, topY, domY]; split <;> omega
  · simp only [yOf, h1, domNode, codY, domY]; omega

theorem yOf_out {n : Nat} {a : Node} (ha : Open n a) (i : Nat) :
    yOf n (outputNode i) < yOf n a := by
  rcases ha with h1 | ⟨h1, h2⟩
  · simp only [yOf, h1, outputNode, topY]; split <;> omega
  · simp only [yOf, h1, outputNode, codY]; omega

/-- Every edge points downwards: its source is strictly higher than its target. -/
theorem layout_edges_down (sh : Shape) (h : sh.WF) :
    ∀ e ∈ (layout sh).edges, ∃ ya yb, (layout sh).nodes.y? e.1 = some ya
      ∧ (layout sh).nodes.y? e.2 = some yb ∧ yb < ya := by
  intro e he
  have hy := layout_yOk sh
  have key : ∀ a b, a ∈ keys (layout sh).nodes → b ∈ keys (layout sh).nodes →
      yOf sh.steps.length b < yOf sh.steps.length a →
      ∃ ya yb, (layout sh).nodes.y? a = some ya ∧ (layout sh).nodes.y? b = some yb ∧ yb < ya :=
    fun a b ha hb hlt => ⟨_, _, y?_of_mem_keys hy ha, y?_of_mem_keys hy hb, hlt⟩
  have hbox : ∀ k st v, sh.steps[k]? = some st → v ∈ stepNodes st k →
      v ∈ keys (layout sh).nodes := by
    intro k st v h1 hv
    rw [layout_keys, allNodes]
    exact List.mem_append_left _ (List.mem_append_right _
      (mem_nodesFrom h1 (by rw [Nat.zero_add]; exact hv)))
  rcases (mem_layout_edges sh e).mp he with ⟨k, st, sc, i, h1, h2, hi⟩ | ⟨k, st, i, h1, hi⟩
      | ⟨k, st, i, h1, hi⟩ | ⟨i, hi⟩
  · obtain ⟨hin, -, -, hv⟩ := layout_box_between sh h k st sc h1 h2
    obtain ⟨x, hxa, hxb⟩ := hv i hi
    have hl : st.off + i < sc.length := by omega
    have hopen : Open k (sc.getD (st.off + i) default) := by
      rw [getD_eq _ _ _ hl]
      have := scansFrom_open (inputs_open sh.nIn) (by rw [← layout_scans]; exact h2)
        sc[st.off + i] (List.getElem_mem hl)
      rwa [Nat.zero_add] at this
    exact key _ _ (mem_keys_of_x? hxa) (mem_keys_of_x? hxb) (yOf_wire hopen (getElem?_lt h1) i)
  · refine key _ _ (hbox k st _ h1 ?_) (hbox k st _ h1 ?_) ?_
    · simp only [stepNodes, List.mem_append, List.mem_map, List.mem_range]
      exact Or.inl (Or.inr ⟨i, hi, rfl⟩)
    · simp [stepNodes]
    · simp only [yOf, domNode, boxNode, domY, boxY]; omega
  · refine key _ _ (hbox k st _ h1 ?_) (hbox k st _ h1 ?_) ?_
    · simp [stepNodes]
    · simp only [stepNodes, List.mem_append, List.mem_map, List.mem_range]
      exact Or.inr ⟨i, hi, rfl⟩
    · simp only [yOf, codNode, boxNode, codY, boxY]; omega
  · obtain ⟨x, hxa, hxb⟩ := layout_output_vertical sh h hi
    obtain ⟨-, -, hlen, -, -⟩ := final_spec sh h
    have hl : i < (finalSt sh).scan.length := by rw [hlen]; exact hi
    have hopen : Open sh.steps.length ((finalSt sh).scan.getD i default) := by
      rw [getD_eq _ _ _ hl]
      have := scansFrom_open (inputs_open sh.nIn)
        (run_scan sh.steps.length sh.steps (initSt sh.nIn sh.steps.length) 0)
        _ (List.getElem_mem hl)
      rwa [Nat.zero_add] at this
    exact key _ _ (mem_keys_of_x? hxa) (mem_keys_of_x? hxb) (yOf_out hopen i)

/-! ### 16. The edges reproduce the diagram's wiring

  `follow` is an independent description of the wiring: it keeps no list of open wires but walks
  UP from a type position through the boxes above it (most recent first) until it meets the
  codomain of a box or the top of the diagram. -/

def follow : List Step → Nat → Node
  | [], p => inputNode p
  | st :: earlier, p =>
    if p < st.off then follow earlier p
    else if p < st.off + st.c then codNode earlier.length (p - st.off)
    else follow earlier (p - st.c + st.m)

theorem scansFrom_succ {scan : List Node} {d : Nat} {steps : List Step} {k : Nat}
    {sc : List Node} {st : Step} (h1 : (scansFrom scan d steps)[k]? = some sc)
    (h2 : steps[k]? = some st) :
    (scansFrom scan d steps)[k + 1]? = some (nextScan sc st (d + k)) := by
  induction steps generalizing scan d k with
  | nil => simp at h2
  | cons st0 r ih =>
    cases k with
    | zero =>
      simp only [List.getElem?_cons_zero, Option.some.injEq] at h2
      simp only [scansFrom, List.getElem?_cons_zero, Option.some.injEq] at h1
      subst h1; subst h2
      simp only [scansFrom, List.getElem?_cons_succ]
      exact scansFrom_zero _ _ _
    | succ k =>
      simp only [List.getElem?_cons_succ] at h2
      simp only [scansFrom, List.getElem?_cons_succ] at h1 ⊢
      have := ih h1 h2
      have e : d + 1 + k = d + (k + 1) := by omega
      rw [e] at this; exact this

theorem nextScan_getElem? {sc : List Node} {st : Step} (d : Nat) (hin : st.off ≤ sc.length)
    (p : Nat) :
    (nextScan sc st d)[p]? =
      if p < st.off then sc[p]?
      else if p < st.off + st.c then some (codNode d (p - st.off))
      else sc[p - st.c + st.m]? := by
  have hA : (sc.take st.off).length = st.off := by simp [List.length_take]; omega
  simp only [nextScan, List.append_assoc]
  rw [List.getElem?_append, hA]
  by_cases h1 : p < st.off
  · simp [h1]
  · rw [if_neg h1, if_neg h1, List.getElem?_append]
    simp only [List.length_map, List.length_range]
    by_cases h2 : p < st.off + st.c
    · have h3 : p - st.off < st.c := by omega
      simp [h2, h3]
    · have h3 : ¬ p - st.off < st.c := by omega
      rw [if_neg h3, if_neg h2, List.getElem?_drop]
      congr 1; omega

theorem take_succ_reverse {steps : List Step} {k : Nat} {st : Step} (h : steps[k]? = some st) :
    (steps.take (k + 1)).reverse = st :: (steps.take k).reverse := by
  rw [List.take_add_one, h]; simp

/-- Every open wire at every height is the node `follow` finds. -/
theorem scans_follow (sh : Shape) (h : sh.WF) :
    ∀ k sc, (layout sh).scans[k]? = some sc → ∀ p, p < sc.length →
      sc[p]? = some (follow ((sh.steps.take k).reverse) p) := by
  intro k
  induction k with
  | zero =>
    intro sc hsc p hp
    rw [layout_scans, scansFrom_zero] at hsc
    cases hsc
    simp only [List.length_map, List.length_range] at hp
    simp [follow, hp]
  | succ k ih =>
    intro sc' hsc' p hp
    have hk1 : k + 1 < (layout sh).scans.length := getElem?_lt hsc'
    rw [layout_scans, scansFrom_length] at hk1
    have hk : k < sh.steps.length := by omega
    have hst : sh.steps[k]? = some sh.steps[k] := List.getElem?_eq_getElem hk
    have hkl : k < (layout sh).scans.length := by rw [layout_scans, scansFrom_length]; omega
    have hsc : (layout sh).scans[k]? = some (layout sh).scans[k] := List.getElem?_eq_getElem hkl
    obtain ⟨hin, -⟩ := layout_box_between sh h k _ _ hst hsc
    have hnext := scansFrom_succ (by rw [← layout_scans]; exact hsc) hst
    rw [← layout_scans, hsc', Nat.zero_add] at hnext
    cases hnext
    have hlen := nextScan_length (scan := (layout sh).scans[k]) (st := sh.steps[k]) k hin
    rw [nextScan_getElem? k (by omega), take_succ_reverse hst]
    have hrl : (sh.steps.take k).reverse.length = k := by simp; omega
    simp only [follow, hrl]
    by_cases h1 : p < sh.steps[k].off
    · simp only [h1, if_true]; exact ih _ hsc p (by omega)
    · by_cases h2 : p < sh.steps[k].off + sh.steps[k].c
      · simp [h1, h2]
      · simp only [h1, h2, if_false]; exact ih _ hsc _ (by omega)

theorem getD_of_getElem? {l : List Node} {k : Nat} {a : Node} (h : l[k]? = some a) :
    l.getD k default = a := by
  simp [List.getD_eq_getElem?_getD, h]

/-- The edges of the graph, stated with `follow` instead of the scan lists. -/
inductive Wiring (sh : Shape) : Node × Node → Prop
  | wire (k : Nat) (st : Step) (i : Nat) : sh.steps[k]? = some st → i < st.m →
      Wiring sh (follow ((sh.steps.take k).reverse) (st.off + i), domNode k i)
  | domBox (k : Nat) (st : Step) (i : Nat) : sh.steps[k]? = some st → i < st.m →
      Wiring sh (domNode k i, boxNode k)
  | boxCod (k : Nat) (st : Step) (i : Nat) : sh.steps[k]? = some st → i < st.c →
      Wiring sh (boxNode k, codNode k i)
  | out (i : Nat) : i < sh.nOut → Wiring sh (follow sh.steps.reverse i, outputNode i)

theorem final_scan_eq (sh : Shape) :
    (layout sh).scans[sh.steps.length]? = some (finalSt sh).scan :=
  run_scan sh.steps.length sh.steps (initSt sh.nIn sh.steps.length) 0

theorem layout_edges_wiring (sh : Shape) (h : sh.WF) (e : Node × Node) :
    e ∈ (layout sh).edges ↔ Wiring sh e := by
  rw [mem_layout_edges]
  obtain ⟨-, -, hlen, -, -⟩ := final_spec sh h
  have hout : ∀ i, i < sh.nOut →
      (finalSt sh).scan.getD i default = follow sh.steps.reverse i := by
    intro i hi
    have := scans_follow sh h _ _ (final_scan_eq sh) i (by rw [hlen]; exact hi)
    rw [List.take_length] at this
    exact getD_of_getElem? this
  have hwire : ∀ k st sc i, sh.steps[k]? = some st → (layout sh).scans[k]? = some sc → i < st.m →
      sc.getD (st.off + i) default = follow ((sh.steps.take k).reverse) (st.off + i) := by
    intro k st sc i h1 h2 hi
    obtain ⟨hin, -⟩ := layout_box_between sh h k st sc h1 h2
    exact getD_of_getElem? (scans_follow sh h k sc h2 _ (by omega))
  constructor
  · rintro (⟨k, st, sc, i, h1, h2, hi⟩ | ⟨k, st, i, h1, hi⟩ | ⟨k, st, i, h1, hi⟩ | ⟨i, hi⟩)
    · rw [hwire k st sc i h1 h2 hi]; exact .wire k st i h1 hi
    · exact .domBox k st i h1 hi
    · exact .boxCod k st i h1 hi
    · rw [hout i hi]; exact .out i hi
  · rintro (⟨k, st, i, h1, hi⟩ | ⟨k, st, i, h1, hi⟩ | ⟨k, st, i, h1, hi⟩ | ⟨i, hi⟩)
    · have hk := getElem?_lt h1
      have hkl : k < (layout sh).scans.length := by rw [layout_scans, scansFrom_length]; omega
      have h2 : (layout sh).scans[k]? = some (layout sh).scans[k] := List.getElem?_eq_getElem hkl
      rw [← hwire k st _ i h1 h2 hi]; exact .wire k st _ i h1 h2 hi
    · exact .domBox k st i h1 hi
    · exact .boxCod k st i h1 hi
    · rw [← hout i hi]; exact .out i hi

theorem edgesFrom_length (scan : List Node) (d : Nat) (steps : List Step) :
    (edgesFrom scan d steps).length = (steps.map (fun st => 2 * st.m + st.c)).sum := by
  induction steps generalizing scan d with
  | nil => rfl
  | cons st r ih =>
    have : ∀ (m : Nat) (f : Nat → List (Node × Node)), (∀ i, (f i).length = 2) →
        ((List.range m).map f).flatten.length = 2 * m := by
      intro m f hf
      induction m with
      | zero => rfl
      | succ m ihm => rw [List.range_succ]; simp [hf, ihm]; omega
    simp [edgesFrom, boxEdges, ih, this]; omega

/-- Two edges per domain port, one per codomain port, one per output. -/
theorem layout_edges_length (sh : Shape) :
    (layout sh).edges.length = (sh.steps.map (fun st => 2 * st.m + st.c)).sum + sh.nOut := by
  rw [layout_edges]; simp [edgesFrom_length, outEdges]

end DV.Layout
