/-
  Proofs/PolyRing.lean — the executable polynomials of Model/Param.lean in normal form are a
  commutative ring under the model's OWN `add / mul / neg / 0 / 1`; the model's `subst` is a ring
  homomorphism of it and the model's `deriv` a derivation (additive + Leibniz).

    NPoly          = { p : Poly // p.WF }              (Proofs/PolyOrder.lean: the operations
                                                        preserve the normal form)
    CommRing NPoly                                      (laws pulled back along the injective
                                                        `sem` of Proofs/PolySem.lean)
    substHom σ : NPoly →+* NPoly                        (`Poly.subst σ`)
    derivN v   : Deriv NPoly                            (`Poly.deriv v`)
    norm       : Poly → NPoly                           (`Poly.ofTerms`): preserves 0, 1, +, ·,
                 commutes with `subst` and `deriv`, and is the identity on normal forms.
-/
import Proofs.PolySem
import Proofs.Param
import Mathlib.Algebra.Ring.MinimalAxioms

namespace DV.Param
open MvPolynomial

/-- Executable polynomials in normal form. -/
def NPoly := { p : Poly // p.WF }

namespace NPoly

instance : Zero NPoly := ⟨⟨0, Poly.zero_wf⟩⟩
instance : One NPoly := ⟨⟨1, Poly.one_wf⟩⟩
instance : Add NPoly := ⟨fun a b => ⟨a.1 + b.1, Poly.add_wf a.2 b.2⟩⟩
instance : Mul NPoly := ⟨fun a b => ⟨a.1 * b.1, Poly.mul_wf _ _⟩⟩
instance : Neg NPoly := ⟨fun a => ⟨-a.1, Poly.neg_wf a.2⟩⟩
instance : HasConj NPoly := ⟨id⟩

@[simp] theorem val_zero : (0 : NPoly).1 = 0 := rfl
@[simp] theorem val_one : (1 : NPoly).1 = 1 := rfl
@[simp] theorem val_add (a b : NPoly) : (a + b).1 = a.1 + b.1 := rfl
@[simp] theorem val_mul (a b : NPoly) : (a * b).1 = a.1 * b.1 := rfl
@[simp] theorem val_neg (a : NPoly) : (-a).1 = -a.1 := rfl

theorem ext_sem {a b : NPoly} (h : sem a.1 = sem b.1) : a = b :=
  Subtype.ext (sem_inj a.2 b.2 h)

/-- **The model's polynomials in normal form are a commutative ring** under the model's own
    operations. -/
instance : CommRing NPoly :=
  CommRing.ofMinimalAxioms
    (fun a b c => ext_sem (by simp only [val_add, Poly.sem_add, add_assoc]))
    (fun a => ext_sem (by simp only [val_add, val_zero, Poly.sem_add, Poly.sem_zero, zero_add]))
    (fun a => ext_sem (by
      simp only [val_add, val_neg, val_zero, Poly.sem_add, Poly.sem_neg, Poly.sem_zero,
        neg_add_cancel]))
    (fun a b c => ext_sem (by simp only [val_mul, Poly.sem_mul, mul_assoc]))
    (fun a b => ext_sem (by simp only [val_mul, Poly.sem_mul, mul_comm]))
    (fun a => ext_sem (by simp only [val_mul, val_one, Poly.sem_mul, Poly.sem_one, one_mul]))
    (fun a b c => ext_sem (by simp only [val_mul, val_add, Poly.sem_mul, Poly.sem_add, mul_add]))

/-- `Poly.subst σ` (simultaneous substitution x_i := σ i) is a ring homomorphism. -/
def substHom (σ : Nat → Poly) : NPoly →+* NPoly where
  toFun a := ⟨Poly.subst σ a.1, Poly.subst_wf σ a.1⟩
  map_one' := ext_sem (by
    show sem (Poly.subst σ 1) = sem 1
    rw [Poly.sem_subst, Poly.sem_one, map_one])
  map_mul' a b := ext_sem (by
    show sem (Poly.subst σ (a.1 * b.1)) = sem (Poly.subst σ a.1 * Poly.subst σ b.1)
    simp only [Poly.sem_subst, Poly.sem_mul, map_mul])
  map_zero' := ext_sem (by
    show sem (Poly.subst σ 0) = sem 0
    rw [Poly.sem_subst, Poly.sem_zero, map_zero])
  map_add' a b := ext_sem (by
    show sem (Poly.subst σ (a.1 + b.1)) = sem (Poly.subst σ a.1 + Poly.subst σ b.1)
    simp only [Poly.sem_subst, Poly.sem_add, map_add])

@[simp] theorem substHom_val (σ : Nat → Poly) (a : NPoly) :
    (substHom σ a).1 = Poly.subst σ a.1 := rfl

/-- `Poly.deriv v` (formal partial derivative) is a derivation: additive and Leibniz. -/
def derivN (v : Nat) : Deriv NPoly where
  D a := ⟨Poly.deriv v a.1, Poly.deriv_wf v a.1⟩
  add a b := ext_sem (by
    show sem (Poly.deriv v (a.1 + b.1)) = sem (Poly.deriv v a.1 + Poly.deriv v b.1)
    simp only [Poly.sem_deriv, Poly.sem_add, map_add])
  mul a b := ext_sem (by
    show sem (Poly.deriv v (a.1 * b.1))
      = sem (Poly.deriv v a.1 * b.1 + a.1 * Poly.deriv v b.1)
    simp only [Poly.sem_deriv, Poly.sem_add, Poly.sem_mul, pderiv_mul])

@[simp] theorem derivN_val (v : Nat) (a : NPoly) : ((derivN v).D a).1 = Poly.deriv v a.1 := rfl

theorem substHom_conj (σ : Nat → Poly) (x : NPoly) :
    substHom σ (HasConj.conj x) = HasConj.conj (substHom σ x) := rfl

theorem derivN_conj (v : Nat) (x : NPoly) :
    (derivN v).D (HasConj.conj x) = HasConj.conj ((derivN v).D x) := rfl

end NPoly

/-! ### normalisation `Poly → NPoly` -/

/-- Re-normalise an arbitrary term list (`Poly.ofTerms`, what the driver applies on input). -/
def norm (p : Poly) : NPoly := ⟨Poly.ofTerms p.terms, Poly.ofTerms_wf _⟩

theorem sem_norm (p : Poly) : sem (norm p).1 = sem p := Poly.sem_ofTerms p.terms

/-- Normal forms are fixed. -/
theorem norm_of_wf {p : Poly} (h : p.WF) : (norm p).1 = p :=
  sem_inj (norm p).2 h (sem_norm p)

theorem norm_val (a : NPoly) : norm a.1 = a := Subtype.ext (norm_of_wf a.2)

theorem eq_of_norm_eq {p q : Poly} (hp : p.WF) (hq : q.WF) (h : norm p = norm q) : p = q := by
  rw [← norm_of_wf hp, ← norm_of_wf hq, h]

theorem norm_zero : norm 0 = 0 := norm_val 0
theorem norm_one : norm 1 = 1 := norm_val 1

theorem norm_add (p q : Poly) : norm (p + q) = norm p + norm q :=
  NPoly.ext_sem (by simp only [NPoly.val_add, Poly.sem_add, sem_norm])

theorem norm_mul (p q : Poly) : norm (p * q) = norm p * norm q :=
  NPoly.ext_sem (by simp only [NPoly.val_mul, Poly.sem_mul, sem_norm])

theorem norm_subst (σ : Nat → Poly) (p : Poly) :
    norm (Poly.subst σ p) = NPoly.substHom σ (norm p) :=
  NPoly.ext_sem (by simp only [NPoly.substHom_val, Poly.sem_subst, sem_norm])

theorem norm_deriv (v : Nat) (p : Poly) :
    norm (Poly.deriv v p) = (NPoly.derivN v).D (norm p) :=
  NPoly.ext_sem (by simp only [NPoly.derivN_val, Poly.sem_deriv, sem_norm])

theorem norm_const_val (c : Int) : (norm (Poly.const c)).1 = Poly.const c :=
  norm_of_wf (Poly.const_wf c)

end DV.Param
