/-
  Proofs/TensorNary.lean — the calling conventions of Model/TensorNary.lean.

  * `thenArgs_tensors` / `tensorArgs_tensors`: on Tensor arguments, the n-ary forms
    `f.then(g₁, …, g_k)` / `f.tensor(g₁, …, g_k)` (the recursion of cat.py:305-308 /
    monoidal.py:417-420 over the dispatch of tensor.py:177-205) are the ITERATED BINARY
    operations, for every k ≥ 0 (induction on the argument list);
  * well-formedness and types of the n-ary tensor, re-association (`foldl_tensor_assoc`), and
    the Kronecker product of three factors as a matrix statement (`tensor3_kron`);
  * the `Sum` fallback: what `f.then(S)` / `f.tensor(S)` return for a `tensor.Sum`, that a
    `monoidal.Sum` is refused, and that dropping the all-zero terms (`cat.Sum.__add__`) does not
    change the entrywise value of the sum (`collect_entry_sum`);
  * `Tensor.map` acts entrywise (`map_entry`).
-/
import Model.TensorNary
import Proofs.TensorMatrix

namespace DV
open NDArray

/-! ### n-ary forms on Tensor arguments -/

namespace TVal
variable {R : Type} [Add R] [Mul R] [Zero R] [One R] [DecidableEq R]

/-- Lift a result to `TVal`. -/
def liftT : Except Err (Tensor R) → Except Err (TVal R)
  | .ok x => .ok (.t x)
  | .error e => .error e

theorem then1_tensors (f g : Tensor R) : then1 (.t f) (.t g) = liftT (f.then g) := by
  simp only [then1, liftT]
  cases f.then g <;> rfl

theorem tensor1_tensors (f g : Tensor R) : tensor1 (.t f) (.t g) = .ok (.t (f.tensor g)) := rfl

/-- `f.then(g₁, …, g_k)` on Tensors is `(((f >> g₁) >> g₂) … >> g_k)`, the first failing
    composition raising; `f.then()` is `f`. -/
theorem thenArgs_tensors (f : Tensor R) (gs : List (Tensor R)) :
    thenArgs (.t f) (gs.map .t) = liftT (gs.foldlM (fun acc g => acc.then g) f) := by
  induction gs generalizing f with
  | nil => rfl
  | cons g gs ih =>
    cases gs with
    | nil =>
      simp only [List.map_cons, List.map_nil, thenArgs, then1_tensors, List.foldlM_cons,
        List.foldlM_nil]
      cases f.then g <;> rfl
    | cons g' rest =>
      simp only [List.map_cons, thenArgs, then1_tensors]
      rw [List.foldlM_cons]
      cases h : f.then g with
      | error e => rfl
      | ok x =>
        have := ih x
        simp only [List.map_cons] at this
        exact this

/-- `f.tensor(g₁, …, g_k)` on Tensors is `(((f @ g₁) @ g₂) … @ g_k)`; `f.tensor()` is `f`. -/
theorem tensorArgs_tensors (f : Tensor R) (gs : List (Tensor R)) :
    tensorArgs (.t f) (gs.map .t) = .ok (.t (gs.foldl Tensor.tensor f)) := by
  induction gs generalizing f with
  | nil => rfl
  | cons g gs ih =>
    cases gs with
    | nil => rfl
    | cons g' rest =>
      have := ih (f.tensor g)
      simp only [List.map_cons] at this
      simpa [tensorArgs, tensor1_tensors, isNone] using this

/-- A `monoidal.Sum` argument is refused by a Tensor receiver (TypeError), although it is what
    the fallback returns: tensor.py:178 tests `isinstance(other, tensor.Sum)`. -/
theorem then1_monoidal_sum (f : Tensor R) (S : TSum R) (h : S.kind = .monoidal) :
    then1 (.t f) (.s S) = .error .type ∧ tensor1 (.t f) (.s S) = .error .type := by
  simp [then1, tensor1, h]

/-- The fallback of `Tensor.tensor` for a `tensor.Sum`: a `monoidal.Sum` of the products with the
    terms, in order, without the all-zero ones. -/
theorem tensor1_tensor_sum (f : Tensor R) (S : TSum R) (h : S.kind = .tensor) :
    tensor1 (.t f) (.s S) = .ok (.s ⟨.monoidal, f.dom ++ S.dom, f.cod ++ S.cod,
      (S.terms.map (fun g => f.tensor g)).filter (fun t => !t.isZero)⟩) := by
  simp [tensor1, h, TSum.tensor, TSum.collect, TSum.single, TSum.tensorTerms]

end TVal

namespace TSum
variable {R : Type} [Add R] [Mul R] [Zero R] [One R] [DecidableEq R]

theorem thenTerms_single (f : Tensor R) (gs : List (Tensor R))
    (h : ∀ g ∈ gs, g.dom = f.cod) :
    thenTerms [f] gs = .ok (gs.map (fun g => Tensor.thenCore f g)) := by
  have : gs.mapM (fun g => f.then g) = .ok (gs.map (fun g => Tensor.thenCore f g)) := by
    induction gs with
    | nil => rfl
    | cons g gs ih =>
      have hg : f.cod = g.dom := (h g (by simp)).symm
      have hrest := ih (fun g' hg' => h g' (by simp [hg']))
      rw [List.mapM_cons, hrest]
      simp [Tensor.then, hg]
      rfl
  simp [thenTerms, this]

end TSum

namespace TVal
variable {R : Type} [Add R] [Mul R] [Zero R] [One R] [DecidableEq R]

/-- The fallback of `Tensor.then` for a `tensor.Sum` of composable terms: a `monoidal.Sum` of the
    composites with the terms, in order, without the all-zero ones. -/
theorem then1_tensor_sum (f : Tensor R) (S : TSum R) (h : S.kind = .tensor)
    (hS : ∀ g ∈ S.terms, g.dom = f.cod) :
    then1 (.t f) (.s S) = .ok (.s ⟨.monoidal, f.dom, S.cod,
      (S.terms.map (fun g => Tensor.thenCore f g)).filter (fun t => !t.isZero)⟩) := by
  simp [then1, h, TSum.then, TSum.single, TSum.thenTerms_single f S.terms hS, TSum.collect]

end TVal

/-! ### the n-ary tensor is the iterated Kronecker product -/

namespace Tensor
variable {R : Type} [CommSemiring R]

theorem foldl_tensor_wf (f : Tensor R) (gs : List (Tensor R)) (hf : f.WF)
    (hgs : ∀ g ∈ gs, g.WF) :
    (gs.foldl Tensor.tensor f).WF ∧
    (gs.foldl Tensor.tensor f).dom = f.dom ++ (gs.map (·.dom)).flatten ∧
    (gs.foldl Tensor.tensor f).cod = f.cod ++ (gs.map (·.cod)).flatten := by
  induction gs generalizing f with
  | nil => simp [hf]
  | cons g gs ih =>
    have hg : g.WF := hgs g (by simp)
    obtain ⟨h1, h2, h3⟩ := ih (f.tensor g) (tensor_wf f g hf hg)
      (fun g' hg' => hgs g' (by simp [hg']))
    refine ⟨h1, ?_, ?_⟩
    · simp [h2, List.append_assoc]
    · simp [h3, List.append_assoc]

/-- Re-association: `f.tensor(g, g₁, …, g_k) = f @ g.tensor(g₁, …, g_k)`. -/
theorem foldl_tensor_assoc (f g : Tensor R) (gs : List (Tensor R)) (hf : f.WF) (hg : g.WF)
    (hgs : ∀ x ∈ gs, x.WF) :
    (g :: gs).foldl Tensor.tensor f = f.tensor (gs.foldl Tensor.tensor g) := by
  induction gs generalizing g with
  | nil => rfl
  | cons h gs ih =>
    have hh : h.WF := hgs h (by simp)
    have := ih (g.tensor h) (tensor_wf g h hg hh) (fun x hx => hgs x (by simp [hx]))
    simp only [List.foldl_cons] at this ⊢
    rw [tensor_assoc f g h hf hg hh]
    exact this

/-- **`f.tensor(g, h)` is the Kronecker product of the three matrices**: row
    `((r₁, r₂), r₃)`, column `((c₁, c₂), c₃)` holds `f[r₁,c₁] * g[r₂,c₂] * h[r₃,c₃]`. -/
theorem tensor3_kron (f g h : Tensor R) (hf : f.WF) (hg : g.WF) (hh : h.WF)
    {r1 r2 r3 c1 c2 c3 : Nat}
    (h1 : r1 < prod f.dom) (h2 : r2 < prod g.dom) (h3 : r3 < prod h.dom)
    (k1 : c1 < prod f.cod) (k2 : c2 < prod g.cod) (k3 : c3 < prod h.cod) :
    ([g, h].foldl Tensor.tensor f).mat ((r1 * prod g.dom + r2) * prod h.dom + r3)
        ((c1 * prod g.cod + c2) * prod h.cod + c3)
      = f.mat r1 c1 * g.mat r2 c2 * h.mat r3 c3 := by
  have hr : r1 * prod g.dom + r2 < prod (f.tensor g).dom := by
    rw [tensor_dom, prod_append]
    calc r1 * prod g.dom + r2 < r1 * prod g.dom + prod g.dom := by omega
      _ = (r1 + 1) * prod g.dom := by rw [Nat.add_mul, Nat.one_mul]
      _ ≤ prod f.dom * prod g.dom := Nat.mul_le_mul_right _ h1
  have hc : c1 * prod g.cod + c2 < prod (f.tensor g).cod := by
    rw [tensor_cod, prod_append]
    calc c1 * prod g.cod + c2 < c1 * prod g.cod + prod g.cod := by omega
      _ = (c1 + 1) * prod g.cod := by rw [Nat.add_mul, Nat.one_mul]
      _ ≤ prod f.cod * prod g.cod := Nat.mul_le_mul_right _ k1
  simp only [List.foldl_cons, List.foldl_nil]
  rw [tensor_kron (f.tensor g) h (tensor_wf f g hf hg) hh hr h3 hc k3,
    tensor_kron f g hf hg h1 h2 k1 k2]

/-! ### Sums: dropping the all-zero terms keeps the value -/

theorem entry_of_isZero [DecidableEq R] {t : Tensor R} (h : t.isZero = true) (i : List Nat) :
    t.entry i = 0 := by
  unfold Tensor.entry
  unfold Tensor.isZero at h
  rw [Array.all_eq_true] at h
  by_cases hk : flatIdx (t.dom ++ t.cod) i < t.arr.data.size
  · have := h _ hk
    simp only [decide_eq_true_eq] at this
    simp [Array.getD, hk, this]
  · simp [Array.getD, hk]

/-- The entrywise sum of the terms kept by `sum(terms, unit)` is the entrywise sum of all. -/
theorem collect_entry_sum [DecidableEq R] (kind : SumKind) (dom cod : List Nat)
    (ts : List (Tensor R)) (i : List Nat) :
    (((TSum.collect kind dom cod ts).terms.map (fun t => t.entry i)).sum : R)
      = (ts.map (fun t => t.entry i)).sum := by
  unfold TSum.collect
  induction ts with
  | nil => rfl
  | cons t ts ih =>
    simp only [List.filter_cons]
    cases hz : t.isZero with
    | true => simp [entry_of_isZero hz, ih]
    | false => simp [ih]

/-! ### map -/

theorem map_wf (φ : R → R) (f : Tensor R) (hf : f.WF) : (f.map φ).WF := by
  refine ⟨rfl, ?_⟩
  simp [Tensor.map, mk', NDArray.reshape, hf.2]

/-- `Tensor.map` applies the function to every entry. -/
theorem map_entry (φ : R → R) (f : Tensor R) (hf : f.WF) {i : List Nat}
    (hi : InRange (f.dom ++ f.cod) i) : (f.map φ).entry i = φ (f.entry i) := by
  have hk : flatIdx (f.dom ++ f.cod) i < f.arr.data.size := by
    rw [hf.2]; exact flatIdx_lt hi
  simp [Tensor.entry, Tensor.map, mk', NDArray.reshape, Array.getD, hk]

end Tensor

end DV
