/-
  Proofs/TkImportTotal.lean — the model of `from_tk` returns a circuit on every importable input
  whose post-processing has the width of the non-post-selected bits (C13).
-/
import Proofs.TkImportTrace

namespace DV.Tk
open DV

/-! ### types follow the wires -/

def wAt (t : List W) (i : Nat) : W := t[i]?.getD .q

theorem map_wAt_range (t : List W) : (List.range t.length).map (wAt t) = t := by
  apply List.ext_getElem?
  intro j
  simp only [List.getElem?_map]
  by_cases h : j < t.length
  · simp [List.getElem?_eq_getElem h, h, wAt]
  · simp [List.getElem?_eq_none (Nat.le_of_not_lt h), h]

theorem foldl_swapAt_types (os : List Nat) (t : List W) :
    os.foldl swapAt t = (arrangement t.length os).map (wAt t) := by
  unfold arrangement
  rw [← foldl_swapAt_map, map_wAt_range]

theorem wAt_units_q (inp : TkIn) (i : Nat) (h : i < inp.nq) : wAt inp.units i = .q := by
  simp [wAt, TkIn.units, List.getElem?_append_left, h]

theorem wAt_units_b (inp : TkIn) (i : Nat) (h1 : inp.nq ≤ i) (h2 : i < inp.nq + inp.nbits) : wAt inp.units i = .b := by
  have : (List.replicate inp.nq W.q ++ List.replicate inp.nbits W.b)[i]? = some .b := by
    rw [List.getElem?_append_right (by simp; omega)]
    simp only [List.length_replicate]
    rw [List.getElem?_replicate]; simp; omega
  simp [wAt, TkIn.units, this]

/-! ### `place` succeeds when the box fits after the swaps -/

theorem boxLayer_dom_cod (cod : List W) (box : TBox) (off : Nat) (h : boxFits cod box off = true) :
    (boxLayer cod box off).dom = cod ∧
      (boxLayer cod box off).cod = cod.take off ++ box.cod ++ cod.drop (off + box.dom.length) := by
  obtain ⟨A, C, rfl, rfl⟩ := boxFits_iff.mp h
  simp [boxLayer, D.tensor, D.id, D.box, List.take_append, List.drop_append]

theorem place_ok {circuit sw : D} {box : TBox} {off : Nat} (h1 : circuit.cod = sw.dom)
    (h2 : boxFits sw.cod box off = true) (h3 : box.cod = box.dom) : ∃ d, place circuit sw box off = .ok d := by
  obtain ⟨hd, hc⟩ := boxLayer_dom_cod sw.cod box off h2
  have hc' : (boxLayer sw.cod box off).cod = sw.cod := by
    rw [hc, h3]
    obtain ⟨A, C, e, rfl⟩ := boxFits_iff.mp h2
    rw [e]; simp [List.take_append, List.drop_append]
  simp only [place, D.then, h1, if_true, hd, hc', D.daggerSwaps]
  exact ⟨_, rfl⟩

theorem boxFits_of_take {cod : List W} {box : TBox} {off : Nat}
    (h : (cod.drop off).take box.dom.length = box.dom) (hl : off + box.dom.length ≤ cod.length) :
    boxFits cod box off = true := by
  simp [boxFits, h, hl]

/-! ### the two kinds of command -/

theorem boxFromTk_dom {c : Cmd} {box : TBox} (h : boxFromTk c = .ok box) :
    box.dom = List.replicate box.dom.length .q ∧ box.cod = box.dom := by
  rcases boxFromTk_cases h with h | ⟨n, h, _⟩ | ⟨p, _, h, _⟩ <;> subst h <;> simp [TBox.dom, TBox.cod]

theorem stepGate_ok {inp : TkIn} {acc : Acc} {s : ImpSpec} {c : Cmd} (hop : c.op ≠ "Measure")
    (himp : Cmd.importable inp c = true) (inv : LoopInv inp acc s) : ∃ acc', stepGate inp acc c = .ok acc' := by
  obtain ⟨box, hb, hk, hqs, _⟩ := importable_gate hop himp
  have hlen := units_length inp
  have hqs' : (∃ a, c.qs = [a] ∧ a < inp.units.length) ∨
      (∃ a b, c.qs = [a, b] ∧ a ≠ b ∧ a < inp.units.length ∧ b < inp.units.length) := by
    rcases hqs with ⟨a, h1, h2⟩ | ⟨a, b, h1, h2, h3, h4⟩
    · exact .inl ⟨a, h1, by omega⟩
    · exact .inr ⟨a, b, h1, h2, by omega, by omega⟩
  -- the swaps exist
  have hmua : ∃ r, makeUnitsAdjacentT inp.units c.qs = .ok r := by
    rcases hqs' with ⟨a, h1, _⟩ | ⟨a, b, h1, hab, ha, hb'⟩
    · rw [h1]; exact ⟨_, muaT_single _ _⟩
    · rw [h1]; obtain ⟨sw, h, _⟩ := muaT_pair inp.units a b ha hb' hab; exact ⟨_, h⟩
  obtain ⟨r, hr⟩ := hmua
  obtain ⟨m1, m2, mdom, moff, mr, mids, _⟩ := mua_ids inp.units c.qs r hqs' hr
  have hcod := D.swaps_cod m1 m2
  rw [mdom] at hcod
  have hcl : r.2.cod.length = inp.units.length := by rw [hcod, foldl_swapAt_length]
  obtain ⟨bd, bc⟩ := boxFromTk_dom hb
  have hall : ∀ q ∈ c.qs, q < inp.nq := by
    rcases hqs with ⟨a, h1, ha⟩ | ⟨a, b, h1, hab, ha, hb'⟩ <;> rw [h1] <;> simp <;> omega
  -- the types at the place of the box are qubits
  have htypes : (r.2.cod.drop r.1).take c.qs.length = List.replicate c.qs.length .q := by
    have := mids (List.range inp.units.length) (by simp)
    rw [hcod, foldl_swapAt_types, ← List.map_drop, ← List.map_take]
    unfold arrangement
    rw [this, List.map_map]
    have hc : ∀ q ∈ c.qs, (wAt inp.units ∘ idAt (List.range inp.units.length)) q = (fun _ => W.q) q := by
      intro q hq
      have hq' := hall q hq
      have : idAt (List.range inp.units.length) q = q := by
        have hq2 : q < inp.units.length := by omega
        simp [idAt, List.getElem?_range hq2]
      simp only [Function.comp, this]; exact wAt_units_q inp _ hq'
    rw [List.map_congr_left hc, List.map_const']
  have hfit : boxFits r.2.cod box r.1 = true := by
    apply boxFits_of_take
    · rw [hk, htypes, bd, hk]
    · have : ((r.2.cod.drop r.1).take c.qs.length).length = c.qs.length := by rw [htypes]; simp
      simp only [List.length_take, List.length_drop, hcl] at this
      rw [hk, hcl]; omega
  obtain ⟨d, hd⟩ := place_ok (circuit := acc.circuit) (by rw [inv.cod, mdom]) hfit bc
  exact ⟨⟨d, acc.bras⟩, by simp only [stepGate, hb, hr, hd]⟩

theorem units_getElem?_q (inp : TkIn) (i : Nat) (h : i < inp.nq) : inp.units[i]? = some .q := by
  simp [TkIn.units, List.getElem?_append_left, h]

theorem units_getElem?_b (inp : TkIn) (i : Nat) (h1 : inp.nq ≤ i) (h2 : i < inp.nq + inp.nbits) :
    inp.units[i]? = some .b := by
  unfold TkIn.units
  rw [List.getElem?_append_right (by simp; omega)]
  simp only [List.length_replicate]
  rw [List.getElem?_replicate]; simp; omega

theorem stepMeasure_ok {inp : TkIn} {acc : Acc} {s : ImpSpec} {q b : Nat} (hq : q < inp.nq)
    (hb : inp.ps.has b = true ∨ b - psBelow inp.ps b < inp.nbits) (inv : LoopInv inp acc s) :
    ∃ acc', stepMeasure inp acc q b = .ok acc' := by
  unfold stepMeasure
  by_cases hps : inp.ps.has b = true
  · simp only [hps, if_true]; exact ⟨_, rfl⟩
  · have hbi : b - psBelow inp.ps b < inp.nbits := by rcases hb with h' | h'; exact absurd h' hps; exact h'
    have hps' : inp.ps.has b = false := by simpa using hps
    simp only [hps', Bool.false_eq_true, if_false, inv.cod]
    have hlen := units_length inp
    obtain ⟨m1, m2⟩ := measureSwaps_WT inp.units inp.nq q (b - psBelow inp.ps b)
    obtain ⟨ho, hdom⟩ := offs_measureSwaps inp.units inp.nq q (b - psBelow inp.ps b) hq (by rw [hlen]; omega)
    have hcod := D.swaps_cod m1 m2
    rw [hdom, ho] at hcod
    have hR := foldl_swapAt_range'_reverse inp.units (q + 1) (inp.nq + (b - psBelow inp.ps b) - (q + 1))
      (by rw [hlen]; omega)
    have h0 := hR q
    have h1 := hR (q + 1)
    simp only [show q < q + 1 from by omega, if_true] at h0
    simp only [show ¬ q + 1 < q + 1 from by omega, if_true, if_false] at h1
    rw [units_getElem?_q inp q hq] at h0
    rw [show q + 1 + (inp.nq + (b - psBelow inp.ps b) - (q + 1)) = inp.nq + (b - psBelow inp.ps b) from by omega,
      units_getElem?_b inp _ (by omega) (by omega)] at h1
    rw [← hcod] at h0 h1
    have hsplit := split_two h0 h1
    have hfit : boxFits (measureSwaps inp.units inp.nq q (b - psBelow inp.ps b)).cod (.measure 1 false true) q = true := by
      apply boxFits_iff.mpr
      refine ⟨_, _, hsplit, ?_⟩
      have : q + 1 < (measureSwaps inp.units inp.nq q (b - psBelow inp.ps b)).cod.length := by
        rcases Nat.lt_or_ge (q + 1) (measureSwaps inp.units inp.nq q (b - psBelow inp.ps b)).cod.length with h | h
        · exact h
        · rw [List.getElem?_eq_none h] at h1; cases h1
      simp; omega
    obtain ⟨d, hd⟩ := place_ok (circuit := acc.circuit) (by rw [inv.cod, hdom]) hfit rfl
    exact ⟨⟨d, acc.bras⟩, by simp only [hd]⟩

theorem stepCmd_ok {inp : TkIn} {acc : Acc} {s : ImpSpec} {c : Cmd} (himp : Cmd.importable inp c = true)
    (inv : LoopInv inp acc s) : ∃ acc', stepCmd inp acc c = .ok acc' := by
  by_cases hop : c.op = "Measure"
  · have himp' := himp
    unfold Cmd.importable at himp'
    simp only [hop, if_true] at himp'
    unfold stepCmd
    simp only [hop, if_true]
    match hq : c.qs, hb : c.bs, himp' with
    | [q], [b], himp' =>
      simp only [List.head?_cons]
      simp only [Bool.and_eq_true, Bool.or_eq_true, decide_eq_true_eq] at himp'
      exact stepMeasure_ok himp'.1 himp'.2 inv
  · unfold stepCmd
    simp only [hop, if_false]
    exact stepGate_ok hop himp inv

theorem loopCmds_ok {inp : TkIn} (cmds : List Cmd) {acc : Acc} {s : ImpSpec}
    (himp : ∀ c ∈ cmds, Cmd.importable inp c = true) (inv : LoopInv inp acc s) :
    ∃ acc', loopCmds inp acc cmds = .ok acc' := by
  induction cmds generalizing acc s with
  | nil => exact ⟨acc, rfl⟩
  | cons c rest ih =>
    obtain ⟨a1, h1⟩ := stepCmd_ok (himp c (by simp)) inv
    obtain ⟨a2, h2⟩ := ih (fun c' hc' => himp c' (by simp [hc'])) (stepCmd_inv (himp c (by simp)) inv h1)
    exact ⟨a2, by simp only [loopCmds, h1, h2]⟩

/-! ### the final layer and the post-processing -/

theorem foldl_tensor_dom_cod (ds : List D) (acc : D) :
    (ds.foldl D.tensor acc).dom = acc.dom ++ (ds.map (·.dom)).flatten ∧
      (ds.foldl D.tensor acc).cod = acc.cod ++ (ds.map (·.cod)).flatten := by
  induction ds generalizing acc with
  | nil => simp
  | cons d ds ih =>
    simp only [List.foldl_cons, List.map_cons, List.flatten_cons]
    rw [(ih _).1, (ih _).2]
    simp [D.tensor, List.append_assoc]

theorem final_qubits (bras : PS) (m k : Nat) :
    ((((List.replicate m W.q).zipIdx k).map (finalBox bras)).map (·.dom)).flatten = List.replicate m .q ∧
      ((((List.replicate m W.q).zipIdx k).map (finalBox bras)).map (·.cod)).flatten = [] := by
  induction m generalizing k with
  | zero => simp
  | succ m ih =>
    simp only [List.replicate_succ, List.zipIdx_cons, List.map_cons, List.flatten_cons, (ih (k + 1)).1, (ih (k + 1)).2]
    unfold finalBox
    split <;> simp [D.box, TBox.dom, TBox.cod]

theorem final_bits (bras : PS) (m k : Nat) (h : ∀ i, k ≤ i → bras.has i = false) :
    ((((List.replicate m W.b).zipIdx k).map (finalBox bras)).map (·.dom)).flatten = List.replicate m .b ∧
      ((((List.replicate m W.b).zipIdx k).map (finalBox bras)).map (·.cod)).flatten = List.replicate m .b := by
  induction m generalizing k with
  | zero => simp
  | succ m ih =>
    have ih' := ih (k + 1) (fun i hi => h i (by omega))
    simp only [List.replicate_succ, List.zipIdx_cons, List.map_cons, List.flatten_cons, ih'.1, ih'.2]
    simp [finalBox, h k (Nat.le_refl k), D.id]

theorem finalLayer_units (inp : TkIn) (bras : PS) (h : ∀ k, bras.has k = true → k < inp.nq) :
    (finalLayer bras inp.units).dom = inp.units ∧ (finalLayer bras inp.units).cod = List.replicate inp.nbits .b := by
  have hb : ∀ i, 0 + inp.nq ≤ i → bras.has i = false := by
    intro i hi
    cases hh : bras.has i with
    | false => rfl
    | true => have := h i hh; omega
  obtain ⟨q1, q2⟩ := final_qubits bras inp.nq 0
  obtain ⟨b1, b2⟩ := final_bits bras inp.nbits (0 + inp.nq) hb
  unfold finalLayer D.tensorAll
  obtain ⟨h1, h2⟩ := foldl_tensor_dom_cod (inp.units.zipIdx.map (finalBox bras)) (D.id [])
  rw [h1, h2]
  simp only [D.id, List.nil_append, TkIn.units, List.zipIdx_append, List.map_append, List.flatten_append,
    List.length_replicate, q1, q2, b1, b2, and_self]

/-- **The import is defined** on every importable tket circuit whose post-processing has as many
    inputs as there are non-post-selected bits. -/
theorem fromTk_total {inp : TkIn} (himp : inp.importable = true) (hpp : inp.pp.dom = inp.nbits) :
    ∃ d, fromTk inp = .ok d := by
  have himp' := himp
  unfold TkIn.importable at himp'
  rw [List.all_eq_true] at himp'
  obtain ⟨acc, hacc⟩ := loopCmds_ok inp.cmds himp' (init_inv inp)
  have inv := loopCmds_inv inp.cmds himp' (init_inv inp) hacc
  change LoopInv inp acc (ImpSpec.run inp) at inv
  have sinv := spec_run_inv himp
  obtain ⟨f1, f2⟩ := finalLayer_units inp acc.bras (by rw [inv.bras]; exact sinv.keys)
  have hbody : fromTkBody inp = .ok ⟨acc.circuit.dom, List.replicate inp.nbits .b,
      acc.circuit.layers ++ (finalLayer acc.bras inp.units).layers⟩ := by
    simp only [fromTkBody, hacc, inv.cod, D.then, f1, f2, if_true]
  unfold fromTk
  rw [hbody]
  have hc : ∀ b, (addScalar b ⟨acc.circuit.dom, List.replicate inp.nbits .b,
      acc.circuit.layers ++ (finalLayer acc.bras inp.units).layers⟩).cod = inp.pp.toD.dom := by
    intro b
    unfold addScalar
    split <;> simp [D.tensor, D.box, TBox.cod, PP.toD, hpp]
  simp only [D.then, hc, if_true]
  exact ⟨_, rfl⟩

end DV.Tk
