/-
  Proofs/TensorIndex.lean — multi-index toolkit for Model/Tensor.lean:
  `idxs` enumerates exactly the in-range multi-indices, in row-major order
  (`(idxs s)[flatIdx s i] = i`), block decomposition of indices and flat positions
  (`idxs_append`, `flatIdx_append`), reading back a tabulated array (`ofFn_get`),
  Fubini and Kronecker-delta lemmas for `sumOver`.
-/
import Model.Tensor
import Mathlib.Algebra.BigOperators.Ring.List
import Mathlib.Tactic.Ring
import Mathlib.Tactic.Linarith

namespace DV
open NDArray

/-- `i` is a multi-index of shape `s`. -/
def InRange : List Nat → List Nat → Prop
  | [], [] => True
  | n :: s, i :: is => i < n ∧ InRange s is
  | _, _ => False

@[simp] theorem inRange_nil_nil : InRange [] [] := trivial
@[simp] theorem inRange_cons_cons {n i : Nat} {s is : List Nat} :
    InRange (n :: s) (i :: is) ↔ i < n ∧ InRange s is := Iff.rfl
@[simp] theorem inRange_nil_cons {i : Nat} {is : List Nat} : ¬ InRange [] (i :: is) := id
@[simp] theorem inRange_cons_nil {n : Nat} {s : List Nat} : ¬ InRange (n :: s) [] := id

theorem InRange.length_eq : ∀ {s i : List Nat}, InRange s i → i.length = s.length
  | [], [], _ => rfl
  | _ :: _, _ :: _, h => by simp [InRange.length_eq h.2]
  | [], _ :: _, h => h.elim
  | _ :: _, [], h => h.elim

theorem inRange_nil_iff {i : List Nat} : InRange [] i ↔ i = [] := by
  cases i <;> simp

theorem mem_idxs : ∀ {s i : List Nat}, i ∈ idxs s ↔ InRange s i
  | [], i => by simp [idxs, inRange_nil_iff]
  | n :: s, [] => by simp [idxs]
  | n :: s, i :: is => by
    simp only [idxs, List.mem_flatMap, List.mem_range, List.mem_map, inRange_cons_cons]
    constructor
    · rintro ⟨a, ha, b, hb, h⟩
      cases h
      exact ⟨ha, mem_idxs.1 hb⟩
    · rintro ⟨h1, h2⟩
      exact ⟨i, h1, is, mem_idxs.2 h2, rfl⟩

theorem idxs_length : ∀ s : List Nat, (idxs s).length = prod s
  | [] => rfl
  | n :: s => by
    simp only [idxs, prod, List.length_flatMap, List.length_map, idxs_length s]
    simp

theorem flatIdx_lt : ∀ {s i : List Nat}, InRange s i → flatIdx s i < prod s
  | [], [], _ => by simp [flatIdx, prod]
  | n :: s, i :: is, h => by
    have h2 := flatIdx_lt h.2
    have h1 : i + 1 ≤ n := h.1
    simp only [flatIdx, prod]
    calc i * prod s + flatIdx s is < i * prod s + prod s := by omega
      _ = (i + 1) * prod s := by ring
      _ ≤ n * prod s := Nat.mul_le_mul_right _ h1
  | [], _ :: _, h => h.elim
  | _ :: _, [], h => h.elim

/-- Position `i * P + r` of a concatenation of blocks of constant length `P`. -/
theorem getElem?_flatMap_const {α β} (f : α → List β) (P : Nat) :
    ∀ (l : List α), (∀ a ∈ l, (f a).length = P) → ∀ (i r : Nat), r < P →
      (l.flatMap f)[i * P + r]? = (l[i]?).bind (fun a => (f a)[r]?)
  | [], _, i, r, _ => by simp
  | a :: l, h, 0, r, hr => by
    have : r < (f a).length := by rw [h a (by simp)]; exact hr
    simp [List.flatMap_cons, List.getElem?_append_left this]
  | a :: l, h, i + 1, r, hr => by
    have hlen : (f a).length = P := h a (by simp)
    have : (f a).length ≤ (i + 1) * P + r := by rw [hlen]; nlinarith
    rw [List.flatMap_cons, List.getElem?_append_right this, hlen]
    have e : (i + 1) * P + r - P = i * P + r := by
      have : (i + 1) * P = i * P + P := by ring
      omega
    rw [e, getElem?_flatMap_const f P l (fun a ha => h a (by simp [ha])) i r hr]
    simp

/-- `idxs` is the row-major enumeration: the multi-index at flat position `flatIdx s i` is `i`. -/
theorem getElem?_idxs_flatIdx : ∀ {s i : List Nat}, InRange s i → (idxs s)[flatIdx s i]? = some i
  | [], [], _ => by simp [idxs, flatIdx]
  | n :: s, i :: is, h => by
    simp only [idxs, flatIdx]
    rw [getElem?_flatMap_const _ (prod s) _ (by simp [idxs_length]) i _ (flatIdx_lt h.2)]
    simp [List.getElem?_range h.1, getElem?_idxs_flatIdx h.2]
  | [], _ :: _, h => h.elim
  | _ :: _, [], h => h.elim

theorem flatIdx_inj {s i j : List Nat} (hi : InRange s i) (hj : InRange s j)
    (h : flatIdx s i = flatIdx s j) : i = j := by
  have a := getElem?_idxs_flatIdx hi
  rw [h, getElem?_idxs_flatIdx hj] at a
  exact (Option.some.inj a).symm

/-- Reading back a tabulated array. -/
theorem ofFn_get {R} [Zero R] (s : List Nat) (f : List Nat → R) {i : List Nat}
    (h : InRange s i) : (ofFn s f).get i = f i := by
  simp only [NDArray.get, ofFn, Array.getD_eq_getD_getElem?, List.getElem?_toArray,
    List.getElem?_map, getElem?_idxs_flatIdx h]
  rfl

theorem ofFn_wf {R} (s : List Nat) (f : List Nat → R) : (ofFn s f).WF := by
  simp [NDArray.WF, ofFn, idxs_length]

/-- Two tabulations agree as soon as the functions agree on in-range indices. -/
theorem ofFn_congr {R} {s : List Nat} {f g : List Nat → R}
    (h : ∀ i, InRange s i → f i = g i) : ofFn s f = ofFn s g := by
  simp only [ofFn]
  congr 2
  exact List.map_congr_left (fun i hi => h i (mem_idxs.1 hi))

/-! ### blocks -/

theorem prod_append : ∀ s t : List Nat, prod (s ++ t) = prod s * prod t
  | [], t => by simp [prod]
  | n :: s, t => by simp [prod, prod_append s t, Nat.mul_assoc]

theorem idxs_append : ∀ s t : List Nat,
    idxs (s ++ t) = (idxs s).flatMap (fun i => (idxs t).map (fun j => i ++ j))
  | [], t => by simp [idxs]
  | n :: s, t => by
    simp only [List.cons_append, idxs, idxs_append s t, List.flatMap_assoc, List.map_flatMap,
      List.flatMap_map, List.map_map]
    rfl

theorem flatIdx_append : ∀ {s i : List Nat} (t j : List Nat), i.length = s.length →
    flatIdx (s ++ t) (i ++ j) = flatIdx s i * prod t + flatIdx t j
  | [], [], t, j, _ => by simp [flatIdx]
  | n :: s, i :: is, t, j, h => by
    have h' : is.length = s.length := by simpa using h
    simp only [List.cons_append, flatIdx, flatIdx_append t j h', prod_append]
    ring
  | [], _ :: _, _, _, h => by simp at h
  | _ :: _, [], _, _, h => by simp at h

theorem inRange_append : ∀ {s i t j : List Nat}, InRange s i → InRange t j →
    InRange (s ++ t) (i ++ j)
  | [], [], _, _, _, h => h
  | _ :: _, _ :: _, _, _, h1, h2 => ⟨h1.1, inRange_append h1.2 h2⟩
  | [], _ :: _, _, _, h, _ => h.elim
  | _ :: _, [], _, _, h, _ => h.elim

theorem inRange_append_iff : ∀ {s i t j : List Nat}, i.length = s.length →
    (InRange (s ++ t) (i ++ j) ↔ InRange s i ∧ InRange t j)
  | [], [], _, _, _ => by simp
  | n :: s, i :: is, t, j, h => by
    have h' : is.length = s.length := by simpa using h
    simp [inRange_append_iff (t := t) (j := j) h', and_assoc]
  | [], _ :: _, _, _, h => by simp at h
  | _ :: _, [], _, _, h => by simp at h

/-- Every index of `s ++ t` splits. -/
theorem inRange_split {s t x : List Nat} (h : InRange (s ++ t) x) :
    x = x.take s.length ++ x.drop s.length ∧ InRange s (x.take s.length) ∧
      InRange t (x.drop s.length) := by
  have hl := h.length_eq
  have e : x = x.take s.length ++ x.drop s.length := (List.take_append_drop _ _).symm
  have hlen : (x.take s.length).length = s.length := by
    simp only [List.length_take, List.length_append] at *; omega
  refine ⟨e, ?_⟩
  rw [e] at h
  exact (inRange_append_iff hlen).1 h

theorem take_append_of_inRange {s i : List Nat} (j : List Nat) (h : InRange s i) :
    (i ++ j).take s.length = i := by
  rw [← h.length_eq]; simp

theorem drop_append_of_inRange {s i : List Nat} (j : List Nat) (h : InRange s i) :
    (i ++ j).drop s.length = j := by
  rw [← h.length_eq]; simp

theorem flatMap_range_blocks (P : Nat) : ∀ n : Nat,
    (List.range n).flatMap (fun i => (List.range P).map (fun r => i * P + r)) = List.range (n * P)
  | 0 => by simp
  | n + 1 => by
    rw [List.range_succ, List.flatMap_append, flatMap_range_blocks P n]
    have : (n + 1) * P = n * P + P := by ring
    rw [this, List.range_add]
    simp

theorem map_flatIdx_idxs : ∀ s : List Nat, (idxs s).map (flatIdx s) = List.range (prod s)
  | [] => by simp [idxs, flatIdx, prod]
  | n :: s => by
    simp only [idxs, List.map_flatMap, List.map_map, prod]
    rw [← flatMap_range_blocks (prod s) n]
    congr 1
    funext i
    rw [← map_flatIdx_idxs s, List.map_map]
    rfl

theorem idxs_nodup (s : List Nat) : (idxs s).Nodup := by
  have h : ((idxs s).map (flatIdx s)).Nodup := by
    rw [map_flatIdx_idxs]; exact List.nodup_range
  exact (List.pairwise_map.1 h).imp (fun hne e => hne (by rw [e]))

/-- Pointwise characterisation of in-range indices. -/
theorem inRange_iff_getD : ∀ {s i : List Nat},
    InRange s i ↔ i.length = s.length ∧ ∀ p, p < s.length → i.getD p 0 < s.getD p 0
  | [], [] => by simp
  | [], _ :: _ => by simp
  | _ :: _, [] => by simp
  | n :: s, i :: is => by
    simp only [inRange_cons_cons, inRange_iff_getD (s := s) (i := is), List.length_cons,
      Nat.add_right_cancel_iff]
    constructor
    · rintro ⟨h1, h2, h3⟩
      refine ⟨h2, fun p hp => ?_⟩
      cases p with
      | zero => simpa using h1
      | succ p => simpa using h3 p (by omega)
    · rintro ⟨h2, h3⟩
      refine ⟨by simpa using h3 0 (by omega), h2, fun p hp => ?_⟩
      simpa using h3 (p + 1) (by omega)

/-! ### sums over multi-indices -/

section sums
variable {R : Type} [CommSemiring R]

theorem sumOver_congr {s : List Nat} {f g : List Nat → R}
    (h : ∀ i, InRange s i → f i = g i) : sumOver s f = sumOver s g := by
  unfold sumOver
  rw [List.map_congr_left (fun i hi => h i (mem_idxs.1 hi))]

@[simp] theorem sumOver_nil (f : List Nat → R) : sumOver [] f = f [] := by
  simp [sumOver, idxs]

theorem sumOver_zero (s : List Nat) : sumOver s (fun _ => (0 : R)) = 0 := by
  simp [sumOver]

theorem sumOver_mul_left (s : List Nat) (r : R) (f : List Nat → R) :
    sumOver s (fun i => r * f i) = r * sumOver s f := by
  unfold sumOver; exact List.sum_map_mul_left _ _ _

theorem sumOver_mul_right (s : List Nat) (r : R) (f : List Nat → R) :
    sumOver s (fun i => f i * r) = sumOver s f * r := by
  unfold sumOver; exact List.sum_map_mul_right _ _ _

theorem sumOver_add (s : List Nat) (f g : List Nat → R) :
    sumOver s (fun i => f i + g i) = sumOver s f + sumOver s g := by
  unfold sumOver; exact List.sum_map_add

/-- Fubini over index blocks. -/
theorem sumOver_append (s t : List Nat) (f : List Nat → R) :
    sumOver (s ++ t) f = sumOver s (fun i => sumOver t (fun j => f (i ++ j))) := by
  unfold sumOver
  rw [idxs_append, List.map_flatMap, List.flatMap_def, List.sum_flatten]
  simp [List.map_map, Function.comp_def]

theorem list_sum_comm {α β} (l : List α) (m : List β) (f : α → β → R) :
    (l.map (fun a => (m.map (fun b => f a b)).sum)).sum
      = (m.map (fun b => (l.map (fun a => f a b)).sum)).sum := by
  induction l with
  | nil => simp
  | cons a l ih => simp [ih, List.sum_map_add]

theorem sumOver_comm (s t : List Nat) (f : List Nat → List Nat → R) :
    sumOver s (fun i => sumOver t (fun j => f i j))
      = sumOver t (fun j => sumOver s (fun i => f i j)) := by
  unfold sumOver; exact list_sum_comm _ _ _

theorem list_sum_ite_eq {α} [DecidableEq α] (f : α → R) (a : α) :
    ∀ l : List α, l.Nodup → a ∈ l → (l.map (fun j => if a = j then f j else 0)).sum = f a
  | [], _, h => by simp at h
  | b :: l, hn, h => by
    rw [List.nodup_cons] at hn
    by_cases hab : a = b
    · subst hab
      have : (l.map (fun j => if a = j then f j else 0)) = l.map (fun _ => (0 : R)) :=
        List.map_congr_left (fun j hj => by
          have : a ≠ j := fun e => hn.1 (e ▸ hj)
          simp [this])
      simp [this]
    · have ha : a ∈ l := by
        rcases List.mem_cons.1 h with h | h
        · exact absurd h hab
        · exact h
      simp [hab, list_sum_ite_eq f a l hn.2 ha]

/-- Contracting with a Kronecker delta. -/
theorem sumOver_delta {s i : List Nat} (hi : InRange s i) (f : List Nat → R) :
    sumOver s (fun j => (if i = j then 1 else 0) * f j) = f i := by
  unfold sumOver
  rw [← list_sum_ite_eq f i (idxs s) (idxs_nodup s) (mem_idxs.2 hi)]
  congr 1
  apply List.map_congr_left
  intro j _
  split <;> simp

theorem sumOver_delta' {s i : List Nat} (hi : InRange s i) (f : List Nat → R) :
    sumOver s (fun j => f j * (if j = i then 1 else 0)) = f i := by
  rw [← sumOver_delta hi f]
  apply sumOver_congr
  intro j _
  by_cases h : j = i
  · subst h; simp
  · have : ¬ i = j := fun e => h e.symm
    simp [h, this]

end sums

end DV
