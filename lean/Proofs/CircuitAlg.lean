/-
  Proofs/CircuitAlg.lean — whole circuits and whole ZX diagrams over an arbitrary commutative (star)
  ring: the lifting from single boxes to composites (C11 `circuit_unitary`, `circuit_dagger`; C16
  `circuit2zx_sound`, `zx_diagram_dagger`).

  A circuit / diagram in `boxes/offsets` form is a list of LAYERS `(l, U, r)`; its value is the ordered
  product of the matrices `1_l ⊗ U ⊗ 1_r` (`evalLayers`: literally the recursion of `evalCircFrom` and
  `evalZXFrom` of Model/Gates.lean — `evalCircFrom_eq`, `evalZXFrom_eq`).  `LTyped n L m`: the layers
  compose, from `n` to `m` qubits, every box matrix being `2^a × 2^b` on `l + a + r` wires.

  PROVED for every typed list of layers, by induction from the laws of Proofs/MatAlg.lean:
    * `evalLayers_isMat`, `evalLayersFrom_eq_mul`, `evalLayers_append`, `evalLayers_cons`;
    * `evalLayers_isometry`/`_coisometry`/`_unitary`: if every box satisfies `U·U† = 1` (`U†·U = 1`) so does
      the composite;
    * `evalLayers_dagger`: the reversed list of daggered layers evaluates to the conjugate transpose;
    * `evalLayers_whisker`: shifting every layer by `l` wires on the left and `r` on the right is `1_l ⊗ – ⊗ 1_r`;
    * `evalLayers_scaled`: if layer by layer `V_i = k_i • U_i` then the composites differ by `∏ k_i`.
  The ZX instances: `evalZX_dagger` (whole diagrams, from `zxb_dagger` on generators) and
  `evalZX_shift` (whiskering of a sub-diagram: the functor `circuit2zx` places the image of a gate at
  its offset).
-/
import Proofs.MatAlg

namespace DV.Gates

variable {R : Type}

/-- Layers `(left, box matrix, right)`. -/
abbrev Layers (R : Type) := List (Nat × Mat R × Nat)

/-- The matrix of one layer, `1_l ⊗ U ⊗ 1_r`. -/
def layerMat [Zero R] [One R] [Mul R] (x : Nat × Mat R × Nat) : Mat R :=
  kron (idQ x.1) (kron x.2.1 (idQ x.2.2))

/-- The recursion shared by `evalCircFrom` and `evalZXFrom`. -/
def evalLayersFrom [Zero R] [One R] [Add R] [Mul R] (acc : Mat R) : Layers R → Mat R
  | [] => acc
  | x :: rest => evalLayersFrom (mul acc (layerMat x)) rest

def evalLayers [Zero R] [One R] [Add R] [Mul R] (n : Nat) (L : Layers R) : Mat R :=
  evalLayersFrom (idQ n) L

/-- The layers compose from `n` to `m` qubits; the box of a layer is a `2^a × 2^b` matrix. -/
inductive LTyped : Nat → Layers R → Nat → Prop
  | nil (n : Nat) : LTyped n [] n
  | cons {l a b r m : Nat} {U : Mat R} {rest : Layers R} :
      IsMat (pow2 a) (pow2 b) U → LTyped (l + b + r) rest m → LTyped (l + a + r) ((l, U, r) :: rest) m

theorem LTyped.cast {n n' m : Nat} {L : Layers R} (h : LTyped n L m) (e : n = n') : LTyped n' L m :=
  e ▸ h

theorem LTyped.append {n k m : Nat} {L L' : Layers R} (h : LTyped n L k) (h' : LTyped k L' m) :
    LTyped n (L ++ L') m := by
  induction h with
  | nil n => exact h'
  | cons hU _ ih => exact LTyped.cons hU (ih h')

/-- The circuits of Model/Gates.lean are lists of layers. -/
theorem evalCircFrom_eq (acc : M8) (c : Circ) :
    evalCircFrom acc c = evalLayersFrom acc (c.map fun x => (x.1, x.2.1.eval, x.2.2)) := by
  induction c generalizing acc with
  | nil => rfl
  | cons x rest ih =>
    obtain ⟨l, g, r⟩ := x
    simp only [evalCircFrom, List.map_cons, evalLayersFrom, layerMat]
    exact ih _

/-- The layers of a ZX diagram on `w` wires (`evalZXFrom`). -/
def zxLayers [Zero R] [One R] [Add R] [Mul R] [Neg R] (ρ : R) : Nat → ZXD R → Layers R
  | _, [] => []
  | w, (b, off) :: rest => (off, b.mat ρ, w - off - b.dom) :: zxLayers ρ (w - b.dom + b.cod) rest

theorem evalZXFrom_eq [Zero R] [One R] [Add R] [Mul R] [Neg R] (ρ : R) (w : Nat) (acc : Mat R)
    (d : ZXD R) : evalZXFrom ρ w acc d = evalLayersFrom acc (zxLayers ρ w d) := by
  induction d generalizing w acc with
  | nil => rfl
  | cons x rest ih =>
    obtain ⟨b, off⟩ := x
    simp only [evalZXFrom, zxLayers, evalLayersFrom, layerMat]
    exact ih _ _

theorem evalZX_eq [Zero R] [One R] [Add R] [Mul R] [Neg R] (ρ : R) (w : Nat) (d : ZXD R) :
    evalZX ρ w d = evalLayers w (zxLayers ρ w d) := evalZXFrom_eq ρ w _ d

section Ring
variable [CommRing R]

theorem isMat_layerMat {l a b r : Nat} {U : Mat R} (hU : IsMat (pow2 a) (pow2 b) U) :
    IsMat (pow2 (l + a + r)) (pow2 (l + b + r)) (layerMat (l, U, r)) := by
  have := (isMat_idQ (R := R) l).kron (hU.kron (isMat_idQ r))
  rwa [← pow2_add, ← pow2_add, ← pow2_add, ← pow2_add, ← Nat.add_assoc, ← Nat.add_assoc] at this

/-- Accumulator form: `evalLayersFrom acc L = acc · evalLayers n L`. -/
theorem evalLayersFrom_eq_mul {n m : Nat} {L : Layers R} (h : LTyped n L m) :
    ∀ {p : Nat} {acc : Mat R}, IsMat p (pow2 n) acc →
      IsMat p (pow2 m) (evalLayersFrom acc L) ∧
      evalLayersFrom acc L = mul acc (evalLayers n L) := by
  induction h with
  | nil n =>
    intro p acc hacc
    exact ⟨hacc, by simp only [evalLayers, evalLayersFrom]; rw [idQ, mul_identity (pow2_pos n) hacc]⟩
  | @cons l a b r m U rest hU _ ih =>
    intro p acc hacc
    have hL := isMat_layerMat (l := l) (r := r) hU
    have h1 := ih (hacc.mul (pow2_pos _) hL)
    have h2 := ih ((isMat_idQ (R := R) (l + a + r)).mul (pow2_pos _) hL)
    refine ⟨h1.1, ?_⟩
    simp only [evalLayers, evalLayersFrom] at h1 h2 ⊢
    rw [h1.2, h2.2]
    rw [← mul_assoc_of_isMat (pow2_pos _) (pow2_pos _) hacc
      ((isMat_idQ (R := R) (l + a + r)).mul (pow2_pos _) hL) (ih (isMat_idQ _)).1]
    congr 1
    rw [idQ, identity_mul (pow2_pos _) hL]

theorem evalLayers_isMat {n m : Nat} {L : Layers R} (h : LTyped n L m) :
    IsMat (pow2 n) (pow2 m) (evalLayers n L) := (evalLayersFrom_eq_mul h (isMat_idQ n)).1

/-- First layer, then the rest. -/
theorem evalLayers_cons {l a b r m : Nat} {U : Mat R} {rest : Layers R}
    (hU : IsMat (pow2 a) (pow2 b) U) (h : LTyped (l + b + r) rest m) :
    evalLayers (l + a + r) ((l, U, r) :: rest) = mul (layerMat (l, U, r)) (evalLayers (l + b + r) rest) := by
  have hL := isMat_layerMat (l := l) (r := r) hU
  simp only [evalLayers, evalLayersFrom]
  rw [idQ, identity_mul (pow2_pos _) hL]
  exact (evalLayersFrom_eq_mul h hL).2

theorem evalLayersFrom_append (acc : Mat R) (L L' : Layers R) :
    evalLayersFrom acc (L ++ L') = evalLayersFrom (evalLayersFrom acc L) L' := by
  induction L generalizing acc with
  | nil => rfl
  | cons x rest ih => simp only [List.cons_append, evalLayersFrom]; exact ih _

theorem mul_idQ_idQ (n : Nat) : mul (idQ (R := R) n) (idQ n) = idQ n :=
  mul_identity (pow2_pos _) (isMat_identity _)

/-- Composition of diagrams is the product. -/
theorem evalLayers_append {n k m : Nat} {L L' : Layers R} (h : LTyped n L k) (h' : LTyped k L' m) :
    evalLayers n (L ++ L') = mul (evalLayers n L) (evalLayers k L') := by
  unfold evalLayers
  rw [evalLayersFrom_append]
  exact (evalLayersFrom_eq_mul h' (evalLayers_isMat h)).2

/-! ### scalar multiples, layer by layer -/

/-- `L'` has the boxes of `L` scaled: `V_i = k_i • U_i`; `K` is the product of the `k_i`. -/
inductive LScaled : Layers R → Layers R → R → Prop
  | nil : LScaled [] [] 1
  | cons {l r : Nat} {U : Mat R} {k K : R} {L L' : Layers R} :
      LScaled L L' K → LScaled ((l, U, r) :: L) ((l, msmul k U, r) :: L') (k * K)

theorem LScaled.typed {L L' : Layers R} {K : R} (hs : LScaled L L' K) {n m : Nat} (h : LTyped n L m) :
    LTyped n L' m := by
  induction hs generalizing n with
  | nil => exact h
  | cons _ ih =>
    cases h with
    | cons hU hrest => exact LTyped.cons (hU.msmul _) (ih hrest)

/-- **One overall scalar**: if box by box `V_i = k_i • U_i`, the composites differ by `∏ k_i`. -/
theorem evalLayers_scaled {L L' : Layers R} {K : R} (hs : LScaled L L' K) {n m : Nat}
    (h : LTyped n L m) : evalLayers n L' = msmul K (evalLayers n L) := by
  induction hs generalizing n with
  | nil =>
    cases h
    rw [msmul_one (evalLayers_isMat (LTyped.nil _))]
  | @cons l r U k K L L' hs' ih =>
    cases h with
    | @cons _ a b _ _ _ _ hU hrest =>
      rw [evalLayers_cons (hU.msmul k) (hs'.typed hrest), evalLayers_cons hU hrest, ih hrest]
      have hL := isMat_layerMat (l := l) (r := r) hU
      have hE := evalLayers_isMat hrest
      have e : layerMat (l, msmul k U, r) = msmul k (layerMat (l, U, r)) := by
        simp only [layerMat]
        rw [kron_msmul_left k hU (isMat_idQ r), kron_msmul_right k (isMat_idQ l) (hU.kron (isMat_idQ r))]
      rw [e, mul_msmul_left k (pow2_pos _) hL (hE.msmul K), mul_msmul_right K (pow2_pos _) hL hE,
        msmul_msmul k K (hL.mul (pow2_pos _) hE)]

/-! ### whiskering -/

/-- Every layer moved `l` wires to the right, with `r` further wires on its right. -/
def whisker (l r : Nat) (L : Layers R) : Layers R := L.map fun x => (l + x.1, x.2.1, x.2.2 + r)

omit [CommRing R] in
theorem whisker_typed (l r : Nat) {n m : Nat} {L : Layers R} (h : LTyped n L m) :
    LTyped (l + n + r) (whisker l r L) (l + m + r) := by
  induction h with
  | nil n => exact LTyped.nil _
  | @cons l' a b r' m U rest hU _ ih =>
    simp only [whisker, List.map_cons] at ih ⊢
    have e1 : l + (l' + a + r') + r = (l + l') + a + (r' + r) := by omega
    have e2 : l + (l' + b + r') + r = (l + l') + b + (r' + r) := by omega
    rw [e1]; rw [e2] at ih
    exact LTyped.cons hU ih

theorem layerMat_whisker (l r : Nat) {l' a b r' : Nat} {U : Mat R} (hU : IsMat (pow2 a) (pow2 b) U) :
    layerMat (l + l', U, r' + r) = kron (idQ l) (kron (layerMat (l', U, r')) (idQ r)) := by
  simp only [layerMat]
  have hr' := isMat_idQ (R := R) r'
  have hr := isMat_idQ (R := R) r
  have hl' := isMat_idQ (R := R) l'
  have hl := isMat_idQ (R := R) l
  rw [← kron_idQ l l', ← kron_idQ r' r,
    kron_assoc_of_isMat hl hl' (hU.kron (hr'.kron hr)),
    ← kron_assoc_of_isMat hU hr' hr,
    ← kron_assoc_of_isMat hl' (hU.kron hr') hr]

/-- **Whiskering**: `⟦1_l ⊗ D ⊗ 1_r⟧ = 1_l ⊗ ⟦D⟧ ⊗ 1_r`. -/
theorem evalLayers_whisker (l r : Nat) {n m : Nat} {L : Layers R} (h : LTyped n L m) :
    evalLayers (l + n + r) (whisker l r L) = kron (idQ l) (kron (evalLayers n L) (idQ r)) := by
  induction h with
  | nil n =>
    simp only [whisker, List.map_nil, evalLayers, evalLayersFrom]
    rw [kron_idQ, kron_idQ, Nat.add_assoc]
  | @cons l' a b r' m U rest hU hrest ih =>
    have e1 : l + (l' + a + r') + r = (l + l') + a + (r' + r) := by omega
    have e2 : l + (l' + b + r') + r = (l + l') + b + (r' + r) := by omega
    have hw := whisker_typed l r hrest
    rw [e2] at hw ih
    simp only [whisker, List.map_cons] at hw ih ⊢
    rw [e1, evalLayers_cons hU hw, ih, evalLayers_cons hU hrest, layerMat_whisker l r hU]
    have hL := isMat_layerMat (l := l') (r := r') hU
    have hE := evalLayers_isMat hrest
    have hr := isMat_idQ (R := R) r
    have hl := isMat_idQ (R := R) l
    rw [← kron_mul_kron (pow2_pos _) (Nat.mul_pos (pow2_pos _) (pow2_pos _)) hl hl
        (hL.kron hr) (hE.kron hr),
      ← kron_mul_kron (pow2_pos _) (pow2_pos _) hL hE hr hr]
    rw [mul_idQ_idQ, mul_idQ_idQ]

end Ring

/-! ### single layers -/

section Ring2
variable [CommRing R]

theorem layerMat_mul (l r : Nat) {a b c : Nat} {U V : Mat R} (hU : IsMat (pow2 a) (pow2 b) U)
    (hV : IsMat (pow2 b) (pow2 c) V) :
    mul (layerMat (l, U, r)) (layerMat (l, V, r)) = layerMat (l, mul U V, r) := by
  simp only [layerMat]
  have hr := isMat_idQ (R := R) r
  have hl := isMat_idQ (R := R) l
  rw [← kron_mul_kron (pow2_pos _) (Nat.mul_pos (pow2_pos _) (pow2_pos _)) hl hl (hU.kron hr) (hV.kron hr),
    ← kron_mul_kron (pow2_pos _) (pow2_pos _) hU hV hr hr, mul_idQ_idQ, mul_idQ_idQ]

theorem layerMat_idQ (l a r : Nat) : layerMat (R := R) (l, idQ a, r) = idQ (l + a + r) := by
  simp only [layerMat]; rw [kron_idQ, kron_idQ, Nat.add_assoc]

theorem layerMat_dagger [StarRing R] (l r : Nat) {a b : Nat} {U : Mat R} (hU : IsMat (pow2 a) (pow2 b) U) :
    dagger (layerMat (l, U, r)) = layerMat (l, dagger U, r) := by
  simp only [layerMat]
  rw [dagger_kron (pow2_pos _) (Nat.mul_pos (pow2_pos _) (pow2_pos _)) (isMat_idQ l) (hU.kron (isMat_idQ r)),
    dagger_kron (pow2_pos _) (pow2_pos _) hU (isMat_idQ r), dagger_idQ, dagger_idQ]

theorem evalLayers_singleton {l a b r : Nat} {U : Mat R} (hU : IsMat (pow2 a) (pow2 b) U) :
    evalLayers (l + a + r) [(l, U, r)] = layerMat (l, U, r) := by
  rw [evalLayers_cons hU (LTyped.nil _)]
  simp only [evalLayers, evalLayersFrom]
  rw [idQ, mul_identity (pow2_pos _) (isMat_layerMat hU)]

end Ring2

/-! ### isometries, unitaries, the dagger -/

/-- The dagger of a list of layers: reversed, every box conjugate-transposed. -/
def Ldagger [Conj R] (L : Layers R) : Layers R := L.reverse.map fun x => (x.1, dagger x.2.1, x.2.2)

theorem Ldagger_cons [Conj R] (x : Nat × Mat R × Nat) (L : Layers R) :
    Ldagger (x :: L) = Ldagger L ++ [(x.1, dagger x.2.1, x.2.2)] := by
  simp [Ldagger]

section Star
variable [CommRing R] [StarRing R]

/-- Typed layers every box of which satisfies `U·U† = 1` (in diagram order: `U >> U† = id(dom)`). -/
inductive LIsometric : Nat → Layers R → Nat → Prop
  | nil (n : Nat) : LIsometric n [] n
  | cons {l a b r m : Nat} {U : Mat R} {rest : Layers R} :
      IsMat (pow2 a) (pow2 b) U → mul U (dagger U) = idQ a → LIsometric (l + b + r) rest m →
      LIsometric (l + a + r) ((l, U, r) :: rest) m

/-- Typed layers every box of which satisfies `U†·U = 1` (`U† >> U = id(cod)`). -/
inductive LCoisometric : Nat → Layers R → Nat → Prop
  | nil (n : Nat) : LCoisometric n [] n
  | cons {l a b r m : Nat} {U : Mat R} {rest : Layers R} :
      IsMat (pow2 a) (pow2 b) U → mul (dagger U) U = idQ b → LCoisometric (l + b + r) rest m →
      LCoisometric (l + a + r) ((l, U, r) :: rest) m

theorem LIsometric.typed {n m : Nat} {L : Layers R} (h : LIsometric n L m) : LTyped n L m := by
  induction h with
  | nil n => exact LTyped.nil n
  | cons hU _ _ ih => exact LTyped.cons hU ih

theorem LCoisometric.typed {n m : Nat} {L : Layers R} (h : LCoisometric n L m) : LTyped n L m := by
  induction h with
  | nil n => exact LTyped.nil n
  | cons hU _ _ ih => exact LTyped.cons hU ih

/-- **A circuit of isometries is an isometry**: `⟦c⟧·⟦c⟧† = 1`. -/
theorem evalLayers_isometry {n m : Nat} {L : Layers R} (h : LIsometric n L m) :
    mul (evalLayers n L) (dagger (evalLayers n L)) = idQ n := by
  induction h with
  | nil n =>
    simp only [evalLayers, evalLayersFrom]; rw [dagger_idQ, mul_idQ_idQ]
  | @cons l a b r m U rest hU hiso hrest ih =>
    have ht := hrest.typed
    have hX := isMat_layerMat (l := l) (r := r) hU
    have hE := evalLayers_isMat ht
    have hXd := hX.dagger (pow2_pos _)
    have hEd := hE.dagger (pow2_pos _)
    rw [evalLayers_cons hU ht, dagger_mul (pow2_pos _) (pow2_pos _) hX hE,
      mul_assoc_of_isMat (pow2_pos _) (pow2_pos _) hX hE (hEd.mul (pow2_pos _) hXd),
      ← mul_assoc_of_isMat (pow2_pos _) (pow2_pos _) hE hEd hXd, ih, idQ,
      identity_mul (pow2_pos _) hXd, layerMat_dagger l r hU,
      layerMat_mul l r hU (hU.dagger (pow2_pos _)), hiso, layerMat_idQ]

/-- **A circuit of co-isometries is a co-isometry**: `⟦c⟧†·⟦c⟧ = 1`. -/
theorem evalLayers_coisometry {n m : Nat} {L : Layers R} (h : LCoisometric n L m) :
    mul (dagger (evalLayers n L)) (evalLayers n L) = idQ m := by
  induction h with
  | nil n =>
    simp only [evalLayers, evalLayersFrom]; rw [dagger_idQ, mul_idQ_idQ]
  | @cons l a b r m U rest hU hiso hrest ih =>
    have ht := hrest.typed
    have hX := isMat_layerMat (l := l) (r := r) hU
    have hE := evalLayers_isMat ht
    have hXd := hX.dagger (pow2_pos _)
    have hEd := hE.dagger (pow2_pos _)
    have e : mul (dagger (layerMat (l, U, r))) (layerMat (l, U, r)) = idQ (l + b + r) := by
      rw [layerMat_dagger l r hU, layerMat_mul l r (hU.dagger (pow2_pos _)) hU, hiso, layerMat_idQ]
    rw [evalLayers_cons hU ht, dagger_mul (pow2_pos _) (pow2_pos _) hX hE,
      mul_assoc_of_isMat (pow2_pos _) (pow2_pos _) hEd hXd (hX.mul (pow2_pos _) hE),
      ← mul_assoc_of_isMat (pow2_pos _) (pow2_pos _) hXd hX hE, e, idQ,
      identity_mul (pow2_pos _) hE, ih]

theorem Ldagger_typed {n m : Nat} {L : Layers R} (h : LTyped n L m) : LTyped m (Ldagger L) n := by
  induction h with
  | nil n => exact LTyped.nil n
  | cons hU _ ih =>
    rw [Ldagger_cons]
    exact ih.append (LTyped.cons (hU.dagger (pow2_pos _)) (LTyped.nil _))

/-- **The dagger of a circuit evaluates to the conjugate transpose.** -/
theorem evalLayers_dagger {n m : Nat} {L : Layers R} (h : LTyped n L m) :
    evalLayers m (Ldagger L) = dagger (evalLayers n L) := by
  induction h with
  | nil n => simp only [Ldagger, List.reverse_nil, List.map_nil, evalLayers, evalLayersFrom]; rw [dagger_idQ]
  | @cons l a b r m U rest hU hrest ih =>
    have hX := isMat_layerMat (l := l) (r := r) hU
    have hE := evalLayers_isMat hrest
    rw [Ldagger_cons, evalLayers_append (Ldagger_typed hrest)
        (LTyped.cons (hU.dagger (pow2_pos _)) (LTyped.nil _)),
      evalLayers_singleton (hU.dagger (pow2_pos _)), ih, evalLayers_cons hU hrest,
      dagger_mul (pow2_pos _) (pow2_pos _) hX hE, layerMat_dagger l r hU]

end Star

/-! ### ZX diagrams -/

section ZX

/-- Typing scan of a diagram over any carrier (`ZXDiag.codFrom` of the model is the instance at the
    syntax: `codFrom_sem`). -/
def ZXD.codFrom : Nat → ZXD R → Option Nat
  | w, [] => some w
  | w, (b, off) :: rest =>
    if off + b.dom ≤ w then ZXD.codFrom (w - b.dom + b.cod) rest else none

theorem codFrom_sem (w : Nat) (d : ZXDiag) : ZXDiag.codFrom w d = ZXD.codFrom w d.sem := by
  induction d generalizing w with
  | nil => rfl
  | cons x rest ih =>
    obtain ⟨b, off⟩ := x
    simp only [ZXDiag.codFrom, ZXDiag.sem, List.map_cons, ZXD.codFrom]
    split
    · exact ih _
    · rfl

theorem ZXD.codFrom_append (w : Nat) (d d' : ZXD R) :
    ZXD.codFrom w (d ++ d') = (ZXD.codFrom w d).bind fun k => ZXD.codFrom k d' := by
  induction d generalizing w with
  | nil => rfl
  | cons x rest ih =>
    obtain ⟨b, off⟩ := x
    simp only [List.cons_append, ZXD.codFrom]
    split
    · exact ih _
    · rfl

theorem bits_length : ∀ n, (bits n).length = pow2 n
  | 0 => rfl
  | n + 1 => by simp [bits, pow2, bits_length n]; omega

variable [CommRing R]

theorem isMat_zxb (ρ : R) (b : ZXB R) : IsMat (pow2 b.dom) (pow2 b.cod) (b.mat ρ) := by
  cases b with
  | z n m μ =>
    refine ⟨by simp [ZXB.mat, zMat, bits_length, ZXB.dom], ?_⟩
    intro r hr
    simp only [ZXB.mat, zMat, List.mem_map] at hr
    obtain ⟨x, _, rfl⟩ := hr
    simp [bits_length, ZXB.cod]
  | x n m μ =>
    refine ⟨by simp [ZXB.mat, xMat, bits_length, ZXB.dom], ?_⟩
    intro r hr
    simp only [ZXB.mat, xMat, List.mem_map] at hr
    obtain ⟨x, _, rfl⟩ := hr
    simp [bits_length, ZXB.cod]
  | h => simp [IsMat, ZXB.mat, hMat, ZXB.dom, ZXB.cod, pow2]
  | swap => simp [IsMat, ZXB.mat, swapMat, ZXB.dom, ZXB.cod, pow2]
  | scalar s => simp [IsMat, ZXB.mat, ZXB.dom, ZXB.cod, pow2]

theorem zxLayers_typed (ρ : R) {w m : Nat} {d : ZXD R} (h : ZXD.codFrom w d = some m) :
    LTyped w (zxLayers ρ w d) m := by
  induction d generalizing w with
  | nil => simp only [ZXD.codFrom, Option.some.injEq] at h; subst h; exact LTyped.nil _
  | cons x rest ih =>
    obtain ⟨b, off⟩ := x
    simp only [ZXD.codFrom] at h
    split at h
    · rename_i hle
      have e1 : w = off + b.dom + (w - off - b.dom) := by omega
      have e2 : w - b.dom + b.cod = off + b.cod + (w - off - b.dom) := by omega
      simp only [zxLayers]
      exact (LTyped.cons (isMat_zxb ρ b) ((ih h).cast e2)).cast e1.symm
    · cases h

theorem zxLayers_append (ρ : R) {w k : Nat} {d : ZXD R} (d' : ZXD R) (h : ZXD.codFrom w d = some k) :
    zxLayers ρ w (d ++ d') = zxLayers ρ w d ++ zxLayers ρ k d' := by
  induction d generalizing w with
  | nil => simp only [ZXD.codFrom, Option.some.injEq] at h; subst h; rfl
  | cons x rest ih =>
    obtain ⟨b, off⟩ := x
    simp only [ZXD.codFrom] at h
    split at h
    · simp only [List.cons_append, zxLayers, ih h]
    · cases h

/-- **Composition of ZX diagrams is the product.** -/
theorem evalZX_append (ρ : R) {w k m : Nat} {d d' : ZXD R} (h : ZXD.codFrom w d = some k)
    (h' : ZXD.codFrom k d' = some m) :
    evalZX ρ w (d ++ d') = mul (evalZX ρ w d) (evalZX ρ k d') := by
  rw [evalZX_eq, evalZX_eq, evalZX_eq, zxLayers_append ρ d' h]
  exact evalLayers_append (zxLayers_typed ρ h) (zxLayers_typed ρ h')

/-- A sub-diagram placed `l` wires to the right (what a monoidal functor does with the image of a box). -/
def zxShift (l : Nat) (d : ZXD R) : ZXD R := d.map fun x => (x.1, x.2 + l)

theorem zxShift_layers (ρ : R) (l r : Nat) {a b : Nat} {d : ZXD R} (h : ZXD.codFrom a d = some b) :
    ZXD.codFrom (l + a + r) (zxShift l d) = some (l + b + r) ∧
    zxLayers ρ (l + a + r) (zxShift l d) = whisker l r (zxLayers ρ a d) := by
  induction d generalizing a with
  | nil =>
    simp only [ZXD.codFrom, Option.some.injEq] at h; subst h
    exact ⟨rfl, rfl⟩
  | cons x rest ih =>
    obtain ⟨bx, off⟩ := x
    simp only [ZXD.codFrom] at h
    split at h
    · rename_i hle
      have := ih h
      have e : l + a + r - bx.dom + bx.cod = l + (a - bx.dom + bx.cod) + r := by omega
      simp only [zxShift, List.map_cons, ZXD.codFrom, zxLayers, whisker] at this ⊢
      rw [if_pos (by omega), e]
      refine ⟨this.1, ?_⟩
      rw [this.2]
      congr 2
      · omega
      · congr 1; omega
    · cases h

/-- **Whiskering of ZX diagrams**: `⟦1_l ⊗ d ⊗ 1_r⟧ = 1_l ⊗ ⟦d⟧ ⊗ 1_r`. -/
theorem evalZX_shift (ρ : R) (l r : Nat) {a b : Nat} {d : ZXD R} (h : ZXD.codFrom a d = some b) :
    evalZX ρ (l + a + r) (zxShift l d) = kron (idQ l) (kron (evalZX ρ a d) (idQ r)) := by
  rw [evalZX_eq, evalZX_eq, (zxShift_layers ρ l r h).2]
  exact evalLayers_whisker l r (zxLayers_typed ρ h)

/-- **The image of a circuit under a box-by-box translation** (`circuit2zx`): the image `d` of every box
    `U` on `a` wires is a well-typed diagram denoting `k • U`; the images are placed at the offsets of
    the boxes.  `ks` collects the scalars. -/
inductive ZXImage (ρ : R) : Nat → Layers R → ZXD R → List R → Nat → Prop
  | nil (n : Nat) : ZXImage ρ n [] [] [] n
  | cons {l a b r m : Nat} {U : Mat R} {d : ZXD R} {k : R} {L : Layers R} {Z : ZXD R} {ks : List R} :
      IsMat (pow2 a) (pow2 b) U → ZXD.codFrom a d = some b → evalZX ρ a d = msmul k U →
      ZXImage ρ (l + b + r) L Z ks m →
      ZXImage ρ (l + a + r) ((l, U, r) :: L) (zxShift l d ++ Z) (k :: ks) m

/-- **`circuit2zx` is sound with ONE overall scalar, the product of the scalars of the boxes.** -/
theorem evalZX_image (ρ : R) {n m : Nat} {L : Layers R} {Z : ZXD R} {ks : List R}
    (h : ZXImage ρ n L Z ks m) :
    LTyped n L m ∧ ZXD.codFrom n Z = some m ∧ evalZX ρ n Z = msmul ks.prod (evalLayers n L) := by
  induction h with
  | nil n =>
    refine ⟨LTyped.nil n, rfl, ?_⟩
    simp only [List.prod_nil]
    rw [msmul_one (evalLayers_isMat (LTyped.nil n))]
    rfl
  | @cons l a b r m U d k L Z ks hU hd hsound _ ih =>
    obtain ⟨ht, hc, he⟩ := ih
    have hs := zxShift_layers ρ l r hd
    have hX := isMat_layerMat (l := l) (r := r) hU
    have hE := evalLayers_isMat ht
    refine ⟨LTyped.cons hU ht, ?_, ?_⟩
    · rw [ZXD.codFrom_append, hs.1]; exact hc
    · rw [evalZX_append ρ hs.1 hc, evalZX_shift ρ l r hd, hsound, he, evalLayers_cons hU ht,
        List.prod_cons]
      have e : kron (idQ l) (kron (msmul k U) (idQ r)) = msmul k (layerMat (l, U, r)) := by
        simp only [layerMat]
        rw [kron_msmul_left k hU (isMat_idQ r), kron_msmul_right k (isMat_idQ l) (hU.kron (isMat_idQ r))]
      rw [e, mul_msmul_left k (pow2_pos _) hX (hE.msmul _), mul_msmul_right _ (pow2_pos _) hX hE,
        msmul_msmul k _ (hX.mul (pow2_pos _) hE)]

/-! ### the dagger of a whole ZX diagram -/

variable [StarRing R]

/-- zx.py: the dagger of a diagram — boxes reversed, each daggered, same offsets (cat.py:214-231). -/
def ZXD.daggerS (d : ZXD R) : ZXD R := d.reverse.map fun x => (x.1.daggerS, x.2)

theorem ZXB.daggerS_dom (b : ZXB R) : b.daggerS.dom = b.cod := by cases b <;> rfl
theorem ZXB.daggerS_cod (b : ZXB R) : b.daggerS.cod = b.dom := by cases b <;> rfl

theorem zxLayers_daggerS (ρ : R) (hρ : star ρ = ρ) {w m : Nat} {d : ZXD R}
    (h : ZXD.codFrom w d = some m) :
    ZXD.codFrom m d.daggerS = some w ∧ zxLayers ρ m d.daggerS = Ldagger (zxLayers ρ w d) := by
  induction d generalizing w with
  | nil => simp only [ZXD.codFrom, Option.some.injEq] at h; subst h; exact ⟨rfl, rfl⟩
  | cons x rest ih =>
    obtain ⟨b, off⟩ := x
    simp only [ZXD.codFrom] at h
    split at h
    · rename_i hle
      obtain ⟨h1, h2⟩ := ih h
      have e : ZXD.daggerS ((b, off) :: rest) = ZXD.daggerS rest ++ [(b.daggerS, off)] := by
        simp [ZXD.daggerS]
      rw [e, ZXD.codFrom_append, h1, zxLayers_append ρ _ h1, h2]
      simp only [Option.bind_some, ZXD.codFrom, zxLayers, Ldagger_cons, ZXB.daggerS_dom,
        ZXB.daggerS_cod, zxb_dagger ρ hρ b]
      refine ⟨?_, ?_⟩
      · rw [if_pos (by omega)]; congr 1; omega
      · congr 4; omega
    · cases h

/-- **`⟦d†⟧ = ⟦d⟧ᴴ` for whole ZX diagrams** (every well-typed diagram, any generators, any phases). -/
theorem evalZX_dagger (ρ : R) (hρ : star ρ = ρ) {w m : Nat} {d : ZXD R}
    (h : ZXD.codFrom w d = some m) : evalZX ρ m d.daggerS = dagger (evalZX ρ w d) := by
  rw [evalZX_eq, evalZX_eq, (zxLayers_daggerS ρ hρ h).2]
  exact evalLayers_dagger (zxLayers_typed ρ h)

end ZX

end DV.Gates
