/-
  Proofs/Laws.lean — the strict dagger-monoidal laws of `Model/Diagram.lean` as EQUALITIES of
  full `Diagram` structures (all five fields, `layers` included).  The code's `==`
  (`Diagram.eqv`, monoidal.py:438-442) ignores `layers`, so `=` is stronger; `eqv_of_eq` bridges.
-/
import Proofs.WFOps
import Model.Repr

namespace DV

/-! ### `=` versus the code's `==` -/

theorem Diagram.eqv_iff {a b : Diagram} :
    a.eqv b = true ↔ a.dom = b.dom ∧ a.cod = b.cod ∧ a.boxes = b.boxes ∧ a.offsets = b.offsets := by
  simp [Diagram.eqv, and_assoc]

theorem Diagram.eqv_refl (a : Diagram) : a.eqv a = true := Diagram.eqv_iff.mpr ⟨rfl, rfl, rfl, rfl⟩

theorem Diagram.eqv_of_eq {a b : Diagram} (h : a = b) : a.eqv b = true := h ▸ Diagram.eqv_refl a

/-- A well-typed diagram is the diagram rebuilt from its own layer arrow. -/
theorem Diagram.WF.eq_ofLayers {d : Diagram} (h : d.WF) : d = Diagram.ofLayers d.layers := by
  cases d with
  | mk dom cod boxes offsets layers =>
    obtain ⟨h1, h2, h3, h4, _⟩ := h
    simp only at h1 h2 h3 h4
    simp [Diagram.ofLayers, h1, h2, h3, h4]

theorem Diagram.ext_layers {a b : Diagram} (ha : a.WF) (hb : b.WF) (h : a.layers = b.layers) :
    a = b := by
  rw [ha.eq_ofLayers, hb.eq_ofLayers, h]

/-! ### Composition -/

/-- The value of `a >> b` when it is defined. -/
def Diagram.thenD (a b : Diagram) : Diagram :=
  ⟨a.dom, b.cod, a.boxes ++ b.boxes, a.offsets ++ b.offsets,
    ⟨a.layers.dom, b.layers.cod, a.layers.boxes ++ b.layers.boxes⟩⟩

theorem Diagram.then_eq_thenD {a b : Diagram} (h : a.layers.cod = b.layers.dom) :
    a.then b = .ok (a.thenD b) := by
  simp [Diagram.then, LArrow.then_eq_ok h, Diagram.thenD]

theorem Diagram.then_ok' {a b d : Diagram} (h : a.then b = .ok d) :
    a.layers.cod = b.layers.dom ∧ d = a.thenD b := by
  obtain ⟨ls, hls, rfl⟩ := Diagram.then_ok h
  obtain ⟨hc, rfl⟩ := LArrow.then_ok hls
  exact ⟨hc, rfl⟩

theorem Diagram.then_spec {a b : Diagram} (ha : a.WF) (hb : b.WF) (h : a.cod = b.dom) :
    a.then b = .ok (a.thenD b) :=
  Diagram.then_eq_thenD (by rw [ha.lcod, hb.ldom, h])

theorem Diagram.thenD_wf {a b : Diagram} (ha : a.WF) (hb : b.WF) (h : a.cod = b.dom) :
    (a.thenD b).WF := Diagram.then_wf ha hb (Diagram.then_spec ha hb h)

/-- Associativity of `>>`, for arbitrary (not even well-typed) operands, errors included:
    both bracketings are defined together and then equal. -/
theorem Diagram.then_assoc (a b c : Diagram) :
    (a.then b >>= fun ab => ab.then c) = (b.then c >>= fun bc => a.then bc) := by
  by_cases h1 : a.layers.cod = b.layers.dom <;> by_cases h2 : b.layers.cod = c.layers.dom
  · rw [Diagram.then_eq_thenD h1, Diagram.then_eq_thenD h2]
    show (a.thenD b).then c = a.then (b.thenD c)
    rw [Diagram.then_eq_thenD (a := a.thenD b) (by simpa [Diagram.thenD] using h2),
      Diagram.then_eq_thenD (b := b.thenD c) (by simpa [Diagram.thenD] using h1)]
    simp [Diagram.thenD, List.append_assoc]
  · rw [Diagram.then_eq_thenD h1]
    show (a.thenD b).then c = (b.then c >>= fun bc => a.then bc)
    have e1 : (a.thenD b).then c = .error .axiom := by
      simp [Diagram.then, Diagram.thenD, LArrow.then, h2]
    have e2 : b.then c = .error .axiom := by simp [Diagram.then, LArrow.then, h2]
    rw [e1, e2]; rfl
  · rw [Diagram.then_eq_thenD h2]
    show (a.then b >>= fun ab => ab.then c) = a.then (b.thenD c)
    have e1 : a.then (b.thenD c) = .error .axiom := by
      simp [Diagram.then, Diagram.thenD, LArrow.then, h1]
    have e2 : a.then b = .error .axiom := by simp [Diagram.then, LArrow.then, h1]
    rw [e1, e2]; rfl
  · have e1 : a.then b = .error .axiom := by simp [Diagram.then, LArrow.then, h1]
    have e2 : b.then c = .error .axiom := by simp [Diagram.then, LArrow.then, h2]
    rw [e1, e2]; rfl

/-- The same in the form used by the property: if `a >> b` and `b >> c` are defined, both
    bracketings are defined and equal. -/
theorem Diagram.then_assoc_ok {a b c ab bc : Diagram} (h1 : a.then b = .ok ab)
    (h2 : b.then c = .ok bc) : ∃ d, ab.then c = .ok d ∧ a.then bc = .ok d := by
  have := Diagram.then_assoc a b c
  rw [h1, h2] at this
  change ab.then c = a.then bc at this
  obtain ⟨hc1, rfl⟩ := Diagram.then_ok' h1
  obtain ⟨hc2, rfl⟩ := Diagram.then_ok' h2
  refine ⟨(a.thenD b).thenD c, ?_, ?_⟩
  · exact Diagram.then_eq_thenD (by simpa [Diagram.thenD] using hc2)
  · rw [← this]; exact Diagram.then_eq_thenD (by simpa [Diagram.thenD] using hc2)

theorem Diagram.id_then {a : Diagram} (ha : a.WF) : (Diagram.id a.dom).then a = .ok a := by
  rw [Diagram.then_eq_thenD (by simp [Diagram.id, LArrow.id, ha.ldom])]
  cases a with
  | mk dom cod boxes offsets layers =>
    have := ha.ldom; simp only at this
    cases layers; simp_all [Diagram.thenD, Diagram.id, LArrow.id]

theorem Diagram.then_id {a : Diagram} (ha : a.WF) : a.then (Diagram.id a.cod) = .ok a := by
  rw [Diagram.then_eq_thenD (by simp [Diagram.id, LArrow.id, ha.lcod])]
  cases a with
  | mk dom cod boxes offsets layers =>
    have := ha.lcod; simp only at this
    cases layers; simp_all [Diagram.thenD, Diagram.id, LArrow.id]

/-! ### Tensor -/

/-- The value of `a @ b` on well-typed operands (`Diagram.tensor_spec`). -/
def Diagram.tensorD (a b : Diagram) : Diagram :=
  ⟨a.dom ++ b.dom, a.cod ++ b.cod, a.boxes ++ b.boxes,
    a.offsets ++ b.offsets.map (· + (a.cod.length : Int)),
    ⟨a.dom ++ b.dom, a.cod ++ b.cod,
      a.layers.boxes.map (whiskR b.dom) ++ b.layers.boxes.map (whiskL a.cod)⟩⟩

theorem Diagram.tensor_eq_tensorD {a b : Diagram} (ha : a.WF) (hb : b.WF) :
    a.tensor b = .ok (a.tensorD b) := Diagram.tensor_spec ha hb

theorem Diagram.tensorD_wf {a b : Diagram} (ha : a.WF) (hb : b.WF) : (a.tensorD b).WF :=
  Diagram.tensor_wf ha hb (Diagram.tensor_eq_tensorD ha hb)

theorem whiskR_whiskR (s t : Ty) (l : Layer) : whiskR t (whiskR s l) = whiskR (s ++ t) l := by
  simp [whiskR]
theorem whiskL_whiskL (s t : Ty) (l : Layer) : whiskL s (whiskL t l) = whiskL (s ++ t) l := by
  simp [whiskL]
theorem whiskR_whiskL (s t : Ty) (l : Layer) : whiskR t (whiskL s l) = whiskL s (whiskR t l) := by
  simp [whiskR, whiskL]
theorem whiskR_nil (l : Layer) : whiskR [] l = l := by simp [whiskR]
theorem whiskL_nil (l : Layer) : whiskL [] l = l := by simp [whiskL]

theorem Diagram.tensorD_assoc (a b c : Diagram) :
    (a.tensorD b).tensorD c = a.tensorD (b.tensorD c) := by
  simp only [Diagram.tensorD, List.append_assoc, List.map_append, List.map_map, List.length_append,
    Diagram.mk.injEq, LArrow.mk.injEq, true_and]
  refine ⟨?_, ?_⟩
  · congr 2
    apply List.map_congr_left
    intro o _
    simp only [Function.comp]
    push_cast
    omega
  · congr 1
    · apply List.map_congr_left; intro l _; simp [Function.comp, whiskR]
    · congr 1
      · apply List.map_congr_left; intro l _; simp [Function.comp, whiskL]

/-- `(a @ b) @ c == a @ (b @ c)` as an equality of full structures. -/
theorem Diagram.tensor_assoc {a b c : Diagram} (ha : a.WF) (hb : b.WF) (hc : c.WF) :
    ∃ ab bc d, a.tensor b = .ok ab ∧ b.tensor c = .ok bc ∧
      ab.tensor c = .ok d ∧ a.tensor bc = .ok d :=
  ⟨a.tensorD b, b.tensorD c, (a.tensorD b).tensorD c,
    Diagram.tensor_eq_tensorD ha hb, Diagram.tensor_eq_tensorD hb hc,
    Diagram.tensor_eq_tensorD (Diagram.tensorD_wf ha hb) hc,
    by rw [Diagram.tensorD_assoc]; exact Diagram.tensor_eq_tensorD ha (Diagram.tensorD_wf hb hc)⟩

/-- `Id(Ty()) @ a == a`. -/
theorem Diagram.tensor_id_nil_left {a : Diagram} (ha : a.WF) :
    (Diagram.id []).tensor a = .ok a := by
  rw [Diagram.tensor_eq_tensorD (Diagram.id_wf []) ha]
  cases a with
  | mk dom cod boxes offsets layers =>
    have h1 := ha.ldom; have h2 := ha.lcod; simp only at h1 h2
    cases layers with
    | mk ld lc lb =>
      simp only at h1 h2; subst h1 h2
      have : whiskL [] = _root_.id := funext whiskL_nil
      simp [Diagram.tensorD, Diagram.id, LArrow.id, this]

/-- `a @ Id(Ty()) == a`. -/
theorem Diagram.tensor_id_nil_right {a : Diagram} (ha : a.WF) :
    a.tensor (Diagram.id []) = .ok a := by
  rw [Diagram.tensor_eq_tensorD ha (Diagram.id_wf [])]
  cases a with
  | mk dom cod boxes offsets layers =>
    have h1 := ha.ldom; have h2 := ha.lcod; simp only at h1 h2
    cases layers with
    | mk ld lc lb =>
      simp only at h1 h2; subst h1 h2
      have : whiskR [] = _root_.id := funext whiskR_nil
      simp [Diagram.tensorD, Diagram.id, LArrow.id, this]

/-- `a @ b == a @ Id(b.dom) >> Id(a.cod) @ b` (the docstring law of monoidal.py:399),
    as an equality of full structures. -/
theorem Diagram.tensor_eq_whisker {a b : Diagram} (ha : a.WF) (hb : b.WF) :
    ∃ l r d, a.tensor (Diagram.id b.dom) = .ok l ∧ (Diagram.id a.cod).tensor b = .ok r ∧
      l.then r = .ok d ∧ a.tensor b = .ok d := by
  refine ⟨a.tensorD (Diagram.id b.dom), (Diagram.id a.cod).tensorD b, a.tensorD b,
    Diagram.tensor_eq_tensorD ha (Diagram.id_wf _), Diagram.tensor_eq_tensorD (Diagram.id_wf _) hb,
    ?_, Diagram.tensor_eq_tensorD ha hb⟩
  rw [Diagram.then_eq_thenD (by simp [Diagram.tensorD, Diagram.id])]
  simp [Diagram.tensorD, Diagram.thenD, Diagram.id, LArrow.id]

/-! ### Dagger -/

theorem Layer.dag_dag (l : Layer) : l.dag.dag = l := by
  cases l; simp [Layer.dag, Box.dag_dag]

theorem LArrow.dag_dag (a : LArrow) : a.dag.dag = a := by
  cases a with
  | mk dom cod boxes =>
    simp only [LArrow.dag, List.map_reverse, List.reverse_reverse, List.map_map, LArrow.mk.injEq,
      true_and]
    have : Layer.dag ∘ Layer.dag = _root_.id := funext Layer.dag_dag
    simp [this]

/-- `d[::-1][::-1] == d`. -/
theorem Diagram.dagger_dagger {d : Diagram} (h : d.WF) : d.dagger.dagger = d := by
  conv => rhs; rw [h.eq_ofLayers]
  simp [Diagram.dagger, Diagram.ofLayers, LArrow.dag_dag]

/-- `Id(t)[::-1] == Id(t)`: dagger is identity-on-objects. -/
theorem Diagram.dagger_id (t : Ty) : (Diagram.id t).dagger = Diagram.id t := by
  simp [Diagram.dagger, Diagram.ofLayers, Diagram.id, LArrow.id, LArrow.dag]

theorem Diagram.dagger_dom {d : Diagram} (h : d.WF) : d.dagger.dom = d.cod := h.lcod
theorem Diagram.dagger_cod {d : Diagram} (h : d.WF) : d.dagger.cod = d.dom := h.ldom

/-- `(a >> b)[::-1] == b[::-1] >> a[::-1]`. -/
theorem Diagram.dagger_then {a b d : Diagram} (h : a.then b = .ok d) :
    b.dagger.then a.dagger = .ok d.dagger := by
  obtain ⟨hc, rfl⟩ := Diagram.then_ok' h
  rw [Diagram.then_eq_thenD (by simp [Diagram.dagger, Diagram.ofLayers, LArrow.dag, hc])]
  simp [Diagram.thenD, Diagram.dagger, Diagram.ofLayers, LArrow.dag]

/-! `(a @ b)[::-1] == a[::-1] @ b[::-1]` is NOT a law of the code (nor of the model): the dagger
    reverses the order of the boxes, the tensor of the daggers does not — they agree only up to
    an interchange (monoidal.py:30 says so itself).  Concrete witness: -/

namespace DaggerTensorWitness
def x : Ob := ⟨"'x'", 0⟩
def y : Ob := ⟨"'y'", 0⟩
def f : Diagram := Diagram.ofBox { name := "'f'", dom := [x], cod := [y] }
def g : Diagram := Diagram.ofBox { name := "'g'", dom := [y], cod := [x] }
theorem not_eqv : ((f.tensorD g).dagger).eqv (f.dagger.tensorD g.dagger) = false := by decide
end DaggerTensorWitness

/-- There are well-typed `a`, `b` with `(a @ b)[::-1] != a[::-1] @ b[::-1]`. -/
theorem Diagram.dagger_tensor_fails :
    ∃ a b ab : Diagram, a.WF ∧ b.WF ∧ a.tensor b = .ok ab ∧
      ∃ r : Diagram, a.dagger.tensor b.dagger = .ok r ∧ ab.dagger.eqv r = false := by
  refine ⟨DaggerTensorWitness.f, DaggerTensorWitness.g, _, Diagram.ofBox_wf _, Diagram.ofBox_wf _,
    Diagram.tensor_eq_tensorD (Diagram.ofBox_wf _) (Diagram.ofBox_wf _), _,
    Diagram.tensor_eq_tensorD (Diagram.dagger_wf (Diagram.ofBox_wf _))
      (Diagram.dagger_wf (Diagram.ofBox_wf _)), DaggerTensorWitness.not_eqv⟩

/-! ### Slicing: `d[:i] >> d[i:] == d` for every integer `i` -/

theorem pyIdx_le (n : Nat) (i : Int) : pyIdx n i ≤ n := by
  unfold pyIdx; split
  · split <;> omega
  · exact Nat.min_le_right _ _

theorem pySlice_prefix {α} (xs : List α) (i : Int) :
    pySlice xs none (some i) = xs.take (pyIdx xs.length i) := by
  simp [pySlice, pyLo, pyHi]

theorem pySlice_suffix {α} (xs : List α) (i : Int) :
    pySlice xs (some i) none = xs.drop (pyIdx xs.length i) := by
  simp only [pySlice, pyLo, pyHi]
  apply List.take_of_length_le
  simp

/-- The layer arrow of a non-empty chain slice. -/
theorem LArrow.slice_cons_eq {s c : Ty} {b : Layer} {bs : List Layer} (h : Chain s (b :: bs) c) :
    (⟨b.dom, ((b :: bs).getLastD b).cod, b :: bs⟩ : LArrow) = ⟨s, c, b :: bs⟩ := by
  obtain ⟨h1, h2⟩ := chain_cons_last h
  rw [← h1, h2]

theorem LArrow.slice_prefix_spec {a : LArrow} (ha : a.WF) (i : Int) {m : Ty}
    (hm : Chain a.dom (a.boxes.take (pyIdx a.boxes.length i)) m) :
    a.slice none (some i) = .ok ⟨a.dom, m, a.boxes.take (pyIdx a.boxes.length i)⟩ := by
  unfold LArrow.slice
  rw [pySlice_prefix]
  generalize hk : pyIdx a.boxes.length i = k at hm
  split
  · rename_i hnil
    rw [hnil] at hm ⊢
    have hm' : a.dom = m := by simpa [Chain] using hm
    subst hm'
    unfold LArrow.sliceEmpty
    simp only [Option.getD_none]
    cases hb : a.boxes with
    | nil =>
      have : a.dom = a.cod := by have := ha; simp [LArrow.WF, hb, Chain] at this; exact this
      simp [LArrow.id, this]
    | cons b bs =>
      have hc : Chain a.dom (b :: bs) a.cod := by rw [← hb]; exact ha
      have h0 : ¬ ((0 : Int) ≥ ((b :: bs).length : Int)) := by simp
      have h1 : ¬ ((0 : Int) ≤ -((b :: bs).length : Int)) := by simp
      simp only [h0, h1, if_false]
      simp [pyGet?, LArrow.id, hc.1]
  · rename_i b bs hb
    rw [hb] at hm ⊢
    rw [LArrow.slice_cons_eq hm]

theorem LArrow.slice_suffix_spec {a : LArrow} (ha : a.WF) (i : Int) {m : Ty}
    (hm : Chain m (a.boxes.drop (pyIdx a.boxes.length i)) a.cod) :
    a.slice (some i) none = .ok ⟨m, a.cod, a.boxes.drop (pyIdx a.boxes.length i)⟩ := by
  unfold LArrow.slice
  rw [pySlice_suffix]
  split
  · rename_i hnil
    have hlen : a.boxes.length ≤ pyIdx a.boxes.length i := by
      have := congrArg List.length hnil
      simp at this; omega
    rw [hnil] at hm ⊢
    have hm' : m = a.cod := by simpa [Chain] using hm
    subst hm'
    have hle := pyIdx_le a.boxes.length i
    unfold LArrow.sliceEmpty
    simp only [Option.getD_some]
    by_cases h0 : i ≥ (a.boxes.length : Int)
    · simp [h0, LArrow.id]
    · -- then `pyIdx n i = n` forces `n = 0` and `i < 0`
      have hn : a.boxes.length = 0 := by
        unfold pyIdx at hlen hle
        split at hlen
        · split at hlen <;> omega
        · omega
      have hb : a.boxes = [] := List.eq_nil_of_length_eq_zero hn
      have hdc : a.dom = a.cod := by have := ha; simp [LArrow.WF, hb, Chain] at this; exact this
      have h1 : i ≤ -(a.boxes.length : Int) := by omega
      simp [h0, h1, LArrow.id, hdc]
  · rename_i b bs hb
    rw [hb] at hm ⊢
    rw [LArrow.slice_cons_eq hm]

/-- `d[:i] >> d[i:] == d`, for every `i : Int` — negative and out-of-range included, as
    Python's slice clamping makes them all legal. -/
theorem Diagram.slice_then {d : Diagram} (h : d.WF) (i : Int) :
    ∃ p q, d.slice none (some i) = .ok p ∧ d.slice (some i) none = .ok q ∧ p.then q = .ok d := by
  obtain ⟨m, h1, h2⟩ := chain_take_drop (pyIdx d.layers.boxes.length i) h.chain
  have e1 := LArrow.slice_prefix_spec h.chain i h1
  have e2 := LArrow.slice_suffix_spec h.chain i h2
  refine ⟨Diagram.ofLayers ⟨d.layers.dom, m, d.layers.boxes.take (pyIdx d.layers.boxes.length i)⟩,
    Diagram.ofLayers ⟨m, d.layers.cod, d.layers.boxes.drop (pyIdx d.layers.boxes.length i)⟩,
    by simp [Diagram.slice, e1], by simp [Diagram.slice, e2], ?_⟩
  rw [Diagram.then_eq_thenD (by simp [Diagram.ofLayers])]
  conv => rhs; rw [h.eq_ofLayers]
  simp only [Diagram.thenD, Diagram.ofLayers, ← List.map_append, List.take_append_drop]

/-! ### A box and the one-box diagram that wraps it -/

theorem Box.eqvDiagram_iff {b : Box} {d : Diagram} :
    b.eqvDiagram d = true ↔ d.boxes = [b] ∧ d.dom = b.dom ∧ d.cod = b.cod := by
  unfold Box.eqvDiagram
  cases hb : d.boxes with
  | nil => simp
  | cons x xs =>
    cases xs with
    | nil => simp [and_assoc]
    | cons y ys => simp

/-- `box >> Id(box.cod) == box` under the code's asymmetric `__eq__`: the composite is a plain
    one-box diagram, and the box compares equal to it. -/
theorem Box.then_id_eq (b : Box) :
    ∃ d, (Diagram.ofBox b).then (Diagram.id b.cod) = .ok d ∧ b.eqvDiagram d = true ∧
      d = Diagram.ofBox b := by
  refine ⟨Diagram.ofBox b, ?_, ?_, rfl⟩
  · have := Diagram.then_id (Diagram.ofBox_wf b)
    simpa [Diagram.ofBox] using this
  · simp [Box.eqvDiagram_iff, Diagram.ofBox]

theorem Box.id_then_eq (b : Box) :
    ∃ d, (Diagram.id b.dom).then (Diagram.ofBox b) = .ok d ∧ b.eqvDiagram d = true ∧
      d = Diagram.ofBox b := by
  refine ⟨Diagram.ofBox b, ?_, ?_, rfl⟩
  · have := Diagram.id_then (Diagram.ofBox_wf b)
    simpa [Diagram.ofBox] using this
  · simp [Box.eqvDiagram_iff, Diagram.ofBox]

end DV
