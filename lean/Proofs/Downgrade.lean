/-
  Proofs/Downgrade.lean — `downgrade()` keeps `==`, hash and print coherence (C03, derived values).

  * `Box.downgrade` keeps `dom`/`cod`, yields a generic box, is idempotent, fixes generic boxes.
  * `Diagram.downgrade` is total on well-typed diagrams and returns the well-typed diagram with
    the same `dom`, `cod`, offsets and the downgraded boxes (`downgrade_of_wf`).
  * `==` is a congruence for it — equal diagrams have THE SAME downgrade (`downgrade_congr`), so
    the downgrades are `==` (`downgrade_eqv_congr`) and print, hence hash, alike
    (`downgrade_repr_congr`): whatever history the two values have.
  * `reprM_congr`: on `monoidal` values (types print names only) `==` values print alike.
  * As far as true: the printed form of a downgraded value does NOT determine it any more
    (`reprBoxM_not_inj`: the winding numbers are kept by `==` but no longer printed).
-/
import Model.Downgrade
import Proofs.LayoutDiagram
import Proofs.Eq

namespace DV

/-! ### boxes -/

@[simp] theorem Box.downgrade_dom (b : Box) : b.downgrade.dom = b.dom := by
  unfold Box.downgrade; cases b.kind <;> rfl

@[simp] theorem Box.downgrade_cod (b : Box) : b.downgrade.cod = b.cod := by
  unfold Box.downgrade; cases h : b.kind <;> simp

theorem Box.downgrade_kind (b : Box) : b.downgrade.kind = .gen := by
  unfold Box.downgrade; cases h : b.kind <;> simp [h]

theorem Box.downgrade_gen {b : Box} (h : b.kind = .gen) : b.downgrade = b := by
  unfold Box.downgrade; rw [h]

theorem Box.downgrade_idem (b : Box) : b.downgrade.downgrade = b.downgrade :=
  Box.downgrade_gen b.downgrade_kind

/-- The copied `__dict__`: `data` and the dagger flag travel unchanged. -/
theorem Box.downgrade_data (b : Box) : b.downgrade.data = b.data ∧ b.downgrade.dagger = b.dagger := by
  unfold Box.downgrade; cases h : b.kind <;> simp

/-! ### diagrams -/

def Layer.downgrade (l : Layer) : Layer := { l with box := l.box.downgrade }

@[simp] theorem Layer.downgrade_dom (l : Layer) : l.downgrade.dom = l.dom := by
  simp [Layer.downgrade, Layer.dom]
@[simp] theorem Layer.downgrade_cod (l : Layer) : l.downgrade.cod = l.cod := by
  simp [Layer.downgrade, Layer.cod]

theorem chain_downgrade {s c : Ty} {ls : List Layer} (h : Chain s ls c) :
    Chain s (ls.map Layer.downgrade) c := by
  induction ls generalizing s with
  | nil => exact h
  | cons l ls ih =>
    obtain ⟨h1, h2⟩ := h
    refine ⟨by simpa using h1, ?_⟩
    simpa using ih h2

/-- The diagram `downgrade()` returns on a well-typed diagram, written out. -/
def Diagram.downgraded (d : Diagram) : Diagram :=
  ⟨d.dom, d.cod, d.boxes.map Box.downgrade, d.offsets,
    ⟨d.layers.dom, d.layers.cod, d.layers.boxes.map Layer.downgrade⟩⟩

theorem Diagram.downgraded_wf {d : Diagram} (h : d.WF) : d.downgraded.WF := by
  refine ⟨h.ldom, h.lcod, ?_, ?_, ?_⟩
  · simp [Diagram.downgraded, h.boxes, Layer.downgrade, Function.comp_def]
  · simp [Diagram.downgraded, h.offsets, Layer.downgrade, Function.comp_def]
  · exact chain_downgrade h.chain

/-- **`downgrade()` is total on well-typed diagrams** and returns a well-typed diagram with the
    same domain, codomain and offsets and the downgraded boxes. -/
theorem Diagram.downgrade_of_wf {d : Diagram} (h : d.WF) :
    ∃ d', d.downgrade = .ok d' ∧ d'.WF ∧ d'.dom = d.dom ∧ d'.cod = d.cod ∧
      d'.boxes = d.boxes.map Box.downgrade ∧ d'.offsets = d.offsets := by
  obtain ⟨d', hd'⟩ := Layout.mk?_of_wf (Diagram.downgraded_wf h)
  refine ⟨d', hd', ?_⟩
  obtain ⟨hw, h1, h2, h3, h4⟩ := Diagram.mk?_ok hd'
  exact ⟨hw, h1, h2, h3, h4⟩

/-- What `downgrade()` returns, whenever it returns. -/
theorem Diagram.downgrade_ok {d d' : Diagram} (h : d.downgrade = .ok d') :
    d'.WF ∧ d'.dom = d.dom ∧ d'.cod = d.cod ∧ d'.boxes = d.boxes.map Box.downgrade ∧
      d'.offsets = d.offsets := Diagram.mk?_ok h

/-- `==` diagrams have the same downgrade (as results: the same value or the same error). -/
theorem Diagram.downgrade_congr {a b : Diagram} (h : a.eqv b = true) : a.downgrade = b.downgrade := by
  rw [Diagram.eqv_iff] at h
  obtain ⟨h1, h2, h3, h4⟩ := h
  simp [Diagram.downgrade, h1, h2, h3, h4]

theorem Diagram.downgrade_eqv_congr {a b a' b' : Diagram} (h : a.eqv b = true)
    (ha : a.downgrade = .ok a') (hb : b.downgrade = .ok b') : a'.eqv b' = true := by
  rw [Diagram.downgrade_congr h, hb] at ha
  cases ha
  exact Diagram.eqv_refl _

/-! ### printing `monoidal` values -/

theorem reprTDiagramM_congr {a b : Diagram} (h : a.eqv b = true) :
    reprTDiagramM a = reprTDiagramM b := by
  rw [Diagram.eqv_iff] at h
  obtain ⟨h1, h2, h3, h4⟩ := h
  simp [reprTDiagramM, reprTFullM, h1, h2, h3, h4]

/-- `==` values of `monoidal` print alike: `__hash__ = hash(repr(self))` agrees on them. -/
theorem reprM_congr {a b : Diagram} (h : a.eqv b = true) : reprDiagramM a = reprDiagramM b := by
  simp [reprDiagramM, reprTDiagramM_congr h]

theorem Diagram.downgrade_repr_congr {a b a' b' : Diagram} (h : a.eqv b = true)
    (ha : a.downgrade = .ok a') (hb : b.downgrade = .ok b') :
    reprDiagramM a' = reprDiagramM b' := reprM_congr (Diagram.downgrade_eqv_congr h ha hb)

/-- A `Box` instance and the one-box diagram wrapping it print alike after `downgrade()` too. -/
theorem reprM_ofBox (b : Box) : reprDiagramM (Diagram.ofBox b) = reprBoxM b := by
  simp [reprDiagramM, reprBoxM, reprTDiagramM, Diagram.ofBox]

/-- At winding number 0 (every value of the `monoidal` family) the two printers agree on types… -/
theorem reprTTyMonoidal_eq {t : Ty} (h : ∀ x ∈ t, x.z = 0) : reprTTyMonoidal t = reprTTy t := by
  unfold reprTTy reprTTyMonoidal
  congr 1
  apply List.map_congr_left
  intro x hx
  simp [reprTTyEntry, h x hx]

/-- … and on generic boxes and swaps. -/
theorem reprTBoxM_eq {b : Box} (hd : ∀ x ∈ b.dom, x.z = 0) (hc : ∀ x ∈ b.cod, x.z = 0) :
    reprTBoxM b = reprTBox b := by
  have t1 : ∀ x ∈ b.dom.take 1, x.z = 0 := fun x hx => hd x (List.mem_of_mem_take hx)
  have t2 : ∀ x ∈ b.dom.drop 1, x.z = 0 := fun x hx => hd x (List.mem_of_mem_drop hx)
  have t3 : ∀ x ∈ b.cod.take 1, x.z = 0 := fun x hx => hc x (List.mem_of_mem_take hx)
  have t4 : ∀ x ∈ b.cod.drop 1, x.z = 0 := fun x hx => hc x (List.mem_of_mem_drop hx)
  unfold reprTBoxM reprTBox reprTGenArgsM reprTGenArgs
  rw [reprTTyMonoidal_eq hd, reprTTyMonoidal_eq hc, reprTTyMonoidal_eq t1, reprTTyMonoidal_eq t2,
    reprTTyMonoidal_eq t3, reprTTyMonoidal_eq t4]
  cases b.kind <;> rfl

/-! ### as far as true -/

/-- The printed form of a downgraded value no longer determines it: `==` still compares the
    winding numbers (`downgrade` keeps the objects), `monoidal.Ty.__repr__` does not print them. -/
theorem reprBoxM_not_inj :
    ∃ a b : Box, a.downgrade ≠ b.downgrade ∧ reprBoxM a.downgrade = reprBoxM b.downgrade :=
  ⟨{ name := "'f'", dom := [⟨"'a'", -1⟩], cod := [] }, { name := "'f'", dom := [⟨"'a'", 1⟩], cod := [] },
    by decide, by decide⟩

end DV
