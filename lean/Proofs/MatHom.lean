/-
  Proofs/MatHom.lean — transport of the list-matrix operations of Model/Gates.lean along a map of
  carriers that preserves `0 1 + * − conj` (`IsHom`), and preservation of an entrywise predicate closed
  under these operations (`IsClosed`).  Purely structural (no well-formedness needed): every operation is
  a composition of `map`, `flatMap`, `zipWith` and the ring operations.
  Used by Proofs/CircuitCyc8.lean with `f = Cyc8.val : Cyc8 → ℚ(ζ₈)` and `P = Cyc8.isNormal`.
-/
import Proofs.CircuitAlg

namespace DV.Gates

variable {R S : Type}

section Hom
variable [Zero R] [One R] [Add R] [Mul R] [Neg R] [Conj R]
variable [Zero S] [One S] [Add S] [Mul S] [Neg S] [Conj S]

/-- `f` preserves the operations the matrices are built from. -/
structure IsHom (f : R → S) : Prop where
  zero : f 0 = 0
  one : f 1 = 1
  add : ∀ x y, f (x + y) = f x + f y
  mul : ∀ x y, f (x * y) = f x * f y
  neg : ∀ x, f (-x) = -f x
  conj : ∀ x, f (Conj.conj x) = Conj.conj (f x)

/-- Entrywise image of a matrix. -/
def mapM (f : R → S) (A : Mat R) : Mat S := A.map (·.map f)

variable {f : R → S}

omit [Zero R] [One R] [Add R] [Mul R] [Neg R] [Conj R] [Zero S] [One S] [Add S] [Mul S] [Neg S] [Conj S] in
theorem IsMat.mapM {m n : Nat} {A : Mat R} (h : IsMat m n A) : IsMat m n (mapM f A) := by
  refine ⟨by simp [DV.Gates.mapM, h.1], ?_⟩
  intro r hr
  simp only [DV.Gates.mapM, List.mem_map] at hr
  obtain ⟨r', hr', rfl⟩ := hr
  simp [h.2 r' hr']

theorem map_smul (hf : IsHom f) (a : R) (v : List R) : (smul a v).map f = smul (f a) (v.map f) := by
  simp [smul, hf.mul]

theorem map_vadd (hf : IsHom f) : ∀ u v : List R, (vadd u v).map f = vadd (u.map f) (v.map f)
  | [], v => by simp [vadd]
  | x :: u, [] => by simp [vadd]
  | x :: u, y :: v => by simp [vadd, hf.add, map_vadd hf u v]

theorem map_rowMul (hf : IsHom f) : ∀ (a : List R) (B : Mat R),
    (rowMul a B).map f = rowMul (a.map f) (mapM f B)
  | [], B => by simp [rowMul]
  | x :: a, [] => by simp [rowMul, mapM]
  | x :: a, b :: B => by
    simp only [rowMul, mapM, List.map_cons]
    rw [map_vadd hf, map_smul hf, map_rowMul hf a B]
    rfl

theorem mapM_mul (hf : IsHom f) (A B : Mat R) : mapM f (mul A B) = mul (mapM f A) (mapM f B) := by
  simp only [mul, mapM, List.map_map]
  apply List.map_congr_left
  intro a _
  exact map_rowMul hf a B

theorem mapM_kron (hf : IsHom f) (A B : Mat R) : mapM f (kron A B) = kron (mapM f A) (mapM f B) := by
  simp only [kron, mapM, List.map_flatMap, List.flatMap_map, List.map_map]
  apply List.flatMap_congr
  intro ra _
  apply List.map_congr_left
  intro rb _
  simp only [Function.comp_def, List.map_flatMap]
  apply List.flatMap_congr
  intro a _
  exact map_smul hf a rb

omit [Zero R] [One R] [Add R] [Mul R] [Neg R] [Conj R] [Zero S] [One S] [Add S] [Mul S] [Neg S] [Conj S] in
theorem map_zipWith_cons (g : R → S) : ∀ (r : List R) (T : Mat R),
    (List.zipWith (· :: ·) r T).map (·.map g) = List.zipWith (· :: ·) (r.map g) (T.map (·.map g))
  | [], _ => by simp
  | _ :: _, [] => by simp
  | x :: r, t :: T => by simp [map_zipWith_cons g r T]

omit [Zero R] [One R] [Add R] [Mul R] [Neg R] [Conj R] [Zero S] [One S] [Add S] [Mul S] [Neg S] [Conj S] in
theorem mapM_transpose (g : R → S) : ∀ A : Mat R, mapM g (transpose A) = transpose (mapM g A)
  | [] => rfl
  | [r] => by simp [transpose, mapM]
  | r :: r' :: rs => by
    have ih := mapM_transpose g (r' :: rs)
    simp only [mapM, List.map_cons, transpose] at ih ⊢
    rw [map_zipWith_cons, ih]

theorem mapM_dagger (hf : IsHom f) (A : Mat R) : mapM f (dagger A) = dagger (mapM f A) := by
  unfold dagger
  rw [← mapM_transpose]
  simp only [mapM, List.map_map]
  apply List.map_congr_left
  intro r _
  simp [Function.comp_def, hf.conj]

theorem mapM_msmul (hf : IsHom f) (k : R) (A : Mat R) : mapM f (msmul k A) = msmul (f k) (mapM f A) := by
  simp only [msmul, mapM, List.map_map]
  apply List.map_congr_left
  intro r _
  exact map_smul hf k r

theorem mapM_identity (hf : IsHom f) : ∀ n, mapM f (identity (R := R) n) = identity n
  | 0 => rfl
  | n + 1 => by
    have ih := mapM_identity hf n
    simp only [identity, mapM, List.map_cons, List.map_map, List.map_replicate, hf.zero, hf.one] at ih ⊢
    rw [← ih]
    simp [Function.comp_def, hf.zero]

theorem mapM_idQ (hf : IsHom f) (n : Nat) : mapM f (idQ (R := R) n) = idQ n := mapM_identity hf _

/-- Image of a list of layers. -/
def mapL (f : R → S) (L : Layers R) : Layers S := L.map fun x => (x.1, mapM f x.2.1, x.2.2)

theorem mapM_layerMat (hf : IsHom f) (x : Nat × Mat R × Nat) :
    mapM f (layerMat x) = layerMat (x.1, mapM f x.2.1, x.2.2) := by
  simp only [layerMat]
  rw [mapM_kron hf, mapM_kron hf, mapM_idQ hf, mapM_idQ hf]

theorem mapM_evalLayersFrom (hf : IsHom f) (acc : Mat R) (L : Layers R) :
    mapM f (evalLayersFrom acc L) = evalLayersFrom (mapM f acc) (mapL f L) := by
  induction L generalizing acc with
  | nil => rfl
  | cons x rest ih =>
    simp only [evalLayersFrom, mapL, List.map_cons] at ih ⊢
    rw [ih, mapM_mul hf, mapM_layerMat hf]

theorem mapM_evalLayers (hf : IsHom f) (n : Nat) (L : Layers R) :
    mapM f (evalLayers n L) = evalLayers n (mapL f L) := by
  unfold evalLayers
  rw [mapM_evalLayersFrom hf, mapM_idQ hf]

/-! ### ZX generators -/

def ZXB.map (f : R → S) : ZXB R → ZXB S
  | .z n m μ => .z n m (f μ)
  | .x n m μ => .x n m (f μ)
  | .h => .h
  | .swap => .swap
  | .scalar s => .scalar (f s)

def ZXD.mapD (f : R → S) (d : ZXD R) : ZXD S := List.map (fun x => (x.1.map f, x.2)) d

omit [Zero R] [One R] [Add R] [Mul R] [Neg R] [Conj R] [Zero S] [One S] [Add S] [Mul S] [Neg S] [Conj S] in
theorem ZXB.map_dom (g : R → S) (b : ZXB R) : (b.map g).dom = b.dom := by cases b <;> rfl
omit [Zero R] [One R] [Add R] [Mul R] [Neg R] [Conj R] [Zero S] [One S] [Add S] [Mul S] [Neg S] [Conj S] in
theorem ZXB.map_cod (g : R → S) (b : ZXB R) : (b.map g).cod = b.cod := by cases b <;> rfl

theorem map_rpow (hf : IsHom f) (r : R) : ∀ k, f (rpow r k) = rpow (f r) k
  | 0 => hf.one
  | k + 1 => by simp [rpow, hf.mul, map_rpow hf r k]

theorem mapM_zxb (hf : IsHom f) (ρ : R) (b : ZXB R) : mapM f (b.mat ρ) = (b.map f).mat (f ρ) := by
  cases b with
  | z n m μ =>
    simp only [ZXB.mat, ZXB.map, zMat, mapM, List.map_map]
    apply List.map_congr_left; intro x _
    simp only [Function.comp_def, List.map_map]
    apply List.map_congr_left; intro y _
    simp only [apply_ite f, hf.add, hf.one, hf.zero]
  | x n m μ =>
    simp only [ZXB.mat, ZXB.map, xMat, mapM, List.map_map]
    apply List.map_congr_left; intro x _
    simp only [Function.comp_def, List.map_map]
    apply List.map_congr_left; intro y _
    rw [hf.mul, map_rpow hf]
    simp only [apply_ite f, hf.add, hf.one, hf.neg]
  | h => simp [ZXB.mat, ZXB.map, hMat, mapM, hf.neg]
  | swap => simp [ZXB.mat, ZXB.map, swapMat, mapM, hf.zero, hf.one]
  | scalar s => simp [ZXB.mat, ZXB.map, mapM]

theorem mapL_zxLayers (hf : IsHom f) (ρ : R) (w : Nat) (d : ZXD R) :
    mapL f (zxLayers ρ w d) = zxLayers (f ρ) w (d.mapD f) := by
  induction d generalizing w with
  | nil => rfl
  | cons x rest ih =>
    obtain ⟨b, off⟩ := x
    simp only [zxLayers, mapL, ZXD.mapD, List.map_cons, ZXB.map_dom, ZXB.map_cod] at ih ⊢
    rw [ih, mapM_zxb hf]

theorem mapM_evalZX (hf : IsHom f) (ρ : R) (w : Nat) (d : ZXD R) :
    mapM f (evalZX ρ w d) = evalZX (f ρ) w (d.mapD f) := by
  rw [evalZX_eq, evalZX_eq, mapM_evalLayers hf, mapL_zxLayers hf]

omit [Zero R] [One R] [Add R] [Mul R] [Neg R] [Conj R] [Zero S] [One S] [Add S] [Mul S] [Neg S] [Conj S] in
theorem codFrom_map (g : R → S) (w : Nat) (d : ZXD R) : ZXD.codFrom w (d.mapD g) = ZXD.codFrom w d := by
  induction d generalizing w with
  | nil => rfl
  | cons x rest ih =>
    obtain ⟨b, off⟩ := x
    simp only [ZXD.mapD, List.map_cons, ZXD.codFrom, ZXB.map_dom, ZXB.map_cod] at ih ⊢
    rw [ih]

omit [Zero R] [One R] [Add R] [Mul R] [Neg R] [Conj R] [Zero S] [One S] [Add S] [Mul S] [Neg S] [Conj S] in
/-- Injectivity on a subset lifts to matrices. -/
theorem mapM_inj_on {P : R → Prop} {g : R → S} (hinj : ∀ x y, P x → P y → g x = g y → x = y) :
    ∀ {A B : Mat R}, (∀ r ∈ A, ∀ x ∈ r, P x) → (∀ r ∈ B, ∀ x ∈ r, P x) → mapM g A = mapM g B → A = B := by
  have rows : ∀ {u v : List R}, (∀ x ∈ u, P x) → (∀ x ∈ v, P x) → u.map g = v.map g → u = v := by
    intro u
    induction u with
    | nil => intro v _ _ h; cases v <;> simp_all
    | cons x u ih =>
      intro v hu hv h
      cases v with
      | nil => simp at h
      | cons y v =>
        simp only [List.map_cons, List.cons.injEq] at h
        rw [hinj x y (hu x (by simp)) (hv y (by simp)) h.1,
          ih (fun z hz => hu z (by simp [hz])) (fun z hz => hv z (by simp [hz])) h.2]
  intro A
  induction A with
  | nil => intro B _ _ h; cases B <;> simp_all [mapM]
  | cons r A ih =>
    intro B hA hB h
    cases B with
    | nil => simp [mapM] at h
    | cons s B =>
      simp only [mapM, List.map_cons, List.cons.injEq] at h
      rw [rows (hA r (by simp)) (hB s (by simp)) h.1,
        ih (fun z hz => hA z (by simp [hz])) (fun z hz => hB z (by simp [hz])) h.2]

end Hom

/-! ### entrywise predicates closed under the operations -/

section Closed
variable [Zero R] [One R] [Add R] [Mul R] [Neg R] [Conj R]

structure IsClosed (P : R → Prop) : Prop where
  zero : P 0
  one : P 1
  add : ∀ {x y}, P x → P y → P (x + y)
  mul : ∀ {x y}, P x → P y → P (x * y)
  neg : ∀ {x}, P x → P (-x)
  conj : ∀ {x}, P x → P (Conj.conj x)

/-- Every entry satisfies `P`. -/
def AllEnt (P : R → Prop) (A : Mat R) : Prop := ∀ r ∈ A, ∀ x ∈ r, P x

variable {P : R → Prop}

theorem all_smul (hP : IsClosed P) {a : R} {v : List R} (ha : P a) (hv : ∀ x ∈ v, P x) :
    ∀ x ∈ smul a v, P x := by
  intro x hx
  simp only [smul, List.mem_map] at hx
  obtain ⟨y, hy, rfl⟩ := hx
  exact hP.mul ha (hv y hy)

theorem all_vadd (hP : IsClosed P) : ∀ {u v : List R}, (∀ x ∈ u, P x) → (∀ x ∈ v, P x) →
    ∀ x ∈ vadd u v, P x
  | [], v, _, hv => by simpa [vadd] using hv
  | x :: u, [], hu, _ => by simpa [vadd] using hu
  | x :: u, y :: v, hu, hv => by
    intro z hz
    simp only [vadd, List.mem_cons] at hz
    rcases hz with rfl | hz
    · exact hP.add (hu x (by simp)) (hv y (by simp))
    · exact all_vadd hP (fun z hz => hu z (by simp [hz])) (fun z hz => hv z (by simp [hz])) z hz

theorem all_rowMul (hP : IsClosed P) : ∀ {a : List R} {B : Mat R}, (∀ x ∈ a, P x) → AllEnt P B →
    ∀ x ∈ rowMul a B, P x
  | [], B, _, _ => by simp [rowMul]
  | x :: a, [], _, _ => by simp [rowMul]
  | x :: a, b :: B, ha, hB => by
    simp only [rowMul]
    exact all_vadd hP (all_smul hP (ha x (by simp)) (hB b (by simp)))
      (all_rowMul hP (fun z hz => ha z (by simp [hz])) (fun r hr => hB r (by simp [hr])))

theorem AllEnt.mul (hP : IsClosed P) {A B : Mat R} (hA : AllEnt P A) (hB : AllEnt P B) :
    AllEnt P (mul A B) := by
  intro r hr
  simp only [DV.Gates.mul, List.mem_map] at hr
  obtain ⟨a, ha, rfl⟩ := hr
  exact all_rowMul hP (hA a ha) hB

theorem AllEnt.kron (hP : IsClosed P) {A B : Mat R} (hA : AllEnt P A) (hB : AllEnt P B) :
    AllEnt P (kron A B) := by
  intro r hr x hx
  simp only [DV.Gates.kron, List.mem_flatMap, List.mem_map] at hr
  obtain ⟨ra, hra, rb, hrb, rfl⟩ := hr
  simp only [List.mem_flatMap] at hx
  obtain ⟨a, ha, hx⟩ := hx
  exact all_smul hP (hA ra hra a ha) (hB rb hrb) x hx

omit [Zero R] [One R] [Add R] [Mul R] [Neg R] [Conj R] in
theorem all_zipWith_cons : ∀ {r : List R} {T : Mat R}, (∀ x ∈ r, P x) → AllEnt P T →
    AllEnt P (List.zipWith (· :: ·) r T)
  | [], _, _, _ => by simp [AllEnt]
  | _ :: _, [], _, _ => by simp [AllEnt]
  | x :: r, t :: T, hr, hT => by
    intro row hrow
    simp only [List.zipWith_cons_cons, List.mem_cons] at hrow
    rcases hrow with rfl | hrow
    · intro z hz
      simp only [List.mem_cons] at hz
      rcases hz with rfl | hz
      · exact hr _ (by simp)
      · exact hT t (by simp) z hz
    · exact all_zipWith_cons (fun z hz => hr z (by simp [hz])) (fun s hs => hT s (by simp [hs])) row hrow

omit [Zero R] [One R] [Add R] [Mul R] [Neg R] [Conj R] in
theorem AllEnt.transpose : ∀ {A : Mat R}, AllEnt P A → AllEnt P (transpose A)
  | [], _ => by simp [AllEnt, DV.Gates.transpose]
  | [r], h => by
    intro row hrow x hx
    simp only [DV.Gates.transpose, List.mem_map] at hrow
    obtain ⟨y, hy, rfl⟩ := hrow
    simp only [List.mem_singleton] at hx
    rw [hx]
    exact h r (by simp) y hy
  | r :: r' :: rs, h => by
    simp only [DV.Gates.transpose]
    exact all_zipWith_cons (h r (by simp))
      (AllEnt.transpose (A := r' :: rs) (fun s hs => h s (by simp [hs])))

theorem AllEnt.dagger (hP : IsClosed P) {A : Mat R} (hA : AllEnt P A) : AllEnt P (dagger A) := by
  intro r hr x hx
  simp only [DV.Gates.dagger, List.mem_map] at hr
  obtain ⟨r', hr', rfl⟩ := hr
  simp only [List.mem_map] at hx
  obtain ⟨y, hy, rfl⟩ := hx
  exact hP.conj (hA.transpose r' hr' y hy)

theorem AllEnt.msmul (hP : IsClosed P) {k : R} {A : Mat R} (hk : P k) (hA : AllEnt P A) :
    AllEnt P (msmul k A) := by
  intro r hr
  simp only [DV.Gates.msmul, List.mem_map] at hr
  obtain ⟨r', hr', rfl⟩ := hr
  exact all_smul hP hk (hA r' hr')

theorem AllEnt.identity (hP : IsClosed P) : ∀ n, AllEnt P (identity (R := R) n)
  | 0 => by simp [AllEnt, DV.Gates.identity]
  | n + 1 => by
    intro r hr x hx
    simp only [DV.Gates.identity, List.mem_cons, List.mem_map] at hr
    rcases hr with rfl | ⟨r', hr', rfl⟩
    · simp only [List.mem_cons, List.mem_replicate] at hx
      rcases hx with rfl | ⟨_, rfl⟩
      · exact hP.one
      · exact hP.zero
    · simp only [List.mem_cons] at hx
      rcases hx with rfl | hx
      · exact hP.zero
      · exact AllEnt.identity hP n r' hr' x hx

theorem AllEnt.idQ (hP : IsClosed P) (n : Nat) : AllEnt P (idQ (R := R) n) := AllEnt.identity hP _

theorem AllEnt.layerMat (hP : IsClosed P) {x : Nat × Mat R × Nat} (h : AllEnt P x.2.1) :
    AllEnt P (layerMat x) :=
  (AllEnt.idQ hP _).kron hP (h.kron hP (AllEnt.idQ hP _))

theorem AllEnt.evalLayersFrom (hP : IsClosed P) {acc : Mat R} {L : Layers R} (hacc : AllEnt P acc)
    (hL : ∀ x ∈ L, AllEnt P x.2.1) : AllEnt P (evalLayersFrom acc L) := by
  induction L generalizing acc with
  | nil => exact hacc
  | cons x rest ih =>
    simp only [DV.Gates.evalLayersFrom]
    exact ih (hacc.mul hP (AllEnt.layerMat hP (hL x (by simp)))) (fun y hy => hL y (by simp [hy]))

theorem AllEnt.evalLayers (hP : IsClosed P) (n : Nat) {L : Layers R}
    (hL : ∀ x ∈ L, AllEnt P x.2.1) : AllEnt P (evalLayers n L) :=
  AllEnt.evalLayersFrom hP (AllEnt.idQ hP n) hL

theorem all_rpow (hP : IsClosed P) {r : R} (hr : P r) : ∀ k, P (rpow r k)
  | 0 => hP.one
  | k + 1 => hP.mul hr (all_rpow hP hr k)

/-- The parameter of a generator satisfies `P`. -/
def ZXB.paramOK (P : R → Prop) : ZXB R → Prop
  | .z _ _ μ => P μ
  | .x _ _ μ => P μ
  | .scalar s => P s
  | _ => True

theorem AllEnt.zxb (hP : IsClosed P) {ρ : R} (hρ : P ρ) {b : ZXB R} (hb : b.paramOK P) :
    AllEnt P (b.mat ρ) := by
  cases b with
  | z n m μ =>
    intro r hr x hx
    simp only [ZXB.mat, zMat, List.mem_map] at hr
    obtain ⟨u, _, rfl⟩ := hr
    simp only [List.mem_map] at hx
    obtain ⟨v, _, rfl⟩ := hx
    split <;> split <;> first | exact hP.add hP.one hb | exact hP.one | exact hb | exact hP.zero
  | x n m μ =>
    intro r hr x hx
    simp only [ZXB.mat, xMat, List.mem_map] at hr
    obtain ⟨u, _, rfl⟩ := hr
    simp only [List.mem_map] at hx
    obtain ⟨v, _, rfl⟩ := hx
    refine hP.mul (all_rpow hP hρ _) ?_
    split
    · exact hP.add hP.one (hP.neg hb)
    · exact hP.add hP.one hb
  | h =>
    intro r hr x hx
    simp only [ZXB.mat, hMat, List.mem_cons, List.mem_nil_iff, or_false] at hr
    rcases hr with rfl | rfl <;> simp only [List.mem_cons, List.mem_nil_iff, or_false] at hx <;>
      rcases hx with rfl | rfl <;> first | exact hρ | exact hP.neg hρ
  | swap =>
    intro r hr x hx
    simp only [ZXB.mat, swapMat, List.mem_cons, List.mem_nil_iff, or_false] at hr
    rcases hr with rfl | rfl | rfl | rfl <;> simp only [List.mem_cons, List.mem_nil_iff, or_false] at hx <;>
      rcases hx with rfl | rfl | rfl | rfl <;> first | exact hP.one | exact hP.zero
  | scalar s =>
    intro r hr x hx
    simp only [ZXB.mat, List.mem_singleton] at hr
    subst hr
    simp only [List.mem_singleton] at hx
    subst hx
    exact hb

theorem AllEnt.evalZX (hP : IsClosed P) {ρ : R} (hρ : P ρ) (w : Nat) {d : ZXD R}
    (hd : ∀ x ∈ d, x.1.paramOK P) : AllEnt P (DV.Gates.evalZX ρ w d) := by
  rw [evalZX_eq]
  apply AllEnt.evalLayers hP
  intro x hx
  induction d generalizing w with
  | nil => simp [zxLayers] at hx
  | cons y rest ih =>
    obtain ⟨b, off⟩ := y
    simp only [zxLayers, List.mem_cons] at hx
    rcases hx with rfl | hx
    · exact AllEnt.zxb hP hρ (hd (b, off) (by simp))
    · exact ih _ (fun z hz => hd z (by simp [hz])) hx

end Closed

end DV.Gates
