/-
  Proofs/ParamBubble.lean — the chain rule implemented by tensor.Bubble.grad (tensor.py:713-735),
  about the bubbles of Model/Param.lean (part 2b), for ANY derivation on ANY commutative ring.

   * `chain_rule`           D (p(x)) = p'(x) · D x  for a polynomial `p` with integer coefficients,
                            `p'` given by the coefficient list `polyDeriv`;
   * `spiderSandwich_eq`    Spider(1, 2, a) >> A @ B >> Spider(2, 1, b)  is the entrywise product
                            of `A, B : a → b`;
   * `bubble_grad_spec`     the terms built by Bubble.grad sum to `D` of the array of the bubble,
                            entry by entry: `(p' ∘ f) · D f` with `D f` the evaluation of
                            `inside.grad(var)` (`grad_product_rule`);
   * `xgrad_rule`           hence tensor.Diagram.grad on diagrams with plain boxes and (single-wire,
                            polynomial, un-nested) bubbles evaluates to `D` of the evaluation.
-/
import Proofs.PolyDiagram

set_option linter.unusedSectionVars false

namespace DV.Param

/-! ### structure only (no ring needed) -/

section Structural
variable {R : Type}

/-- Inputs of `grad`: plain boxes and bubbles (terms of a gradient are not differentiated). -/
def XBox.isInput : XBox R → Prop
  | .plain _ => True
  | .bubble _ _ _ _ => True
  | .chain _ _ _ _ _ => False

theorem boxGrad_dims' (checksFS : Bool) (depP : PBox R → Bool) (D : R → R) (b : PBox R) :
    ∀ b' ∈ boxGrad checksFS depP D b, b'.dom = b.dom ∧ b'.cod = b.cod := by
  intro b' hb
  unfold boxGrad at hb
  split at hb
  · exact absurd hb List.not_mem_nil
  · rw [List.mem_singleton.mp hb]
    exact ⟨rfl, rfl⟩

theorem xboxGrad_dims (checksFS : Bool) (depP : PBox R → Bool) (D : R → R) (b : XBox R) :
    ∀ b' ∈ xboxGrad checksFS depP D b, b'.dom = b.dom ∧ b'.cod = b.cod := by
  intro b' hb'
  cases b with
  | plain b =>
    simp only [xboxGrad, List.mem_map] at hb'
    obtain ⟨p, hp, rfl⟩ := hb'
    exact boxGrad_dims' checksFS depP D b p hp
  | chain _ _ _ _ _ => simp [xboxGrad] at hb'
  | bubble dom cod func inside =>
    simp only [xboxGrad] at hb'
    split at hb'
    · obtain ⟨t, _, rfl⟩ := List.mem_map.mp hb'
      exact ⟨rfl, rfl⟩
    · exact absurd hb' List.not_mem_nil

def reBoxX (l : XLayer R) (b' : XBox R) : XLayer R :=
  { left := l.left, box := b', right := l.right }

theorem xgradLayers_eq_gradL (dep : XBox R → Bool) (G : XBox R → List (XBox R))
    (ls : List (XLayer R)) :
    xgradLayers dep G ls = gradL (fun l => dep l.box) (fun l => (G l.box).map (reBoxX l)) ls := by
  induction ls with
  | nil => rfl
  | cons l tail ih =>
    simp only [xgradLayers, gradL, ih, List.map_map, Function.comp_def, reBoxX]

end Structural

/-! ### constants -/

theorem Deriv.intCast {R : Type} [CommRing R] (d : Deriv R) (c : Int) : d.D (c : R) = 0 := by
  induction c using Int.induction_on with
  | zero => simpa using d.zero
  | succ i ih => rw [Int.cast_add, d.add, ih, Int.cast_one, d.one, add_zero]
  | pred i ih => rw [Int.cast_sub, d.sub, ih, Int.cast_one, d.one, sub_zero]

theorem Deriv.intHom {R : Type} [CommRing R] (d : Deriv R) (ι : ℤ →+* R) (c : Int) :
    d.D (ι c) = 0 := by
  rw [eq_intCast ι c]; exact d.intCast c

/-! ### chain rule for a polynomial function -/

section Chain
variable {R : Type} [CommRing R] (d : Deriv R) (ι : ℤ →+* R)

/-- `p'(x)` read off the Horner form: `(c + x·q)' = q + x·q'`. -/
def polyDerivApply : List Int → R → R
  | [], _ => 0
  | _ :: cs, x => polyApply ι cs x + x * polyDerivApply cs x

theorem chain_rule_horner (cs : List Int) (x : R) :
    d.D (polyApply ι cs x) = polyDerivApply ι cs x * d.D x := by
  induction cs with
  | nil => simpa [polyApply, polyDerivApply] using d.zero
  | cons c q ih =>
    simp only [polyApply, polyDerivApply]
    rw [d.add, d.intHom ι c, d.mul, ih]
    ring

theorem polyApply_polyDerivAux (k : Nat) (cs : List Int) (x : R) :
    polyApply ι (polyDerivAux k cs) x
      = (k : R) * polyApply ι cs x + x * polyDerivApply ι cs x := by
  induction cs generalizing k with
  | nil => simp [polyApply, polyDerivAux, polyDerivApply]
  | cons c q ih =>
    simp only [polyApply, polyDerivAux, polyDerivApply, ih]
    rw [map_mul, map_natCast, Nat.cast_succ]
    ring

/-- The coefficient list `polyDeriv cs` is the derivative of the polynomial function. -/
theorem polyApply_polyDeriv (cs : List Int) (x : R) :
    polyApply ι (polyDeriv cs) x = polyDerivApply ι cs x := by
  cases cs with
  | nil => rfl
  | cons c q =>
    simp only [polyDeriv, polyDerivApply]
    rw [polyApply_polyDerivAux, Nat.cast_one, one_mul]

/-- **Chain rule**: `D (p ∘ f) = (p' ∘ f) · D f`, at one entry. -/
theorem chain_rule (cs : List Int) (x : R) :
    d.D (polyApply ι cs x) = polyApply ι (polyDeriv cs) x * d.D x := by
  rw [chain_rule_horner, polyApply_polyDeriv]

end Chain

/-! ### the two spiders compute the entrywise product -/

section Sandwich
variable {R : Type} [CommRing R]

theorem sum_range_mul_ite (n c0 : Nat) (f : Nat → R) :
    ((List.range n).map (fun c => f c * (if c = c0 then 1 else 0))).sum
      = if c0 < n then f c0 else 0 := by
  induction n with
  | zero => simp
  | succ n ih =>
    rw [List.range_succ, List.map_append, List.sum_append, ih]
    simp only [List.map_cons, List.map_nil, List.sum_cons, List.sum_nil, add_zero]
    by_cases h1 : c0 < n
    · have h2 : n ≠ c0 := by omega
      have h3 : c0 < n + 1 := by omega
      simp [h1, h2, h3]
    · by_cases h2 : n = c0
      · subst h2; simp
      · have h3 : ¬ c0 < n + 1 := by omega
        simp [h1, h2, h3]

theorem sum_range_ite_mul (n c0 : Nat) (f : Nat → R) :
    ((List.range n).map (fun c => (if c = c0 then 1 else 0) * f c)).sum
      = if c0 < n then f c0 else 0 := by
  rw [← sum_range_mul_ite n c0 f]
  exact sum_map_congr _ _ _ (fun c => mul_comm _ _)

theorem diag_lt_iff (i n : Nat) : i * n + i < n * n ↔ i < n := by
  constructor
  · intro h
    by_contra hc
    have hge : n ≤ i := by omega
    have : n * n ≤ i * n := Nat.mul_le_mul_right n hge
    omega
  · intro h
    have : (i + 1) * n ≤ n * n := Nat.mul_le_mul_right n h
    have e : (i + 1) * n = i * n + n := by ring
    omega

theorem diag_div (i n : Nat) (h : i < n) : (i * n + i) / n = i := by
  have hn : 0 < n := by omega
  rw [Nat.add_comm, Nat.add_mul_div_right _ _ hn, Nat.div_eq_of_lt h, Nat.zero_add]

theorem diag_mod (i n : Nat) (h : i < n) : (i * n + i) % n = i := by
  rw [Nat.add_comm, Nat.add_mul_mod_self_right, Nat.mod_eq_of_lt h]

/-- `Spider(1, 2, a) >> A @ B >> Spider(2, 1, b)` is the entrywise product of `A` and `B`. -/
theorem spiderSandwich_eq (a b : Nat) (A B : Mat R) (i j : Nat) :
    spiderSandwich a b A B i j = if i < a ∧ j < b then A i j * B i j else 0 := by
  unfold spiderSandwich
  have inner : ∀ k, matMul (b * b) (kronM a b A B) (spiderMerge b) k j
      = if j * b + j < b * b then kronM a b A B k (j * b + j) else 0 := by
    intro k
    unfold matMul spiderMerge
    exact sum_range_mul_ite (b * b) (j * b + j) (fun c => kronM a b A B k c)
  unfold matMul spiderSplit
  rw [sum_range_ite_mul (a * a) (i * a + i)
    (fun k => ((List.range (b * b)).map (fun c => kronM a b A B k c * spiderMerge b c j)).sum)]
  have inner' := inner (i * a + i)
  unfold matMul at inner'
  rw [inner']
  simp only [diag_lt_iff]
  by_cases hi : i < a
  · by_cases hj : j < b
    · simp only [hi, hj, if_true, and_self]
      unfold kronM
      rw [diag_div i a hi, diag_mod i a hi, diag_div j b hj, diag_mod j b hj]
    · simp [hi, hj]
  · simp [hi]

end Sandwich

/-! ### what Bubble.grad builds -/

section BubbleGrad
variable {R : Type} [CommRing R] [HasConj R] (d : Deriv R) (ι : ℤ →+* R)

/-- The terms `Spider(1,2) >> inside.bubble(p') @ t >> Spider(2,1)`, `t` ranging over the terms of a
    formal sum, evaluate to `(p' ∘ f) ·` the evaluation of the sum, entrywise. -/
theorem bubble_terms_sum (a b : Nat) (func' : List Int) (inside : List (PLayer R))
    (ts : List (List (PLayer R))) (i j : Nat) :
    (ts.map (fun t => spiderSandwich a b (bubbleArr ι a b func' inside) (evalLayers t) i j)).sum
      = if i < a ∧ j < b then polyApply ι func' (evalLayers inside i j) * evalSum ts i j else 0 := by
  have e : ts.map (fun t => spiderSandwich a b (bubbleArr ι a b func' inside) (evalLayers t) i j)
      = ts.map (fun t => if i < a ∧ j < b
          then polyApply ι func' (evalLayers inside i j) * evalLayers t i j else 0) := by
    apply List.map_congr_left
    intro t _
    rw [spiderSandwich_eq]
    unfold bubbleArr
    by_cases h : i < a ∧ j < b
    · simp only [h, and_self, if_true]
    · simp only [h, if_false]
  rw [e]
  by_cases h : i < a ∧ j < b
  · simp only [h, and_self, if_true]
    unfold evalSum
    exact sum_map_mul_left ts _ _
  · simp only [h, if_false]
    exact sum_map_zero ts

variable (checksFS : Bool) (depP : PBox R → Bool)
  (hconj : ∀ x, d.D (HasConj.conj x) = HasConj.conj (d.D x))
  (hdepP : ∀ b, depP b = false → ∀ i j, d.D (b.arr i j) = 0)

include hconj hdepP in
/-- **Bubble.grad** (and tensor.Box.grad): the terms of `box.grad(var)` sum, entry by entry, to the
    derivative of the array of the box; for a bubble this is `(p' ∘ f) · D f`. -/
theorem bubble_grad_spec (b : XBox R) (hb : b.isInput) (i j : Nat) :
    ((xboxGrad checksFS depP d.D b).map (fun b' => b'.arr (ι : Int → R) i j)).sum
      = d.D (b.arr (ι : Int → R) i j) := by
  cases b with
  | plain b =>
    simp only [xboxGrad, XBox.arr, List.map_map, Function.comp_def]
    exact boxGrad_spec d checksFS depP hconj hdepP b i j
  | chain _ _ _ _ _ => exact hb.elim
  | bubble dom cod func inside =>
    simp only [xboxGrad, XBox.arr]
    have hD : d.D (bubbleArr (ι : Int → R) (prod dom) (prod cod) func inside i j)
        = if i < prod dom ∧ j < prod cod
          then polyApply ι (polyDeriv func) (evalLayers inside i j) * d.D (evalLayers inside i j)
          else 0 := by
      unfold bubbleArr
      by_cases h : i < prod dom ∧ j < prod cod
      · simp only [h, and_self, if_true]
        exact chain_rule d ι func _
      · simp only [h, if_false]
        exact d.zero
    rw [hD]
    by_cases hany : inside.any (fun l => depP l.box) = true
    · rw [if_pos hany]
      simp only [List.map_map, Function.comp_def]
      rw [bubble_terms_sum ι (prod dom) (prod cod) (polyDeriv func) inside _ i j,
        grad_product_rule d depP _ (boxGrad_dims checksFS depP d.D)
          (boxGrad_spec d checksFS depP hconj hdepP) hdepP inside i j]
    · rw [if_neg hany]
      have hz : d.D (evalLayers inside i j) = 0 := by
        apply D_evalLayers_const
        intro l hl a c
        apply hdepP
        cases hx : depP l.box with
        | false => rfl
        | true => exact absurd (List.any_eq_true.mpr ⟨l, hl, hx⟩) hany
      simp [hz]

include hdepP in
theorem xdep_spec (b : XBox R) (hb : b.isInput) (h : XBox.dep depP b = false) (i j : Nat) :
    d.D (b.arr (ι : Int → R) i j) = 0 := by
  cases b with
  | plain b => exact hdepP b h i j
  | chain _ _ _ _ _ => exact hb.elim
  | bubble dom cod func inside =>
    simp only [XBox.arr]
    unfold bubbleArr
    split
    · rw [chain_rule d ι]
      have hz : d.D (evalLayers inside i j) = 0 := by
        apply D_evalLayers_const
        intro l hl a c
        apply hdepP
        cases hx : depP l.box with
        | false => rfl
        | true =>
          have : inside.any (fun l => depP l.box) = true := List.any_eq_true.mpr ⟨l, hl, hx⟩
          simp only [XBox.dep] at h
          rw [this] at h
          cases h
      rw [hz, mul_zero]
    · exact d.zero

/-! ### the diagram-level rule with bubbles -/

theorem xevalLayers_eq_evalL (f : Int → R) (ls : List (XLayer R)) :
    xevalLayers f ls = evalL XLayer.outDim (XLayer.mat f) ls := by
  induction ls with
  | nil => rfl
  | cons l ls ih => simp only [xevalLayers, evalL, ih]

theorem xevalSum_eq_sumL (f : Int → R) (ts : List (List (XLayer R))) :
    xevalSum f ts = sumL XLayer.outDim (XLayer.mat f) ts := by
  funext i j
  unfold xevalSum sumL
  simp only [xevalLayers_eq_evalL]

/-- Whiskering is linear: the matrices of the layers obtained by replacing the box sum to the
    whiskering of the sum of the arrays. -/
theorem xmat_sum (f : Int → R) (l : XLayer R) (bs : List (XBox R))
    (hdims : ∀ b' ∈ bs, b'.dom = l.box.dom ∧ b'.cod = l.box.cod)
    (target : Nat → Nat → R)
    (h : ∀ i j, (bs.map (fun b' => b'.arr f i j)).sum = target i j) (i j : Nat) :
    (bs.map (fun b' => (reBoxX l b').mat f i j)).sum
      = if i / (prod l.box.dom * prod l.right) = j / (prod l.box.cod * prod l.right)
            ∧ i % prod l.right = j % prod l.right
        then target (i / prod l.right % prod l.box.dom) (j / prod l.right % prod l.box.cod)
        else 0 := by
  have e : bs.map (fun b' => (reBoxX l b').mat f i j)
      = bs.map (fun b' =>
          if i / (prod l.box.dom * prod l.right) = j / (prod l.box.cod * prod l.right)
              ∧ i % prod l.right = j % prod l.right
          then b'.arr f (i / prod l.right % prod l.box.dom) (j / prod l.right % prod l.box.cod)
          else 0) := by
    apply List.map_congr_left
    intro b' hb
    obtain ⟨h1, h2⟩ := hdims b' hb
    unfold XLayer.mat reBoxX
    simp only [h1, h2]
  rw [e]
  split
  · exact h _ _
  · exact sum_map_zero _

include hconj hdepP in
/-- **tensor.Diagram.grad on diagrams with bubbles** evaluates to the derivative of the
    evaluation. -/
theorem xgrad_rule (ls : List (XLayer R)) (hin : ∀ l ∈ ls, l.box.isInput) (i k : Nat) :
    xevalSum (ι : Int → R) (xgradLayers (XBox.dep depP) (xboxGrad checksFS depP d.D) ls) i k
      = d.D (xevalLayers (ι : Int → R) ls i k) := by
  rw [xevalSum_eq_sumL, xevalLayers_eq_evalL, xgradLayers_eq_gradL]
  apply gradL_rule d
  · intro l _ l' hl'
    obtain ⟨b', hb', rfl⟩ := List.mem_map.mp hl'
    obtain ⟨_, h2⟩ := xboxGrad_dims checksFS depP d.D l.box b' hb'
    unfold XLayer.outDim reBoxX
    simp only [h2]
  · intro l hl a b
    rw [List.map_map]
    have := xmat_sum (ι : Int → R) l (xboxGrad checksFS depP d.D l.box)
      (xboxGrad_dims checksFS depP d.D l.box)
      (fun a b => d.D (l.box.arr (ι : Int → R) a b))
      (fun a b => bubble_grad_spec d ι checksFS depP hconj hdepP l.box (hin l hl) a b) a b
    simp only [Function.comp_def]
    rw [this]
    unfold XLayer.mat
    split
    · rfl
    · exact d.zero.symm
  · intro l hl hd a b
    unfold XLayer.mat
    split
    · exact xdep_spec d ι depP hdepP l.box (hin l hl) hd _ _
    · exact d.zero

end BubbleGrad

end DV.Param
