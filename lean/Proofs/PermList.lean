/-
  Proofs/PermList.lean — what `isPermList` (the validity test of `Diagram.permutation`,
  monoidal.py:534) says in terms of `List.Perm`: the list is a rearrangement of
  `[0, …, len-1]`; in particular it has no repeated entry.  Used by Props/C10.lean to state the
  acceptance condition of `permutation` against `range(len(dom))`.
-/
import Mathlib.Data.List.Perm.Subperm
import Mathlib.Data.List.Nodup
import Proofs.Swap

namespace DV

/-- `[0, …, n-1]` as Python ints. -/
def intRange (n : Nat) : List Int := List.map (fun (k : Nat) => (k : Int)) (List.range n)

theorem intRange_length (n : Nat) : (intRange n).length = n := by simp [intRange]

theorem mem_intRange {n : Nat} {x : Int} : x ∈ intRange n ↔ 0 ≤ x ∧ x < (n : Int) := by
  unfold intRange
  rw [List.mem_map]
  constructor
  · rintro ⟨k, hk, rfl⟩
    rw [List.mem_range] at hk
    omega
  · rintro ⟨h0, h1⟩
    exact ⟨x.toNat, List.mem_range.mpr (by omega), by omega⟩

theorem intRange_nodup (n : Nat) : (intRange n).Nodup := by
  unfold intRange
  refine List.Nodup.map ?_ List.nodup_range
  intro a b h
  exact Int.ofNat.inj h

/-- The validity test accepts exactly the rearrangements of `[0, …, len-1]`. -/
theorem isPermList_iff_perm (π : List Int) :
    isPermList π = true ↔ (intRange π.length).Perm π := by
  rw [isPermList_iff]
  constructor
  · rintro ⟨_, hsurj⟩
    have hsub : intRange π.length ⊆ π := by
      intro x hx
      obtain ⟨h0, h1⟩ := mem_intRange.mp hx
      have := hsurj x.toNat (by omega)
      rwa [Int.toNat_of_nonneg h0] at this
    exact (List.subperm_of_subset (intRange_nodup _) hsub).perm_of_length_le
      (by rw [intRange_length]; exact Nat.le_refl _)
  · intro h
    refine ⟨fun x hx => mem_intRange.mp (h.mem_iff.mpr hx), fun k hk => ?_⟩
    exact h.mem_iff.mp (mem_intRange.mpr ⟨by omega, by omega⟩)

/-- A list that passes the validity test has no repeated entry. -/
theorem isPermList_nodup {π : List Int} (h : isPermList π = true) : π.Nodup :=
  ((isPermList_iff_perm π).mp h).nodup_iff.mp (intRange_nodup _)

/-- `permutation(perm, dom)` is accepted exactly when `perm` is a rearrangement of
    `range(len(dom))` — one condition that contains both refusal tests of monoidal.py:534-539
    (being a permutation of `range(len(perm))`, and `len(dom) == len(perm)`). -/
theorem Diagram.permutation_accepted_iff (perm : List Int) (dom : Ty) :
    (∃ d, Diagram.permutation perm dom = .ok d) ↔ (intRange dom.length).Perm perm := by
  constructor
  · rintro ⟨d, hd⟩
    have hnot : ¬ Diagram.permutation perm dom = .error .value := by rw [hd]; intro h; cases h
    rw [Diagram.permutation_refuses] at hnot
    have hp : isPermList perm = true := by
      cases h : isPermList perm
      · exact absurd (Or.inl h) hnot
      · rfl
    have hl : dom.length = perm.length := Classical.byContradiction fun h => hnot (Or.inr h)
    rw [hl]
    exact (isPermList_iff_perm perm).mp hp
  · intro h
    have hl : dom.length = perm.length := by
      have := h.length_eq
      rwa [intRange_length] at this
    rw [hl] at h
    obtain ⟨d, hd, _⟩ := Diagram.permutation_spec perm dom ((isPermList_iff_perm perm).mpr h) hl
    exact ⟨d, hd⟩

end DV
