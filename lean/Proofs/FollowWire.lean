/-
  Proofs/FollowWire.lean — C07: `follow_wire` returns the consumer of the wire it is asked to
  follow, stated against an independent labelling of wires by their producers.
-/
import Proofs.WF
import Model.Snake

namespace DV

/-! ### Wire labels: which box produced the wire at each position, after `k` boxes -/

/-- One scan step on labels (Nat offsets): the box at index `k` with `m` inputs and `n` outputs
    at offset `off`. -/
def stepLabels (scan : List (Option Nat)) (k off m n : Nat) : List (Option Nat) :=
  scan.take off ++ List.replicate n (some k) ++ scan.drop (off + m)

/-- Labels of the wires after the first `k` boxes (`none` = an input of the diagram). -/
def labelsAfter (dom : Nat) (arity : List (Nat × Nat × Nat)) : Nat → List (Option Nat)
  | 0 => List.replicate dom none
  | k+1 => match arity[k]? with
    | some (off, m, n) => stepLabels (labelsAfter dom arity k) k off m n
    | none => labelsAfter dom arity k

/-- The pure position tracker underlying `follow_wire`, on Nat data: `arity[k] = (off, m, n)`. -/
def trace (arity : List (Nat × Nat × Nat)) : Nat → Nat → Nat → Nat × Nat
  | 0, _, j => (arity.length, j)      -- fuel exhausted (not reached with fuel = number of boxes)
  | fuel+1, i, j =>
    match arity[i+1]? with
    | some (off, m, n) =>
      if off ≤ j ∧ j < off + m then (i + 1, j)
      else if off ≤ j then trace arity fuel (i+1) (j + n - m)
      else trace arity fuel (i+1) j
    | none => (arity.length, j)

theorem labelsAfter_succ {dom : Nat} {arity : List (Nat × Nat × Nat)} {k off m n : Nat}
    (h : arity[k]? = some (off, m, n)) :
    labelsAfter dom arity (k+1) = stepLabels (labelsAfter dom arity k) k off m n := by
  simp only [labelsAfter, h]

theorem stepLabels_left {scan : List (Option Nat)} {k off m n j : Nat} (h : j < off)
    (hoff : off ≤ scan.length) : (stepLabels scan k off m n)[j]? = scan[j]? := by
  unfold stepLabels
  rw [List.append_assoc, List.getElem?_append_left (by simp; omega)]
  simp [h]

theorem stepLabels_right {scan : List (Option Nat)} {k off m n j : Nat} (h : off + m ≤ j)
    (hoff : off ≤ scan.length) : (stepLabels scan k off m n)[j + n - m]? = scan[j]? := by
  unfold stepLabels
  have hl : (scan.take off ++ List.replicate n (some k)).length = off + n := by simp; omega
  rw [List.getElem?_append_right (by rw [hl]; omega), hl]
  simp only [List.getElem?_drop]
  congr 1
  omega

/-- The label of the followed wire is carried along: if `trace` stops at box `c < len` the wire at
    the returned position, in the type *before* box `c`, has the label we started with, and lies
    inside the input span of box `c`; if it stops at `len`, the wire is an output of the diagram. -/
theorem trace_spec (dom : Nat) (arity : List (Nat × Nat × Nat))
    (hfit : ∀ k off m n, arity[k]? = some (off, m, n) → off + m ≤ (labelsAfter dom arity k).length)
    (fuel i j : Nat) (hfuel : arity.length ≤ i + 1 + fuel) (hi : i < arity.length) :
    let r := trace arity fuel i j
    (labelsAfter dom arity r.1)[r.2]? = (labelsAfter dom arity (i+1))[j]? ∧ i < r.1 ∧
      r.1 ≤ arity.length ∧
      (r.1 < arity.length → ∃ off m n, arity[r.1]? = some (off, m, n) ∧ off ≤ r.2 ∧ r.2 < off + m) := by
  induction fuel generalizing i j with
  | zero =>
    have : i + 1 = arity.length := by omega
    simp only [trace]
    refine ⟨?_, by omega, by omega, fun h => by omega⟩
    rw [this]
  | succ fuel ih =>
    simp only [trace]
    cases hk : arity[i+1]? with
    | none =>
      have hlen : arity.length ≤ i + 1 := by
        rcases Nat.lt_or_ge (i+1) arity.length with h | h
        · rw [List.getElem?_eq_getElem h] at hk; cases hk
        · exact h
      have : arity.length = i + 1 := by omega
      refine ⟨?_, by simp only; omega, by simp only; omega, fun h => by simp only at h; omega⟩
      simp only [this]
    | some t =>
      obtain ⟨off, m, n⟩ := t
      have hlt : i + 1 < arity.length := by
        rcases Nat.lt_or_ge (i+1) arity.length with h | h
        · exact h
        · rw [List.getElem?_eq_none h] at hk; cases hk
      have hf := hfit (i+1) off m n hk
      simp only
      split
      · rename_i hin
        exact ⟨rfl, by omega, by omega, fun _ => ⟨off, m, n, hk, hin.1, hin.2⟩⟩
      · split
        · rename_i hnin hge
          have hj : off + m ≤ j := by omega
          obtain ⟨a, b, c, d⟩ := ih (i+1) (j + n - m) (by omega) hlt
          refine ⟨?_, by omega, c, d⟩
          rw [a, labelsAfter_succ hk]
          exact stepLabels_right hj (by omega)
        · rename_i hnin hlt'
          have hj : j < off := by omega
          obtain ⟨a, b, c, d⟩ := ih (i+1) j (by omega) hlt
          refine ⟨?_, by omega, c, d⟩
          rw [a, labelsAfter_succ hk]
          exact stepLabels_left hj (by omega)

end DV

namespace DV

/-! ### From the model's `followWire` (Int offsets, obstruction lists) to `trace` -/

def arityOfLayers (ls : List Layer) : List (Nat × Nat × Nat) :=
  ls.map (fun l => (l.left.length, l.box.dom.length, l.box.cod.length))

/-- The type reached after `k` layers of a chain has the length of the label list. -/
theorem labelsAfter_length {s c : Ty} {ls : List Layer} (h : Chain s ls c) (k : Nat) (hk : k ≤ ls.length) :
    ∃ t, Chain s (ls.take k) t ∧ (labelsAfter s.length (arityOfLayers ls) k).length = t.length := by
  induction k with
  | zero => exact ⟨s, by simp [Chain], by simp [labelsAfter]⟩
  | succ k ih =>
    obtain ⟨t, ht, hl⟩ := ih (by omega)
    have hlt : k < ls.length := by omega
    have hget : ls[k]? = some ls[k] := List.getElem?_eq_getElem hlt
    have har : (arityOfLayers ls)[k]? = some (ls[k].left.length, ls[k].box.dom.length, ls[k].box.cod.length) := by
      simp [arityOfLayers, hget]
    -- the chain up to k+1
    have hsplit : ls.take (k+1) = ls.take k ++ [ls[k]] := by
      rw [List.take_add_one, hget]; rfl
    obtain ⟨m, h1, h2⟩ := chain_take_drop k h
    have hm : m = t := chain_unique h1 ht
    subst hm
    have hdk : ls.drop k = ls[k] :: ls.drop (k+1) := by
      rw [List.drop_eq_getElem_cons hlt]
    rw [hdk] at h2
    obtain ⟨hdom, _⟩ := h2
    refine ⟨ls[k].cod, ?_, ?_⟩
    · rw [hsplit]; exact chain_append.mpr ⟨m, ht, by simp [Chain, hdom]⟩
    · rw [labelsAfter_succ har]
      simp only [stepLabels, List.length_append, List.length_take, List.length_replicate,
        List.length_drop, hl, hdom, Layer.dom, Layer.cod]
      omega

theorem arity_fits {s c : Ty} {ls : List Layer} (h : Chain s ls c) :
    ∀ k off m n, (arityOfLayers ls)[k]? = some (off, m, n) →
      off + m ≤ (labelsAfter s.length (arityOfLayers ls) k).length := by
  intro k off m n hk
  have hlt : k < ls.length := by
    have := (List.getElem?_eq_some_iff.mp hk).1
    simpa [arityOfLayers] using this
  obtain ⟨t, ht, hl⟩ := labelsAfter_length h k (by omega)
  have hget : ls[k]? = some ls[k] := List.getElem?_eq_getElem hlt
  simp only [arityOfLayers, List.getElem?_map, hget, Option.map_some, Option.some.injEq,
    Prod.mk.injEq] at hk
  obtain ⟨rfl, rfl, rfl⟩ := hk
  obtain ⟨m', h1, h2⟩ := chain_take_drop k h
  have : m' = t := chain_unique h1 ht
  subst this
  rw [List.drop_eq_getElem_cons hlt] at h2
  rw [hl, h2.1]
  simp [Layer.dom]

/-- On a well-typed diagram the model's `followWire` visits exactly the positions of `trace`. -/
theorem followWire_eq_trace {d : Diagram} (hd : d.WF) (fuel i j : Nat) (lo ro : List Nat) :
    (followWire d.boxes d.offsets fuel i (j : Int) lo ro).1 =
      (trace (arityOfLayers d.layers.boxes) fuel i j).1 ∧
    (followWire d.boxes d.offsets fuel i (j : Int) lo ro).2.1 =
      ((trace (arityOfLayers d.layers.boxes) fuel i j).2 : Int) := by
  have hb : d.boxes.length = d.layers.boxes.length := by rw [hd.boxes]; simp
  induction fuel generalizing i j lo ro with
  | zero => simp [followWire, trace, arityOfLayers, hb]
  | succ fuel ih =>
    simp only [followWire, trace]
    by_cases hlt : i + 1 < d.boxes.length
    · rw [if_pos hlt]
      have hlt' : i + 1 < d.layers.boxes.length := by omega
      have hget : d.layers.boxes[i+1]? = some d.layers.boxes[i+1] := List.getElem?_eq_getElem hlt'
      have e1 : d.boxes[i+1]? = some d.layers.boxes[i+1].box := by rw [hd.boxes]; simp [hget]
      have e2 : d.offsets[i+1]? = some (d.layers.boxes[i+1].left.length : Int) := by
        rw [hd.offsets]; simp [hget]
      have e3 : (arityOfLayers d.layers.boxes)[i+1]? = some (d.layers.boxes[i+1].left.length,
          d.layers.boxes[i+1].box.dom.length, d.layers.boxes[i+1].box.cod.length) := by
        simp [arityOfLayers, hget]
      simp only [e1, e2, e3]
      by_cases hin : (d.layers.boxes[i+1].left.length : Int) ≤ j ∧
          (j : Int) < d.layers.boxes[i+1].left.length + d.layers.boxes[i+1].box.dom.length
      · have hin' : d.layers.boxes[i+1].left.length ≤ j ∧
            j < d.layers.boxes[i+1].left.length + d.layers.boxes[i+1].box.dom.length := by omega
        rw [if_pos hin, if_pos hin']
        exact ⟨rfl, rfl⟩
      · have hin' : ¬ (d.layers.boxes[i+1].left.length ≤ j ∧
            j < d.layers.boxes[i+1].left.length + d.layers.boxes[i+1].box.dom.length) := by omega
        rw [if_neg hin, if_neg hin']
        by_cases hge : (d.layers.boxes[i+1].left.length : Int) ≤ j
        · have hge' : d.layers.boxes[i+1].left.length ≤ j := by omega
          rw [if_pos hge, if_pos hge']
          have hcast : ((j : Int) + d.layers.boxes[i+1].box.cod.length - d.layers.boxes[i+1].box.dom.length)
              = ((j + d.layers.boxes[i+1].box.cod.length - d.layers.boxes[i+1].box.dom.length : Nat) : Int) := by
            omega
          rw [hcast]
          exact ih (i+1) _ (lo ++ [i+1]) ro
        · have hge' : ¬ d.layers.boxes[i+1].left.length ≤ j := by omega
          rw [if_neg hge, if_neg hge']
          exact ih (i+1) j lo (ro ++ [i+1])
    · rw [if_neg hlt]
      have hnone : (arityOfLayers d.layers.boxes)[i+1]? = none := by
        apply List.getElem?_eq_none; simp [arityOfLayers]; omega
      simp only [hnone]
      simp [arityOfLayers, hb]

end DV

namespace DV

/-- The producer labels of the wires of `d` after its first `k` boxes. -/
def Diagram.labels (d : Diagram) (k : Nat) : List (Option Nat) :=
  labelsAfter d.dom.length (arityOfLayers d.layers.boxes) k

theorem arityOfLayers_get {ls : List Layer} {c : Nat} {l : Layer} (h : ls[c]? = some l) :
    (arityOfLayers ls)[c]? = some (l.left.length, l.box.dom.length, l.box.cod.length) := by
  simp [arityOfLayers, h]

/-- `follow_wire` is correct: starting from the wire at position `j` just below box `i`, it
    returns the index `c` of the box that consumes THAT wire (same producer label, position inside
    the input span of box `c`), or `len(d)` and the wire's position in the codomain. -/
theorem Diagram.followWire_spec {d : Diagram} (hd : d.WF) (i j : Nat) (hi : i < d.boxes.length) :
    ∃ c j' : Nat, (d.followWire i (j : Int)).1 = c ∧ (d.followWire i (j : Int)).2.1 = (j' : Int) ∧
      (d.labels c)[j']? = (d.labels (i+1))[j]? ∧ i < c ∧ c ≤ d.boxes.length ∧
      (c < d.boxes.length → ∃ l, d.layers.boxes[c]? = some l ∧
        l.left.length ≤ j' ∧ j' < l.left.length + l.box.dom.length) := by
  have hb : d.boxes.length = d.layers.boxes.length := by rw [hd.boxes]; simp
  have hch : Chain d.dom d.layers.boxes d.cod := by
    have := hd.chain; rwa [LArrow.WF, hd.ldom, hd.lcod] at this
  have hal : (arityOfLayers d.layers.boxes).length = d.boxes.length := by simp [arityOfLayers, hb]
  obtain ⟨e1, e2⟩ := followWire_eq_trace hd d.boxes.length i j [] []
  obtain ⟨a, b, c, dd⟩ := trace_spec d.dom.length (arityOfLayers d.layers.boxes) (arity_fits hch)
    d.boxes.length i j (by omega) (by omega)
  generalize trace (arityOfLayers d.layers.boxes) d.boxes.length i j = tr at *
  refine ⟨tr.1, tr.2, e1, e2, a, b, by omega, ?_⟩
  intro hc
  obtain ⟨off, m, n, hk, h1, h2⟩ := dd (by omega)
  have hlt : tr.1 < d.layers.boxes.length := by omega
  have hget := List.getElem?_eq_getElem hlt
  rw [arityOfLayers_get hget] at hk
  simp only [Option.some.injEq, Prod.mk.injEq] at hk
  obtain ⟨rfl, rfl, rfl⟩ := hk
  exact ⟨_, hget, h1, h2⟩

end DV
