/-
  Proofs/Special.lean — dagger laws at box level for the special box subclasses
  (Model/Special.lean): identity on objects for every box, involutive on the `Plain` ones,
  refuted on a witness for each excluded family (findings F42a-c).
-/
import Model.Special

namespace DV.Special.SBox
open DV DV.Special

theorem dagW_dom (fx : Bool) (b : SBox) : (b.dagW fx).dom = b.cod := by
  cases b
  case digits ds dim dg => cases dg <;> rfl
  case scalar name re im mixed =>
    simp only [dagW]; split
    · rfl
    · split <;> rfl
  all_goals rfl

theorem dagW_cod (fx : Bool) (b : SBox) : (b.dagW fx).cod = b.dom := by
  cases b
  case digits ds dim dg => cases dg <;> rfl
  case scalar name re im mixed =>
    simp only [dagW]; split
    · rfl
    · split <;> rfl
  all_goals rfl

theorem dag_dom (b : SBox) : b.dag.dom = b.cod := dagW_dom _ b
theorem dag_cod (b : SBox) : b.dag.cod = b.dom := dagW_cod _ b

theorem flipKeepNone_flipKeepNone (o : Option Bool) : flipKeepNone (flipKeepNone o) = o := by
  cases o <;> simp [flipKeepNone]

theorem pyNot_pyNot {o : Option Bool} (h : o ≠ none) : pyNot (pyNot o) = o := by
  cases o <;> simp_all [pyNot]

/-- The code as it is: involutive on the `Plain` boxes. -/
theorem dagW_false_involutive (b : SBox) (h : b.Plain) : (b.dagW false).dagW false = b := by
  cases b <;> simp_all [dagW, Plain, flipKeepNone_flipKeepNone, pyNot_pyNot]
  case scalar name re im mixed =>
    rcases h with h | ⟨h1, h2⟩
    · simp [h]
    · by_cases him : im = 0
      · simp [him]
      · simp [him, h1, h2]

/-- With the patch of notes/finding_F42.diff: involutive on every box. -/
theorem dagW_true_involutive (b : SBox) : (b.dagW true).dagW true = b := by
  cases b <;> simp [dagW, flipKeepNone_flipKeepNone]
  case scalar name re im mixed =>
    by_cases him : im = 0
    · simp [him]
    · simp [him]

theorem dag_dag (b : SBox) (h : f42Fixed = true ∨ b.Plain) : b.dag.dag = b := by
  unfold dag
  cases hf : f42Fixed
  · rcases h with h | h
    · simp [hf] at h
    · exact dagW_false_involutive b h
  · exact dagW_true_involutive b

/-- Dagger keeps the class of boxes the involution theorem is about. -/
theorem dagW_plain (fx : Bool) (b : SBox) (h : b.Plain) : (b.dagW fx).Plain := by
  cases b <;> simp_all [dagW, Plain]
  case cbox name dom cod data dg => cases dg <;> cases fx <;> simp_all [pyNot, flipKeepNone]
  case scalar name re im mixed =>
    by_cases him : im = 0
    · simp [him]
    · cases fx <;> simp_all

theorem dag_plain (b : SBox) (h : b.Plain) : b.dag.Plain := dagW_plain _ b h

/-! Refutations outside `Plain`, for the code as it is (`dagW false`) -/

/-- F42b: `circuit.Box('m', bit, bit, _dagger=None)[::-1][::-1]` has `_dagger=False`. -/
theorem not_dag_dag_cbox_none :
    ((cbox "'m'" [bit] [bit] "-" none).dagW false).dagW false ≠ cbox "'m'" [bit] [bit] "-" none := by
  decide

/-- F42c: `QuantumGate('W', 1, …, data=0.5)[::-1][::-1]` has lost its data. -/
theorem not_dag_dag_quantumGate_data :
    ((quantumGate "'W'" 1 "0.5" (some false)).dagW false).dagW false
      ≠ quantumGate "'W'" 1 "0.5" (some false) := by decide

/-- F42a: `Scalar(1j, name='foo')[::-1][::-1]` is called 'scalar'. -/
theorem not_dag_dag_scalar_named :
    ((scalar "'foo'" 0 1 false).dagW false).dagW false ≠ scalar "'foo'" 0 1 false := by decide

end DV.Special.SBox
