/-
  Proofs/TkBasic.lean — list, post-selection and post-processing lemmas for C13.
-/
import Model.TkSpec

namespace DV.Tk
open DV

/-! ### lists -/

theorem insertAt_map {α β} (f : α → β) (xs : List α) (off : Nat) (new : List α) :
    (insertAt xs off new).map f = insertAt (xs.map f) off (new.map f) := by
  simp [insertAt, List.map_take, List.map_drop]

theorem removeAt_map {α β} (f : α → β) (xs : List α) (off n : Nat) :
    (removeAt xs off n).map f = removeAt (xs.map f) off n := by
  simp [removeAt, List.map_take, List.map_drop]

theorem removeRegs_eq (xs : List Nat) (off n : Nat) : removeRegs xs off n = removeAt xs off n := rfl

theorem swapAt_map {α β} (f : α → β) (xs : List α) (off : Nat) :
    (swapAt xs off).map f = swapAt (xs.map f) off := by
  simp [swapAt, List.map_take, List.map_drop, List.map_reverse]

theorem mem_insertAt {α} {xs : List α} {off : Nat} {new : List α} {x : α}
    (h : x ∈ insertAt xs off new) : x ∈ xs ∨ x ∈ new := by
  simp only [insertAt, List.mem_append] at h
  rcases h with (h | h) | h
  · exact .inl (List.mem_of_mem_take h)
  · exact .inr h
  · exact .inl (List.mem_of_mem_drop h)

theorem mem_removeAt {α} {xs : List α} {off n : Nat} {x : α} (h : x ∈ removeAt xs off n) : x ∈ xs := by
  simp only [removeAt, List.mem_append] at h
  rcases h with h | h
  · exact List.mem_of_mem_take h
  · exact List.mem_of_mem_drop h

theorem mem_swapAt {α} {xs : List α} {off : Nat} {x : α} (h : x ∈ swapAt xs off) : x ∈ xs := by
  simp only [swapAt, List.mem_append, List.mem_reverse] at h
  rcases h with (h | h) | h
  · exact List.mem_of_mem_take h
  · exact List.mem_of_mem_drop (List.mem_of_mem_take h)
  · exact List.mem_of_mem_drop h

/-- A list with two consecutive known entries. -/
theorem split_two {α} {xs : List α} {k : Nat} {x y : α} (hx : xs[k]? = some x) (hy : xs[k+1]? = some y) :
    xs = xs.take k ++ [x, y] ++ xs.drop (k + 2) := by
  have hk : k + 1 < xs.length := by
    rcases Nat.lt_or_ge (k+1) xs.length with h | h
    · exact h
    · rw [List.getElem?_eq_none h] at hy; cases hy
  have e1 : xs.drop k = x :: xs.drop (k+1) := by
    rw [List.drop_eq_getElem_cons (by omega)]
    congr 1
    have := List.getElem?_eq_getElem (l := xs) (i := k) (by omega)
    rw [this] at hx; exact Option.some.inj hx
  have e2 : xs.drop (k+1) = y :: xs.drop (k+2) := by
    rw [List.drop_eq_getElem_cons hk]
    congr 1
    have := List.getElem?_eq_getElem (l := xs) (i := k+1) hk
    rw [this] at hy; exact Option.some.inj hy
  calc xs = xs.take k ++ xs.drop k := (List.take_append_drop k xs).symm
    _ = xs.take k ++ [x, y] ++ xs.drop (k+2) := by rw [e1, e2]; simp

theorem swapAt_split {α} (pre post : List α) (x y : α) :
    swapAt (pre ++ [x, y] ++ post) pre.length = pre ++ [y, x] ++ post := by
  simp [swapAt, List.take_append, List.drop_append]

theorem take_length_le {α} {xs : List α} {k : Nat} (h : k ≤ xs.length) : (xs.take k).length = k := by
  simp [List.length_take]; omega

/-! ### post-selection dictionaries -/

theorem PS.has_eq_isSome (ps : PS) (k : Nat) : ps.has k = (ps.get k).isSome := by
  induction ps with
  | nil => rfl
  | cons e t ih =>
    simp only [PS.has, PS.get, List.any_cons, List.find?_cons] at *
    by_cases h : e.1 == k <;> simp [h, ih]

theorem PS.get_cons (e : Nat × Nat) (t : PS) (k : Nat) :
    PS.get (e :: t) k = if e.1 = k then some e.2 else PS.get t k := by
  simp only [PS.get, List.find?_cons]
  by_cases h : e.1 = k
  · simp [h]
  · have : (e.1 == k) = false := by simpa using h
    simp [h, this]

theorem PS.has_cons (e : Nat × Nat) (t : PS) (k : Nat) :
    PS.has (e :: t) k = (decide (e.1 = k) || PS.has t k) := by
  simp only [PS.has, List.any_cons]
  by_cases h : e.1 = k
  · simp [h]
  · have : (e.1 == k) = false := by simpa using h
    simp [h, this]

theorem PS.get_nil (k : Nat) : PS.get [] k = none := rfl

theorem PS.get_erase (ps : PS) (o k : Nat) : (ps.erase o).get k = if k = o then none else ps.get k := by
  induction ps with
  | nil => simp [PS.erase, PS.get]
  | cons e t ih =>
    simp only [PS.erase, PS.get, List.filter_cons] at *
    by_cases h1 : e.1 = o
    · subst h1
      by_cases h2 : k = e.1
      · subst h2; simpa using ih
      · have : ¬ (e.1 = k) := fun h => h2 h.symm
        simp [this, h2] at *; exact ih
    · by_cases h2 : e.1 = k
      · subst h2; simp [h1]
      · simp [h1, h2] at *; exact ih

theorem PS.get_map_set (ps : PS) (k' v k : Nat) :
    PS.get (ps.map (fun e => if e.1 == k' then (k', v) else e)) k =
      if k = k' then (if ps.has k' then some v else none) else ps.get k := by
  induction ps with
  | nil => simp [PS.get, PS.has]
  | cons e t ih =>
    rw [List.map_cons, PS.get_cons, ih, PS.has_cons, PS.get_cons]
    by_cases h1 : e.1 = k' <;> by_cases h2 : k = k'
    · subst h2; simp [h1]
    · have : ¬ (k' = k) := fun h => h2 h.symm
      simp [h1, h2, this]
    · subst h2; simp [h1]
    · simp [h1, h2]

theorem PS.get_append_single (ps : PS) (k' v k : Nat) :
    PS.get (ps ++ [(k', v)]) k = match ps.get k with | some x => some x | none => if k = k' then some v else none := by
  induction ps with
  | nil => simp [PS.get]; by_cases h : k' = k <;> simp [h, eq_comm]
  | cons e t ih =>
    rw [List.cons_append, PS.get_cons, PS.get_cons, ih]
    by_cases h : e.1 = k <;> simp [h]

theorem PS.get_set (ps : PS) (k' v k : Nat) :
    (ps.set k' v).get k = if k = k' then some v else ps.get k := by
  unfold PS.set
  split
  · rename_i hh
    rw [PS.get_map_set]; simp [hh]
  · rename_i hh
    rw [PS.get_append_single]
    have hn : ps.get k' = none := by
      have := PS.has_eq_isSome ps k'
      rw [this] at hh
      cases h : ps.get k' <;> simp_all
    by_cases h2 : k = k'
    · subst h2; simp [hn]
    · simp [h2]; cases ps.get k <;> rfl

theorem PS.has_set (ps : PS) (k' v k : Nat) : (ps.set k' v).has k = (decide (k = k') || ps.has k) := by
  rw [PS.has_eq_isSome, PS.get_set, PS.has_eq_isSome]
  by_cases h : k = k' <;> simp [h]

/-- A renaming none of whose sources is post-selected leaves the dictionary alone. -/
theorem PS.rename_of_not_has (ps : PS) (ren : List (Nat × Nat))
    (h : ∀ r ∈ ren, ps.has r.1 = false) : ps.rename ren = ps := by
  have : ren.filter (fun r => ps.has r.1) = [] := by
    apply List.filter_eq_nil_iff.mpr
    intro r hr; simp [h r hr]
  simp [PS.rename, this]

theorem PS.get_foldl_erase (olds : List (Nat × Nat)) (ps : PS) (k : Nat) :
    (olds.foldl (fun p r => p.erase r.1) ps).get k =
      if k ∈ olds.map (·.1) then none else ps.get k := by
  induction olds generalizing ps with
  | nil => simp
  | cons r t ih =>
    simp only [List.foldl_cons, List.map_cons, List.mem_cons]
    rw [ih, PS.get_erase]
    by_cases h1 : k = r.1 <;> by_cases h2 : k ∈ t.map (·.1) <;> simp [h1, h2]

theorem PS.get_foldl_set (kvs : List (Nat × Nat)) (p : PS) (k : Nat)
    (hnd : (kvs.map (·.1)).Nodup) :
    (kvs.foldl (fun p e => p.set e.1 e.2) p).get k =
      match kvs.find? (·.1 == k) with
      | some e => some e.2
      | none => p.get k := by
  induction kvs generalizing p with
  | nil => simp
  | cons e t ih =>
    simp only [List.map_cons, List.nodup_cons] at hnd
    simp only [List.foldl_cons, List.find?_cons]
    rw [ih _ hnd.2, PS.get_set]
    by_cases h1 : e.1 = k
    · subst h1
      have : t.find? (·.1 == e.1) = none := by
        apply List.find?_eq_none.mpr
        intro x hx hxe
        apply hnd.1
        simp only [List.mem_map]
        exact ⟨x, hx, by simpa using hxe⟩
      simp [this]
    · have : ¬ (k = e.1) := fun h => h1 h.symm
      have hb : (e.1 == k) = false := by simpa using h1
      simp [this, hb]

/-! ### post-processing circuits on values -/

theorem applyCG_snd_length (cg : List CG) (bw : List BV) (name : String) (i o off : Nat)
    (h : off + i ≤ bw.length) : (applyCG cg bw name i o off).2.length = bw.length - i + o := by
  simp [applyCG, outs, List.length_take, List.length_drop]; omega

theorem swapAt_length {α} (xs : List α) (off : Nat) : (swapAt xs off).length = xs.length := by
  simp [swapAt, List.length_take, List.length_drop]; omega

/-- Width bookkeeping of a list of post-processing layers: every box fits. -/
def fits : Nat → List (PBox × Nat) → Option Nat
  | w, [] => some w
  | w, (b, off) :: rest => if off + b.nin ≤ w then fits (w - b.nin + b.nout) rest else none

theorem fits_append {w : Nat} {l1 l2 : List (PBox × Nat)} {w1 : Nat} (h : fits w l1 = some w1) :
    fits w (l1 ++ l2) = fits w1 l2 := by
  induction l1 generalizing w with
  | nil => simp [fits] at h; subst h; rfl
  | cons a t ih =>
    obtain ⟨b, off⟩ := a
    simp only [fits, List.cons_append] at *
    split at h
    · rename_i hw; simp [hw]; exact ih h
    · cases h

theorem stepRun_suffix (s : List CG × List BV) (l : PBox × Nat) (sfx : List BV)
    (h : l.2 + l.1.nin ≤ s.2.length) :
    PP.stepRun (s.1, s.2 ++ sfx) l = ((PP.stepRun s l).1, (PP.stepRun s l).2 ++ sfx) := by
  obtain ⟨b, off⟩ := l
  cases b with
  | swap =>
    simp only [PBox.nin] at h
    simp only [PP.stepRun, swapAt]
    have h1 : off ≤ s.2.length := by omega
    have h2 : off + 2 ≤ s.2.length := h
    congr 1
    rw [List.take_append_of_le_length h1, List.drop_append_of_le_length h1,
        List.drop_append_of_le_length h2]
    have : (List.drop off s.2 ++ sfx).take 2 = (List.drop off s.2).take 2 := by
      apply List.take_append_of_le_length
      simp [List.length_drop]; omega
    rw [this]; simp
  | gate name i o =>
    simp only [PBox.nin] at h
    simp only [PP.stepRun, applyCG]
    have h1 : off ≤ s.2.length := by omega
    congr 1
    · have : (List.drop off (s.2 ++ sfx)).take i = (List.drop off s.2).take i := by
        rw [List.drop_append_of_le_length h1]
        apply List.take_append_of_le_length
        simp [List.length_drop]; omega
      rw [this]
    · rw [List.take_append_of_le_length h1, List.drop_append_of_le_length h]; simp

theorem stepRun_length (s : List CG × List BV) (l : PBox × Nat) (h : l.2 + l.1.nin ≤ s.2.length) :
    (PP.stepRun s l).2.length = s.2.length - l.1.nin + l.1.nout := by
  obtain ⟨b, off⟩ := l
  cases b with
  | swap => simp [PP.stepRun, swapAt_length, PBox.nin, PBox.nout] at *; omega
  | gate name i o => simp only [PP.stepRun, PBox.nin, PBox.nout] at *; exact applyCG_snd_length _ _ _ _ _ _ h

/-- Running layers that fit in width `|s.2|` ignores any further wires on the right. -/
theorem foldl_stepRun_suffix (layers : List (PBox × Nat)) (s : List CG × List BV) (sfx : List BV)
    (w : Nat) (hfit : fits s.2.length layers = some w) :
    layers.foldl PP.stepRun (s.1, s.2 ++ sfx) =
      ((layers.foldl PP.stepRun s).1, (layers.foldl PP.stepRun s).2 ++ sfx) ∧
    (layers.foldl PP.stepRun s).2.length = w := by
  induction layers generalizing s with
  | nil => simp [fits] at hfit; simp [hfit]
  | cons l t ih =>
    obtain ⟨b, off⟩ := l
    simp only [fits] at hfit
    split at hfit
    · rename_i hw
      simp only [List.foldl_cons]
      rw [stepRun_suffix s (b, off) sfx hw]
      have hl := stepRun_length s (b, off) hw
      simp only at hl
      exact ih (PP.stepRun s (b, off)) (by rw [hl]; exact hfit)
    · cases hfit

/-- The swaps of `add_bit` bring the new wire (just right of `pre`) to position `k`. -/
theorem foldl_moveSwaps (k : Nat) (pre : List BV) (x : BV) (sfx : List BV) (cg : List CG)
    (hk : k ≤ pre.length) :
    (moveSwaps k pre.length).foldl PP.stepRun (cg, pre ++ [x] ++ sfx) =
      (cg, pre.take k ++ [x] ++ pre.drop k ++ sfx) := by
  induction hp : pre.length generalizing pre sfx with
  | zero =>
    have : pre = [] := List.length_eq_zero_iff.mp hp
    subst this; simp [moveSwaps]
  | succ m ih =>
    obtain ⟨pre', y, rfl⟩ : ∃ pre' y, pre = pre' ++ [y] := by
      rcases List.eq_nil_or_concat pre with h | ⟨p, y, h⟩
      · subst h; simp at hp
      · exact ⟨p, y, by simpa using h⟩
    have hm : pre'.length = m := by simpa using hp
    simp only [moveSwaps]
    split
    · rename_i hkm
      simp only [List.foldl_cons, PP.stepRun]
      have e : swapAt (pre' ++ [y] ++ [x] ++ sfx) m = pre' ++ [x] ++ (y :: sfx) := by
        have := swapAt_split pre' sfx y x
        rw [hm] at this
        simpa using this
      rw [e, ih pre' (y :: sfx) (by omega) hm]
      have h1 : (pre' ++ [y]).take k = pre'.take k := by
        apply List.take_append_of_le_length; omega
      have h2 : (pre' ++ [y]).drop k = pre'.drop k ++ [y] := by
        apply List.drop_append_of_le_length; omega
      rw [h1, h2]; simp
    · rename_i hkm
      have hk' : k = m + 1 := by simp at hk; omega
      subst hk'
      have h1 : (pre' ++ [y]).take (m+1) = pre' ++ [y] := by
        apply List.take_of_length_le; simp; omega
      have h2 : (pre' ++ [y]).drop (m+1) = [] := by
        apply List.drop_of_length_le; simp; omega
      simp [h1, h2]

theorem moveSwaps_nil {k m : Nat} (h : moveSwaps k m = []) : m ≤ k := by
  cases m with
  | zero => exact Nat.zero_le _
  | succ m =>
    simp only [moveSwaps] at h
    split at h
    · cases h
    · omega

theorem fits_moveSwaps (k m : Nat) (w : Nat) (hw : m + 1 ≤ w) : fits w (moveSwaps k m) = some w := by
  induction m with
  | zero => simp [moveSwaps, fits]
  | succ m ih =>
    simp only [moveSwaps]
    split
    · simp only [fits, PBox.nin, PBox.nout]
      have : m + 2 ≤ w := by omega
      simp [this]
      have : w - 2 + 2 = w := by omega
      rw [this]; exact ih (by omega)
    · rfl

theorem fits_succ {w c : Nat} {l : List (PBox × Nat)} (h : fits w l = some c) :
    fits (w + 1) l = some (c + 1) := by
  induction l generalizing w with
  | nil => simp [fits] at *; omega
  | cons a t ih =>
    obtain ⟨b, off⟩ := a
    simp only [fits] at *
    split at h
    · rename_i hw
      have : off + b.nin ≤ w + 1 := by omega
      simp only [this, ↓reduceIte]
      have e : w + 1 - b.nin + b.nout = (w - b.nin + b.nout) + 1 := by omega
      rw [e]; exact ih h
    · cases h

/-- Well-formed post-processing: its layers fit, from `dom` to `cod`. -/
def PP.WF (pp : PP) : Prop := fits pp.dom pp.layers = some pp.cod

/-- `add_bit(unit, offset)`: the result of the old circuit with the new input inserted at `offset`. -/
theorem PP.addWire_run {pp pp' : PP} {k : Nat} (hwf : pp.WF) (h : pp.addWire k = .ok pp')
    (ws : List BV) (x : BV) (hws : ws.length = pp.dom) :
    pp'.run (ws ++ [x]) = ((pp.run ws).1, insertAt (pp.run ws).2 k [x]) ∧ pp'.WF ∧
      pp'.dom = pp.dom + 1 ∧ pp'.cod = pp.cod + 1 ∧ (pp.run ws).2.length = pp.cod ∧ k ≤ pp.cod ∧
      (pp'.layers = [] → pp.layers = [] ∧ pp.cod ≤ k) := by
  unfold PP.addWire at h
  split at h
  · cases h
  · rename_i hk
    cases h
    have hfit : fits (([] : List CG), ws).2.length pp.layers = some pp.cod := by
      unfold PP.WF at hwf; simpa [hws] using hwf
    obtain ⟨hrun, hlen⟩ := foldl_stepRun_suffix pp.layers ([], ws) [x] pp.cod hfit
    refine ⟨?_, ?_, rfl, rfl, hlen, by omega, fun hl => ⟨(List.append_eq_nil_iff.mp hl).1, moveSwaps_nil (List.append_eq_nil_iff.mp hl).2⟩⟩
    · simp only [PP.run, List.foldl_append]
      rw [hrun]
      have hk' : k ≤ (List.foldl PP.stepRun ([], ws) pp.layers).2.length := by rw [hlen]; omega
      have := foldl_moveSwaps k (List.foldl PP.stepRun ([], ws) pp.layers).2 x []
        (List.foldl PP.stepRun ([], ws) pp.layers).1 hk'
      rw [hlen] at this
      simp only [List.append_nil] at this
      rw [this]; simp [insertAt]
    · unfold PP.WF at *
      simp only
      have h1 : fits (pp.dom + 1) pp.layers = some (pp.cod + 1) := fits_succ hwf
      rw [fits_append h1]
      exact fits_moveSwaps k pp.cod (pp.cod + 1) (by omega)

/-- `post_process` with one box. -/
theorem PP.post_run {pp pp' : PP} {box : PBox} {off : Nat} (hwf : pp.WF) (h : pp.post box off = .ok pp')
    (ws : List BV) (hws : ws.length = pp.dom) :
    pp'.run ws = PP.stepRun (pp.run ws) (box, off) ∧ pp'.WF ∧ pp'.dom = pp.dom ∧
      pp'.cod = pp.cod - box.nin + box.nout ∧ off + box.nin ≤ pp.cod ∧ (pp.run ws).2.length = pp.cod := by
  unfold PP.post at h
  split at h
  · cases h
  · rename_i hk
    cases h
    have hfit : fits (([] : List CG), ws).2.length pp.layers = some pp.cod := by
      unfold PP.WF at hwf; simpa [hws] using hwf
    obtain ⟨_, hlen⟩ := foldl_stepRun_suffix pp.layers ([], ws) [] pp.cod hfit
    refine ⟨by simp [PP.run, List.foldl_append], ?_, rfl, rfl, by omega, hlen⟩
    unfold PP.WF at *
    simp only
    rw [fits_append hwf]
    have : off + box.nin ≤ pp.cod := by omega
    simp [fits, this]

end DV.Tk
