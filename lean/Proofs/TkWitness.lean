/-
  Proofs/TkWitness.lean — C13: outside the fragment `toTk` does NOT refine `canon`.
  One concrete circuit per excluding condition of `violation`; each is a finding on /repo
  (the same circuits are replayed on the real code by harness/props/c13.py).  The witnesses of
  the conditions removed by the fix commits F11, F26, F28 (Measure left of a bit, destructive
  override Measure, bit swap while bit 0 is post-selected) are gone with them: those circuits are
  inside the fragment now (examples in Props/C13.lean).
-/
import Proofs.Tk

namespace DV.Tk
open DV

/-- The full statement (false for the code as it is): every successful export refines the
    specification. -/
def ToTkRefines : Prop :=
  ∀ (c : Circ) (st : St), toTk c = .ok st →
    ∃ sp ρq ρb dreg, canon c = .ok sp ∧ Refines sp st ρq ρb dreg

/-- … and the export succeeds whenever the specification is defined. -/
def ToTkTotal : Prop := ∀ (c : Circ) (sp : Sp), canon c = .ok sp → ∃ st, toTk c = .ok st

def isOk {α} : Except Err α → Bool
  | .ok _ => true
  | .error _ => false

theorem exists_of_isOk {α} {x : Except Err α} (h : isOk x = true) : ∃ a, x = .ok a := by
  cases x with
  | ok a => exact ⟨a, rfl⟩
  | error e => cases h

def NotRefined (c : Circ) : Prop :=
  ∃ st, toTk c = .ok st ∧ ¬ ∃ sp ρq ρb dreg, canon c = .ok sp ∧ Refines sp st ρq ρb dreg

/-! ### Bits(0) to the left of an existing (non-post-selected) bit register
    `Ket(1) >> Measure() >> Bits(0) @ Id(bit)` -/

def wBits : Circ := ⟨[], [(.ket [1], 0), (.measure 1 true false, 0), (.bits [0] false, 0)]⟩

theorem wBits_violation : wBits.firstViolation = some ("bits_left_of_bit", 3) := by decide

theorem wBits_toTk : toTk wBits = .ok ⟨1, 2, [], [0, 1],
    [⟨"X", none, [0], []⟩, ⟨"Measure", none, [0], [1]⟩],
    [], [], ⟨2, 2, [(.swap, 0)]⟩⟩ := by decide

theorem wBits_canon : canon wBits = .ok ⟨1, 2, [], [.reg 1, .reg 0],
    [⟨"X", none, [0], []⟩, ⟨"Measure", none, [0], [0]⟩],
    [], [], []⟩ := by decide

/-- The measured bit was renamed to register 1 *and* the post-processing swaps: the measured
    value comes out first, the diagram has it second. -/
theorem wBits_not_refined : NotRefined wBits := by
  refine ⟨_, wBits_toTk, ?_⟩
  rintro ⟨sp, ρq, ρb, dreg, hsp, R⟩
  rw [wBits_canon] at hsp
  cases hsp
  have hc := R.cmds
  simp only [List.map_cons, List.map_nil, Cmd.map, List.cons.injEq, Cmd.mk.injEq, and_true,
    true_and] at hc
  have hpp := R.pp
  have hs := R.readout.1
  have hm := R.readout.2
  match dreg, hpp with
  | [a, b], hpp =>
    simp only [PP.run, List.foldl_cons, List.foldl_nil, PP.stepRun, swapAt, List.map_cons, List.map_nil,
      BV.map, Prod.mk.injEq, true_and] at hpp
    simp only [List.take_zero, List.drop_zero, List.nil_append, List.take, List.reverse_cons,
      List.reverse_nil, List.drop, List.cons_append, List.append_nil, List.cons.injEq, BV.reg.injEq,
      and_true] at hpp
    simp only [List.pairwise_cons, List.mem_cons, List.mem_nil_iff, or_false, forall_eq] at hs
    have hb := (hm b).mp (by simp)
    simp only at hb
    omega
  | [], hpp => simp [PP.run, PP.stepRun, swapAt] at hpp
  | [a], hpp => simp [PP.run, PP.stepRun, swapAt] at hpp
  | a :: b :: c :: t, hpp => simp [PP.run, PP.stepRun, swapAt] at hpp

theorem not_toTkRefines : ¬ ToTkRefines := by
  intro h
  obtain ⟨st, hst, hn⟩ := wBits_not_refined
  exact hn (h wBits st hst)

/-! ### Discard of a bit
    `Ket(1, 0) >> Measure(2) >> Discard(bit) @ Id(bit)` -/

def wDiscard : Circ := ⟨[], [(.ket [1, 0], 0), (.measure 2 true false, 0), (.discard [.b], 0)]⟩

theorem wDiscard_violation : wDiscard.firstViolation = some ("discard_bit", 3) := by decide

theorem wDiscard_toTk : toTk wDiscard = .ok ⟨2, 2, [], [1],
    [⟨"X", none, [0], []⟩, ⟨"Measure", none, [0], [0]⟩, ⟨"Measure", none, [1], [1]⟩],
    [], [], ⟨2, 2, []⟩⟩ := by decide

theorem wDiscard_canon : canon wDiscard = .ok ⟨2, 2, [], [.reg 1],
    [⟨"X", none, [0], []⟩, ⟨"Measure", none, [0], [0]⟩, ⟨"Measure", none, [1], [1]⟩],
    [], [], []⟩ := by decide

/-- The export still delivers two output bits; the diagram has one. -/
theorem wDiscard_not_refined : NotRefined wDiscard := by
  refine ⟨_, wDiscard_toTk, ?_⟩
  rintro ⟨sp, ρq, ρb, dreg, hsp, R⟩
  rw [wDiscard_canon] at hsp
  cases hsp
  have hpp := R.pp
  have hd := R.ppdom
  simp only [PP.run, List.foldl_nil, List.map_cons, List.map_nil, Prod.mk.injEq, true_and] at hpp
  have := congrArg List.length hpp
  simp only [List.length_map, List.length_cons, List.length_nil] at this
  simp only at hd
  omega

/-! ### a classical box that changes the number of bit wires, then Bits: the export raises
    `Bits(0) >> FAN >> Id(bit @ bit) @ Bits(0)`  (`bits` still has one entry for two bit wires) -/

def wStale : Circ := ⟨[], [(.bits [0] false, 0), (.cgate "FAN" 1 2, 0), (.bits [0] false, 2)]⟩

theorem wStale_toTk : toTk wStale = .error .index := by decide

theorem wStale_canon : ∃ sp, canon wStale = .ok sp := exists_of_isOk (by decide)

/-! ### … or silently reads the wrong register
    `Ket(1, 0) >> Measure(2) >> XOR >> Id(bit) @ Bits(0)`  (`bits` still has two entries for one wire) -/

def wStaleOrder : Circ := ⟨[], [(.ket [1, 0], 0), (.measure 2 true false, 0), (.cgate "XOR" 2 1, 0),
  (.bits [0] false, 1)]⟩

theorem wStaleOrder_violation : wStaleOrder.firstViolation = some ("stale_bits", 4) := by decide

theorem wStaleOrder_toTk : toTk wStaleOrder = .ok ⟨2, 3, [], [0, 1, 2],
    [⟨"X", none, [0], []⟩, ⟨"Measure", none, [0], [0]⟩, ⟨"Measure", none, [1], [2]⟩],
    [], [], ⟨3, 2, [(.gate "XOR" 2 1, 0)]⟩⟩ := by decide

theorem wStaleOrder_canon : canon wStaleOrder = .ok ⟨2, 3, [], [.out 0 0, .reg 2],
    [⟨"X", none, [0], []⟩, ⟨"Measure", none, [0], [0]⟩, ⟨"Measure", none, [1], [1]⟩],
    [], [], [("XOR", [.reg 0, .reg 1])]⟩ := by decide

/-- The second measured bit was renamed to register 2 and the blank bit took register 1: XOR now
    reads the blank bit, and the measured bit comes out where the blank one should. -/
theorem wStaleOrder_not_refined : NotRefined wStaleOrder := by
  refine ⟨_, wStaleOrder_toTk, ?_⟩
  rintro ⟨sp, ρq, ρb, dreg, hsp, R⟩
  rw [wStaleOrder_canon] at hsp
  cases hsp
  have hc := R.cmds
  simp only [List.map_cons, List.map_nil, Cmd.map, List.cons.injEq, Cmd.mk.injEq, and_true,
    true_and] at hc
  have hpp := R.pp
  have hs := R.readout.1
  have hm := R.readout.2
  have hd := R.ppdom
  match dreg, hpp, hd with
  | [a, b, c], hpp, _ =>
    simp only [PP.run, List.foldl_cons, List.foldl_nil, PP.stepRun, applyCG, outs, CG.map, List.map_cons,
      List.map_nil, BV.map, Prod.mk.injEq] at hpp
    simp at hpp
    simp only [List.pairwise_cons, List.mem_cons, List.mem_nil_iff, or_false, forall_eq] at hs
    have hcm := (hm c).mp (by simp)
    simp only at hcm
    omega
  | [], _, hd => simp at hd
  | [a], _, hd => simp at hd
  | [a, b], _, hd => simp at hd
  | a :: b :: c :: d :: t, _, hd => simp at hd

theorem not_toTkTotal : ¬ ToTkTotal := by
  intro h
  obtain ⟨sp, hsp⟩ := wStale_canon
  obtain ⟨st, hst⟩ := h wStale sp hsp
  rw [wStale_toTk] at hst
  cases hst

/-! ### Measure(override_bits=True) after classical post-processing: the bit wire to overwrite is
    an output of a classical box, there is no register to name
    `Ket(0, 0, 1) >> Measure() @ Measure() @ Id(1) >> NOT @ Id(bit @ qubit) >> Swap(bit, bit) @ Id(1)
       >> Id(bit) @ Swap(bit, qubit) >> Id(bit) @ Measure(1, destructive=False, override_bits=True)` -/

def wOverridePP : Circ := ⟨[], [(.ket [0, 0, 1], 0), (.measure 1 true false, 0), (.measure 1 true false, 1),
  (.cgate "NOT" 1 1, 0), (.swap .b .b, 0), (.swap .b .q, 1), (.measure 1 false true, 1)]⟩

theorem wOverridePP_violation : wOverridePP.firstViolation = some ("override_after_pp", 7) := by decide

theorem wOverridePP_exported : ∃ st, toTk wOverridePP = .ok st := exists_of_isOk (by decide)

theorem wOverridePP_canon : canon wOverridePP = .error .notImpl := by decide

end DV.Tk
