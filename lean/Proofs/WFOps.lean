/-
  Proofs/WFOps.lean — well-typedness of the public constructor, interchange,
  normal forms, swaps, permutations, cups, caps; closure over the op language.
-/
import Proofs.WF

namespace DV

/-! ### pySlice facts -/

theorem pyIdx_nat (n i : Nat) : pyIdx n (i : Int) = min i n := by
  unfold pyIdx
  have : ¬ ((i : Int) < 0) := by omega
  simp [this]

theorem pySlice_take {α} (xs : List α) (i : Nat) : pySlice xs none (some (i : Int)) = xs.take i := by
  simp [pySlice, pyLo, pyHi, pyIdx_nat, List.take_eq_take_iff]

theorem pySlice_drop {α} (xs : List α) (i : Nat) : pySlice xs (some (i : Int)) none = xs.drop i := by
  simp only [pySlice, pyLo, pyHi, pyIdx_nat]
  by_cases h : i ≤ xs.length
  · rw [Nat.min_eq_left h]
    apply List.take_of_length_le; simp
  · have h' : xs.length ≤ i := by omega
    rw [Nat.min_eq_right h']
    simp [List.drop_eq_nil_of_le h']

theorem pySlice_drop2 {α} (xs : List α) (i : Nat) :
    pySlice xs (some ((i : Int) + 2)) none = xs.drop (i + 2) := by
  have := pySlice_drop xs (i + 2)
  simpa using this

theorem pySlice_map {α β} (f : α → β) (xs : List α) (a b : Option Int) :
    pySlice (xs.map f) a b = (pySlice xs a b).map f := by
  simp [pySlice, List.map_take, List.map_drop]

/-! ### The scanning constructor -/

theorem scanLayers_spec {ls r : LArrow} {bs : List Box} {os : List Int}
    (hlen : bs.length = os.length) (hw : ls.WF) (h : scanLayers ls bs os = .ok r) :
    r.WF ∧ r.dom = ls.dom ∧ ∃ new, r.boxes = ls.boxes ++ new ∧ new.map (·.box) = bs ∧
      new.map (fun l => (l.left.length : Int)) = os := by
  induction bs generalizing ls os with
  | nil =>
    cases os with
    | nil => simp [scanLayers] at h; subst h; exact ⟨hw, rfl, [], by simp⟩
    | cons o os => simp at hlen
  | cons b bs ih =>
    cases os with
    | nil => simp at hlen
    | cons o os =>
      simp only [scanLayers] at h
      split at h
      · cases h
      · rename_i hoff
        split at h
        · cases h
        · rename_i ls' hls'
          have hw' : ls'.WF := LArrow.then_wf hw (Layer.arrow_wf _) hls'
          obtain ⟨_, rfl⟩ := LArrow.then_ok hls'
          obtain ⟨h1, h2, new, h3, h4, h5⟩ := ih (by simpa using hlen) hw' h
          refine ⟨h1, h2, (⟨pySlice ls.cod none (some o), b,
            pySlice ls.cod (some (o + ↑(List.length b.dom))) none⟩ : Layer) :: new, ?_, ?_, ?_⟩
          · simp [h3, Layer.arrow]
          · simp [h4]
          · simp only [ne_eq, Decidable.not_not] at hoff
            simp [h5, hoff]

theorem Diagram.mk?_ok {dom cod : Ty} {bs : List Box} {os : List Int} {d : Diagram}
    (h : Diagram.mk? dom cod bs os = .ok d) :
    d.WF ∧ d.dom = dom ∧ d.cod = cod ∧ d.boxes = bs ∧ d.offsets = os := by
  unfold Diagram.mk? at h
  split at h
  · cases h
  · rename_i hlen
    simp only [ne_eq, Decidable.not_not] at hlen
    split at h
    · cases h
    · rename_i ls hls
      split at h
      · cases h
      · rename_i ls' hls'
        cases h
        obtain ⟨h1, h2, new, h3, h4, h5⟩ := scanLayers_spec hlen (LArrow.id_wf dom) hls
        have hw' := LArrow.then_wf h1 (LArrow.id_wf cod) hls'
        obtain ⟨_, rfl⟩ := LArrow.then_ok hls'
        refine ⟨⟨?_, rfl, ?_, ?_, hw'⟩, rfl, rfl, rfl, rfl⟩
        · simpa [LArrow.id] using h2
        · simp [h3, LArrow.id, h4]
        · simp [h3, LArrow.id, h5]

theorem Diagram.mk?_wf {dom cod : Ty} {bs : List Box} {os : List Int} {d : Diagram}
    (h : Diagram.mk? dom cod bs os = .ok d) : d.WF := (Diagram.mk?_ok h).1

end DV

namespace DV

/-! ### Prefix / suffix slices of the layer arrow -/

theorem chain_head_dom {s c : Ty} {x : Layer} {xs : List Layer} (h : Chain s (x :: xs) c) :
    s = x.dom := h.1

theorem LArrow.slice_prefix {a pre : LArrow} {i : Nat} (ha : a.WF) (hi : i < a.boxes.length)
    (h : a.slice none (some (i : Int)) = .ok pre) :
    pre.WF ∧ pre.dom = a.dom ∧ pre.boxes = a.boxes.take i := by
  have hw := LArrow.slice_wf _ _ ha h
  refine ⟨hw, ?_, ?_⟩
  · unfold LArrow.slice at h
    rw [pySlice_take] at h
    split at h
    · rename_i hnil
      unfold LArrow.sliceEmpty at h
      have h0 : ¬ ((0 : Int) ≥ (a.boxes.length : Int)) := by omega
      have h1 : ¬ ((0 : Int) ≤ -(a.boxes.length : Int)) := by omega
      simp only [Option.getD_none, h0, h1, if_false] at h
      cases hb : a.boxes with
      | nil => simp [hb] at hi
      | cons b bs =>
        have hc : Chain a.dom (b :: bs) a.cod := by rw [← hb]; exact ha
        simp [hb, pyGet?] at h
        subst h
        simp [LArrow.id, hc.1]
    · rename_i b bs hb
      cases h
      have : ∃ rest, a.boxes = b :: rest := by
        cases hbx : a.boxes with
        | nil => simp [hbx] at hb
        | cons x xs =>
          cases i with
          | zero => simp at hb
          | succ i => simp [hbx] at hb; exact ⟨xs, by rw [hb.1]⟩
      obtain ⟨rest, hrest⟩ := this
      have hc : Chain a.dom (b :: rest) a.cod := by rw [← hrest]; exact ha
      exact hc.1.symm
  · unfold LArrow.slice at h
    rw [pySlice_take] at h
    split at h
    · rename_i hnil
      unfold LArrow.sliceEmpty at h
      split at h
      · cases h; simp [LArrow.id, hnil]
      · split at h
        · cases h; simp [LArrow.id, hnil]
        · split at h
          · cases h; simp [LArrow.id, hnil]
          · cases h
    · rename_i b bs hb; cases h; exact hb.symm

theorem LArrow.slice_suffix {a post : LArrow} {k : Nat} (ha : a.WF) (hk : k ≤ a.boxes.length)
    (_hk0 : 0 < k) (h : a.slice (some (k : Int)) none = .ok post) :
    post.WF ∧ post.cod = a.cod ∧ post.boxes = a.boxes.drop k := by
  have hw := LArrow.slice_wf _ _ ha h
  refine ⟨hw, ?_, ?_⟩
  · unfold LArrow.slice at h
    rw [pySlice_drop] at h
    split at h
    · rename_i hnil
      unfold LArrow.sliceEmpty at h
      have hlen : a.boxes.length ≤ k := by
        have := congrArg List.length hnil
        simp at this; omega
      have h0 : ((k : Int) ≥ (a.boxes.length : Int)) := by omega
      simp only [Option.getD_some, h0, if_true] at h
      cases h; rfl
    · rename_i b bs hb
      cases h
      obtain ⟨s', hc⟩ := chain_drop k ha
      rw [hb] at hc
      exact (chain_cons_last hc).2
  · unfold LArrow.slice at h
    rw [pySlice_drop] at h
    split at h
    · rename_i hnil
      unfold LArrow.sliceEmpty at h
      split at h
      · cases h; simp [LArrow.id, hnil]
      · split at h
        · cases h; simp [LArrow.id, hnil]
        · split at h
          · cases h; simp [LArrow.id, hnil]
          · cases h
    · rename_i b bs hb; cases h; exact hb.symm

/-! ### interchange -/

theorem pySlice_drop_length {α} (xs : List α) (k : Nat) :
    (pySlice xs (some (k : Int)) none).length = xs.length - k := by
  rw [pySlice_drop]; simp

theorem interchangeChoice_offsets {left : Bool} {off0 off1 o0 o1 : Int} {l0 l1 y0 y1 : Layer}
    (h0 : off0 = l0.left.length) (h1 : off1 = l1.left.length)
    (h : interchangeChoice left off0 off1 l0 l1 = .ok (o0, o1, y0, y1)) :
    o0 = y0.left.length ∧ o1 = y1.left.length ∧ y0.box = l0.box ∧ y1.box = l1.box := by
  have hL : off1 ≥ off0 + l0.box.cod.length → leftCase off0 off1 l0 l1 = (o0, o1, y0, y1) →
      o0 = y0.left.length ∧ o1 = y1.left.length ∧ y0.box = l0.box ∧ y1.box = l1.box := by
    intro hc he
    simp only [leftCase, Prod.mk.injEq] at he
    obtain ⟨e0, e1, e2, e3⟩ := he
    subst e0 e1 e2 e3
    refine ⟨h0, ?_, rfl, rfl⟩
    simp only [List.length_append, pySlice_drop_length]
    subst h0 h1
    omega
  have hR : off0 ≥ off1 + l1.box.dom.length → rightCase off0 off1 l0 l1 = (o0, o1, y0, y1) →
      o0 = y0.left.length ∧ o1 = y1.left.length ∧ y0.box = l0.box ∧ y1.box = l1.box := by
    intro hc he
    simp only [rightCase, Prod.mk.injEq] at he
    obtain ⟨e0, e1, e2, e3⟩ := he
    subst e0 e1 e2 e3
    refine ⟨?_, h1, rfl, rfl⟩
    simp only [List.length_append, pySlice_drop_length]
    subst h0 h1
    omega
  unfold interchangeChoice at h
  split at h
  · rename_i hc
    simp only [Bool.and_eq_true, decide_eq_true_eq] at hc
    exact hL hc.2 (by cases h; rfl)
  · split at h
    · rename_i hc; exact hR hc (by cases h; rfl)
    · split at h
      · rename_i hc; exact hL hc (by cases h; rfl)
      · cases h

theorem Diagram.splice_wf {d d' : Diagram} {i : Nat} {o0 o1 : Int} {y0 y1 : Layer}
    (hd : d.WF) (hi : i + 1 < d.layers.boxes.length)
    (h0 : o0 = y0.left.length) (h1 : o1 = y1.left.length)
    (h : d.splice i o0 o1 y0 y1 = .ok d') :
    d'.WF ∧ d'.dom = d.dom ∧ d'.cod = d.cod ∧
      d'.layers.boxes = d.layers.boxes.take i ++ [y1, y0] ++ d.layers.boxes.drop (i + 2) := by
  unfold Diagram.splice at h
  split at h
  · cases h
  · rename_i pre hpre
    split at h
    · cases h
    · rename_i a1 ha1
      split at h
      · cases h
      · rename_i a2 ha2
        split at h
        · cases h
        · rename_i post hpost
          split at h
          · cases h
          · rename_i ls hls
            cases h
            obtain ⟨pw, pdom, pboxes⟩ := LArrow.slice_prefix hd.chain (by omega) hpre
            obtain ⟨qw, qcod, qboxes⟩ := LArrow.slice_suffix hd.chain (by omega) (by omega) hpost
            have w1 := LArrow.then_wf pw (Layer.arrow_wf _) ha1
            obtain ⟨_, rfl⟩ := LArrow.then_ok ha1
            have w2 := LArrow.then_wf w1 (Layer.arrow_wf _) ha2
            obtain ⟨_, rfl⟩ := LArrow.then_ok ha2
            have w3 := LArrow.then_wf w2 qw hls
            obtain ⟨_, rfl⟩ := LArrow.then_ok hls
            refine ⟨⟨?_, ?_, ?_, ?_, w3⟩, rfl, rfl, ?_⟩
            · simp [pdom, hd.ldom]
            · simp [qcod, hd.lcod]
            · simp [pboxes, qboxes, Layer.arrow, hd.boxes, pySlice_take, pySlice_drop2,
                List.map_take, List.map_drop]
            · simp [pboxes, qboxes, Layer.arrow, hd.offsets, pySlice_take, pySlice_drop2,
                List.map_take, List.map_drop, h0, h1]
            · simp [pboxes, qboxes, Layer.arrow]

theorem Diagram.interchangeAdj_wf {d d' : Diagram} {i : Nat} {left : Bool} (hd : d.WF)
    (h : d.interchangeAdj i left = .ok d') :
    d'.WF ∧ d'.dom = d.dom ∧ d'.cod = d.cod := by
  unfold Diagram.interchangeAdj at h
  split at h
  · rename_i off0 off1 l0 l1 e0 e1 e2 e3
    split at h
    · cases h
    · rename_i o0 o1 y0 y1 hch
      have hlen : i + 1 < d.layers.boxes.length := by
        have := List.getElem?_eq_some_iff.mp e3
        exact this.1
      have ho0 : off0 = l0.left.length := by
        have := hd.offsets
        rw [this] at e0
        simp only [List.getElem?_map, e2, Option.map_some] at e0
        exact (Option.some.inj e0).symm
      have ho1 : off1 = l1.left.length := by
        have := hd.offsets
        rw [this] at e1
        simp only [List.getElem?_map, e3, Option.map_some] at e1
        exact (Option.some.inj e1).symm
      obtain ⟨q0, q1, _, _⟩ := interchangeChoice_offsets ho0 ho1 hch
      obtain ⟨w, hdom, hcod, _⟩ := Diagram.splice_wf hd hlen q0 q1 h
      exact ⟨w, hdom, hcod⟩
  · cases h

theorem interchangeDown_wf {left : Bool} {n i : Nat} {d d' : Diagram} (hd : d.WF)
    (h : interchangeDown left n i d = .ok d') : d'.WF ∧ d'.dom = d.dom ∧ d'.cod = d.cod := by
  induction n generalizing i d with
  | zero => simp [interchangeDown] at h; subst h; exact ⟨hd, rfl, rfl⟩
  | succ n ih =>
    simp only [interchangeDown] at h
    split at h
    · cases h
    · rename_i d1 hd1
      obtain ⟨w, e1, e2⟩ := Diagram.interchangeAdj_wf hd hd1
      obtain ⟨w', e1', e2'⟩ := ih w h
      exact ⟨w', e1'.trans e1, e2'.trans e2⟩

theorem interchangeUp_wf {left : Bool} {n i : Nat} {d d' : Diagram} (hd : d.WF)
    (h : interchangeUp left n i d = .ok d') : d'.WF ∧ d'.dom = d.dom ∧ d'.cod = d.cod := by
  induction n generalizing i d with
  | zero => simp [interchangeUp] at h; subst h; exact ⟨hd, rfl, rfl⟩
  | succ n ih =>
    simp only [interchangeUp] at h
    split at h
    · cases h
    · split at h
      · cases h
      · rename_i d1 hd1
        obtain ⟨w, e1, e2⟩ := Diagram.interchangeAdj_wf hd hd1
        obtain ⟨w', e1', e2'⟩ := ih w h
        exact ⟨w', e1'.trans e1, e2'.trans e2⟩

theorem Diagram.interchange_wf {d d' : Diagram} {i j : Int} {left : Bool} (hd : d.WF)
    (h : d.interchange i j left = .ok d') : d'.WF ∧ d'.dom = d.dom ∧ d'.cod = d.cod := by
  unfold Diagram.interchange at h
  split at h
  · cases h
  · split at h
    · cases h; exact ⟨hd, rfl, rfl⟩
    · split at h
      · exact interchangeUp_wf hd h
      · exact interchangeDown_wf hd h

end DV

namespace DV

/-! ### Packaged facts for composite operations -/

theorem Diagram.then_props {a b d : Diagram} (ha : a.WF) (hb : b.WF) (h : a.then b = .ok d) :
    d.WF ∧ d.dom = a.dom ∧ d.cod = b.cod := by
  refine ⟨Diagram.then_wf ha hb h, ?_, ?_⟩
  all_goals (obtain ⟨ls, _, rfl⟩ := Diagram.then_ok h; rfl)

theorem Diagram.tensor_props {a b d : Diagram} (ha : a.WF) (hb : b.WF) (h : a.tensor b = .ok d) :
    d.WF ∧ d.dom = a.dom ++ b.dom ∧ d.cod = a.cod ++ b.cod := by
  refine ⟨Diagram.tensor_wf ha hb h, ?_, ?_⟩
  all_goals (rw [Diagram.tensor_spec ha hb] at h; cases h; rfl)

/-! ### normalize / normal_form -/

theorem normalizePass_wf {left : Bool} {n i : Nat} {d d' : Diagram} {acc steps : List Diagram}
    (hd : d.WF) (hacc : ∀ s ∈ acc, s.WF ∧ s.dom = d.dom ∧ s.cod = d.cod)
    (h : normalizePass left n i d acc = .ok (d', steps)) :
    (d'.WF ∧ d'.dom = d.dom ∧ d'.cod = d.cod) ∧
      ∀ s ∈ steps, s.WF ∧ s.dom = d.dom ∧ s.cod = d.cod := by
  induction n generalizing i d acc with
  | zero =>
    simp only [normalizePass, Except.ok.injEq, Prod.mk.injEq] at h
    obtain ⟨rfl, rfl⟩ := h
    exact ⟨⟨hd, rfl, rfl⟩, hacc⟩
  | succ n ih =>
    simp only [normalizePass] at h
    split at h
    · split at h
      · cases h
      · rename_i d1 hd1
        obtain ⟨w, e1, e2⟩ := Diagram.interchange_wf hd hd1
        have hacc' : ∀ s ∈ acc ++ [d1], s.WF ∧ s.dom = d1.dom ∧ s.cod = d1.cod := by
          intro s hs
          rcases List.mem_append.mp hs with hs | hs
          · obtain ⟨a, b, c⟩ := hacc s hs
            exact ⟨a, b.trans e1.symm, c.trans e2.symm⟩
          · simp at hs; subst hs; exact ⟨w, rfl, rfl⟩
        obtain ⟨⟨a, b, c⟩, r⟩ := ih w hacc' h
        refine ⟨⟨a, b.trans e1, c.trans e2⟩, ?_⟩
        intro s hs
        obtain ⟨x, y, z⟩ := r s hs
        exact ⟨x, y.trans e1, z.trans e2⟩
    · exact ih hd hacc h

theorem normalFormLoop_wf {left : Bool} {fuel : Nat} {d d' : Diagram} {cache : List Diagram}
    (hd : d.WF) (h : normalFormLoop left fuel d cache = .ok d') :
    d'.WF ∧ d'.dom = d.dom ∧ d'.cod = d.cod := by
  induction fuel generalizing d cache with
  | zero => simp [normalFormLoop] at h
  | succ fuel ih =>
    simp only [normalFormLoop] at h
    split at h
    · cases h
    · rename_i d1 steps hpass
      obtain ⟨⟨w, e1, e2⟩, _⟩ := normalizePass_wf hd (by simp) hpass
      split at h
      · cases h; exact ⟨hd, rfl, rfl⟩
      · split at h
        · cases h
        · obtain ⟨a, b, c⟩ := ih w h
          exact ⟨a, b.trans e1, c.trans e2⟩

theorem Diagram.normalForm_wf {d d' : Diagram} {left : Bool} {fuel : Nat} (hd : d.WF)
    (h : d.normalForm left fuel = .ok d') : d'.WF ∧ d'.dom = d.dom ∧ d'.cod = d.cod :=
  normalFormLoop_wf hd h

/-! ### swap, permutation -/

theorem swapOne_props {l : Ob} {right : Ty} {d : Diagram} (h : swapOne l right = .ok d) :
    d.WF ∧ d.dom = [l] ++ right ∧ d.cod = right ++ [l] := by
  obtain ⟨w, a, b, _, _⟩ := Diagram.mk?_ok h
  exact ⟨w, a, b⟩

theorem Diagram.swap_props {left right : Ty} {d : Diagram} (h : Diagram.swap left right = .ok d) :
    d.WF ∧ d.dom = left ++ right ∧ d.cod = right ++ left := by
  induction left generalizing d with
  | nil =>
    simp only [Diagram.swap, Except.ok.injEq] at h; subst h
    exact ⟨Diagram.id_wf _, by simp [Diagram.id], by simp [Diagram.id]⟩
  | cons l ls ih =>
    cases ls with
    | nil => simpa [Diagram.swap] using swapOne_props h
    | cons l2 ls =>
      simp only [Diagram.swap] at h
      split at h
      · cases h
      · rename_i rest hrest
        obtain ⟨rw_, rd, rc⟩ := ih hrest
        split at h
        · cases h
        · rename_i top htop
          obtain ⟨tw, td, tc⟩ := Diagram.tensor_props (Diagram.id_wf _) rw_ htop
          split at h
          · cases h
          · rename_i s1 hs1
            obtain ⟨sw, sd, sc⟩ := swapOne_props hs1
            split at h
            · cases h
            · rename_i bot hbot
              obtain ⟨bw, bd, bc⟩ := Diagram.tensor_props sw (Diagram.id_wf _) hbot
              obtain ⟨w, e1, e2⟩ := Diagram.then_props tw bw h
              refine ⟨w, ?_, ?_⟩
              · rw [e1, td, rd]; simp [Diagram.id]
              · rw [e2, bc, sc]; simp [Diagram.id]

theorem permLoop_wf {n i : Nat} {perm : List Int} {d d' : Diagram} (hd : d.WF)
    (h : permLoop n i perm d = .ok d') : d'.WF ∧ d'.dom = d.dom := by
  induction n generalizing i perm d with
  | zero => simp [permLoop] at h; subst h; exact ⟨hd, rfl⟩
  | succ n ih =>
    simp only [permLoop] at h
    split at h
    · cases h
    · split at h
      · cases h
      · rename_i s hs
        obtain ⟨sw, _, _⟩ := Diagram.swap_props hs
        split at h
        · cases h
        · rename_i x hx
          obtain ⟨xw, _, _⟩ := Diagram.tensor_props (Diagram.id_wf _) sw hx
          split at h
          · cases h
          · rename_i layer hlayer
            obtain ⟨lw, _, _⟩ := Diagram.tensor_props xw (Diagram.id_wf _) hlayer
            split at h
            · cases h
            · rename_i d1 hd1
              obtain ⟨w1, e1, _⟩ := Diagram.then_props hd lw hd1
              obtain ⟨w, e⟩ := ih w1 h
              exact ⟨w, e.trans e1⟩

theorem Diagram.permutation_props {perm : List Int} {dom : Ty} {d : Diagram}
    (h : Diagram.permutation perm dom = .ok d) : d.WF ∧ d.dom = dom := by
  unfold Diagram.permutation at h
  split at h
  · cases h
  · split at h
    · cases h
    · exact permLoop_wf (Diagram.id_wf dom) h

/-! ### cups, caps -/

theorem cupsLoop_wf {left right : Ty} {rev : Bool} {n i : Nat} {d d' : Diagram} (hd : d.WF)
    (h : cupsLoop left right rev n i d = .ok d') : d'.WF := by
  induction n generalizing i d with
  | zero => simp [cupsLoop] at h; subst h; exact hd
  | succ n ih =>
    simp only [cupsLoop] at h
    split at h
    · split at h
      · cases h
      · rename_i x hx
        obtain ⟨xw, _, _⟩ := Diagram.tensor_props (Diagram.id_wf _) (Diagram.ofBox_wf _) hx
        split at h
        · cases h
        · rename_i layer hlayer
          obtain ⟨lw, _, _⟩ := Diagram.tensor_props xw (Diagram.id_wf _) hlayer
          split at h
          · cases h
          · rename_i d1 hd1
            have w1 : d1.WF := by
              split at hd1
              · exact Diagram.then_wf lw hd hd1
              · exact Diagram.then_wf hd lw hd1
            exact ih w1 h
    · cases h

theorem Diagram.cups_wf {left right : Ty} {d : Diagram} (h : Diagram.cups left right = .ok d) :
    d.WF := by
  unfold Diagram.cups at h
  split at h
  · cases h
  · exact cupsLoop_wf (Diagram.id_wf _) h

theorem Diagram.caps_wf {left right : Ty} {d : Diagram} (h : Diagram.caps left right = .ok d) :
    d.WF := by
  unfold Diagram.caps at h
  split at h
  · cases h
  · exact cupsLoop_wf (Diagram.id_wf _) h

/-! ### Transposes -/

theorem tensor3_wf {a b c : Except Err Diagram} {d : Diagram}
    (ha : ∀ x, a = .ok x → x.WF) (hb : ∀ x, b = .ok x → x.WF) (hc : ∀ x, c = .ok x → x.WF)
    (h : tensor3 a b c = .ok d) : d.WF := by
  unfold tensor3 at h
  split at h
  · rename_i x y z
    split at h
    · cases h
    · rename_i xy hxy
      exact Diagram.tensor_wf (Diagram.tensor_wf (ha x rfl) (hb y rfl) hxy) (hc z rfl) h
  all_goals cases h

theorem then3_wf {a b c : Except Err Diagram} {d : Diagram}
    (ha : ∀ x, a = .ok x → x.WF) (hb : ∀ x, b = .ok x → x.WF) (hc : ∀ x, c = .ok x → x.WF)
    (h : then3 a b c = .ok d) : d.WF := by
  unfold then3 at h
  split at h
  · rename_i x y z
    split at h
    · cases h
    · rename_i xy hxy
      exact Diagram.then_wf (Diagram.then_wf (ha x rfl) (hb y rfl) hxy) (hc z rfl) h
  all_goals cases h

theorem ok_wf_of {d : Diagram} (hd : d.WF) : ∀ x, (Except.ok d : Except Err Diagram) = .ok x → x.WF := by
  intro x hx; cases hx; exact hd

theorem Diagram.transpose_wf {d d' : Diagram} {left : Bool} (hd : d.WF)
    (h : d.transpose left = .ok d') : d'.WF := by
  unfold Diagram.transpose at h
  have hid : ∀ t, ∀ x, (Except.ok (Diagram.id t) : Except Err Diagram) = .ok x → x.WF :=
    fun t => ok_wf_of (Diagram.id_wf t)
  have hcaps : ∀ l r, ∀ x, Diagram.caps l r = .ok x → x.WF := fun l r x hx => Diagram.caps_wf hx
  have hcups : ∀ l r, ∀ x, Diagram.cups l r = .ok x → x.WF := fun l r x hx => Diagram.cups_wf hx
  split at h
  · exact then3_wf
      (fun x hx => tensor3_wf (hid _) (hcaps _ _) (hid _) hx)
      (fun x hx => tensor3_wf (hid _) (ok_wf_of hd) (hid _) hx)
      (fun x hx => tensor3_wf (hcups _ _) (hid _) (hid _) hx) h
  · exact then3_wf
      (fun x hx => tensor3_wf (hcaps _ _) (hid _) (hid _) hx)
      (fun x hx => tensor3_wf (hid _) (ok_wf_of hd) (hid _) hx)
      (fun x hx => tensor3_wf (hid _) (hcups _ _) (hid _) hx) h

/-! ### The n-ary calling convention of `then` / `tensor` (cat.py:307-310, monoidal.py:384-385,
   monoidal.py:419-422)

  `Junctions c bs`: reading the arguments from the type `c` the receiver ends on, every argument
  starts where the one before it ends — *including* the first one, which has to start on `c`. -/

/-- Every junction of `recv.then(b₁, …, bₙ)` matches: `c = b₁.dom`, `b₁.cod = b₂.dom`, … -/
def Junctions : Ty → List Diagram → Prop
  | _, [] => True
  | c, b :: bs => c = b.dom ∧ Junctions b.cod bs

/-- The codomain the n-ary composite ends on: that of the last argument (of the receiver if there
    is no argument). -/
def lastCod : Ty → List Diagram → Ty
  | c, [] => c
  | _, b :: bs => lastCod b.cod bs

theorem Diagram.thenN_props {a d : Diagram} {bs : List Diagram} (ha : a.WF)
    (hbs : ∀ b ∈ bs, b.WF) (h : a.thenN bs = .ok d) :
    d.WF ∧ d.dom = a.dom ∧ d.cod = lastCod a.cod bs ∧
      d.boxes = a.boxes ++ (bs.map (·.boxes)).flatten := by
  induction bs generalizing a with
  | nil => simp only [Diagram.thenN, Except.ok.injEq] at h; subst h; exact ⟨ha, rfl, rfl, by simp⟩
  | cons b bs ih =>
    simp only [Diagram.thenN] at h
    split at h
    · cases h
    · rename_i x hx
      have hb := hbs b (List.mem_cons_self ..)
      obtain ⟨xw, xd, xc⟩ := Diagram.then_props ha hb hx
      obtain ⟨w, dd, dc, db⟩ := ih xw (fun b' hb' => hbs b' (List.mem_cons_of_mem _ hb')) h
      refine ⟨w, dd.trans xd, by rw [dc, xc]; rfl, ?_⟩
      obtain ⟨ls, _, rfl⟩ := Diagram.then_ok hx
      simp [db]

/-- The n-ary composition of well-typed diagrams is accepted exactly when every junction matches,
    the one between the receiver and the first argument included (whatever the receiver is: an
    identity is no exception). -/
theorem Diagram.thenN_ok_iff {a : Diagram} {bs : List Diagram} (ha : a.WF) (hbs : ∀ b ∈ bs, b.WF) :
    (∃ d, a.thenN bs = .ok d) ↔ Junctions a.cod bs := by
  induction bs generalizing a with
  | nil => simp [Diagram.thenN, Junctions]
  | cons b bs ih =>
    have hb := hbs b (List.mem_cons_self ..)
    have hrest : ∀ b' ∈ bs, b'.WF := fun b' hb' => hbs b' (List.mem_cons_of_mem _ hb')
    constructor
    · rintro ⟨d, h⟩
      simp only [Diagram.thenN] at h
      split at h
      · cases h
      · rename_i x hx
        obtain ⟨xw, _, xc⟩ := Diagram.then_props ha hb hx
        exact ⟨(Diagram.then_ok_iff ha hb).mp ⟨x, hx⟩, xc ▸ (ih xw hrest).mp ⟨d, h⟩⟩
    · rintro ⟨h1, h2⟩
      obtain ⟨x, hx⟩ := (Diagram.then_ok_iff ha hb).mpr h1
      obtain ⟨xw, _, xc⟩ := Diagram.then_props ha hb hx
      obtain ⟨d, hd⟩ := (ih xw hrest).mpr (xc ▸ h2)
      exact ⟨d, by simp [Diagram.thenN, hx, hd]⟩

/-- … and refused with an axiom error otherwise. -/
theorem Diagram.thenN_refused {a : Diagram} {bs : List Diagram} (ha : a.WF) (hbs : ∀ b ∈ bs, b.WF)
    (h : ¬ Junctions a.cod bs) : a.thenN bs = .error .axiom := by
  induction bs generalizing a with
  | nil => simp [Junctions] at h
  | cons b bs ih =>
    have hb := hbs b (List.mem_cons_self ..)
    by_cases h1 : a.cod = b.dom
    · obtain ⟨x, hx⟩ := (Diagram.then_ok_iff ha hb).mpr h1
      obtain ⟨xw, _, xc⟩ := Diagram.then_props ha hb hx
      have : ¬ Junctions x.cod bs := fun hj => h ⟨h1, xc ▸ hj⟩
      simp [Diagram.thenN, hx, ih xw (fun b' hb' => hbs b' (List.mem_cons_of_mem _ hb')) this]
    · simp [Diagram.thenN, Diagram.then_err ha hb h1]

/-- The n-ary tensor of well-typed diagrams always succeeds and is well-typed, from the
    concatenated domains to the concatenated codomains. -/
theorem Diagram.tensorN_props {a : Diagram} {bs : List Diagram} (ha : a.WF) (hbs : ∀ b ∈ bs, b.WF) :
    ∃ d, a.tensorN bs = .ok d ∧ d.WF ∧ d.dom = a.dom ++ (bs.map (·.dom)).flatten ∧
      d.cod = a.cod ++ (bs.map (·.cod)).flatten := by
  induction bs generalizing a with
  | nil => exact ⟨a, rfl, ha, by simp, by simp⟩
  | cons b bs ih =>
    have hb := hbs b (List.mem_cons_self ..)
    obtain ⟨x, hx⟩ := Diagram.tensor_total ha hb
    obtain ⟨xw, xd, xc⟩ := Diagram.tensor_props ha hb hx
    obtain ⟨d, hd, w, dd, dc⟩ := ih xw (fun b' hb' => hbs b' (List.mem_cons_of_mem _ hb'))
    exact ⟨d, by simp [Diagram.tensorN, hx, hd], w, by simp [dd, xd], by simp [dc, xc]⟩

theorem Diagram.tensorN_wf {a d : Diagram} {bs : List Diagram} (ha : a.WF) (hbs : ∀ b ∈ bs, b.WF)
    (h : a.tensorN bs = .ok d) : d.WF := by
  obtain ⟨d', hd', w, _⟩ := Diagram.tensorN_props ha hbs
  rw [hd'] at h; cases h; exact w


/-! ### Closure: every expression of the op language evaluates to a well-typed diagram -/

mutual
theorem Expr.eval_wf (e : Expr) {d : Diagram} (h : e.eval = .ok d) : d.WF := by
  match e with
  | .mk dom cod boxes offsets => exact Diagram.mk?_wf h
  | .box b => simp [Expr.eval] at h; subst h; exact Diagram.ofBox_wf b
  | .id t => simp [Expr.eval] at h; subst h; exact Diagram.id_wf t
  | .then a b =>
    simp only [Expr.eval] at h
    split at h
    · cases h
    · rename_i x hx
      split at h
      · cases h
      · rename_i y hy
        exact Diagram.then_wf (Expr.eval_wf a hx) (Expr.eval_wf b hy) h
  | .tensor a b =>
    simp only [Expr.eval] at h
    split at h
    · cases h
    · rename_i x hx
      split at h
      · cases h
      · rename_i y hy
        exact Diagram.tensor_wf (Expr.eval_wf a hx) (Expr.eval_wf b hy) h
  | .dagger a =>
    simp only [Expr.eval] at h
    split at h
    · cases h
    · rename_i x hx; cases h; exact Diagram.dagger_wf (Expr.eval_wf a hx)
  | .slice a s t =>
    simp only [Expr.eval] at h
    split at h
    · cases h
    · rename_i x hx; exact Diagram.slice_wf s t (Expr.eval_wf a hx) h
  | .sliceRev a s t =>
    simp only [Expr.eval] at h
    split at h
    · cases h
    · rename_i x hx; exact Diagram.sliceRev_wf s t (Expr.eval_wf a hx) h
  | .getItem a i =>
    simp only [Expr.eval] at h
    split at h
    · cases h
    · exact Diagram.getItem_wf i h
  | .interchange a i j left =>
    simp only [Expr.eval] at h
    split at h
    · cases h
    · rename_i x hx; exact (Diagram.interchange_wf (Expr.eval_wf a hx) h).1
  | .normalForm a left =>
    simp only [Expr.eval] at h
    split at h
    · cases h
    · rename_i x hx; exact (Diagram.normalForm_wf (Expr.eval_wf a hx) h).1
  | .swap l r => exact (Diagram.swap_props h).1
  | .perm p dom => exact (Diagram.permutation_props h).1
  | .cups l r => exact Diagram.cups_wf h
  | .caps l r => exact Diagram.caps_wf h
  | .transpose a left =>
    simp only [Expr.eval] at h
    split at h
    · cases h
    · rename_i x hx; exact Diagram.transpose_wf (Expr.eval_wf a hx) h
  | .thenN r args =>
    simp only [Expr.eval] at h
    split at h
    · cases h
    · rename_i x hx
      split at h
      · cases h
      · rename_i xs hxs
        exact (Diagram.thenN_props (Expr.eval_wf r hx) (Expr.evalList_wf args hxs) h).1
  | .tensorN r args =>
    simp only [Expr.eval] at h
    split at h
    · cases h
    · rename_i x hx
      split at h
      · cases h
      · rename_i xs hxs
        exact Diagram.tensorN_wf (Expr.eval_wf r hx) (Expr.evalList_wf args hxs) h
theorem Expr.evalList_wf (es : List Expr) {ds : List Diagram} (h : Expr.evalList es = .ok ds) :
    ∀ d ∈ ds, d.WF := by
  match es with
  | [] => simp only [Expr.evalList, Except.ok.injEq] at h; subst h; simp
  | a :: as =>
    simp only [Expr.evalList] at h
    split at h
    · cases h
    · rename_i x hx
      split at h
      · cases h
      · rename_i xs hxs
        simp only [Except.ok.injEq] at h; subst h
        intro d hd
        rcases List.mem_cons.mp hd with rfl | hd
        · exact Expr.eval_wf a hx
        · exact Expr.evalList_wf as hxs d hd
end

end DV
