/-
  Proofs/UnsnakeClassify.lean — C07: `follow_wire`'s loop as a structural recursion over the block
  of items it walks through (`classify`), its link to the model's `followWire`, and the
  decompositions of a block at its first / last left obstruction that `unsnake` relies on.
-/
import Proofs.UnsnakeItems
import Model.Snake

namespace DV

/-- Walk the wire at position `j` down through the block `M` whose first item has index `k`:
    `none` when some box of the block consumes the wire, otherwise the final position and the
    indices of the boxes left / right of the wire (rewriting.py:359-370). -/
def classify : Nat → Int → List (Box × Int) → Option (Int × List Nat × List Nat)
  | _, j, [] => some (j, [], [])
  | k, j, x :: rest =>
    if x.2 ≤ j ∧ j < x.2 + x.1.dom.length then none
    else if x.2 ≤ j then
      match classify (k+1) (j + ((x.1.cod.length : Int) - x.1.dom.length)) rest with
      | some (j', lo, ro) => some (j', k :: lo, ro)
      | none => none
    else
      match classify (k+1) j rest with
      | some (j', lo, ro) => some (j', lo, k :: ro)
      | none => none

theorem classify_append (k : Nat) (j : Int) (A B : List (Box × Int)) :
    classify k j (A ++ B) =
      match classify k j A with
      | none => none
      | some (j1, lo1, ro1) =>
        match classify (k + A.length) j1 B with
        | none => none
        | some (j2, lo2, ro2) => some (j2, lo1 ++ lo2, ro1 ++ ro2) := by
  induction A generalizing k j with
  | nil =>
    simp only [List.nil_append, classify, List.length_nil, Nat.add_zero]
    cases classify k j B with
    | none => rfl
    | some r => obtain ⟨a, b, c⟩ := r; rfl
  | cons x rest ih =>
    simp only [List.cons_append, classify, List.length_cons]
    have e : k + (rest.length + 1) = k + 1 + rest.length := by omega
    rw [e]
    split
    · rfl
    · split
      · rw [ih]
        cases classify (k+1) (j + ((x.1.cod.length : Int) - x.1.dom.length)) rest with
        | none => rfl
        | some r =>
          obtain ⟨a, b, c⟩ := r
          simp only
          cases classify (k + 1 + rest.length) a B with
          | none => rfl
          | some r2 => obtain ⟨a2, b2, c2⟩ := r2; rfl
      · rw [ih]
        cases classify (k+1) j rest with
        | none => rfl
        | some r =>
          obtain ⟨a, b, c⟩ := r
          simp only
          cases classify (k + 1 + rest.length) a B with
          | none => rfl
          | some r2 => obtain ⟨a2, b2, c2⟩ := r2; rfl

/-- All indices returned lie inside the block. -/
theorem classify_bounds {k : Nat} {j j' : Int} {M : List (Box × Int)} {lo ro : List Nat}
    (h : classify k j M = some (j', lo, ro)) :
    (∀ x ∈ lo, k ≤ x ∧ x < k + M.length) ∧ (∀ x ∈ ro, k ≤ x ∧ x < k + M.length) := by
  induction M generalizing k j lo ro with
  | nil =>
    simp only [classify, Option.some.injEq, Prod.mk.injEq] at h
    obtain ⟨_, rfl, rfl⟩ := h
    simp
  | cons x rest ih =>
    simp only [classify] at h
    split at h
    · cases h
    · split at h
      · split at h
        · rename_i j1 lo1 ro1 h1
          simp only [Option.some.injEq, Prod.mk.injEq] at h
          obtain ⟨rfl, rfl, rfl⟩ := h
          obtain ⟨a, b⟩ := ih h1
          refine ⟨?_, ?_⟩
          · intro z hz
            rcases List.mem_cons.mp hz with rfl | hz
            · simp
            · have := a z hz; simp only [List.length_cons]; omega
          · intro z hz; have := b z hz; simp only [List.length_cons]; omega
        · cases h
      · split at h
        · rename_i j1 lo1 ro1 h1
          simp only [Option.some.injEq, Prod.mk.injEq] at h
          obtain ⟨rfl, rfl, rfl⟩ := h
          obtain ⟨a, b⟩ := ih h1
          refine ⟨?_, ?_⟩
          · intro z hz; have := a z hz; simp only [List.length_cons]; omega
          · intro z hz
            rcases List.mem_cons.mp hz with rfl | hz
            · simp
            · have := b z hz; simp only [List.length_cons]; omega
        · cases h

/-- A block lying entirely right of the wire. -/
theorem classify_all_right {k : Nat} {j : Int} {M : List (Box × Int)} (h : ∀ x ∈ M, j < x.2) :
    classify k j M = some (j, [], List.range' k M.length) := by
  induction M generalizing k with
  | nil => simp [classify]
  | cons x rest ih =>
    have hx := h x (by simp)
    simp only [classify]
    rw [if_neg (by omega), if_neg (by omega), ih (fun z hz => h z (by simp [hz]))]
    simp [List.range'_succ]

/-- No left obstruction: the whole block is right of the wire. -/
theorem classify_no_left {k : Nat} {j j' : Int} {M : List (Box × Int)} {ro : List Nat}
    (h : classify k j M = some (j', [], ro)) :
    (∀ x ∈ M, j < x.2) ∧ j' = j ∧ ro = List.range' k M.length := by
  induction M generalizing k ro with
  | nil =>
    simp only [classify, Option.some.injEq, Prod.mk.injEq] at h
    obtain ⟨rfl, _, rfl⟩ := h
    simp
  | cons x rest ih =>
    simp only [classify] at h
    split at h
    · cases h
    · split at h
      · split at h
        · simp only [Option.some.injEq, Prod.mk.injEq] at h
          obtain ⟨_, h2, _⟩ := h
          cases h2
        · cases h
      · rename_i hn1 hn2
        split at h
        · rename_i j1 lo1 ro1 h1
          simp only [Option.some.injEq, Prod.mk.injEq] at h
          obtain ⟨rfl, rfl, rfl⟩ := h
          obtain ⟨a, b, c⟩ := ih h1
          refine ⟨?_, b, ?_⟩
          · intro z hz
            rcases List.mem_cons.mp hz with rfl | hz
            · omega
            · exact a z hz
          · rw [c]; simp [List.range'_succ]
        · cases h

/-- Decomposition at the FIRST left obstruction. -/
theorem classify_first_left {k : Nat} {j j' : Int} {M : List (Box × Int)} {l : Nat}
    {lo ro : List Nat} (h : classify k j M = some (j', l :: lo, ro)) :
    ∃ Rs L M' ro2, M = Rs ++ L :: M' ∧ l = k + Rs.length ∧ (∀ x ∈ Rs, j < x.2) ∧
      L.2 + L.1.dom.length ≤ j ∧
      classify (l+1) (j + ((L.1.cod.length : Int) - L.1.dom.length)) M' = some (j', lo, ro2) ∧
      ro = List.range' k Rs.length ++ ro2 := by
  induction M generalizing k ro with
  | nil => simp [classify] at h
  | cons x rest ih =>
    simp only [classify] at h
    split at h
    · cases h
    · rename_i hn1
      split at h
      · rename_i hle
        split at h
        · rename_i j1 lo1 ro1 h1
          simp only [Option.some.injEq, Prod.mk.injEq, List.cons.injEq] at h
          obtain ⟨rfl, ⟨rfl, rfl⟩, rfl⟩ := h
          exact ⟨[], x, rest, ro1, rfl, rfl, by simp, by omega, h1, by simp⟩
        · cases h
      · rename_i hgt
        split at h
        · rename_i j1 lo1 ro1 h1
          simp only [Option.some.injEq, Prod.mk.injEq] at h
          obtain ⟨rfl, rfl, rfl⟩ := h
          obtain ⟨Rs, L, M', ro2, e1, e2, e3, e4, e5, e6⟩ := ih h1
          refine ⟨x :: Rs, L, M', ro2, by rw [e1]; rfl, by simp only [List.length_cons]; omega,
            ?_, e4, e5, ?_⟩
          · intro z hz
            rcases List.mem_cons.mp hz with rfl | hz
            · omega
            · exact e3 z hz
          · rw [e6]; simp [List.range'_succ]
        · cases h

/-- Decomposition at the LAST left obstruction. -/
theorem classify_last_left {k : Nat} {j j' : Int} {M : List (Box × Int)} {lo ro : List Nat}
    (h : classify k j M = some (j', lo, ro)) (hne : lo ≠ []) :
    ∃ M0 L Rs jl lo0 ro0, M = M0 ++ L :: Rs ∧ classify k j M0 = some (jl, lo0, ro0) ∧
      lo = lo0 ++ [k + M0.length] ∧ L.2 + L.1.dom.length ≤ jl ∧
      j' = jl + ((L.1.cod.length : Int) - L.1.dom.length) ∧ (∀ x ∈ Rs, j' < x.2) ∧
      ro = ro0 ++ List.range' (k + M0.length + 1) Rs.length := by
  induction M generalizing k j lo ro with
  | nil =>
    simp only [classify, Option.some.injEq, Prod.mk.injEq] at h
    exact absurd h.2.1.symm hne
  | cons x rest ih =>
    simp only [classify] at h
    split at h
    · cases h
    · rename_i hn1
      split at h
      · rename_i hle
        split at h
        · rename_i j1 lo1 ro1 h1
          simp only [Option.some.injEq, Prod.mk.injEq] at h
          obtain ⟨rfl, rfl, rfl⟩ := h
          by_cases hl1 : lo1 = []
          · subst hl1
            obtain ⟨a, b, c⟩ := classify_no_left h1
            refine ⟨[], x, rest, j, [], [], rfl, by simp [classify], by simp, by omega, b, ?_, ?_⟩
            · intro z hz; rw [b]; exact a z hz
            · simpa using c
          · obtain ⟨M0, L, Rs, jl, lo0, ro0, e1, e2, e3, e4, e5, e6, e7⟩ := ih h1 hl1
            refine ⟨x :: M0, L, Rs, jl, k :: lo0, ro0, by rw [e1]; rfl, ?_, ?_, e4, e5, e6, ?_⟩
            · simp only [classify]
              rw [if_neg hn1, if_pos hle, e2]
            · rw [e3]; simp only [List.cons_append, List.length_cons]
              rw [show k + 1 + M0.length = k + (M0.length + 1) from by omega]
            · rw [e7]; simp only [List.length_cons]
              rw [show k + 1 + M0.length = k + (M0.length + 1) from by omega]
        · cases h
      · rename_i hgt
        split at h
        · rename_i j1 lo1 ro1 h1
          simp only [Option.some.injEq, Prod.mk.injEq] at h
          obtain ⟨rfl, rfl, rfl⟩ := h
          obtain ⟨M0, L, Rs, jl, lo0, ro0, e1, e2, e3, e4, e5, e6, e7⟩ := ih h1 hne
          refine ⟨x :: M0, L, Rs, jl, lo0, k :: ro0, by rw [e1]; rfl, ?_, ?_, e4, e5, e6, ?_⟩
          · simp only [classify]
            rw [if_neg hn1, if_neg hgt, e2]
          · rw [e3]; simp only [List.length_cons]
            rw [show k + 1 + M0.length = k + (M0.length + 1) from by omega]
          · rw [e7]; simp only [List.cons_append, List.length_cons]
            rw [show k + 1 + M0.length = k + (M0.length + 1) from by omega]
        · cases h

/-! ### The model's `followWire` computes `classify` on the block it walks through -/

theorem drop_of_getElem? {α} {xs : List α} {i : Nat} {a : α} (h : xs[i]? = some a) :
    xs.drop i = a :: xs.drop (i + 1) := by
  obtain ⟨hlt, e⟩ := List.getElem?_eq_some_iff.mp h
  rw [List.drop_eq_getElem_cons hlt, e]

theorem followWire_classify {boxes : List Box} {offsets : List Int} (fuel i : Nat) (j : Int)
    (lo ro : List Nat) {cup : Nat} {j' : Int} {lo' ro' : List Nat}
    (h : followWire boxes offsets fuel i j lo ro = (cup, j', lo', ro')) (hc : cup < boxes.length) :
    ∃ M x S lo1 ro1, (boxes.zip offsets).drop (i+1) = M ++ x :: S ∧ cup = i + 1 + M.length ∧
      classify (i+1) j M = some (j', lo1, ro1) ∧ lo' = lo ++ lo1 ∧ ro' = ro ++ ro1 ∧
      x.2 ≤ j' ∧ j' < x.2 + x.1.dom.length := by
  induction fuel generalizing i j lo ro with
  | zero =>
    simp only [followWire, Prod.mk.injEq] at h
    omega
  | succ fuel ih =>
    simp only [followWire] at h
    split at h
    · split at h
      · rename_i box off hb ho
        have hz : (boxes.zip offsets)[i+1]? = some (box, off) :=
          List.getElem?_zip_eq_some.mpr ⟨hb, ho⟩
        have hdrop := drop_of_getElem? hz
        split at h
        · rename_i hit
          simp only [Prod.mk.injEq] at h
          obtain ⟨rfl, rfl, rfl, rfl⟩ := h
          exact ⟨[], (box, off), _, [], [], hdrop, by simp, by simp [classify], by simp, by simp,
            hit.1, hit.2⟩
        · rename_i nhit
          split at h
          · rename_i hle
            obtain ⟨M, x, S, lo1, ro1, e1, e2, e3, e4, e5, e6, e7⟩ := ih (i+1) _ _ _ h
            refine ⟨(box, off) :: M, x, S, (i+1) :: lo1, ro1, ?_, ?_, ?_, ?_, e5, e6, e7⟩
            · rw [hdrop, e1]; rfl
            · rw [e2]; simp only [List.length_cons]; omega
            · simp only [classify]
              rw [if_neg nhit, if_pos hle]
              have e : j + ((box.cod.length : Int) - box.dom.length)
                  = j + box.cod.length - box.dom.length := by omega
              rw [e, e3]
            · rw [e4]; simp
          · rename_i hgt
            obtain ⟨M, x, S, lo1, ro1, e1, e2, e3, e4, e5, e6, e7⟩ := ih (i+1) _ _ _ h
            refine ⟨(box, off) :: M, x, S, lo1, (i+1) :: ro1, ?_, ?_, ?_, e4, ?_, e6, e7⟩
            · rw [hdrop, e1]; rfl
            · rw [e2]; simp only [List.length_cons]; omega
            · simp only [classify]
              rw [if_neg nhit, if_neg hgt, e3]
            · rw [e5]; simp
      · simp only [Prod.mk.injEq] at h
        omega
    · simp only [Prod.mk.injEq] at h
      omega

end DV
