/-
  Proofs/ZXTableFixed.lean — the corrected decompositions of CRz, CRx, CU1 (proposed patch for F7)
  are sound at EVERY exactly representable phase (`n/8`, n even; `ζ^(n/2)` has period 16 in n).
  Closed by `decide +kernel`.  (Split from ZXTable.lean to keep each file under 30 s.)
-/
import Proofs.ZXTable

namespace DV.Gates

/-- `⟦gate2zx_fixed g⟧ = (1/√2) • eval g` for `g ∈ {CRz, CRx, CU1}` at all representable phases. -/
theorem gate2zx_fixed_table :
    ∀ k ∈ ctrlRotKinds, ∀ n ∈ evenPhases,
      zxEvalOf true (.rot k n) = .ok (msmul Cyc8.invSqrt2 (Gate.rot k n).eval) := by decide +kernel

end DV.Gates
