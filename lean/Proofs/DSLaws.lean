/-
  Proofs/DSLaws.lean — arrows of the free category that are either a plain diagram or a formal sum
  (`DS`, Model/FunctorSumImg.lean): closed forms of `>>`, `@` and their algebra (associativity, units,
  whiskering by identities distributes over `>>`), with the order of terms the code produces
  (`[op f g for f in fs for g in gs]`, cat.py:717 / monoidal.py:752).
-/
import Proofs.SumLaws
import Proofs.FunctorTensor
import Model.FunctorSumImg

namespace DV

/-! ### `[op f g for f in fs for g in gs]` -/

def lift2 (op : Diagram → Diagram → Diagram) (xs ys : List Diagram) : List Diagram :=
  xs.flatMap fun f => ys.map (op f)

theorem Sum.thenD_terms (a b : Sum) : (a.thenD b).terms = lift2 Diagram.thenD a.terms b.terms := rfl
theorem Sum.tensorD_terms (a b : Sum) : (a.tensorD b).terms = lift2 Diagram.tensorD a.terms b.terms := rfl

theorem lift2_single_right (op : Diagram → Diagram → Diagram) (xs : List Diagram) (e : Diagram) :
    lift2 op xs [e] = xs.map (fun f => op f e) := by
  induction xs with
  | nil => rfl
  | cons x xs ih => simp [lift2] at ih ⊢; exact ih

theorem lift2_single_left (op : Diagram → Diagram → Diagram) (e : Diagram) (ys : List Diagram) :
    lift2 op [e] ys = ys.map (op e) := by simp [lift2]

theorem lift2_append_left (op : Diagram → Diagram → Diagram) (xs xs' ys : List Diagram) :
    lift2 op (xs ++ xs') ys = lift2 op xs ys ++ lift2 op xs' ys := by simp [lift2]

theorem lift2_map_left (op : Diagram → Diagram → Diagram) (g : Diagram → Diagram)
    (xs ys : List Diagram) : lift2 op (xs.map g) ys = xs.flatMap fun f => ys.map (op (g f)) := by
  simp [lift2, List.flatMap_map]

theorem lift2_assoc {op : Diagram → Diagram → Diagram}
    (h : ∀ a b c, op (op a b) c = op a (op b c)) (xs ys zs : List Diagram) :
    lift2 op (lift2 op xs ys) zs = lift2 op xs (lift2 op ys zs) := by
  induction xs with
  | nil => rfl
  | cons x xs ih =>
    have e1 : lift2 op (x :: xs) ys = ys.map (op x) ++ lift2 op xs ys := by simp [lift2]
    have e2 : lift2 op (x :: xs) (lift2 op ys zs) =
        (lift2 op ys zs).map (op x) ++ lift2 op xs (lift2 op ys zs) := by simp [lift2]
    rw [e1, lift2_append_left, ih, e2]
    congr 1
    rw [lift2_map_left]
    simp only [lift2, List.map_flatMap, List.map_map]
    congr 1
    funext f
    apply List.map_congr_left
    intro g _
    simp [h]

/-- An operation that distributes over another one, term by term, on the right:
    `op1 (op2 a b) e = op2 (op1 a e) (op1 b e)`. -/
theorem lift2_distrib_right {op1 op2 : Diagram → Diagram → Diagram} (e : Diagram)
    (h : ∀ a b, op1 (op2 a b) e = op2 (op1 a e) (op1 b e)) (xs ys : List Diagram) :
    lift2 op1 (lift2 op2 xs ys) [e] = lift2 op2 (lift2 op1 xs [e]) (lift2 op1 ys [e]) := by
  simp only [lift2_single_right]
  simp only [lift2, List.map_flatMap, List.map_map, List.flatMap_map]
  congr 1
  funext f
  apply List.map_congr_left
  intro g _
  simp [h]

theorem lift2_distrib_left {op1 op2 : Diagram → Diagram → Diagram} (e : Diagram)
    (h : ∀ a b, op1 e (op2 a b) = op2 (op1 e a) (op1 e b)) (xs ys : List Diagram) :
    lift2 op1 [e] (lift2 op2 xs ys) = lift2 op2 (lift2 op1 [e] xs) (lift2 op1 [e] ys) := by
  simp only [lift2_single_left]
  simp only [lift2, List.map_flatMap, List.map_map, List.flatMap_map]
  congr 1
  funext f
  apply List.map_congr_left
  intro g _
  simp [h]

/-! ### Closed forms on sums: associativity, units, whiskering -/

theorem Diagram.thenD_assoc (a b c : Diagram) : (a.thenD b).thenD c = a.thenD (b.thenD c) := by
  simp [Diagram.thenD, List.append_assoc]

theorem Sum.thenD_assoc (a b c : Sum) : (a.thenD b).thenD c = a.thenD (b.thenD c) := by
  have := lift2_assoc Diagram.thenD_assoc a.terms b.terms c.terms
  simp only [Sum.thenD, lift2] at this ⊢
  rw [this]

theorem Sum.tensorD_assoc (a b c : Sum) : (a.tensorD b).tensorD c = a.tensorD (b.tensorD c) := by
  have := lift2_assoc Diagram.tensorD_assoc a.terms b.terms c.terms
  simp only [Sum.tensorD, lift2] at this ⊢
  rw [this]
  simp [List.append_assoc]

theorem Sum.single_thenD (f g : Diagram) :
    (Sum.single f).thenD (Sum.single g) = Sum.single (f.thenD g) := by
  simp [Sum.thenD, Sum.single, Diagram.thenD]

theorem Sum.single_tensorD (f g : Diagram) :
    (Sum.single f).tensorD (Sum.single g) = Sum.single (f.tensorD g) := by
  simp [Sum.tensorD, Sum.single, Diagram.tensorD]

theorem Diagram.thenD_id {d : Diagram} (hd : d.WF) {t : Ty} (h : d.cod = t) :
    d.thenD (Diagram.id t) = d := by
  have h1 := Diagram.then_idF hd h
  rw [Diagram.then_spec hd (Diagram.id_wf t) (by simp [Diagram.id, h])] at h1
  exact Except.ok.inj h1

theorem Diagram.id_thenD {d : Diagram} (hd : d.WF) {t : Ty} (h : d.dom = t) :
    (Diagram.id t).thenD d = d := by
  have h1 := Diagram.id_thenF hd h
  rw [Diagram.then_spec (Diagram.id_wf t) hd (by simp [Diagram.id, h])] at h1
  exact Except.ok.inj h1

theorem Sum.thenD_id {a : Sum} (ha : a.WF) {t : Ty} (h : a.cod = t) :
    a.thenD (Sum.single (Diagram.id t)) = a := by
  cases a with | mk terms dom cod =>
  simp only at h; subst h
  simp only [Sum.thenD, Sum.single, Diagram.id]
  congr 1
  have : ∀ f ∈ terms, Diagram.thenD f (Diagram.id cod) = f := fun f hf =>
    Diagram.thenD_id (ha f hf).1 (ha f hf).2.2
  induction terms with
  | nil => rfl
  | cons x xs ih =>
    simp only [List.flatMap_cons, List.map_cons, List.map_nil, List.singleton_append]
    rw [show Diagram.thenD x ⟨cod, cod, [], [], LArrow.id cod⟩ = x from this x (by simp)]
    congr 1
    exact ih (fun t ht => ha t (by simp [ht])) (fun f hf => this f (by simp [hf]))

theorem Sum.id_thenD {a : Sum} (ha : a.WF) {t : Ty} (h : a.dom = t) :
    (Sum.single (Diagram.id t)).thenD a = a := by
  cases a with | mk terms dom cod =>
  simp only at h; subst h
  simp only [Sum.thenD, Sum.single, Diagram.id, List.flatMap_cons, List.flatMap_nil,
    List.append_nil]
  congr 1
  have : ∀ f ∈ terms, Diagram.thenD (Diagram.id dom) f = f := fun f hf =>
    Diagram.id_thenD (ha f hf).1 (ha f hf).2.1
  calc terms.map (Diagram.thenD ⟨dom, dom, [], [], LArrow.id dom⟩)
      = terms.map id := List.map_congr_left (fun f hf => this f hf)
    _ = terms := by simp

/-! ### `DS`: well-typedness and closed forms -/

def DS.WF : DS → Prop
  | .diag d => d.WF
  | .sum s => s.WF

def DS.idD (t : Ty) : DS := .diag (Diagram.id t)

def DS.thenD : DS → DS → DS
  | .diag a, .diag b => .diag (a.thenD b)
  | .diag a, .sum b => .sum ((Sum.single a).thenD b)
  | .sum a, .diag b => .sum (a.thenD (Sum.single b))
  | .sum a, .sum b => .sum (a.thenD b)

def DS.tensorD : DS → DS → DS
  | .diag a, .diag b => .diag (a.tensorD b)
  | .diag a, .sum b => .sum ((Sum.single a).tensorD b)
  | .sum a, .diag b => .sum (a.tensorD (Sum.single b))
  | .sum a, .sum b => .sum (a.tensorD b)

theorem DS.idD_wf (t : Ty) : (DS.idD t).WF := Diagram.id_wf t

theorem DS.toSum_wf {x : DS} (h : x.WF) : x.toSum.WF := by
  cases x with
  | diag d => exact Sum.single_wf h
  | sum s => exact h

@[simp] theorem DS.toSum_dom (x : DS) : x.toSum.dom = x.dom := by cases x <;> rfl
@[simp] theorem DS.toSum_cod (x : DS) : x.toSum.cod = x.cod := by cases x <;> rfl
@[simp] theorem DS.idD_dom (t : Ty) : (DS.idD t).dom = t := rfl
@[simp] theorem DS.idD_cod (t : Ty) : (DS.idD t).cod = t := rfl

@[simp] theorem DS.thenD_dom (a b : DS) : (a.thenD b).dom = a.dom := by
  cases a <;> cases b <;> simp [DS.thenD, DS.dom, Diagram.thenD, Sum.single]
@[simp] theorem DS.thenD_cod (a b : DS) : (a.thenD b).cod = b.cod := by
  cases a <;> cases b <;> simp [DS.thenD, DS.cod, Diagram.thenD, Sum.single]
@[simp] theorem DS.tensorD_dom (a b : DS) : (a.tensorD b).dom = a.dom ++ b.dom := by
  cases a <;> cases b <;> simp [DS.tensorD, DS.dom, Diagram.tensorD, Sum.single]
@[simp] theorem DS.tensorD_cod (a b : DS) : (a.tensorD b).cod = a.cod ++ b.cod := by
  cases a <;> cases b <;> simp [DS.tensorD, DS.cod, Diagram.tensorD, Sum.single]

/-- `a >> b` on well-typed composable operands is the closed form (for sums: all pairs of terms,
    the terms of `a` varying slowest). -/
theorem DS.then_spec {a b : DS} (ha : a.WF) (hb : b.WF) (h : a.cod = b.dom) :
    a.then b = .ok (a.thenD b) := by
  cases a <;> cases b <;> simp only [DS.then, DS.thenD, DS.ofDiag, DS.ofSum]
  · rw [Diagram.then_spec ha hb h]
  · rw [Sum.then_spec (Sum.single_wf ha) hb h]
  · rw [Sum.then_spec ha (Sum.single_wf hb) h]
  · rw [Sum.then_spec ha hb h]

theorem DS.tensor_spec {a b : DS} (ha : a.WF) (hb : b.WF) : a.tensor b = .ok (a.tensorD b) := by
  cases a <;> cases b <;> simp only [DS.tensor, DS.tensorD, DS.ofDiag, DS.ofSum]
  · rw [Diagram.tensor_eq_tensorD ha hb]
  · rw [Sum.tensor_spec (Sum.single_wf ha) hb]
  · rw [Sum.tensor_spec ha (Sum.single_wf hb)]
  · rw [Sum.tensor_spec ha hb]

theorem DS.thenD_wf {a b : DS} (ha : a.WF) (hb : b.WF) (h : a.cod = b.dom) : (a.thenD b).WF := by
  cases a <;> cases b <;> simp only [DS.thenD, DS.WF]
  · exact Diagram.thenD_wf ha hb h
  · exact Sum.thenD_wf (Sum.single_wf ha) hb h
  · exact Sum.thenD_wf ha (Sum.single_wf hb) h
  · exact Sum.thenD_wf ha hb h

theorem DS.tensorD_wf {a b : DS} (ha : a.WF) (hb : b.WF) : (a.tensorD b).WF := by
  cases a <;> cases b <;> simp only [DS.tensorD, DS.WF]
  · exact Diagram.tensorD_wf ha hb
  · exact Sum.tensorD_wf (Sum.single_wf ha) hb
  · exact Sum.tensorD_wf ha (Sum.single_wf hb)
  · exact Sum.tensorD_wf ha hb

/-- Associativity of `>>` on `DS`, whatever mixture of plain diagrams and sums. -/
theorem DS.thenD_assoc (a b c : DS) : (a.thenD b).thenD c = a.thenD (b.thenD c) := by
  cases a <;> cases b <;> cases c <;>
    simp only [DS.thenD, Diagram.thenD_assoc, Sum.thenD_assoc, ← Sum.single_thenD]

theorem DS.tensorD_assoc (a b c : DS) : (a.tensorD b).tensorD c = a.tensorD (b.tensorD c) := by
  cases a <;> cases b <;> cases c <;>
    simp only [DS.tensorD, Diagram.tensorD_assoc, Sum.tensorD_assoc, ← Sum.single_tensorD]

theorem DS.thenD_id {x : DS} (hx : x.WF) {t : Ty} (h : x.cod = t) : x.thenD (DS.idD t) = x := by
  cases x with
  | diag d => simp only [DS.thenD, DS.idD]; rw [Diagram.thenD_id hx h]
  | sum s => simp only [DS.thenD, DS.idD]; rw [Sum.thenD_id hx h]

theorem DS.id_thenD {x : DS} (hx : x.WF) {t : Ty} (h : x.dom = t) : (DS.idD t).thenD x = x := by
  cases x with
  | diag d => simp only [DS.thenD, DS.idD]; rw [Diagram.id_thenD hx h]
  | sum s => simp only [DS.thenD, DS.idD]; rw [Sum.id_thenD hx h]

theorem DS.tensorD_id_id (s t : Ty) : (DS.idD s).tensorD (DS.idD t) = DS.idD (s ++ t) := by
  simp only [DS.idD, DS.tensorD, DV.tensorD_id_id]

/-! ### Whiskering by an identity distributes over `>>` -/

theorem Sum.thenD_tensorD_id (res lay : Sum) (t : Ty) :
    (res.thenD lay).tensorD (Sum.single (Diagram.id t)) =
      (res.tensorD (Sum.single (Diagram.id t))).thenD (lay.tensorD (Sum.single (Diagram.id t))) := by
  have := lift2_distrib_right (op1 := Diagram.tensorD) (op2 := Diagram.thenD) (Diagram.id t)
    (fun a b => DV.thenD_tensorD_id a b t) res.terms lay.terms
  simp only [Sum.thenD, Sum.tensorD, Sum.single, lift2] at this ⊢
  rw [this]

theorem Sum.id_tensorD_thenD (t : Ty) (res lay : Sum) :
    (Sum.single (Diagram.id t)).tensorD (res.thenD lay) =
      ((Sum.single (Diagram.id t)).tensorD res).thenD ((Sum.single (Diagram.id t)).tensorD lay) := by
  have := lift2_distrib_left (op1 := Diagram.tensorD) (op2 := Diagram.thenD) (Diagram.id t)
    (fun a b => DV.id_tensorD_thenD t a b) res.terms lay.terms
  simp only [Sum.thenD, Sum.tensorD, Sum.single, lift2] at this ⊢
  rw [this]

theorem DS.thenD_tensorD_id (res lay : DS) (t : Ty) :
    (res.thenD lay).tensorD (DS.idD t) =
      (res.tensorD (DS.idD t)).thenD (lay.tensorD (DS.idD t)) := by
  cases res <;> cases lay <;>
    simp only [DS.thenD, DS.tensorD, DS.idD, DV.thenD_tensorD_id, Sum.thenD_tensorD_id,
      ← Sum.single_tensorD]

theorem DS.id_tensorD_thenD (t : Ty) (res lay : DS) :
    (DS.idD t).tensorD (res.thenD lay) =
      ((DS.idD t).tensorD res).thenD ((DS.idD t).tensorD lay) := by
  cases res <;> cases lay <;>
    simp only [DS.thenD, DS.tensorD, DS.idD, DV.id_tensorD_thenD, Sum.id_tensorD_thenD,
      ← Sum.single_tensorD]

/-! ### The layer `Id(l) @ x @ Id(r)` -/

def DS.layerD (l : Ty) (x : DS) (r : Ty) : DS := ((DS.idD l).tensorD x).tensorD (DS.idD r)

theorem DS.layerD_wf {l r : Ty} {x : DS} (hx : x.WF) : (DS.layerD l x r).WF :=
  DS.tensorD_wf (DS.tensorD_wf (DS.idD_wf l) hx) (DS.idD_wf r)

@[simp] theorem DS.layerD_dom (l r : Ty) (x : DS) : (DS.layerD l x r).dom = l ++ x.dom ++ r := by
  simp [DS.layerD]
@[simp] theorem DS.layerD_cod (l r : Ty) (x : DS) : (DS.layerD l x r).cod = l ++ x.cod ++ r := by
  simp [DS.layerD]

theorem DS.layerD_whiskR (l r t : Ty) (x : DS) :
    (DS.layerD l x r).tensorD (DS.idD t) = DS.layerD l x (r ++ t) := by
  unfold DS.layerD
  rw [DS.tensorD_assoc, DS.tensorD_id_id]

theorem DS.layerD_whiskL (u l r : Ty) (x : DS) :
    (DS.idD u).tensorD (DS.layerD l x r) = DS.layerD (u ++ l) x r := by
  unfold DS.layerD
  rw [← DS.tensorD_assoc, ← DS.tensorD_assoc, DS.tensorD_id_id]

/-- `id_l @ x @ id_r` succeeds on a well-typed image and is the closed form. -/
theorem DS.whisker_spec {l r : Ty} {x : DS} (hx : x.WF) :
    DS.whisker l x r = .ok (DS.layerD l x r) := by
  unfold DS.whisker
  have h1 : (DS.diag (Diagram.id l)).tensor x = .ok ((DS.idD l).tensorD x) :=
    DS.tensor_spec (DS.idD_wf l) hx
  rw [h1]
  exact DS.tensor_spec (DS.tensorD_wf (DS.idD_wf l) hx) (DS.idD_wf r)

/-! ### `(a @ Id(b.dom)) >> (Id(a.cod) @ b) = a @ b` -/

theorem Diagram.exchange (f g : Diagram) :
    (f.tensorD (Diagram.id g.dom)).thenD ((Diagram.id f.cod).tensorD g) = f.tensorD g := by
  simp [Diagram.tensorD, Diagram.thenD, Diagram.id, LArrow.id]

theorem Sum.exchange {a b : Sum} (ha : a.WF) (hb : b.WF) :
    (a.tensorD (Sum.single (Diagram.id b.dom))).thenD ((Sum.single (Diagram.id a.cod)).tensorD b) =
      a.tensorD b := by
  cases a with | mk ta da ca =>
  cases b with | mk tb db cb =>
  simp only [Sum.thenD, Sum.tensorD, Sum.single, Diagram.id, List.flatMap_cons, List.flatMap_nil,
    List.append_nil, List.map_cons, List.map_nil, Sum.mk.injEq, and_true]
  have key : ∀ f ∈ ta, List.map (Diagram.thenD (f.tensorD ⟨db, db, [], [], LArrow.id db⟩))
      (List.map (Diagram.tensorD ⟨ca, ca, [], [], LArrow.id ca⟩) tb) = List.map f.tensorD tb := by
    intro f hf
    rw [List.map_map]
    apply List.map_congr_left
    intro g hg
    have e1 : db = g.dom := (hb g hg).2.1.symm
    have e2 : ca = f.cod := (ha f hf).2.2.symm
    simp only [Function.comp_def]
    rw [e1, e2]
    exact Diagram.exchange f g
  clear ha
  induction ta with
  | nil => rfl
  | cons x xs ih =>
    simp only [List.flatMap_cons, List.singleton_append]
    rw [key x (by simp), ih (fun f hf => key f (by simp [hf]))]

theorem DS.exchange {a b : DS} (ha : a.WF) (hb : b.WF) :
    (a.tensorD (DS.idD b.dom)).thenD ((DS.idD a.cod).tensorD b) = a.tensorD b := by
  cases a <;> cases b <;> simp only [DS.thenD, DS.tensorD, DS.idD, DS.dom, DS.cod]
  · rw [Diagram.exchange]
  · rename_i f s
    rw [← Sum.single_tensorD]
    exact congrArg DS.sum (Sum.exchange (a := Sum.single f) (Sum.single_wf ha) hb)
  · rename_i s g
    rw [← Sum.single_tensorD]
    exact congrArg DS.sum (Sum.exchange (b := Sum.single g) ha (Sum.single_wf hb))
  · exact congrArg DS.sum (Sum.exchange ha hb)

end DV
