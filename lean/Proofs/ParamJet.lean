/-
  Proofs/ParamJet.lean — a concrete, non-trivial instance of the hypotheses of the per-gate
  rules (PhaseHyp): first-order jets over ℤ/17, i.e. dual numbers a + bε with ε² = 0 and the
  derivation D(a + bε) = bε (the Euler derivation ε·∂/∂ε), with
      I = 4 (4² = 16 = −1),  ζ = 2 (ζ² = I),  ζ' = 9 (ζ'² = 81 = 13 = −I),  h = 9 (2·9 = 1),
      ν = 1 + Iε,  ν' = 1 − Iε,  p' = ε,  pi = 1      (D ν = Iε = I·pi·p'·ν).
  Used only by the `example`s of Props/C15.lean: the theorems are not vacuous.
-/
import Proofs.ParamGates
import Mathlib.Algebra.DualNumber
import Mathlib.Data.ZMod.Basic

set_option linter.unnecessarySeqFocus false

namespace DV.Param.Jet
open DV.Param

abbrev F := ZMod 17
abbrev KJ := DualNumber F

instance : HasConj KJ := ⟨id⟩

def jetD : Deriv KJ where
  D x := TrivSqZeroExt.inr x.snd
  add a b := by ext <;> simp
  mul a b := by
    ext <;> simp [TrivSqZeroExt.fst_mul, TrivSqZeroExt.snd_mul] <;> ring

def I : KJ := TrivSqZeroExt.inl 4
def ζ : KJ := TrivSqZeroExt.inl 2
def ζ' : KJ := TrivSqZeroExt.inl 9
def h : KJ := TrivSqZeroExt.inl 9
def eps : KJ := TrivSqZeroExt.inr 1
def ν : KJ := TrivSqZeroExt.inl 1 + TrivSqZeroExt.inr 4
def ν' : KJ := TrivSqZeroExt.inl 1 - TrivSqZeroExt.inr 4

theorem phaseHyp : PhaseHyp jetD I 1 eps ν ν' where
  I_sq := by
    ext <;> simp [I] <;> decide
  inv := by
    ext <;> simp [ν, ν']
  D_nu := by
    ext <;> simp [jetD, ν, I, eps]
  cI := by ext <;> simp [jetD, I]
  cpi := by ext <;> simp [jetD]

theorem ζ_sq : ζ * ζ = I := by ext <;> simp [ζ, I] <;> decide
theorem ζ'_sq : ζ' * ζ' = -I := by ext <;> simp [ζ', I] <;> decide
theorem two_h : 2 * h = 1 := by
  ext <;> simp [h] <;> decide

/-- The derivation is not trivial: D ν ≠ 0. -/
theorem D_ν_ne_zero : jetD.D ν ≠ 0 := by
  intro hz
  have := congrArg TrivSqZeroExt.snd hz
  simp [jetD, ν] at this
  revert this
  decide

end DV.Param.Jet
