/-
  Proofs/NormalFormRepeat.lean — C06: `normal_form` (rewriting.py:127-152) keeps a cache of ALL
  the rewrite steps it has been handed and raises NotImplementedError as soon as the normalizer
  yields a diagram that is in the cache — a repeat of ANY earlier step, not only a return to the
  input (the step function is not injective: the trace of a disconnected diagram may leave the
  input along a tail and enter a cycle that does not contain it).

  * `normalFormLoop_of_trace`: the model's `normal_form` is a function of the model's `normalize`
    trace: `.error .notImpl` iff some step of the trace equals (`==`) an earlier step, otherwise
    the last step of a finished trace, otherwise (trace not finished within the fuel) `.error .fuel`.
  * `hasRepeat_iff`: the cache test, index form (`∃ i < j, steps[i] == steps[j]`).
  * `normalizeTrace_length`: an unfinished trace has at least one step per pass.
  * `exists_repeat_of_finite`: pigeonhole — more steps than there are diagrams to visit.
-/
import Proofs.Normalize
import Proofs.Laws
import Batteries.Data.List.Perm

namespace DV

/-- `firstRepeat` finds a step iff `hasRepeat` holds (the driver reports the index, the theorems
    speak about `hasRepeat`). -/
theorem firstRepeat_isSome (cache steps : List Diagram) (k : Nat) :
    (firstRepeat cache steps k).isSome = hasRepeat cache steps := by
  induction steps generalizing cache k with
  | nil => rfl
  | cons s ss ih =>
    simp only [firstRepeat, hasRepeat]
    by_cases h : (cache.any fun c => c.eqv s) = true
    · simp [h]
    · simp [h, ih]

theorem nfWalk_eq (cache steps : List Diagram) :
    normalFormLoop.walk cache steps =
      if hasRepeat cache steps then .error .notImpl else .ok (steps.reverse ++ cache) := by
  induction steps generalizing cache with
  | nil => simp [normalFormLoop.walk, hasRepeat]
  | cons s ss ih =>
    simp only [normalFormLoop.walk, hasRepeat]
    by_cases h : (cache.any fun c => c.eqv s) = true
    · simp [h]
    · simp only [h, Bool.false_eq_true, if_false, Bool.false_or]
      rw [ih]
      simp

theorem hasRepeat_append (cache xs ys : List Diagram) :
    hasRepeat cache (xs ++ ys) = (hasRepeat cache xs || hasRepeat (xs.reverse ++ cache) ys) := by
  induction xs generalizing cache with
  | nil => simp [hasRepeat]
  | cons x xs ih =>
    simp only [List.cons_append, hasRepeat, ih, List.reverse_cons, List.append_assoc,
      List.cons_append, List.nil_append, Bool.or_assoc]

/-- Index form of the cache test. -/
theorem hasRepeat_iff (cache steps : List Diagram) :
    hasRepeat cache steps = true ↔
      ∃ (j : Nat) (hj : j < steps.length),
        (∃ c ∈ cache, c.eqv steps[j] = true) ∨
        (∃ (i : Nat) (hi : i < j), (steps[i]'(by omega)).eqv steps[j] = true) := by
  induction steps generalizing cache with
  | nil => simp [hasRepeat]
  | cons s ss ih =>
    simp only [hasRepeat, Bool.or_eq_true, List.any_eq_true, ih]
    constructor
    · rintro (⟨c, hc, he⟩ | ⟨j, hj, h⟩)
      · exact ⟨0, by simp, Or.inl ⟨c, hc, by simpa using he⟩⟩
      · refine ⟨j + 1, by simp; omega, ?_⟩
        rcases h with ⟨c, hc, he⟩ | ⟨i, hi, he⟩
        · rcases List.mem_cons.mp hc with rfl | hc
          · exact Or.inr ⟨0, by omega, by simpa using he⟩
          · exact Or.inl ⟨c, hc, by simpa using he⟩
        · exact Or.inr ⟨i + 1, by omega, by simpa using he⟩
    · rintro ⟨j, hj, h⟩
      cases j with
      | zero =>
        rcases h with ⟨c, hc, he⟩ | ⟨i, hi, _⟩
        · exact Or.inl ⟨c, hc, by simpa using he⟩
        · omega
      | succ j =>
        right
        refine ⟨j, by simpa using hj, ?_⟩
        rcases h with ⟨c, hc, he⟩ | ⟨i, hi, he⟩
        · exact Or.inl ⟨c, List.mem_cons_of_mem _ hc, by simpa using he⟩
        · cases i with
          | zero => exact Or.inl ⟨s, List.mem_cons_self, by simpa using he⟩
          | succ i => exact Or.inr ⟨i, by omega, by simpa using he⟩

theorem lastOr_append_list (d : Diagram) (xs ys : List Diagram) :
    lastOr d (xs ++ ys) = lastOr (lastOr d xs) ys := by
  induction xs generalizing d with
  | nil => rfl
  | cons x xs ih => simpa [lastOr] using ih x

/-- `normal_form` as a function of the `normalize` trace (same fuel = number of passes). -/
theorem normalFormLoop_of_trace {left : Bool} {fuel : Nat} {d : Diagram}
    {cache acc all : List Diagram} {fin : Bool}
    (h : normalizeTrace left fuel d acc = .ok (all, fin)) :
    ∃ steps, all = acc ++ steps ∧
      normalFormLoop left fuel d cache =
        if hasRepeat cache steps then .error .notImpl
        else if fin then .ok (lastOr d steps) else .error .fuel := by
  induction fuel generalizing d cache acc with
  | zero =>
    simp only [normalizeTrace, Except.ok.injEq, Prod.mk.injEq] at h
    obtain ⟨rfl, rfl⟩ := h
    exact ⟨[], by simp, by simp [normalFormLoop, hasRepeat]⟩
  | succ fuel ih =>
    simp only [normalizeTrace] at h
    simp only [normalFormLoop]
    split at h
    · cases h
    · rename_i d' ps hpass
      split at h
      · rename_i hempty
        simp only [Except.ok.injEq, Prod.mk.injEq] at h
        obtain ⟨rfl, rfl⟩ := h
        exact ⟨[], by simp, by simp [hempty, hasRepeat, lastOr]⟩
      · rename_i hne
        obtain ⟨steps', hall, hloop⟩ := ih (cache := ps.reverse ++ cache) h
        refine ⟨ps ++ steps', by rw [hall, List.append_assoc], ?_⟩
        have hd' : lastOr d ps = d' := (normalizePass_trace (d0 := d) (acc := []) rfl rfl hpass).2.1
        simp only [hne, Bool.false_eq_true, if_false, nfWalk_eq, hasRepeat_append]
        by_cases hr : hasRepeat cache ps = true
        · simp [hr]
        · simp only [hr, Bool.false_eq_true, if_false, Bool.false_or]
          rw [hloop, lastOr_append_list, hd']

/-- A trace that did not finish within `fuel` passes has at least `fuel` steps. -/
theorem normalizeTrace_length {left : Bool} {fuel : Nat} {d : Diagram} {acc all : List Diagram}
    (h : normalizeTrace left fuel d acc = .ok (all, false)) : acc.length + fuel ≤ all.length := by
  induction fuel generalizing d acc with
  | zero =>
    simp only [normalizeTrace, Except.ok.injEq, Prod.mk.injEq] at h
    rw [← h.1]; omega
  | succ fuel ih =>
    simp only [normalizeTrace] at h
    split at h
    · cases h
    · rename_i d' ps hpass
      split at h
      · simp at h
      · rename_i hne
        have := ih h
        have hps : 0 < ps.length := by
          cases ps with
          | nil => simp at hne
          | cons _ _ => simp
        simp only [List.length_append] at this
        omega

/-- What `==` compares (monoidal.py:438-442). -/
def Diagram.key (d : Diagram) : Ty × Ty × List Box × List Int := (d.dom, d.cod, d.boxes, d.offsets)

theorem Diagram.eqv_iff_key {a b : Diagram} : a.eqv b = true ↔ a.key = b.key := by
  rw [Diagram.eqv_iff]
  simp [Diagram.key]

/-- Pigeonhole: a list of diagrams all `==` to members of `U`, longer than `U`, repeats. -/
theorem exists_repeat_of_finite {steps U : List Diagram}
    (hU : ∀ s ∈ steps, ∃ u ∈ U, u.eqv s = true) (hlen : U.length < steps.length) :
    ∃ (i j : Nat) (hij : i < j) (hj : j < steps.length),
      (steps[i]'(by omega)).eqv steps[j] = true := by
  have hsub : steps.map Diagram.key ⊆ U.map Diagram.key := by
    intro k hk
    obtain ⟨s, hs, rfl⟩ := List.mem_map.mp hk
    obtain ⟨u, hu, he⟩ := hU s hs
    exact List.mem_map.mpr ⟨u, hu, Diagram.eqv_iff_key.mp he⟩
  have hnd : ¬ (steps.map Diagram.key).Nodup := by
    intro hn
    have := (List.subperm_of_subset hn hsub).length_le
    simp at this
    omega
  rw [List.Nodup, List.pairwise_iff_getElem] at hnd
  simp only [Classical.not_forall, ne_eq, Classical.not_not] at hnd
  obtain ⟨i, j, hi, hj, hij, he⟩ := hnd
  simp only [List.length_map] at hi hj
  refine ⟨i, j, hij, hj, Diagram.eqv_iff_key.mpr ?_⟩
  simpa using he

end DV
