/-
  Proofs/CatArrow.lean — well-typedness at the free-category level (Model/CatArrow.lean):
  the scanning constructor, the n-ary `then`, indexing, functor application, and the closure over
  the op language of the class `cat`.

  `LArrow.WF a = Chain a.dom a.boxes a.cod` (Proofs/WF.lean) is C01's statement for a plain arrow:
  reading the boxes from the domain, each box finds its own domain, and the reading ends on the
  codomain.
-/
import Proofs.WF
import Model.CatArrow

namespace DV

/-! ### The scanning constructor -/

theorem scanArrow_ok_iff {s c : Ty} {ls : List Layer} : scanArrow s ls = .ok c ↔ Chain s ls c := by
  induction ls generalizing s with
  | nil => simp [scanArrow, Chain]
  | cons l ls ih =>
    simp only [scanArrow, Chain]
    by_cases h : l.dom = s
    · simp [h, ih]
    · have h' : ¬ s = l.dom := fun e => h e.symm
      simp [h, h']

theorem scanArrow_err {s : Ty} {ls : List Layer} {e : Err} (h : scanArrow s ls = .error e) :
    e = .axiom := by
  induction ls generalizing s with
  | nil => simp [scanArrow] at h
  | cons l ls ih =>
    simp only [scanArrow] at h
    split at h
    · cases h; rfl
    · exact ih h

/-- `Arrow(dom, cod, boxes)` hands back a value exactly when the boxes read from `dom` to `cod`;
    the value carries the requested fields. -/
theorem LArrow.mk?_ok_iff {dom cod : Ty} {bs : List Layer} {a : LArrow} :
    LArrow.mk? dom cod bs = .ok a ↔ a = ⟨dom, cod, bs⟩ ∧ Chain dom bs cod := by
  unfold LArrow.mk?
  split
  · rename_i e he
    constructor
    · intro h; cases h
    · rintro ⟨_, hc⟩
      rw [scanArrow_ok_iff.mpr hc] at he; cases he
  · rename_i scan hs
    have hch := scanArrow_ok_iff.mp hs
    by_cases h : scan = cod
    · subst h
      simp only [ne_eq, not_true_eq_false, ↓reduceIte, Except.ok.injEq]
      exact ⟨fun h => ⟨h.symm, hch⟩, fun h => h.1.symm⟩
    · simp only [ne_eq, h, not_false_eq_true, ↓reduceIte]
      constructor
      · intro h'; cases h'
      · rintro ⟨_, hc⟩; exact absurd (chain_unique hch hc) h

theorem LArrow.mk?_wf {dom cod : Ty} {bs : List Layer} {a : LArrow}
    (h : LArrow.mk? dom cod bs = .ok a) : a.WF := by
  obtain ⟨rfl, hc⟩ := LArrow.mk?_ok_iff.mp h
  exact hc

/-- … and an ill-typed request is refused with an axiom error. -/
theorem LArrow.mk?_refused {dom cod : Ty} {bs : List Layer} (h : ¬ Chain dom bs cod) :
    LArrow.mk? dom cod bs = .error .axiom := by
  unfold LArrow.mk?
  split
  · rename_i e he; rw [scanArrow_err he]
  · rename_i scan hs
    have hch := scanArrow_ok_iff.mp hs
    by_cases hc : scan = cod
    · subst hc; exact absurd hch h
    · simp [hc]

/-! ### n-ary composition -/

/-- Every junction of `recv.then(b₁, …, bₙ)` matches, the first one — between the type `c` the
    receiver ends on and `b₁` — included. -/
def AJunctions : Ty → List LArrow → Prop
  | _, [] => True
  | c, b :: bs => c = b.dom ∧ AJunctions b.cod bs

/-- The codomain of the last argument (`c` if there is none). -/
def alastCod : Ty → List LArrow → Ty
  | c, [] => c
  | _, b :: bs => alastCod b.cod bs

theorem LArrow.thenN_ok {a d : LArrow} {bs : List LArrow} (h : a.thenN bs = .ok d) :
    AJunctions a.cod bs ∧
      d = ⟨a.dom, alastCod a.cod bs, a.boxes ++ (bs.map (·.boxes)).flatten⟩ := by
  induction bs generalizing a with
  | nil => simp only [LArrow.thenN, Except.ok.injEq] at h; subst h; simp [AJunctions, alastCod]
  | cons b bs ih =>
    simp only [LArrow.thenN] at h
    split at h
    · cases h
    · rename_i x hx
      obtain ⟨hc, rfl⟩ := LArrow.then_ok hx
      obtain ⟨hj, rfl⟩ := ih h
      exact ⟨⟨hc, hj⟩, by simp [alastCod]⟩

/-- The n-ary composition is accepted exactly when every junction matches — receiver/first
    argument included, whatever the receiver is (an arrow without boxes is no exception). -/
theorem LArrow.thenN_ok_iff (a : LArrow) (bs : List LArrow) :
    (∃ d, a.thenN bs = .ok d) ↔ AJunctions a.cod bs := by
  constructor
  · rintro ⟨d, h⟩; exact (LArrow.thenN_ok h).1
  · intro h
    induction bs generalizing a with
    | nil => exact ⟨a, rfl⟩
    | cons b bs ih =>
      obtain ⟨h1, h2⟩ := h
      obtain ⟨d, hd⟩ := ih ⟨a.dom, b.cod, a.boxes ++ b.boxes⟩ h2
      exact ⟨d, by simp [LArrow.thenN, LArrow.then_eq_ok h1, hd]⟩

theorem LArrow.thenN_refused {a : LArrow} {bs : List LArrow} (h : ¬ AJunctions a.cod bs) :
    a.thenN bs = .error .axiom := by
  induction bs generalizing a with
  | nil => simp [AJunctions] at h
  | cons b bs ih =>
    by_cases h1 : a.cod = b.dom
    · have : ¬ AJunctions (⟨a.dom, b.cod, a.boxes ++ b.boxes⟩ : LArrow).cod bs :=
        fun hj => h ⟨h1, hj⟩
      simp [LArrow.thenN, LArrow.then_eq_ok h1, ih this]
    · simp [LArrow.thenN, LArrow.then_err h1]

theorem LArrow.thenN_wf {a d : LArrow} {bs : List LArrow} (ha : a.WF) (hbs : ∀ b ∈ bs, b.WF)
    (h : a.thenN bs = .ok d) : d.WF := by
  induction bs generalizing a with
  | nil => simp only [LArrow.thenN, Except.ok.injEq] at h; subst h; exact ha
  | cons b bs ih =>
    simp only [LArrow.thenN] at h
    split at h
    · cases h
    · rename_i x hx
      exact ih (LArrow.then_wf ha (hbs b (List.mem_cons_self ..)) hx)
        (fun b' hb' => hbs b' (List.mem_cons_of_mem _ hb')) h

/-! ### Values -/

/-- A value is well-typed, and a value flagged as a box is the arrow of one box. -/
def CVal.WF (x : CVal) : Prop := x.arrow.WF ∧ (x.isBox = true → ∃ l : Layer, x.arrow = l.arrow)

theorem CVal.dagger_wf {x r : CVal} (hx : x.WF) (h : x.dagger = .ok r) :
    r.WF ∧ (x.arrow.WF → r.arrow.dom = x.arrow.cod ∧ r.arrow.cod = x.arrow.dom) := by
  unfold CVal.dagger at h
  split at h
  · rename_i hb
    split at h
    · rename_i l hl
      cases h
      refine ⟨⟨Layer.arrow_wf _, fun _ => ⟨_, rfl⟩⟩, fun _ => ?_⟩
      obtain ⟨l', hl'⟩ := hx.2 hb
      rw [hl'] at hl ⊢
      simp only [Layer.arrow, List.cons.injEq, and_true] at hl
      subst hl
      simp [Layer.arrow]
    · cases h
  · split at h
    · cases h
    · rename_i r' hr
      cases h
      refine ⟨⟨LArrow.sliceRev_wf none none hx.1 hr, by simp⟩, fun hw => ?_⟩
      -- the whole reversed slice of a well-typed arrow goes from its codomain to its domain
      unfold LArrow.sliceRev at hr
      have hall : pySliceRev x.arrow.boxes none none = x.arrow.boxes.reverse := by
        simp [pySliceRev, revLo, revHi]
      rw [hall] at hr
      have hd : Chain x.arrow.cod (x.arrow.boxes.reverse.map Layer.dag) x.arrow.dom := chain_dag hw
      split at hr
      · rename_i hnil
        simp only [List.map_eq_nil_iff, List.reverse_eq_nil_iff] at hnil
        unfold LArrow.sliceRevEmpty LArrow.idAfter at hr
        simp [hnil, revLo] at hr
        have hdc : x.arrow.dom = x.arrow.cod := by
          have := hw; unfold LArrow.WF at this; rw [hnil] at this; exact this
        cases hr
        exact ⟨hdc, rfl⟩
      · rename_i b bs hbs
        cases hr
        rw [hbs] at hd
        obtain ⟨h1, h2⟩ := chain_cons_last hd
        exact ⟨h1.symm, h2⟩

theorem CVal.sliceRev_wf {x r : CVal} (s t : Option Int) (hx : x.WF) (h : x.sliceRev s t = .ok r) :
    r.WF := by
  unfold CVal.sliceRev at h
  split at h
  · exact (CVal.dagger_wf hx h).1
  · split at h
    · cases h
    · rename_i r' hr; cases h
      exact ⟨LArrow.sliceRev_wf s t hx.1 hr, by simp⟩

theorem CVal.thenN_wf {x r : CVal} {args : List CVal} (hx : x.WF) (ha : ∀ y ∈ args, y.WF)
    (h : x.thenN args = .ok r) : r.WF := by
  unfold CVal.thenN at h
  split at h
  · cases h; exact hx
  · split at h
    · cases h
    · rename_i r' hr; cases h
      refine ⟨LArrow.thenN_wf hx.1 ?_ hr, by simp⟩
      intro b hb
      obtain ⟨y, hy, rfl⟩ := List.mem_map.mp hb
      exact (ha y hy).1

theorem LArrow.getItem_wf {a r : LArrow} {i : Int} (h : a.getItem i = .ok r) :
    (⟨r, true⟩ : CVal).WF := by
  unfold LArrow.getItem at h
  split at h
  · cases h
  · cases h; exact ⟨Layer.arrow_wf _, fun _ => ⟨_, rfl⟩⟩

/-! ### Functors -/

/-- Every image in the arrow mapping is itself a well-typed value (images are arrows the library
    handed back earlier).  Nothing is assumed about how they fit the object mapping. -/
def CFunctor.ImagesWF (F : CFunctor) : Prop := ∀ p ∈ F.ar, p.2.WF

theorem CFunctor.arLookup_wf {F : CFunctor} {l : Layer} {x : CVal} (hF : F.ImagesWF)
    (h : F.arLookup l = .ok x) : x.WF := by
  unfold CFunctor.arLookup at h
  split at h
  · rename_i p hp; cases h; exact hF p (List.mem_of_find?_eq_some hp)
  · cases h

theorem CFunctor.box_wf {F : CFunctor} {l : Layer} {x : CVal} (hF : F.ImagesWF)
    (h : F.box l = .ok x) : x.WF := by
  unfold CFunctor.box at h
  split at h
  · split at h
    · cases h
    · rename_i y hy; exact (CVal.dagger_wf (F.arLookup_wf hF hy) h).1
  · exact F.arLookup_wf hF h

theorem CFunctor.images_wf {F : CFunctor} {ls : List Layer} {xs : List LArrow} (hF : F.ImagesWF)
    (h : F.images ls = .ok xs) : ∀ x ∈ xs, x.WF := by
  induction ls generalizing xs with
  | nil => simp only [CFunctor.images, Except.ok.injEq] at h; subst h; simp
  | cons l ls ih =>
    simp only [CFunctor.images] at h
    split at h
    · cases h
    · rename_i x hx
      split at h
      · cases h
      · rename_i ys hys
        cases h
        intro y hy
        rcases List.mem_cons.mp hy with rfl | hy
        · exact (F.box_wf hF hx).1
        · exact ih hys y hy

/-- The code as written (cat.py:866-867): whatever the two mappings are, an image that is handed
    back is well-typed and starts on the image of the domain — because the images are composed
    with `then`, which checks every junction, the one after `Id(F(dom))` included. -/
theorem CFunctor.applyArrow_wf {F : CFunctor} {a r : LArrow} (hF : F.ImagesWF)
    (h : F.applyArrow a = .ok r) : r.WF ∧ F.obj a.dom = .ok r.dom := by
  unfold CFunctor.applyArrow at h
  split at h
  · cases h
  · rename_i t ht
    split at h
    · cases h
    · rename_i imgs hi
      refine ⟨LArrow.thenN_wf (LArrow.id_wf t) (F.images_wf hF hi) h, ?_⟩
      obtain ⟨_, rfl⟩ := LArrow.thenN_ok h
      exact ht

/-- The image is handed back exactly when both mappings are defined where they are used and the
    images compose, starting on the image of the domain; otherwise the request is refused. -/
theorem CFunctor.applyArrow_ok_iff (F : CFunctor) (a : LArrow) :
    (∃ r, F.applyArrow a = .ok r) ↔
      ∃ t imgs, F.obj a.dom = .ok t ∧ F.images a.boxes = .ok imgs ∧ AJunctions t imgs := by
  unfold CFunctor.applyArrow
  constructor
  · rintro ⟨r, h⟩
    split at h
    · cases h
    · rename_i t ht
      split at h
      · cases h
      · rename_i imgs hi
        exact ⟨t, imgs, ht, hi, (LArrow.thenN_ok h).1⟩
  · rintro ⟨t, imgs, ht, hi, hj⟩
    simp only [ht, hi]
    exact (LArrow.thenN_ok_iff (LArrow.id t) imgs).mpr hj

theorem CFunctor.applyArrow_refused {F : CFunctor} {a : LArrow} {t : Ty} {imgs : List LArrow}
    (ht : F.obj a.dom = .ok t) (hi : F.images a.boxes = .ok imgs) (hj : ¬ AJunctions t imgs) :
    F.applyArrow a = .error .axiom := by
  simp only [CFunctor.applyArrow, ht, hi]
  exact LArrow.thenN_refused hj

/-- `F` is typed on the box `l`: its image goes from the image of the domain to the image of the
    codomain. -/
def CFunctor.okOn (F : CFunctor) (l : Layer) : Prop :=
  ∀ x, F.box l = .ok x → F.obj l.dom = .ok x.arrow.dom ∧ F.obj l.cod = .ok x.arrow.cod

theorem CFunctor.images_chain {F : CFunctor} {s c t : Ty} {ls : List Layer} {imgs : List LArrow}
    (hch : Chain s ls c) (hs : F.obj s = .ok t) (hb : ∀ l ∈ ls, F.okOn l)
    (hi : F.images ls = .ok imgs) : AJunctions t imgs ∧ F.obj c = .ok (alastCod t imgs) := by
  induction ls generalizing s t imgs with
  | nil =>
    simp only [CFunctor.images, Except.ok.injEq] at hi; subst hi
    simp only [Chain] at hch; subst hch
    exact ⟨trivial, hs⟩
  | cons l ls ih =>
    simp only [CFunctor.images] at hi
    split at hi
    · cases hi
    · rename_i x hx
      split at hi
      · cases hi
      · rename_i ys hys
        cases hi
        obtain ⟨h1, h2⟩ := hch
        obtain ⟨hd, hc⟩ := hb l (List.mem_cons_self ..) x hx
        obtain ⟨j, e⟩ := ih h2 hc (fun l' hl' => hb l' (List.mem_cons_of_mem _ hl')) hys
        refine ⟨⟨?_, j⟩, e⟩
        rw [h1, hd] at hs
        cases hs; rfl

/-- If every box image is typed `F(dom) → F(cod)`, the image of a well-typed arrow is never
    refused for its types, is well-typed, and goes from the image of the domain to the image of
    the codomain. -/
theorem CFunctor.applyArrow_typed {F : CFunctor} {a : LArrow} {t : Ty} {imgs : List LArrow}
    (hF : F.ImagesWF) (ha : a.WF) (hb : ∀ l ∈ a.boxes, F.okOn l)
    (ht : F.obj a.dom = .ok t) (hi : F.images a.boxes = .ok imgs) :
    ∃ r, F.applyArrow a = .ok r ∧ r.WF ∧ F.obj a.dom = .ok r.dom ∧ F.obj a.cod = .ok r.cod := by
  obtain ⟨j, e⟩ := F.images_chain ha ht hb hi
  obtain ⟨r, hr⟩ := (F.applyArrow_ok_iff a).mpr ⟨t, imgs, ht, hi, j⟩
  obtain ⟨w, d⟩ := F.applyArrow_wf hF hr
  refine ⟨r, hr, w, d, ?_⟩
  simp only [CFunctor.applyArrow, ht, hi] at hr
  obtain ⟨_, rfl⟩ := LArrow.thenN_ok hr
  exact e

theorem CFunctor.apply_wf {F : CFunctor} {x r : CVal} (hF : F.ImagesWF) (h : F.apply x = .ok r) :
    r.WF := by
  unfold CFunctor.apply at h
  split at h
  · split at h
    · exact F.box_wf hF h
    · cases h
  · split at h
    · cases h
    · rename_i r' hr; cases h
      exact ⟨(F.applyArrow_wf hF hr).1, by simp⟩

/-! ### Closure over the op language of the class `cat` -/

mutual
/-- Every functor occurring in the expression has well-typed images. -/
def CExpr.ImagesWF : CExpr → Prop
  | .mk .. | .box _ | .id _ => True
  | .thenN r args => r.ImagesWF ∧ CExpr.ImagesWFList args
  | .dagger a | .slice a _ _ | .sliceRev a _ _ | .getItem a _ => a.ImagesWF
  | .functor F a => F.ImagesWF ∧ a.ImagesWF
def CExpr.ImagesWFList : List CExpr → Prop
  | [] => True
  | a :: as => a.ImagesWF ∧ CExpr.ImagesWFList as
end

mutual
theorem CExpr.eval_wf (e : CExpr) {x : CVal} (hF : e.ImagesWF) (h : e.eval = .ok x) : x.WF := by
  match e with
  | .mk dom cod boxes =>
    simp only [CExpr.eval] at h
    split at h
    · cases h
    · rename_i a ha; cases h; exact ⟨LArrow.mk?_wf ha, by simp⟩
  | .box l => simp only [CExpr.eval, Except.ok.injEq] at h; subst h
              exact ⟨Layer.arrow_wf l, fun _ => ⟨l, rfl⟩⟩
  | .id t => simp only [CExpr.eval, Except.ok.injEq] at h; subst h
             exact ⟨LArrow.id_wf t, by simp⟩
  | .thenN r args =>
    simp only [CExpr.eval] at h
    simp only [CExpr.ImagesWF] at hF
    split at h
    · cases h
    · rename_i y hy
      split at h
      · cases h
      · rename_i ys hys
        exact CVal.thenN_wf (CExpr.eval_wf r hF.1 hy) (CExpr.evalList_wf args hF.2 hys) h
  | .dagger a =>
    simp only [CExpr.eval] at h
    simp only [CExpr.ImagesWF] at hF
    split at h
    · cases h
    · rename_i y hy; exact (CVal.dagger_wf (CExpr.eval_wf a hF hy) h).1
  | .slice a s t =>
    simp only [CExpr.eval] at h
    simp only [CExpr.ImagesWF] at hF
    split at h
    · cases h
    · rename_i y hy
      split at h
      · cases h
      · rename_i r hr; cases h
        exact ⟨LArrow.slice_wf s t (CExpr.eval_wf a hF hy).1 hr, by simp⟩
  | .sliceRev a s t =>
    simp only [CExpr.eval] at h
    simp only [CExpr.ImagesWF] at hF
    split at h
    · cases h
    · rename_i y hy; exact CVal.sliceRev_wf s t (CExpr.eval_wf a hF hy) h
  | .getItem a i =>
    simp only [CExpr.eval] at h
    split at h
    · cases h
    · split at h
      · cases h
      · rename_i r hr; cases h; exact LArrow.getItem_wf hr
  | .functor F a =>
    simp only [CExpr.eval] at h
    simp only [CExpr.ImagesWF] at hF
    split at h
    · cases h
    · exact F.apply_wf hF.1 h
theorem CExpr.evalList_wf (es : List CExpr) {xs : List CVal} (hF : CExpr.ImagesWFList es)
    (h : CExpr.evalList es = .ok xs) : ∀ x ∈ xs, x.WF := by
  match es with
  | [] => simp only [CExpr.evalList, Except.ok.injEq] at h; subst h; simp
  | a :: as =>
    simp only [CExpr.evalList] at h
    simp only [CExpr.ImagesWFList] at hF
    split at h
    · cases h
    · rename_i y hy
      split at h
      · cases h
      · rename_i ys hys
        simp only [Except.ok.injEq] at h; subst h
        intro z hz
        rcases List.mem_cons.mp hz with rfl | hz
        · exact CExpr.eval_wf a hF.1 hy
        · exact CExpr.evalList_wf as hF.2 hys z hz
end

end DV
