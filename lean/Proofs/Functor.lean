/-
  Proofs/Functor.lean — C04: typing and functoriality of `Functor.apply`.
-/
import Proofs.WFOps
import Proofs.Laws
import Model.Functor

namespace DV

/-! ### `then` in closed form and its associativity / units -/

theorem Diagram.then_eqF {a b : Diagram} (h : a.layers.cod = b.layers.dom) :
    a.then b = .ok ⟨a.dom, b.cod, a.boxes ++ b.boxes, a.offsets ++ b.offsets,
      ⟨a.layers.dom, b.layers.cod, a.layers.boxes ++ b.layers.boxes⟩⟩ := by
  simp [Diagram.then, LArrow.then_eq_ok h]

theorem Diagram.then_okF {a b d : Diagram} (h : a.then b = .ok d) :
    a.layers.cod = b.layers.dom ∧
    d = ⟨a.dom, b.cod, a.boxes ++ b.boxes, a.offsets ++ b.offsets,
      ⟨a.layers.dom, b.layers.cod, a.layers.boxes ++ b.layers.boxes⟩⟩ := by
  obtain ⟨ls, hls, rfl⟩ := Diagram.then_ok h
  obtain ⟨hc, rfl⟩ := LArrow.then_ok hls
  exact ⟨hc, rfl⟩

/-- Associativity of `>>` as an equality of results (no well-typedness needed). -/
theorem Diagram.then_assocF {a b c x y : Diagram} (h1 : a.then b = .ok x) (h2 : x.then c = .ok y) :
    ∃ z, b.then c = .ok z ∧ a.then z = .ok y := by
  obtain ⟨c1, rfl⟩ := Diagram.then_okF h1
  obtain ⟨c2, rfl⟩ := Diagram.then_okF h2
  simp only at c2
  refine ⟨_, Diagram.then_eqF c2, ?_⟩
  rw [Diagram.then_eqF (by simpa using c1)]
  simp [List.append_assoc]

theorem Diagram.then_assocR {a b c z y : Diagram} (h1 : b.then c = .ok z) (h2 : a.then z = .ok y) :
    ∃ x, a.then b = .ok x ∧ x.then c = .ok y := by
  obtain ⟨c1, rfl⟩ := Diagram.then_okF h1
  obtain ⟨c2, rfl⟩ := Diagram.then_okF h2
  simp only at c2
  refine ⟨_, Diagram.then_eqF c2, ?_⟩
  rw [Diagram.then_eqF (by simpa using c1)]
  simp [List.append_assoc]

theorem Diagram.then_assocM {a b c x z : Diagram} (h1 : a.then b = .ok x) (h2 : b.then c = .ok z) :
    ∃ y, x.then c = .ok y ∧ a.then z = .ok y := by
  obtain ⟨c1, rfl⟩ := Diagram.then_okF h1
  obtain ⟨c2, rfl⟩ := Diagram.then_okF h2
  refine ⟨_, Diagram.then_eqF (by simpa using c2), ?_⟩
  rw [Diagram.then_eqF (by simpa using c1)]
  simp [List.append_assoc]

theorem Diagram.id_thenF {t : Ty} {d : Diagram} (hd : d.WF) (h : d.dom = t) :
    (Diagram.id t).then d = .ok d := by
  have : (Diagram.id t).layers.cod = d.layers.dom := by simp [Diagram.id, LArrow.id, hd.ldom, h]
  rw [Diagram.then_eqF this]
  cases d with | mk dom cod boxes offsets layers =>
  cases layers with | mk ld lc lb =>
  have h1 := hd.ldom
  simp only at h h1
  subst h h1
  simp [Diagram.id, LArrow.id]

theorem Diagram.then_idF {t : Ty} {d : Diagram} (hd : d.WF) (h : d.cod = t) :
    d.then (Diagram.id t) = .ok d := by
  have : d.layers.cod = (Diagram.id t).layers.dom := by simp [Diagram.id, LArrow.id, hd.lcod, h]
  rw [Diagram.then_eqF this]
  cases d with | mk dom cod boxes offsets layers =>
  cases layers with | mk ld lc lb =>
  have h1 := hd.lcod
  simp only at h h1
  subst h h1
  simp [Diagram.id, LArrow.id]

/-! ### Images of types -/

theorem Functor.ty_append (F : Functor) {a b ta tb : Ty} (ha : F.ty a = .ok ta) (hb : F.ty b = .ok tb) :
    F.ty (a ++ b) = .ok (ta ++ tb) := by
  induction a generalizing ta with
  | nil => simp [Functor.ty] at ha; subst ha; simpa using hb
  | cons o os ih =>
    simp only [Functor.ty] at ha
    split at ha
    · cases ha
    · rename_i t ht
      split at ha
      · cases ha
      · rename_i ts hts
        cases ha
        simp only [List.cons_append, Functor.ty, ht, ih hts, List.append_assoc]

theorem Functor.ty_append_inv (F : Functor) {a b t : Ty} (h : F.ty (a ++ b) = .ok t) :
    ∃ ta tb, F.ty a = .ok ta ∧ F.ty b = .ok tb ∧ t = ta ++ tb := by
  induction a generalizing t with
  | nil => exact ⟨[], t, rfl, by simpa using h, rfl⟩
  | cons o os ih =>
    simp only [List.cons_append, Functor.ty] at h
    split at h
    · cases h
    · rename_i t1 ht1
      split at h
      · cases h
      · rename_i ts hts
        cases h
        obtain ⟨ta, tb, h1, h2, rfl⟩ := ih hts
        exact ⟨t1 ++ ta, tb, by simp [Functor.ty, ht1, h1], h2, by simp⟩

/-! ### Typing of the image -/

/-- `F` is well-typed on box `b`: its image is a well-typed diagram from the image of the domain
    to the image of the codomain (the only requirement the property puts on a functor). -/
def Functor.okOn (F : Functor) (b : Box) : Prop :=
  ∀ x, F.box b = .ok x → x.WF ∧ F.ty b.dom = .ok x.dom ∧ F.ty b.cod = .ok x.cod

theorem Functor.stepBox_props (F : Functor) {scan : Ty} {result res : Diagram} {b : Box} {off : Int}
    {scan' : Ty} (hr : result.WF) (hb : F.okOn b)
    (h : F.stepBox scan result b off = .ok (scan', res)) :
    res.WF ∧ res.dom = result.dom ∧ F.ty scan' = .ok res.cod := by
  unfold Functor.stepBox at h
  split at h
  · rename_i l r x hl hrr hx
    split at h
    · cases h
    · rename_i lx hlx
      split at h
      · cases h
      · rename_i layer hlayer
        split at h
        · cases h
        · rename_i res' hres
          simp only [Except.ok.injEq, Prod.mk.injEq] at h
          obtain ⟨rfl, rfl⟩ := h
          obtain ⟨xw, xd, xc⟩ := hb x hx
          obtain ⟨w1, d1, c1⟩ := Diagram.tensor_props (Diagram.id_wf l) xw hlx
          obtain ⟨w2, d2, c2⟩ := Diagram.tensor_props w1 (Diagram.id_wf r) hlayer
          obtain ⟨w3, d3, c3⟩ := Diagram.then_props hr w2 hres
          refine ⟨w3, d3, ?_⟩
          rw [c3, c2, c1]
          simp only [Diagram.id]
          have := F.ty_append (F.ty_append hl xc) hrr
          simpa using this
  all_goals cases h

theorem Functor.loop_props (F : Functor) {scan tscan : Ty} {result r : Diagram} {bs : List Box}
    {os : List Int} {c : Ty} (hr : result.WF) (hrc : F.ty scan = .ok tscan)
    (hrcod : result.cod = tscan) (hb : ∀ b ∈ bs, F.okOn b)
    (hlen : bs.length = os.length)
    (hfit : ∃ ls : List Layer, Chain scan ls c ∧ ls.map (·.box) = bs ∧
      ls.map (fun l => (l.left.length : Int)) = os)
    (h : F.loop scan result bs os = .ok r) :
    r.WF ∧ r.dom = result.dom ∧ F.ty c = .ok r.cod := by
  induction bs generalizing scan tscan result os with
  | nil =>
    cases os with
    | nil =>
      simp only [Functor.loop, Except.ok.injEq] at h; subst h
      obtain ⟨ls, hch, hm, _⟩ := hfit
      have : ls = [] := by simpa using hm
      subst this
      simp [Chain] at hch; subst hch
      exact ⟨hr, rfl, by rw [hrcod]; exact hrc⟩
    | cons o os => simp at hlen
  | cons b bs ih =>
    cases os with
    | nil => simp at hlen
    | cons o os =>
      obtain ⟨ls, hch, hm, ho⟩ := hfit
      cases ls with
      | nil => simp at hm
      | cons l ls =>
        simp only [List.map_cons, List.cons.injEq] at hm ho
        obtain ⟨hm1, hm2⟩ := hm
        obtain ⟨ho1, ho2⟩ := ho
        obtain ⟨hs, hch'⟩ := hch
        simp only [Functor.loop] at h
        split at h
        · cases h
        · rename_i scan' res hstep
          -- the scan splits at the offset exactly as the layer says
          have hleft : pySlice scan none (some o) = l.left := by
            rw [← ho1, pySlice_take, hs]; simp [Layer.dom]
          have hright : pySlice scan (some (o + b.dom.length)) none = l.right := by
            have e : (o + (b.dom.length : Int)) = ((l.left.length + b.dom.length : Nat) : Int) := by
              rw [← ho1]; simp
            rw [e, pySlice_drop, hs, ← hm1]
            simp [Layer.dom]
          obtain ⟨w, d, t⟩ := F.stepBox_props hr (hb b (List.mem_cons_self ..)) hstep
          have hscan' : scan' = l.cod := by
            unfold Functor.stepBox at hstep
            split at hstep
            · split at hstep
              · cases hstep
              · split at hstep
                · cases hstep
                · split at hstep
                  · cases hstep
                  · simp only [Except.ok.injEq, Prod.mk.injEq] at hstep
                    rw [← hstep.1, hleft, hright, ← hm1]; rfl
            all_goals cases hstep
          obtain ⟨a1, a2, a3⟩ := ih (scan := scan') (result := res) w t rfl
            (fun b' hb' => hb b' (List.mem_cons_of_mem _ hb')) (by simpa using hlen)
            ⟨ls, by rw [hscan']; exact hch', hm2, ho2⟩ h
          exact ⟨a1, a2.trans d, a3⟩

/-- The image of a well-typed diagram under a functor that is well-typed on its boxes is
    well-typed, and its domain and codomain are the images of the domain and codomain. -/
theorem Functor.apply_props (F : Functor) {d r : Diagram} (hd : d.WF)
    (hb : ∀ b ∈ d.boxes, F.okOn b) (h : F.apply d = .ok r) :
    r.WF ∧ F.ty d.dom = .ok r.dom ∧ F.ty d.cod = .ok r.cod := by
  unfold Functor.apply at h
  split at h
  · cases h
  · rename_i t ht
    have hfit : ∃ ls : List Layer, Chain d.dom ls d.cod ∧ ls.map (·.box) = d.boxes ∧
        ls.map (fun l => (l.left.length : Int)) = d.offsets := by
      refine ⟨d.layers.boxes, ?_, hd.boxes.symm, hd.offsets.symm⟩
      have := hd.chain
      rwa [LArrow.WF, hd.ldom, hd.lcod] at this
    have hlen : d.boxes.length = d.offsets.length := by rw [hd.boxes, hd.offsets]; simp
    obtain ⟨a, b, c⟩ := F.loop_props (Diagram.id_wf t) ht rfl hb hlen hfit h
    exact ⟨a, by rw [b]; exact ht, c⟩

/-- `F(Id(t)) = Id(F(t))`. -/
theorem Functor.apply_id (F : Functor) {t t' : Ty} (h : F.ty t = .ok t') :
    F.apply (Diagram.id t) = .ok (Diagram.id t') := by
  simp [Functor.apply, Diagram.id, h, Functor.loop]

end DV

namespace DV

/-! ### `F(a >> b) = F(a) >> F(b)` -/

/-- The type reached by scanning boxes and offsets from `scan` (monoidal.py:844). -/
def scanAfter : Ty → List Box → List Int → Ty
  | scan, b :: bs, o :: os =>
    scanAfter (pySlice scan none (some o) ++ b.cod ++ pySlice scan (some (o + b.dom.length)) none) bs os
  | scan, _, _ => scan

theorem Functor.stepBox_scan (F : Functor) {scan scan' : Ty} {result res : Diagram} {b : Box}
    {off : Int} (h : F.stepBox scan result b off = .ok (scan', res)) :
    scan' = pySlice scan none (some off) ++ b.cod ++ pySlice scan (some (off + b.dom.length)) none := by
  unfold Functor.stepBox at h
  split at h
  · split at h
    · cases h
    · split at h
      · cases h
      · split at h
        · cases h
        · simp only [Except.ok.injEq, Prod.mk.injEq] at h; exact h.1.symm
  all_goals cases h

theorem Functor.loop_append (F : Functor) {scan : Ty} {res r : Diagram} {bs1 bs2 : List Box}
    {os1 os2 : List Int} (hlen : bs1.length = os1.length)
    (h : F.loop scan res (bs1 ++ bs2) (os1 ++ os2) = .ok r) :
    ∃ r1, F.loop scan res bs1 os1 = .ok r1 ∧ F.loop (scanAfter scan bs1 os1) r1 bs2 os2 = .ok r := by
  induction bs1 generalizing scan res os1 with
  | nil =>
    cases os1 with
    | nil => exact ⟨res, rfl, by simpa [scanAfter] using h⟩
    | cons o os => simp at hlen
  | cons b bs ih =>
    cases os1 with
    | nil => simp at hlen
    | cons o os =>
      simp only [List.cons_append, Functor.loop] at h ⊢
      split at h
      · cases h
      · rename_i scan' res' hstep
        have := F.stepBox_scan hstep
        subst this
        simp only [scanAfter]
        exact ih (by simpa using hlen) h

theorem Functor.loop_append' (F : Functor) {scan : Ty} {res r1 r : Diagram} {bs1 bs2 : List Box}
    {os1 os2 : List Int} (hlen : bs1.length = os1.length)
    (h1 : F.loop scan res bs1 os1 = .ok r1)
    (h2 : F.loop (scanAfter scan bs1 os1) r1 bs2 os2 = .ok r) :
    F.loop scan res (bs1 ++ bs2) (os1 ++ os2) = .ok r := by
  induction bs1 generalizing scan res os1 with
  | nil =>
    cases os1 with
    | nil => simp only [Functor.loop, Except.ok.injEq] at h1; subst h1; simpa [scanAfter] using h2
    | cons o os => simp at hlen
  | cons b bs ih =>
    cases os1 with
    | nil => simp at hlen
    | cons o os =>
      simp only [List.cons_append, Functor.loop] at h1 ⊢
      split at h1
      · cases h1
      · rename_i scan' res' hstep
        have := F.stepBox_scan hstep
        subst this
        simp only [scanAfter] at h2
        exact ih (by simpa using hlen) h1 h2

theorem Functor.stepBox_acc (F : Functor) {scan scan' : Ty} {a r0 r0' res : Diagram} {b : Box}
    {o : Int} (h0 : a.then r0 = .ok r0') (h : F.stepBox scan r0 b o = .ok (scan', res)) :
    ∃ res', F.stepBox scan r0' b o = .ok (scan', res') ∧ a.then res = .ok res' := by
  unfold Functor.stepBox at h ⊢
  split at h
  · rename_i l r x hl hr hx
    split at h
    · cases h
    · rename_i lx hlx
      split at h
      · cases h
      · rename_i layer hlayer
        split at h
        · cases h
        · rename_i res0 hres
          simp only [Except.ok.injEq, Prod.mk.injEq] at h
          obtain ⟨rfl, rfl⟩ := h
          obtain ⟨y, hy1, hy2⟩ := Diagram.then_assocM h0 hres
          exact ⟨y, by simp only [hy1], hy2⟩
  all_goals cases h

/-- Running the loop from `a >> r0` is `a >>` running it from `r0`. -/
theorem Functor.loop_acc (F : Functor) {scan : Ty} {a r0 r0' q : Diagram} {bs : List Box}
    {os : List Int} (h0 : a.then r0 = .ok r0') (h : F.loop scan r0 bs os = .ok q) :
    ∃ q', F.loop scan r0' bs os = .ok q' ∧ a.then q = .ok q' := by
  induction bs generalizing scan r0 r0' os with
  | nil => simp only [Functor.loop, Except.ok.injEq] at h; subst h; exact ⟨r0', rfl, h0⟩
  | cons b bs ih =>
    cases os with
    | nil => simp only [Functor.loop, Except.ok.injEq] at h; subst h; exact ⟨r0', rfl, h0⟩
    | cons o os =>
      simp only [Functor.loop] at h ⊢
      split at h
      · cases h
      · rename_i scan' res hstep
        obtain ⟨res', hs', ht'⟩ := F.stepBox_acc h0 hstep
        simp only [hs']
        exact ih ht' h

theorem scanAfter_chain {scan c : Ty} {ls : List Layer} (h : Chain scan ls c) :
    scanAfter scan (ls.map (·.box)) (ls.map (fun l => (l.left.length : Int))) = c := by
  induction ls generalizing scan with
  | nil => simp [Chain] at h; simp [scanAfter, h]
  | cons l ls ih =>
    obtain ⟨hs, hc⟩ := h
    simp only [List.map_cons, scanAfter]
    have hleft : pySlice scan none (some (l.left.length : Int)) = l.left := by
      rw [pySlice_take, hs]; simp [Layer.dom]
    have hright : pySlice scan (some ((l.left.length : Int) + l.box.dom.length)) none = l.right := by
      have e : ((l.left.length : Int) + (l.box.dom.length : Int)) =
          ((l.left.length + l.box.dom.length : Nat) : Int) := by simp
      rw [e, pySlice_drop, hs]; simp [Layer.dom]
    rw [hleft, hright]
    exact ih hc

/-- C04: the image of a composite is the composite of the images. -/
theorem Functor.apply_then (F : Functor) {a b ab fa fb : Diagram} (ha : a.WF) (hb : b.WF)
    (hok : ∀ bx ∈ a.boxes, F.okOn bx)
    (hab : a.then b = .ok ab) (hfa : F.apply a = .ok fa) (hfb : F.apply b = .ok fb) :
    ∃ r, fa.then fb = .ok r ∧ F.apply ab = .ok r := by
  obtain ⟨faw, _, facod⟩ := F.apply_props ha hok hfa
  obtain ⟨hc, rfl⟩ := Diagram.then_okF hab
  have hcod : a.cod = b.dom := by rw [← ha.lcod, ← hb.ldom]; exact hc
  unfold Functor.apply at hfa hfb ⊢
  split at hfa
  · cases hfa
  · rename_i ta hta
    split at hfb
    · cases hfb
    · rename_i tb htb
      simp only [hta]
      have htb' : tb = fa.cod := by
        rw [hcod, htb] at facod; exact (Except.ok.inj facod)
      have hid : fa.then (Diagram.id tb) = .ok fa := Diagram.then_idF faw htb'.symm
      obtain ⟨q', hq1, hq2⟩ := F.loop_acc hid hfb
      refine ⟨q', hq2, ?_⟩
      have hlen : a.boxes.length = a.offsets.length := by rw [ha.boxes, ha.offsets]; simp
      apply F.loop_append' hlen hfa
      have : scanAfter a.dom a.boxes a.offsets = b.dom := by
        rw [ha.boxes, ha.offsets, ← hcod]
        apply scanAfter_chain
        have := ha.chain
        rwa [LArrow.WF, ha.ldom, ha.lcod] at this
      rw [this]; exact hq1

end DV

namespace DV

/-! ### Adjoints: `F(t.l) = F(t).l`, `F(t.r) = F(t).r` for every winding number -/

@[simp] theorem Ob.l_r (o : Ob) : o.l.r = o := by cases o; simp [Ob.l, Ob.r]
@[simp] theorem Ob.r_l (o : Ob) : o.r.l = o := by cases o; simp [Ob.l, Ob.r]

theorem Ty.l_r (t : Ty) : Ty.r (Ty.l t) = t := by
  simp [Ty.l, Ty.r, List.map_reverse, Function.comp_def]
theorem Ty.r_l (t : Ty) : Ty.l (Ty.r t) = t := by
  simp [Ty.l, Ty.r, List.map_reverse, Function.comp_def]

theorem Ty.l_append (a b : Ty) : Ty.l (a ++ b) = Ty.l b ++ Ty.l a := by simp [Ty.l]
theorem Ty.r_append (a b : Ty) : Ty.r (a ++ b) = Ty.r b ++ Ty.r a := by simp [Ty.r]

theorem iterate_succ' {α} (f : α → α) (n : Nat) (x : α) : iterate f (n+1) x = f (iterate f n x) := by
  induction n generalizing x with
  | zero => rfl
  | succ n ih => simp only [iterate] at ih ⊢; exact ih (f x)

theorem Functor.ob1_l (F : Functor) {o : Ob} {t : Ty} (h : F.ob1 o = .ok t) :
    F.ob1 o.l = .ok (Ty.l t) := by
  cases o with | mk name z =>
  show F.ob1 ⟨name, z - 1⟩ = .ok (Ty.l t)
  unfold Functor.ob1 at h ⊢
  skip
  split at h
  · cases h
  · rename_i img himg
    simp only [himg]
    by_cases hz : z < 0
    · rw [if_pos hz] at h
      have hz' : z - 1 < 0 := by omega
      rw [if_pos hz']
      have e : (-(z - 1)).toNat = (-z).toNat + 1 := by omega
      rw [e, iterate_succ']
      cases h; rfl
    · rw [if_neg hz] at h
      by_cases h0 : z = 0
      · have hz' : z - 1 < 0 := by omega
        rw [if_pos hz']
        have e : (-(z - 1)).toNat = 1 := by omega
        have e0 : z.toNat = 0 := by omega
        rw [e0] at h
        rw [e]; cases h; rfl
      · have hz' : ¬ (z - 1 < 0) := by omega
        rw [if_neg hz']
        have e : z.toNat = (z - 1).toNat + 1 := by omega
        rw [e, iterate_succ'] at h
        cases h
        rw [Ty.r_l]

theorem Functor.ob1_r (F : Functor) {o : Ob} {t : Ty} (h : F.ob1 o = .ok t) :
    F.ob1 o.r = .ok (Ty.r t) := by
  cases o with | mk name z =>
  show F.ob1 ⟨name, z + 1⟩ = .ok (Ty.r t)
  unfold Functor.ob1 at h ⊢
  skip
  split at h
  · cases h
  · rename_i img himg
    simp only [himg]
    by_cases hz : z < 0
    · rw [if_pos hz] at h
      by_cases h1 : z + 1 < 0
      · rw [if_pos h1]
        have e : (-z).toNat = (-(z + 1)).toNat + 1 := by omega
        rw [e, iterate_succ'] at h
        cases h
        rw [Ty.l_r]
      · rw [if_neg h1]
        have e : (-z).toNat = 1 := by omega
        have e0 : (z + 1).toNat = 0 := by omega
        rw [e] at h
        rw [e0]; cases h
        simp only [iterate]; rw [Ty.l_r]
    · rw [if_neg hz] at h
      have hz' : ¬ (z + 1 < 0) := by omega
      rw [if_neg hz']
      have e : (z + 1).toNat = z.toNat + 1 := by omega
      rw [e, iterate_succ']
      cases h; rfl

/-- Rigid functors send left adjoints to left adjoints, for types of any length and any winding
    numbers. -/
theorem Functor.ty_l (F : Functor) {t t' : Ty} (h : F.ty t = .ok t') : F.ty (Ty.l t) = .ok (Ty.l t') := by
  induction t generalizing t' with
  | nil => simp [Functor.ty] at h; subst h; rfl
  | cons o os ih =>
    simp only [Functor.ty] at h
    split at h
    · cases h
    · rename_i t1 ht1
      split at h
      · cases h
      · rename_i ts hts
        cases h
        have e : Ty.l (o :: os) = Ty.l os ++ Ty.l [o] := by
          have := Ty.l_append [o] os; simpa using this
        rw [e, Ty.l_append]
        apply F.ty_append (ih hts)
        have : Ty.l [o] = [o.l] := by simp [Ty.l]
        rw [this]
        simp [Functor.ty, F.ob1_l ht1]

theorem Functor.ty_r (F : Functor) {t t' : Ty} (h : F.ty t = .ok t') : F.ty (Ty.r t) = .ok (Ty.r t') := by
  induction t generalizing t' with
  | nil => simp [Functor.ty] at h; subst h; rfl
  | cons o os ih =>
    simp only [Functor.ty] at h
    split at h
    · cases h
    · rename_i t1 ht1
      split at h
      · cases h
      · rename_i ts hts
        cases h
        have e : Ty.r (o :: os) = Ty.r os ++ Ty.r [o] := by
          have := Ty.r_append [o] os; simpa using this
        rw [e, Ty.r_append]
        apply F.ty_append (ih hts)
        have : Ty.r [o] = [o.r] := by simp [Ty.r]
        rw [this]
        simp [Functor.ty, F.ob1_r ht1]

/-! ### Boxes with their own rule -/

theorem Functor.box_swap (F : Functor) (b : Box) (h : b.kind = .swap) {l r : Ty}
    (hl : F.ty (b.dom.take 1) = .ok l) (hr : F.ty (b.dom.drop 1) = .ok r) :
    F.box b = Diagram.swap l r := by
  unfold Functor.box; rw [h]; simp only []; rw [hl, hr]

theorem Functor.box_cup (F : Functor) (b : Box) (h : b.kind = .cup) {l r : Ty}
    (hl : F.ty (b.dom.take 1) = .ok l) (hr : F.ty (b.dom.drop 1) = .ok r) :
    F.box b = Diagram.cups l r := by
  unfold Functor.box; rw [h]; simp only []; rw [hl, hr]

theorem Functor.box_cap (F : Functor) (b : Box) (h : b.kind = .cap) {l r : Ty}
    (hl : F.ty (b.cod.take 1) = .ok l) (hr : F.ty (b.cod.drop 1) = .ok r) :
    F.box b = Diagram.caps l r := by
  unfold Functor.box; rw [h]; simp only []; rw [hl, hr]

/-- The image of a daggered generator is the dagger of the image of the generator. -/
theorem Functor.box_dagger (F : Functor) (b : Box) (hk : b.kind = .gen) (hd : b.dagger = false)
    {x : Diagram} (hx : F.box b = .ok x) : F.box b.dag = .ok x.dagger := by
  have hdag : b.dag.dagger = true := by simp [Box.dag, hk, hd]
  have hkd : b.dag.kind = .gen := by simp [Box.dag, hk]
  simp only [Functor.box, hk, hd] at hx
  simp only [Functor.box, hkd, hdag, if_true, Box.dag_dag]
  simp only [Bool.false_eq_true, if_false] at hx
  rw [hx]

end DV
