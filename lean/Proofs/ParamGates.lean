/-
  Proofs/ParamGates.lean — per-gate gradient rules of C15, symbolic in the phase.

  A rotation of phase φ = p(x) enters its array only through ν = e^{iπφ} and ν' = e^{-iπφ}
  (gates.py:381-445: half_theta = π·phase).  Everything is stated over an arbitrary commutative
  ring `K` with a derivation `d` and elements
      I (I·I = −1),  pi,  p' (the derivative of the phase),  ν, ν' (ν·ν' = 1),
      d.D ν = I·pi·p'·ν,   I and pi constants,
  so that instantiating K = ℂ-valued smooth functions of the parameters gives "for all phases
  p, all parameter values".  Shifting the phase by 1/2 multiplies ν by I (and ν' by −I);
  shifting it by ±1/4 multiplies ν by ζ^{±1} with ζ·ζ = I.
-/
import Proofs.Param

set_option linter.unusedSectionVars false
set_option linter.unusedVariables false

namespace DV.Param

section Phase
variable {K : Type} [CommRing K] (d : Deriv K)
variable (I pi p' ν ν' : K)

/-- Hypotheses on the phase ring, bundled. -/
structure PhaseHyp : Prop where
  I_sq : I * I = -1
  inv : ν * ν' = 1
  D_nu : d.D ν = I * pi * p' * ν
  cI : d.D I = 0
  cpi : d.D pi = 0

variable {d I pi p' ν ν'}

/-- The derivative of ν' = ν⁻¹ follows. -/
theorem PhaseHyp.D_nu' (H : PhaseHyp d I pi p' ν ν') : d.D ν' = -(I * pi * p' * ν') := by
  have h : d.D ν * ν' + ν * d.D ν' = 0 := by
    rw [← d.mul, H.inv, d.one]
  linear_combination ν' * h - d.D ν' * H.inv - ν' ^ 2 * H.D_nu - I * pi * p' * ν' * H.inv

/-- Derivative of a form linear in ν, ν' with constant coefficients. -/
theorem D_lin (H : PhaseHyp d I pi p' ν ν') (a b : K) (ha : d.D a = 0) (hb : d.D b = 0) :
    d.D (a * ν + b * ν') = I * pi * p' * (a * ν - b * ν') := by
  rw [d.add, d.const_mul a ν ha, d.const_mul b ν' hb, H.D_nu, H.D_nu']
  ring

/-- A matrix whose entries are linear in ν, ν'. -/
def Ulin (A B : Mat K) (x y : K) : Mat K := fun i j => A i j * x + B i j * y

/-- **Pure rotation rule** (gates.py:378): `Rotation.grad(mixed=False)` is
    `scalar(π p') @ R(φ + 1/2)`, and φ + 1/2 is ν ↦ I·ν, ν' ↦ −I·ν'. -/
theorem rotation_pure_rule (H : PhaseHyp d I pi p' ν ν') (A B : Mat K)
    (hA : ∀ i j, d.D (A i j) = 0) (hB : ∀ i j, d.D (B i j) = 0) (i j : Nat) :
    d.D (Ulin A B ν ν' i j) = pi * p' * Ulin A B (I * ν) (-I * ν') i j := by
  unfold Ulin
  rw [D_lin H _ _ (hA i j) (hB i j)]
  ring

/-- Derivative of a product of two linear forms = the parameter-shift difference. -/
theorem shift_rule_product (H : PhaseHyp d I pi p' ν ν') (ζ ζ' : K)
    (hζ : ζ * ζ = I) (hζ' : ζ' * ζ' = -I)
    (a1 a2 b1 b2 : K) (h1 : d.D a1 = 0) (h2 : d.D a2 = 0) (h3 : d.D b1 = 0) (h4 : d.D b2 = 0) :
    d.D ((a2 * ν + a1 * ν') * (b1 * ν + b2 * ν'))
      = pi * p' * ((a2 * (ζ * ν) + a1 * (ζ' * ν')) * (b1 * (ζ * ν) + b2 * (ζ' * ν'))
                 - (a2 * (ζ' * ν) + a1 * (ζ * ν')) * (b1 * (ζ' * ν) + b2 * (ζ * ν'))) := by
  rw [d.mul, D_lin H _ _ h2 h1, D_lin H _ _ h3 h4]
  linear_combination (pi * p' * (a1 * b2 * ν' ^ 2 - a2 * b1 * ν ^ 2)) * hζ
    + (pi * p' * (a2 * b1 * ν ^ 2 - a1 * b2 * ν' ^ 2)) * hζ'

/-- **Mixed parameter-shift rule** on the doubled map (gates.py:370-376, cqmap.py:224-227:
    `CQMap.pure(U) = conj(U) ⊗ U`): for a single-qubit rotation
    `d/dx 𝒰(φ) = π p' (𝒰(φ + 1/4) − 𝒰(φ − 1/4))`.  `A' B'` are the coefficient matrices of the
    conjugated array (conj(Aν + Bν') = conj(B)·ν + conj(A)·ν'), any constants. -/
theorem rotation_mixed_rule (H : PhaseHyp d I pi p' ν ν') (ζ ζ' : K)
    (hζ : ζ * ζ = I) (hζ' : ζ' * ζ' = -I) (n : Nat) (A B A' B' : Mat K)
    (hA : ∀ i j, d.D (A i j) = 0) (hB : ∀ i j, d.D (B i j) = 0)
    (hA' : ∀ i j, d.D (A' i j) = 0) (hB' : ∀ i j, d.D (B' i j) = 0) (r c : Nat) :
    d.D (kron n n (Ulin A' B' ν ν') (Ulin A B ν ν') r c)
      = pi * p' * (kron n n (Ulin A' B' (ζ * ν) (ζ' * ν')) (Ulin A B (ζ * ν) (ζ' * ν')) r c
                 - kron n n (Ulin A' B' (ζ' * ν) (ζ * ν')) (Ulin A B (ζ' * ν) (ζ * ν')) r c) := by
  unfold kron Ulin
  exact shift_rule_product H ζ ζ' hζ hζ' _ _ _ _ (hB' _ _) (hA' _ _) (hA _ _) (hB _ _)

/-! ### the arrays of gates.py as linear forms -/

def mat2 (a b c e : K) : Mat K := fun i j =>
  if i = 0 then (if j = 0 then a else b) else (if j = 0 then c else e)

/-- cos(πφ) and sin(πφ) in terms of ν, ν' and h = 1/2. -/
def cosν (h x y : K) : K := h * (x + y)
def sinν (I h x y : K) : K := -(I * h) * (x - y)

/-- gates.py:386-390 `[[cos, -1j*sin], [-1j*sin, cos]]`. -/
def RxArr (I h x y : K) : Mat K :=
  mat2 (cosν h x y) (-I * sinν I h x y) (-I * sinν I h x y) (cosν h x y)
/-- gates.py:398-402 `[[cos, -sin], [sin, cos]]`. -/
def RyArr (I h x y : K) : Mat K :=
  mat2 (cosν h x y) (-sinν I h x y) (sinν I h x y) (cosν h x y)
/-- gates.py:410-415 `[[exp(-1j*half_theta), 0], [0, exp(1j*half_theta)]]`. -/
def RzArr (x y : K) : Mat K := mat2 y 0 0 x

theorem mat2_D (a b c e : K) (i j : Nat) :
    d.D (mat2 a b c e i j) = mat2 (d.D a) (d.D b) (d.D c) (d.D e) i j := by
  unfold mat2
  split <;> split <;> rfl

theorem mat2_const (a b c e : K) (ha : d.D a = 0) (hb : d.D b = 0) (hc : d.D c = 0)
    (he : d.D e = 0) (i j : Nat) : d.D (mat2 a b c e i j) = 0 := by
  unfold mat2
  split <;> split <;> assumption

theorem mat2_smul (s a b c e : K) (i j : Nat) :
    s * mat2 a b c e i j = mat2 (s * a) (s * b) (s * c) (s * e) i j := by
  unfold mat2
  split <;> split <;> rfl

theorem mat2_congr {a b c e a' b' c' e' : K} (h1 : a = a') (h2 : b = b') (h3 : c = c') (h4 : e = e')
    (i j : Nat) : mat2 a b c e i j = mat2 a' b' c' e' i j := by
  rw [h1, h2, h3, h4]

variable (h : K)

theorem D_half (hh : 2 * h = 1) : d.D h = 0 := by
  have e : d.D (2 * h) = 0 := by rw [hh, d.one]
  have c2 : d.D (2 : K) = 0 := by
    have : (2 : K) = 1 + 1 := by ring
    rw [this, d.add, d.one]; ring
  rw [d.const_mul 2 h c2] at e
  linear_combination h * e - d.D h * hh

theorem D_cos (H : PhaseHyp d I pi p' ν ν') (hh : 2 * h = 1) :
    d.D (cosν h ν ν') = pi * p' * cosν h (I * ν) (-I * ν') := by
  unfold cosν
  have hc := D_half (d := d) h hh
  have e : h * (ν + ν') = h * ν + h * ν' := by ring
  rw [e, D_lin H h h hc hc]
  ring

theorem D_sin (H : PhaseHyp d I pi p' ν ν') (hh : 2 * h = 1) :
    d.D (sinν I h ν ν') = pi * p' * sinν I h (I * ν) (-I * ν') := by
  unfold sinν
  have hc := D_half (d := d) h hh
  have c1 : d.D (-(I * h)) = 0 := by rw [d.neg, d.mul, H.cI, hc]; ring
  have c2 : d.D (I * h) = 0 := by rw [d.mul, H.cI, hc]; ring
  have e : -(I * h) * (ν - ν') = -(I * h) * ν + (I * h) * ν' := by ring
  rw [e, D_lin H _ _ c1 c2]
  ring

/-- sin(π(φ+½)) = cos(πφ), cos(π(φ+½)) = −sin(πφ): the shift really is a quarter turn. -/
theorem cos_shift (H : PhaseHyp d I pi p' ν ν') : cosν h (I * ν) (-I * ν') = -(sinν I h ν ν') := by
  unfold cosν sinν
  linear_combination (0 : K) * H.I_sq

theorem sin_shift (H : PhaseHyp d I pi p' ν ν') : sinν I h (I * ν) (-I * ν') = cosν h ν ν' := by
  unfold cosν sinν
  linear_combination (-(h * (ν + ν'))) * H.I_sq

theorem Rz_pure_rule (H : PhaseHyp d I pi p' ν ν') (i j : Nat) :
    d.D (RzArr ν ν' i j) = pi * p' * RzArr (I * ν) (-I * ν') i j := by
  unfold RzArr
  rw [mat2_D, mat2_smul]
  apply mat2_congr
  · rw [H.D_nu']; ring
  · rw [d.zero]; ring
  · rw [d.zero]; ring
  · rw [H.D_nu]; ring

theorem Rx_pure_rule (H : PhaseHyp d I pi p' ν ν') (hh : 2 * h = 1) (i j : Nat) :
    d.D (RxArr I h ν ν' i j) = pi * p' * RxArr I h (I * ν) (-I * ν') i j := by
  unfold RxArr
  rw [mat2_D, mat2_smul]
  have hs : d.D (-I * sinν I h ν ν') = pi * p' * (-I * sinν I h (I * ν) (-I * ν')) := by
    have c : d.D (-I) = 0 := by rw [d.neg, H.cI]; ring
    rw [d.const_mul _ _ c, D_sin h H hh]; ring
  apply mat2_congr
  · exact D_cos h H hh
  · exact hs
  · exact hs
  · exact D_cos h H hh

theorem Ry_pure_rule (H : PhaseHyp d I pi p' ν ν') (hh : 2 * h = 1) (i j : Nat) :
    d.D (RyArr I h ν ν' i j) = pi * p' * RyArr I h (I * ν) (-I * ν') i j := by
  unfold RyArr
  rw [mat2_D, mat2_smul]
  apply mat2_congr
  · exact D_cos h H hh
  · rw [d.neg, D_sin h H hh]; ring
  · exact D_sin h H hh
  · exact D_cos h H hh

/-! ### controlled rotations, pure rules (gates.py:436-502) -/

/-- CU1 (gates.py:425-434): diag(1, 1, 1, e^{2πiφ}) = diag(1,1,1,ν²); its pure gradient is
    `|11⟩⟨11| ⊗ scalar(2πi p' e^{2πiφ})` (444-446). -/
def CU1Diag (x : K) : Nat → K := fun k => if k = 3 then x * x else 1
def CU1GradDiag (I pi p' x : K) : Nat → K := fun k => if k = 3 then I * 2 * pi * p' * (x * x) else 0

theorem CU1_pure_rule (H : PhaseHyp d I pi p' ν ν') (k : Nat) :
    d.D (CU1Diag ν k) = CU1GradDiag I pi p' ν k := by
  unfold CU1Diag CU1GradDiag
  split
  · rw [d.mul, H.D_nu]; ring
  · exact d.one

/-- CRz (454-462): diag(1, 1, ν', ν); pure gradient `CRz >> (Z⊗Z·c + 1⊗Z·(−c))`, c = iπp'/2
    (470-474).  Diagonal matrices: the product is entrywise. -/
def CRzDiag (x y : K) : Nat → K := fun k => if k = 2 then y else if k = 3 then x else 1
def ZZ : Nat → K := fun k => if k = 0 ∨ k = 3 then 1 else -1
def IZ : Nat → K := fun k => if k = 0 ∨ k = 2 then 1 else -1

theorem CRz_pure_rule (H : PhaseHyp d I pi p' ν ν') (hh : 2 * h = 1) (k : Nat) (hk : k < 4) :
    d.D (CRzDiag ν ν' k)
      = CRzDiag ν ν' k * (ZZ k * (I * h * pi * p') + IZ k * (-(I * h * pi * p'))) := by
  have hk' : k = 0 ∨ k = 1 ∨ k = 2 ∨ k = 3 := by omega
  rcases hk' with rfl | rfl | rfl | rfl
  · simp [CRzDiag, ZZ, IZ, d.one]
  · simp [CRzDiag, ZZ, IZ, d.one]
  · simp [CRzDiag, ZZ, IZ]
    rw [H.D_nu']; linear_combination (I * pi * p' * ν') * hh
  · simp [CRzDiag, ZZ, IZ]
    rw [H.D_nu]; linear_combination (-(I * pi * p' * ν)) * hh

/-- CRx (482-490) = 1 ⊕ Rx; pure gradient `CRx >> (Z⊗X·c + 1⊗X·(−c))` (498-502).  On the
    upper-left block the two terms cancel; on the lower-right block they add up to
    `Rx · (−iπp' X)`. -/
theorem CRx_pure_rule_upper (c x : K) : 1 * (1 * (x * c) + 1 * (x * (-c))) = (0 : K) := by ring

theorem CRx_pure_rule_lower (H : PhaseHyp d I pi p' ν ν') (hh : 2 * h = 1) (i j : Nat)
    (hi : i < 2) (hj : j < 2) :
    d.D (RxArr I h ν ν' i j)
      = matMul 2 (RxArr I h ν ν')
          (fun a b => (-1) * (mat2 0 1 1 0 a b * (I * h * pi * p'))
                      + 1 * (mat2 0 1 1 0 a b * (-(I * h * pi * p')))) i j := by
  rw [Rx_pure_rule h H hh]
  have hr : List.range 2 = [0, 1] := by decide
  unfold matMul RxArr
  rw [hr]
  have hi' : i = 0 ∨ i = 1 := by omega
  have hj' : j = 0 ∨ j = 1 := by omega
  rcases hi' with rfl | rfl <;> rcases hj' with rfl | rfl
  · simp [mat2, cosν, sinν]
    linear_combination (2 * pi * p' * h ^ 2 * (ν - ν') * I) * H.I_sq - (pi * p' * h * I * (ν - ν')) * hh
  · simp [mat2, cosν, sinν]
    linear_combination (pi * p' * h * (ν + ν') * I) * H.I_sq + (pi * p' * h * I * (ν + ν')) * hh
  · simp [mat2, cosν, sinν]
    linear_combination (pi * p' * h * (ν + ν') * I) * H.I_sq + (pi * p' * h * I * (ν + ν')) * hh
  · simp [mat2, cosν, sinν]
    linear_combination (2 * pi * p' * h ^ 2 * (ν - ν') * I) * H.I_sq - (pi * p' * h * I * (ν - ν')) * hh

/-! ### scalars and spiders -/

/-- `Scalar.grad` (gates.py:524-527): the amplitude of `Scalar(s.diff(x))` is `D s`. -/
theorem scalar_pure_rule (s : K) : d.D s = d.D s := rfl

/-- The CQ meaning of a pure scalar `s` is `conj(s)·s` (cqmap.py:317-318); its derivative is
    what a mixed gradient would have to evaluate to — not `conj(D s)·D s`. -/
theorem scalar_mixed_target (s s' : K) : d.D (s' * s) = d.D s' * s + s' * d.D s := d.mul _ _

/-- zx.Spider.grad (zx.py:289-295), symmetric phase convention (the Z spider of phase φ has
    entries ν' on |0…0⟩⟨0…0| and ν on |1…1⟩⟨1…1|, like Rz): `scalar(π p') @ Z(φ + 1/2)`. -/
theorem spider_rule (H : PhaseHyp d I pi p' ν ν') :
    d.D ν' = pi * p' * (-I * ν') ∧ d.D ν = pi * p' * (I * ν) ∧ d.D (0 : K) = pi * p' * 0 := by
  refine ⟨?_, ?_, ?_⟩
  · rw [H.D_nu']; ring
  · rw [H.D_nu]; ring
  · rw [d.zero]; ring

/-- With the standard convention (entries 1 and μ = e^{2πiφ}) the same rule would force
    `π p' = 0`: `scalar(π p') @ Z(φ + 1/2)` has π p' where the derivative has D 1 = 0. -/
theorem spider_rule_std_convention_fails (μ : K)
    (rule : d.D (1 : K) = pi * p' * 1 ∧ d.D μ = pi * p' * (-μ)) : pi * p' = 0 := by
  have h1 := rule.1
  rw [d.one] at h1
  linear_combination -h1

end Phase

/-! ### what each class's `subs` keeps (C14) -/

theorem csubs_preserves_tensorBox (fx : Fixes) (hit hd hs : Bool) (a : Attr) :
    csubs fx .tensorBox hit hd hs a = .ok a := by
  unfold csubs; cases hit <;> rfl

theorem csubs_preserves_rotation (fx : Fixes) (hit hd hs : Bool) (a : Attr)
    (h : a.reachable .rotation) : csubs fx .rotation hit hd hs a = .ok a := by
  obtain ⟨h1, h2⟩ := h
  cases a; simp_all [csubs]

theorem csubs_preserves_mixedScalar (fx : Fixes) (hit hd hs : Bool) (a : Attr)
    (h : a.reachable .mixedScalar) : csubs fx .mixedScalar hit hd hs a = .ok a := by
  obtain ⟨h1, h2, h3, h4⟩ := h
  cases a; simp_all [csubs]

theorem csubs_preserves_sqrt (fx : Fixes) (hit hd hs : Bool) (a : Attr)
    (h : a.reachable .sqrt) : csubs fx .sqrt hit hd hs a = .ok a := by
  obtain ⟨h1, h2, h3, h4⟩ := h
  cases a; simp_all [csubs]

theorem csubs_preserves_zxSpider (fx : Fixes) (hit hd hs : Bool) (a : Attr)
    (h : a.reachable .zxSpider) : csubs fx .zxSpider hit hd hs a = .ok a := by
  obtain ⟨h1, h2⟩ := h
  cases a; simp_all [csubs]

theorem csubs_preserves_zxScalar (fx : Fixes) (hit hd hs : Bool) (a : Attr)
    (h : a.reachable .zxScalar) : csubs fx .zxScalar hit hd hs a = .ok a := by
  obtain ⟨h1, h2, h3, h4, h5⟩ := h
  cases a; simp_all [csubs]

/-- Scalar: preserved exactly when the scalar is pure, or the repair is in. -/
theorem csubs_scalar_iff (fx : Fixes) (hit hd hs : Bool) (a : Attr) (h : a.reachable .scalar) :
    csubs fx .scalar hit hd hs a = .ok a ↔ (fx.scalarKeepsMixed = true ∨ a.mixed = some false) := by
  obtain ⟨h1, h2, h3, h4, h5⟩ := h
  cases a with
  | mk kind nin nout dagger mixed =>
    simp only at h1 h2 h3 h4 h5
    subst h1 h2 h3 h4
    cases hf : fx.scalarKeepsMixed <;> simp [csubs, hf]
    constructor
    · intro h; exact h.symm
    · intro h; exact h.symm

/-- ClassicalGate with data: preserved exactly when it is not daggered, or the repair is in. -/
theorem csubs_classicalGate_iff (fx : Fixes) (hit hs : Bool) (a : Attr)
    (h : a.reachable .classicalGate) (hsym : hs = true) :
    csubs fx .classicalGate hit true hs a = .ok a
      ↔ (fx.cgateKeepsDagger = true ∨ a.dagger = false) := by
  obtain ⟨h1, h2⟩ := h
  cases a with
  | mk kind nin nout dagger mixed =>
    simp only at h1 h2
    subst h1 h2 hsym
    cases hf : fx.cgateKeepsDagger <;> cases dagger <;> simp [csubs, hf]

end DV.Param
