/-
  Proofs/UnsnakeLoop.lean — C07: bookkeeping facts about the snake-removal loop that hold for the
  model as it stands, without any invariant: box counts through `moveObstructions` and
  `removePair`, the trace only grows, and the loop ends either snake-free or out of fuel.
-/
import Proofs.UnsnakeSound

namespace DV

/-- The obstruction-moving loop only permutes the boxes, yields one diagram per obstruction and
    moves the target by `dt` each time. -/
theorem moveObstructions_spec {bump : Nat → Nat → Nat} {dt : Int} (obs : List Nat) :
    ∀ {d d1 : Diagram} {t t1 : Int} {ro ro1 : List Nat} {acc acc1 : List Diagram}, d.WF →
    moveObstructions bump dt obs d t ro acc = .ok (d1, t1, ro1, acc1) →
    d1.WF ∧ d1.dom = d.dom ∧ d1.cod = d.cod ∧ d1.boxes.Perm d.boxes ∧
      d1.boxes.length = d.boxes.length ∧ t1 = t + dt * obs.length ∧ ro1.length = ro.length ∧
      ∃ new, acc1 = acc ++ new ∧ new.length = obs.length := by
  induction obs with
  | nil =>
    intro d d1 t t1 ro ro1 acc acc1 hd h
    simp only [moveObstructions, Except.ok.injEq, Prod.mk.injEq] at h
    obtain ⟨rfl, rfl, rfl, rfl⟩ := h
    exact ⟨hd, rfl, rfl, List.Perm.refl _, rfl, by simp, rfl, [], by simp, rfl⟩
  | cons box rest ih =>
    intro d d1 t t1 ro ro1 acc acc1 hd h
    simp only [moveObstructions] at h
    split at h
    · cases h
    · rename_i d' hd'
      obtain ⟨w, a, b⟩ := Diagram.interchange_wf hd hd'
      have hp := Diagram.interchange_perm hd hd'
      obtain ⟨w1, a1, b1, p1, l1, ht, hr, new, hacc, hnew⟩ := ih w h
      refine ⟨w1, a1.trans a, b1.trans b, p1.trans hp, l1.trans hp.length_eq, ?_, ?_, d' :: new,
        by rw [hacc]; simp, by simp [hnew]⟩
      · rw [ht]; simp only [List.length_cons]; push_cast
        rw [Int.mul_add]; omega
      · rw [hr]; simp

/-- `removePair` deletes exactly the boxes `cap..cup`. -/
theorem Diagram.removePair_length {d d' : Diagram} {cap cup : Int}
    (h : d.removePair cap cup = .ok d') (h0 : 0 ≤ cap) (h1 : cap ≤ cup)
    (h2 : cup < (d.boxes.length : Int)) :
    (d'.boxes.length : Int) + (cup + 1 - cap) = d.boxes.length := by
  obtain ⟨c, rfl⟩ := Int.eq_ofNat_of_zero_le h0
  obtain ⟨u, rfl⟩ := Int.eq_ofNat_of_zero_le (by omega : 0 ≤ cup)
  unfold Diagram.removePair at h
  split at h
  · split at h
    · cases h
    · cases h
      have e : ((u : Int) + 1) = ((u + 1 : Nat) : Int) := by omega
      simp only [e, pySlice_take, pySlice_drop, List.length_append, List.length_take,
        List.length_drop]
      omega
  · cases h
  · cases h

/-- `n` full rounds `find_snake; unsnake` lead from `d` to `d1`. -/
inductive SnakeRounds : Nat → Diagram → Diagram → Prop
  | zero (d) : SnakeRounds 0 d d
  | succ {n d y steps d1} : d.findSnake = some y → d.unsnake y = .ok steps →
      SnakeRounds n (lastOr d steps) d1 → SnakeRounds (n+1) d d1

/-- The trace only grows, its last element is the returned diagram, and the loop stops either
    because no snake is left or because all `fuel` rounds were used. -/
theorem snakeLoop_result (fuel : Nat) : ∀ {d d1 : Diagram} {acc acc1 : List Diagram},
    snakeLoop fuel d acc = .ok (d1, acc1) →
    ∃ steps, acc1 = acc ++ steps ∧ lastOr d steps = d1 ∧
      (d1.findSnake = none ∨ SnakeRounds fuel d d1) := by
  induction fuel with
  | zero =>
    intro d d1 acc acc1 h
    simp only [snakeLoop, Except.ok.injEq, Prod.mk.injEq] at h
    obtain ⟨rfl, rfl⟩ := h
    exact ⟨[], by simp, rfl, Or.inr (SnakeRounds.zero _)⟩
  | succ fuel ih =>
    intro d d1 acc acc1 h
    simp only [snakeLoop] at h
    split at h
    · rename_i hf
      simp only [Except.ok.injEq, Prod.mk.injEq] at h
      obtain ⟨rfl, rfl⟩ := h
      exact ⟨[], by simp, rfl, Or.inl hf⟩
    · rename_i y hf
      split at h
      · cases h
      · rename_i steps hu
        obtain ⟨steps2, e1, e2, e3⟩ := ih h
        refine ⟨steps ++ steps2, by rw [e1]; simp, by rw [lastOr_append2, e2], ?_⟩
        rcases e3 with e3 | e3
        · exact Or.inl e3
        · exact Or.inr (SnakeRounds.succ hf hu e3)

/-- Each round removes two boxes, so `len + 1` rounds are never used up. -/
theorem SnakeRounds.length {n : Nat} {d d1 : Diagram} (hd : d.WF) (hv : d.boxesValid)
    (h : SnakeRounds n d d1) : d1.boxes.length + 2 * n = d.boxes.length := by
  induction h with
  | zero d => simp
  | succ hf hu _ ih =>
    obtain ⟨steps', hu', hch, hlen⟩ := unsnake_ok hd hv hf
    rw [hu] at hu'
    cases hu'
    obtain ⟨w, v⟩ := StepChain.last_ok hd hv hch
    have := ih w v
    omega

/-! ### The final `normalize` never raises either -/

theorem Diagram.interchange_of_adj {d x : Diagram} {i : Nat} {left : Bool}
    (hi : i + 1 < d.boxes.length) (h : d.interchangeAdj i left = .ok x) :
    d.interchange (i : Int) ((i : Int) + 1) left = .ok x := by
  unfold Diagram.interchange
  rw [if_neg (by omega), if_neg (by omega), if_neg (by omega)]
  have e1 : ((i : Int) + 1 - (i : Int)).toNat = 1 := by omega
  have e2 : (i : Int).toNat = i := by omega
  rw [e1, e2]
  simp only [interchangeDown, h]

/-- A redex (rewriting.py:118-119) can always be interchanged. -/
theorem Diagram.redex_interchange {d : Diagram} {left : Bool} {i : Nat} (hd : d.WF)
    (h : d.redex left i = true) : ∃ d', d.interchange (i : Int) ((i : Int) + 1) left = .ok d' := by
  unfold Diagram.redex at h
  split at h
  · rename_i b0 b1 o0 o1 e0 e1 e2 e3
    have hi : i + 1 < d.boxes.length := (List.getElem?_eq_some_iff.mp e1).1
    have hfree : freeAt d i := by
      refine ⟨o0, o1, b0, b1, e2, e3, e0, e1, ?_⟩
      simp only [Bool.or_eq_true, Bool.and_eq_true, decide_eq_true_eq] at h
      rcases h with ⟨_, h⟩ | ⟨_, h⟩
      · exact Or.inr h
      · exact Or.inl h
    obtain ⟨d', hd'⟩ := (Diagram.interchangeAdj_ok_iff (left := left) hd hi).1.mpr hfree
    exact ⟨d', Diagram.interchange_of_adj hi hd'⟩
  · cases h

theorem normalizePass_total {left : Bool} (n : Nat) : ∀ {i : Nat} {d : Diagram} {acc : List Diagram},
    d.WF → ∃ r, normalizePass left n i d acc = .ok r := by
  induction n with
  | zero => intro i d acc _; exact ⟨_, rfl⟩
  | succ n ih =>
    intro i d acc hd
    simp only [normalizePass]
    split
    · rename_i hr
      obtain ⟨d', hd'⟩ := Diagram.redex_interchange hd hr
      have hd'' : d.interchange (i : Int) ((i : Int) + 1) left = .ok d' := hd'
      simp only [hd'']
      exact ih (Diagram.interchange_wf hd hd').1
    · exact ih hd

theorem normalizeTrace_total {left : Bool} (fuel : Nat) : ∀ {d : Diagram} {acc : List Diagram},
    d.WF → ∃ r, normalizeTrace left fuel d acc = .ok r := by
  induction fuel with
  | zero => intro d acc _; exact ⟨_, rfl⟩
  | succ fuel ih =>
    intro d acc hd
    simp only [normalizeTrace]
    obtain ⟨⟨d', steps⟩, hp⟩ := normalizePass_total (left := left) (d.boxes.length - 1) (i := 0)
      (acc := []) hd
    simp only [hp]
    split
    · exact ⟨_, rfl⟩
    · exact ih (normalizePass_wf hd (by simp) hp).1.1

end DV
