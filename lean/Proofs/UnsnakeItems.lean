/-
  Proofs/UnsnakeItems.lean — C07: the `(box, offset)` view of a well-typed diagram and the closed
  form of `interchange` on it, for the four kinds of move `unsnake` makes:
  a box moving up/down past a block of boxes that all lie on one side of it.
-/
import Proofs.Move

namespace DV

/-- The public data of a diagram: its boxes with their offsets. -/
def Diagram.items (d : Diagram) : List (Box × Int) := d.boxes.zip d.offsets

theorem Diagram.items_wf {d : Diagram} (hd : d.WF) :
    d.items = d.layers.boxes.map (fun l => (l.box, (l.left.length : Int))) := by
  rw [Diagram.items, hd.boxes, hd.offsets, List.zip_map']

theorem Diagram.items_length {d : Diagram} (hd : d.WF) : d.items.length = d.boxes.length := by
  rw [Diagram.items_wf hd, hd.boxes]; simp

theorem Diagram.items_boxes {d : Diagram} (hd : d.WF) : d.boxes = d.items.map (·.1) := by
  rw [Diagram.items_wf hd, hd.boxes]; simp

theorem Diagram.items_offsets {d : Diagram} (hd : d.WF) : d.offsets = d.items.map (·.2) := by
  rw [Diagram.items_wf hd, hd.offsets]; simp

theorem Diagram.items_get {d : Diagram} (hd : d.WF) {i : Nat} {x : Box × Int}
    (h : d.items[i]? = some x) : d.boxes[i]? = some x.1 ∧ d.offsets[i]? = some x.2 := by
  rw [Diagram.items_boxes hd, Diagram.items_offsets hd]
  simp [h]

theorem Diagram.items_of_get {d : Diagram} (hd : d.WF) {i : Nat} {b : Box} {o : Int}
    (hb : d.boxes[i]? = some b) (ho : d.offsets[i]? = some o) : d.items[i]? = some (b, o) := by
  rw [Diagram.items_boxes hd] at hb
  rw [Diagram.items_offsets hd] at ho
  simp only [List.getElem?_map] at hb ho
  cases hx : d.items[i]? with
  | none => simp [hx] at hb
  | some x =>
    simp only [hx, Option.map_some, Option.some.injEq] at hb ho
    rw [← hb, ← ho]

theorem getElem?_mid {α} (P : List α) (x : α) (S : List α) : (P ++ x :: S)[P.length]? = some x := by
  simp

theorem getElem?_mid1 {α} (P : List α) (x y : α) (S : List α) :
    (P ++ x :: y :: S)[P.length + 1]? = some y := by
  rw [List.getElem?_append_right (by omega)]
  simp

/-- Result of exchanging the adjacent items `x` (upper) and `y` (lower), default preference
    (rewriting.py:62-71 with `left=False`). -/
def swapItems (x y : Box × Int) : Option ((Box × Int) × (Box × Int)) :=
  if x.2 ≥ y.2 + y.1.dom.length then
    some (y, (x.1, x.2 - y.1.dom.length + y.1.cod.length))
  else if y.2 ≥ x.2 + x.1.cod.length then
    some ((y.1, y.2 - x.1.cod.length + x.1.dom.length), x)
  else none

/-- One adjacent interchange in the item view: it succeeds exactly as `swapItems` says. -/
theorem Diagram.interchangeAdj_items {d : Diagram} (hd : d.WF) {P S : List (Box × Int)}
    {x y y' x' : Box × Int} (h : d.items = P ++ x :: y :: S) (hs : swapItems x y = some (y', x')) :
    ∃ d', d.interchangeAdj P.length false = .ok d' ∧ d'.WF ∧ d'.dom = d.dom ∧ d'.cod = d.cod ∧
      d'.items = P ++ y' :: x' :: S := by
  have hit := Diagram.items_wf hd
  have hx : d.items[P.length]? = some x := by rw [h]; exact getElem?_mid P x (y :: S)
  have hy : d.items[P.length + 1]? = some y := by rw [h]; exact getElem?_mid1 P x y S
  rw [hit] at hx hy
  simp only [List.getElem?_map] at hx hy
  cases e2 : d.layers.boxes[P.length]? with
  | none => simp [e2] at hx
  | some l0 =>
  cases e3 : d.layers.boxes[P.length + 1]? with
  | none => simp [e3] at hy
  | some l1 =>
  simp only [e2, e3, Option.map_some, Option.some.injEq] at hx hy
  have e0 : d.offsets[P.length]? = some (l0.left.length : Int) := by rw [hd.offsets]; simp [e2]
  have e1 : d.offsets[P.length + 1]? = some (l1.left.length : Int) := by rw [hd.offsets]; simp [e3]
  have hadj := chain_adjacent hd.chain e2 e3
  have hlen : P.length + 1 < d.layers.boxes.length := (List.getElem?_eq_some_iff.mp e3).1
  -- the choice made by the code
  have hch : ∃ o0 o1 y0 y1, interchangeChoice false (l0.left.length : Int) l1.left.length l0 l1
      = .ok (o0, o1, y0, y1) ∧ y' = (l1.box, o1) ∧ x' = (l0.box, o0) := by
    subst hx hy
    unfold swapItems at hs
    unfold interchangeChoice
    simp only [Bool.false_and, Bool.false_eq_true, if_false]
    split at hs
    · rename_i hc
      rw [if_pos hc]
      simp only [Option.some.injEq, Prod.mk.injEq] at hs
      exact ⟨_, _, _, _, rfl, hs.1.symm, hs.2.symm⟩
    · rename_i hc
      rw [if_neg hc]
      split at hs
      · rename_i hc2
        rw [if_pos hc2]
        simp only [Option.some.injEq, Prod.mk.injEq] at hs
        exact ⟨_, _, _, _, rfl, hs.1.symm, hs.2.symm⟩
      · cases hs
  obtain ⟨o0, o1, y0, y1, hch, hy', hx'⟩ := hch
  obtain ⟨q0, q1, hb0, hb1⟩ := interchangeChoice_offsets rfl rfl hch
  obtain ⟨t1, t2, t3, t4⟩ := (interchangeChoice_exch hadj rfl rfl hch).typing
  obtain ⟨d', hd'⟩ := Diagram.splice_total (o0 := o0) (o1 := o1) hd e2 e3 t3 t2 t4
  obtain ⟨w, hdom, hcod, hboxes⟩ := Diagram.splice_wf hd hlen q0 q1 hd'
  refine ⟨d', ?_, w, hdom, hcod, ?_⟩
  · unfold Diagram.interchangeAdj
    simp only [e0, e1, e2, e3, hch, hd']
  · rw [Diagram.items_wf w, hboxes]
    have hsplit := list_split_pair e2 e3
    have h' := h
    rw [hit, hsplit] at h'
    simp only [List.map_append, List.map_cons, List.append_assoc,
      List.cons_append, List.nil_append] at h' ⊢
    have hl : (List.map (fun l : Layer => (l.box, (l.left.length : Int)))
        (List.take P.length d.layers.boxes)).length = P.length := by
      simp; omega
    obtain ⟨hP, hrest⟩ := List.append_inj h' hl
    simp only [List.cons.injEq] at hrest
    rw [hP, hrest.2.2, hy', hx', hb0, hb1, q0, q1]

/-! ### A box moving past a block of boxes lying on one side of it -/

def shiftItem (δ : Int) (x : Box × Int) : Box × Int := (x.1, x.2 + δ)

/-- `a` moves up past the block `M`, every box of which lies to the right of `a`'s inputs. -/
theorem interchangeUp_items_left {n : Nat} {d : Diagram} (hd : d.WF) {P M S : List (Box × Int)}
    {a : Box × Int} (hn : M.length = n) (h : d.items = P ++ M ++ a :: S)
    (hM : ∀ x ∈ M, x.2 ≥ a.2 + a.1.dom.length) :
    ∃ d', interchangeUp false n (P.length + n) d = .ok d' ∧ d'.WF ∧ d'.dom = d.dom ∧
      d'.cod = d.cod ∧
      d'.items = P ++ a :: M.map (shiftItem (a.1.cod.length - a.1.dom.length)) ++ S := by
  induction n generalizing d M S with
  | zero =>
    have : M = [] := List.eq_nil_of_length_eq_zero hn
    subst this
    exact ⟨d, rfl, hd, rfl, rfl, by simpa using h⟩
  | succ n ih =>
    obtain ⟨M0, x, rfl⟩ : ∃ M0 x, M = M0 ++ [x] := by
      have hne : M ≠ [] := by intro e; rw [e] at hn; simp at hn
      exact ⟨M.dropLast, M.getLast hne, (List.dropLast_concat_getLast hne).symm⟩
    have hn0 : M0.length = n := by simpa using hn
    have hx := hM x (by simp)
    have hsw : swapItems x a = some (a, (x.1, x.2 - a.1.dom.length + a.1.cod.length)) := by
      unfold swapItems; rw [if_pos hx]
    have h1 : d.items = (P ++ M0) ++ x :: a :: S := by rw [h]; simp
    obtain ⟨d1, hd1, w1, dom1, cod1, it1⟩ := Diagram.interchangeAdj_items hd h1 hsw
    have h2 : d1.items = P ++ M0 ++ a :: ((x.1, x.2 - a.1.dom.length + a.1.cod.length) :: S) := by
      rw [it1]
    obtain ⟨d2, hd2, w2, dom2, cod2, it2⟩ := ih w1 hn0 h2 (fun z hz => hM z (by simp [hz]))
    refine ⟨d2, ?_, w2, dom2.trans dom1, cod2.trans cod1, ?_⟩
    · simp only [interchangeUp]
      have hne : ¬ (P.length + (n + 1) = 0) := by omega
      rw [if_neg hne]
      have e : P.length + (n + 1) - 1 = (P ++ M0).length := by simp [hn0]
      rw [e, hd1]
      have e' : (P ++ M0).length = P.length + n := by simp [hn0]
      rw [e']; exact hd2
    · rw [it2]
      simp only [List.map_append, List.map_cons, List.map_nil, shiftItem, List.append_assoc,
        List.cons_append, List.nil_append]
      congr 5
      omega

/-- `a` moves down past the block `M`, every box of which lies to the right of `a`'s outputs
    (and not to its left: the code tests that first). -/
theorem interchangeDown_items_left {n : Nat} {d : Diagram} (hd : d.WF) {P M S : List (Box × Int)}
    {a : Box × Int} (hn : M.length = n) (h : d.items = P ++ a :: (M ++ S))
    (hM : ∀ y ∈ M, ¬ (a.2 ≥ y.2 + y.1.dom.length) ∧ y.2 ≥ a.2 + a.1.cod.length) :
    ∃ d', interchangeDown false n P.length d = .ok d' ∧ d'.WF ∧ d'.dom = d.dom ∧
      d'.cod = d.cod ∧
      d'.items = P ++ M.map (shiftItem (a.1.dom.length - a.1.cod.length)) ++ a :: S := by
  induction n generalizing d P M with
  | zero =>
    have : M = [] := List.eq_nil_of_length_eq_zero hn
    subst this
    exact ⟨d, rfl, hd, rfl, rfl, by simpa using h⟩
  | succ n ih =>
    cases M with
    | nil => simp at hn
    | cons y M0 =>
    have hn0 : M0.length = n := by simpa using hn
    obtain ⟨hy1, hy2⟩ := hM y (by simp)
    have hsw : swapItems a y = some ((y.1, y.2 - a.1.cod.length + a.1.dom.length), a) := by
      unfold swapItems; rw [if_neg hy1, if_pos hy2]
    have h1 : d.items = P ++ a :: y :: (M0 ++ S) := by rw [h]; simp
    obtain ⟨d1, hd1, w1, dom1, cod1, it1⟩ := Diagram.interchangeAdj_items hd h1 hsw
    have h2 : d1.items = (P ++ [(y.1, y.2 - a.1.cod.length + a.1.dom.length)]) ++ a :: (M0 ++ S) := by
      rw [it1]; simp
    obtain ⟨d2, hd2, w2, dom2, cod2, it2⟩ := ih w1 hn0 h2 (fun z hz => hM z (by simp [hz]))
    refine ⟨d2, ?_, w2, dom2.trans dom1, cod2.trans cod1, ?_⟩
    · simp only [interchangeDown]
      rw [hd1]
      have e' : (P ++ [(y.1, y.2 - a.1.cod.length + a.1.dom.length)]).length = P.length + 1 := by simp
      rw [e'] at hd2; exact hd2
    · rw [it2]
      simp only [List.map_cons, shiftItem, List.append_assoc, List.cons_append, List.nil_append]
      congr 3
      omega

/-- The same two moves through the public `interchange(i, j)`. -/
theorem Diagram.interchange_up_left {d : Diagram} (hd : d.WF) {P M S : List (Box × Int)}
    {a : Box × Int} (h : d.items = P ++ M ++ a :: S)
    (hM : ∀ x ∈ M, x.2 ≥ a.2 + a.1.dom.length) :
    ∃ d', d.interchange ((P.length + M.length : Nat) : Int) (P.length : Int) false = .ok d' ∧
      d'.WF ∧ d'.dom = d.dom ∧ d'.cod = d.cod ∧
      d'.items = P ++ a :: M.map (shiftItem (a.1.cod.length - a.1.dom.length)) ++ S := by
  have hl : d.boxes.length = P.length + M.length + 1 + S.length := by
    rw [← Diagram.items_length hd, h]; simp; omega
  obtain ⟨d', h1, r⟩ := interchangeUp_items_left hd rfl h hM
  refine ⟨d', ?_, r⟩
  unfold Diagram.interchange
  rw [if_neg (by omega)]
  by_cases hm : M.length = 0
  · have : M = [] := List.eq_nil_of_length_eq_zero hm
    subst this
    rw [if_pos (by simp)]
    simpa [interchangeUp] using h1
  · rw [if_neg (by omega), if_pos (by omega)]
    have e1 : (((P.length + M.length : Nat) : Int) - (P.length : Int)).toNat = M.length := by omega
    have e2 : ((P.length + M.length : Nat) : Int).toNat = P.length + M.length := by omega
    rw [e1, e2]; exact h1

theorem Diagram.interchange_down_left {d : Diagram} (hd : d.WF) {P M S : List (Box × Int)}
    {a : Box × Int} (h : d.items = P ++ a :: (M ++ S))
    (hM : ∀ y ∈ M, ¬ (a.2 ≥ y.2 + y.1.dom.length) ∧ y.2 ≥ a.2 + a.1.cod.length) :
    ∃ d', d.interchange (P.length : Int) ((P.length + M.length : Nat) : Int) false = .ok d' ∧
      d'.WF ∧ d'.dom = d.dom ∧ d'.cod = d.cod ∧
      d'.items = P ++ M.map (shiftItem (a.1.dom.length - a.1.cod.length)) ++ a :: S := by
  have hl : d.boxes.length = P.length + 1 + M.length + S.length := by
    rw [← Diagram.items_length hd, h]; simp; omega
  obtain ⟨d', h1, r⟩ := interchangeDown_items_left hd rfl h hM
  refine ⟨d', ?_, r⟩
  unfold Diagram.interchange
  rw [if_neg (by omega)]
  by_cases hm : M.length = 0
  · have : M = [] := List.eq_nil_of_length_eq_zero hm
    subst this
    rw [if_pos (by simp)]
    simpa [interchangeDown] using h1
  · rw [if_neg (by omega), if_neg (by omega)]
    have e1 : (((P.length + M.length : Nat) : Int) - (P.length : Int)).toNat = M.length := by omega
    have e2 : ((P.length : Nat) : Int).toNat = P.length := by omega
    rw [e1, e2]; exact h1

/-- A single adjacent step through the public `interchange`, upwards (`i+1 → i`) or downwards. -/
theorem Diagram.interchange_adj_up {d : Diagram} (hd : d.WF) {P S : List (Box × Int)}
    {x y y' x' : Box × Int} (h : d.items = P ++ x :: y :: S) (hs : swapItems x y = some (y', x')) :
    ∃ d', d.interchange ((P.length + 1 : Nat) : Int) (P.length : Int) false = .ok d' ∧ d'.WF ∧
      d'.dom = d.dom ∧ d'.cod = d.cod ∧ d'.items = P ++ y' :: x' :: S := by
  have hl : d.boxes.length = P.length + 2 + S.length := by
    rw [← Diagram.items_length hd, h]; simp; omega
  obtain ⟨d', h1, r⟩ := Diagram.interchangeAdj_items hd h hs
  refine ⟨d', ?_, r⟩
  unfold Diagram.interchange
  rw [if_neg (by omega), if_neg (by omega), if_pos (by omega)]
  have e1 : (((P.length + 1 : Nat) : Int) - (P.length : Int)).toNat = 1 := by omega
  have e2 : ((P.length + 1 : Nat) : Int).toNat = P.length + 1 := by omega
  rw [e1, e2]
  simp only [interchangeUp]
  rw [if_neg (by omega)]
  simp only [Nat.add_sub_cancel, h1]

theorem Diagram.interchange_adj_down {d : Diagram} (hd : d.WF) {P S : List (Box × Int)}
    {x y y' x' : Box × Int} (h : d.items = P ++ x :: y :: S) (hs : swapItems x y = some (y', x')) :
    ∃ d', d.interchange (P.length : Int) ((P.length + 1 : Nat) : Int) false = .ok d' ∧ d'.WF ∧
      d'.dom = d.dom ∧ d'.cod = d.cod ∧ d'.items = P ++ y' :: x' :: S := by
  have hl : d.boxes.length = P.length + 2 + S.length := by
    rw [← Diagram.items_length hd, h]; simp; omega
  obtain ⟨d', h1, r⟩ := Diagram.interchangeAdj_items hd h hs
  refine ⟨d', ?_, r⟩
  unfold Diagram.interchange
  rw [if_neg (by omega), if_neg (by omega), if_neg (by omega)]
  have e1 : (((P.length + 1 : Nat) : Int) - (P.length : Int)).toNat = 1 := by omega
  have e2 : ((P.length : Nat) : Int).toNat = P.length := by omega
  rw [e1, e2]
  simp only [interchangeDown, h1]

end DV
