/-
  Proofs/TyClass.lean — the type-class coercion keeps the objects, or refuses (classes ty, pro);
  it does not for Dim (witness).
-/
import Model.TyClass

namespace DV

def Ty.Flat (t : Ty) : Prop := ∀ o ∈ t, o.z = 0

theorem TyClass.upgrade_ty (t : Ty) : TyClass.upgrade .ty t = .ok t := rfl

theorem map_one_eq : ∀ (t : Ty), (∀ o ∈ t, o.name = "1" ∧ o.z = 0) → t.map (fun _ => (⟨"1", 0⟩ : Ob)) = t
  | [], _ => rfl
  | o :: t, h => by
    have ho := h o (by simp)
    have ht := map_one_eq t (fun x hx => h x (by simp [hx]))
    cases o with
    | mk n z =>
      simp only [List.map_cons, ht]
      simp only at ho
      rw [ho.1, ho.2]

/-- PRO.upgrade hands back the type it was given (objects read as (name, z)), or refuses. -/
theorem TyClass.upgrade_pro_keeps {t r : Ty} (h : TyClass.upgrade .pro t = .ok r) (hz : t.Flat) :
    r = t := by
  simp only [TyClass.upgrade, proUpgradeTy] at h
  split at h
  · rename_i hall
    injection h with h
    rw [← h]
    apply map_one_eq
    intro o ho
    refine ⟨?_, hz o ho⟩
    have := List.all_eq_true.mp hall o ho
    simpa using this
  · cases h

/-- ... and it refuses as soon as one object is not named 1 (a named wire is not PRO's generator). -/
theorem TyClass.upgrade_pro_refuses {t : Ty} (h : ∃ o ∈ t, o.name ≠ "1") :
    TyClass.upgrade .pro t = .error .type := by
  simp only [TyClass.upgrade, proUpgradeTy]
  split
  · rename_i hall
    obtain ⟨o, ho, hn⟩ := h
    have := List.all_eq_true.mp hall o ho
    exact absurd (by simpa using this) hn
  · rfl

end DV

namespace DV

/-- Dim.upgrade drops a wire named 1 of a foreign type (tensor.py:45-50): `Dim(2) @ PRO(1)`. -/
theorem TyClass.upgrade_dim_drops :
    TyClass.upgrade .dim [⟨"2", 0⟩, ⟨"1", 0⟩] = .ok [⟨"2", 0⟩] := by decide

/-- On a type without objects named 1 whose names are positive ints, Dim.upgrade keeps the objects. -/
theorem dimObs_keeps : ∀ {t : Ty}, (∀ o ∈ t, nameKind o.name = .pos ∧ o.z = 0) → dimObs t = .ok t
  | [], _ => rfl
  | o :: t, h => by
    have ho := h o (by simp)
    have ht := dimObs_keeps (t := t) (fun x hx => h x (by simp [hx]))
    cases o with
    | mk n z =>
      simp only at ho
      simp only [dimObs, ho.1, ht, ho.2]

end DV
