/-
  Proofs/PolySem.lean — the meaning of the executable polynomials of Model/Param.lean in
  Mathlib's `MvPolynomial ℕ ℤ`, used only as a proof device:

    sem : Poly → MvPolynomial ℕ ℤ          sem p = Σ (m, c) ∈ p.terms,  c · X^m

  * every executable operation (`add`, `mul`, `neg`, `const`, `var`, `pow`, `subst`, `deriv`,
    `ofTerms`) is the corresponding operation of `MvPolynomial` under `sem` — for ALL term lists,
    normal or not;
  * `sem` is injective on normal forms (`Poly.WF`, Proofs/PolyOrder.lean): two normal forms with
    the same meaning are the same list (`sem_inj`).
-/
import Proofs.PolyOrder
import Mathlib.Algebra.MvPolynomial.PDeriv
import Mathlib.Algebra.MvPolynomial.Monad

namespace DV.Param
open MvPolynomial

abbrev MP := MvPolynomial ℕ ℤ

/-- Exponent vector of a monomial whose first entry is the exponent of `x_i`. -/
noncomputable def monoF : Nat → Mono → (ℕ →₀ ℕ)
  | _, [] => 0
  | i, e :: m => Finsupp.single i e + monoF (i + 1) m

theorem monoF_apply (i : Nat) (m : Mono) (j : Nat) :
    monoF i m j = if j < i then 0 else Mono.get m (j - i) := by
  induction m generalizing i with
  | nil => simp [monoF]
  | cons e m ih =>
    simp only [monoF, Finsupp.add_apply, Finsupp.single_apply, ih]
    rcases Nat.lt_trichotomy j i with h | h | h
    · have h1 : ¬ i = j := by omega
      have h2 : j < i + 1 := by omega
      simp [h1, h2, h]
    · subst h
      simp
    · have h1 : ¬ i = j := by omega
      have h2 : ¬ j < i + 1 := by omega
      have h3 : ¬ j < i := by omega
      have h4 : j - i = (j - (i + 1)) + 1 := by omega
      simp only [h1, h2, h3, if_false, Nat.zero_add]
      rw [h4, Mono.get_cons_succ]

theorem monoF_zero_apply (m : Mono) (j : Nat) : monoF 0 m j = Mono.get m j := by
  rw [monoF_apply]; simp

theorem monoF_eq_iff (m n : Mono) : monoF 0 m = monoF 0 n ↔ ∀ i, Mono.get m i = Mono.get n i := by
  constructor
  · intro h i
    rw [← monoF_zero_apply, ← monoF_zero_apply, h]
  · intro h
    ext i
    rw [monoF_zero_apply, monoF_zero_apply, h]

theorem monoF_trim_mul (m n : Mono) : monoF 0 (Mono.trim (Mono.mul m n)) = monoF 0 m + monoF 0 n := by
  ext i
  simp only [Finsupp.add_apply, monoF_zero_apply, Mono.get_trim, Mono.get_mul]

theorem monoF_trim (m : Mono) : monoF 0 (Mono.trim m) = monoF 0 m :=
  (monoF_eq_iff _ _).mpr (Mono.get_trim m)

theorem monoF_var (k i : Nat) : monoF k (List.replicate i 0 ++ [1]) = Finsupp.single (k + i) 1 := by
  induction i generalizing k with
  | zero => simp [monoF]
  | succ i ih =>
    rw [List.replicate_succ, List.cons_append]
    simp only [monoF, Finsupp.single_zero, zero_add, ih]
    congr 1
    omega

/-- Meaning of a term list. -/
noncomputable def semL (l : List (Mono × Int)) : MP :=
  (l.map (fun t => monomial (monoF 0 t.1) t.2)).sum

/-- Meaning of an executable polynomial. -/
noncomputable def sem (p : Poly) : MP := semL p.terms

@[simp] theorem semL_nil : semL [] = 0 := rfl
@[simp] theorem semL_cons (t : Mono × Int) (l : List (Mono × Int)) :
    semL (t :: l) = monomial (monoF 0 t.1) t.2 + semL l := rfl

namespace Poly

theorem semL_addTerm (m : Mono) (c : Int) (l : List (Mono × Int)) :
    semL (addTerm m c l) = monomial (monoF 0 m) c + semL l := by
  induction l with
  | nil =>
    unfold addTerm
    split
    · rename_i hc
      have : c = 0 := by simpa using hc
      simp [this]
    · simp
  | cons x p ih =>
    obtain ⟨n, d⟩ := x
    unfold addTerm
    split
    · split
      · rename_i hc
        have : c = 0 := by simpa using hc
        simp [this]
      · simp
    · rename_i heq
      have hmn : monoF 0 m = monoF 0 n := (monoF_eq_iff m n).mpr ((Mono.cmp_eq_iff m n).mp heq)
      split
      · rename_i hc
        have hcd : c + d = 0 := by simpa using hc
        simp only [semL_cons]
        rw [hmn, ← add_assoc, ← map_add, hcd, map_zero, zero_add]
      · simp only [semL_cons]
        rw [hmn, ← add_assoc, ← map_add]
    · simp only [semL_cons, ih]
      rw [add_left_comm]

theorem semL_addL (p q : List (Mono × Int)) : semL (addL p q) = semL p + semL q := by
  induction p with
  | nil => simp [addL]
  | cons t p ih =>
    have : addL (t :: p) q = addTerm t.1 t.2 (addL p q) := rfl
    rw [this, semL_addTerm, ih, semL_cons, add_assoc]

theorem semL_smulMono (m : Mono) (c : Int) (q : List (Mono × Int)) :
    semL (smulMono m c q) = monomial (monoF 0 m) c * semL q := by
  induction q with
  | nil => simp [smulMono]
  | cons t q ih =>
    have : smulMono m c (t :: q)
        = addTerm (Mono.trim (Mono.mul m t.1)) (c * t.2) (smulMono m c q) := rfl
    rw [this, semL_addTerm, ih, semL_cons, mul_add, monomial_mul, monoF_trim_mul]

theorem semL_mulL (p q : List (Mono × Int)) : semL (mulL p q) = semL p * semL q := by
  induction p with
  | nil => simp [mulL]
  | cons t p ih =>
    have : mulL (t :: p) q = addL (smulMono t.1 t.2 q) (mulL p q) := rfl
    rw [this, semL_addL, semL_smulMono, ih, semL_cons, add_mul]

theorem sem_add (p q : Poly) : sem (p + q) = sem p + sem q := semL_addL _ _
theorem sem_mul (p q : Poly) : sem (p * q) = sem p * sem q := semL_mulL _ _

theorem sem_neg (p : Poly) : sem (-p) = - sem p := by
  show semL (p.terms.map (fun t => (t.1, -t.2))) = - semL p.terms
  induction p.terms with
  | nil => simp
  | cons t ts ih =>
    simp only [List.map_cons, semL_cons, ih, map_neg, neg_add]

theorem sem_const (c : Int) : sem (const c) = C c := by
  unfold const sem
  split
  · rename_i hc
    have : c = 0 := by simpa using hc
    simp [this]
  · simp [monoF]

theorem sem_zero : sem (0 : Poly) = 0 := by
  show sem (const 0) = 0
  rw [sem_const]; simp

theorem sem_one : sem (1 : Poly) = 1 := by
  show sem (const 1) = 1
  rw [sem_const]; simp

theorem sem_var (i : Nat) : sem (var i) = X i := by
  unfold var sem
  simp only [semL_cons, semL_nil, add_zero, monoF_var, Nat.zero_add]
  rfl

theorem sem_ofTerms (ts : List (Mono × Int)) : sem (ofTerms ts) = semL ts := by
  unfold ofTerms sem
  induction ts with
  | nil => rfl
  | cons t ts ih =>
    simp only [List.foldr_cons, semL_addTerm, ih, semL_cons, monoF_trim]

theorem sem_pow (p : Poly) (n : Nat) : sem (pow p n) = sem p ^ n := by
  induction n with
  | zero => simpa [pow] using sem_one
  | succ n ih =>
    have : pow p (n + 1) = p * pow p n := rfl
    rw [this, sem_mul, ih, pow_succ, mul_comm]

theorem sem_monoSubst (σ : Nat → Poly) (i : Nat) (m : Mono) :
    sem (monoSubst σ i m) = (monoF i m).prod (fun j e => sem (σ j) ^ e) := by
  induction m generalizing i with
  | nil => simpa [monoSubst, monoF] using sem_one
  | cons e m ih =>
    have : monoSubst σ i (e :: m) = pow (σ i) e * monoSubst σ (i + 1) m := rfl
    rw [this, sem_mul, sem_pow, ih]
    simp only [monoF]
    rw [Finsupp.prod_add_index' (h := fun j e => sem (σ j) ^ e) (fun a => pow_zero _)
      (fun a b₁ b₂ => pow_add _ _ _)]
    congr 1
    exact (Finsupp.prod_single_index (h := fun j e => sem (σ j) ^ e) (pow_zero _)).symm

/-- `subst σ` is `MvPolynomial.aeval` of the meanings of the `σ i`. -/
theorem sem_subst (σ : Nat → Poly) (p : Poly) :
    sem (subst σ p) = aeval (fun j => sem (σ j)) (sem p) := by
  unfold subst
  show _ = aeval (fun j => sem (σ j)) (semL p.terms)
  induction p.terms with
  | nil => simpa using sem_zero
  | cons t ts ih =>
    simp only [List.foldr_cons, semL_cons, map_add, aeval_monomial]
    rw [sem_add, sem_mul, sem_const, sem_monoSubst, ih]
    rfl

theorem monoF_set (m : Mono) (i e : Nat) (h : m[i]? = some (e + 1)) :
    monoF 0 (m.set i e) = monoF 0 m - Finsupp.single i 1 := by
  ext j
  rw [Finsupp.tsub_apply, monoF_zero_apply, monoF_zero_apply, Finsupp.single_apply]
  unfold Mono.get
  simp only [List.getD_eq_getElem?_getD, List.getElem?_set]
  have hi : i < m.length := by
    rcases Nat.lt_or_ge i m.length with h' | h'
    · exact h'
    · rw [List.getElem?_eq_none h'] at h; cases h
  by_cases hij : i = j
  · subst hij
    obtain ⟨_, hv⟩ := List.getElem?_eq_some_iff.mp h
    simp [hi, hv]
  · simp [hij]

theorem semL_deriv (i : Nat) (ts : List (Mono × Int)) :
    semL (ts.foldr (fun t acc =>
      match t.1[i]? with
      | some (e + 1) => addTerm (Mono.trim (t.1.set i e)) (((e + 1 : Nat) : Int) * t.2) acc
      | _ => acc) []) = pderiv i (semL ts) := by
  induction ts with
  | nil => simp
  | cons t ts ih =>
    simp only [List.foldr_cons, semL_cons, map_add, pderiv_monomial]
    split
    · rename_i e he
      rw [semL_addTerm, ih, monoF_trim, monoF_set _ _ _ he]
      congr 2
      have : monoF 0 t.1 i = e + 1 := by
        rw [monoF_zero_apply]; unfold Mono.get
        rw [List.getD_eq_getElem?_getD, he]; rfl
      rw [this, mul_comm]
    · rename_i hne
      have : monoF 0 t.1 i = 0 := by
        rw [monoF_zero_apply]; unfold Mono.get
        rw [List.getD_eq_getElem?_getD]
        cases hx : t.1[i]? with
        | none => rfl
        | some v =>
          cases v with
          | zero => rfl
          | succ e => exact absurd hx (hne e)
      rw [this, ih]
      simp

theorem sem_deriv (i : Nat) (p : Poly) : sem (deriv i p) = pderiv i (sem p) :=
  semL_deriv i p.terms

end Poly

/-! ### injectivity on normal forms -/

theorem coeff_semL_of_lt (m : Mono) (l : List (Mono × Int))
    (h : ∀ t ∈ l, Mono.cmp m t.1 = .lt) : coeff (monoF 0 m) (semL l) = 0 := by
  induction l with
  | nil => simp
  | cons t l ih =>
    have hne : monoF 0 t.1 ≠ monoF 0 m := by
      intro e
      have := (Mono.cmp_eq_iff m t.1).mpr (fun i => ((monoF_eq_iff _ _).mp e i).symm)
      rw [h t List.mem_cons_self] at this
      cases this
    rw [semL_cons, coeff_add, coeff_monomial, if_neg hne, zero_add]
    exact ih (fun x hx => h x (List.mem_cons_of_mem _ hx))

theorem coeff_semL_head (m : Mono) (c : Int) (l : List (Mono × Int))
    (h : ∀ t ∈ l, Mono.cmp m t.1 = .lt) : coeff (monoF 0 m) (semL ((m, c) :: l)) = c := by
  rw [semL_cons, coeff_add, coeff_monomial, if_pos rfl, coeff_semL_of_lt m l h, add_zero]

/-- Two normal forms with the same meaning are equal. -/
theorem semL_inj {p q : List (Mono × Int)} (hp : TermsWF p) (hq : TermsWF q)
    (h : semL p = semL q) : p = q := by
  induction p generalizing q with
  | nil =>
    cases q with
    | nil => rfl
    | cons y q' =>
      obtain ⟨n, d⟩ := y
      have := coeff_semL_head n d q' (List.pairwise_cons.mp hq.1).1
      rw [← h] at this
      exact absurd this.symm (hq.2 (n, d) List.mem_cons_self).2
  | cons x p' ih =>
    obtain ⟨m, c⟩ := x
    have hmp := (List.pairwise_cons.mp hp.1).1
    have hm := hp.2 (m, c) List.mem_cons_self
    cases q with
    | nil =>
      have := coeff_semL_head m c p' hmp
      rw [h] at this
      exact absurd this.symm hm.2
    | cons y q' =>
      obtain ⟨n, d⟩ := y
      have hnq := (List.pairwise_cons.mp hq.1).1
      have hn := hq.2 (n, d) List.mem_cons_self
      cases hc : Mono.cmp m n with
      | lt =>
        have h1 := coeff_semL_head m c p' hmp
        have h2 : coeff (monoF 0 m) (semL ((n, d) :: q')) = 0 :=
          coeff_semL_of_lt m _ (fun t ht => by
            rcases List.mem_cons.mp ht with e | e
            · rw [e]; exact hc
            · exact Mono.cmp_lt_trans hc (hnq t e))
        rw [h, h2] at h1
        exact absurd h1.symm hm.2
      | gt =>
        have hc' := Mono.cmp_gt_swap hc
        have h1 := coeff_semL_head n d q' hnq
        have h2 : coeff (monoF 0 n) (semL ((m, c) :: p')) = 0 :=
          coeff_semL_of_lt n _ (fun t ht => by
            rcases List.mem_cons.mp ht with e | e
            · rw [e]; exact hc'
            · exact Mono.cmp_lt_trans hc' (hmp t e))
        rw [← h, h2] at h1
        exact absurd h1.symm hn.2
      | eq =>
        have hmn : m = n := Mono.trimmed_ext hm.1 hn.1 ((Mono.cmp_eq_iff m n).mp hc)
        subst hmn
        have h1 := coeff_semL_head m c p' hmp
        have h2 := coeff_semL_head m d q' hnq
        rw [h, h2] at h1
        subst h1
        have h3 : semL p' = semL q' := by
          simp only [semL_cons] at h
          exact add_left_cancel h
        rw [ih hp.tail hq.tail h3]

theorem sem_inj {p q : Poly} (hp : p.WF) (hq : q.WF) (h : sem p = sem q) : p = q := by
  cases p; cases q
  congr
  exact semL_inj hp hq h

end DV.Param
