/-
  Proofs/CircuitProps.lean — the whole-circuit statements of C11 and C16 for the executable model,
  assembled from the transport theorems (Proofs/CircuitCyc8.lean) and the gate tables
  (Proofs/CircuitTables*.lean).
-/
import Proofs.CircuitTables
import Proofs.CircuitTablesZX3

namespace DV.Gates
open DV

/-- The unitary gates of the C11 statements: the table, rotations (every integer phase index, even
    unless CU1), controlled gates, and all their daggers. -/
def Gate.inUnitarySet (g : Gate) : Prop :=
  g ∈ unitaryGates ∨ g ∈ unitaryGatesF2 ∨ ∃ k n, g = Gate.rot k n ∧ (k = .CU1 ∨ n % 2 = 0)

/-- Gates whose dagger is covered: the unitary set (`Controlled(S)`, `Controlled(T)` only with F2
    repaired), kets and bras of ≤ 4 bits, normalised scalars, and square-root scalars `sqrt(z)` with a
    normalised value `r` for every `z` that is not a negative real (there the statement is FALSE for the
    code as it is, finding F4k: `F4k_sqrt_negative`), and user-defined `QuantumGate`s on ZERO qubits (global
    phases `QuantumGate(name, 0, [z])`) with either dagger flag and any normalised entry. -/
def Gate.inDaggerSet (g : Gate) : Prop :=
  g ∈ unitaryGates ∨ (f2Fixed = true ∧ g ∈ unitaryGatesF2) ∨
  (∃ k n, g = Gate.rot k n ∧ (k = .CU1 ∨ n % 2 = 0)) ∨ g ∈ ketGates ∨ g ∈ braGates ∨
  (∃ z : Cyc8, g = Gate.scalar z ∧ z.isNormal = true) ∨
  (∃ z r : Cyc8, g = Gate.sqrt z r ∧ r.isNormal = true ∧ (sqrtSelfAdjoint z r = false ∨ r.conj = r)) ∨
  ∃ (name : String) (z : Cyc8) (b : Bool), g = Gate.q ⟨name, 0, [[z]], some b⟩ ∧ z.isNormal = true

/-- Gates of the C16 statement: the translated table, normalised scalars, Rz, Rx, CRz, CRx, CU1 at
    every even integer phase index, and square-root scalars `sqrt(z)` (the subclass `gates.Sqrt` of
    `gates.Scalar`; `Circuit.cups` / `caps` contain `sqrt(2)`) whose value `r` (`r² = z`) is invertible
    in ℤ[ζ₈][1/2] or zero. -/
def Gate.inZXSet (g : Gate) : Prop :=
  (∃ k, (g, k) ∈ zxTable) ∨ (∃ z : Cyc8, g = Gate.scalar z ∧ z.isNormal = true) ∨
  (∃ k n, g = Gate.rot k n ∧ k ≠ .Ry ∧ n % 2 = 0) ∨
  (∃ z r r' : Cyc8, g = Gate.sqrt z r ∧ z.isNormal = true ∧ r.isNormal = true ∧ r'.isNormal = true ∧
    r * r = z ∧ r * r' = 1) ∨ g = Gate.sqrt 0 0

/-- The per-gate ZX hypothesis depends on the phase index modulo 16 only (`ζ⁸ = 1`). -/
theorem zxOK_rot_mod16 (k : RotKind) (n : Int) (κ κ' : Cyc8) :
    (Gate.rot k n).zxOK κ κ' = (Gate.rot k (n % 16)).zxOK κ κ' := by
  have e1 : Cyc8.zetaPow (n / 2) = Cyc8.zetaPow (n % 16 / 2) := Cyc8.zetaPow_congr (by omega)
  have e2 : Cyc8.zetaPow (-(n / 2)) = Cyc8.zetaPow (-(n % 16 / 2)) := Cyc8.zetaPow_congr (by omega)
  have e3 : Cyc8.zetaPow n = Cyc8.zetaPow (n % 16) := Cyc8.zetaPow_congr (by omega)
  have e : (Gate.rot k n).eval = (Gate.rot k (n % 16)).eval := by
    simp only [Gate.eval, Gate.evalW, Gate.isDagger, Gate.arrayW]; exact rotArr_mod16 k n
  cases k <;>
    simp only [Gate.zxOK, gate2zx, if_true, Gate.shapeOK, e, Gate.dom, Gate.cod, ZXDiag.eval, ZXDiag.sem,
      ZXBox.sem, List.map_cons, List.map_nil, e1, e2, e3, ZXDiag.normal, ZXDiag.codFrom, List.all_cons,
      ZXBox.normal, List.all_nil] <;> rfl

/-- **Rz, Rx, CRz, CRx, CU1 at every even integer phase index**: the (corrected) image denotes
    `k • ⟦g⟧` with an invertible `k`. -/
theorem rot_zxOK_all (k : RotKind) (n : Int) (hk : k ≠ .Ry) (hn : n % 2 = 0) :
    ∃ κ, (Gate.rot k n).zxOK κ (zxInv κ) = true := by
  have hm : n % 16 ∈ evenPhases := by
    have : n % 16 = 0 ∨ n % 16 = 2 ∨ n % 16 = 4 ∨ n % 16 = 6 ∨ n % 16 = 8 ∨ n % 16 = 10 ∨ n % 16 = 12 ∨
        n % 16 = 14 := by omega
    rcases this with e | e | e | e | e | e | e | e <;> rw [e] <;> decide
  have one : ∀ κ, (Gate.rot k (n % 16), κ) ∈ zxTable → ∃ κ, (Gate.rot k n).zxOK κ (zxInv κ) = true :=
    fun κ h => ⟨κ, by rw [zxOK_rot_mod16]; exact zxTable_ok _ h⟩
  have hB : ∀ k' ∈ ctrlRotKinds, (Gate.rot k' (n % 16), Cyc8.invSqrt2) ∈ zxTable := fun k' hk' =>
    List.mem_append_left _ (List.mem_append_right _
      (List.mem_flatMap.2 ⟨k', hk', List.mem_map.2 ⟨n % 16, hm, rfl⟩⟩))
  have hA : ∀ g, g ∈ [(Gate.rot .Rz (n % 16), Cyc8.zetaPow (n % 16 / 2)),
      (Gate.rot .Rx (n % 16), Cyc8.zetaPow (n % 16 / 2))] → g ∈ zxTable := fun g hg =>
    List.mem_append_left _ (List.mem_append_left _ (List.mem_append_right _
      (List.mem_flatMap.2 ⟨n % 16, hm, hg⟩)))
  cases k with
  | Ry => exact absurd rfl hk
  | Rz => exact one (Cyc8.zetaPow (n % 16 / 2)) (hA _ (by simp))
  | Rx => exact one (Cyc8.zetaPow (n % 16 / 2)) (hA _ (by simp))
  | CRz => exact one _ (hB _ (by decide))
  | CRx => exact one _ (hB _ (by decide))
  | CU1 => exact one _ (hB _ (by decide))

theorem Gate.inUnitarySet.ok {g : Gate} (h : g.inUnitarySet) : g.isoOK = true ∧ g.coisoOK = true := by
  rcases h with h | h | ⟨k, n, rfl, h⟩
  · exact ⟨(unitaryGates_ok g h).1, (unitaryGates_ok g h).2.1⟩
  · exact ⟨(unitaryGatesF2_ok g h).1, (unitaryGatesF2_ok g h).2.1⟩
  · exact ⟨(rotOK_all k n h).1, (rotOK_all k n h).2.1⟩

theorem Gate.inDaggerSet.ok {g : Gate} (h : g.inDaggerSet) : g.dagOK = true := by
  rcases h with h | ⟨hf, h⟩ | ⟨k, n, rfl, h⟩ | h | h | ⟨z, rfl, hz⟩ | ⟨z, r, rfl, hr, h⟩ | ⟨name, z, b, rfl, hz⟩
  rotate_right
  · exact phase0_dagOK name z b hz
  · exact (unitaryGates_ok g h).2.2
  · exact (unitaryGatesF2_ok g h).2.2 hf
  · exact (rotOK_all k n h).2.2
  · exact (ketBra_ok.1 g h).2
  · exact (ketBra_ok.2 g h).2
  · exact scalar_dagOK z hz
  · exact sqrt_dagOK z r hr h

/-- **C11 `circuit_unitary`**: every well-typed circuit over the unitary gate set evaluates to a unitary. -/
theorem circuit_unitary_cyc8 (n m : Nat) (c : Circ) (ht : Circ.codFrom n c = some m)
    (hg : ∀ x ∈ c, x.2.1.inUnitarySet) :
    mul (evalCirc n c) (dagger (evalCirc n c)) = idQ n ∧
    mul (dagger (evalCirc n c)) (evalCirc n c) = idQ m :=
  ⟨evalCirc_isometry ht fun x hx => (hg x hx).ok.1, evalCirc_coisometry ht fun x hx => (hg x hx).ok.2⟩

/-- State preparation included: with kets (≤ 4 bits) among the layers the circuit is an isometry. -/
theorem circuit_isometry_cyc8 (n m : Nat) (c : Circ) (ht : Circ.codFrom n c = some m)
    (hg : ∀ x ∈ c, x.2.1.inUnitarySet ∨ x.2.1 ∈ ketGates) :
    mul (evalCirc n c) (dagger (evalCirc n c)) = idQ n :=
  evalCirc_isometry ht fun x hx => by
    rcases hg x hx with h | h
    · exact h.ok.1
    · exact (ketBra_ok.1 _ h).1

/-- **C11 `circuit_dagger`**: `⟦c†⟧ = ⟦c⟧†` for every well-typed circuit over the gate set. -/
theorem circuit_dagger_cyc8 (n m : Nat) (c : Circ) (ht : Circ.codFrom n c = some m)
    (hg : ∀ x ∈ c, x.2.1.inDaggerSet) :
    evalCirc m (Circ.dagger c) = dagger (evalCirc n c) :=
  evalCirc_dagger ht fun x hx => (hg x hx).ok

/-- **C16 `circuit2zx_sound`**: the (corrected) translation of a well-typed circuit over the translated
    gate set is a well-typed ZX diagram denoting `k • ⟦c⟧` for ONE non-zero (indeed invertible) `k`. -/
theorem circuit2zx_sound_cyc8 (n m : Nat) (c : Circ) (d : ZXDiag) (ht : Circ.codFrom n c = some m)
    (hg : ∀ x ∈ c, x.2.1.inZXSet) (h : circuit2zx true c = .ok d) :
    ZXDiag.codFrom n d = some m ∧
    ∃ k : Cyc8, k ≠ 0 ∧ ZXDiag.eval n d = msmul k (evalCirc n c) := by
  obtain ⟨K, K', h0, _, hc, he⟩ := circuit2zx_sound_of ht (fun x hx => by
    rcases hg x hx with ⟨k, hk⟩ | ⟨z, hz, hn⟩ | ⟨k, n', hr, hk, hn⟩ | ⟨z, r, r', hg', hz, hr, hr', h1, h2⟩ | hg'
    · exact ⟨k, zxInv k, zxTable_ok _ hk⟩
    · exact ⟨1, 1, hz ▸ scalar_zxOK z hn⟩
    · obtain ⟨κ, hκ⟩ := rot_zxOK_all k n' hk hn
      exact ⟨κ, zxInv κ, hr ▸ hκ⟩
    · exact ⟨r, r', hg' ▸ sqrt_zxOK z r r' hz hr hr' h1 h2⟩
    · exact ⟨1, 1, hg' ▸ sqrt_zero_zxOK⟩) h
  exact ⟨hc, K, h0, he⟩

/-- On the gates other than CRz, CRx, CU1 the table as it is and the corrected table coincide. -/
theorem gate2zx_asis_eq_fixed : ∀ p ∈ zxTableA ++ zxTableC, gate2zx false p.1 = gate2zx true p.1 := by
  decide +kernel

/-- Hence the translation AS IT IS (finding F7 open) is sound on circuits without CRz, CRx, CU1. -/
theorem circuit2zx_sound_asis (n m : Nat) (c : Circ) (d : ZXDiag) (ht : Circ.codFrom n c = some m)
    (hg : ∀ x ∈ c, (∃ k, (x.2.1, k) ∈ zxTableA ++ zxTableC) ∨
      ∃ z : Cyc8, x.2.1 = Gate.scalar z ∧ z.isNormal = true)
    (h : circuit2zx false c = .ok d) :
    ZXDiag.codFrom n d = some m ∧
    ∃ k : Cyc8, k ≠ 0 ∧ ZXDiag.eval n d = msmul k (evalCirc n c) := by
  have e : circuit2zx false c = circuit2zx true c := by
    clear ht h
    induction c with
    | nil => rfl
    | cons x rest ih =>
      obtain ⟨l, g, r⟩ := x
      have hgx : gate2zx false g = gate2zx true g := by
        rcases hg (l, g, r) (by simp) with ⟨k, hk⟩ | ⟨z, hz, _⟩
        · exact gate2zx_asis_eq_fixed _ hk
        · simp only at hz; subst hz; rfl
      simp only [circuit2zx, hgx, ih fun y hy => hg y (by simp [hy])]
  refine circuit2zx_sound_cyc8 n m c d ht (fun x hx => ?_) (e ▸ h)
  rcases hg x hx with ⟨k, hk⟩ | hz
  · refine .inl ⟨k, ?_⟩
    simp only [zxTable, List.mem_append] at hk ⊢
    rcases hk with hk | hk
    · exact .inl (.inl hk)
    · exact .inr hk
  · exact .inr (.inl hz)

/-- The typing hypothesis cannot be dropped: on 2 qubits the "circuit" `H` (a 2 × 2 layer) does not
    evaluate to a unitary 4 × 4 matrix (the list product truncates). -/
theorem circuit_unitary_needs_typing :
    Circ.codFrom 2 [(0, .q gH, 0)] = none ∧
    mul (evalCirc 2 [(0, .q gH, 0)]) (dagger (evalCirc 2 [(0, .q gH, 0)])) ≠ idQ 2 := by decide

end DV.Gates
