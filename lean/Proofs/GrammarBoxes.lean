/-
  Proofs/GrammarBoxes.lean — biclosed2rigid keeps the words and generic boxes of a biclosed
  diagram: whatever the translation returns contains, besides the structural boxes (cups, caps,
  swaps) that the rule boxes and Curry boxes unfold to, exactly one box per word / generic box
  of the source, in the source's order, carrying the source's name and the images of its
  domain and codomain (property C18; used by Props/C18.lean).

  All statements are of the form "IF the call returns a diagram THEN its generic boxes are …";
  that it does return is `Rule.img_has` / `BD.img_has` in Proofs/Grammar.lean.
-/
import Proofs.Grammar

namespace DV

/-! CCG notation, result first, the way `ccg.cat2ty` reads category strings (ccg.py:39-42:
    `left/right ↦ cat2ty(left) << cat2ty(right)`, `left\right ↦ cat2ty(right) >> cat2ty(left)`). -/

/-- `X/Y` — looks for a `Y` on its right, then is an `X` — is `X << Y`. -/
abbrev BTy.fwd (x y : BTy) : BTy := BTy.over x y
/-- `X\Y` — looks for a `Y` on its left, then is an `X` — is `Y >> X` ("Y under X"). -/
abbrev BTy.bwd (x y : BTy) : BTy := BTy.under y x

/-- The boxes of a rigid diagram that are not cups, caps or swaps, in order. -/
def Diagram.gens (d : Diagram) : List Box := d.boxes.filter (fun b => b.kind == .gen)

theorem Diagram.tensor_boxes {a b d : Diagram} (h : a.tensor b = .ok d) :
    d.boxes = a.boxes ++ b.boxes := by
  simp only [Diagram.tensor] at h
  split at h
  · cases h
  · split at h
    · cases h
    · cases h; rfl

theorem Diagram.then_boxes {a b d : Diagram} (h : a.then b = .ok d) :
    d.boxes = a.boxes ++ b.boxes := by
  simp only [Diagram.then] at h
  split at h
  · cases h
  · cases h; rfl

theorem Diagram.tensor_gens {a b d : Diagram} (h : a.tensor b = .ok d) :
    d.gens = a.gens ++ b.gens := by
  simp [Diagram.gens, Diagram.tensor_boxes h]

theorem Diagram.then_gens {a b d : Diagram} (h : a.then b = .ok d) :
    d.gens = a.gens ++ b.gens := by
  simp [Diagram.gens, Diagram.then_boxes h]

theorem Diagram.id_gens (t : Ty) : (Diagram.id t).gens = [] := rfl

/-- If the call returns, the generic boxes of the result are `gs`. -/
def Gens (r : Except Err Diagram) (gs : List Box) : Prop := ∀ d, r = .ok d → d.gens = gs

theorem Gens.ok (d : Diagram) : Gens (.ok d) d.gens := by
  intro x h; cases h; rfl

theorem Gens.id (t : Ty) : Gens (.ok (Diagram.id t)) [] := Gens.ok _

theorem Gens.error (e : Err) (gs : List Box) : Gens (.error e) gs := by
  intro x h; cases h

theorem Gens.cast {r : Except Err Diagram} {g g' : List Box} (h : Gens r g) (e : g = g') :
    Gens r g' := e ▸ h

theorem Gens.tensorE {a b : Except Err Diagram} {g1 g2 : List Box} (ha : Gens a g1)
    (hb : Gens b g2) : Gens (tensorE a b) (g1 ++ g2) := by
  intro d h
  cases a with
  | error e => simp [DV.tensorE] at h
  | ok x =>
    cases b with
    | error e => simp [DV.tensorE] at h
    | ok y =>
      simp only [DV.tensorE] at h
      rw [Diagram.tensor_gens h, ha x rfl, hb y rfl]

theorem Gens.thenE {a b : Except Err Diagram} {g1 g2 : List Box} (ha : Gens a g1)
    (hb : Gens b g2) : Gens (thenE a b) (g1 ++ g2) := by
  intro d h
  cases a with
  | error e => simp [DV.thenE] at h
  | ok x =>
    cases b with
    | error e => simp [DV.thenE] at h
    | ok y =>
      simp only [DV.thenE] at h
      rw [Diagram.then_gens h, ha x rfl, hb y rfl]

/-! ### swaps, cups and caps contain no generic box -/

theorem swapOne_gens {l : Ob} {right : Ty} {d : Diagram} (h : swapOne l right = .ok d) :
    d.gens = [] := by
  obtain ⟨_, _, _, hb, _⟩ := Diagram.mk?_ok h
  simp [Diagram.gens, hb, List.filter_eq_nil_iff, Box.swap]

theorem Diagram.swap_gens {left right : Ty} {d : Diagram} (h : Diagram.swap left right = .ok d) :
    d.gens = [] := by
  induction left generalizing d with
  | nil =>
    simp only [Diagram.swap, Except.ok.injEq] at h; subst h; rfl
  | cons l ls ih =>
    cases ls with
    | nil => exact swapOne_gens (by simpa [Diagram.swap] using h)
    | cons l2 ls =>
      simp only [Diagram.swap] at h
      split at h
      · cases h
      · rename_i rest hrest
        split at h
        · cases h
        · rename_i top htop
          split at h
          · cases h
          · rename_i s1 hs1
            split at h
            · cases h
            · rename_i bot hbot
              rw [Diagram.then_gens h, Diagram.tensor_gens htop, Diagram.tensor_gens hbot,
                ih hrest, swapOne_gens hs1]
              rfl

theorem Gens.swap (left right : Ty) : Gens (Diagram.swap left right) [] :=
  fun _ h => Diagram.swap_gens h

theorem cupsLoop_gens {left right : Ty} {rev : Bool} {n i : Nat} {d d' : Diagram}
    (h : cupsLoop left right rev n i d = .ok d') : d'.gens = d.gens := by
  induction n generalizing i d with
  | zero => simp [cupsLoop] at h; subst h; rfl
  | succ n ih =>
    simp only [cupsLoop] at h
    split at h
    · rename_i lj ri _ _
      split at h
      · cases h
      · rename_i x hx
        split at h
        · cases h
        · rename_i layer hlayer
          have hl : layer.gens = [] := by
            rw [Diagram.tensor_gens hlayer, Diagram.tensor_gens hx]
            cases rev <;> rfl
          split at h
          · cases h
          · rename_i d1 hd1
            rw [ih h]
            split at hd1
            · rw [Diagram.then_gens hd1, hl]; rfl
            · rw [Diagram.then_gens hd1, hl]; simp
    · cases h

theorem Gens.cups (left right : Ty) : Gens (Diagram.cups left right) [] := by
  intro d h
  unfold Diagram.cups at h
  split at h
  · cases h
  · rw [cupsLoop_gens h]; rfl

theorem Gens.caps (left right : Ty) : Gens (Diagram.caps left right) [] := by
  intro d h
  unfold Diagram.caps at h
  split at h
  · cases h
  · rw [cupsLoop_gens h]; rfl

/-! ### the rigid images of the rules are purely structural -/

theorem rigidFa_gens (l r : Ty) : Gens (rigidFa l r) [] := by
  unfold rigidFa
  exact ((Gens.id _).tensorE (Gens.cups _ _)).cast rfl

theorem rigidBa_gens (l r : Ty) : Gens (rigidBa l r) [] := by
  unfold rigidBa
  exact ((Gens.cups _ _).tensorE (Gens.id _)).cast rfl

theorem rigidFc_gens (l m r : Ty) : Gens (rigidFc l m r) [] := by
  unfold rigidFc
  exact (((Gens.id _).tensorE (Gens.cups _ _)).tensorE (Gens.id _)).cast rfl

theorem rigidBc_gens (l m r : Ty) : Gens (rigidBc l m r) [] := by
  unfold rigidBc
  exact (((Gens.id _).tensorE (Gens.cups _ _)).tensorE (Gens.id _)).cast rfl

theorem rigidFx_gens (l m r : Ty) : Gens (rigidFx l m r) [] := by
  unfold rigidFx
  exact ((((Gens.id _).tensorE (Gens.swap _ _)).tensorE (Gens.id _)).thenE
    ((Gens.swap _ _).tensorE (Gens.cups _ _))).cast rfl

theorem rigidBx_gens (l m r : Ty) : Gens (rigidBx l m r) [] := by
  unfold rigidBx
  exact ((((Gens.id _).tensorE (Gens.swap _ _)).tensorE (Gens.id _)).thenE
    ((Gens.cups _ _).tensorE (Gens.swap _ _))).cast rfl

theorem fcImg_gens (dom : BTy) (f : Ty → Ty → Ty → Except Err Diagram)
    (hf : ∀ l m r, Gens (f l m r) []) : Gens (fcImg dom f) [] := by
  unfold fcImg
  split
  · exact hf _ _ _
  · exact Gens.error _ _

theorem fxImg_gens (dom : BTy) : Gens (fxImg dom) [] := by
  unfold fxImg
  split
  · exact rigidFx_gens _ _ _
  · exact Gens.error _ _

theorem bxImg_gens (dom : BTy) : Gens (bxImg dom) [] := by
  unfold bxImg
  split
  · exact rigidBx_gens _ _ _
  · exact Gens.error _ _

/-- The image of the words / generic boxes of a rule box: one box of the same name over the
    images of its domain and codomain (daggered when the source is); none for FA … BX. -/
def Rule.gens : Rule → List Box
  | .gen name dom cod => [{ name := name, dom := BTy.img dom, cod := BTy.img cod }]
  | .dgen name dom cod => [{ name := name, dom := BTy.img dom, cod := BTy.img cod, dagger := true }]
  | _ => []

theorem Rule.img_gens (v : Variant) (r : Rule) : Gens (r.img v) r.gens := by
  unfold Rule.img
  split
  · cases r with
    | gen name dom cod => exact Gens.ok _
    | dgen name dom cod => exact Gens.ok _
    | fa l r => exact rigidFa_gens _ _
    | ba l r => exact rigidBa_gens _ _
    | fc a b c d => simp only [Rule.imgCore]; exact fcImg_gens _ _ rigidFc_gens
    | bc a b c d => simp only [Rule.imgCore]; exact fcImg_gens _ _ rigidBc_gens
    | fx a b c d => simp only [Rule.imgCore]; exact fxImg_gens _
    | bx a b c d => simp only [Rule.imgCore]; exact bxImg_gens _
  · exact Gens.error _ _

/-! ### Curry boxes keep the boxes of the curried diagram -/

theorem rigidCurry_gens (v : Variant) (g : Diagram) (n : Int) (left : Bool) :
    Gens (rigidCurry v g n left) g.gens := by
  unfold rigidCurry
  split
  · unfold rigidCurryLeft
    exact (((Gens.caps _ _).tensorE (Gens.id _)).thenE ((Gens.id _).tensorE (Gens.ok g))).cast
      (by simp)
  · unfold rigidCurryRight
    exact (((Gens.id _).tensorE (Gens.caps _ _)).thenE ((Gens.ok g).tensorE (Gens.id _))).cast
      (by simp)

/-! ### whole diagrams -/

/-- The images of the words / generic boxes of a biclosed diagram, in the order of the diagram
    (a Curry box contributes those of the diagram it curries). -/
def BD.gens : BD → List Box
  | .id _ => []
  | .snoc d _ r => d.gens ++ r.gens
  | .snocCurry d _ inner _ _ => d.gens ++ inner.gens

theorem imgLayer_gens {res : Diagram} {scan : BTy} {off : Int} {bdom : BTy}
    {fbox : Except Err Diagram} {gs : List Box} (hbox : Gens fbox gs) :
    Gens (imgLayer res scan off bdom fbox) (res.gens ++ gs) := by
  unfold imgLayer
  exact ((Gens.ok res).thenE (((Gens.id _).tensorE hbox).tensorE (Gens.id _))).cast (by simp)

theorem BD.img_gens (v : Variant) (d : BD) : Gens (d.img v) d.gens := by
  induction d with
  | id t => exact Gens.id _
  | snoc d off r ih =>
    intro x h
    simp only [BD.img] at h
    split at h
    · cases h
    · rename_i res hres
      rw [imgLayer_gens (Rule.img_gens v r) x h, ih res hres]; rfl
  | snocCurry d off inner n left ih1 ih2 =>
    intro x h
    simp only [BD.img] at h
    split at h
    · cases h
    · rename_i res hres
      split at h
      · cases h
      · rename_i g hg
        rw [imgLayer_gens (rigidCurry_gens v g _ left) x h, ih1 res hres, ih2 g hg]; rfl

theorem BD.curryBoxImg_gens (v : Variant) (inner : BD) (n : Int) (left : Bool) :
    Gens (BD.curryBoxImg v inner n left) inner.gens := by
  intro x h
  simp only [BD.curryBoxImg] at h
  split at h
  · cases h
  · rename_i g hg
    rw [rigidCurry_gens v g _ left x h, BD.img_gens v inner g hg]

end DV
