/-
  Proofs/Nx2Roundtrip.lean — `nx2diagram(diagram2nx(d)) = d` for every well-typed `d`, provided
  every box WITHOUT inputs carries its offset as the `offset` attribute of its node (boxes with
  inputs need nothing: their offset is found from the first input wire).
-/
import Proofs.NxEdges
import Proofs.LayoutDiagram

namespace DV.Dz
open DV DV.Layout

/-! ### Two well-typed diagrams with the same public fields are equal -/

theorem layers_ext : ∀ (ls ls' : List Layer) (s c c' : Ty), Chain s ls c → Chain s ls' c' →
    ls.map (·.box) = ls'.map (·.box) →
    ls.map (fun l => (l.left.length : Int)) = ls'.map (fun l => (l.left.length : Int)) →
    ls = ls' := by
  intro ls
  induction ls with
  | nil => intro ls' s c c' _ _ hb _; cases ls' <;> simp_all
  | cons l ls ih =>
    intro ls' s c c' h h' hb ho
    cases ls' with
    | nil => simp at hb
    | cons l' ls' =>
      simp only [List.map_cons, List.cons.injEq] at hb ho
      obtain ⟨h1, h2⟩ := h
      obtain ⟨h1', h2'⟩ := h'
      have hlen : l.left.length = l'.left.length := by exact_mod_cast ho.1
      have e : l.left ++ (l.box.dom ++ l.right) = l'.left ++ (l'.box.dom ++ l'.right) := by
        have := h1.symm.trans h1'
        simpa [Layer.dom, List.append_assoc] using this
      obtain ⟨e1, e2⟩ := List.append_inj e hlen
      rw [hb.1] at e2
      have e3 := List.append_cancel_left e2
      have hl : l = l' := by
        cases l; cases l'; simp_all
      subst hl
      rw [ih ls' _ _ _ h2 h2' hb.2 ho.2]

theorem wf_ext {d d' : Diagram} (h : d.WF) (h' : d'.WF) (h1 : d'.dom = d.dom) (h2 : d'.cod = d.cod)
    (h3 : d'.boxes = d.boxes) (h4 : d'.offsets = d.offsets) : d' = d := by
  have hl : d'.layers.boxes = d.layers.boxes := by
    apply layers_ext _ _ d.dom d'.cod d.cod
    · have := h'.chain; unfold LArrow.WF at this; rwa [h'.ldom, h'.lcod, h1] at this
    · have := h.chain; unfold LArrow.WF at this; rwa [h.ldom, h.lcod] at this
    · rw [← h'.boxes, ← h.boxes, h3]
    · rw [← h'.offsets, ← h.offsets, h4]
  cases d with
  | mk dom cod boxes offsets layers =>
    cases d' with
    | mk dom' cod' boxes' offsets' layers' =>
      cases layers; cases layers'
      have e1 := h.ldom; have e2 := h.lcod; have e1' := h'.ldom; have e2' := h'.lcod
      simp_all

/-! ### Decorated layout nodes -/

section
variable (d : Diagram) (attr : Nat → OffAttr)

theorem map_inputs (n : Nat) (hn : n = d.dom.length) :
    ((List.range n).map inputNode).map (decorate d attr) = inputNodes d.dom := by
  apply List.ext_getElem?
  intro i
  rw [inputNodes_getElem?]
  simp only [List.getElem?_map]
  rcases Nat.lt_or_ge i n with hi | hi
  · rw [List.getElem?_range hi]
    have : i < d.dom.length := by omega
    simp [decorate, inputNode, List.getElem?_eq_getElem this, List.getD_eq_getElem?_getD]
  · rw [List.getElem?_eq_none (by simpa using hi)]
    rw [List.getElem?_eq_none (by omega)]
    rfl

theorem map_cods {k : Nat} {b : Box} (hb : d.boxes[k]? = some b) (c : Nat) (hc : c = b.cod.length) :
    ((List.range c).map (codNode k)).map (decorate d attr) = codNodes b.cod k := by
  have hbd : d.boxes.getD k default = b := by rw [List.getD_eq_getElem?_getD, hb]; rfl
  apply List.ext_getElem?
  intro i
  rw [codNodes_getElem?]
  simp only [List.getElem?_map]
  rcases Nat.lt_or_ge i c with hi | hi
  · rw [List.getElem?_range hi]
    have : i < b.cod.length := by omega
    simp [decorate, codNode, hb, List.getElem?_eq_getElem this, List.getD_eq_getElem?_getD]
  · rw [List.getElem?_eq_none (by simpa using hi)]
    rw [List.getElem?_eq_none (by omega)]
    rfl

/-- The decorated edges of the `dom` ports, from index `i0`. -/
theorem flatten_domEdges (bn : GNode) (k : Nat) (fo : Nat → Ob) (fw : Nat → GNode) :
    ∀ (n i0 : Nat),
      ((List.range' i0 n).map (fun i => [(fw i, GNode.dom (fo i) i k), (GNode.dom (fo i) i k, bn)])).flatten
        = domEdges bn k i0 ((List.range' i0 n).map fo) ((List.range' i0 n).map fw) := by
  intro n
  induction n with
  | zero => intro i0; rfl
  | succ n ih =>
    intro i0
    simp only [List.range'_succ, List.map_cons, List.flatten_cons, domEdges, ih (i0 + 1)]
    rfl

theorem range'_map_getD {α} [Inhabited α] (l : List α) (m : Nat) (hm : m = l.length) :
    (List.range' 0 m).map (fun i => l.getD i default) = l := by
  apply List.ext_getElem?
  intro i
  simp only [List.getElem?_map]
  rcases Nat.lt_or_ge i m with hi | hi
  · rw [List.getElem?_range' hi]
    have : i < l.length := by omega
    simp [List.getD_eq_getElem?_getD, List.getElem?_eq_getElem this]
  · rw [List.getElem?_eq_none (by simpa using hi), List.getElem?_eq_none (by omega)]
    rfl

theorem range'_map_block {α β} [Inhabited α] (f : α → β) (l : List α) (off m : Nat)
    (h : off + m ≤ l.length) :
    (List.range' 0 m).map (fun i => f (l.getD (off + i) default)) = ((l.map f).drop off).take m := by
  apply List.ext_getElem?
  intro i
  simp only [List.getElem?_map]
  rcases Nat.lt_or_ge i m with hi | hi
  · rw [List.getElem?_range' hi, List.getElem?_take_of_lt hi, List.getElem?_drop, List.getElem?_map]
    have : off + i < l.length := by omega
    simp [List.getD_eq_getElem?_getD, List.getElem?_eq_getElem this]
  · rw [List.getElem?_eq_none (by simpa using hi)]
    rw [List.getElem?_eq_none (by simp; omega)]
    rfl

theorem map_boxEdges {k : Nat} {b : Box} (hb : d.boxes[k]? = some b) (scanL : List Node)
    (off : Nat) (hin : off + b.dom.length ≤ scanL.length) :
    (boxEdges scanL ⟨b.dom.length, b.cod.length, off⟩ k).map
        (fun e => (decorate d attr e.1, decorate d attr e.2))
      = stepEdges k b (attr k) (((scanL.map (decorate d attr)).drop off).take b.dom.length) := by
  have hbd : d.boxes.getD k default = b := by rw [List.getD_eq_getElem?_getD, hb]; rfl
  unfold boxEdges stepEdges
  simp only [List.map_append, List.map_flatten, List.map_map]
  congr 1
  · have := flatten_domEdges (.box b k (attr k)) k (fun i => b.dom.getD i default)
      (fun i => decorate d attr (scanL.getD (off + i) default)) b.dom.length 0
    rw [range'_map_getD b.dom _ rfl, range'_map_block (decorate d attr) scanL off _ hin] at this
    rw [← this, List.range_eq_range']
    congr 1
    apply List.map_congr_left
    intro i _
    simp [decorate, domNode, boxNode, hb, List.getD_eq_getElem?_getD]
  · have := map_cods d attr hb b.cod.length rfl
    unfold codEdges
    rw [← this]
    simp only [List.map_map]
    apply List.map_congr_left
    intro i _
    simp [decorate, boxNode, hb, List.getD_eq_getElem?_getD]

theorem map_nextScan {k : Nat} {b : Box} (hb : d.boxes[k]? = some b) (scanL : List Node) (off : Nat) :
    (nextScan scanL ⟨b.dom.length, b.cod.length, off⟩ k).map (decorate d attr)
      = nextOpen (scanL.map (decorate d attr)) off b.dom.length b.cod k := by
  unfold nextScan nextOpen
  simp only [List.map_append, List.map_take, List.map_drop, map_cods d attr hb _ rfl]

/-! ### Along the layers -/

/-- The box nodes' `(box, attribute)` for depths `k, k+1, …`. -/
def stepsB : Nat → List Box → List (Box × OffAttr)
  | _, [] => []
  | k, b :: bs => (b, attr k) :: stepsB (k + 1) bs

/-- The open wires after the boxes `k, k+1, …`. -/
def lastScan : List Node → Nat → List Step → List Node
  | scan, _, [] => scan
  | scan, k, st :: r => lastScan (nextScan scan st k) (k + 1) r

theorem run_lastScan (n : Nat) : ∀ (steps : List Step) (s : St) (k : Nat),
    (run n s k steps).scan = lastScan s.scan k steps := by
  intro steps
  induction steps with
  | nil => intro s k; rfl
  | cons st r ih => intro s k; simp only [run, lastScan, ih]; rfl

theorem along_layers (hattr : ∀ k b o, d.boxes[k]? = some b → d.offsets[k]? = some o →
      b.dom = [] → (attr k).get = some o) (hwf : d.WF) :
    ∀ (ls pre : List Layer) (k : Nat) (scanL : List Node) (s : Ty),
      d.layers.boxes = pre ++ ls → pre.length = k → Chain s ls d.cod →
      (scanL.map (decorate d attr)).map GNode.obj? = s.map some →
      (edgesFrom scanL k (ls.map stepOfLayer)).map (fun e => (decorate d attr e.1, decorate d attr e.2))
          = stepsEdges (scanL.map (decorate d attr)) k (stepsB attr k (ls.map (·.box)))
              (ls.map (fun l => l.left.length))
        ∧ PlanarSteps (scanL.map (decorate d attr)) k (stepsB attr k (ls.map (·.box)))
            (ls.map (fun l => l.left.length))
            ((lastScan scanL k (ls.map stepOfLayer)).map (decorate d attr))
        ∧ ((lastScan scanL k (ls.map stepOfLayer)).map (decorate d attr)).map GNode.obj?
            = d.cod.map some
        ∧ ((nodesFrom k (ls.map stepOfLayer)).map (decorate d attr)).filter GNode.isInput = []
        ∧ ((nodesFrom k (ls.map stepOfLayer)).map (decorate d attr)).filter GNode.isBox
            = boxNodesFrom k (stepsB attr k (ls.map (·.box))) := by
  intro ls
  induction ls with
  | nil =>
    intro pre k scanL s _ _ hc hty
    simp only [Chain] at hc
    subst hc
    exact ⟨rfl, rfl, hty, rfl, rfl⟩
  | cons l ls ih =>
    intro pre k scanL s hpre hk hc hty
    obtain ⟨h1, h2⟩ := hc
    have hb : d.boxes[k]? = some l.box := by
      rw [hwf.boxes, hpre, List.map_append, List.getElem?_append_right (by simp [hk])]
      simp [hk]
    have ho : d.offsets[k]? = some (l.left.length : Int) := by
      rw [hwf.offsets, hpre, List.map_append, List.getElem?_append_right (by simp [hk])]
      simp [hk]
    have hlen : scanL.length = s.length := by
      have := congrArg List.length hty; simpa using this
    have hin : l.left.length + l.box.dom.length ≤ scanL.length := by
      rw [hlen, h1]; simp [Layer.dom]
    have hst : stepOfLayer l = ⟨l.box.dom.length, l.box.cod.length, l.left.length⟩ := rfl
    have hty' : ((nextScan scanL (stepOfLayer l) k).map (decorate d attr)).map GNode.obj?
        = l.cod.map some := by
      rw [hst, map_nextScan d attr hb, nextOpen_obj hty, h1]
      simp [Layer.dom, Layer.cod, List.drop_append]
    obtain ⟨e1, e2, e3, e4, e5⟩ := ih (pre ++ [l]) (k + 1) (nextScan scanL (stepOfLayer l) k) l.cod
      (by rw [hpre]; simp) (by simp [hk]) h2 hty'
    have hblock : (((scanL.map (decorate d attr)).drop l.left.length).take l.box.dom.length).map
        GNode.obj? = l.box.dom.map some := by
      rw [List.map_take, List.map_drop, hty, h1]
      simp [Layer.dom]
    have hbd : d.boxes.getD k default = l.box := by rw [List.getD_eq_getElem?_getD, hb]; rfl
    refine ⟨?_, ⟨by simpa using hin, hblock, fun hd => hattr k l.box _ hb ho hd, ?_⟩, ?_, ?_, ?_⟩
    · simp only [List.map_cons, edgesFrom, stepsB, stepsEdges, List.map_append]
      rw [hst, map_boxEdges d attr hb scanL _ hin, ← map_nextScan d attr hb, ← hst]
      exact congrArg _ e1
    · simp only [List.map_cons, lastScan]
      rw [← map_nextScan d attr hb, ← hst]
      exact e2
    · simpa only [List.map_cons, lastScan] using e3
    · simp only [List.map_cons, nodesFrom, List.map_append, List.filter_append, e4,
        List.append_nil]
      rw [List.filter_eq_nil_iff]
      intro v hv
      obtain ⟨u, hu, rfl⟩ := List.mem_map.mp hv
      rcases mem_stepNodes hu with rfl | ⟨i, -, rfl⟩ | ⟨i, -, rfl⟩ <;>
        simp [decorate, boxNode, domNode, codNode, GNode.isInput]
    · have hbox : decorate d attr (boxNode k) = GNode.box l.box k (attr k) := by
        simp [decorate, boxNode, hb, List.getD_eq_getElem?_getD]
      have hd1 : (((List.range (stepOfLayer l).m).map (domNode k)).map (decorate d attr)).filter
          GNode.isBox = [] := by
        rw [List.filter_eq_nil_iff]
        intro v hv
        obtain ⟨u, hu, rfl⟩ := List.mem_map.mp hv
        obtain ⟨i, -, rfl⟩ := List.mem_map.mp hu
        simp [decorate, domNode, GNode.isBox]
      have hd2 : (((List.range (stepOfLayer l).c).map (codNode k)).map (decorate d attr)).filter
          GNode.isBox = [] := by
        rw [List.filter_eq_nil_iff]
        intro v hv
        obtain ⟨u, hu, rfl⟩ := List.mem_map.mp hv
        obtain ⟨i, -, rfl⟩ := List.mem_map.mp hu
        simp [decorate, codNode, GNode.isBox]
      simp only [List.map_cons, nodesFrom, List.map_append, List.filter_append, e5, stepsB,
        boxNodesFrom, stepNodes, hd1, hd2, List.map_nil, hbox, List.append_nil]
      rfl

end

/-! ### The round trip -/

theorem roundTrip_ok {d : Diagram} (hwf : d.WF) (attr : Nat → OffAttr)
    (hattr : ∀ k b o, d.boxes[k]? = some b → d.offsets[k]? = some o → b.dom = [] →
      (attr k).get = some o) : roundTrip d attr = .ok d := by
  unfold roundTrip
  rw [diagram2nx_of_wf hwf]
  simp only []
  have hsw := shapeOf_wf hwf
  have hsteps := shapeOf_steps hwf
  have hchain : Chain d.dom d.layers.boxes d.cod := by
    have := hwf.chain; unfold LArrow.WF at this; rwa [hwf.ldom, hwf.lcod] at this
  obtain ⟨e1, e2, e3, e4, e5⟩ := along_layers d attr hattr hwf d.layers.boxes [] 0
    ((List.range d.dom.length).map inputNode) d.dom (by simp) rfl hchain
    (by rw [map_inputs d attr _ rfl, inputNodes_obj])
  rw [map_inputs d attr _ rfl] at e1 e2
  -- the graph
  have hfin : (finalSt (shapeOf d)).scan
      = lastScan ((List.range d.dom.length).map inputNode) 0 (d.layers.boxes.map stepOfLayer) := by
    unfold finalSt
    rw [run_lastScan, hsteps]
    rfl
  have hnodes : (nxGraph d attr (layout (shapeOf d))).nodes
      = inputNodes d.dom ++ (nodesFrom 0 (d.layers.boxes.map stepOfLayer)).map (decorate d attr)
        ++ ((List.range d.cod.length).map outputNode).map (decorate d attr) := by
    show (layout (shapeOf d)).nodes.map (fun q => decorate d attr q.node) = _
    have : (layout (shapeOf d)).nodes.map (fun q => decorate d attr q.node)
        = (keys (layout (shapeOf d)).nodes).map (decorate d attr) := by simp [keys]
    rw [this, layout_keys, allNodes, hsteps]
    simp only [List.map_append]
    rw [show (shapeOf d).nIn = d.dom.length from rfl, show (shapeOf d).nOut = d.cod.length from rfl,
      map_inputs d attr _ rfl]
  generalize hfs : lastScan ((List.range d.dom.length).map inputNode) 0
      (d.layers.boxes.map stepOfLayer) = fin at hfin e2 e3
  have hedges : (nxGraph d attr (layout (shapeOf d))).edges
      = [] ++ stepsEdges (inputNodes d.dom) 0 (stepsB attr 0 (d.layers.boxes.map (·.box)))
          (d.layers.boxes.map (fun l => l.left.length))
        ++ (outEdges fin d.cod.length).map
            (fun e => (decorate d attr e.1, decorate d attr e.2)) := by
    show (layout (shapeOf d)).edges.map _ = _
    rw [layout_edges, hfin, List.map_append, hsteps, show (shapeOf d).nIn = d.dom.length from rfl, e1]
    rfl
  have hout : ∀ v ∈ ((List.range d.cod.length).map outputNode).map (decorate d attr),
      v.isInput = false ∧ v.isBox = false := by
    intro v hv
    obtain ⟨u, hu, rfl⟩ := List.mem_map.mp hv
    obtain ⟨i, -, rfl⟩ := List.mem_map.mp hu
    simp [decorate, outputNode, GNode.isInput, GNode.isBox]
  have hin : (nxGraph d attr (layout (shapeOf d))).inputs = inputNodes d.dom := by
    unfold NxGraph.inputs
    rw [hnodes, List.filter_append, List.filter_append, e4]
    have h1 : (inputNodes d.dom).filter GNode.isInput = inputNodes d.dom := by
      rw [List.filter_eq_self]
      intro v hv
      obtain ⟨i, hi, e⟩ := List.mem_mapIdx.mp hv
      subst e; rfl
    have h2 : (((List.range d.cod.length).map outputNode).map (decorate d attr)).filter
        GNode.isInput = [] := by
      rw [List.filter_eq_nil_iff]; intro v hv; rw [(hout v hv).1]; simp
    rw [h1, h2]; simp
  have hbx : (nxGraph d attr (layout (shapeOf d))).boxNodes
      = boxNodesFrom 0 (stepsB attr 0 (d.layers.boxes.map (·.box))) := by
    unfold NxGraph.boxNodes
    rw [hnodes, List.filter_append, List.filter_append, e5]
    have h1 : (inputNodes d.dom).filter GNode.isBox = [] := by
      rw [List.filter_eq_nil_iff]
      intro v hv
      rw [(inputNodes_open d.dom v hv).notBox]; simp
    have h2 : (((List.range d.cod.length).map outputNode).map (decorate d attr)).filter
        GNode.isBox = [] := by
      rw [List.filter_eq_nil_iff]; intro v hv; rw [(hout v hv).2]; simp
    rw [h1, h2]; simp
  have hlenfin : fin.length = d.cod.length := by
    have := congrArg List.length e3; simpa using this
  have hview : EdgeView (nxGraph d attr (layout (shapeOf d)))
      ([] ++ stepsEdges (inputNodes d.dom) 0 (stepsB attr 0 (d.layers.boxes.map (·.box)))
          (d.layers.boxes.map (fun l => l.left.length))
        ++ (outEdges fin d.cod.length).map
            (fun e => (decorate d attr e.1, decorate d attr e.2))) := by
    constructor
    · intro p _; rw [hedges]
    · intro e he
      rw [← hedges] at he
      obtain ⟨e0, he0, rfl⟩ := List.mem_map.mp he
      -- every edge target of the layout is a placed node
      obtain ⟨ya, yb, -, hyb, -⟩ := layout_edges_down _ hsw e0 he0
      have : e0.2 ∈ keys (layout (shapeOf d)).nodes := by
        unfold Pos.y? at hyb
        cases hf : (layout (shapeOf d)).nodes.find? (fun q => q.node == e0.2) with
        | none => rw [hf] at hyb; cases hyb
        | some q =>
          have hq := List.mem_of_find?_eq_some hf
          have hq2 := List.find?_some hf
          simp only [beq_iff_eq] at hq2
          rw [← hq2]
          exact List.mem_map.mpr ⟨q, hq, rfl⟩
      show decorate d attr e0.2 ∈ (layout (shapeOf d)).nodes.map (fun q => decorate d attr q.node)
      obtain ⟨q, hq, hq2⟩ := List.mem_map.mp this
      exact List.mem_map.mpr ⟨q, hq, by rw [hq2]⟩
  have hpost : ∀ e ∈ (outEdges fin d.cod.length).map
      (fun e => (decorate d attr e.1, decorate d attr e.2)), ∀ j, Avoids j e := by
    intro e he j
    obtain ⟨e0, he0, rfl⟩ := List.mem_map.mp he
    simp only [outEdges, List.mem_map, List.mem_range] at he0
    obtain ⟨i, hi, rfl⟩ := he0
    refine ⟨fun o i' e => ?_, fun b a e => ?_⟩
    · simp [decorate, outputNode] at e
    · have hi' : i < fin.length := by omega
      have hmem : fin.getD i default ∈ fin := by
        rw [getD_eq _ _ _ hi']; exact List.getElem_mem _
      have : (decorate d attr (fin.getD i default)).obj? ≠ none := by
        have hm : (decorate d attr (fin.getD i default)).obj?
            ∈ ((fin.map (decorate d attr)).map GNode.obj?) :=
          List.mem_map.mpr ⟨_, List.mem_map.mpr ⟨_, hmem, rfl⟩, rfl⟩
        rw [e3] at hm
        obtain ⟨o, -, ho⟩ := List.mem_map.mp hm
        rw [← ho]; simp
      simp only at e
      rw [e] at this
      exact this rfl
  have hra := readsAll_of_view _ _ (inputNodes d.dom) 0 _ _ [] _ hview (by simp) hpost e2
    (fun v hv => (inputNodes_open d.dom v hv).notBox)
  obtain ⟨d', hd', hwf', hdom', hcod', hboxes', hoffs'⟩ := nx2diagram_spec hin hbx hra
  rw [hd']
  congr 1
  apply wf_ext hwf hwf' hdom'
  · rw [e3] at hcod'
    exact (map_some_inj hcod').symm
  · rw [hboxes', hwf.boxes]
    generalize d.layers.boxes.map (·.box) = bs
    generalize (0 : Nat) = k
    induction bs generalizing k with
    | nil => rfl
    | cons b bs ih => simp [stepsB, ih]
  · rw [hoffs', hwf.offsets]; simp

end DV.Dz
