/-
  Proofs/ParamSum.lean — the gradient of a formal sum is the sum of the gradients of its terms,
  with multiplicity; hence higher-order gradients.
-/
import Model.ParamSum
import Proofs.PolyDiagram

namespace DV.Param

/-! ### multiplicity: `gradSum` is a list homomorphism -/

theorem gradSum_nil {T : Type} (g : T → List T) : gradSum g [] = [] := rfl

theorem gradSum_cons {T : Type} (g : T → List T) (t : T) (ts : List T) :
    gradSum g (t :: ts) = g t ++ gradSum g ts := by
  simp [gradSum]

theorem gradSum_append {T : Type} (g : T → List T) (as bs : List T) :
    gradSum g (as ++ bs) = gradSum g as ++ gradSum g bs := by
  simp [gradSum]

/-- A term occurring `n` times contributes its gradient `n` times. -/
theorem gradSum_replicate_length {T : Type} (g : T → List T) (t : T) (n : Nat) :
    (gradSum g (List.replicate n t)).length = n * (g t).length := by
  induction n with
  | zero => simp [gradSum]
  | succ n ih =>
    rw [List.replicate_succ, gradSum_cons, List.length_append, ih]
    ring

theorem gradSum_length {T : Type} (g : T → List T) (ts : List T) :
    (gradSum g ts).length = (ts.map (fun t => (g t).length)).sum := by
  induction ts with
  | nil => rfl
  | cons t ts ih => rw [gradSum_cons, List.length_append, ih]; simp

/-! ### the abstract rule -/

section Abstract
variable {R : Type} [CommRing R] (d : Deriv R)

/-- **Gradient of a formal sum.**  Terms of any kind `T` (tensor diagrams, circuits) with an
    evaluation `ev` into a commutative ring; if the gradient `g t` of every term evaluates to the
    derivative of the term, the concatenation of the gradients of the terms — one per occurrence —
    evaluates to the derivative of the evaluation of the sum. -/
theorem grad_sum {T : Type} (ev : T → R) (g : T → List T)
    (hg : ∀ t, ((g t).map ev).sum = d.D (ev t)) (ts : List T) :
    ((gradSum g ts).map ev).sum = d.D ((ts.map ev).sum) := by
  induction ts with
  | nil => simpa [gradSum] using d.zero.symm
  | cons t ts ih =>
    rw [gradSum_cons, List.map_append, List.sum_append, ih, hg, List.map_cons, List.sum_cons, d.add]

/-- Formal sums of tensor diagrams (lists of layer lists), under the hypotheses of the product
    rule: `evalSum (Σ terms).grad = D (evalSum terms)`. -/
theorem grad_sum_layers [HasConj R] (dep : PBox R → Bool) (G : PBox R → List (PBox R))
    (hdims : ∀ b, ∀ b' ∈ G b, b'.dom = b.dom ∧ b'.cod = b.cod)
    (hG : ∀ b i j, ((G b).map (fun b' => b'.arr i j)).sum = d.D (b.arr i j))
    (hdep : ∀ b, dep b = false → ∀ i j, d.D (b.arr i j) = 0)
    (ts : List (List (PLayer R))) (i k : Nat) :
    evalSum (gradSum (gradLayers dep G) ts) i k = d.D (evalSum ts i k) := by
  unfold evalSum
  exact grad_sum d (fun t => evalLayers t i k) (gradLayers dep G)
    (fun t => grad_product_rule d dep G hdims hG hdep t i k) ts

/-- **Second-order gradients**: the gradient (for a derivation `d'`, with its own box rule `G'`)
    of the formal sum returned by `grad` evaluates to `D' (D (eval))`. -/
theorem grad_twice_layers [HasConj R] (d' : Deriv R)
    (dep dep' : PBox R → Bool) (G G' : PBox R → List (PBox R))
    (hdims : ∀ b, ∀ b' ∈ G b, b'.dom = b.dom ∧ b'.cod = b.cod)
    (hG : ∀ b i j, ((G b).map (fun b' => b'.arr i j)).sum = d.D (b.arr i j))
    (hdep : ∀ b, dep b = false → ∀ i j, d.D (b.arr i j) = 0)
    (hdims' : ∀ b, ∀ b' ∈ G' b, b'.dom = b.dom ∧ b'.cod = b.cod)
    (hG' : ∀ b i j, ((G' b).map (fun b' => b'.arr i j)).sum = d'.D (b.arr i j))
    (hdep' : ∀ b, dep' b = false → ∀ i j, d'.D (b.arr i j) = 0)
    (ls : List (PLayer R)) (i k : Nat) :
    evalSum (gradSum (gradLayers dep' G') (gradLayers dep G ls)) i k
      = d'.D (d.D (evalLayers ls i k)) := by
  rw [grad_sum_layers d' dep' G' hdims' hG' hdep', grad_product_rule d dep G hdims hG hdep]

end Abstract

/-! ### the executable instance -/

theorem polySumGrad_wf (f g : Bool) (v : Nat) (ts : List (List (PLayer Poly))) (i k : Nat) :
    (evalSum (polySumGrad f g v ts) i k).WF := Poly.evalSum_wf _ i k

/-- The repaired gradient of a formal sum of polynomial tensor diagrams evaluates to the formal
    derivative of the evaluation of the sum (data in normal form or not). -/
theorem grad_poly_sum_proof (checksFS : Bool) (v : Nat) (ts : List (List (PLayer Poly))) (i k : Nat) :
    evalSum (polySumGrad true checksFS v ts) i k = Poly.deriv v (evalSum ts i k) := by
  apply eq_of_norm_eq (Poly.evalSum_wf _ i k) (Poly.deriv_wf v _)
  rw [norm_deriv]
  unfold polySumGrad evalSum
  rw [if_pos rfl, norm_opHom.sum, norm_opHom.sum, List.map_map, List.map_map]
  refine grad_sum (NPoly.derivN v) (fun t => norm (evalLayers t i k)) (polyGradLayers checksFS v) ?_ ts
  intro t
  have h := grad_poly_layers checksFS v t i k
  rw [← norm_deriv, ← h]
  unfold evalSum polyGradLayers
  rw [norm_opHom.sum, List.map_map]
  rfl

/-- **Second-order gradient, executable instance**: `d.grad(x_v).grad(x_w)` (repaired sums)
    evaluates to `∂_w ∂_v` of the evaluation. -/
theorem grad_poly_twice_proof (checksFS : Bool) (v w : Nat) (ls : List (PLayer Poly)) (i k : Nat) :
    evalSum (polyGradTwice true checksFS v w ls) i k
      = Poly.deriv w (Poly.deriv v (evalLayers ls i k)) := by
  unfold polyGradTwice
  rw [grad_poly_sum_proof, ← grad_poly_layers checksFS v ls i k]
  rfl

/-- As the code is, the gradient of a formal sum of tensor diagrams is the empty sum. -/
theorem polySumGrad_as_found (checksFS : Bool) (v : Nat) (ts : List (List (PLayer Poly))) :
    polySumGrad false checksFS v ts = [] := rfl

end DV.Param
