/-
  Proofs/TensorBubble.lean — C09 for diagrams with bubbles.

  * `Tensor.map_wf`, `Tensor.map_entry`: `Tensor.map f` keeps the type and is the ENTRYWISE image.
  * `callI_eq_layerwiseI`: the single-pass loop with `self(box)` abstracted as `I` equals the
    layer-by-layer composite of the `I(box)` (same steps, same invariant as `loop_spec`).
  * `BFunctor.call_eq_layerwise`, `BFunctor.box_eq_refBox`, `BFunctor.call_eq_ref`: with bubbles
    (nested to any depth) the evaluation equals the reference semantics in which a bubble is the
    entrywise image of the layer-by-layer composite of its inside.
-/
import Proofs.TensorFunctor
import Model.TensorBubble

namespace DV

namespace Tensor
open NDArray
variable {R : Type}

@[simp] theorem map_dom (f : R → R) (t : Tensor R) : (t.map f).dom = t.dom := rfl
@[simp] theorem map_cod (f : R → R) (t : Tensor R) : (t.map f).cod = t.cod := rfl

/-- `Tensor.map` keeps the type: the reshape of tensor.py:128 in the constructor succeeds. -/
theorem map_wf (f : R → R) (t : Tensor R) (h : t.WF) : (t.map f).WF := by
  refine ⟨rfl, ?_⟩
  simp only [Tensor.map, mk', NDArray.reshape, Array.size_map]
  exact h.2

/-- `Tensor.map` is the entrywise image: `t.map(f)[i] = f(t[i])` at every index. -/
theorem map_entry [Zero R] (f : R → R) (t : Tensor R) (h : t.WF) {i : List Nat}
    (hi : InRange (t.dom ++ t.cod) i) : (t.map f).entry i = f (t.entry i) := by
  have hlt : flatIdx (t.dom ++ t.cod) i < t.arr.data.size := by
    rw [h.2]; exact flatIdx_lt hi
  unfold Tensor.entry
  simp only [map_dom, map_cod]
  simp only [Tensor.map, mk', NDArray.reshape]
  simp [Array.getD, hlt]

end Tensor

namespace TFunctor
open Tensor NDArray

section
variable {R : Type} [CommSemiring R] [StarRing R]

/-- `I(box)` has the type the functor assigns to the box. -/
def BoxOKI (F : TFunctor R) (I : Box → Except Err (Tensor R)) (b : Box) : Prop :=
  ∀ t, I b = .ok t → t.WF ∧ t.dom = F.ty b.dom ∧ t.cod = F.ty b.cod

/-- `loop_spec` with `self(box)` abstracted: the loop and the fold fail together or the loop
    ends in a state whose tensor is the layer-by-layer composite. -/
theorem loopI_spec (F : TFunctor R) (I : Box → Except Err (Tensor R)) (ddom : Ty) :
    ∀ (ls : List Layer) (S : Ty) (arr : NDArray R)
    (c : Ty), Chain S ls c → Inv F ddom S arr → (∀ l ∈ ls, SwapOK l.box) →
    (∀ l ∈ ls, l.box.kind = .swap → I l.box = F.box l.box) →
    (∀ l ∈ ls, BoxOKI F I l.box) →
    (∃ e, F.loopI I ddom ⟨S, arr⟩ (ls.map (·.box)) (ls.map (fun l => (l.left.length : Int)))
          = .error e ∧ F.layerFoldI I (accOf F ddom S arr) ls = .error e) ∨
    (∃ st, F.loopI I ddom ⟨S, arr⟩ (ls.map (·.box)) (ls.map (fun l => (l.left.length : Int)))
          = .ok st ∧ st.scan = c ∧ Inv F ddom c st.arr ∧
        F.layerFoldI I (accOf F ddom S arr) ls = .ok (accOf F ddom c st.arr))
  | [], S, arr, c, hch, hinv, _, _, _ => by
    have : S = c := hch
    subst this
    exact Or.inr ⟨⟨S, arr⟩, rfl, rfl, hinv, rfl⟩
  | l :: ls, S, arr, c, hch, hinv, hsw, hI, hbox => by
    obtain ⟨hS, hch'⟩ := hch
    subst hS
    have hsw' : ∀ l' ∈ ls, SwapOK l'.box := fun l' h => hsw l' (List.mem_cons_of_mem _ h)
    have hI' : ∀ l' ∈ ls, l'.box.kind = .swap → I l'.box = F.box l'.box :=
      fun l' h => hI l' (List.mem_cons_of_mem _ h)
    have hbox' : ∀ l' ∈ ls, BoxOKI F I l'.box := fun l' h => hbox l' (List.mem_cons_of_mem _ h)
    simp only [List.map_cons, TFunctor.loopI, TFunctor.layerFoldI, TFunctor.stepI,
      TFunctor.layerI]
    by_cases hk : l.box.kind = .swap
    · -- swap branch
      have hspec := stepSwap_spec F ddom l arr hinv (hsw l (List.mem_cons_self) hk)
      rw [if_pos hk, hI l (List.mem_cons_self) hk, box_swap F l.box hk]
      simp only
      have hty := swapT_type F l.box (hsw l (List.mem_cons_self) hk)
      rw [accOf_then_layer F ddom l arr _ hty.1]
      simp only
      rw [← hspec.2.2]
      have ih := loopI_spec F I ddom ls l.cod
        (F.stepSwap ddom ⟨l.dom, arr⟩ l.box l.left.length).arr c hch' hspec.2.1 hsw' hI' hbox'
      have hst : F.stepSwap ddom ⟨l.dom, arr⟩ l.box l.left.length
          = ⟨l.cod, (F.stepSwap ddom ⟨l.dom, arr⟩ l.box l.left.length).arr⟩ := by
        rw [← hspec.1]
      rw [hst]
      exact ih
    · rw [if_neg hk]
      cases hb : I l.box with
      | error e => exact Or.inl ⟨e, rfl, rfl⟩
      | ok t =>
        simp only
        obtain ⟨ht, hd, hc⟩ := hbox l (List.mem_cons_self) t hb
        have hspec := stepBox_spec F ddom l arr t hinv ht hd hc
        rw [accOf_then_layer F ddom l arr t hd]
        simp only
        rw [← hspec.2.2]
        have ih := loopI_spec F I ddom ls l.cod
          (F.stepBox ddom ⟨l.dom, arr⟩ l.box l.left.length t).arr c hch' hspec.2.1 hsw' hI' hbox'
        have hst : F.stepBox ddom ⟨l.dom, arr⟩ l.box l.left.length t
            = ⟨l.cod, (F.stepBox ddom ⟨l.dom, arr⟩ l.box l.left.length t).arr⟩ := by
          rw [← hspec.1]
        rw [hst]
        exact ih

/-- The single-pass evaluation with boxes interpreted by `I` equals the layer-by-layer
    composite of the `I(box)`, including the error when some `I(box)` fails. -/
theorem callI_eq_layerwiseI (F : TFunctor R) (I : Box → Except Err (Tensor R)) (d : Diagram)
    (hwf : d.WF) (hsw : ∀ b ∈ d.boxes, SwapOK b)
    (hI : ∀ b ∈ d.boxes, b.kind = .swap → I b = F.box b)
    (hbox : ∀ b ∈ d.boxes, BoxOKI F I b) :
    F.callI I d = F.layerwiseI I d := by
  have hch : Chain d.dom d.layers.boxes d.cod := by
    have := hwf.chain
    unfold LArrow.WF at this
    rw [hwf.ldom, hwf.lcod] at this
    exact this
  have mem : ∀ l ∈ d.layers.boxes, l.box ∈ d.boxes := fun l hl => by
    rw [hwf.boxes]; exact List.mem_map_of_mem hl
  have hl := loopI_spec F I d.dom d.layers.boxes d.dom (Tensor.id (R := R) (F.ty d.dom)).arr d.cod
    hch (inv_init F d.dom) (fun l hl => hsw _ (mem l hl)) (fun l hl => hI _ (mem l hl))
    (fun l hl => hbox _ (mem l hl))
  have hacc : accOf F d.dom d.dom (Tensor.id (R := R) (F.ty d.dom)).arr = Tensor.id (F.ty d.dom) :=
    rfl
  unfold TFunctor.callI TFunctor.layerwiseI
  rw [hwf.boxes, hwf.offsets]
  rw [hacc] at hl
  rcases hl with ⟨e, h1, h2⟩ | ⟨st, h1, _, h3, h4⟩
  · rw [h1, h2]
  · rw [h1, h4]
    simp only
    exact mk?_of_inv F d.dom d.cod st.arr h3

/-- Whatever `I` is, a result of the loop has the type the functor assigns to the diagram. -/
theorem callI_type (F : TFunctor R) (I : Box → Except Err (Tensor R)) (d : Diagram)
    (t : Tensor R) (h : F.callI I d = .ok t) :
    t.WF ∧ t.dom = F.ty d.dom ∧ t.cod = F.ty d.cod := by
  unfold TFunctor.callI at h
  split at h
  · cases h
  · exact mk?_ok h

/-- With `I = self(box)` of a plain functor the abstracted loop is `TFunctor.loop`. -/
theorem loopI_box (F : TFunctor R) (ddom : Ty) : ∀ (bs : List Box) (os : List Int) (st : St R),
    F.loopI F.box ddom st bs os = F.loop ddom st bs os
  | [], _, _ => by simp [TFunctor.loopI, TFunctor.loop]
  | _ :: _, [], _ => by simp [TFunctor.loopI, TFunctor.loop]
  | b :: bs, o :: os, st => by
    have hs : F.stepI F.box ddom st b o = F.step ddom st b o := rfl
    simp only [TFunctor.loopI, TFunctor.loop, hs]
    cases F.step ddom st b o with
    | error e => rfl
    | ok st' => exact loopI_box F ddom bs os st'

/-- A diagram without bubbles: the abstracted call is `TFunctor.call`. -/
theorem callI_box (F : TFunctor R) (d : Diagram) : F.callI F.box d = F.call d := by
  unfold TFunctor.callI TFunctor.call
  rw [loopI_box]
  rfl

omit [StarRing R] in
theorem layerwiseI_ofBox (F : TFunctor R) (I : Box → Except Err (Tensor R)) (b : Box)
    (hb : BoxOKI F I b) : F.layerwiseI I (Diagram.ofBox b) = I b := by
  unfold TFunctor.layerwiseI Diagram.ofBox
  simp only [TFunctor.layerFoldI, TFunctor.layerI]
  cases hbx : I b with
  | error e => rfl
  | ok t =>
    obtain ⟨hw, hd, _⟩ := hb t hbx
    simp only
    have e1 : F.ty ([] : Ty) = [] := rfl
    rw [e1, id_nil_tensor t hw, tensor_id_nil t hw, ← hd, then_ok rfl, id_then t hw]

end
end TFunctor

namespace BFunctor
open Tensor NDArray TFunctor

section
variable {R : Type} [CommSemiring R] [StarRing R]

/-- What discopy's classes guarantee of the `Bubble` objects of a diagram: a bubble is a
    generic box (never a `Swap`/`Cup`/`Cap`) with the type of its inside (the default of
    monoidal.py:786-788), its inside is a well-typed diagram (C01) whose special boxes are
    genuine. -/
structure Good (F : BFunctor R) : Prop where
  kind : ∀ b s, F.bub b = some s → b.kind = .gen
  dom : ∀ b s, F.bub b = some s → b.dom = s.inside.dom
  cod : ∀ b s, F.bub b = some s → b.cod = s.inside.cod
  wf : ∀ b s, F.bub b = some s → s.inside.WF
  gen : ∀ b s, F.bub b = some s → ∀ b' ∈ s.inside.boxes, Genuine b'

omit [CommSemiring R] [StarRing R] in
theorem mapE_ok {f : R → R} {x : Except Err (Tensor R)} {t : Tensor R}
    (h : mapE f x = .ok t) : ∃ t0, x = .ok t0 ∧ t = t0.map f := by
  cases x with
  | error e => cases h
  | ok t0 => exact ⟨t0, rfl, by cases h; rfl⟩

/-- **`eval_bubble`** (the `Bubble` branch of `__call__`, tensor.py:336-337):
    `F(bubble) = F(bubble.inside).map(bubble.func)`. -/
theorem box_bubble (F : BFunctor R) (n : Nat) (b : Box) (s : BubbleSpec R)
    (h : F.bub b = some s) : F.box (n + 1) b = mapE s.func (F.call n s.inside) := by
  simp only [BFunctor.box, h, BFunctor.call]

theorem box_plain (F : BFunctor R) (n : Nat) (b : Box) (h : F.bub b = none) :
    F.box n b = F.base.box b := by
  cases n <;> simp only [BFunctor.box, h]

theorem refBox_plain (F : BFunctor R) (n : Nat) (b : Box) (h : F.bub b = none) :
    F.refBox n b = F.base.box b := by
  cases n <;> simp only [BFunctor.refBox, h]

omit [CommSemiring R] [StarRing R] in
theorem bub_swap {F : BFunctor R} (hG : F.Good) (b : Box) (hk : b.kind = .swap) :
    F.bub b = none := by
  cases h : F.bub b with
  | none => rfl
  | some s => rw [hG.kind b s h] at hk; cases hk

/-- Every box of a good table — bubble or not — is sent to a tensor of the right type. -/
theorem box_ok {F : BFunctor R} (hG : F.Good) (n : Nat) (b : Box) (hb : Genuine b) :
    BoxOKI F.base (F.box n) b := by
  intro t ht
  cases h : F.bub b with
  | none =>
    rw [box_plain F n b h] at ht
    exact TFunctor.boxOK_of_genuine F.base b hb t ht
  | some s =>
    cases n with
    | zero => simp [BFunctor.box, h] at ht
    | succ n =>
      rw [box_bubble F n b s h] at ht
      obtain ⟨t0, h0, rfl⟩ := mapE_ok ht
      obtain ⟨hw, hd, hc⟩ := callI_type F.base (F.box n) s.inside t0 h0
      refine ⟨map_wf _ _ hw, ?_, ?_⟩
      · rw [map_dom, hd, hG.dom b s h]
      · rw [map_cod, hc, hG.cod b s h]

/-- Same for the reference interpretation. -/
theorem refBox_ok {F : BFunctor R} (hG : F.Good) (n : Nat) (b : Box) (hb : Genuine b)
    (heq : ∀ b, F.box n b = F.refBox n b) : BoxOKI F.base (F.refBox n) b := by
  intro t ht
  rw [← heq b] at ht
  exact box_ok hG n b hb t ht

/-- One level: the evaluation of a diagram whose boxes may be bubbles is the layer-by-layer
    composite of the tensors `self(box)`. -/
theorem call_eq_layerwise {F : BFunctor R} (hG : F.Good) (n : Nat) (d : Diagram) (hwf : d.WF)
    (hgen : ∀ b ∈ d.boxes, Genuine b) : F.call n d = F.layerwise n d :=
  callI_eq_layerwiseI F.base (F.box n) d hwf (fun b hb => (hgen b hb).1)
    (fun b _ hk => box_plain F n b (bub_swap hG b hk))
    (fun b hb => box_ok hG n b (hgen b hb))

/-- All the way down: `self(box)` is the defining tensor of the box, where the defining tensor of
    a bubble is the entrywise image of the LAYER-BY-LAYER composite of its inside. -/
theorem box_eq_refBox {F : BFunctor R} (hG : F.Good) : ∀ (n : Nat) (b : Box),
    F.box n b = F.refBox n b
  | 0, b => by simp only [BFunctor.box, BFunctor.refBox]
  | n + 1, b => by
    cases h : F.bub b with
    | none => rw [box_plain F _ b h, refBox_plain F _ b h]
    | some s =>
      have ih : F.box n = F.refBox n := funext (box_eq_refBox hG n)
      simp only [BFunctor.box, BFunctor.refBox, h]
      have := call_eq_layerwise hG n s.inside (hG.wf b s h) (hG.gen b s h)
      unfold BFunctor.call BFunctor.layerwise at this
      rw [this, ih]

/-- **C09 with bubbles**: evaluation = the reference semantics (layer-by-layer composite, bubbles
    interpreted by their defining tensors, recursively). -/
theorem call_eq_ref {F : BFunctor R} (hG : F.Good) (n : Nat) (d : Diagram) (hwf : d.WF)
    (hgen : ∀ b ∈ d.boxes, Genuine b) : F.call n d = F.ref n d := by
  rw [call_eq_layerwise hG n d hwf hgen]
  unfold BFunctor.layerwise BFunctor.ref
  rw [funext (box_eq_refBox hG n)]

/-- The bubble seen as a one-box diagram (what `bubble.eval()` evaluates) is `self(bubble)`. -/
theorem call_ofBox {F : BFunctor R} (hG : F.Good) (n : Nat) (b : Box)
    (hb : Genuine b) : F.call n (Diagram.ofBox b) = F.box n b := by
  have hmem : ∀ b' ∈ (Diagram.ofBox b).boxes, b' = b := fun b' h => by
    simpa [Diagram.ofBox] using h
  rw [call_eq_layerwise hG n _ (Diagram.ofBox_wf b) (fun b' h => by rw [hmem b' h]; exact hb)]
  exact layerwiseI_ofBox F.base (F.box n) b (box_ok hG n b hb)

/-- Without bubbles `BFunctor.call` is `TFunctor.call`. -/
theorem call_no_bubbles (F : BFunctor R) (h : ∀ b, F.bub b = none) (n : Nat) (d : Diagram) :
    F.call n d = F.base.call d := by
  unfold BFunctor.call
  rw [show F.box n = F.base.box from funext (fun b => box_plain F n b (h b)), callI_box]

omit [CommSemiring R] [StarRing R] in
/-- The Boolean the driver reports (`bfgood`) implies `Good` for a table-built functor whose
    insides are well-typed (C01: they are values of the op language). -/
theorem good_ofTable (base : TFunctor R) (tab : List (Box × BubbleSpec R))
    (hB : goodTableB tab = true) (hwf : ∀ p ∈ tab, p.2.inside.WF) : (ofTable base tab).Good := by
  have key : ∀ b s, (ofTable base tab).bub b = some s →
      s.inside.WF ∧ goodEntryB b s.inside = true := by
    intro b s h
    simp only [ofTable, Option.map_eq_some_iff] at h
    obtain ⟨p, hp, rfl⟩ := h
    have hmem := List.mem_of_find?_eq_some hp
    have hkey := List.find?_some hp
    have hb : p.1 = b := by simpa using hkey
    subst hb
    exact ⟨hwf p hmem, List.all_eq_true.1 hB p hmem⟩
  have split : ∀ b s, (ofTable base tab).bub b = some s →
      b.kind = .gen ∧ b.dom = s.inside.dom ∧ b.cod = s.inside.cod
        ∧ s.inside.boxes.all TFunctor.genuineB = true := by
    intro b s h
    have := (key b s h).2
    simp only [goodEntryB, Bool.and_eq_true, beq_iff_eq] at this
    exact ⟨this.1.1.1, this.1.1.2, this.1.2, this.2⟩
  exact
    { kind := fun b s h => (split b s h).1
      dom := fun b s h => (split b s h).2.1
      cod := fun b s h => (split b s h).2.2.1
      wf := fun b s h => (key b s h).1
      gen := fun b s h b' hb' =>
        genuine_of_genuineB b' (List.all_eq_true.1 (split b s h).2.2.2 b' hb') }

end
end BFunctor

end DV
