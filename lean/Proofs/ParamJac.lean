/-
  Proofs/ParamJac.lean — Circuit.jacobian (Model/ParamJac.lean): block `k` of the evaluation of the
  jacobian is the evaluation of the gradient w.r.t. the k-th variable TAKEN WITH THE SAME KEYWORDS,
  for zero, one and several variables.
-/
import Model.ParamJac
import Mathlib.Algebra.BigOperators.Group.List.Basic

namespace DV.Param

variable {V K T R : Type} [AddCommMonoid R]

theorem sum_map_blockVal_row_ne (val : T → R) (i n k : Nat) (h : i ≠ k) (ts : List T) :
    ((ts.map (JTerm.row i n)).map (JTerm.blockVal val k)).sum = 0 := by
  induction ts with
  | nil => rfl
  | cons t ts ih =>
    simp only [List.map_cons, List.sum_cons, ih, JTerm.blockVal, if_neg h, add_zero]

theorem sum_map_blockVal_row_eq (val : T → R) (k n : Nat) (ts : List T) :
    ((ts.map (JTerm.row k n)).map (JTerm.blockVal val k)).sum = (ts.map val).sum := by
  induction ts with
  | nil => rfl
  | cons t ts ih =>
    simp only [List.map_cons, List.sum_cons, ih, JTerm.blockVal, if_true]

/-- Rows before `i0` do not exist: their blocks are empty. -/
theorem jacRows_block_before (grad : V → K → List T) (kw : K) (val : T → R) (n k : Nat)
    (vars : List V) : ∀ i0, k < i0 → ((jacRows grad kw n i0 vars).map (JTerm.blockVal val k)).sum = 0 := by
  induction vars with
  | nil => intro i0 _; rfl
  | cons x xs ih =>
    intro i0 h
    simp only [jacRows, List.map_append, List.sum_append,
      sum_map_blockVal_row_ne val i0 n k (by omega), ih (i0 + 1) (by omega), add_zero]

/-- Block `k` of the stack built from index `i0` on is the gradient w.r.t. the variable at place
    `k - i0`, taken with the keywords `kw`. -/
theorem jacRows_block (grad : V → K → List T) (kw : K) (val : T → R) (n k : Nat) (vars : List V) :
    ∀ i0 x, i0 ≤ k → vars[k - i0]? = some x →
      ((jacRows grad kw n i0 vars).map (JTerm.blockVal val k)).sum = ((grad x kw).map val).sum := by
  induction vars with
  | nil => intro i0 x _ h; simp at h
  | cons y ys ih =>
    intro i0 x hle h
    simp only [jacRows, List.map_append, List.sum_append]
    by_cases hk : k = i0
    · subst hk
      simp only [Nat.sub_self, List.getElem?_cons_zero, Option.some.injEq] at h
      subst h
      rw [sum_map_blockVal_row_eq, jacRows_block_before grad kw val n k ys (k + 1) (by omega), add_zero]
    · have hlt : i0 < k := by omega
      have e : k - i0 = (k - (i0 + 1)) + 1 := by omega
      rw [e, List.getElem?_cons_succ] at h
      rw [sum_map_blockVal_row_ne val i0 n k (by omega), zero_add]
      exact ih (i0 + 1) x (by omega) h

/-- **The jacobian stacks the gradients taken with the same keywords**, whatever the number of
    variables: block `k` of its evaluation is the evaluation of `grad(vars[k], **kw)`. -/
theorem circuitJacobian_block (grad : V → K → List T) (kw : K) (val : T → R) (vars : List V)
    (k : Nat) (x : V) (h : vars[k]? = some x) :
    (((circuitJacobian grad vars kw)).map (JTerm.blockVal val k)).sum = ((grad x kw).map val).sum := by
  match vars, h with
  | [], h => simp at h
  | [y], h =>
    cases k with
    | zero =>
      simp only [List.getElem?_cons_zero, Option.some.injEq] at h
      subst h
      simp only [circuitJacobian, List.map_map]
      congr 1
    | succ k => simp at h
  | y :: z :: rest, h =>
    exact jacRows_block grad kw val _ k (y :: z :: rest) 0 x (Nat.zero_le _) (by simpa using h)

end DV.Param
