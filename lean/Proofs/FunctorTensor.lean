/-
  Proofs/FunctorTensor.lean — C04: `F(a @ b) = F(a) @ F(b)` as an equality of all five fields.
-/
import Proofs.Functor

namespace DV

/-! ### Structural laws of the closed forms -/

theorem tensorD_id_id (s t : Ty) : (Diagram.id s).tensorD (Diagram.id t) = Diagram.id (s ++ t) := by
  simp [Diagram.tensorD, Diagram.id, LArrow.id]

theorem thenD_tensorD_id (res lay : Diagram) (t : Ty) :
    (res.thenD lay).tensorD (Diagram.id t) =
      (res.tensorD (Diagram.id t)).thenD (lay.tensorD (Diagram.id t)) := by
  simp [Diagram.tensorD, Diagram.thenD, Diagram.id, LArrow.id]

theorem id_tensorD_thenD (t : Ty) (res lay : Diagram) :
    (Diagram.id t).tensorD (res.thenD lay) =
      ((Diagram.id t).tensorD res).thenD ((Diagram.id t).tensorD lay) := by
  simp [Diagram.tensorD, Diagram.thenD, Diagram.id, LArrow.id]

/-- The layer diagram `Id(l) @ x @ Id(r)` in closed form. -/
def layerD (l : Ty) (x : Diagram) (r : Ty) : Diagram :=
  ((Diagram.id l).tensorD x).tensorD (Diagram.id r)

theorem layerD_wf {l r : Ty} {x : Diagram} (hx : x.WF) : (layerD l x r).WF :=
  Diagram.tensorD_wf (Diagram.tensorD_wf (Diagram.id_wf l) hx) (Diagram.id_wf r)

theorem layerD_whiskR (l r t : Ty) (x : Diagram) :
    (layerD l x r).tensorD (Diagram.id t) = layerD l x (r ++ t) := by
  unfold layerD
  rw [Diagram.tensorD_assoc, tensorD_id_id]

theorem layerD_whiskL (u l r : Ty) (x : Diagram) :
    (Diagram.id u).tensorD (layerD l x r) = layerD (u ++ l) x r := by
  unfold layerD
  rw [← Diagram.tensorD_assoc, ← Diagram.tensorD_assoc, tensorD_id_id]

/-- `stepBox` in closed form, for a well-typed running result and a well-typed box image. -/
theorem Functor.stepBox_eq (F : Functor) {scan : Ty} {result x : Diagram} {b : Box} {off : Int}
    {l r : Ty} (hr : result.WF) (hx : x.WF)
    (hl : F.ty (pySlice scan none (some off)) = .ok l)
    (hrr : F.ty (pySlice scan (some (off + b.dom.length)) none) = .ok r)
    (hb : F.box b = .ok x) (hcod : result.cod = l ++ x.dom ++ r) :
    F.stepBox scan result b off =
      .ok (pySlice scan none (some off) ++ b.cod ++ pySlice scan (some (off + b.dom.length)) none,
           result.thenD (layerD l x r)) := by
  unfold Functor.stepBox
  simp only [hl, hrr, hb]
  rw [Diagram.tensor_eq_tensorD (Diagram.id_wf l) hx]
  simp only
  rw [Diagram.tensor_eq_tensorD (Diagram.tensorD_wf (Diagram.id_wf l) hx) (Diagram.id_wf r)]
  simp only
  have : result.then (((Diagram.id l).tensorD x).tensorD (Diagram.id r)) =
      .ok (result.thenD (layerD l x r)) := by
    apply Diagram.then_spec hr (layerD_wf hx)
    simp [hcod, layerD, Diagram.tensorD, Diagram.id]
  rw [this]

/-- Inversion: a successful step on well-typed data has the closed form. -/
theorem Functor.stepBox_inv (F : Functor) {scan scan' : Ty} {result res : Diagram} {b : Box}
    {off : Int} (hr : result.WF) (hb : F.okOn b)
    (h : F.stepBox scan result b off = .ok (scan', res)) :
    ∃ l r x, F.ty (pySlice scan none (some off)) = .ok l ∧
      F.ty (pySlice scan (some (off + b.dom.length)) none) = .ok r ∧ F.box b = .ok x ∧ x.WF ∧
      result.cod = l ++ x.dom ++ r ∧ res = result.thenD (layerD l x r) := by
  unfold Functor.stepBox at h
  split at h
  · rename_i l r x hl hrr hx
    obtain ⟨xw, _, _⟩ := hb x hx
    rw [Diagram.tensor_eq_tensorD (Diagram.id_wf l) xw] at h
    simp only at h
    rw [Diagram.tensor_eq_tensorD (Diagram.tensorD_wf (Diagram.id_wf l) xw) (Diagram.id_wf r)] at h
    simp only at h
    split at h
    · cases h
    · rename_i res' hres
      simp only [Except.ok.injEq, Prod.mk.injEq] at h
      obtain ⟨_, rfl⟩ := h
      obtain ⟨hc, rfl⟩ := Diagram.then_ok' hres
      refine ⟨l, r, x, hl, hrr, hx, xw, ?_, rfl⟩
      have hlw := layerD_wf (l := l) (r := r) xw
      rw [hr.lcod] at hc
      rw [hc]
      have : (((Diagram.id l).tensorD x).tensorD (Diagram.id r)).layers.dom = l ++ x.dom ++ r := by
        simp [Diagram.tensorD, Diagram.id]
      exact this
  all_goals cases h

/-! ### Whiskering the loop on the right and on the left -/

/-- The fit of boxes/offsets to a scan, as a chain of layers (what `WF` provides). -/
def Fits (scan : Ty) (bs : List Box) (os : List Int) (c : Ty) : Prop :=
  ∃ ls : List Layer, Chain scan ls c ∧ ls.map (·.box) = bs ∧
    ls.map (fun l => (l.left.length : Int)) = os

theorem Fits.cons_inv {scan c : Ty} {b : Box} {bs : List Box} {o : Int} {os : List Int}
    (h : Fits scan (b :: bs) (o :: os) c) :
    ∃ l : Layer, l.box = b ∧ (l.left.length : Int) = o ∧ scan = l.dom ∧ Fits l.cod bs os c := by
  obtain ⟨ls, hch, hm, ho⟩ := h
  cases ls with
  | nil => simp at hm
  | cons l ls =>
    simp only [List.map_cons, List.cons.injEq] at hm ho
    exact ⟨l, hm.1, ho.1, hch.1, ls, hch.2, hm.2, ho.2⟩

theorem slice_left_of_layer {l : Layer} (t : Ty) :
    pySlice (l.dom ++ t) none (some (l.left.length : Int)) = l.left := by
  rw [pySlice_take]; simp [Layer.dom]

theorem slice_right_of_layer {l : Layer} (t : Ty) :
    pySlice (l.dom ++ t) (some ((l.left.length : Int) + l.box.dom.length)) none = l.right ++ t := by
  have e : ((l.left.length : Int) + (l.box.dom.length : Int)) =
      ((l.left.length + l.box.dom.length : Nat) : Int) := by simp
  rw [e, pySlice_drop]; simp [Layer.dom]

theorem slice_left_shift {l : Layer} (u : Ty) :
    pySlice (u ++ l.dom) none (some ((l.left.length : Int) + u.length)) = u ++ l.left := by
  have e : ((l.left.length : Int) + (u.length : Int)) = ((u.length + l.left.length : Nat) : Int) := by
    simp; omega
  rw [e, pySlice_take]
  have : u ++ l.dom = (u ++ l.left) ++ (l.box.dom ++ l.right) := by simp [Layer.dom]
  rw [this, List.take_left' (by simp)]

theorem slice_right_shift {l : Layer} (u : Ty) :
    pySlice (u ++ l.dom) (some ((l.left.length : Int) + u.length + l.box.dom.length)) none = l.right := by
  have e : ((l.left.length : Int) + (u.length : Int) + (l.box.dom.length : Int)) =
      ((u.length + l.left.length + l.box.dom.length : Nat) : Int) := by simp; omega
  rw [e, pySlice_drop]
  have : u ++ l.dom = (u ++ l.left ++ l.box.dom) ++ l.right := by simp [Layer.dom]
  rw [this, List.drop_left' (by simp; omega)]

theorem Functor.loop_whiskR (F : Functor) {scan c t tt : Ty} {res r : Diagram} {bs : List Box}
    {os : List Int} (hfit : Fits scan bs os c) (hres : res.WF) (hok : ∀ b ∈ bs, F.okOn b)
    (ht : F.ty t = .ok tt) (h : F.loop scan res bs os = .ok r) :
    F.loop (scan ++ t) (res.tensorD (Diagram.id tt)) bs os = .ok (r.tensorD (Diagram.id tt)) := by
  induction bs generalizing scan res os with
  | nil =>
    cases os <;> (simp only [Functor.loop, Except.ok.injEq] at h ⊢; rw [h])
  | cons b bs ih =>
    cases os with
    | nil => obtain ⟨ls, _, hm, ho⟩ := hfit; cases ls <;> simp at hm ho
    | cons o os =>
      obtain ⟨l, hlb, hlo, hscan, hfit'⟩ := hfit.cons_inv
      subst hlb hlo hscan
      simp only [Functor.loop] at h ⊢
      split at h
      · cases h
      · rename_i scan' res' hstep
        obtain ⟨L, R, x, hL, hR, hx, xw, hcod, rfl⟩ :=
          F.stepBox_inv hres (hok _ (List.mem_cons_self ..)) hstep
        have hsc := F.stepBox_scan hstep
        have e1 := slice_left_of_layer (l := l) []
        have e2 := slice_right_of_layer (l := l) []
        simp only [List.append_nil] at e1 e2
        rw [e1] at hL; rw [e2] at hR
        have hRt := F.ty_append hR ht
        have hstep' := F.stepBox_eq (scan := l.dom ++ t) (result := res.tensorD (Diagram.id tt))
          (b := l.box) (off := (l.left.length : Int)) (l := L) (r := R ++ tt) (x := x)
          (Diagram.tensorD_wf hres (Diagram.id_wf tt)) xw
          (by rw [slice_left_of_layer]; exact hL) (by rw [slice_right_of_layer]; exact hRt) hx
          (by simp [Diagram.tensorD, Diagram.id, hcod])
        rw [hstep']
        simp only
        rw [slice_left_of_layer, slice_right_of_layer]
        have hscan' : scan' = l.cod := by rw [hsc, e1, e2]; rfl
        have hw' : (res.thenD (layerD L x R)).WF :=
          Diagram.thenD_wf hres (layerD_wf xw) (by simp [hcod, layerD, Diagram.tensorD, Diagram.id])
        have := ih (scan := l.cod) (res := res.thenD (layerD L x R)) hfit' hw'
          (fun b' hb' => hok b' (List.mem_cons_of_mem _ hb')) (by rw [← hscan']; exact h)
        rw [thenD_tensorD_id, layerD_whiskR] at this
        have eq : l.left ++ l.box.cod ++ (l.right ++ t) = l.cod ++ t := by simp [Layer.cod]
        rw [eq]; exact this

theorem Functor.loop_whiskL (F : Functor) {scan c u tu : Ty} {res r : Diagram} {bs : List Box}
    {os : List Int} (hfit : Fits scan bs os c) (hres : res.WF) (hok : ∀ b ∈ bs, F.okOn b)
    (hu : F.ty u = .ok tu) (h : F.loop scan res bs os = .ok r) :
    F.loop (u ++ scan) ((Diagram.id tu).tensorD res) bs (os.map (· + (u.length : Int))) =
      .ok ((Diagram.id tu).tensorD r) := by
  induction bs generalizing scan res os with
  | nil =>
    cases os <;> (simp only [Functor.loop, Except.ok.injEq, List.map_nil, List.map_cons] at h ⊢; rw [h])
  | cons b bs ih =>
    cases os with
    | nil => obtain ⟨ls, _, hm, ho⟩ := hfit; cases ls <;> simp at hm ho
    | cons o os =>
      obtain ⟨l, hlb, hlo, hscan, hfit'⟩ := hfit.cons_inv
      subst hlb hlo hscan
      simp only [Functor.loop, List.map_cons] at h ⊢
      split at h
      · cases h
      · rename_i scan' res' hstep
        obtain ⟨L, R, x, hL, hR, hx, xw, hcod, rfl⟩ :=
          F.stepBox_inv hres (hok _ (List.mem_cons_self ..)) hstep
        have hsc := F.stepBox_scan hstep
        have e1 := slice_left_of_layer (l := l) []
        have e2 := slice_right_of_layer (l := l) []
        simp only [List.append_nil] at e1 e2
        rw [e1] at hL; rw [e2] at hR
        have hLu := F.ty_append hu hL
        have hstep' := F.stepBox_eq (scan := u ++ l.dom) (result := (Diagram.id tu).tensorD res)
          (b := l.box) (off := (l.left.length : Int) + u.length) (l := tu ++ L) (r := R) (x := x)
          (Diagram.tensorD_wf (Diagram.id_wf tu) hres) xw
          (by rw [slice_left_shift]; exact hLu) (by rw [slice_right_shift]; exact hR) hx
          (by simp [Diagram.tensorD, Diagram.id, hcod])
        rw [hstep']
        simp only
        rw [slice_left_shift, slice_right_shift]
        have hscan' : scan' = l.cod := by rw [hsc, e1, e2]; rfl
        have hw' : (res.thenD (layerD L x R)).WF :=
          Diagram.thenD_wf hres (layerD_wf xw) (by simp [hcod, layerD, Diagram.tensorD, Diagram.id])
        have := ih (scan := l.cod) (res := res.thenD (layerD L x R)) hfit' hw'
          (fun b' hb' => hok b' (List.mem_cons_of_mem _ hb')) (by rw [← hscan']; exact h)
        rw [id_tensorD_thenD, layerD_whiskL] at this
        have eq : u ++ l.left ++ l.box.cod ++ l.right = u ++ l.cod := by simp [Layer.cod]
        rw [eq]; exact this

end DV

namespace DV

theorem scanAfter_fits_append {scan c : Ty} {bs : List Box} {os : List Int} (t : Ty)
    (h : Fits scan bs os c) : scanAfter (scan ++ t) bs os = c ++ t := by
  induction bs generalizing scan os with
  | nil =>
    obtain ⟨ls, hch, hm, ho⟩ := h
    have : ls = [] := by simpa using hm
    subst this
    simp [Chain] at hch; subst hch
    cases os <;> simp [scanAfter]
  | cons b bs ih =>
    cases os with
    | nil => obtain ⟨ls, _, hm, ho⟩ := h; cases ls <;> simp at hm ho
    | cons o os =>
      obtain ⟨l, hlb, hlo, hscan, hfit'⟩ := h.cons_inv
      subst hlb hlo hscan
      simp only [scanAfter]
      rw [slice_left_of_layer, slice_right_of_layer]
      have eq : l.left ++ l.box.cod ++ (l.right ++ t) = l.cod ++ t := by simp [Layer.cod]
      rw [eq]
      exact ih hfit'

theorem Diagram.WF.fits {d : Diagram} (h : d.WF) : Fits d.dom d.boxes d.offsets d.cod := by
  refine ⟨d.layers.boxes, ?_, h.boxes.symm, h.offsets.symm⟩
  have := h.chain
  rwa [LArrow.WF, h.ldom, h.lcod] at this

/-- C04: the image of a tensor is the tensor of the images (equality of all five fields). -/
theorem Functor.apply_tensorD (F : Functor) {a b fa fb : Diagram} (ha : a.WF) (hb : b.WF)
    (hoka : ∀ bx ∈ a.boxes, F.okOn bx) (hokb : ∀ bx ∈ b.boxes, F.okOn bx)
    (hfa : F.apply a = .ok fa) (hfb : F.apply b = .ok fb) :
    F.apply (a.tensorD b) = .ok (fa.tensorD fb) := by
  obtain ⟨faw, fadom, facod⟩ := F.apply_props ha hoka hfa
  obtain ⟨fbw, fbdom, fbcod⟩ := F.apply_props hb hokb hfb
  unfold Functor.apply at hfa hfb ⊢
  rw [fadom] at hfa; rw [fbdom] at hfb
  simp only at hfa hfb
  have hdom : F.ty (a.tensorD b).dom = .ok (fa.dom ++ fb.dom) := F.ty_append fadom fbdom
  rw [hdom]
  simp only
  have hlen : a.boxes.length = a.offsets.length := by rw [ha.boxes, ha.offsets]; simp
  -- first half: the boxes of `a`, whiskered on the right by `b.dom`
  have h1 := F.loop_whiskR (t := b.dom) (tt := fb.dom) ha.fits (Diagram.id_wf fa.dom) hoka fbdom hfa
  rw [tensorD_id_id] at h1
  -- second half: the boxes of `b`, whiskered on the left by `a.cod`
  have h2 := F.loop_whiskL (u := a.cod) (tu := fa.cod) hb.fits (Diagram.id_wf fb.dom) hokb facod hfb
  rw [tensorD_id_id] at h2
  have hacc : (fa.tensorD (Diagram.id fb.dom)).then (Diagram.id (fa.cod ++ fb.dom)) =
      .ok (fa.tensorD (Diagram.id fb.dom)) :=
    Diagram.then_idF (Diagram.tensorD_wf faw (Diagram.id_wf _)) (by simp [Diagram.tensorD, Diagram.id])
  obtain ⟨q', hq1, hq2⟩ := F.loop_acc hacc h2
  -- the accumulated result is `fa @ fb`
  have hq' : q' = fa.tensorD fb := by
    obtain ⟨_, hq⟩ := Diagram.then_ok' hq2
    rw [hq]
    simp [Diagram.tensorD, Diagram.thenD, Diagram.id, LArrow.id]
  subst hq'
  show F.loop (a.dom ++ b.dom) (Diagram.id (fa.dom ++ fb.dom)) (a.boxes ++ b.boxes)
    (a.offsets ++ b.offsets.map (· + (a.cod.length : Int))) = _
  apply F.loop_append' hlen h1
  rw [scanAfter_fits_append b.dom ha.fits]
  exact hq1

theorem Functor.apply_tensor (F : Functor) {a b ab fa fb : Diagram} (ha : a.WF) (hb : b.WF)
    (hoka : ∀ bx ∈ a.boxes, F.okOn bx) (hokb : ∀ bx ∈ b.boxes, F.okOn bx)
    (hab : a.tensor b = .ok ab) (hfa : F.apply a = .ok fa) (hfb : F.apply b = .ok fb) :
    ∃ r, fa.tensor fb = .ok r ∧ F.apply ab = .ok r := by
  obtain ⟨faw, _, _⟩ := F.apply_props ha hoka hfa
  obtain ⟨fbw, _, _⟩ := F.apply_props hb hokb hfb
  rw [Diagram.tensor_eq_tensorD ha hb] at hab
  cases hab
  exact ⟨fa.tensorD fb, Diagram.tensor_eq_tensorD faw fbw, F.apply_tensorD ha hb hoka hokb hfa hfb⟩

end DV
