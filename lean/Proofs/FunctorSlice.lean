/-
  Proofs/FunctorSlice.lean — C04: the image of a slice is the slice of the image,
  `F(d[i:j]) = F(d)[i':j']` with `i' = Σ_{k<i} |F(box_k).boxes|` — for EVERY pair of Python slice
  bounds (omitted, negative, out of range, `i > j`), normalised by `pyLo` / `pyHi`.
-/
import Proofs.FunctorDagger

namespace DV

/-! ### `arrow[i:j]` in closed form on a well-typed layer arrow -/

theorem pyGet?_eq_pyIdx {α} (xs : List α) (s : Int) (h1 : -(xs.length : Int) < s)
    (h2 : s < (xs.length : Int)) : pyGet? xs s = xs[pyIdx xs.length s]? := by
  unfold pyGet? pyIdx
  by_cases hs : s < 0
  · have : ¬ (s + (xs.length : Int) < 0) := by omega
    simp [hs, this]
  · have : min s.toNat xs.length = s.toNat := by omega
    simp [hs, this]

/-- The empty-slice branch: the identity on the type reached before layer `pyLo n start`. -/
theorem LArrow.sliceEmpty_spec {a : LArrow} (i : Option Int) {m : Ty}
    (h1 : Chain a.dom (a.boxes.take (pyLo a.boxes.length i)) m)
    (h3 : Chain m (a.boxes.drop (pyLo a.boxes.length i)) a.cod) :
    a.sliceEmpty i = .ok ⟨m, m, []⟩ := by
  unfold LArrow.sliceEmpty
  by_cases c1 : i.getD 0 ≥ (a.boxes.length : Int)
  · -- `pyLo = n`: nothing is left to read
    have hI : a.boxes.length ≤ pyLo a.boxes.length i := by
      cases i with
      | none => simp only [Option.getD_none] at c1; simp only [pyLo]; omega
      | some s =>
        simp only [Option.getD_some] at c1
        simp only [pyLo, pyIdx]
        have : ¬ s < 0 := by omega
        simp only [this, if_false]; omega
    rw [List.drop_eq_nil_of_le hI] at h3
    have : m = a.cod := by simpa [Chain] using h3
    subst this
    simp [c1, LArrow.id]
  · by_cases c2 : i.getD 0 ≤ -(a.boxes.length : Int)
    · have hI : pyLo a.boxes.length i = 0 := by
        cases i with
        | none => rfl
        | some s =>
          simp only [Option.getD_some] at c1 c2
          simp only [pyLo, pyIdx]
          have : s < 0 := by omega
          simp only [this, if_true]
          split <;> omega
      rw [hI] at h1
      have : a.dom = m := by simpa [Chain] using h1
      subst this
      simp [c1, c2, LArrow.id]
    · simp only [c1, c2, if_false]
      have hget : pyGet? a.boxes (i.getD 0) = a.boxes[pyLo a.boxes.length i]? := by
        cases i with
        | none =>
          simp only [Option.getD_none] at c1 c2 ⊢
          simp [pyLo, pyGet?]
        | some s =>
          simp only [Option.getD_some] at c1 c2 ⊢
          exact pyGet?_eq_pyIdx a.boxes s (by omega) (by omega)
      have hlt : pyLo a.boxes.length i < a.boxes.length := by
        cases i with
        | none => simp only [Option.getD_none] at c1; simp only [pyLo]; omega
        | some s =>
          simp only [Option.getD_some] at c1 c2
          simp only [pyLo, pyIdx]
          split
          · split <;> omega
          · omega
      rw [hget, List.getElem?_eq_getElem hlt]
      rw [List.drop_eq_getElem_cons hlt] at h3
      simp only [LArrow.id]
      rw [h3.1]

/-- `arrow[i:j]` for all Python bounds: the layers `pyLo .. pyHi` between the types `m1`, `m2`
    the chain reaches there. -/
theorem LArrow.slice_spec {a : LArrow} (i j : Option Int) {m1 m2 : Ty}
    (h1 : Chain a.dom (a.boxes.take (pyLo a.boxes.length i)) m1)
    (h2 : Chain m1 ((a.boxes.drop (pyLo a.boxes.length i)).take
      (pyHi a.boxes.length j - pyLo a.boxes.length i)) m2)
    (h3 : Chain m1 (a.boxes.drop (pyLo a.boxes.length i)) a.cod) :
    a.slice i j = .ok ⟨m1, m2, (a.boxes.drop (pyLo a.boxes.length i)).take
      (pyHi a.boxes.length j - pyLo a.boxes.length i)⟩ := by
  unfold LArrow.slice
  have e : pySlice a.boxes i j = (a.boxes.drop (pyLo a.boxes.length i)).take
      (pyHi a.boxes.length j - pyLo a.boxes.length i) := rfl
  rw [e]
  split
  · rename_i hnil
    rw [hnil] at h2 ⊢
    have : m1 = m2 := by simpa [Chain] using h2
    subst this
    exact LArrow.sliceEmpty_spec i h1 h3
  · rename_i b bs hb
    rw [hb] at h2 ⊢
    rw [LArrow.slice_cons_eq h2]

/-- Slicing always succeeds on a well-typed diagram, and the result is made of the layers
    `pyLo .. pyHi`. -/
theorem Diagram.slice_spec {d : Diagram} (hd : d.WF) (i j : Option Int) :
    ∃ m1 m2, Chain d.dom (d.layers.boxes.take (pyLo d.layers.boxes.length i)) m1 ∧
      Chain m1 ((d.layers.boxes.drop (pyLo d.layers.boxes.length i)).take
        (pyHi d.layers.boxes.length j - pyLo d.layers.boxes.length i)) m2 ∧
      Chain m2 ((d.layers.boxes.drop (pyLo d.layers.boxes.length i)).drop
        (pyHi d.layers.boxes.length j - pyLo d.layers.boxes.length i)) d.cod ∧
      d.slice i j = .ok (Diagram.ofLayers ⟨m1, m2, (d.layers.boxes.drop (pyLo d.layers.boxes.length i)).take
        (pyHi d.layers.boxes.length j - pyLo d.layers.boxes.length i)⟩) := by
  have hch : Chain d.dom d.layers.boxes d.cod := by
    have := hd.chain; rwa [LArrow.WF, hd.ldom, hd.lcod] at this
  obtain ⟨m1, h1, h3⟩ := chain_take_drop (pyLo d.layers.boxes.length i) hch
  obtain ⟨m2, h2, h4⟩ := chain_take_drop
    (pyHi d.layers.boxes.length j - pyLo d.layers.boxes.length i) h3
  refine ⟨m1, m2, h1, h2, h4, ?_⟩
  unfold Diagram.slice
  rw [LArrow.slice_spec i j (by rw [hd.ldom]; exact h1) h2 (by rw [hd.lcod]; exact h3)]

/-! ### Slicing a three-fold composite at its seams gives the middle part -/

theorem Diagram.WF.chain' {d : Diagram} (h : d.WF) : Chain d.dom d.layers.boxes d.cod := by
  have := h.chain; rwa [LArrow.WF, h.ldom, h.lcod] at this

theorem Diagram.WF.boxes_length {d : Diagram} (h : d.WF) : d.boxes.length = d.layers.boxes.length := by
  rw [h.boxes]; simp

/-- `(p >> m >> q)[len(p) : j] == m` whenever `j - len(p) = len(m)` (so `j = len(p) + len(m)`, or
    any `j ≤ len(p)` when `m` has no boxes). -/
theorem Diagram.slice_thenD3 {p m q : Diagram} (hp : p.WF) (hm : m.WF) (hq : q.WF)
    (h1 : p.cod = m.dom) (h2 : m.cod = q.dom) (j : Nat)
    (hj : j - p.boxes.length = m.boxes.length) :
    ((p.thenD m).thenD q).slice (some (p.boxes.length : Int)) (some (j : Int)) = .ok m := by
  have hpl := hp.boxes_length
  have hml := hm.boxes_length
  have hmq : Chain m.dom (m.layers.boxes ++ q.layers.boxes) q.cod :=
    chain_append.mpr ⟨m.cod, hm.chain', by rw [h2]; exact hq.chain'⟩
  unfold Diagram.slice
  have hlen : ((p.thenD m).thenD q).layers.boxes.length =
      p.layers.boxes.length + m.layers.boxes.length + q.layers.boxes.length := by
    simp [Diagram.thenD]; omega
  have hlo : pyLo ((p.thenD m).thenD q).layers.boxes.length (some (p.boxes.length : Int)) =
      p.layers.boxes.length := by
    simp only [pyLo, pyIdx_nat, hlen]; omega
  have hhi : pyHi ((p.thenD m).thenD q).layers.boxes.length (some (j : Int)) -
      p.layers.boxes.length = m.layers.boxes.length := by
    simp only [pyHi, pyIdx_nat, hlen]; omega
  have hb : ((p.thenD m).thenD q).layers.boxes =
      p.layers.boxes ++ (m.layers.boxes ++ q.layers.boxes) := by
    simp [Diagram.thenD]
  have htake : ((p.thenD m).thenD q).layers.boxes.take p.layers.boxes.length = p.layers.boxes := by
    rw [hb]; simp
  have hdrop : ((p.thenD m).thenD q).layers.boxes.drop p.layers.boxes.length =
      m.layers.boxes ++ q.layers.boxes := by
    rw [hb]; simp
  have hspec := LArrow.slice_spec (a := ((p.thenD m).thenD q).layers)
    (some (p.boxes.length : Int)) (some (j : Int)) (m1 := m.dom) (m2 := m.cod)
    (by rw [hlo, htake]
        show Chain p.layers.dom p.layers.boxes m.dom
        rw [hp.ldom, ← h1]; exact hp.chain')
    (by rw [hlo, hhi, hdrop]; simpa using hm.chain')
    (by rw [hlo, hdrop]
        show Chain m.dom _ q.layers.cod
        rw [hq.lcod]; exact hmq)
  rw [hspec, hlo, hhi, hdrop]
  simp only [List.take_left']
  have : (⟨m.dom, m.cod, m.layers.boxes⟩ : LArrow) = m.layers := by
    rw [← hm.ldom, ← hm.lcod]
  rw [this, ← hm.eq_ofLayers]

/-! ### Folds of layer images: splitting, lengths -/

theorem foldT_thenD (a b : Diagram) (Ms : List Diagram) :
    foldT (a.thenD b) Ms = a.thenD (foldT b Ms) := by
  induction Ms generalizing b with
  | nil => rfl
  | cons M Ms ih =>
    show foldT ((a.thenD b).thenD M) Ms = a.thenD (foldT (b.thenD M) Ms)
    rw [thenD_assoc, ih]

theorem foldT_app (res : Diagram) (As Bs : List Diagram) :
    foldT res (As ++ Bs) = foldT (foldT res As) Bs := by simp [foldT, List.foldl_append]

/-- Continue a fold from a well-typed running result = compose with the fold from the identity. -/
theorem foldT_from {res : Diagram} (hres : res.WF) (Ms : List Diagram) :
    foldT res Ms = res.thenD (foldT (Diagram.id res.cod) Ms) := by
  rw [← foldT_thenD, thenD_id hres rfl]

theorem foldT_boxes_length (res : Diagram) (Ls : List Diagram) :
    (foldT res Ls).boxes.length = res.boxes.length + (Ls.map (·.boxes.length)).sum := by
  induction Ls generalizing res with
  | nil => simp [foldT]
  | cons L Ls ih =>
    show (foldT (res.thenD L) Ls).boxes.length = _
    rw [ih]; simp [Diagram.thenD]; omega

theorem Functor.Img.boxes_length {F : Functor} {l : Layer} {L : Diagram} (h : F.Img l L) :
    L.boxes.length = F.boxLen l.box := by
  obtain ⟨lt, rt, x, _, _, hx, _, _, _, rfl⟩ := h
  simp [Functor.boxLen, hx, layerD, Diagram.tensorD, Diagram.id]

theorem Functor.Imgs.boxes_length {F : Functor} {ls : List Layer} {Ls : List Diagram}
    (h : F.Imgs ls Ls) : Ls.map (·.boxes.length) = ls.map (fun l => F.boxLen l.box) := by
  induction h with
  | nil => rfl
  | cons himg _ ih => simp [himg.boxes_length, ih]

theorem Functor.Imgs.take {F : Functor} {ls : List Layer} {Ls : List Diagram} (h : F.Imgs ls Ls)
    (k : Nat) : F.Imgs (ls.take k) (Ls.take k) := by
  induction h generalizing k with
  | nil => simpa using Functor.Imgs.nil
  | cons himg _ ih =>
    cases k with
    | zero => simpa using Functor.Imgs.nil
    | succ k => simpa using Functor.Imgs.cons himg (ih k)

theorem Functor.Imgs.drop {F : Functor} {ls : List Layer} {Ls : List Diagram} (h : F.Imgs ls Ls)
    (k : Nat) : F.Imgs (ls.drop k) (Ls.drop k) := by
  induction h generalizing k with
  | nil => simpa using Functor.Imgs.nil
  | cons himg hrest ih =>
    cases k with
    | zero => simpa using Functor.Imgs.cons himg hrest
    | succ k => simpa using ih k

/-- The image of a diagram made of the layers `ls` is the fold of the layer images. -/
theorem Functor.apply_ofLayers (F : Functor) {s c S : Ty} {ls : List Layer} {Ls : List Diagram}
    (hch : Chain s ls c) (hS : F.ty s = .ok S) (hi : F.Imgs ls Ls) :
    F.apply (Diagram.ofLayers ⟨s, c, ls⟩) = .ok (foldT (Diagram.id S) Ls) := by
  unfold Functor.apply
  simp only [Diagram.ofLayers, hS]
  exact F.loop_of_fold hch (Diagram.id_wf S) (by simpa [Diagram.id] using hS) hi

/-! ### Sums of image lengths -/

theorem Functor.imgIdx_add (F : Functor) (bs : List Box) (a k : Nat) :
    F.imgIdx bs (a + k) = F.imgIdx bs a + F.imgIdx (bs.drop a) k := by
  unfold Functor.imgIdx
  rw [List.take_add, List.map_append, List.sum_append]

theorem Functor.imgIdx_mono (F : Functor) (bs : List Box) {a b : Nat} (h : a ≤ b) :
    F.imgIdx bs a ≤ F.imgIdx bs b := by
  obtain ⟨k, rfl⟩ := Nat.exists_eq_add_of_le h
  rw [F.imgIdx_add]; omega

theorem Functor.imgIdx_sub (F : Functor) (bs : List Box) (a b : Nat) :
    F.imgIdx bs b - F.imgIdx bs a = F.imgIdx (bs.drop a) (b - a) := by
  by_cases h : a ≤ b
  · obtain ⟨k, rfl⟩ := Nat.exists_eq_add_of_le h
    rw [F.imgIdx_add, Nat.add_sub_cancel_left, Nat.add_sub_cancel_left]
  · have h0 : b - a = 0 := by omega
    have := F.imgIdx_mono bs (a := b) (b := a) (by omega)
    have z : F.imgIdx (bs.drop a) 0 = 0 := by simp [Functor.imgIdx]
    rw [h0, z]
    omega

/-- The re-indexed bound never exceeds the number of boxes of the image. -/
theorem Functor.imgIdx_le_all (F : Functor) (bs : List Box) (k : Nat) :
    F.imgIdx bs k ≤ F.imgIdx bs bs.length := by
  by_cases h : k ≤ bs.length
  · exact F.imgIdx_mono bs h
  · unfold Functor.imgIdx
    rw [List.take_of_length_le (by omega), List.take_of_length_le (Nat.le_refl _)]
    exact Nat.le_refl _

/-! ### The slice law -/

/-- C04: `F(d[i:j]) = F(d)[i':j']` for all Python bounds `i`, `j`, where `i'`, `j'` count the boxes
    of the images of the first `pyLo n i`, `pyHi n j` boxes.  Both slices always exist. -/
theorem Functor.apply_slice (F : Functor) {d fd : Diagram} (hd : d.WF)
    (hok : ∀ b ∈ d.boxes, F.okOn b) (hfd : F.apply d = .ok fd) (i j : Option Int) :
    ∃ s fs, d.slice i j = .ok s ∧ F.apply s = .ok fs ∧
      fd.slice (some (F.imgIdx d.boxes (pyLo d.boxes.length i) : Nat))
               (some (F.imgIdx d.boxes (pyHi d.boxes.length j) : Nat)) = .ok fs := by
  obtain ⟨fdw, fddom, fdcod⟩ := F.apply_props hd hok hfd
  have hch := hd.chain'
  -- the image as a fold of layer images
  have hfd' := hfd
  unfold Functor.apply at hfd'
  rw [fddom] at hfd'
  simp only at hfd'
  rw [hd.boxes, hd.offsets] at hfd'
  obtain ⟨Ls, himgs, hfold⟩ := F.loop_fold hch (Diagram.id_wf fd.dom)
    (fun l hl => hok l.box (by rw [hd.boxes]; exact List.mem_map_of_mem hl)) hfd'
  -- the three parts of the diagram
  have hn : d.boxes.length = d.layers.boxes.length := hd.boxes_length
  rw [hn]
  generalize hI : pyLo d.layers.boxes.length i = I
  generalize hJ : pyHi d.layers.boxes.length j = J
  obtain ⟨m1, m2, c1, c2, c3, hslice⟩ := Diagram.slice_spec hd i j
  rw [hI] at c1 c2 c3 hslice
  rw [hJ] at c2 c3 hslice
  have iA := himgs.take I
  have iB := (himgs.drop I).take (J - I)
  have iC := (himgs.drop I).drop (J - I)
  -- the three parts of the image
  obtain ⟨pw, pdom, pcod⟩ := iA.foldT_props c1 (Diagram.id_wf fd.dom)
    (by simpa [Diagram.id] using fddom)
  generalize hP : foldT (Diagram.id fd.dom) (Ls.take I) = P at pw pdom pcod
  obtain ⟨mw, mdom, mcod⟩ := iB.foldT_props c2 (Diagram.id_wf P.cod)
    (by simpa [Diagram.id] using pcod)
  generalize hM : foldT (Diagram.id P.cod) ((Ls.drop I).take (J - I)) = M at mw mdom mcod
  obtain ⟨qw, qdom, qcod⟩ := iC.foldT_props c3 (Diagram.id_wf M.cod)
    (by simpa [Diagram.id] using mcod)
  generalize hQ : foldT (Diagram.id M.cod) ((Ls.drop I).drop (J - I)) = Q at qw qdom qcod
  have hPM : P.cod = M.dom := by rw [mdom]; rfl
  have hMQ : M.cod = Q.dom := by rw [qdom]; rfl
  have hsplit : fd = (P.thenD M).thenD Q := by
    have e : Ls = Ls.take I ++ ((Ls.drop I).take (J - I) ++ (Ls.drop I).drop (J - I)) := by
      rw [List.take_append_drop, List.take_append_drop]
    rw [hfold, e, foldT_app, foldT_app, hP, foldT_from pw, hM,
      foldT_from (Diagram.thenD_wf pw mw hPM)]
    show (P.thenD M).thenD (foldT (Diagram.id M.cod) _) = _
    rw [hQ]
  refine ⟨_, M, hslice, ?_, ?_⟩
  · rw [F.apply_ofLayers c2 pcod iB, hM]
  · -- the bounds are the seams
    have hlenP : P.boxes.length = F.imgIdx d.boxes I := by
      rw [← hP, foldT_boxes_length, iA.boxes_length]
      simp [Diagram.id, Functor.imgIdx, hd.boxes, List.map_take, Function.comp_def]
    have hlenM : M.boxes.length = F.imgIdx (d.boxes.drop I) (J - I) := by
      rw [← hM, foldT_boxes_length, iB.boxes_length]
      simp [Diagram.id, Functor.imgIdx, hd.boxes, List.map_take, List.map_drop, Function.comp_def]
    have hj : F.imgIdx d.boxes J - P.boxes.length = M.boxes.length := by
      rw [hlenP, hlenM, F.imgIdx_sub]
    rw [hsplit, ← hlenP]
    exact Diagram.slice_thenD3 pw mw qw hPM hMQ _ hj

/-- The plain case `0 ≤ i, j ≤ len(d)`: the bounds need no normalisation. -/
theorem Functor.apply_slice_nat (F : Functor) {d fd : Diagram} (hd : d.WF)
    (hok : ∀ b ∈ d.boxes, F.okOn b) (hfd : F.apply d = .ok fd) (i j : Nat)
    (hi : i ≤ d.boxes.length) (hj : j ≤ d.boxes.length) :
    ∃ s fs, d.slice (some (i : Int)) (some (j : Int)) = .ok s ∧ F.apply s = .ok fs ∧
      fd.slice (some (F.imgIdx d.boxes i : Nat)) (some (F.imgIdx d.boxes j : Nat)) = .ok fs := by
  have := F.apply_slice hd hok hfd (some (i : Int)) (some (j : Int))
  simp only [pyLo, pyHi, pyIdx_nat, Nat.min_eq_left hi, Nat.min_eq_left hj] at this
  exact this

/-- What a slice is made of: boxes `pyLo .. pyHi` of the diagram (so the law above is about the
    expected sub-diagram). -/
theorem Diagram.slice_boxes {d s : Diagram} (hd : d.WF) (i j : Option Int)
    (h : d.slice i j = .ok s) : s.boxes = pySlice d.boxes i j ∧ s.offsets = pySlice d.offsets i j := by
  obtain ⟨m1, m2, _, _, _, hs⟩ := Diagram.slice_spec hd i j
  rw [hs] at h
  cases h
  have e1 : d.boxes.length = d.layers.boxes.length := hd.boxes_length
  have e2 : d.offsets.length = d.layers.boxes.length := by rw [hd.offsets]; simp
  constructor
  · simp only [Diagram.ofLayers, pySlice, e1]
    rw [hd.boxes, List.map_take, List.map_drop]
  · simp only [Diagram.ofLayers, pySlice, e2]
    rw [hd.offsets, List.map_take, List.map_drop]

end DV
