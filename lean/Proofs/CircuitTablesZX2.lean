/-
  Proofs/CircuitTablesZX2.lean — the `Gate.zxOK` table for the corrected CRz, CRx, CU1.
  (Split to keep each file under 30 s.)
-/
import Proofs.CircuitTablesZX

namespace DV.Gates
open DV

theorem zxTableB_ok : ∀ p ∈ zxTableB, p.1.zxOK p.2 (zxInv p.2) = true := by decide +kernel

end DV.Gates
