/-
  Proofs/InterchangeBlind.lean — `interchange` is blind to WHAT sits in `boxes`.

  `Diagram.mapBox φ` replaces every box `b` by `φ b` (in `boxes` and in `layers`).  If `φ` keeps
  the domain and the codomain of every box, then interchange commutes with it:

      (d.mapBox φ).interchange i j left = (d.interchange i j left).map (Diagram.mapBox φ)

  for ALL diagrams (no well-formedness needed), all `(i, j)` and both preferences — in particular
  the OUTCOME CLASS (a diagram / interchanger error / index error) and the offsets of the result do
  not depend on the kind, name, dagger flag or data of any box: a composite diagram used as a box,
  a formal sum, a bubble, a box of another class or one with an unusual name is refused exactly when
  the plain box with the same domain and codomain is refused, with the same error class.
-/
import Model.Diagram

namespace DV

def Layer.mapBox (φ : Box → Box) (l : Layer) : Layer := ⟨l.left, φ l.box, l.right⟩

def LArrow.mapBox (φ : Box → Box) (a : LArrow) : LArrow :=
  ⟨a.dom, a.cod, a.boxes.map (Layer.mapBox φ)⟩

def Diagram.mapBox (φ : Box → Box) (d : Diagram) : Diagram :=
  ⟨d.dom, d.cod, d.boxes.map φ, d.offsets, d.layers.mapBox φ⟩

/-- `φ` keeps the domain and codomain of every box. -/
def TypePreserving (φ : Box → Box) : Prop := ∀ b, (φ b).dom = b.dom ∧ (φ b).cod = b.cod

/-- `Except.map` spelled out (no dependence on library simp lemmas). -/
def mapOk {α β} (f : α → β) : Except Err α → Except Err β
  | .ok a => .ok (f a)
  | .error e => .error e

@[simp] theorem mapOk_ok {α β} (f : α → β) (a : α) : mapOk f (.ok a : Except Err α) = .ok (f a) := rfl
@[simp] theorem mapOk_error {α β} (f : α → β) (e : Err) :
    mapOk f (.error e : Except Err α) = .error e := rfl

theorem pySlice_map {α β} (f : α → β) (xs : List α) (s t : Option Int) :
    pySlice (xs.map f) s t = (pySlice xs s t).map f := by
  simp [pySlice, List.map_take, List.map_drop]

theorem pyGet?_map {α β} (f : α → β) (xs : List α) (i : Int) :
    pyGet? (xs.map f) i = (pyGet? xs i).map f := by
  unfold pyGet?
  by_cases h1 : i < 0
  · by_cases h2 : i + (xs.length : Int) < 0 <;> simp [h1, h2]
  · simp [h1]

section
variable {φ : Box → Box} (hφ : TypePreserving φ)
include hφ

theorem Layer.mapBox_dom (l : Layer) : (l.mapBox φ).dom = l.dom := by
  simp [Layer.mapBox, Layer.dom, (hφ l.box).1]

theorem Layer.mapBox_cod (l : Layer) : (l.mapBox φ).cod = l.cod := by
  simp [Layer.mapBox, Layer.cod, (hφ l.box).2]

theorem Layer.mapBox_arrow (l : Layer) : (l.mapBox φ).arrow = l.arrow.mapBox φ := by
  simp [Layer.arrow, LArrow.mapBox, Layer.mapBox_dom hφ, Layer.mapBox_cod hφ]

omit hφ in
theorem LArrow.mapBox_then (a b : LArrow) :
    (a.mapBox φ).then (b.mapBox φ) = mapOk (LArrow.mapBox φ) (a.then b) := by
  unfold LArrow.then
  by_cases h : a.cod = b.dom <;> simp [LArrow.mapBox, h]

theorem LArrow.mapBox_thenLayer (a : LArrow) (l : Layer) :
    (a.mapBox φ).thenLayer (l.mapBox φ) = mapOk (LArrow.mapBox φ) (a.thenLayer l) := by
  unfold LArrow.thenLayer
  rw [Layer.mapBox_arrow hφ, LArrow.mapBox_then]

omit hφ in
theorem LArrow.mapBox_id (t : Ty) : (LArrow.id t).mapBox φ = LArrow.id t := by
  simp [LArrow.id, LArrow.mapBox]

theorem LArrow.mapBox_sliceEmpty (a : LArrow) (s : Option Int) :
    (a.mapBox φ).sliceEmpty s = mapOk (LArrow.mapBox φ) (a.sliceEmpty s) := by
  unfold LArrow.sliceEmpty
  have hlen : (a.mapBox φ).boxes.length = a.boxes.length := by simp [LArrow.mapBox]
  have hd : (a.mapBox φ).dom = a.dom := rfl
  have hc : (a.mapBox φ).cod = a.cod := rfl
  rw [hlen, hd, hc]
  split
  · simp [LArrow.mapBox_id]
  · split
    · simp [LArrow.mapBox_id]
    · have : (a.mapBox φ).boxes = a.boxes.map (Layer.mapBox φ) := rfl
      rw [this, pyGet?_map]
      cases pyGet? a.boxes (s.getD 0) with
      | none => simp
      | some l => simp [LArrow.mapBox_id, Layer.mapBox_dom hφ]

theorem getLastD_map_cod (b : Layer) (bs : List Layer) :
    (((b :: bs).map (Layer.mapBox φ)).getLastD (b.mapBox φ)).cod = ((b :: bs).getLastD b).cod := by
  induction bs generalizing b with
  | nil => simp [List.getLastD, Layer.mapBox_cod hφ]
  | cons c cs ih =>
    have := ih c
    simp [List.getLastD] at this ⊢
    cases cs with
    | nil => simp [Layer.mapBox_cod hφ]
    | cons e es => simpa using this

theorem LArrow.mapBox_slice (a : LArrow) (s t : Option Int) :
    (a.mapBox φ).slice s t = mapOk (LArrow.mapBox φ) (a.slice s t) := by
  unfold LArrow.slice
  have : (a.mapBox φ).boxes = a.boxes.map (Layer.mapBox φ) := rfl
  rw [this, pySlice_map]
  cases h : pySlice a.boxes s t with
  | nil => simpa using LArrow.mapBox_sliceEmpty hφ a s
  | cons b bs =>
    have hl := getLastD_map_cod hφ b bs
    simp only [List.map_cons] at hl ⊢
    rw [hl, Layer.mapBox_dom hφ]
    rfl

/-! ### The adjacent exchange -/

omit hφ in
/-- Relabelling of the four values chosen by lines 57-73. -/
def mapQuad (φ : Box → Box) : Int × Int × Layer × Layer → Int × Int × Layer × Layer
  | (a, b, l0, l1) => (a, b, l0.mapBox φ, l1.mapBox φ)

theorem leftCase_mapBox (off0 off1 : Int) (l0 l1 : Layer) :
    leftCase off0 off1 (l0.mapBox φ) (l1.mapBox φ) = mapQuad φ (leftCase off0 off1 l0 l1) := by
  simp [leftCase, mapQuad, Layer.mapBox, (hφ l0.box).1, (hφ l0.box).2, (hφ l1.box).2]

theorem rightCase_mapBox (off0 off1 : Int) (l0 l1 : Layer) :
    rightCase off0 off1 (l0.mapBox φ) (l1.mapBox φ) = mapQuad φ (rightCase off0 off1 l0 l1) := by
  simp [rightCase, mapQuad, Layer.mapBox, (hφ l0.box).1, (hφ l1.box).1, (hφ l1.box).2]

theorem interchangeChoice_mapBox (left : Bool) (off0 off1 : Int) (l0 l1 : Layer) :
    interchangeChoice left off0 off1 (l0.mapBox φ) (l1.mapBox φ)
      = mapOk (mapQuad φ) (interchangeChoice left off0 off1 l0 l1) := by
  unfold interchangeChoice
  have h0 : (l0.mapBox φ).box.cod = l0.box.cod := (hφ l0.box).2
  have h1 : (l1.mapBox φ).box.dom = l1.box.dom := (hφ l1.box).1
  rw [h0, h1]
  split
  · simp [leftCase_mapBox hφ]
  · split
    · simp [rightCase_mapBox hφ]
    · split <;> simp [leftCase_mapBox hφ]

theorem Diagram.mapBox_splice (d : Diagram) (i : Nat) (off0 off1 : Int) (la lb : Layer) :
    (d.mapBox φ).splice i off0 off1 (la.mapBox φ) (lb.mapBox φ)
      = mapOk (Diagram.mapBox φ) (d.splice i off0 off1 la lb) := by
  unfold Diagram.splice
  have hl : (d.mapBox φ).layers = d.layers.mapBox φ := rfl
  rw [hl, LArrow.mapBox_slice hφ, LArrow.mapBox_slice hφ]
  cases d.layers.slice none (some (i : Int)) with
  | error e => simp
  | ok pre =>
    simp only [mapOk_ok]
    rw [LArrow.mapBox_thenLayer hφ]
    cases pre.thenLayer lb with
    | error e => simp
    | ok a1 =>
      simp only [mapOk_ok]
      rw [LArrow.mapBox_thenLayer hφ]
      cases a1.thenLayer la with
      | error e => simp
      | ok a2 =>
        simp only [mapOk_ok]
        cases d.layers.slice (some ((i + 2 : Nat) : Int)) none with
        | error e => simp
        | ok post =>
          simp only [mapOk_ok]
          rw [LArrow.mapBox_then]
          cases a2.then post with
          | error e => simp
          | ok ls =>
            simp [Diagram.mapBox, Layer.mapBox, pySlice_map]

omit hφ in
theorem getElem?_mapBox_layers (d : Diagram) (i : Nat) :
    (d.mapBox φ).layers.boxes[i]? = (d.layers.boxes[i]?).map (Layer.mapBox φ) := by
  simp [Diagram.mapBox, LArrow.mapBox]

theorem Diagram.mapBox_interchangeAdj (d : Diagram) (i : Nat) (left : Bool) :
    (d.mapBox φ).interchangeAdj i left = mapOk (Diagram.mapBox φ) (d.interchangeAdj i left) := by
  unfold Diagram.interchangeAdj
  have ho : (d.mapBox φ).offsets = d.offsets := rfl
  rw [ho, getElem?_mapBox_layers, getElem?_mapBox_layers]
  cases d.offsets[i]? with
  | none => simp
  | some off0 =>
    cases d.offsets[i+1]? with
    | none => simp
    | some off1 =>
      cases d.layers.boxes[i]? with
      | none => simp
      | some l0 =>
        cases d.layers.boxes[i+1]? with
        | none => simp
        | some l1 =>
          simp only [Option.map_some]
          rw [interchangeChoice_mapBox hφ]
          cases interchangeChoice left off0 off1 l0 l1 with
          | error e => simp
          | ok q =>
            obtain ⟨a, b, la, lb⟩ := q
            simp only [mapOk_ok, mapQuad]
            exact Diagram.mapBox_splice hφ d i a b la lb

theorem mapBox_interchangeDown (left : Bool) (n i : Nat) (d : Diagram) :
    interchangeDown left n i (d.mapBox φ) = mapOk (Diagram.mapBox φ) (interchangeDown left n i d) := by
  induction n generalizing i d with
  | zero => simp [interchangeDown]
  | succ n ih =>
    unfold interchangeDown
    rw [Diagram.mapBox_interchangeAdj hφ]
    cases d.interchangeAdj i left with
    | error e => simp
    | ok d' => simpa using ih (i + 1) d'

theorem mapBox_interchangeUp (left : Bool) (n i : Nat) (d : Diagram) :
    interchangeUp left n i (d.mapBox φ) = mapOk (Diagram.mapBox φ) (interchangeUp left n i d) := by
  induction n generalizing i d with
  | zero => simp [interchangeUp]
  | succ n ih =>
    unfold interchangeUp
    by_cases hi : i = 0
    · simp [hi]
    · simp only [hi, if_false]
      rw [Diagram.mapBox_interchangeAdj hφ]
      cases d.interchangeAdj (i - 1) left with
      | error e => simp
      | ok d' => simpa using ih (i - 1) d'

/-- Interchange commutes with every relabelling of the boxes that keeps their domains and
    codomains: for all diagrams, all `(i, j)`, both preferences. -/
theorem Diagram.mapBox_interchange (d : Diagram) (i j : Int) (left : Bool) :
    (d.mapBox φ).interchange i j left = mapOk (Diagram.mapBox φ) (d.interchange i j left) := by
  unfold Diagram.interchange
  have hb : (d.mapBox φ).boxes.length = d.boxes.length := by simp [Diagram.mapBox]
  rw [hb]
  split
  · simp
  · split
    · simp
    · split
      · exact mapBox_interchangeUp hφ left _ _ d
      · exact mapBox_interchangeDown hφ left _ _ d

/-- The outcome class of a request does not depend on what the boxes are. -/
theorem Diagram.interchange_error_blind (d : Diagram) (i j : Int) (left : Bool) (e : Err) :
    (d.mapBox φ).interchange i j left = .error e ↔ d.interchange i j left = .error e := by
  rw [Diagram.mapBox_interchange hφ]
  cases d.interchange i j left <;> simp

end

end DV
