/-
  Proofs/TkPsCount.lean — C13: `to_tk` never loses (or duplicates) a post-selection.

  For EVERY circuit, inside or outside the fragment of `violation`: if the export succeeds, its
  `post_selection` has exactly one entry per post-selected qubit (`Bra` bit) of the circuit, its
  keys are distinct and they are bits of the exported circuit.  The work is in
  `tk.Circuit.rename_units` (tk.py:71-83, `PS.rename`): a simultaneous renaming whose targets are
  either free or renamed away themselves (the shift of `prepare_bits`, the transposition of a bit
  swap) keeps the number of entries — because the code deletes ALL the old keys BEFORE it writes
  the new ones (with the two statements exchanged the chain 1 -> 2, 2 -> 3 deletes what it has
  just written; seeded change C13-m2).
-/
import Proofs.TkPrepBits

namespace DV.Tk
open DV

/-! ### keys of a post-selection dictionary -/

def PS.keys (ps : PS) : List Nat := ps.map (·.1)

theorem PS.has_iff_mem (ps : PS) (k : Nat) : ps.has k = true ↔ k ∈ ps.keys := by
  simp only [PS.has, PS.keys, List.any_eq_true, List.mem_map, beq_iff_eq]

theorem PS.not_has_iff (ps : PS) (k : Nat) : ps.has k = false ↔ k ∉ ps.keys := by
  rw [← PS.has_iff_mem]; cases ps.has k <;> simp

theorem PS.has_erase (ps : PS) (o k : Nat) : (ps.erase o).has k = (!decide (k = o) && ps.has k) := by
  rw [PS.has_eq_isSome, PS.get_erase, PS.has_eq_isSome]
  by_cases h : k = o <;> simp [h]

theorem PS.erase_of_not_has {ps : PS} {k : Nat} (h : ps.has k = false) : ps.erase k = ps := by
  unfold PS.erase
  apply List.filter_eq_self.mpr
  intro e he
  have hk : k ∉ ps.keys := (PS.not_has_iff ps k).mp h
  have : e.1 ≠ k := fun hh => hk (hh ▸ List.mem_map_of_mem he)
  simpa using this

theorem PS.keys_erase_sublist (ps : PS) (k : Nat) : (ps.erase k).keys.Sublist ps.keys := by
  unfold PS.erase PS.keys
  exact List.Sublist.map _ List.filter_sublist

theorem PS.nodup_erase {ps : PS} (k : Nat) (h : ps.keys.Nodup) : (ps.erase k).keys.Nodup :=
  List.Nodup.sublist (PS.keys_erase_sublist ps k) h

theorem PS.length_erase_of_has {ps : PS} {k : Nat} (hn : ps.keys.Nodup) (h : ps.has k = true) :
    (ps.erase k).length + 1 = ps.length := by
  induction ps with
  | nil => simp [PS.has] at h
  | cons e t ih =>
    simp only [PS.keys, List.map_cons, List.nodup_cons] at hn
    by_cases he : e.1 = k
    · have hk : PS.has t k = false := (PS.not_has_iff t k).mpr (he ▸ hn.1)
      have h1 : PS.erase (e :: t) k = PS.erase t k := by
        simp [PS.erase, he]
      rw [h1, PS.erase_of_not_has hk]; rfl
    · have hb : (e.1 == k) = false := by simpa using he
      have h1 : PS.erase (e :: t) k = e :: PS.erase t k := by
        simp [PS.erase, hb]
      have ht : PS.has t k = true := by
        rw [PS.has_cons] at h; simpa [he] using h
      rw [h1, List.length_cons, List.length_cons, ih hn.2 ht]

theorem PS.set_of_not_has {ps : PS} {k : Nat} (v : Nat) (h : ps.has k = false) :
    ps.set k v = ps ++ [(k, v)] := by
  simp [PS.set, h]

theorem PS.keys_set_of_has {ps : PS} {k : Nat} (v : Nat) (h : ps.has k = true) :
    (ps.set k v).keys = ps.keys := by
  simp only [PS.set, h, if_true, PS.keys, List.map_map]
  apply List.map_congr_left
  intro e _
  show (if (e.1 == k) = true then (k, v) else e).1 = e.1
  by_cases he : e.1 = k
  · simp [he]
  · have hb : (e.1 == k) = false := by simpa using he
    simp [hb]

theorem PS.length_set_of_has {ps : PS} {k : Nat} (v : Nat) (h : ps.has k = true) :
    (ps.set k v).length = ps.length := by
  simp [PS.set, h]

theorem PS.nodup_set {ps : PS} (k v : Nat) (h : ps.keys.Nodup) : (ps.set k v).keys.Nodup := by
  cases hk : ps.has k with
  | true => rw [PS.keys_set_of_has v hk]; exact h
  | false =>
    rw [PS.set_of_not_has v hk]
    have hn : k ∉ ps.keys := (PS.not_has_iff ps k).mp hk
    simp only [PS.keys, List.map_append, List.map_cons, List.map_nil]
    unfold List.Nodup
    rw [List.pairwise_append]
    refine ⟨h, by simp, ?_⟩
    intro a ha b hb
    simp only [List.mem_singleton] at hb
    subst hb
    intro hab
    exact hn (hab ▸ ha)

/-! ### the two loops of `rename_units` -/

theorem PS.nodup_foldl_erase (olds : List (Nat × Nat)) (p : PS) (h : p.keys.Nodup) :
    (olds.foldl (fun p r => p.erase r.1) p).keys.Nodup := by
  induction olds generalizing p with
  | nil => exact h
  | cons r t ih => exact ih _ (PS.nodup_erase r.1 h)

theorem PS.has_foldl_erase (olds : List (Nat × Nat)) (p : PS) (k : Nat) :
    (olds.foldl (fun p r => p.erase r.1) p).has k = true ↔ p.has k = true ∧ k ∉ olds.map (·.1) := by
  rw [PS.has_eq_isSome, PS.get_foldl_erase, PS.has_eq_isSome]
  by_cases h : k ∈ olds.map (·.1) <;> simp [h]

theorem PS.length_foldl_erase (olds : List (Nat × Nat)) (p : PS) (hn : p.keys.Nodup)
    (ho : (olds.map (·.1)).Nodup) (hh : ∀ r ∈ olds, p.has r.1 = true) :
    (olds.foldl (fun p r => p.erase r.1) p).length + olds.length = p.length := by
  induction olds generalizing p with
  | nil => rfl
  | cons r t ih =>
    simp only [List.map_cons, List.nodup_cons] at ho
    have h1 := PS.length_erase_of_has hn (hh r (List.mem_cons_self ..))
    have h2 := ih (p.erase r.1) (PS.nodup_erase r.1 hn) ho.2 (by
      intro r' hr'
      rw [PS.has_erase, hh r' (List.mem_cons_of_mem _ hr')]
      have : r'.1 ≠ r.1 := fun e => ho.1 (e ▸ List.mem_map_of_mem hr')
      simp [this])
    simp only [List.foldl_cons, List.length_cons]
    omega

theorem PS.nodup_foldl_set (news : List (Nat × Nat)) (p : PS) (h : p.keys.Nodup) :
    (news.foldl (fun p e => p.set e.1 e.2) p).keys.Nodup := by
  induction news generalizing p with
  | nil => exact h
  | cons e t ih => exact ih _ (PS.nodup_set e.1 e.2 h)

theorem PS.has_foldl_set (news : List (Nat × Nat)) (p : PS) (k : Nat)
    (h : (news.foldl (fun p e => p.set e.1 e.2) p).has k = true) :
    k ∈ news.map (·.1) ∨ p.has k = true := by
  induction news generalizing p with
  | nil => exact .inr h
  | cons e t ih =>
    rcases ih _ h with h1 | h1
    · exact .inl (List.mem_cons_of_mem _ h1)
    · rw [PS.has_set] at h1
      by_cases hk : k = e.1
      · exact .inl (by simp [hk])
      · exact .inr (by simpa [hk] using h1)

theorem PS.length_foldl_set (news : List (Nat × Nat)) (p : PS)
    (hn : (news.map (·.1)).Nodup) (hh : ∀ e ∈ news, p.has e.1 = false) :
    (news.foldl (fun p e => p.set e.1 e.2) p).length = p.length + news.length := by
  induction news generalizing p with
  | nil => rfl
  | cons e t ih =>
    simp only [List.map_cons, List.nodup_cons] at hn
    have h1 : (p.set e.1 e.2).length = p.length + 1 := by
      rw [PS.set_of_not_has _ (hh e (List.mem_cons_self ..))]; simp
    have h2 := ih (p.set e.1 e.2) hn.2 (by
      intro e' he'
      rw [PS.has_set, hh e' (List.mem_cons_of_mem _ he')]
      have : e'.1 ≠ e.1 := fun x => hn.1 (x ▸ List.mem_map_of_mem he')
      simp [this])
    simp only [List.foldl_cons, List.length_cons]
    omega

/-! ### `rename_units` on the post-selection -/

theorem PS.nodup_rename (ps : PS) (ren : List (Nat × Nat)) (h : ps.keys.Nodup) :
    (ps.rename ren).keys.Nodup := by
  unfold PS.rename
  exact PS.nodup_foldl_set _ _ (PS.nodup_foldl_erase _ _ h)

/-- A key of the renamed dictionary is a new name or an old key. -/
theorem PS.has_rename_sub (ps : PS) (ren : List (Nat × Nat)) (k : Nat)
    (h : (ps.rename ren).has k = true) : k ∈ ren.map (·.2) ∨ ps.has k = true := by
  unfold PS.rename at h
  rcases PS.has_foldl_set _ _ k h with h1 | h1
  · left
    simp only [List.map_map, List.mem_map, Function.comp] at h1
    obtain ⟨r, hr, rfl⟩ := h1
    exact List.mem_map_of_mem ((List.mem_filter.mp hr).1)
  · exact .inr ((PS.has_foldl_erase _ _ k).mp h1).1

/-- The number of post-selections survives a renaming with distinct sources and distinct targets
    each of whose targets is free or is itself renamed away. -/
theorem PS.length_rename {ps : PS} {ren : List (Nat × Nat)} (hn : ps.keys.Nodup)
    (h1 : (ren.map (·.1)).Nodup) (h2 : (ren.map (·.2)).Nodup)
    (hc : ∀ r ∈ ren, ps.has r.2 = true → r.2 ∈ ren.map (·.1)) :
    (ps.rename ren).length = ps.length := by
  unfold PS.rename
  have hsub : (ren.filter (fun r => ps.has r.1)).Sublist ren := List.filter_sublist
  have hs1 : ((ren.filter (fun r => ps.has r.1)).map (·.1)).Nodup := List.Nodup.sublist (hsub.map _) h1
  have hs2 : ((ren.filter (fun r => ps.has r.1)).map (·.2)).Nodup := List.Nodup.sublist (hsub.map _) h2
  have he := PS.length_foldl_erase (ren.filter (fun r => ps.has r.1)) ps hn hs1 (by
    intro r hr; exact (List.mem_filter.mp hr).2)
  have hs := PS.length_foldl_set
    ((ren.filter (fun r => ps.has r.1)).map (fun r => (r.2, (ps.get r.1).getD 0)))
    ((ren.filter (fun r => ps.has r.1)).foldl (fun p r => p.erase r.1) ps)
    (by rw [List.map_map]; exact hs2)
    (by
      intro e he'
      obtain ⟨r, hr, rfl⟩ := List.mem_map.mp he'
      cases hx : PS.has (List.foldl (fun p r => p.erase r.1) ps (ren.filter (fun r => ps.has r.1))) r.2 with
      | false => rfl
      | true =>
        exfalso
        obtain ⟨hp, hnot⟩ := (PS.has_foldl_erase _ _ _).mp hx
        obtain ⟨r', hr', hr'e⟩ := List.mem_map.mp (hc r ((List.mem_filter.mp hr).1) hp)
        apply hnot
        refine List.mem_map.mpr ⟨r', List.mem_filter.mpr ⟨hr', ?_⟩, hr'e⟩
        simp only [hr'e]; exact hp)
  rw [hs, List.length_map]
  omega

/-- `rename_units({old: new, new: old})` with `old == new`. -/
theorem PS.length_rename_same {ps : PS} (a : Nat) (hn : ps.keys.Nodup) :
    (ps.rename [(a, a), (a, a)]).length = ps.length := by
  cases h : ps.has a with
  | false => rw [PS.rename_of_not_has]; intro r hr; simp at hr; rcases hr with rfl | rfl <;> exact h
  | true =>
    have h0 : (ps.erase a).has a = false := by rw [PS.has_erase]; simp
    simp only [PS.rename, List.filter_cons, h, if_true, List.filter_nil, List.map_cons, List.map_nil,
      List.foldl_cons, List.foldl_nil]
    rw [PS.erase_of_not_has h0]
    have h1 : ((ps.erase a).set a ((ps.get a).getD 0)).has a = true := by rw [PS.has_set]; simp
    rw [PS.length_set_of_has _ h1, PS.set_of_not_has _ h0, List.length_append]
    have := PS.length_erase_of_has hn h
    simp only [List.length_cons, List.length_nil]
    omega

/-! ### the invariant along the loop of `to_tk` -/

structure PsInv (st : St) : Prop where
  nodup : st.ps.keys.Nodup
  lt : ∀ k, st.ps.has k = true → k < st.nb
  bits : ∀ r ∈ st.bits, r < st.nb

/-- Post-selected qubits of a box / of a list of layers. -/
def braBitsBox : TBox → Nat
  | .bra bs => bs.length
  | _ => 0

def braBits : Layers → Nat
  | [] => 0
  | (b, _) :: rest => braBitsBox b + braBits rest

theorem braBits_append (a b : Layers) : braBits (a ++ b) = braBits a + braBits b := by
  induction a with
  | nil => simp [braBits]
  | cons x t ih => obtain ⟨bx, o⟩ := x; simp [braBits, ih]; omega

theorem startOf_le {regs : List Nat} {total off start : Nat} (hlt : ∀ r ∈ regs, r < total)
    (h : startOf regs total off = .ok start) : start ≤ total := by
  unfold startOf at h
  split at h
  · cases h; exact Nat.le_refl _
  · split at h
    · cases h; exact Nat.zero_le _
    · split at h
      · rename_i r hr
        cases h
        exact hlt r (List.mem_of_getElem? hr)
      · cases h

theorem shiftPairs_fst_nodup (start n nb : Nat) : ((shiftPairs start n nb).map (·.1)).Nodup := by
  have : (shiftPairs start n nb).map (·.1) = List.range' start (nb - start) := by
    simp [shiftPairs, List.map_map, Function.comp_def]
  rw [this]
  exact List.nodup_range' (s := start) (n := nb - start) (step := 1)

theorem shiftPairs_snd_nodup (start n nb : Nat) : ((shiftPairs start n nb).map (·.2)).Nodup := by
  have : (shiftPairs start n nb).map (·.2) = (List.range' start (nb - start)).map (· + n) := by
    simp [shiftPairs, List.map_map, Function.comp_def]
  rw [this]
  unfold List.Nodup
  rw [List.pairwise_map]
  refine List.Pairwise.imp ?_ (List.nodup_range' (s := start) (n := nb - start) (step := 1))
  intro a b hab
  show a + n ≠ b + n
  omega

theorem prepareBits_psInv {st st' : St} {n lb : Nat} (h : prepareBits st n lb = .ok st') (inv : PsInv st) :
    PsInv st' ∧ st'.ps.length = st.ps.length := by
  unfold prepareBits at h
  split at h
  · cases h
  · rename_i start hstart
    have hle := startOf_le inv.bits hstart
    unfold prepareBitsAt at h
    split at h
    · cases h
    · cases h
      refine ⟨⟨PS.nodup_rename _ _ inv.nodup, ?_, ?_⟩, ?_⟩
      · intro k hk
        show k < st.nb + n
        rcases PS.has_rename_sub _ _ k hk with h1 | h1
        · obtain ⟨r, hr, rfl⟩ := List.mem_map.mp h1
          have := mem_shiftPairs.mp hr
          omega
        · have := inv.lt k h1; omega
      · exact insertRegs_lt inv.bits hle
      · apply PS.length_rename inv.nodup (shiftPairs_fst_nodup ..) (shiftPairs_snd_nodup ..)
        intro r hr hh
        have hm := mem_shiftPairs.mp hr
        have := inv.lt _ hh
        exact List.mem_map.mpr ⟨(r.2, r.2 + n), mem_shiftPairs.mpr ⟨by simp only; omega, this, rfl⟩, rfl⟩

theorem overrideLoop_ps {st st' : St} {lq lb : Nat} (js : List Nat) (h : overrideLoop st lq lb js = .ok st') :
    st'.ps = st.ps ∧ st'.nb = st.nb ∧ st'.bits = st.bits := by
  induction js generalizing st with
  | nil => cases h; exact ⟨rfl, rfl, rfl⟩
  | cons j t ih =>
    unfold overrideLoop at h
    split at h
    · have := ih h
      exact this
    · cases h

theorem PsInv.measure_step {st : St} (inv : PsInv st) (pp' : PP) (cmds' : List Cmd) (k : Nat) :
    PsInv { st with nb := st.nb + 1, pp := pp', cmds := cmds',
                    bits := st.bits.take k ++ [st.nb] ++ st.bits.drop k } := by
  refine ⟨inv.nodup, fun k hk => Nat.lt_succ_of_lt (inv.lt k hk), ?_⟩
  intro r hr
  simp only [List.mem_append, List.mem_singleton] at hr
  show r < st.nb + 1
  rcases hr with (hr | hr) | hr
  · have := inv.bits r (List.mem_of_mem_take hr); omega
  · omega
  · have := inv.bits r (List.mem_of_mem_drop hr); omega

theorem PsInv.bra_step {st : St} (inv : PsInv st) (cmds' : List Cmd) (v : Nat) :
    PsInv { st with nb := st.nb + 1, cmds := cmds', ps := st.ps.set st.nb v } ∧
      (st.ps.set st.nb v).length = st.ps.length + 1 := by
  have hfree : st.ps.has st.nb = false := by
    cases hx : st.ps.has st.nb with
    | false => rfl
    | true => exact absurd (inv.lt _ hx) (Nat.lt_irrefl _)
  refine ⟨⟨PS.nodup_set _ _ inv.nodup, ?_, fun r hr => Nat.lt_succ_of_lt (inv.bits r hr)⟩, ?_⟩
  · intro k hk
    show k < st.nb + 1
    have hk' : (st.ps.set st.nb v).has k = true := hk
    rw [PS.has_set] at hk'
    by_cases hkk : k = st.nb
    · omega
    · have := inv.lt k (by simpa [hkk] using hk'); omega
  · rw [PS.set_of_not_has _ hfree, List.length_append]; rfl

theorem measureLoop_psInv {st st' : St} {lq lb : Nat} (js : List Nat) (h : measureLoop st lq lb js = .ok st')
    (inv : PsInv st) : PsInv st' ∧ st'.ps = st.ps := by
  induction js generalizing st with
  | nil => cases h; exact ⟨inv, rfl⟩
  | cons j t ih =>
    unfold measureLoop at h
    split at h
    · cases h
    · rename_i st1 h1
      unfold measureOne at h1
      split at h1
      · cases h1
      · split at h1
        · cases h1
        · cases h1
          have := ih h (inv.measure_step _ _ _)
          exact this

theorem braLoop_psInv {st st' : St} {lq : Nat} (js : List (Nat × Nat)) (h : braLoop st lq js = .ok st')
    (inv : PsInv st) : PsInv st' ∧ st'.ps.length = st.ps.length + js.length ∧ st'.bits = st.bits := by
  induction js generalizing st with
  | nil => cases h; exact ⟨inv, rfl, rfl⟩
  | cons jv t ih =>
    unfold braLoop at h
    split at h
    · cases h
    · rename_i st1 h1
      unfold braOne at h1
      split at h1
      · cases h1
      · cases h1
        obtain ⟨inv1, len1⟩ := inv.bra_step (st.cmds ++ [⟨"Measure", none, [‹Nat›], [st.nb]⟩]) jv.2
        obtain ⟨i2, l2, b2⟩ := ih h inv1
        refine ⟨i2, ?_, b2⟩
        rw [l2]
        show (st.ps.set st.nb jv.2).length + t.length = st.ps.length + (t.length + 1)
        rw [len1]
        omega

theorem swapBits_psInv {st st' : St} {lb : Nat} (h : swapBits st lb = .ok st') (inv : PsInv st) :
    PsInv st' ∧ st'.ps.length = st.ps.length := by
  unfold swapBits at h
  split at h
  · split at h
    · rename_i a b ha hb
      cases h
      have hla : a < st.nb := inv.bits a (List.mem_of_getElem? ha)
      have hlb : b < st.nb := inv.bits b (List.mem_of_getElem? hb)
      refine ⟨⟨PS.nodup_rename _ _ inv.nodup, ?_, inv.bits⟩, ?_⟩
      · intro k hk
        show k < st.nb
        rcases PS.has_rename_sub _ _ k hk with h1 | h1
        · simp only [List.map_cons, List.map_nil, List.mem_cons, List.not_mem_nil, or_false] at h1
          rcases h1 with rfl | rfl <;> assumption
        · exact inv.lt k h1
      · show (st.ps.rename [(a, b), (b, a)]).length = st.ps.length
        by_cases hab : a = b
        · subst hab; exact PS.length_rename_same a inv.nodup
        · apply PS.length_rename inv.nodup
          · simp [hab]
          · simp; exact fun e => hab e.symm
          · intro r hr _
            simp only [List.mem_cons, List.not_mem_nil, or_false] at hr
            rcases hr with rfl | rfl <;> simp
    · cases h
  · split at h
    · cases h
    · cases h; exact ⟨⟨inv.nodup, inv.lt, inv.bits⟩, rfl⟩

theorem addGate_ps {st st' : St} {box : TBox} {lq : Nat} (h : addGate st box lq = .ok st') :
    st'.ps = st.ps ∧ st'.nb = st.nb ∧ st'.bits = st.bits := by
  unfold addGate at h
  split at h
  · cases h
  · split at h
    · cases h
    · cases h; exact ⟨rfl, rfl, rfl⟩

theorem classical_ps {st st' : St} {box : PBox} {lb : Nat} (h : classical st box lb = .ok st') :
    st'.ps = st.ps ∧ st'.nb = st.nb ∧ st'.bits = st.bits := by
  unfold classical at h
  split at h
  · cases h
  · cases h; exact ⟨rfl, rfl, rfl⟩

theorem PsInv.of_eq {st st' : St} (inv : PsInv st) (h : st'.ps = st.ps ∧ st'.nb = st.nb ∧ st'.bits = st.bits) :
    PsInv st' ∧ st'.ps.length = st.ps.length + 0 := by
  obtain ⟨h1, h2, h3⟩ := h
  refine ⟨⟨h1 ▸ inv.nodup, ?_, ?_⟩, by rw [h1]; rfl⟩
  · intro k hk; rw [h2]; exact inv.lt k (h1 ▸ hk)
  · intro r hr; rw [h2]; exact inv.bits r (h3 ▸ hr)

/-- One iteration of the loop: the invariant is kept and a `Bra` adds one entry per bit. -/
theorem step_psInv {st st' : St} {lq lb : Nat} {box : TBox} (h : step st lq lb box = .ok st')
    (inv : PsInv st) : PsInv st' ∧ st'.ps.length = st.ps.length + braBitsBox box := by
  cases box with
  | ket bs =>
    simp only [step, prepareQubits] at h
    split at h
    · cases h
    · cases h; exact inv.of_eq ⟨rfl, rfl, rfl⟩
  | bits bs d =>
    cases d with
    | false =>
      simp only [step] at h
      split at h
      · cases h
      · exact prepareBits_psInv h inv
    | true =>
      simp only [step] at h
      exact inv.of_eq (classical_ps h)
  | measure n de ov =>
    simp only [step, measureQubits] at h
    split at h
    · split at h
      · cases h
      · rename_i st1 h1
        have e := overrideLoop_ps _ h1
        cases h
        split
        · exact inv.of_eq e
        · exact inv.of_eq e
    · split at h
      · cases h
      · rename_i st1 h1
        obtain ⟨i1, e1⟩ := measureLoop_psInv _ h1 inv
        cases h
        split
        · exact ⟨⟨i1.nodup, i1.lt, i1.bits⟩, by show st1.ps.length = st.ps.length + 0; rw [e1]; rfl⟩
        · exact ⟨i1, by show st1.ps.length = st.ps.length + 0; rw [e1]; rfl⟩
  | bra bs =>
    simp only [step, braQubits] at h
    split at h
    · cases h
    · rename_i st1 h1
      obtain ⟨i1, l1, _⟩ := braLoop_psInv _ h1 inv
      cases h
      refine ⟨⟨i1.nodup, i1.lt, i1.bits⟩, ?_⟩
      show st1.ps.length = st.ps.length + bs.length
      rw [l1]; simp
  | discard t =>
    simp only [step] at h
    cases h
    refine ⟨⟨inv.nodup, inv.lt, ?_⟩, rfl⟩
    intro r hr
    exact inv.bits r (mem_removeAt (by rw [← removeRegs_eq]; exact hr))
  | swap l r =>
    cases l <;> cases r <;> simp only [step] at h
    · unfold swapQubits at h
      split at h
      · cases h; exact inv.of_eq ⟨rfl, rfl, rfl⟩
      · cases h
    · cases h; exact inv.of_eq ⟨rfl, rfl, rfl⟩
    · cases h; exact inv.of_eq ⟨rfl, rfl, rfl⟩
    · exact swapBits_psInv h inv
  | scalar k m =>
    simp only [step] at h
    cases h; exact inv.of_eq ⟨rfl, rfl, rfl⟩
  | cgate name i o =>
    simp only [step] at h
    exact inv.of_eq (classical_ps h)
  | rot cls num =>
    simp only [step] at h
    exact inv.of_eq (addGate_ps h)
  | gate name n =>
    simp only [step] at h
    exact inv.of_eq (addGate_ps h)
  | other d c =>
    simp only [step] at h
    cases h

theorem run_psInv (layers : Layers) : ∀ {st st' : St} {cur : List W},
    run st cur layers = .ok st' → PsInv st → PsInv st' ∧ st'.ps.length = st.ps.length + braBits layers := by
  induction layers with
  | nil => intro st st' cur h inv; cases h; exact ⟨inv, rfl⟩
  | cons l rest ih =>
    intro st st' cur h inv
    obtain ⟨b, off⟩ := l
    unfold run at h
    split at h
    · cases h
    · rename_i st1 h1
      obtain ⟨i1, l1⟩ := step_psInv h1 inv
      obtain ⟨i2, l2⟩ := ih h i1
      refine ⟨i2, ?_⟩
      rw [l2, l1]; simp only [braBits]; omega

/-! ### `init_and_discard` and `remove_ket1` add no post-selection -/

theorem braBits_initLayers (t : List W) (i : Nat) : braBits (initLayers t i) = 0 := by
  induction t generalizing i with
  | nil => rfl
  | cons w t ih => cases w <;> simp [initLayers, braBits, braBitsBox, ih]

theorem braBits_discardLayers (t : List W) (i : Nat) : braBits (discardLayers t i) = 0 := by
  induction t generalizing i with
  | nil => rfl
  | cons w t ih => cases w <;> simp [discardLayers, braBits, braBitsBox, ih]

theorem braBits_ketXs (bs : List Nat) (off : Nat) : braBits (ketXs bs off) = 0 := by
  induction bs generalizing off with
  | nil => rfl
  | cons x t ih =>
    simp only [ketXs, braBits_append, ih]
    split <;> simp [braBits, braBitsBox]

theorem braBits_removeKet1 (ls : Layers) : braBits (removeKet1 ls) = braBits ls := by
  induction ls with
  | nil => rfl
  | cons l rest ih =>
    obtain ⟨b, off⟩ := l
    cases b <;> simp [removeKet1, braBits, braBitsBox, braBits_append, braBits_ketXs, ih]

theorem braBits_prep (c : Circ) : braBits (prep c) = braBits c.layers := by
  unfold prep initAndDiscard
  rw [braBits_removeKet1, braBits_append, braBits_append, braBits_initLayers]
  split <;> simp [braBits, braBits_discardLayers]

/-- Every successful export has exactly one post-selected bit per post-selected qubit of the
    circuit, under distinct keys that are bits of the exported circuit. -/
theorem toTk_ps_count {c : Circ} {st : St} (h : toTk c = .ok st) :
    st.ps.length = braBits c.layers ∧ (st.ps.map (·.1)).Nodup ∧ ∀ e ∈ st.ps, e.1 < st.nb := by
  have inv0 : PsInv ({} : St) := ⟨by simp [PS.keys], by intro k hk; simp [PS.has] at hk, by intro r hr; cases hr⟩
  obtain ⟨inv, hl⟩ := run_psInv (prep c) h inv0
  refine ⟨?_, inv.nodup, ?_⟩
  · rw [hl, braBits_prep]; simp
  · intro e he
    exact inv.lt e.1 ((PS.has_iff_mem _ _).mpr (List.mem_map_of_mem he))

end DV.Tk
