/-
  Proofs/UnsnakeMoves.lean — C07: the four obstruction-moving loops of `unsnake`
  (rewriting.py:404-428), each with its in-place index updates, never raise, keep the snake
  invariant, and yield a chain of legal single interchanges.
-/
import Proofs.UnsnakeClassify
import Proofs.Snake

namespace DV

/-! ### Chains of accepted steps -/

/-- Every consecutive pair is one legal interchange or one yank. -/
def StepChain : Diagram → List Diagram → Prop
  | _, [] => True
  | d, s :: ss => (istep d s || ystep d s) = true ∧ StepChain s ss

theorem lastOr_append2 (d : Diagram) (a b : List Diagram) :
    lastOr d (a ++ b) = lastOr (lastOr d a) b := by
  induction a generalizing d with
  | nil => rfl
  | cons x xs ih => simp only [List.cons_append, lastOr]; exact ih x

theorem StepChain.append {d : Diagram} {a b : List Diagram} (ha : StepChain d a)
    (hb : StepChain (lastOr d a) b) : StepChain d (a ++ b) := by
  induction a generalizing d with
  | nil => exact hb
  | cons x xs ih => exact ⟨ha.1, ih ha.2 hb⟩

theorem StepChain.check {d : Diagram} {steps : List Diagram} (left : Bool) (k : Nat)
    (h : StepChain d steps) : checkSnakeTrace left d steps k = none := by
  induction steps generalizing d k with
  | nil => rfl
  | cons s ss ih =>
    simp only [checkSnakeTrace]
    have : sstep left d s = true := by
      unfold sstep; rw [h.1]; rfl
    rw [if_pos this]
    exact ih (k+1) h.2

theorem istep_of {d d' : Diagram} {i j : Nat}
    (h : d.interchange (i : Int) (j : Int) false = .ok d') (hi : i < d.boxes.length)
    (hj : j < d.boxes.length) (hne : i ≠ j) : istep d d' = true := by
  unfold istep
  refine List.any_eq_true.mpr ⟨i, List.mem_range.mpr hi, ?_⟩
  refine List.any_eq_true.mpr ⟨j, List.mem_range.mpr hj, ?_⟩
  simp [h, hne]

/-- Every consecutive pair is one legal interchange. -/
def IChain : Diagram → List Diagram → Prop
  | _, [] => True
  | d, s :: ss => istep d s = true ∧ IChain s ss

theorem IChain.stepChain {d : Diagram} {a : List Diagram} (h : IChain d a) : StepChain d a := by
  induction a generalizing d with
  | nil => trivial
  | cons x xs ih => exact ⟨by rw [h.1]; rfl, ih h.2⟩

theorem IChain.append {d : Diagram} {a b : List Diagram} (ha : IChain d a)
    (hb : IChain (lastOr d a) b) : IChain d (a ++ b) := by
  induction a generalizing d with
  | nil => exact hb
  | cons x xs ih => exact ⟨ha.1, ih ha.2 hb⟩

/-! ### Index renumbering on ranges -/

theorem map_bumpUp_range (a n l : Nat) (h : a + n ≤ l) :
    (List.range' a n).map (fun r => if r < l then r + 1 else r) = List.range' (a + 1) n := by
  induction n generalizing a with
  | zero => rfl
  | succ n ih =>
    simp only [List.range'_succ, List.map_cons]
    rw [if_pos (by omega), ih (a+1) (by omega)]

theorem map_bumpUp_id (xs : List Nat) (l : Nat) (h : ∀ x ∈ xs, l < x) :
    xs.map (fun r => if r < l then r + 1 else r) = xs := by
  induction xs with
  | nil => rfl
  | cons x xs ih =>
    have := h x (by simp)
    simp only [List.map_cons]
    rw [if_neg (by omega), ih (fun z hz => h z (by simp [hz]))]

theorem map_bumpDown_range (a n l : Nat) (h : l ≤ a) :
    (List.range' (a + 1) n).map (fun r => if r > l then r - 1 else r) = List.range' a n := by
  induction n generalizing a with
  | zero => rfl
  | succ n ih =>
    simp only [List.range'_succ, List.map_cons]
    rw [if_pos (by omega), ih (a+1) (by omega)]
    simp

theorem map_bumpDown_id (xs : List Nat) (l : Nat) (h : ∀ x ∈ xs, x < l) :
    xs.map (fun r => if r > l then r - 1 else r) = xs := by
  induction xs with
  | nil => rfl
  | cons x xs ih =>
    have := h x (by simp)
    simp only [List.map_cons]
    rw [if_neg (by omega), ih (fun z hz => h z (by simp [hz]))]

/-! ### Left snake, first loop: left obstructions move up above the cap (lines 405-411) -/

theorem moveLeftUp (lo : List Nat) : ∀ {d : Diagram} {P M S : List (Box × Int)}
    {capI cupI : Box × Int} {ro : List Nat} {acc : List Diagram} {t j' : Int},
    d.WF → d.items = P ++ capI :: (M ++ cupI :: S) → t = (P.length : Int) →
    classify (P.length + 1) capI.2 M = some (j', lo, ro) →
    ∃ d1 P1 capI1 M1 ro1 acc1,
      moveObstructions (fun box r => if r < box then r + 1 else r) 1 lo d t ro acc
        = .ok (d1, (P1.length : Int), ro1, acc ++ acc1) ∧
      d1.WF ∧ d1.dom = d.dom ∧ d1.cod = d.cod ∧
      d1.items = P1 ++ capI1 :: (M1 ++ cupI :: S) ∧ capI1.1 = capI.1 ∧
      classify (P1.length + 1) capI1.2 M1 = some (j', [], ro1) ∧
      P1.length + M1.length = P.length + M.length ∧ IChain d acc1 ∧ lastOr d acc1 = d1 := by
  induction lo with
  | nil =>
    intro d P M S capI cupI ro acc t j' hd hit ht hcl
    subst ht
    exact ⟨d, P, capI, M, ro, [], by simp [moveObstructions], hd, rfl, rfl, hit, rfl, hcl, rfl,
      trivial, rfl⟩
  | cons l lo ih =>
    intro d P M S capI cupI ro acc t j' hd hit ht hcl
    obtain ⟨Rs, L, M', ro2, eM, el, hRs, hL, hcl2, ero⟩ := classify_first_left hcl
    subst eM
    subst ht
    have hit' : d.items = P ++ (capI :: Rs) ++ L :: (M' ++ cupI :: S) := by rw [hit]; simp
    have hcond : ∀ x ∈ capI :: Rs, x.2 ≥ L.2 + L.1.dom.length := by
      intro x hx
      rcases List.mem_cons.mp hx with rfl | hx
      · omega
      · have := hRs x hx; omega
    obtain ⟨d', hd', w', dom', cod', it'⟩ := Diagram.interchange_up_left hd hit' hcond
    have el' : P.length + (capI :: Rs).length = l := by simp only [List.length_cons]; omega
    rw [el'] at hd'
    have hlen : d.boxes.length = P.length + 1 + (Rs.length + 1 + M'.length) + 1 + S.length := by
      rw [← Diagram.items_length hd, hit]; simp; omega
    -- the state after the move
    have it2 : d'.items = (P ++ [L]) ++ shiftItem ((L.1.cod.length : Int) - L.1.dom.length) capI ::
        ((Rs.map (shiftItem ((L.1.cod.length : Int) - L.1.dom.length)) ++ M') ++ cupI :: S) := by
      rw [it']; simp
    have hbnd := (classify_bounds hcl2).2
    have hcl' : classify ((P ++ [L]).length + 1)
        (shiftItem ((L.1.cod.length : Int) - L.1.dom.length) capI).2
        (Rs.map (shiftItem ((L.1.cod.length : Int) - L.1.dom.length)) ++ M')
        = some (j', lo, ro.map (fun r => if r < l then r + 1 else r)) := by
      rw [classify_append]
      have hr : ∀ x ∈ Rs.map (shiftItem ((L.1.cod.length : Int) - L.1.dom.length)),
          (shiftItem ((L.1.cod.length : Int) - L.1.dom.length) capI).2 < x.2 := by
        intro x hx
        obtain ⟨z, hz, rfl⟩ := List.mem_map.mp hx
        have := hRs z hz
        simp only [shiftItem]; omega
      rw [classify_all_right hr]
      simp only [List.length_map, List.length_append, List.length_cons, List.length_nil]
      have e1 : P.length + (0 + 1) + 1 + Rs.length = l + 1 := by omega
      have e2 : (shiftItem ((L.1.cod.length : Int) - L.1.dom.length) capI).2
          = capI.2 + ((L.1.cod.length : Int) - L.1.dom.length) := rfl
      rw [e1, e2, hcl2]
      simp only [List.nil_append, Option.some.injEq, Prod.mk.injEq, true_and]
      rw [ero, List.map_append, map_bumpUp_range _ _ _ (by omega),
        map_bumpUp_id _ _ (fun z hz => by have := hbnd z hz; omega)]
    have ht' : (P.length : Int) + 1 = ((P ++ [L]).length : Int) := by
      simp
    obtain ⟨d1, P1, capI1, M1, ro1, acc1, hmv, w1, dom1, cod1, it1, hc1, hcl1, hl1, hch1, hla1⟩ :=
      ih (acc := acc ++ [d']) w' it2 ht' hcl'
    refine ⟨d1, P1, capI1, M1, ro1, d' :: acc1, ?_, w1, dom1.trans dom', cod1.trans cod', it1,
      hc1, hcl1, ?_, ⟨?_, hch1⟩, hla1⟩
    · simp only [moveObstructions]
      rw [hd']
      dsimp only
      rw [hmv]
      simp
    · rw [hl1]; simp only [List.length_append, List.length_cons, List.length_nil, List.length_map]
      omega
    · exact istep_of hd' (by omega) (by omega) (by omega)

/-! ### Left snake, second loop: right obstructions move down below the cup (lines 412-415) -/

theorem moveRightDown (n : Nat) : ∀ {d : Diagram} {P M S : List (Box × Int)}
    {capI cupI : Box × Int} {acc : List Diagram} {t : Int},
    M.length = n → d.WF → d.items = P ++ capI :: (M ++ cupI :: S) →
    (∀ x ∈ M, x.2 ≥ cupI.2 + cupI.1.dom.length) → t = ((P.length + 1 + n : Nat) : Int) →
    ∃ d2 S2 ro' acc2,
      moveObstructions (fun _ r => r) (-1) (List.range' (P.length + 1) n).reverse d t [] acc
        = .ok (d2, (P.length : Int) + 1, ro', acc ++ acc2) ∧
      d2.WF ∧ d2.dom = d.dom ∧ d2.cod = d.cod ∧ d2.items = P ++ capI :: cupI :: S2 ∧
      S2.length = S.length + n ∧ IChain d acc2 ∧ lastOr d acc2 = d2 := by
  induction n with
  | zero =>
    intro d P M S capI cupI acc t hn hd hit _ ht
    have : M = [] := List.eq_nil_of_length_eq_zero hn
    subst this
    subst ht
    refine ⟨d, S, [], [], ?_, hd, rfl, rfl, by simpa using hit, rfl, trivial, rfl⟩
    simp [moveObstructions]
  | succ n ih =>
    intro d P M S capI cupI acc t hn hd hit hM ht
    subst ht
    obtain ⟨M0, R, rfl⟩ : ∃ M0 x, M = M0 ++ [x] := by
      have hne : M ≠ [] := by intro e; rw [e] at hn; simp at hn
      exact ⟨M.dropLast, M.getLast hne, (List.dropLast_concat_getLast hne).symm⟩
    have hn0 : M0.length = n := by simpa using hn
    have hR := hM R (by simp)
    have hsw : swapItems R cupI = some (cupI, (R.1, R.2 - cupI.1.dom.length + cupI.1.cod.length)) := by
      unfold swapItems; rw [if_pos hR]
    have hit' : d.items = (P ++ capI :: M0) ++ R :: cupI :: S := by rw [hit]; simp
    obtain ⟨d', hd', w', dom', cod', it'⟩ := Diagram.interchange_adj_down hd hit' hsw
    have eP : (P ++ capI :: M0).length = P.length + 1 + n := by simp [hn0]; omega
    have hlen : d.boxes.length = P.length + 1 + n + 2 + S.length := by
      rw [← Diagram.items_length hd, hit', List.length_append, eP]; simp; omega
    rw [eP] at hd'
    have it2 : d'.items = P ++ capI :: (M0 ++ cupI ::
        ((R.1, R.2 - cupI.1.dom.length + cupI.1.cod.length) :: S)) := by
      rw [it']; simp
    have ht' : ((P.length + 1 + (n + 1) : Nat) : Int) + -1 = ((P.length + 1 + n : Nat) : Int) := by
      omega
    obtain ⟨d2, S2, ro', acc2, hmv, w2, dom2, cod2, it2', hS2, hch2, hla2⟩ :=
      ih (acc := acc ++ [d']) hn0 w' it2 (fun z hz => hM z (by simp [hz])) ht'
    refine ⟨d2, S2, ro', d' :: acc2, ?_, w2, dom2.trans dom', cod2.trans cod', it2', ?_,
      ⟨?_, hch2⟩, hla2⟩
    · rw [List.range'_concat, List.reverse_append]
      simp only [List.reverse_cons, List.reverse_nil, List.nil_append, List.cons_append,
        moveObstructions, Nat.one_mul]
      have hd'' : d.interchange ((P.length + 1 + n : Nat) : Int)
          ((P.length + 1 + (n + 1) : Nat) : Int) false = .ok d' := hd'
      rw [hd'']
      simp only [List.map_nil]
      rw [hmv]
      simp
    · rw [hS2]; simp only [List.length_cons]; omega
    · exact istep_of hd' (by omega) (by omega) (by omega)

/-! ### Right snake, first loop: left obstructions move down below the cup (lines 417-423) -/

theorem moveLeftDown (n : Nat) : ∀ {lo : List Nat} {d : Diagram} {P M S : List (Box × Int)}
    {capI cupI : Box × Int} {ro : List Nat} {acc : List Diagram} {t j : Int},
    lo.length = n → d.WF → d.items = P ++ capI :: (M ++ cupI :: S) →
    t = ((P.length + 1 + M.length : Nat) : Int) → 1 ≤ cupI.1.dom.length →
    classify (P.length + 1) j M = some (cupI.2, lo, ro) →
    ∃ d1 M1 cupI1 S1 ro1 acc1,
      moveObstructions (fun box r => if r > box then r - 1 else r) (-1) lo.reverse d t ro acc
        = .ok (d1, ((P.length + 1 + M1.length : Nat) : Int), ro1, acc ++ acc1) ∧
      d1.WF ∧ d1.dom = d.dom ∧ d1.cod = d.cod ∧
      d1.items = P ++ capI :: (M1 ++ cupI1 :: S1) ∧ cupI1.1 = cupI.1 ∧
      classify (P.length + 1) j M1 = some (cupI1.2, [], ro1) ∧
      M1.length + S1.length = M.length + S.length ∧ IChain d acc1 ∧ lastOr d acc1 = d1 := by
  induction n with
  | zero =>
    intro lo d P M S capI cupI ro acc t j hn hd hit ht _ hcl
    have : lo = [] := List.eq_nil_of_length_eq_zero hn
    subst this
    subst ht
    exact ⟨d, M, cupI, S, ro, [], by simp [moveObstructions], hd, rfl, rfl, hit, rfl, hcl, rfl,
      trivial, rfl⟩
  | succ n ih =>
    intro lo d P M S capI cupI ro acc t j hn hd hit ht hcup hcl
    have hne : lo ≠ [] := by intro e; rw [e] at hn; simp at hn
    obtain ⟨M0, L, Rs, jl, lo0, ro0, eM, hcl0, elo, hL, ej, hRs, ero⟩ := classify_last_left hcl hne
    subst eM
    have hn0 : lo0.length = n := by rw [elo] at hn; simpa using hn
    have hit' : d.items = (P ++ capI :: M0) ++ L :: ((Rs ++ [cupI]) ++ S) := by rw [hit]; simp
    have hcond : ∀ y ∈ Rs ++ [cupI],
        ¬ (L.2 ≥ y.2 + y.1.dom.length) ∧ y.2 ≥ L.2 + L.1.cod.length := by
      intro y hy
      rcases List.mem_append.mp hy with hy | hy
      · have := hRs y hy; omega
      · simp only [List.mem_singleton] at hy; subst hy; omega
    obtain ⟨d', hd', w', dom', cod', it'⟩ := Diagram.interchange_down_left hd hit' hcond
    have eP : (P ++ capI :: M0).length = P.length + 1 + M0.length := by simp; omega
    have eT : (P ++ capI :: M0).length + (Rs ++ [cupI]).length
        = P.length + 1 + (M0 ++ L :: Rs).length := by simp; omega
    rw [eT, eP] at hd'
    have hlen : d.boxes.length = P.length + 1 + (M0.length + 1 + Rs.length) + 1 + S.length := by
      rw [← Diagram.items_length hd, hit]; simp; omega
    have it2 : d'.items = P ++ capI :: ((M0 ++ Rs.map (shiftItem ((L.1.dom.length : Int) - L.1.cod.length)))
        ++ shiftItem ((L.1.dom.length : Int) - L.1.cod.length) cupI :: (L :: S)) := by
      rw [it']; simp
    have hbnd := (classify_bounds hcl0).2
    have hcl' : classify (P.length + 1) j
        (M0 ++ Rs.map (shiftItem ((L.1.dom.length : Int) - L.1.cod.length)))
        = some ((shiftItem ((L.1.dom.length : Int) - L.1.cod.length) cupI).2, lo0,
            ro.map (fun r => if r > P.length + 1 + M0.length then r - 1 else r)) := by
      rw [classify_append, hcl0]
      have hr : ∀ x ∈ Rs.map (shiftItem ((L.1.dom.length : Int) - L.1.cod.length)), jl < x.2 := by
        intro x hx
        obtain ⟨z, hz, rfl⟩ := List.mem_map.mp hx
        have := hRs z hz
        simp only [shiftItem]; omega
      simp only
      rw [classify_all_right hr]
      simp only [List.length_map, List.append_nil, Option.some.injEq, Prod.mk.injEq, shiftItem]
      refine ⟨by omega, trivial, ?_⟩
      rw [ero, List.map_append, map_bumpDown_range _ _ _ (by omega),
        map_bumpDown_id _ _ (fun z hz => by have := hbnd z hz; omega)]
    have ht' : t + -1 = ((P.length + 1 +
        (M0 ++ Rs.map (shiftItem ((L.1.dom.length : Int) - L.1.cod.length))).length : Nat) : Int) := by
      rw [ht]; simp only [List.length_append, List.length_cons, List.length_map]; omega
    obtain ⟨d1, M1, cupI1, S1, ro1, acc1, hmv, w1, dom1, cod1, it1, hc1, hcl1, hl1, hch1, hla1⟩ :=
      ih (acc := acc ++ [d']) hn0 w' it2 ht' (by simpa [shiftItem] using hcup) hcl'
    refine ⟨d1, M1, cupI1, S1, ro1, d' :: acc1, ?_, w1, dom1.trans dom', cod1.trans cod', it1,
      by rw [hc1]; rfl, hcl1, ?_, ⟨?_, hch1⟩, hla1⟩
    · rw [elo, List.reverse_append]
      simp only [List.reverse_cons, List.reverse_nil, List.nil_append, List.cons_append,
        moveObstructions]
      rw [ht, hd']
      simp only
      rw [← ht, hmv]
      simp
    · rw [hl1]; simp only [List.length_append, List.length_cons, List.length_map]
      omega
    · exact istep_of hd' (by omega) (by rw [hlen]; simp only [List.length_append, List.length_cons]; omega)
        (by simp only [List.length_append, List.length_cons]; omega)

/-! ### Right snake, second loop: right obstructions move up above the cap (lines 424-427) -/

theorem moveRightUp (n : Nat) : ∀ {d : Diagram} {P M S : List (Box × Int)}
    {capI cupI : Box × Int} {acc : List Diagram} {t : Int},
    M.length = n → d.WF → d.items = P ++ capI :: (M ++ cupI :: S) →
    (∀ x ∈ M, ¬ (capI.2 ≥ x.2 + x.1.dom.length) ∧ x.2 ≥ capI.2 + capI.1.cod.length) →
    t = (P.length : Int) →
    ∃ d2 P2 ro' acc2,
      moveObstructions (fun _ r => r) 1 (List.range' (P.length + 1) n) d t [] acc
        = .ok (d2, (P2.length : Int), ro', acc ++ acc2) ∧
      d2.WF ∧ d2.dom = d.dom ∧ d2.cod = d.cod ∧ d2.items = P2 ++ capI :: cupI :: S ∧
      P2.length = P.length + n ∧ IChain d acc2 ∧ lastOr d acc2 = d2 := by
  induction n with
  | zero =>
    intro d P M S capI cupI acc t hn hd hit _ ht
    have : M = [] := List.eq_nil_of_length_eq_zero hn
    subst this
    subst ht
    refine ⟨d, P, [], [], ?_, hd, rfl, rfl, by simpa using hit, rfl, trivial, rfl⟩
    simp [moveObstructions]
  | succ n ih =>
    intro d P M S capI cupI acc t hn hd hit hM ht
    subst ht
    cases M with
    | nil => simp at hn
    | cons R M' =>
    have hn0 : M'.length = n := by simpa using hn
    obtain ⟨hR1, hR2⟩ := hM R (by simp)
    have hsw : swapItems capI R = some ((R.1, R.2 - capI.1.cod.length + capI.1.dom.length), capI) := by
      unfold swapItems; rw [if_neg hR1, if_pos hR2]
    have hit' : d.items = P ++ capI :: R :: (M' ++ cupI :: S) := by rw [hit]; simp
    obtain ⟨d', hd', w', dom', cod', it'⟩ := Diagram.interchange_adj_up hd hit' hsw
    have hlen : d.boxes.length = P.length + 1 + (n + 1) + 1 + S.length := by
      rw [← Diagram.items_length hd, hit]; simp; omega
    have it2 : d'.items = (P ++ [(R.1, R.2 - capI.1.cod.length + capI.1.dom.length)]) ++
        capI :: (M' ++ cupI :: S) := by
      rw [it']; simp
    have ht' : (P.length : Int) + 1
        = ((P ++ [(R.1, R.2 - capI.1.cod.length + capI.1.dom.length)]).length : Int) := by
      simp
    obtain ⟨d2, P2, ro', acc2, hmv, w2, dom2, cod2, it2', hP2, hch2, hla2⟩ :=
      ih (acc := acc ++ [d']) hn0 w' it2 (fun z hz => hM z (by simp [hz])) ht'
    refine ⟨d2, P2, ro', d' :: acc2, ?_, w2, dom2.trans dom', cod2.trans cod', it2', ?_,
      ⟨?_, hch2⟩, hla2⟩
    · simp only [List.range'_succ, moveObstructions]
      rw [hd']
      simp only [List.map_nil]
      have e : (P ++ [(R.1, R.2 - capI.1.cod.length + capI.1.dom.length)]).length + 1
          = P.length + 1 + 1 := by simp
      rw [e] at hmv
      rw [hmv]
      simp
    · rw [hP2]; simp only [List.length_append, List.length_cons, List.length_nil]; omega
    · exact istep_of hd' (by omega) (by omega) (by omega)

end DV
