/-
  Proofs/CircuitTablesZX.lean — the per-gate hypothesis `Gate.zxOK` of `circuit2zx_sound_of`
  (Proofs/CircuitCyc8.lean) on the translated gate set, by kernel evaluation.  (Split from
  CircuitTables.lean to keep each file under 30 s.)
-/
import Proofs.CircuitTables

namespace DV.Gates
open DV

/-! ### C16 -/

/-- The inverse of the scalars that occur: `√2` for `1/√2`, the conjugate for the unimodular ones. -/
def zxInv (k : Cyc8) : Cyc8 := if k == Cyc8.invSqrt2 then Cyc8.sqrt2 else k.conj

/-- The translated gate set with the scalar `k g` of `⟦gate2zx g⟧ = k g • ⟦g⟧`:
    the phase-free table (`k = 1`, `1/√2` for CX, CZ), Rz and Rx (`k = e^{iπφ}`) at the even phase indices. -/
def zxTableA : List (Gate × Cyc8) :=
  zxNamed.map (fun p => (p.2, zxScalarNamed p.1)) ++
  evenPhases.flatMap (fun n => [(Gate.rot .Rz n, Cyc8.zetaPow (n / 2)), (Gate.rot .Rx n, Cyc8.zetaPow (n / 2))])

/-- … the corrected CRz, CRx, CU1 (`k = 1/√2`) at the even phase indices, kets and bras of ≤ 4 bits (`k = 1`). -/
def zxTableB : List (Gate × Cyc8) :=
  ctrlRotKinds.flatMap (fun k => evenPhases.map fun n => (Gate.rot k n, Cyc8.invSqrt2))
def zxTableC : List (Gate × Cyc8) :=
  bitstringsUpTo4.flatMap (fun bs => [(Gate.ket bs, 1), (Gate.bra bs, 1)])

def zxTable : List (Gate × Cyc8) := zxTableA ++ zxTableB ++ zxTableC

theorem zxTableA_ok : ∀ p ∈ zxTableA, p.1.zxOK p.2 (zxInv p.2) = true := by decide +kernel


/-- Scalars translate to scalar boxes, exactly (`k = 1`), for every normalised value. -/
theorem scalar_zxOK (z : Cyc8) (hz : z.isNormal = true) : (Gate.scalar z).zxOK 1 1 = true := by
  have hsh : (Gate.scalar z).shapeOK = true := by
    simp [Gate.shapeOK, isMatB, allNormalB, Gate.eval, Gate.evalW, Gate.isDagger, Gate.arrayW,
      Gate.dom, Gate.cod, pow2, hz]
  have hev : ZXDiag.eval 0 [(.scalar z, 0)] = msmul 1 [[z]] := by
    have hA : AllEnt Nrm (ZXDiag.eval 0 [(.scalar z, 0)]) :=
      ZXDiag.eval_allEnt 0 (by simp [ZXDiag.normal, ZXBox.normal, hz])
    have hB : AllEnt Nrm (msmul 1 [[z]]) :=
      AllEnt.msmul nrm_closed (k := 1) rfl (by intro r hr x hx; simp at hr; subst hr; simp at hx; subst hx; exact hz)
    apply eq_of_val hA hB
    simp [ZXDiag.eval, ZXDiag.sem, ZXBox.sem, evalZX, evalZXFrom, ZXB.mat, ZXB.dom, idQ, pow2,
      identity, mul, rowMul, vadd, smul, kron, msmul, mapM, Cyc8.val_mul, Cyc8.val_one]
  simp only [Gate.zxOK, gate2zx, hsh, Gate.dom, Gate.cod, Gate.eval, Gate.evalW, Gate.isDagger,
    Gate.arrayW, hev]
  simp [ZXDiag.normal, ZXBox.normal, hz, ZXDiag.codFrom, ZXBox.sem, ZXB.dom, ZXB.cod]
  decide

/-- Square-root scalars `sqrt(z)` (gates.Sqrt, a SUBCLASS of gates.Scalar: `isinstance(box, GatesScalar)`,
    zx.py:397-400) translate to the scalar box of their DATA `z`, which denotes `r • ⟦sqrt(z)⟧ = r • [[r]]`
    for the value `r` of the box (`r * r = z`): sound with `k = r` whenever `r` is invertible (`√2` of
    `Circuit.cups` / `caps`, `1/√2`, `i`, `1 ± i`, `ζ`, `1 + √2`, …). -/
theorem sqrt_zxOK (z r r' : Cyc8) (hz : z.isNormal = true) (hr : r.isNormal = true) (hr' : r'.isNormal = true)
    (h : r * r = z) (hu : r * r' = 1) : (Gate.sqrt z r).zxOK r r' = true := by
  have hsh : (Gate.sqrt z r).shapeOK = true := by
    simp [Gate.shapeOK, isMatB, allNormalB, Gate.eval, Gate.evalW, Gate.isDagger, Gate.arrayW,
      Gate.dom, Gate.cod, pow2, hr]
  have hev : ZXDiag.eval 0 [(.scalar z, 0)] = msmul r [[r]] := by
    have hA : AllEnt Nrm (ZXDiag.eval 0 [(.scalar z, 0)]) :=
      ZXDiag.eval_allEnt 0 (by simp [ZXDiag.normal, ZXBox.normal, hz])
    have hB : AllEnt Nrm (msmul r [[r]]) :=
      AllEnt.msmul nrm_closed (k := r) hr (by intro w hw x hx; simp at hw; subst hw; simp at hx; subst hx; exact hr)
    apply eq_of_val hA hB
    subst h
    simp [ZXDiag.eval, ZXDiag.sem, ZXBox.sem, evalZX, evalZXFrom, ZXB.mat, ZXB.dom, idQ, pow2,
      identity, mul, rowMul, vadd, smul, kron, msmul, mapM, Cyc8.val_mul, Cyc8.val_one]
  simp only [Gate.zxOK, gate2zx, hsh, Gate.dom, Gate.cod, Gate.eval, Gate.evalW, Gate.isDagger,
    Gate.arrayW, hev]
  simp [ZXDiag.normal, ZXBox.normal, hz, hr, hr', hu, ZXDiag.codFrom, ZXBox.sem, ZXB.dom, ZXB.cod]

/-- `sqrt(0)`: value and image are both the zero scalar (`k = 1`). -/
theorem sqrt_zero_zxOK : (Gate.sqrt 0 0).zxOK 1 1 = true := by decide +kernel

end DV.Gates
