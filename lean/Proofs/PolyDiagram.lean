/-
  Proofs/PolyDiagram.lean — the EXECUTABLE instance (`PolyDiagram`, data in `Poly`) of the two
  abstract theorems of Proofs/Param.lean:

   * `eval_natural_subst` / `eval_natural_poly_proof` (C14): evaluating the substituted diagram
     = substituting in the evaluation, for every diagram with data in `Poly` (normal or not) —
     by instantiating `evalLayers_natural` at the ring `NPoly` and the ring homomorphism
     `NPoly.substHom`, and transporting along `norm : Poly → NPoly` (which preserves 0, 1, +, ·);
   * `grad_poly_proof` (C15): the gradient of a polynomial diagram evaluates to the formal
     derivative of its evaluation — the derivation `NPoly.derivN` in the product rule.  For
     arbitrary (non-normal) data `polyDep` may report a symbol that cancels, so the recursion is
     first proved in a form that does not care which type the layers live in (`gradL_rule`: any
     type of layers with a matrix meaning in a commutative ring) and then instantiated.
-/
import Proofs.PolyRing

set_option linter.unusedSectionVars false

namespace DV.Param

/-! ### maps preserving the operations, between types that need not be rings -/

structure OpHom {R S : Type} [Zero R] [One R] [Add R] [Mul R] [HasConj R]
    [Zero S] [One S] [Add S] [Mul S] [HasConj S] (φ : R → S) : Prop where
  zero : φ 0 = 0
  one : φ 1 = 1
  add : ∀ a b, φ (a + b) = φ a + φ b
  mul : ∀ a b, φ (a * b) = φ a * φ b
  conj : ∀ a, φ (HasConj.conj a) = HasConj.conj (φ a)

section OpHomLemmas
variable {R S : Type} [Zero R] [One R] [Add R] [Mul R] [HasConj R]
  [Zero S] [One S] [Add S] [Mul S] [HasConj S] {φ : R → S}

theorem OpHom.sum (h : OpHom φ) (l : List R) : φ l.sum = (l.map φ).sum := by
  induction l with
  | nil => simpa using h.zero
  | cons a l ih => simp only [List.sum_cons, List.map_cons, h.add, ih]

theorem OpHom.matMul (h : OpHom φ) (n : Nat) (a b : Mat R) (i k : Nat) :
    φ (matMul n a b i k) = matMul n (fun i j => φ (a i j)) (fun i j => φ (b i j)) i k := by
  unfold DV.Param.matMul
  rw [h.sum, List.map_map]
  congr 1
  apply List.map_congr_left
  intro j _
  exact h.mul _ _

theorem OpHom.idMat (h : OpHom φ) (i j : Nat) : φ (idMat i j) = idMat i j := by
  unfold DV.Param.idMat
  split
  · exact h.one
  · exact h.zero

/-- The evaluator is natural in every operation-preserving map. -/
theorem OpHom.evalLayers (h : OpHom φ) (ls : List (PLayer R)) :
    (fun i k => φ (evalLayers ls i k)) = evalLayers (ls.map (PLayer.mapData φ)) := by
  induction ls with
  | nil =>
    funext i k
    exact h.idMat i k
  | cons l ls ih =>
    funext i k
    simp only [List.map_cons, DV.Param.evalLayers, outDim_mapData]
    rw [h.matMul, ih]
    have hm : (l.mapData φ).mat = fun i j => φ (l.mat i j) := by
      funext a b
      exact mat_mapData φ h.zero h.conj l a b
    rw [hm]

theorem OpHom.evalLayers_apply (h : OpHom φ) (ls : List (PLayer R)) (i k : Nat) :
    φ (DV.Param.evalLayers ls i k) = DV.Param.evalLayers (ls.map (PLayer.mapData φ)) i k :=
  congrFun (congrFun (h.evalLayers ls) i) k

end OpHomLemmas

theorem norm_opHom : OpHom norm := ⟨norm_zero, norm_one, norm_add, norm_mul, fun _ => rfl⟩

/-! ### every evaluation is in normal form -/

namespace Poly

theorem sum_wf (l : List Poly) (h : ∀ x ∈ l, x.WF) : l.sum.WF := by
  induction l with
  | nil => exact zero_wf
  | cons a l ih =>
    rw [List.sum_cons]
    exact add_wf (h a List.mem_cons_self) (ih (fun x hx => h x (List.mem_cons_of_mem _ hx)))

theorem matMul_wf (n : Nat) (a b : Mat Poly) (i k : Nat) : (matMul n a b i k).WF := by
  apply sum_wf
  intro x hx
  obtain ⟨j, _, rfl⟩ := List.mem_map.mp hx
  exact mul_wf _ _

theorem idMat_wf (i j : Nat) : (idMat i j : Poly).WF := by
  unfold idMat
  split
  · exact one_wf
  · exact zero_wf

theorem evalLayers_wf (ls : List (PLayer Poly)) (i k : Nat) : (evalLayers ls i k).WF := by
  cases ls with
  | nil => exact idMat_wf i k
  | cons l ls => exact matMul_wf _ _ _ _ _

theorem evalSum_wf (ts : List (List (PLayer Poly))) (i k : Nat) : (evalSum ts i k).WF := by
  apply sum_wf
  intro x hx
  obtain ⟨t, _, rfl⟩ := List.mem_map.mp hx
  exact evalLayers_wf t i k

end Poly

/-! ### C14 at the executable instance -/

/-- Simultaneous substitution commutes with evaluation, for every polynomial diagram. -/
theorem eval_natural_subst (σ : Nat → Poly) (ls : List (PLayer Poly)) (i k : Nat) :
    evalLayers (ls.map (PLayer.mapData (Poly.subst σ))) i k = Poly.subst σ (evalLayers ls i k) := by
  apply eq_of_norm_eq (Poly.evalLayers_wf _ i k) (Poly.subst_wf σ _)
  rw [norm_opHom.evalLayers_apply, norm_subst, norm_opHom.evalLayers_apply, mapData_mapData]
  -- the abstract theorem at the ring `NPoly` and the ring homomorphism `substHom σ`
  have key := congrFun (congrFun
    (evalLayers_natural (NPoly.substHom σ) (NPoly.substHom_conj σ)
      (ls.map (PLayer.mapData norm))) i) k
  rw [mapData_mapData] at key
  rw [← key]
  congr 2
  have : (norm ∘ Poly.subst σ) = ((NPoly.substHom σ : NPoly → NPoly) ∘ norm) := by
    funext x
    exact norm_subst σ x
  rw [this]

/-- `eval_natural_poly` of Props/C14.lean: `d.subs(x_v, q)` then `eval` = `eval` then
    `subs(x_v, q)` entrywise. -/
theorem eval_natural_poly_proof (d : PolyDiagram) (v : Nat) (q : Poly) (i k : Nat) :
    (d.subs v q).eval i k = Poly.subst1 v q (d.eval i k) :=
  eval_natural_subst _ d.layers i k

/-! ### the gradient recursion, for any type of layers -/

section Generic
variable {L S : Type} [CommRing S]

/-- Evaluation of a list of layers, each with an output dimension and a matrix. -/
def evalL (od : L → Nat) (mat : L → Mat S) : List L → Mat S
  | [] => idMat
  | l :: ls => matMul (od l) (mat l) (evalL od mat ls)

/-- The recursion of tensor.Diagram.grad (tensor.py:485-492), on any type of layers. -/
def gradL (dep : L → Bool) (G : L → List L) : List L → List (List L)
  | [] => []
  | l :: tail =>
    if (l :: tail).any dep then
      (G l).map (fun l' => l' :: tail) ++ (gradL dep G tail).map (fun t => l :: t)
    else []

def sumL (od : L → Nat) (mat : L → Mat S) (ts : List (List L)) : Mat S :=
  fun i j => (ts.map (fun t => evalL od mat t i j)).sum

theorem sumL_nil (od : L → Nat) (mat : L → Mat S) (i j : Nat) : sumL od mat [] i j = 0 := by
  simp [sumL]

theorem sumL_append (od : L → Nat) (mat : L → Mat S) (as bs : List (List L)) (i j : Nat) :
    sumL od mat (as ++ bs) i j = sumL od mat as i j + sumL od mat bs i j := by
  simp [sumL, List.sum_append]

theorem D_evalL_const (d : Deriv S) (od : L → Nat) (mat : L → Mat S) (ls : List L)
    (h : ∀ l ∈ ls, ∀ i j, d.D (mat l i j) = 0) (i k : Nat) :
    d.D (evalL od mat ls i k) = 0 := by
  induction ls generalizing i k with
  | nil => exact idMat_const d i k
  | cons l ls ih =>
    simp only [evalL]
    rw [then_leibniz]
    have h1 : (fun i j => d.D (mat l i j)) = fun _ _ => 0 := by
      funext a b
      exact h l List.mem_cons_self a b
    have h2 : (fun i j => d.D (evalL od mat ls i j)) = fun _ _ => 0 := by
      funext a b
      exact ih (fun l' hl' => h l' (List.mem_cons_of_mem _ hl')) a b
    rw [h1, h2]
    unfold matMul
    simp

/-- **Product rule over the layers**, for layers of any kind: if the terms `G l` replacing a layer
    have its output dimension and their matrices sum to the derivative of its matrix, and layers
    reported independent have derivative zero, the gradient evaluates to the derivative of the
    evaluation. -/
theorem gradL_rule (d : Deriv S) (od : L → Nat) (mat : L → Mat S) (dep : L → Bool)
    (G : L → List L) (ls : List L)
    (hod : ∀ l ∈ ls, ∀ l' ∈ G l, od l' = od l)
    (hG : ∀ l ∈ ls, ∀ i j, ((G l).map (fun l' => mat l' i j)).sum = d.D (mat l i j))
    (hdep : ∀ l ∈ ls, dep l = false → ∀ i j, d.D (mat l i j) = 0) (i k : Nat) :
    sumL od mat (gradL dep G ls) i k = d.D (evalL od mat ls i k) := by
  induction ls generalizing i k with
  | nil =>
    simp only [gradL, evalL]
    rw [sumL_nil, idMat_const]
  | cons l tail ih =>
    have ih' := ih (fun x hx => hod x (List.mem_cons_of_mem _ hx))
      (fun x hx => hG x (List.mem_cons_of_mem _ hx))
      (fun x hx => hdep x (List.mem_cons_of_mem _ hx))
    unfold gradL
    by_cases hany : (l :: tail).any dep = true
    · rw [if_pos hany, sumL_append]
      simp only [evalL]
      rw [then_leibniz]
      congr 1
      · unfold sumL
        simp only [List.map_map, Function.comp_def, evalL]
        have e : (G l).map (fun l' => matMul (od l') (mat l') (evalL od mat tail) i k)
            = (G l).map (fun l' => matMul (od l) (mat l') (evalL od mat tail) i k) :=
          List.map_congr_left (fun l' hl' => by rw [hod l List.mem_cons_self l' hl'])
        rw [e]
        unfold matMul
        rw [sum_map_comm]
        refine sum_map_congr _ _ _ (fun j => ?_)
        rw [sum_map_mul_right]
        congr 1
        exact hG l List.mem_cons_self i j
      · unfold sumL
        simp only [List.map_map, Function.comp_def, evalL]
        unfold matMul
        rw [sum_map_comm]
        refine sum_map_congr _ _ _ (fun j => ?_)
        rw [sum_map_mul_left]
        congr 1
        exact ih' j k
    · rw [if_neg hany, sumL_nil]
      symm
      apply D_evalL_const
      intro l' hl' a b
      apply hdep l' hl'
      cases hb : dep l' with
      | false => rfl
      | true => exact absurd (List.any_eq_true.mpr ⟨l', hl', hb⟩) hany

end Generic

/-! ### the model's `gradLayers` is that recursion -/

/-- The layer in which the box of `l` is replaced by `b'`. -/
def reBox {R : Type} (l : PLayer R) (b' : PBox R) : PLayer R :=
  { left := l.left, box := b', right := l.right }

theorem gradLayers_eq_gradL {R : Type} (dep : PBox R → Bool) (G : PBox R → List (PBox R))
    (ls : List (PLayer R)) :
    gradLayers dep G ls = gradL (fun l => dep l.box) (fun l => (G l.box).map (reBox l)) ls := by
  induction ls with
  | nil => rfl
  | cons l tail ih =>
    simp only [gradLayers, gradL, ih, List.map_map, Function.comp_def, reBox]

/-- Matrix of a polynomial layer, read in the ring `NPoly`. -/
def matN (l : PLayer Poly) : Mat NPoly := fun i j => norm (l.mat i j)

theorem evalL_matN (ls : List (PLayer Poly)) (i k : Nat) :
    evalL PLayer.outDim matN ls i k = norm (evalLayers ls i k) := by
  induction ls generalizing i k with
  | nil => exact (norm_opHom.idMat i k).symm
  | cons l ls ih =>
    simp only [evalL, evalLayers]
    rw [norm_opHom.matMul]
    have : evalL PLayer.outDim matN ls = fun i j => norm (evalLayers ls i j) := by
      funext a b; exact ih a b
    rw [this]
    rfl

theorem sumL_matN (ts : List (List (PLayer Poly))) (i k : Nat) :
    sumL PLayer.outDim matN ts i k = norm (evalSum ts i k) := by
  unfold sumL evalSum
  rw [norm_opHom.sum, List.map_map]
  congr 1
  apply List.map_congr_left
  intro t _
  exact evalL_matN t i k

/-! ### symbols that do not occur have derivative zero -/

namespace Poly

theorem deriv_zero (v : Nat) : deriv v 0 = 0 := rfl

theorem deriv_terms_of_not_has (v : Nat) (ts : List (Mono × Int))
    (h : ∀ t ∈ ts, monoHas v t.1 = false) :
    ts.foldr (fun t acc =>
      match t.1[v]? with
      | some (e + 1) => addTerm (Mono.trim (t.1.set v e)) (((e + 1 : Nat) : Int) * t.2) acc
      | _ => acc) [] = [] := by
  induction ts with
  | nil => rfl
  | cons t ts ih =>
    simp only [List.foldr_cons]
    have ht := h t List.mem_cons_self
    rw [ih (fun x hx => h x (List.mem_cons_of_mem _ hx))]
    split
    · rename_i e he
      unfold monoHas at ht
      rw [he] at ht
      cases ht
    · rfl

theorem length_le_foldr_max (ts : List (Mono × Int)) (t : Mono × Int) (h : t ∈ ts) :
    t.1.length ≤ ts.foldr (fun t acc => max t.1.length acc) 0 := by
  induction ts with
  | nil => exact absurd h List.not_mem_nil
  | cons x ts ih =>
    simp only [List.foldr_cons]
    rcases List.mem_cons.mp h with e | e
    · subst e; exact Nat.le_max_left _ _
    · exact Nat.le_trans (ih e) (Nat.le_max_right _ _)

theorem deriv_of_not_mem_vars (v : Nat) (p : Poly) (h : v ∉ vars p) : deriv v p = 0 := by
  have hterms : ∀ t ∈ p.terms, monoHas v t.1 = false := by
    intro t ht
    cases hm : monoHas v t.1 with
    | false => rfl
    | true =>
      exfalso
      apply h
      unfold vars
      rw [List.mem_filter]
      refine ⟨?_, List.any_eq_true.mpr ⟨t, ht, hm⟩⟩
      rw [List.mem_range]
      have hlen : v < t.1.length := by
        unfold monoHas at hm
        rcases Nat.lt_or_ge v t.1.length with h' | h'
        · exact h'
        · rw [List.getElem?_eq_none h'] at hm; cases hm
      exact Nat.lt_of_lt_of_le hlen (length_le_foldr_max _ t ht)
  exact congrArg Poly.mk (deriv_terms_of_not_has v p.terms hterms)

end Poly

theorem deriv_arr_of_not_dep (v : Nat) (b : PBox Poly) (h : polyDep v b = false) (i j : Nat) :
    Poly.deriv v (b.arr i j) = 0 := by
  have hmem : ∀ e ∈ b.data, Poly.deriv v e = 0 := by
    intro e he
    apply Poly.deriv_of_not_mem_vars
    intro hv
    have : v ∈ b.freeSymbols Poly.vars := (mem_box_freeSymbols Poly.vars b v).mpr ⟨e, he, hv⟩
    unfold polyDep at h
    rw [List.contains_iff_mem.mpr this] at h
    cases h
  have hget : ∀ n, Poly.deriv v (b.data.getD n 0) = 0 := by
    intro n
    rw [List.getD_eq_getElem?_getD]
    cases hx : b.data[n]? with
    | none => exact Poly.deriv_zero v
    | some e => exact hmem e (List.mem_of_getElem? hx)
  unfold PBox.arr
  split
  · exact hget _
  · exact hget _

theorem deriv_mat_of_not_dep (v : Nat) (l : PLayer Poly) (h : polyDep v l.box = false) (i j : Nat) :
    Poly.deriv v (l.mat i j) = 0 := by
  unfold PLayer.mat
  split
  · exact deriv_arr_of_not_dep v l.box h _ _
  · exact Poly.deriv_zero v

/-! ### C15 at the executable instance -/

/-- The gradient of a polynomial tensor diagram (tensor.Box.grad as found, `checksFS = false`, or
    repaired, `true`) evaluates to the formal derivative of its evaluation — for every diagram
    with data in `Poly`. -/
theorem grad_poly_layers (checksFS : Bool) (v : Nat) (ls : List (PLayer Poly)) (i k : Nat) :
    evalSum (gradLayers (polyDep v) (boxGrad checksFS (polyDep v) (Poly.deriv v)) ls) i k
      = Poly.deriv v (evalLayers ls i k) := by
  apply eq_of_norm_eq (Poly.evalSum_wf _ i k) (Poly.deriv_wf v _)
  rw [norm_deriv, ← evalL_matN, ← sumL_matN, gradLayers_eq_gradL]
  apply gradL_rule (NPoly.derivN v)
  · -- the replacing layers have the output dimension of the layer
    intro l _ l' hl'
    obtain ⟨b', hb', rfl⟩ := List.mem_map.mp hl'
    have h2 : b'.cod = l.box.cod := by
      unfold boxGrad at hb'
      split at hb'
      · exact absurd hb' List.not_mem_nil
      · rw [List.mem_singleton.mp hb']; rfl
    unfold PLayer.outDim reBox
    simp only [h2]
  · -- their matrices sum to the derivative of the matrix of the layer
    intro l _ a b
    unfold matN
    rw [← norm_deriv]
    unfold boxGrad
    split
    · rename_i hc
      have hd : polyDep v l.box = false := by
        cases hdb : polyDep v l.box with
        | false => rfl
        | true => simp [hdb] at hc
      rw [deriv_mat_of_not_dep v l hd a b]
      simp [norm_zero]
    · have hre : reBox l (l.box.mapData (Poly.deriv v)) = l.mapData (Poly.deriv v) := rfl
      simp only [List.map_cons, List.map_nil, List.sum_cons, List.sum_nil, hre]
      rw [mat_mapData (Poly.deriv v) (Poly.deriv_zero v) (fun _ => rfl) l a b, add_zero]
  · -- layers reported independent of the symbol have derivative zero
    intro l _ hd a b
    unfold matN
    rw [← norm_deriv, deriv_mat_of_not_dep v l hd a b, norm_zero]

/-- `grad_poly` of Props/C15.lean. -/
theorem grad_poly_proof (checksFS : Bool) (d : PolyDiagram) (v : Nat) (i k : Nat) :
    evalSum (d.grad checksFS v) i k = Poly.deriv v (d.eval i k) :=
  grad_poly_layers checksFS v d.layers i k

/-! ### the abstract product rule, instantiated literally at the executable ring -/

/-- "x_v occurs in the data of the box", for a box with data in normal form. -/
def npolyDep (v : Nat) (b : PBox NPoly) : Bool := polyDep v (b.mapData (fun a : NPoly => a.1))

theorem npolyDep_spec (v : Nat) (b : PBox NPoly) (h : npolyDep v b = false) (i j : Nat) :
    (NPoly.derivN v).D (b.arr i j) = 0 := by
  apply Subtype.ext
  have h1 := deriv_arr_of_not_dep v (b.mapData (fun a : NPoly => a.1)) h i j
  rw [arr_mapData (fun a : NPoly => a.1) rfl (fun _ => rfl)] at h1
  exact h1

/-- `grad_product_rule` (+ `boxGrad_spec`) of Proofs/Param.lean at `R = NPoly`, `D = Poly.deriv v`:
    every hypothesis of the abstract theorem is met by the executable ring. -/
theorem grad_npoly (checksFS : Bool) (v : Nat) (ls : List (PLayer NPoly)) (i k : Nat) :
    evalSum (gradLayers (npolyDep v) (boxGrad checksFS (npolyDep v) (NPoly.derivN v).D) ls) i k
      = (NPoly.derivN v).D (evalLayers ls i k) :=
  grad_product_rule (NPoly.derivN v) (npolyDep v) _
    (boxGrad_dims checksFS (npolyDep v) (NPoly.derivN v).D)
    (boxGrad_spec (NPoly.derivN v) checksFS (npolyDep v) (NPoly.derivN_conj v) (npolyDep_spec v))
    (npolyDep_spec v) ls i k

/-- The jacobian of a polynomial diagram: block `k` of the columns is the formal derivative with
    respect to the `k`-th listed variable. -/
theorem jacobian_poly_proof (checksFS : Bool) (d : PolyDiagram) (vs : List Nat) (c : Nat)
    (i k j : Nat) (hj : j < c) (v : Nat) (hk : vs[k]? = some v) :
    jacobianMat c (vs.map (fun v => evalSum (d.grad checksFS v))) i (k * c + j)
      = Poly.deriv v (d.eval i j) := by
  rw [jacobianMat_entry c _ i k j hj (evalSum (d.grad checksFS v)) (by simp [hk])]
  exact grad_poly_proof checksFS d v i j

end DV.Param
