/-
  Proofs/ZXTable.lean — finite-table facts about the ZX layer of Model/Gates.lean (C16), closed by
  `decide` (kernel evaluation of exact ℤ[ζ₈][1/2] arithmetic).  Core Lean only.
-/
import Proofs.GatesTable

namespace DV.Gates

/-- Standard interpretation of the image of a gate under `gate2zx` (`fixed = false`: as zx.py has it). -/
def zxEvalOf (fixed : Bool) (g : Gate) : Except Err M8 :=
  match gate2zx fixed g with
  | .ok d => .ok (ZXDiag.eval g.dom d)
  | .error e => .error e

/-! ### C16: the phase-free part of the gate2zx table and the representable phases -/

/-- The scalar `k g` with `⟦gate2zx g⟧ = k g • eval g` for the phase-free table entries. -/
def zxScalarNamed (name : String) : Cyc8 :=
  if name == "CX" || name == "CZ" then Cyc8.invSqrt2 else if name == "Y" then (if f17Fixed then 1 else -1)
  else 1

def zxNamed : List (String × Gate) := named.filter fun p => p.1 != "S" && p.1 != "T"

/-- zx.py:389-395 and SWAP: `⟦gate2zx g⟧ = k • eval g`, `k ≠ 0`, same arity. -/
theorem gate2zx_named_sound :
    ∀ p ∈ zxNamed, zxEvalOf false p.2 = .ok (msmul (zxScalarNamed p.1) p.2.eval) ∧
      zxScalarNamed p.1 ≠ 0 := by decide +kernel

/-- Arity: the image of every table gate, of every rotation kind and of every ket/bra (≤ 3 bits) is a
    well-typed diagram with as many inputs and outputs as the gate (both as-is and corrected). -/
theorem gate2zx_arity_table :
    (∀ p ∈ zxNamed, ∀ f ∈ [false, true],
      (gate2zx f p.2).toOption.bind (ZXDiag.codFrom p.2.dom) = some p.2.cod) ∧
    (∀ k ∈ [RotKind.Rx, .Rz, .CRz, .CRx, .CU1], ∀ n ∈ evenPhases, ∀ f ∈ [false, true],
      (gate2zx f (.rot k n)).toOption.bind (ZXDiag.codFrom k.nq) = some k.nq) ∧
    (∀ bs ∈ bitstringsUpTo3, ∀ f ∈ [false, true],
      (gate2zx f (.ket bs)).toOption.bind (ZXDiag.codFrom 0) = some bs.length ∧
      (gate2zx f (.bra bs)).toOption.bind (ZXDiag.codFrom bs.length) = some 0) := by
  decide +kernel

/-- `S`, `T`, `Ry` and controlled gates other than `CX` are not in the table (`KeyError`). -/
theorem gate2zx_unsupported :
    gate2zx false (.q gS) = .error .index ∧ gate2zx false (.q gT) = .error .index ∧
    gate2zx false (.rot .Ry 2) = .error .index ∧ gate2zx false (.ctrl (.q gZ)) = .error .index := by
  decide

/-- Kets and bras: `⟦gate2zx (Ket bs)⟧ = eval (Ket bs)` exactly (the scalar `2^(-n/2)` is in the image). -/
theorem gate2zx_ketbra_table :
    ∀ bs ∈ bitstringsUpTo3,
      zxEvalOf false (.ket bs) = .ok (Gate.ket bs).eval ∧
      zxEvalOf false (.bra bs) = .ok (Gate.bra bs).eval := by decide +kernel

/-- Rz, Rx at every representable phase `n/8` (n even): `⟦Z(1,1,φ)⟧ = e^{iπφ} • Rz(φ)`. -/
theorem gate2zx_rot1_table :
    ∀ n ∈ evenPhases,
      ZXDiag.eval 1 [(.z 1 1 n, 0)] = msmul (Cyc8.zetaPow (n / 2)) (Gate.rot .Rz n).eval ∧
      ZXDiag.eval 1 [(.x 1 1 n, 0)] = msmul (Cyc8.zetaPow (n / 2)) (Gate.rot .Rx n).eval ∧
      gate2zx false (.rot .Rz n) = .ok [(.z 1 1 n, 0)] ∧
      gate2zx false (.rot .Rx n) = .ok [(.x 1 1 n, 0)] := by decide +kernel

def ctrlRotKinds : List RotKind := [.CRz, .CRx, .CU1]

def entry (A : M8) (i j : Nat) : Cyc8 := (A.getD i []).getD j 0

/-- One failing cross product refutes proportionality: if `A = k • B` then
    `A[i][j] * B[i'][j'] = k * B[i][j] * B[i'][j'] = A[i'][j'] * B[i][j]` for all index pairs
    (`Proofs/Gates.lean: cross_of_proportional`). -/
def crossFailsAt (A B : M8) (i j i' j' : Nat) : Bool :=
  entry A i j * entry B i' j' != entry A i' j' * entry B i j

/-- F7: the decompositions AS THEY ARE in zx.py:376-384 are NOT proportional to the gate at phase
    1/4 (`n = 2`): the cross product of the entries (0,0) and (3,3) fails. -/
theorem F7_asis_unsound :
    ∀ k ∈ ctrlRotKinds,
      (zxEvalOf false (.rot k 2)).toOption.map (crossFailsAt · (Gate.rot k 2).eval 0 0 3 3)
        = some true := by decide +kernel

/-- What the as-is CRz / CU1 decompositions denote instead: the gate at TWICE the phase (up to 1/√2). -/
theorem F7_asis_is_double_phase :
    ∀ n ∈ [0, 2, 4, 6],
      zxEvalOf false (.rot .CRz n) = .ok (msmul Cyc8.invSqrt2 (Gate.rot .CRz (2 * n)).eval) ∧
      zxEvalOf false (.rot .CU1 n) = .ok (msmul Cyc8.invSqrt2 (Gate.rot .CU1 (2 * n)).eval) := by
  decide +kernel

/-! ### C16: dagger of ZX generators -/

def smallArities : List (Nat × Nat) := pairs 3

/-- zx.py:282 (spiders: legs swapped, phase negated), 330 (H), 354 (scalar conjugated), swap:
    the dagger box denotes the conjugate transpose — all arities `n, m ≤ 2`, all phases `p/8`. -/
theorem zx_dagger_table :
    ∀ nm ∈ smallArities, ∀ p ∈ evenPhases ++ [1, 3, 5, 7],
      (ZXBox.z nm.1 nm.2 p).dagger.sem.mat Cyc8.invSqrt2 =
        dagger ((ZXBox.z nm.1 nm.2 p).sem.mat Cyc8.invSqrt2) ∧
      (ZXBox.x nm.1 nm.2 p).dagger.sem.mat Cyc8.invSqrt2 =
        dagger ((ZXBox.x nm.1 nm.2 p).sem.mat Cyc8.invSqrt2) := by decide +kernel

theorem zx_dagger_h_swap :
    ZXBox.h.dagger.sem.mat Cyc8.invSqrt2 = dagger (ZXBox.h.sem.mat Cyc8.invSqrt2) ∧
    ZXBox.swap.dagger.sem.mat Cyc8.invSqrt2 = dagger (ZXBox.swap.sem.mat Cyc8.invSqrt2) := by decide

end DV.Gates
