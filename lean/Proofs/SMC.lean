/-
  Proofs/SMC.lean — "under every monoidal functor".

  The target of a monoidal functor is an *untyped partial strict monoidal algebra*: a plain
  structure (a parameter of the theorems, not an axiom).  All laws are conditional on
  composability, so any strict monoidal category (take `M` = all morphisms plus one junk
  element for undefined composites) is an instance, and by strictification so is every
  monoidal category.
-/
import Proofs.WF

namespace DV

structure SMC (O M : Type) where
  dom : M → List O
  cod : M → List O
  id : List O → M
  comp : M → M → M
  tens : M → M → M
  dom_id : ∀ a, dom (id a) = a
  cod_id : ∀ a, cod (id a) = a
  dom_comp : ∀ f g, cod f = dom g → dom (comp f g) = dom f
  cod_comp : ∀ f g, cod f = dom g → cod (comp f g) = cod g
  dom_tens : ∀ f g, dom (tens f g) = dom f ++ dom g
  cod_tens : ∀ f g, cod (tens f g) = cod f ++ cod g
  id_comp : ∀ f, comp (id (dom f)) f = f
  comp_id : ∀ f, comp f (id (cod f)) = f
  comp_assoc : ∀ f g h, cod f = dom g → cod g = dom h → comp (comp f g) h = comp f (comp g h)
  tens_assoc : ∀ f g h, tens (tens f g) h = tens f (tens g h)
  id_nil_tens : ∀ f, tens (id []) f = f
  tens_id_nil : ∀ f, tens f (id []) = f
  tens_id_id : ∀ a b, tens (id a) (id b) = id (a ++ b)
  interchange : ∀ f g f' g', cod f = dom f' → cod g = dom g' →
    comp (tens f g) (tens f' g') = tens (comp f f') (comp g g')

/-- A monoidal functor into `C`: images of objects (lists, possibly empty) and of boxes, with
    the only requirement that box images have the image types. -/
structure MFunctor {O M : Type} (C : SMC O M) where
  ob : Ob → List O
  ar : Box → M
  dom_ar : ∀ b, C.dom (ar b) = b.dom.flatMap ob
  cod_ar : ∀ b, C.cod (ar b) = b.cod.flatMap ob

namespace MFunctor
variable {O M : Type} {C : SMC O M} (F : MFunctor C)

def ty (t : Ty) : List O := t.flatMap F.ob

@[simp] theorem ty_append (a b : Ty) : F.ty (a ++ b) = F.ty a ++ F.ty b := by simp [ty]
@[simp] theorem ty_nil : F.ty [] = [] := rfl

/-- `id(F left) ⊗ F(box) ⊗ id(F right)` -/
def layer (l : Layer) : M := C.tens (C.tens (C.id (F.ty l.left)) (F.ar l.box)) (C.id (F.ty l.right))

theorem dom_layer (l : Layer) : C.dom (F.layer l) = F.ty l.dom := by
  simp [layer, C.dom_tens, C.dom_id, F.dom_ar, Layer.dom, ty]

theorem cod_layer (l : Layer) : C.cod (F.layer l) = F.ty l.cod := by
  simp [layer, C.cod_tens, C.cod_id, F.cod_ar, Layer.cod, ty]

/-- The denotation of a list of layers read from type `s`. -/
def layers (s : Ty) (ls : List Layer) : M := ls.foldl (fun acc l => C.comp acc (F.layer l)) (C.id (F.ty s))

/-- `⟦d⟧`: the image of a diagram. -/
def eval (d : Diagram) : M := F.layers d.dom d.layers.boxes

end MFunctor

/-! ### The exchange law on layers -/

section
variable {O M : Type} (C : SMC O M)

theorem SMC.tens3_id (a b c : List O) :
    C.tens (C.tens (C.id a) (C.id b)) (C.id c) = C.id (a ++ b ++ c) := by
  rw [C.tens_id_id, C.tens_id_id]

/-- `(f ⊗ id) ∘ (id ⊗ g) = f ⊗ g = (id ⊗ g) ∘ (f ⊗ id)` in the form needed for layers. -/
theorem SMC.exchange_core (f g : M) :
    C.comp (C.tens f (C.id (C.dom g))) (C.tens (C.id (C.cod f)) g) = C.tens f g ∧
    C.comp (C.tens (C.id (C.dom f)) g) (C.tens f (C.id (C.cod g))) = C.tens f g := by
  constructor
  · rw [C.interchange _ _ _ _ (by rw [C.dom_id]) (by rw [C.cod_id]), C.comp_id, C.id_comp]
  · rw [C.interchange _ _ _ _ (by rw [C.cod_id]) (by rw [C.dom_id]), C.id_comp, C.comp_id]

end

section
variable {O M : Type} {C : SMC O M} (F : MFunctor C)

/-- Both stackings of two disconnected boxes `f` (left) and `g` (right) denote
    `id l ⊗ f ⊗ id m ⊗ g ⊗ id r`. -/
theorem MFunctor.layer_exchange (l m r : Ty) (f g : Box) :
    C.comp (F.layer ⟨l, f, m ++ g.dom ++ r⟩) (F.layer ⟨l ++ f.cod ++ m, g, r⟩) =
    C.comp (F.layer ⟨l ++ f.dom ++ m, g, r⟩) (F.layer ⟨l, f, m ++ g.cod ++ r⟩) := by
  -- abbreviations
  -- the two layers of each side in the regrouped form  (A ⊗ B)
  have e1 : F.layer ⟨l, f, m ++ g.dom ++ r⟩ =
      C.tens (C.tens (C.tens (C.id (F.ty l)) (F.ar f)) (C.id (F.ty m)))
             (C.id (C.dom (C.tens (F.ar g) (C.id (F.ty r))))) := by
    simp only [MFunctor.layer, MFunctor.ty_append, C.dom_tens, C.dom_id, F.dom_ar]
    rw [← C.tens_id_id, ← C.tens_id_id (F.ty m)]
    show _ = C.tens _ (C.id (F.ty g.dom ++ F.ty r))
    rw [← C.tens_id_id (F.ty g.dom), C.tens_assoc, C.tens_assoc, C.tens_assoc, C.tens_assoc]
  have e2 : F.layer ⟨l ++ f.cod ++ m, g, r⟩ =
      C.tens (C.id (C.cod (C.tens (C.tens (C.id (F.ty l)) (F.ar f)) (C.id (F.ty m)))))
             (C.tens (F.ar g) (C.id (F.ty r))) := by
    simp only [MFunctor.layer, MFunctor.ty_append, C.cod_tens, C.cod_id, F.cod_ar]
    show _ = C.tens (C.id (F.ty l ++ F.ty f.cod ++ F.ty m)) _
    rw [C.tens_assoc]
  have e3 : F.layer ⟨l ++ f.dom ++ m, g, r⟩ =
      C.tens (C.id (C.dom (C.tens (C.tens (C.id (F.ty l)) (F.ar f)) (C.id (F.ty m)))))
             (C.tens (F.ar g) (C.id (F.ty r))) := by
    simp only [MFunctor.layer, MFunctor.ty_append, C.dom_tens, C.dom_id, F.dom_ar]
    show _ = C.tens (C.id (F.ty l ++ F.ty f.dom ++ F.ty m)) _
    rw [C.tens_assoc]
  have e4 : F.layer ⟨l, f, m ++ g.cod ++ r⟩ =
      C.tens (C.tens (C.tens (C.id (F.ty l)) (F.ar f)) (C.id (F.ty m)))
             (C.id (C.cod (C.tens (F.ar g) (C.id (F.ty r))))) := by
    simp only [MFunctor.layer, MFunctor.ty_append, C.cod_tens, C.cod_id, F.cod_ar]
    rw [← C.tens_id_id, ← C.tens_id_id (F.ty m)]
    show _ = C.tens _ (C.id (F.ty g.cod ++ F.ty r))
    rw [← C.tens_id_id (F.ty g.cod), C.tens_assoc, C.tens_assoc, C.tens_assoc, C.tens_assoc]
  rw [e1, e2, e3, e4, (C.exchange_core _ _).1, (C.exchange_core _ _).2]

end

end DV
