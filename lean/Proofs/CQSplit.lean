/-
  Proofs/CQSplit.lean — the mixed evaluation of a circuit without mixed boxes is the classical
  part (read as it is) next to the doubled quantum part: `Circuit.eval_split`.

  `CQMap.hybrid dom cod a u` is the classical-quantum map `a ⊗ ū ⊗ u`.  Such maps are closed
  under composition (`hybrid_comp`) and under the tensor of classical-quantum maps
  (`hybrid_tensor`: the block permutation of `CQMap.tensor` sorts the classical wires of both
  factors before the quantum ones, which is exactly the Kronecker product of the classical parts
  next to the doubled Kronecker product of the quantum parts), and every box that is not mixed
  is of this form (`LBox.NonMixed.split`).  For every commutative star-ring.
-/
import Proofs.CQ
import Model.CQSplit

namespace DV.CQ

set_option linter.unusedSectionVars false

variable {R : Type} [CommRing R] [StarRing R]

namespace CQMap

@[simp] theorem hybrid_dom (d e : CQTy) (a u : Mat R) : (hybrid d e a u).dom = d := rfl
@[simp] theorem hybrid_cod (d e : CQTy) (a u : Mat R) : (hybrid d e a u).cod = e := rfl

theorem hybrid_f (d e : CQTy) (a u : Mat R) (c q p c' q' p' : Nat) :
    (hybrid d e a u).f c q p c' q' p' = a.f c c' * (star (u.f q q') * u.f p p') := rfl

/-- `(a ⊗ ū ⊗ u) ≫ (a' ⊗ ū' ⊗ u') = (a ≫ a') ⊗ conj(u ≫ u') ⊗ (u ≫ u')`. -/
theorem hybrid_comp (d m e : CQTy) (a u a' u' : Mat R) (ha : a.c = m.C) (hu : u.c = m.Q) :
    (hybrid d m a u).comp (hybrid m e a' u') = hybrid d e (a.comp a') (u.comp u') := by
  show CQMap.mk _ _ _ = CQMap.mk _ _ _
  congr 1
  funext c q p c' q' p'
  show sum3 m.C m.Q (fun x y z => (a.f c x * (star (u.f q y) * u.f p z)) *
        (a'.f x c' * (star (u'.f y q') * u'.f z p'))) =
    (sumN a.c fun x => a.f c x * a'.f x c') *
      (star (sumN u.c fun y => u.f q y * u'.f y q') * (sumN u.c fun z => u.f p z * u'.f z p'))
  rw [star_sumN, sumN_mul_sumN, sumN_mul_sumN, ha, hu]
  unfold sum3
  refine sumN_congr fun x _ => sumN_congr fun y _ => ?_
  rw [mul_sumN]
  refine sumN_congr fun z _ => ?_
  beta_reduce
  rw [star_mul']
  ring

/-- The tensor of classical-quantum maps (cqmap.py:163-186) of two such maps is again one:
    Kronecker products of the classical parts and of the amplitude parts. -/
theorem hybrid_tensor (d e d' e' : CQTy) (a u a' u' : Mat R)
    (har : a'.r = d'.C) (hac : a'.c = e'.C) (hur : u'.r = d'.Q) (huc : u'.c = e'.Q) :
    (hybrid d e a u).tensor (hybrid d' e' a' u') =
      hybrid (d.tensor d') (e.tensor e') (a.kron a') (u.kron u') := by
  show CQMap.mk _ _ _ = CQMap.mk _ _ _
  congr 1
  funext c q p c' q' p'
  show (a.f (c / d'.C) (c' / e'.C) * (star (u.f (q / d'.Q) (q' / e'.Q)) * u.f (p / d'.Q) (p' / e'.Q))) *
      (a'.f (c % d'.C) (c' % e'.C) * (star (u'.f (q % d'.Q) (q' % e'.Q)) * u'.f (p % d'.Q) (p' % e'.Q))) =
    (a.f (c / a'.r) (c' / a'.c) * a'.f (c % a'.r) (c' % a'.c)) *
      (star (u.f (q / u'.r) (q' / u'.c) * u'.f (q % u'.r) (q' % u'.c)) *
        (u.f (p / u'.r) (p' / u'.c) * u'.f (p % u'.r) (p' % u'.c)))
  rw [har, hac, hur, huc, star_mul']
  ring

/-- The identity is of this form. -/
theorem hybrid_id (t : CQTy) :
    hybrid t t (Mat.id t.C : Mat R) (Mat.id t.Q) = CQMap.id t := by
  show CQMap.mk _ _ _ = CQMap.mk _ _ _
  congr 1
  funext c q p c' q' p'
  show (iv (c = c') : R) * (star (iv (q = q')) * iv (p = p')) = iv (c = c' ∧ q = q' ∧ p = p')
  rw [star_iv, iv_and, iv_and]

theorem hybrid_congr (d e : CQTy) {a a' u u' : Mat R} (ha : a ≈ₘ a') (hu : u ≈ₘ u')
    (har : a.r = d.C) (hac : a.c = e.C) (hur : u.r = d.Q) (huc : u.c = e.Q) :
    hybrid d e a u ≈ hybrid d e a' u' := by
  refine ⟨rfl, rfl, fun c q p c' q' p' hc hq hp hc' hq' hp' => ?_⟩
  simp only [hybrid_dom, hybrid_cod] at hc hq hp hc' hq' hp'
  rw [hybrid_f, hybrid_f, ha.2.2 c c' (har ▸ hc) (hac ▸ hc'), hu.2.2 q q' (hur ▸ hq) (huc ▸ hq'),
    hu.2.2 p p' (hur ▸ hp) (huc ▸ hp')]

/-- `a ⊗ ū ⊗ u` is the tensor (of classical-quantum maps) of the classical map `a`
    (`CQMap.classical`, cqmap.py:230-233) and the doubled `u` (`CQMap.pure`, 224-228). -/
theorem hybrid_eq_classical_tensor_pure (dc ec dq eq : List Nat) (a u : Mat R) :
    hybrid ⟨dc, dq⟩ ⟨ec, eq⟩ a u ≈ (CQMap.classical dc ec a).tensor (CQMap.pure dq eq u) := by
  refine ⟨by simp [classical, CQTy.tensor, CQTy.ofC, CQTy.ofQ],
    by simp [classical, CQTy.tensor, CQTy.ofC, CQTy.ofQ], fun c q p c' q' p' _ hq hp _ hq' hp' => ?_⟩
  have hq : q < prodL dq := hq
  have hp : p < prodL dq := hp
  have hq' : q' < prodL eq := hq'
  have hp' : p' < prodL eq := hp'
  rw [tensor_f]
  show a.f c c' * (star (u.f q q') * u.f p p') =
    a.f (flat 1 (c / 1) (q / prodL dq) (p / prodL dq)) (flat 1 (c' / 1) (q' / prodL eq) (p' / prodL eq)) *
      (star (u.f (q % prodL dq) (q' % prodL eq)) * u.f (p % prodL dq) (p' % prodL eq))
  rw [Nat.div_eq_of_lt hq, Nat.div_eq_of_lt hp, Nat.div_eq_of_lt hq', Nat.div_eq_of_lt hp',
    Nat.mod_eq_of_lt hq, Nat.mod_eq_of_lt hp, Nat.mod_eq_of_lt hq', Nat.mod_eq_of_lt hp']
  simp [flat]

end CQMap

/-! ### boxes that are not mixed -/

/-- A type of digits only. -/
def allB (t : WTy) : Prop := ∀ w ∈ t, ∃ d, w = Wire.bit d

theorem allB_append {s t : WTy} : allB (s ++ t) ↔ allB s ∧ allB t := by
  simp [allB, or_imp, forall_and]

theorem F_allB {t : WTy} (h : allB t) : F t = .ofC (dims t) := by
  induction t with
  | nil => rfl
  | cons w ws ih =>
    obtain ⟨d, rfl⟩ := h w (List.mem_cons_self)
    have := ih (fun w hw => h w (List.mem_cons_of_mem _ hw))
    simp [F, this, CQTy.tensor, CQTy.ofC, Wire.cdim, Wire.qdim, dims, Wire.dim]

/-- A box whose mixed interpretation is its classical part next to its doubled quantum part. -/
structure LBox.Split (b : LBox R) : Prop where
  rC : b.evalC.r = (F b.dom).C
  cC : b.evalC.c = (F b.cod).C
  rQ : b.evalQ.r = (F b.dom).Q
  cQ : b.evalQ.c = (F b.cod).Q
  split : b.eval ≈ CQMap.hybrid (F b.dom) (F b.cod) b.evalC b.evalQ

/-- The boxes of a circuit without mixed boxes (cqmap.py:290-295, monoidal.py:836-838):
    classical gates on bits (`Bits`, `ClassicalGate`, `Copy`, `Match`, weights; also flagged
    daggers), quantum boxes on qubits (`Ket`, `Bra`, gates, rotations; flagged daggers), pure
    scalars, swaps of any two types. -/
inductive LBox.NonMixed : LBox R → Prop
  | classical (dag : Bool) (d c : WTy) (u : Mat R) (hd : allB d) (hc : allB c)
      (hr : u.r = prodL (dims d)) (hcc : u.c = prodL (dims c)) : NonMixed ⟨dag, .classical d c u⟩
  | quantum (dag : Bool) (d c : WTy) (u : Mat R) (hd : allQ d) (hc : allQ c)
      (hr : u.r = prodL (dims d)) (hcc : u.c = prodL (dims c)) : NonMixed ⟨dag, .quantum d c u⟩
  | scalar (dag : Bool) (z : R) : NonMixed ⟨dag, .scalar false z⟩
  | swap (l r : WTy) : NonMixed ⟨false, .swap l r⟩

theorem flat_one (c : Nat) : CQMap.flat 1 c 0 0 = c := by simp [CQMap.flat]

theorem LBox.Split.classical (dag : Bool) (d c : WTy) (u : Mat R) (hd : allB d) (hc : allB c)
    (hr : u.r = prodL (dims d)) (hcc : u.c = prodL (dims c)) :
    LBox.Split ⟨dag, .classical d c u⟩ := by
  have ed : F d = .ofC (dims d) := F_allB hd
  have ec : F c = .ofC (dims c) := F_allB hc
  cases dag with
  | false =>
    refine ⟨by show u.r = (F d).C; rw [ed]; exact hr, by show u.c = (F c).C; rw [ec]; exact hcc,
      by show 1 = (F d).Q; rw [ed]; rfl, by show 1 = (F c).Q; rw [ec]; rfl, rfl, rfl, ?_⟩
    intro x q p x' q' p' _ hq hp _ hq' hp'
    have hq : q < (F d).Q := hq
    have hp : p < (F d).Q := hp
    have hq' : q' < (F c).Q := hq'
    have hp' : p' < (F c).Q := hp'
    rw [ed] at hq hp
    rw [ec] at hq' hp'
    simp only [CQTy.ofC_Q, Nat.lt_one_iff] at hq hp hq' hp'
    subst hq hp hq' hp'
    show u.f (CQMap.flat (F d).Q x 0 0) (CQMap.flat (F c).Q x' 0 0) = u.f x x' * (star 1 * 1)
    rw [ed, ec]
    simp [flat_one]
  | true =>
    refine ⟨by show u.c = (F c).C; rw [ec]; exact hcc, by show u.r = (F d).C; rw [ed]; exact hr,
      by show 1 = (F c).Q; rw [ec]; rfl, by show 1 = (F d).Q; rw [ed]; rfl, rfl, rfl, ?_⟩
    intro x q p x' q' p' _ hq hp _ hq' hp'
    have hq : q < (F c).Q := hq
    have hp : p < (F c).Q := hp
    have hq' : q' < (F d).Q := hq'
    have hp' : p' < (F d).Q := hp'
    rw [ec] at hq hp
    rw [ed] at hq' hp'
    simp only [CQTy.ofC_Q, Nat.lt_one_iff] at hq hp hq' hp'
    subst hq hp hq' hp'
    show star (u.f (CQMap.flat (F d).Q x' 0 0) (CQMap.flat (F c).Q x 0 0)) =
      star (u.f x' x) * (star (star 1) * star 1)
    rw [ed, ec]
    simp [flat_one]

theorem LBox.Split.quantum (dag : Bool) (d c : WTy) (u : Mat R) (hd : allQ d) (hc : allQ c)
    (hr : u.r = prodL (dims d)) (hcc : u.c = prodL (dims c)) :
    LBox.Split ⟨dag, .quantum d c u⟩ := by
  have ed : F d = .ofQ (dims d) := F_allQ hd
  have ec : F c = .ofQ (dims c) := F_allQ hc
  cases dag with
  | false =>
    refine ⟨by show 1 = (F d).C; rw [ed]; rfl, by show 1 = (F c).C; rw [ec]; rfl,
      by show u.r = (F d).Q; rw [ed]; exact hr, by show u.c = (F c).Q; rw [ec]; exact hcc, ?_, ?_, ?_⟩
    · show CQTy.ofQ (F d).q = F d
      rw [ed]; rfl
    · show CQTy.ofQ (F c).q = F c
      rw [ec]; rfl
    · intro x q p x' q' p' _ _ _ _ _ _
      show star (u.f q q') * u.f p p' = 1 * (star (u.f q q') * u.f p p')
      rw [one_mul]
  | true =>
    refine ⟨by show 1 = (F c).C; rw [ec]; rfl, by show 1 = (F d).C; rw [ed]; rfl,
      by show u.c = (F c).Q; rw [ec]; exact hcc, by show u.r = (F d).Q; rw [ed]; exact hr, ?_, ?_, ?_⟩
    · show CQTy.ofQ (F c).q = F c
      rw [ec]; rfl
    · show CQTy.ofQ (F d).q = F d
      rw [ed]; rfl
    · intro x q p x' q' p' _ _ _ _ _ _
      show star (star (u.f q' q) * u.f p' p) = star 1 * (star (star (u.f q' q)) * star (u.f p' p))
      rw [star_mul', star_one, one_mul]

theorem LBox.Split.scalar (dag : Bool) (z : R) : LBox.Split ⟨dag, .scalar false z⟩ := by
  cases dag with
  | false =>
    refine ⟨rfl, rfl, rfl, rfl, rfl, rfl, fun _ _ _ _ _ _ _ _ _ _ _ _ => ?_⟩
    show star z * z = 1 * (star z * z)
    rw [one_mul]
  | true =>
    refine ⟨rfl, rfl, rfl, rfl, rfl, rfl, fun _ _ _ _ _ _ _ _ _ _ _ _ => ?_⟩
    show star (star z * z) = star 1 * (star (star z) * star z)
    rw [star_mul', star_one, one_mul, mul_comm]

theorem LBox.Split.swap (l r : WTy) : LBox.Split (R := R) ⟨false, .swap l r⟩ := by
  refine ⟨?_, ?_, ?_, ?_, ?_, ?_, ?_⟩
  · show (F l).C * (F r).C = (F (l ++ r)).C
    rw [F_append, CQTy.tensor_C]
  · show (F r).C * (F l).C = (F (r ++ l)).C
    rw [F_append, CQTy.tensor_C]
  · show (F l).Q * (F r).Q = (F (l ++ r)).Q
    rw [F_append, CQTy.tensor_Q]
  · show (F r).Q * (F l).Q = (F (r ++ l)).Q
    rw [F_append, CQTy.tensor_Q]
  · show (F l).tensor (F r) = F (l ++ r)
    rw [F_append]
  · show (F r).tensor (F l) = F (r ++ l)
    rw [F_append]
  · intro c q p c' q' p' _ _ _ _ _ _
    show (Mat.swap (F l).C (F r).C).f c c' * (Mat.swap (F l).Q (F r).Q).f q q' *
        (Mat.swap (F l).Q (F r).Q).f p p' =
      (Mat.swap (F l).C (F r).C).f c c' *
        (star ((Mat.swap (F l).Q (F r).Q).f q q') * (Mat.swap (F l).Q (F r).Q).f p p')
    have e : star ((Mat.swap (F l).Q (F r).Q : Mat R).f q q') = (Mat.swap (F l).Q (F r).Q).f q q' := by
      show star (iv _) = iv _
      rw [star_iv]
    rw [e, mul_assoc]

theorem LBox.NonMixed.split {b : LBox R} (h : b.NonMixed) : b.Split := by
  cases h with
  | classical dag d c u hd hc hr hcc => exact .classical dag d c u hd hc hr hcc
  | quantum dag d c u hd hc hr hcc => exact .quantum dag d c u hd hc hr hcc
  | scalar dag z => exact .scalar dag z
  | swap l r => exact .swap l r

theorem LBox.Split.typed_dom {b : LBox R} (h : b.Split) : b.eval.dom = F b.dom := h.split.1
theorem LBox.Split.typed_cod {b : LBox R} (h : b.Split) : b.eval.cod = F b.cod := h.split.2.1

/-! ### layers and whole circuits -/

theorem layerC_r (l r : WTy) (b : LBox R) (hb : b.Split) :
    (layerC l b r).r = (F (l ++ b.dom ++ r)).C := by
  show ((F l).C * b.evalC.memo.r) * (F r).C = _
  rw [F_append, F_append, CQTy.tensor_C, CQTy.tensor_C, ← hb.rC]; rfl

theorem layerC_c (l r : WTy) (b : LBox R) (hb : b.Split) :
    (layerC l b r).c = (F (l ++ b.cod ++ r)).C := by
  show ((F l).C * b.evalC.memo.c) * (F r).C = _
  rw [F_append, F_append, CQTy.tensor_C, CQTy.tensor_C, ← hb.cC]; rfl

theorem layerQ_r (l r : WTy) (b : LBox R) (hb : b.Split) :
    (layerQ l b r).r = (F (l ++ b.dom ++ r)).Q := by
  show ((F l).Q * b.evalQ.memo.r) * (F r).Q = _
  rw [F_append, F_append, CQTy.tensor_Q, CQTy.tensor_Q, ← hb.rQ]; rfl

theorem layerQ_c (l r : WTy) (b : LBox R) (hb : b.Split) :
    (layerQ l b r).c = (F (l ++ b.cod ++ r)).Q := by
  show ((F l).Q * b.evalQ.memo.c) * (F r).Q = _
  rw [F_append, F_append, CQTy.tensor_Q, CQTy.tensor_Q, ← hb.cQ]; rfl

/-- One layer `id ⊗ box ⊗ id` of the mixed evaluation, for ANY types left and right of the box
    (bits and qubits in any order): the layer of the classical part next to the doubled layer of
    the quantum part. -/
theorem layer_split (l r : WTy) (b : LBox R) (hb : b.Split) :
    layerMap l b r ≈
      CQMap.hybrid (F (l ++ b.dom ++ r)) (F (l ++ b.cod ++ r)) (layerC l b r) (layerQ l b r) := by
  -- the un-tabulated layers
  have eC : layerC l b r ≈ₘ ((Mat.id (F l).C).kron b.evalC).kron (Mat.id (F r).C) :=
    (Mat.memo_eqv _).trans
      (Mat.kron_congr (Mat.kron_congr (Mat.Eqv.rfl' _) (Mat.memo_eqv _)) (Mat.Eqv.rfl' _))
  have eQ : layerQ l b r ≈ₘ ((Mat.id (F l).Q).kron b.evalQ).kron (Mat.id (F r).Q) :=
    (Mat.memo_eqv _).trans
      (Mat.kron_congr (Mat.kron_congr (Mat.Eqv.rfl' _) (Mat.memo_eqv _)) (Mat.Eqv.rfl' _))
  have e1 := CQMap.hybrid_congr (F (l ++ b.dom ++ r)) (F (l ++ b.cod ++ r)) eC eQ
    (layerC_r l r b hb) (layerC_c l r b hb) (layerQ_r l r b hb) (layerQ_c l r b hb)
  refine CQMap.Eqv.trans ?_ e1.symm
  rw [F_append, F_append, F_append, F_append]
  rw [← CQMap.hybrid_tensor _ _ _ _ _ _ _ _ rfl rfl rfl rfl,
    ← CQMap.hybrid_tensor _ _ _ _ _ _ _ _ hb.rC hb.cC hb.rQ hb.cQ]
  refine (CQMap.memo_eqv _).trans (CQMap.tensor_congr (CQMap.tensor_congr ?_ ?_) ?_)
  · rw [CQMap.hybrid_id]; exact CQMap.Eqv.rfl' _
  · exact (CQMap.memo_eqv _).trans hb.split
  · rw [CQMap.hybrid_id]; exact CQMap.Eqv.rfl' _

/-- The induction over the boxes: the accumulated map stays of the form `a ⊗ ū ⊗ u`, `a` and `u`
    being the two plain contractions. -/
theorem eval_split_go (boxes : List (Nat × LBox R)) :
    ∀ (acc : CQMap R) (accC accQ : Mat R) (dom scan : WTy),
      acc ≈ CQMap.hybrid (F dom) (F scan) accC accQ →
      accC.r = (F dom).C → accC.c = (F scan).C → accQ.r = (F dom).Q → accQ.c = (F scan).Q →
      WT scan boxes → (∀ ob ∈ boxes, ob.2.Split) →
      ∃ m, evalMixedGo acc scan boxes = .ok m ∧
        m ≈ CQMap.hybrid (F dom) (F (finalScan scan boxes))
              (evalCGo accC scan boxes) (evalQGo accQ scan boxes) := by
  induction boxes with
  | nil => intro acc accC accQ dom scan h _ _ _ _ _ _; exact ⟨acc, rfl, h⟩
  | cons ob rest ih =>
    obtain ⟨off, b⟩ := ob
    intro acc accC accQ dom scan hacc hCr hCc hQr hQc hWT hb
    have hp := hb (off, b) (List.mem_cons_self)
    have hsplit := scan_split hWT.1
    have hL := layer_split (scan.take off) (scan.drop (off + b.dom.length)) b hp
    rw [← hsplit] at hL
    have hdomL : (layerMap (scan.take off) b (scan.drop (off + b.dom.length))).dom = acc.cod := by
      rw [hL.1, hacc.2.1]; rfl
    have hcomp : acc.comp? (layerMap (scan.take off) b (scan.drop (off + b.dom.length))) =
        .ok (acc.comp (layerMap (scan.take off) b (scan.drop (off + b.dom.length)))) := by
      unfold CQMap.comp?
      rw [hdomL, if_pos rfl, if_pos rfl]
    have hCc' : (accC.comp (layerC (scan.take off) b (scan.drop (off + b.dom.length)))).memo.c =
        (F (scanStep scan off b)).C := layerC_c _ _ b hp
    have hQc' : (accQ.comp (layerQ (scan.take off) b (scan.drop (off + b.dom.length)))).memo.c =
        (F (scanStep scan off b)).Q := layerQ_c _ _ b hp
    have hnew : (acc.comp (layerMap (scan.take off) b (scan.drop (off + b.dom.length)))).memo ≈
        CQMap.hybrid (F dom) (F (scanStep scan off b))
          (accC.comp (layerC (scan.take off) b (scan.drop (off + b.dom.length)))).memo
          (accQ.comp (layerQ (scan.take off) b (scan.drop (off + b.dom.length)))).memo := by
      refine (CQMap.memo_eqv _).trans ((CQMap.comp_congr hacc hL hdomL.symm).trans ?_)
      rw [CQMap.hybrid_comp _ _ _ _ _ _ _ hCc hQc]
      exact (CQMap.hybrid_congr (F dom) (F (scanStep scan off b))
        (Mat.memo_eqv (accC.comp (layerC (scan.take off) b (scan.drop (off + b.dom.length)))))
        (Mat.memo_eqv (accQ.comp (layerQ (scan.take off) b (scan.drop (off + b.dom.length)))))
        hCr hCc' hQr hQc').symm
    obtain ⟨m, hm, hmd⟩ := ih _ _ _ dom _ hnew hCr hCc' hQr hQc' hWT.2
      (fun ob hob => hb ob (List.mem_cons_of_mem _ hob))
    refine ⟨m, ?_, hmd⟩
    unfold evalMixedGo
    rw [hcomp]
    exact hm

/-- **eval_mixed_flag** for the model: the mixed evaluation of a well-typed circuit without mixed
    boxes is `a ⊗ ū ⊗ u`, `a` the plain evaluation of its classical part over the bit wires and
    `u` the plain evaluation of its quantum part over the qubit wires — however bits and qubits
    are interleaved, and whether or not they ever sit on the same layer. -/
theorem Circuit.eval_split (c : Circuit R) (hWT : WT c.dom c.boxes)
    (hb : ∀ ob ∈ c.boxes, ob.2.Split) :
    ∃ m, c.evalMixed = .ok m ∧ m ≈ c.evalSplit := by
  refine eval_split_go c.boxes _ _ _ c.dom c.dom ?_ rfl rfl rfl rfl hWT hb
  rw [CQMap.hybrid_id]
  exact CQMap.Eqv.rfl' _

end DV.CQ
