/-
  Proofs/CircuitBox.lean — every box class of quantum/circuit.py and quantum/gates.py has a
  `dagger()` that exchanges dom and cod, hence the dagger of a well-typed circuit (reversed layers,
  class-specific box daggers spliced in unscanned) is well-typed.
-/
import Model.CircuitBox
import Proofs.WF

namespace DV.CB
open DV

theorem CBox.dagger_dom (b : CBox) : b.dagger.dom = b.cod := by
  cases b with
  | digits dim n dg => cases dg <;> simp [CBox.dagger, CBox.dom, CBox.cod]
  | _ => simp [CBox.dagger, CBox.dom, CBox.cod]

theorem CBox.dagger_cod (b : CBox) : b.dagger.cod = b.dom := by
  cases b with
  | digits dim n dg => cases dg <;> simp [CBox.dagger, CBox.dom, CBox.cod]
  | _ => simp [CBox.dagger, CBox.dom, CBox.cod]

/-- Daggering twice gives back a box of the original type. -/
theorem CBox.dagger_dagger_type (b : CBox) :
    b.dagger.dagger.dom = b.dom ∧ b.dagger.dagger.cod = b.cod := by
  rw [CBox.dagger_dom, CBox.dagger_cod, CBox.dagger_cod, CBox.dagger_dom]; exact ⟨rfl, rfl⟩

@[simp] theorem CLayer.dag_dom (l : CLayer) : l.dag.toLayer.dom = l.toLayer.cod := by
  simp [CLayer.dag, CLayer.toLayer, Layer.dom, Layer.cod, CBox.toBox, CBox.dagger_dom]

@[simp] theorem CLayer.dag_cod (l : CLayer) : l.dag.toLayer.cod = l.toLayer.dom := by
  simp [CLayer.dag, CLayer.toLayer, Layer.dom, Layer.cod, CBox.toBox, CBox.dagger_cod]

/-- Reading the daggered layers from the old codomain reaches the old domain. -/
theorem chain_cdagger {s c : Ty} {ls : List CLayer} (h : Chain s (ls.map CLayer.toLayer) c) :
    Chain c ((cdagger ls).map CLayer.toLayer) s := by
  unfold cdagger
  induction ls generalizing s with
  | nil => simp [Chain] at h ⊢; exact h.symm
  | cons x xs ih =>
    have h' : s = x.toLayer.dom ∧ Chain x.toLayer.cod (xs.map CLayer.toLayer) c := by
      simpa [Chain] using h
    have := ih h'.2
    simp only [List.reverse_cons, List.map_append, List.map_cons, List.map_nil]
    exact chain_append.mpr ⟨x.toLayer.cod, this, by simp [Chain, h'.1]⟩

/-- The dagger of a circuit as the library computes it: `d.cod → d.dom`, the reversed layers with
    each box replaced by its own class's dagger. -/
def circuitDagger (d : Diagram) (ls : List CLayer) : Diagram :=
  Diagram.ofLayers ⟨d.cod, d.dom, (cdagger ls).map CLayer.toLayer⟩

theorem circuitDagger_wf {d : Diagram} {ls : List CLayer} (hd : d.WF)
    (hl : d.layers.boxes = ls.map CLayer.toLayer) : (circuitDagger d ls).WF := by
  apply Diagram.ofLayers_wf
  have hc : Chain d.dom (ls.map CLayer.toLayer) d.cod := by
    have := hd.chain
    unfold LArrow.WF at this
    rwa [hd.ldom, hd.lcod, hl] at this
  exact chain_cdagger hc

/-- On types, offsets and layers the class-specific dagger is the generic dagger of the model:
    same dom, cod, offsets, and box types layer by layer. -/
theorem cdagger_shape (ls : List CLayer) :
    ((cdagger ls).map CLayer.toLayer).map (fun l => (l.left, l.box.dom, l.box.cod, l.right)) =
    ((ls.map CLayer.toLayer).reverse.map Layer.dag).map
      (fun l => (l.left, l.box.dom, l.box.cod, l.right)) := by
  simp [cdagger, List.map_reverse, CLayer.dag, CLayer.toLayer, CBox.toBox, CBox.dagger_dom,
    CBox.dagger_cod, Function.comp_def, Layer.dag]

end DV.CB
