/-
  Proofs/ReprPRO.lean — the PRO types (Model/ReprPRO.lean): equality, printed form, hash.
-/
import Model.ReprPRO

namespace DV

/-- Python's `str(int)` is injective (the digits determine the number). -/
theorem natRepr_inj {m n : Nat} (h : m.repr = n.repr) : m = n := by
  have h' : Nat.toDigits 10 m = Nat.toDigits 10 n := by
    rw [← Nat.toList_repr, ← Nat.toList_repr, h]
  have := congrArg (fun l => Nat.ofDigitChars 10 l 0) h'
  simpa [Nat.ofDigitChars_ten_toDigits] using this

theorem proTy_length (n : Nat) : (proTy n).length = n := by simp [proTy]

/-- `PRO(m) == PRO(n)` (monoidal.Ty.__eq__ on the objects) exactly when `m = n`. -/
theorem proTy_eq_iff (m n : Nat) : proTy m = proTy n ↔ m = n := by
  constructor
  · intro h
    have := congrArg List.length h
    simpa [proTy_length] using this
  · intro h; rw [h]

theorem reprPRO_eq (t : Ty) : reprPRO t = "PRO(" ++ toString (t.length : Int) ++ ")" := by
  simp [reprPRO, reprTPRO, RT.render, RT.renderArgs, RT.int]

theorem reprPRO_proTy (n : Nat) : reprPRO (proTy n) = "PRO(" ++ n.repr ++ ")" := by
  rw [reprPRO_eq, proTy_length]
  simp [Int.toString_eq_repr, Int.repr_eq_if]

/-- Equal PRO values print alike. -/
theorem reprPRO_congr {s t : Ty} (h : s = t) : reprPRO s = reprPRO t := by rw [h]

/-- The printed form determines the PRO type. -/
theorem reprPRO_inj {m n : Nat} (h : reprPRO (proTy m) = reprPRO (proTy n)) : m = n := by
  rw [reprPRO_proTy, reprPRO_proTy] at h
  have h1 : ("PRO(" ++ m.repr ++ ")").toList = ("PRO(" ++ n.repr ++ ")").toList := by rw [h]
  simp only [String.toList_append, List.append_assoc] at h1
  have h2 := List.append_cancel_left h1
  have h3 := List.append_cancel_right h2
  exact natRepr_inj (String.toList_inj.mp h3)

theorem proUpgrade_proTy (n : Nat) : proUpgrade (proTy n) = .ok n := by
  unfold proUpgrade
  have : (proTy n).all (fun x => x.name == "1") = true := by
    simp [proTy, proOb, List.all_replicate]
  rw [this]; simp [proTy_length]

/-- `PRO(m) @ PRO(n)` is the PRO type of `m + n` wires. -/
theorem proTensor_eq (m n : Nat) : proTensor m n = .ok (m + n) := by
  unfold proTensor
  have : proTy m ++ proTy n = proTy (m + n) := by simp [proTy, List.replicate_append_replicate]
  rw [this, proUpgrade_proTy]

/-- Every slice of a PRO type is a PRO type (never a `TypeError`). -/
theorem proSlice_ok (n : Nat) (i j : Option Int) :
    proSlice n i j = .ok (pySlice (proTy n) i j).length := by
  unfold proSlice proUpgrade
  have : (pySlice (proTy n) i j).all (fun x => x.name == "1") = true := by
    rw [List.all_eq_true]
    intro x hx
    have hx' : x ∈ proTy n := by
      unfold pySlice at hx
      exact List.mem_of_mem_drop (List.mem_of_mem_take hx)
    have : x = proOb := List.eq_of_mem_replicate hx'
    subst this; rfl
  rw [this]; rfl

end DV
