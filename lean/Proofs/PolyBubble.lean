/-
  Proofs/PolyBubble.lean — the EXECUTABLE instance of the bubble rule (Proofs/ParamBubble.lean):
  for diagrams with data in `Poly` made of plain boxes and single-wire polynomial bubbles, the
  gradient the driver computes (`polyXGrad`, command `xgrad`) evaluates to the formal derivative of
  the evaluation (`xgrad_poly`).  As in Proofs/PolyDiagram.lean: the abstract lemmas at the ring
  `NPoly` with the derivation `derivN`, transported along `norm`.
-/
import Proofs.ParamBubble

set_option linter.unusedSectionVars false

namespace DV.Param
open MvPolynomial

/-- Integer constants of the model as a ring homomorphism `ℤ → NPoly` (`Poly.const`). -/
def constHom : ℤ →+* NPoly where
  toFun c := ⟨Poly.const c, Poly.const_wf c⟩
  map_one' := rfl
  map_zero' := rfl
  map_mul' a b := NPoly.ext_sem (by
    show sem (Poly.const (a * b)) = sem (Poly.const a * Poly.const b)
    simp only [Poly.sem_const, Poly.sem_mul, map_mul])
  map_add' a b := NPoly.ext_sem (by
    show sem (Poly.const (a + b)) = sem (Poly.const a + Poly.const b)
    simp only [Poly.sem_const, Poly.sem_add, map_add])

theorem norm_const (c : Int) : norm (Poly.const c) = constHom c :=
  Subtype.ext (norm_of_wf (Poly.const_wf c))

/-! ### mapping the data of diagrams with bubbles -/

def XBox.mapX {R S : Type} (φ : R → S) : XBox R → XBox S
  | .plain b => .plain (b.mapData φ)
  | .bubble dom cod func inside => .bubble dom cod func (inside.map (PLayer.mapData φ))
  | .chain dom cod func inside term =>
    .chain dom cod func (inside.map (PLayer.mapData φ)) (term.map (PLayer.mapData φ))

def XLayer.mapX {R S : Type} (φ : R → S) (l : XLayer R) : XLayer S :=
  { left := l.left, box := l.box.mapX φ, right := l.right }

theorem XBox.mapX_dom {R S : Type} (φ : R → S) (b : XBox R) : (b.mapX φ).dom = b.dom := by
  cases b <;> rfl

theorem XBox.mapX_cod {R S : Type} (φ : R → S) (b : XBox R) : (b.mapX φ).cod = b.cod := by
  cases b <;> rfl

section Transport
variable {R S : Type} [Zero R] [One R] [Add R] [Mul R] [HasConj R]
  [Zero S] [One S] [Add S] [Mul S] [HasConj S] {φ : R → S}
  (ιR : Int → R) (ιS : Int → S)

theorem OpHom.polyApply (h : OpHom φ) (hι : ∀ c, φ (ιR c) = ιS c) (cs : List Int) (x : R) :
    φ (polyApply ιR cs x) = polyApply ιS cs (φ x) := by
  induction cs with
  | nil => exact h.zero
  | cons c q ih => simp only [DV.Param.polyApply, h.add, h.mul, hι, ih]

theorem OpHom.bubbleArr (h : OpHom φ) (hι : ∀ c, φ (ιR c) = ιS c) (a b : Nat) (func : List Int)
    (inside : List (PLayer R)) (i j : Nat) :
    φ (bubbleArr ιR a b func inside i j)
      = bubbleArr ιS a b func (inside.map (PLayer.mapData φ)) i j := by
  unfold DV.Param.bubbleArr
  split
  · rw [h.polyApply ιR ιS hι, h.evalLayers_apply]
  · exact h.zero

theorem OpHom.spiderSandwich (h : OpHom φ) (a b : Nat) (A B : Mat R) (i j : Nat) :
    φ (spiderSandwich a b A B i j)
      = spiderSandwich a b (fun i j => φ (A i j)) (fun i j => φ (B i j)) i j := by
  unfold DV.Param.spiderSandwich
  rw [h.matMul]
  have e1 : (fun i j => φ (spiderSplit (R := R) a i j)) = spiderSplit a := by
    funext x y
    unfold spiderSplit
    split
    · exact h.one
    · exact h.zero
  have e2 : (fun i j => φ (DV.Param.matMul (b * b) (kronM a b A B) (spiderMerge b) i j))
      = DV.Param.matMul (b * b) (kronM a b (fun i j => φ (A i j)) (fun i j => φ (B i j)))
          (spiderMerge b) := by
    funext x y
    rw [h.matMul]
    have e3 : (fun i j => φ (kronM a b A B i j))
        = kronM a b (fun i j => φ (A i j)) (fun i j => φ (B i j)) := by
      funext u w
      unfold kronM
      exact h.mul _ _
    have e4 : (fun i j => φ (spiderMerge (R := R) b i j)) = spiderMerge b := by
      funext u w
      unfold spiderMerge
      split
      · exact h.one
      · exact h.zero
    rw [e3, e4]
  rw [e1, e2]

theorem OpHom.xarr (h : OpHom φ) (hι : ∀ c, φ (ιR c) = ιS c) (b : XBox R) (i j : Nat) :
    φ (b.arr ιR i j) = (b.mapX φ).arr ιS i j := by
  cases b with
  | plain b => exact (arr_mapData φ h.zero h.conj b i j).symm
  | bubble dom cod func inside => exact h.bubbleArr ιR ιS hι _ _ _ _ _ _
  | chain dom cod func inside term =>
    simp only [XBox.arr, XBox.mapX]
    rw [h.spiderSandwich]
    congr 1
    · funext x y
      exact h.bubbleArr ιR ιS hι _ _ _ _ _ _
    · exact h.evalLayers term

theorem OpHom.xmat (h : OpHom φ) (hι : ∀ c, φ (ιR c) = ιS c) (l : XLayer R) (i j : Nat) :
    φ (l.mat ιR i j) = (l.mapX φ).mat ιS i j := by
  unfold XLayer.mat XLayer.mapX
  simp only [XBox.mapX_dom, XBox.mapX_cod]
  split
  · exact h.xarr ιR ιS hι _ _ _
  · exact h.zero

end Transport

/-! ### box level, in `NPoly` -/

/-- The derivative of the evaluation of a plain polynomial diagram, read in `NPoly`, is the
    evaluation of its gradient (Proofs/PolyDiagram.lean). -/
theorem derivN_evalLayers (checksFS : Bool) (v : Nat) (inside : List (PLayer Poly)) (i j : Nat) :
    (NPoly.derivN v).D (evalLayers (inside.map (PLayer.mapData norm)) i j)
      = norm (evalSum (gradLayers (polyDep v) (boxGrad checksFS (polyDep v) (Poly.deriv v)) inside)
          i j) := by
  rw [grad_poly_layers, norm_deriv, norm_opHom.evalLayers_apply]

theorem evalSum_map_norm (ts : List (List (PLayer Poly))) (i j : Nat) :
    evalSum (ts.map (List.map (PLayer.mapData norm))) i j = norm (evalSum ts i j) := by
  unfold evalSum
  rw [norm_opHom.sum, List.map_map, List.map_map]
  congr 1
  apply List.map_congr_left
  intro t _
  exact (norm_opHom.evalLayers_apply t i j).symm

theorem gradLayers_nil_of_not_any {R : Type} (dep : PBox R → Bool) (G : PBox R → List (PBox R))
    (ls : List (PLayer R)) (h : ls.any (fun l => dep l.box) = false) : gradLayers dep G ls = [] := by
  cases ls with
  | nil => rfl
  | cons l tail =>
    unfold gradLayers
    rw [h]
    rfl

/-- Box level: the terms of `box.grad(x_v)`, read in `NPoly`, sum to `derivN v` of the array. -/
theorem xboxGrad_poly_spec (checksFS : Bool) (v : Nat) (b : XBox Poly) (hb : b.isInput)
    (i j : Nat) :
    (((xboxGrad checksFS (polyDep v) (Poly.deriv v) b).map (XBox.mapX norm)).map
        (fun b' => b'.arr (constHom : Int → NPoly) i j)).sum
      = (NPoly.derivN v).D ((b.mapX norm).arr (constHom : Int → NPoly) i j) := by
  cases b with
  | chain _ _ _ _ _ => exact hb.elim
  | plain b =>
    simp only [xboxGrad, XBox.mapX, XBox.arr, List.map_map, Function.comp_def]
    rw [arr_mapData norm norm_zero (fun _ => rfl), ← norm_deriv]
    unfold boxGrad
    split
    · rename_i hc
      have hd : polyDep v b = false := by
        cases hdb : polyDep v b with
        | false => rfl
        | true => simp [hdb] at hc
      rw [deriv_arr_of_not_dep v b hd i j]
      simp [norm_zero]
    · simp only [List.map_cons, List.map_nil, List.sum_cons, List.sum_nil, add_zero]
      rw [arr_mapData norm norm_zero (fun _ => rfl),
        arr_mapData (Poly.deriv v) (Poly.deriv_zero v) (fun _ => rfl)]
  | bubble dom cod func inside =>
    -- right-hand side: the chain rule
    have hR : (NPoly.derivN v).D
          (((XBox.bubble dom cod func inside).mapX norm).arr (constHom : Int → NPoly) i j)
        = if i < prod dom ∧ j < prod cod
          then polyApply constHom (polyDeriv func)
                (evalLayers (inside.map (PLayer.mapData norm)) i j)
              * norm (evalSum (gradLayers (polyDep v)
                  (boxGrad checksFS (polyDep v) (Poly.deriv v)) inside) i j)
          else 0 := by
      simp only [XBox.mapX, XBox.arr]
      unfold bubbleArr
      by_cases h : i < prod dom ∧ j < prod cod
      · simp only [h, and_self, if_true]
        rw [chain_rule (NPoly.derivN v) constHom, derivN_evalLayers checksFS]
      · simp only [h, if_false]
        exact (NPoly.derivN v).zero
    rw [hR]
    -- left-hand side: the terms of Bubble.grad
    have hL : ∀ ts : List (List (PLayer Poly)),
        (((ts.map (fun t => XBox.chain dom cod (polyDeriv func) inside t)).map (XBox.mapX norm)).map
            (fun b' => b'.arr (constHom : Int → NPoly) i j)).sum
          = if i < prod dom ∧ j < prod cod
            then polyApply constHom (polyDeriv func)
                  (evalLayers (inside.map (PLayer.mapData norm)) i j) * norm (evalSum ts i j)
            else 0 := by
      intro ts
      simp only [List.map_map, Function.comp_def, XBox.mapX, XBox.arr]
      have := bubble_terms_sum constHom (prod dom) (prod cod) (polyDeriv func)
        (inside.map (PLayer.mapData norm)) (ts.map (List.map (PLayer.mapData norm))) i j
      rw [List.map_map, evalSum_map_norm] at this
      exact this
    simp only [xboxGrad]
    by_cases hany : inside.any (fun l => polyDep v l.box) = true
    · rw [if_pos hany]
      exact hL _
    · rw [if_neg hany]
      have hany' : inside.any (fun l => polyDep v l.box) = false := by simpa using hany
      rw [gradLayers_nil_of_not_any _ _ inside hany']
      have := hL []
      simpa using this

theorem xdep_poly_spec (checksFS : Bool) (v : Nat) (b : XBox Poly) (hb : b.isInput)
    (h : XBox.dep (polyDep v) b = false) (i j : Nat) :
    (NPoly.derivN v).D ((b.mapX norm).arr (constHom : Int → NPoly) i j) = 0 := by
  cases b with
  | chain _ _ _ _ _ => exact hb.elim
  | plain b =>
    simp only [XBox.mapX, XBox.arr]
    rw [arr_mapData norm norm_zero (fun _ => rfl), ← norm_deriv,
      deriv_arr_of_not_dep v b h i j, norm_zero]
  | bubble dom cod func inside =>
    simp only [XBox.mapX, XBox.arr]
    unfold bubbleArr
    split
    · rw [chain_rule (NPoly.derivN v) constHom, derivN_evalLayers checksFS,
        gradLayers_nil_of_not_any _ _ inside h]
      simp [evalSum, norm_zero]
    · exact (NPoly.derivN v).zero

/-! ### diagram level -/

def xmatN (l : XLayer Poly) : Mat NPoly := fun i j => norm (l.mat Poly.const i j)

theorem evalL_xmatN (ls : List (XLayer Poly)) (i k : Nat) :
    evalL XLayer.outDim xmatN ls i k = norm (xevalLayers Poly.const ls i k) := by
  induction ls generalizing i k with
  | nil => exact (norm_opHom.idMat i k).symm
  | cons l ls ih =>
    simp only [evalL, xevalLayers]
    rw [norm_opHom.matMul]
    have : evalL XLayer.outDim xmatN ls = fun i j => norm (xevalLayers Poly.const ls i j) := by
      funext a b; exact ih a b
    rw [this]
    rfl

theorem sumL_xmatN (ts : List (List (XLayer Poly))) (i k : Nat) :
    sumL XLayer.outDim xmatN ts i k = norm (xevalSum Poly.const ts i k) := by
  unfold sumL xevalSum
  rw [norm_opHom.sum, List.map_map]
  congr 1
  apply List.map_congr_left
  intro t _
  exact evalL_xmatN t i k

theorem xevalLayers_wf (ls : List (XLayer Poly)) (i k : Nat) :
    (xevalLayers Poly.const ls i k).WF := by
  cases ls with
  | nil => exact Poly.idMat_wf i k
  | cons l ls => exact Poly.matMul_wf _ _ _ _ _

theorem xevalSum_wf (ts : List (List (XLayer Poly))) (i k : Nat) :
    (xevalSum Poly.const ts i k).WF := by
  apply Poly.sum_wf
  intro x hx
  obtain ⟨t, _, rfl⟩ := List.mem_map.mp hx
  exact xevalLayers_wf t i k

/-- **The executable instance with bubbles**: what the driver's `xgrad` computes is the formal
    derivative of what its `xeval` computes. -/
theorem xgrad_poly (checksFS : Bool) (v : Nat) (ls : List (XLayer Poly))
    (hin : ∀ l ∈ ls, l.box.isInput) (i k : Nat) :
    xevalSum Poly.const (polyXGrad checksFS v ls) i k
      = Poly.deriv v (xevalLayers Poly.const ls i k) := by
  apply eq_of_norm_eq (xevalSum_wf _ i k) (Poly.deriv_wf v _)
  unfold polyXGrad
  rw [norm_deriv, ← evalL_xmatN, ← sumL_xmatN, xgradLayers_eq_gradL]
  have hx : ∀ (l : XLayer Poly) a b, xmatN l a b = (l.mapX norm).mat (constHom : Int → NPoly) a b :=
    fun l a b => norm_opHom.xmat Poly.const (constHom : Int → NPoly) norm_const l a b
  apply gradL_rule (NPoly.derivN v)
  · intro l _ l' hl'
    obtain ⟨b', hb', rfl⟩ := List.mem_map.mp hl'
    obtain ⟨_, h2⟩ := xboxGrad_dims checksFS (polyDep v) (Poly.deriv v) l.box b' hb'
    unfold XLayer.outDim reBoxX
    simp only [h2]
  · intro l hl a b
    rw [List.map_map]
    simp only [Function.comp_def, hx]
    have hmap : ∀ b', (reBoxX l b').mapX norm = reBoxX (l.mapX norm) (b'.mapX norm) := fun _ => rfl
    simp only [hmap]
    have := xmat_sum (constHom : Int → NPoly) (l.mapX norm)
      ((xboxGrad checksFS (polyDep v) (Poly.deriv v) l.box).map (XBox.mapX norm))
      (by
        intro b' hb'
        obtain ⟨b0, hb0, rfl⟩ := List.mem_map.mp hb'
        obtain ⟨h1, h2⟩ := xboxGrad_dims checksFS (polyDep v) (Poly.deriv v) l.box b0 hb0
        exact ⟨by rw [XBox.mapX_dom, h1]; exact (XBox.mapX_dom norm l.box).symm,
               by rw [XBox.mapX_cod, h2]; exact (XBox.mapX_cod norm l.box).symm⟩)
      (fun a b => (NPoly.derivN v).D ((l.box.mapX norm).arr (constHom : Int → NPoly) a b))
      (fun a b => xboxGrad_poly_spec checksFS v l.box (hin l hl) a b) a b
    rw [List.map_map] at this
    simp only [Function.comp_def] at this
    rw [this]
    unfold XLayer.mat
    split
    · rfl
    · exact (NPoly.derivN v).zero.symm
  · intro l hl hd a b
    rw [hx]
    unfold XLayer.mat
    split
    · exact xdep_poly_spec checksFS v l.box (hin l hl) hd _ _
    · exact (NPoly.derivN v).zero

end DV.Param
