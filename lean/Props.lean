import Props.C01
