/-
  Props/C16.lean — C16 "Circuits translate to ZX diagrams denoting the same linear map".
  Property theorems only; proofs in Proofs/ZXTable.lean, Proofs/ZXTableFixed.lean (finite tables by
  `decide` in exact ℤ[ζ₈][1/2] arithmetic), Proofs/Gates.lean (symbolic in the phase, arbitrary
  commutative ring) and Proofs/GatesComplex.lean (ℂ, every real phase).

  Standard interpretation (Model/Gates.lean): `Z(n, m, ψ) = |0…0⟩⟨0…0| + e^{2πiψ}|1…1⟩⟨1…1|`, X the same
  over `|±⟩`, Hadamard, swap, scalar; a `boxes/offsets` diagram denotes the ordered product of
  `1 ⊗ box ⊗ 1` (`evalZX`).  Matrices in discopy's `[input, output]` order.

  PROVED — `gate2zx_sound g : ⟦gate2zx g⟧ = k g • eval g`, with an explicit `k g ≠ 0`, for every entry of
  the table zx.py:368-396 that is sound:
      H, X, Y, Z (k = 1; −1 for Y while F17 is open), CX, CZ (k = 1/√2), SWAP, scalar (k = 1),
      Ket / Bra of every bitstring of length ≤ 3 (k = 1), Rz(φ), Rx(φ) at EVERY real φ (k = e^{iπφ}).
  For CRz, CRx, CU1 the table is UNSOUND (finding F7):
      * the CORRECTED decompositions are sound at every real phase (k = 1/√2);
      * the decompositions as they are denote CRz(2φ) / CU1(2φ) (every real φ) and are proportional to the
        gate ONLY where e^{iπφ} = 1 resp. e^{2πiφ} = 1; for all three a concrete refutation at φ = 1/4.
  `zx_dagger`: the dagger of every generator (any arity, any phase) denotes the conjugate transpose;
  `zx_dagger_scalar_value`: in the executable model, for every scalar VALUE (numeric types of the Python
  data are not modelled), conjugating Gaussian dyadic rationals, the identity exactly on the real ones;
  `gate2zx_arity`: images are well typed with the gate's numbers of inputs and outputs.
  WHOLE CIRCUITS AND DIAGRAMS (Proofs/CircuitAlg.lean, CircuitCyc8.lean, CircuitTablesZX*.lean):
      * over EVERY commutative (star) ring: composition of well-typed ZX diagrams is the matrix product
        (`zx_compose`), placing a sub-diagram at an offset is `1_l ⊗ ⟦d⟧ ⊗ 1_r` (`zx_whisker`), hence a
        box-by-box translation whose images denote `k_i • U_i` denotes `(∏ k_i) • ⟦circuit⟧`
        (`circuit2zx_sound_generic`); `⟦d†⟧ = ⟦d⟧ᴴ` for every well-typed diagram of any generators and any
        phases (`zx_diagram_dagger_generic`, by induction from `zx_dagger`);
      * for the executable model: `circuit2zx_sound` — the corrected `circuit2zx` of every well-typed
        circuit over the translated gate set (table, Rz/Rx/CRz/CRx/CU1 at every even integer phase index, kets
        and bras ≤ 4 bits ANYWHERE in the circuit — a `Circ` is any well-typed list of layers, so states and
        effects in the middle, to the left or right of rotated wires, are included —, normalised scalars, and
        square-root scalars `sqrt(z)` — the subclass `gates.Sqrt` of `gates.Scalar`, translated to the scalar
        box of its DATA — whose value is invertible in ℤ[ζ₈][1/2] or zero: `gate2zx_sound_sqrt`; `Circuit.cups`
        / `caps` are `CX ≫ H ⊗ sqrt(2) ⊗ 1 ≫ Bra(0,0)` and its dagger: `cup`, `cap` below) is a well-typed
        diagram denoting `k • ⟦c⟧` for ONE invertible, hence non-zero, `k`; `circuit2zx_sound_asis_partial` the same for the table as it is on circuits
        without CRz/CRx/CU1; `zx_diagram_dagger` for every well-typed diagram with normalised scalars.
  NOT PROVED (decided on every run by the oracle and exact correspondence)
      * kets / bras of more than 4 bits and odd phase indices inside whole circuits (the per-gate hypothesis
        `Gate.zxOK` is decidable: `circuit2zx_sound_of`); `gate2zx_sound` for the as-is `CRx`
        symbolically (its image has no neat closed form; refuted at φ = 1/4); square-root scalars whose value
        is a non-zero NON-unit of ℤ[ζ₈][1/2] (`sqrt(9)`, `sqrt(-3+4i)`): the whole-circuit theorem gets its
        non-zero overall scalar from invertibility of the per-gate scalars.
-/
import Proofs.ZXTableFixed
import Proofs.GatesComplex
import Proofs.CircuitProps
import Proofs.ZXScalarValue

namespace DV.C16
open DV DV.Gates

/-- The number 2 of ℤ[ζ₈][1/2] (the data of the `sqrt(2)` in `Circuit.cups`). -/
def two : Cyc8 := ⟨2, 0, 0, 0, 0⟩

/-! ### gate2zx is sound on the phase-free part of the table -/

/-- zx.py:389-395 and SWAP in the executable model: `⟦gate2zx g⟧ = k • eval g`, `k ≠ 0`. -/
theorem gate2zx_sound_named :
    ∀ p ∈ zxNamed, zxEvalOf false p.2 = .ok (msmul (zxScalarNamed p.1) p.2.eval) ∧
      zxScalarNamed p.1 ≠ 0 := gate2zx_named_sound

/-- The same entries over an arbitrary commutative ring with `2r² = 1` (the images denote the
    STANDARD matrices; `Y` in `[input, output]` order is `[[0, i], [−i, 0]]`). -/
theorem gate2zx_sound_named_symbolic {R : Type} [CommRing R] (r i : R) (hr : 2 * r * r = 1) :
    evalZX r 1 zxH = hMat r ∧
    evalZX r 1 zxZ = [[1, 0], [0, -1]] ∧
    evalZX r 1 zxX = [[0, 1], [1, 0]] ∧
    evalZX r 1 (zxY i) = [[0, i], [-i, 0]] ∧
    evalZX r 2 zxCZ = msmul r [[1, 0, 0, 0], [0, 1, 0, 0], [0, 0, 1, 0], [0, 0, 0, -1]] ∧
    evalZX r 2 zxCX = msmul r [[1, 0, 0, 0], [0, 1, 0, 0], [0, 0, 0, 1], [0, 0, 1, 0]] :=
  zxNamed_sound r i hr

/-- Kets and bras (all bitstrings of length ≤ 3): the image denotes the basis vector exactly. -/
theorem gate2zx_sound_ketbra :
    ∀ bs ∈ bitstringsUpTo3,
      zxEvalOf false (.ket bs) = .ok (Gate.ket bs).eval ∧
      zxEvalOf false (.bra bs) = .ok (Gate.bra bs).eval := gate2zx_ketbra_table

/-! ### rotations, every real phase -/

/-- `⟦Z(1,1,φ)⟧ = e^{iπφ} • Rz(φ)` and `⟦X(1,1,φ)⟧ = e^{iπφ} • Rx(φ)` for every real `φ`; `e^{iπφ} ≠ 0`. -/
theorem gate2zx_sound_rot1 (φ : ℝ) :
    evalZX rC 1 [(.z 1 1 (spiderVal φ), 0)] = msmul (nuC φ) (RzC φ) ∧
    evalZX rC 1 [(.x 1 1 (spiderVal φ), 0)] = msmul (nuC φ) (RxC φ) ∧ nuC φ ≠ 0 :=
  ⟨(gate2zx_rot1_complex φ).1, (gate2zx_rot1_complex φ).2, nuC_ne_zero φ⟩

/-- The CORRECTED decompositions of CRz, CU1, CRx denote `(1/√2) •` the gate for every real `φ`. -/
theorem gate2zx_sound_repaired (φ : ℝ) :
    evalZX rC 2 [(.z 1 2 1, 0), (.z 1 2 (spiderVal (φ / 2)), 2), (.x 2 1 1, 1),
                 (.z 1 0 (spiderVal (-(φ / 2))), 1)] = msmul rC (CRzC φ) ∧
    evalZX rC 2 [(.z 1 2 (spiderVal (φ / 2)), 0), (.z 1 2 (spiderVal (φ / 2)), 2), (.x 2 1 1, 1),
                 (.z 1 0 (spiderVal (-(φ / 2))), 1)] = msmul rC (CU1C φ) ∧
    evalZX rC 2 [(.z 1 2 1, 0), (.x 1 2 (spiderVal (φ / 2)), 2), (.h, 1), (.z 2 1 1, 1),
                 (.x 1 0 (spiderVal (-(φ / 2))), 1)] = msmul rC (CRxC φ) ∧ rC ≠ 0 :=
  ⟨(gate2zx_fixed_complex φ).1, (gate2zx_fixed_complex φ).2.1, (gate2zx_fixed_complex φ).2.2, rC_ne_zero⟩

/-- … and in the executable model at every exactly representable phase. -/
theorem gate2zx_sound_repaired_exact :
    ∀ k ∈ ctrlRotKinds, ∀ n ∈ evenPhases,
      zxEvalOf true (.rot k n) = .ok (msmul Cyc8.invSqrt2 (Gate.rot k n).eval) := gate2zx_fixed_table

/-- Rz, Rx in the executable model at every exactly representable phase. -/
theorem gate2zx_sound_rot1_exact :
    ∀ n ∈ evenPhases,
      ZXDiag.eval 1 [(.z 1 1 n, 0)] = msmul (Cyc8.zetaPow (n / 2)) (Gate.rot .Rz n).eval ∧
      ZXDiag.eval 1 [(.x 1 1 n, 0)] = msmul (Cyc8.zetaPow (n / 2)) (Gate.rot .Rx n).eval ∧
      gate2zx false (.rot .Rz n) = .ok [(.z 1 1 n, 0)] ∧
      gate2zx false (.rot .Rx n) = .ok [(.x 1 1 n, 0)] := gate2zx_rot1_table

/-! ### finding F7: CRz, CRx, CU1 as zx.py has them -/

/-- As they are, the images of CRz(φ) and CU1(φ) denote the gates at TWICE the phase (every real φ). -/
theorem F7_asis_denotes_double_phase (φ : ℝ) :
    evalZX rC 2 [(.z 1 2 1, 0), (.z 1 2 (spiderVal φ), 2), (.x 2 1 1, 1),
                 (.z 1 0 (spiderVal (-φ)), 1)] = msmul rC (CRzC (2 * φ)) ∧
    evalZX rC 2 [(.z 1 2 (spiderVal φ), 0), (.z 1 2 (spiderVal φ), 2), (.x 2 1 1, 1),
                 (.z 1 0 (spiderVal (-φ)), 1)] = msmul rC (CU1C (2 * φ)) := gate2zx_asis_complex φ

/-- Exact extent for CRz: SOME scalar makes the as-is image equal to the gate iff `e^{iπφ} = 1`. -/
theorem F7_CRz_sound_iff (φ : ℝ) :
    (∃ k : ℂ, evalZX rC 2 [(.z 1 2 1, 0), (.z 1 2 (spiderVal φ), 2), (.x 2 1 1, 1),
                 (.z 1 0 (spiderVal (-φ)), 1)] = msmul k (CRzC φ)) ↔ nuC φ = 1 := asis_CRz_sound_iff φ

/-- Exact extent for CU1: iff `e^{2πiφ} = 1`. -/
theorem F7_CU1_sound_iff (φ : ℝ) :
    (∃ k : ℂ, evalZX rC 2 [(.z 1 2 (spiderVal φ), 0), (.z 1 2 (spiderVal φ), 2), (.x 2 1 1, 1),
                 (.z 1 0 (spiderVal (-φ)), 1)] = msmul k (CU1C φ)) ↔ spiderVal φ = 1 := asis_CU1_sound_iff φ

/-- Concrete refutation for all three (CRx included) at φ = 1/4 in exact arithmetic: the cross product
    of entries (0,0) and (3,3) of image and gate differs, so no scalar `k` exists
    (`cross_of_proportional`). -/
theorem F7_witness :
    ∀ k ∈ ctrlRotKinds,
      (zxEvalOf false (.rot k 2)).toOption.map (crossFailsAt · (Gate.rot k 2).eval 0 0 3 3)
        = some true := F7_asis_unsound

theorem cross_of_proportional {R : Type} [CommRing R] (k a a' b b' : R) (h : a = k * b) (h' : a' = k * b') :
    a * b' = a' * b := Gates.cross_of_proportional k a a' b b' h h'

/-- `gate2zx_sound_partial`: the table as it is, in the executable model, is sound on every entry
    except CRz, CRx, CU1 (named gates, kets/bras ≤ 3 bits, Rz, Rx at the representable phases). -/
theorem gate2zx_sound_partial :
    (∀ p ∈ zxNamed, zxEvalOf false p.2 = .ok (msmul (zxScalarNamed p.1) p.2.eval)) ∧
    (∀ bs ∈ bitstringsUpTo3, zxEvalOf false (.ket bs) = .ok (Gate.ket bs).eval ∧
                             zxEvalOf false (.bra bs) = .ok (Gate.bra bs).eval) ∧
    (∀ n ∈ evenPhases,
      zxEvalOf false (.rot .Rz n) = .ok (msmul (Cyc8.zetaPow (n / 2)) (Gate.rot .Rz n).eval) ∧
      zxEvalOf false (.rot .Rx n) = .ok (msmul (Cyc8.zetaPow (n / 2)) (Gate.rot .Rx n).eval)) := by
  refine ⟨fun p hp => (gate2zx_named_sound p hp).1, gate2zx_ketbra_table, fun n hn => ?_⟩
  obtain ⟨h1, h2, h3, h4⟩ := gate2zx_rot1_table n hn
  constructor
  · simp only [zxEvalOf, h3, Gate.dom, RotKind.nq]; rw [h1]
  · simp only [zxEvalOf, h4, Gate.dom, RotKind.nq]; rw [h2]

/-- Gates outside the table are refused (`KeyError`). -/
theorem gate2zx_refuses :
    gate2zx false (.q gS) = .error .index ∧ gate2zx false (.q gT) = .error .index ∧
    gate2zx false (.rot .Ry 2) = .error .index ∧ gate2zx false (.ctrl (.q gZ)) = .error .index :=
  gate2zx_unsupported

/-! ### arity -/

/-- The image of a gate is a well-typed diagram with the gate's numbers of input and output wires
    (table, rotations, kets/bras ≤ 3 bits; as-is and corrected). -/
theorem gate2zx_arity :
    (∀ p ∈ zxNamed, ∀ f ∈ [false, true],
      (gate2zx f p.2).toOption.bind (ZXDiag.codFrom p.2.dom) = some p.2.cod) ∧
    (∀ k ∈ [RotKind.Rx, .Rz, .CRz, .CRx, .CU1], ∀ n ∈ evenPhases, ∀ f ∈ [false, true],
      (gate2zx f (.rot k n)).toOption.bind (ZXDiag.codFrom k.nq) = some k.nq) ∧
    (∀ bs ∈ bitstringsUpTo3, ∀ f ∈ [false, true],
      (gate2zx f (.ket bs)).toOption.bind (ZXDiag.codFrom 0) = some bs.length ∧
      (gate2zx f (.bra bs)).toOption.bind (ZXDiag.codFrom bs.length) = some 0) := gate2zx_arity_table

/-! ### dagger -/

/-- `⟦b†⟧ = ⟦b⟧ᴴ` for every ZX generator — every arity, every phase (a spider of negated phase
    carries `star μ = e^{−2πiψ}`), over every commutative star ring with `star r = r`. -/
theorem zx_dagger {R : Type} [CommRing R] [StarRing R] (r : R) (hr : star r = r) (b : ZXB R) :
    b.daggerS.mat r = dagger (b.mat r) := zxb_dagger r hr b

/-- The dagger as zx.py computes it on the syntax (phase negated, legs swapped; zx.py:282, 330, 354),
    in the executable model: all arities ≤ 2, all phases `p/8`. -/
theorem zx_dagger_exact :
    (∀ nm ∈ smallArities, ∀ p ∈ evenPhases ++ [1, 3, 5, 7],
      (ZXBox.z nm.1 nm.2 p).dagger.sem.mat Cyc8.invSqrt2 =
        dagger ((ZXBox.z nm.1 nm.2 p).sem.mat Cyc8.invSqrt2) ∧
      (ZXBox.x nm.1 nm.2 p).dagger.sem.mat Cyc8.invSqrt2 =
        dagger ((ZXBox.x nm.1 nm.2 p).sem.mat Cyc8.invSqrt2)) ∧
    ZXBox.h.dagger.sem.mat Cyc8.invSqrt2 = dagger (ZXBox.h.sem.mat Cyc8.invSqrt2) ∧
    ZXBox.swap.dagger.sem.mat Cyc8.invSqrt2 = dagger (ZXBox.swap.sem.mat Cyc8.invSqrt2) :=
  ⟨zx_dagger_table, zx_dagger_h_swap.1, zx_dagger_h_swap.2⟩

/-- Scalars by VALUE (the numeric type of the Python datum — int, float, numpy.complex64, sympy
    `1/2 + I/4`, … — is not modelled; the correspondence reads every datum to its exact value): in the
    executable model the dagger of a scalar box denotes the conjugate transpose for EVERY value, it
    turns the Gaussian dyadic rational `(a + c·i)/2^e` into `(a − c·i)/2^e`, and it is the same box
    exactly when the value is real (zx.py:365). -/
theorem zx_dagger_scalar_value :
    (∀ s : Cyc8, (ZXBox.scalar s).dagger.sem.mat Cyc8.invSqrt2 =
      dagger ((ZXBox.scalar s).sem.mat Cyc8.invSqrt2)) ∧
    (∀ (a c : Int) (e : Nat), (ZXBox.scalar (gaussian a c e)).dagger = .scalar (gaussian a (-c) e)) ∧
    (∀ (a c : Int) (e : Nat),
      (ZXBox.scalar (gaussian a c e)).dagger = .scalar (gaussian a c e) ↔ c = 0) :=
  ⟨scalar_dagger_sem, scalar_dagger_gaussian, scalar_dagger_gaussian_fixed_iff⟩

example : (ZXBox.scalar (gaussian 1 1 2)).dagger = .scalar (gaussian 1 (-1) 2) ∧
    (ZXBox.scalar (gaussian 1 1 2)).dagger ≠ .scalar (gaussian 1 1 2) := by decide

/-! ### whole circuits and whole diagrams -/

/-- Composition of well-typed ZX diagrams denotes the matrix product — every commutative ring. -/
theorem zx_compose {R : Type} [CommRing R] (ρ : R) {w k m : Nat} {d d' : ZXD R}
    (h : ZXD.codFrom w d = some k) (h' : ZXD.codFrom k d' = some m) :
    evalZX ρ w (d ++ d') = mul (evalZX ρ w d) (evalZX ρ k d') := evalZX_append ρ h h'

/-- A diagram placed at offset `l` with `r` wires to its right denotes `1_l ⊗ ⟦d⟧ ⊗ 1_r`. -/
theorem zx_whisker {R : Type} [CommRing R] (ρ : R) (l r : Nat) {a b : Nat} {d : ZXD R}
    (h : ZXD.codFrom a d = some b) :
    evalZX ρ (l + a + r) (zxShift l d) = kron (idQ l) (kron (evalZX ρ a d) (idQ r)) := evalZX_shift ρ l r h

/-- **ONE overall scalar**: if the image of every box denotes `k_i • U_i` (`ZXImage`), the image of the
    circuit is well typed and denotes `(∏ k_i) • ⟦circuit⟧` — every commutative ring. -/
theorem circuit2zx_sound_generic {R : Type} [CommRing R] (ρ : R) {n m : Nat} {L : Layers R} {Z : ZXD R}
    {ks : List R} (h : ZXImage ρ n L Z ks m) :
    LTyped n L m ∧ ZXD.codFrom n Z = some m ∧ evalZX ρ n Z = msmul ks.prod (evalLayers n L) :=
  evalZX_image ρ h

/-- **`⟦d†⟧ = ⟦d⟧ᴴ` for whole diagrams** — every commutative star ring with `star r = r`, every
    well-typed diagram, any generators, any phases. -/
theorem zx_diagram_dagger_generic {R : Type} [CommRing R] [StarRing R] (ρ : R) (hρ : star ρ = ρ)
    {w m : Nat} {d : ZXD R} (h : ZXD.codFrom w d = some m) :
    evalZX ρ m d.daggerS = dagger (evalZX ρ w d) := evalZX_dagger ρ hρ h

/-- The per-gate hypothesis of the executable instance (`Gate.zxOK g k k'`: the image of `g` under the
    corrected table is a well-typed diagram with normalised scalars denoting `k • ⟦g⟧`, `k·k' = 1`), on
    the translated gate set; scalars for every normalised value. -/
theorem gate2zx_table_ok :
    (∀ p ∈ zxTable, p.1.zxOK p.2 (zxInv p.2) = true) ∧
    (∀ z : Cyc8, z.isNormal = true → (Gate.scalar z).zxOK 1 1 = true) := ⟨zxTable_ok, scalar_zxOK⟩

/-- Square-root scalars (`gates.Sqrt`, recognised by `gate2zx` only because it SUBCLASSES `gates.Scalar`):
    the image is the scalar box of the data `z = r²`, denoting `r • ⟦sqrt(z)⟧`; `k = r` is invertible for
    `sqrt(2)` (cups and caps), and `sqrt(0)` is translated exactly. -/
theorem gate2zx_sound_sqrt :
    (∀ z r r' : Cyc8, z.isNormal = true → r.isNormal = true → r'.isNormal = true → r * r = z → r * r' = 1 →
      (Gate.sqrt z r).zxOK r r' = true) ∧ (Gate.sqrt 0 0).zxOK 1 1 = true ∧
    (Gate.sqrt two Cyc8.sqrt2).zxOK Cyc8.sqrt2 Cyc8.invSqrt2 = true :=
  ⟨sqrt_zxOK, sqrt_zero_zxOK, sqrt_zxOK _ _ _ rfl rfl rfl (by decide) (by decide)⟩

/-- … and Rz, Rx, CRz, CRx, CU1 at EVERY even integer phase index (`ζ⁸ = 1`). -/
theorem gate2zx_every_phase_index (k : RotKind) (n : Int) (hk : k ≠ .Ry) (hn : n % 2 = 0) :
    ∃ κ, (Gate.rot k n).zxOK κ (zxInv κ) = true := rot_zxOK_all k n hk hn

/-- Whole circuits from the per-gate hypothesis alone. -/
theorem circuit2zx_sound_of (n m : Nat) (c : Circ) (d : ZXDiag) (ht : Circ.codFrom n c = some m)
    (hg : ∀ x ∈ c, ∃ k k', x.2.1.zxOK k k' = true) (h : circuit2zx true c = .ok d) :
    ∃ K K' : Cyc8, K ≠ 0 ∧ Cyc8.val K * Cyc8.val K' = 1 ∧ ZXDiag.codFrom n d = some m ∧
      ZXDiag.eval n d = msmul K (evalCirc n c) := Gates.circuit2zx_sound_of ht hg h

/-- **Whole circuits: ONE non-zero scalar** (corrected table), every well-typed circuit over the
    translated gate set; the image is well typed with the circuit's arity. -/
theorem circuit2zx_sound (n m : Nat) (c : Circ) (d : ZXDiag) (ht : Circ.codFrom n c = some m)
    (hg : ∀ x ∈ c, x.2.1.inZXSet) (h : circuit2zx true c = .ok d) :
    ZXDiag.codFrom n d = some m ∧ ∃ k : Cyc8, k ≠ 0 ∧ ZXDiag.eval n d = msmul k (evalCirc n c) :=
  circuit2zx_sound_cyc8 n m c d ht hg h

/-- The table AS IT IS (F7 open) on circuits without CRz, CRx, CU1 (`_partial`). -/
theorem circuit2zx_sound_asis_partial (n m : Nat) (c : Circ) (d : ZXDiag)
    (ht : Circ.codFrom n c = some m)
    (hg : ∀ x ∈ c, (∃ k, (x.2.1, k) ∈ zxTableA ++ zxTableC) ∨
      ∃ z : Cyc8, x.2.1 = Gate.scalar z ∧ z.isNormal = true)
    (h : circuit2zx false c = .ok d) :
    ZXDiag.codFrom n d = some m ∧ ∃ k : Cyc8, k ≠ 0 ∧ ZXDiag.eval n d = msmul k (evalCirc n c) :=
  circuit2zx_sound_asis n m c d ht hg h

/-- **Whole diagrams: the dagger denotes the conjugate transpose** — every well-typed ZX diagram of the
    executable syntax (any arities, all phases `p/8`, normalised scalars). -/
theorem zx_diagram_dagger (n m : Nat) (d : ZXDiag) (ht : ZXDiag.codFrom n d = some m)
    (hn : d.normal = true) : ZXDiag.eval m d.dagger = dagger (ZXDiag.eval n d) :=
  ZXDiag.eval_dagger ht hn

/-! ### concrete non-trivial instances -/

example : zxEvalOf true (.rot .CRx 2) = .ok (msmul Cyc8.invSqrt2 (Gate.rot .CRx 2).eval) ∧
    (Gate.rot .CRx 2).eval ≠ idQ 2 := by decide
example : circuit2zx false [(0, .ket [true], 0), (0, .q gH, 0)] =
    .ok [(.x 0 1 4, 0), (.scalar Cyc8.invSqrt2, 1), (.h, 0)] := by decide
example : ZXDiag.eval 1 (ZXDiag.dagger [(.z 1 2 3, 0), (.x 2 1 1, 0)]) =
    dagger (ZXDiag.eval 1 [(.z 1 2 3, 0), (.x 2 1 1, 0)]) := by decide
/-- A circuit meeting the hypotheses of `circuit2zx_sound`: Ket(1) ; H ; CRz(1/4) on the pair ; scalar ;
    Rx(−3/4). -/
def c1 : Circ :=
  [(0, .ket [true], 1), (0, .q gH, 1), (0, .rot .CRz 2, 0), (2, .scalar Cyc8.I, 0), (1, .rot .Rx (-6), 0)]
example : Circ.codFrom 1 c1 = some 2 := by decide
example : ∀ x ∈ c1, x.2.1.inZXSet := by
  intro x hx
  simp only [c1, List.mem_cons, List.not_mem_nil, or_false] at hx
  rcases hx with rfl | rfl | rfl | rfl | rfl
  · exact .inl ⟨1, by simp [zxTable, zxTableC, bitstringsUpTo4, bitstringsUpTo3, bits]⟩
  · exact .inl ⟨1, by simp [zxTable, zxTableA, zxNamed, named, zxScalarNamed]⟩
  · exact .inl ⟨Cyc8.invSqrt2, by simp [zxTable, zxTableB, ctrlRotKinds, evenPhases]⟩
  · exact .inr (.inl ⟨Cyc8.I, rfl, rfl⟩)
  · exact .inr (.inr (.inl ⟨.Rx, -6, rfl, by decide, by decide⟩))
example : (circuit2zx true c1).toOption.map List.length = some 9 := by decide
/-- `Circuit.cups(qubit, qubit)` (circuit.py:554-565): `CX ≫ H ⊗ sqrt(2) ⊗ 1 ≫ Bra(0, 0)` meets the hypotheses
    — it contains the square-root scalar; its dagger `Circuit.caps` too. -/
def cup : Circ :=
  [(0, .ctrl (.q gX), 0), (0, .q gH, 1), (1, .sqrt two Cyc8.sqrt2, 1), (0, .bra [false, false], 0)]
def cap : Circ :=
  [(0, .ket [false, false], 0), (1, .sqrt two Cyc8.sqrt2, 1), (0, .q gH, 1), (0, .ctrl (.q gX), 0)]
theorem sqrt2_inZXSet : (Gate.sqrt two Cyc8.sqrt2).inZXSet :=
  .inr (.inr (.inr (.inl ⟨two, Cyc8.sqrt2, Cyc8.invSqrt2, rfl, rfl, rfl, rfl, by decide, by decide⟩)))
example : Circ.codFrom 2 cup = some 0 ∧ Circ.codFrom 0 cap = some 2 := by decide
example : ∀ x ∈ cup ++ cap, x.2.1.inZXSet := by
  intro x hx
  simp only [cup, cap, List.cons_append, List.nil_append, List.mem_cons, List.not_mem_nil, or_false] at hx
  rcases hx with rfl | rfl | rfl | rfl | rfl | rfl | rfl | rfl
  · exact .inl ⟨Cyc8.invSqrt2, by simp [zxTable, zxTableA, zxNamed, named, zxScalarNamed]⟩
  · exact .inl ⟨1, by simp [zxTable, zxTableA, zxNamed, named, zxScalarNamed]⟩
  · exact sqrt2_inZXSet
  · exact .inl ⟨1, by simp [zxTable, zxTableC, bitstringsUpTo4, bitstringsUpTo3, bits]⟩
  · exact .inl ⟨1, by simp [zxTable, zxTableC, bitstringsUpTo4, bitstringsUpTo3, bits]⟩
  · exact sqrt2_inZXSet
  · exact .inl ⟨1, by simp [zxTable, zxTableA, zxNamed, named, zxScalarNamed]⟩
  · exact .inl ⟨Cyc8.invSqrt2, by simp [zxTable, zxTableA, zxNamed, named, zxScalarNamed]⟩
example : circuit2zx true cup = .ok [(.z 1 2 0, 0), (.x 2 1 0, 1), (.h, 0), (.scalar two, 1),
    (.x 1 0 0, 0), (.x 1 0 0, 0), (.scalar Cyc8.half, 0)] := by decide
/-- A post-selection in the MIDDLE of a circuit, to the left of rotated wires:
    `1 ⊗ Rz(1/4) ⊗ 1 ≫ Bra(0) ⊗ 1 ⊗ 1 ≫ 1 ⊗ Rz(1/2)` — after the bra the second rotation sits on the wire that
    was the THIRD one; the translation keeps the two spiders on their own wires (offsets 1 and 1, with the
    effect in between), and the circuit meets the hypotheses of `circuit2zx_sound`. -/
def midBra : Circ := [(1, .rot .Rz 2, 1), (0, .bra [false], 2), (1, .rot .Rz 4, 0)]
example : Circ.codFrom 3 midBra = some 2 := by decide
example : circuit2zx true midBra =
    .ok [(.z 1 1 2, 1), (.x 1 0 0, 0), (.scalar Cyc8.invSqrt2, 0), (.z 1 1 4, 1)] := by decide
example : ZXDiag.eval 3 [(.z 1 1 2, 1), (.x 1 0 0, 0), (.scalar Cyc8.invSqrt2, 0), (.z 1 1 4, 1)] ≠
    ZXDiag.eval 3 [(.z 1 1 6, 1), (.x 1 0 0, 0), (.scalar Cyc8.invSqrt2, 0)] := by decide
example : spiderVal (1 / 2) = nuC 1 ∧ nuC 1 ≠ 0 := ⟨by simpa using spiderVal_half 1, nuC_ne_zero 1⟩

/-- A LOCAL PATTERN of consecutive gates: `SWAP ≫ CRz(1/4) ≫ SWAP` at one offset (what
    `gates.rewire(CRz(1/4), 1, 0)` returns: control below target).  The translation is box by box — the
    image keeps both swaps around the image of `CRz` — and it has to: `CRz` is NOT symmetric in its two
    qubits, the conjugated gate is `diag(1, e⁻, 1, e⁺)`, the plain one `diag(1, 1, e⁻, e⁺)`; both have the
    entry 1 at (0, 0), so they are not proportional either.  The circuit meets the hypotheses of
    `circuit2zx_sound` (every well-typed list of layers does). -/
def swapCRz : Circ := [(0, .swap, 0), (0, .rot .CRz 2, 0), (0, .swap, 0)]
def plainCRz : Circ := [(0, .rot .CRz 2, 0)]
example : Circ.codFrom 2 swapCRz = some 2 := by decide
theorem swap_conjugation_kept : (circuit2zx true swapCRz).toOption =
    (circuit2zx true plainCRz).toOption.map (fun d => (.swap, 0) :: d ++ [(.swap, 0)]) := by decide
theorem crz_not_symmetric : evalCirc 2 swapCRz ≠ evalCirc 2 plainCRz ∧
    (evalCirc 2 swapCRz).head?.bind List.head? = some 1 ∧
    (evalCirc 2 plainCRz).head?.bind List.head? = some 1 := by decide

end DV.C16
