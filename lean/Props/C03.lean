/-
  Props/C03.lean — C03 "equality is structural, hash-consistent and printable".
  Property theorems only; proofs are appeals to Proofs/Eq.lean (and Proofs/Laws.lean).

  Model of the code's triples:
  * `Diagram.eqv`      = `monoidal.Diagram.__eq__` (monoidal.py:438-442): dom, cod, boxes, offsets;
  * `Box.eqvDiagram`   = `monoidal.Box.__eq__` against a plain diagram (monoidal.py:701-707);
  * `Val` / `Val.eqv`  = a Python value is a `Box` instance or a plain `Diagram`; `==` dispatched as
                         Python does (reflected `__eq__` of the subclass first);
  * `Sum.eqv`          = `cat.Sum.__eq__` (cat.py:666-670); types/objects/boxes: structural `=`
                         (`monoidal.Ty.__eq__` 165-166, `rigid.Ob.__eq__` 55-59, `cat.Box.__eq__` 600-604);
  * `reprDiagram`, `reprBox`, `reprTy`, `reprOb`, `reprSum` = the `__repr__` methods (Model/Repr.lean).
  Every `__hash__` in scope is `hash(repr(self))` (monoidal.py:168, 453, 709; cat.py:252, 598, 672)
  — so `repr_congr` IS hash consistency (`hash_congr`, for an arbitrary string hash `H`) — except
  `cat.Ob.__hash__ = hash(name)` and `rigid.Ob.__hash__ = hash(name)` / `hash((name, z))`, which
  hash exactly the fields `==` compares (`ob_hash_congr`).

  "However they were built": model values carry no construction history, so `eqv_iff` says it;
  that the CODE's values agree with the model's whatever the history is the correspondence run.

  PARTIAL — "repr evaluates back to an equal value".
  Proved: `repr_inj_partial` & co — the printed constructor syntax, as a SYNTAX TREE (`RT`), determines
  the value up to `==` (neither repr short-cut, nor the `.dagger()` suffix, nor the optional `z=` /
  `data=` arguments, nor the derived `Swap`/`Cup`/`Cap` forms conflate distinct values).
  NOT proved: `ReprStringInj` — the statement on the flat STRING.  It is reduced
  (`repr_inj_of_render`) to `RenderDeterminesTree`: the string determines the syntax tree, which
  needs token hygiene (every name/data token is the `repr` of a Python value that the parser reads
  back as ONE expression: balanced brackets/quotes, no top-level comma, not itself of the form
  `Ob(…)`, distinct values have distinct tokens) and is left as an unproved `def … : Prop`.
  That, and that Python's `eval` rebuilds an equal value from the string, is runtime behaviour of
  the interpreter: the check executes `eval(repr(v)) == v` on every generated value (oracle).
  Bubbles are not modelled (finding F8 lives in the oracle).
-/
import Proofs.Eq

namespace DV.C03
open DV

/-! ### Equality is structural -/

/-- Two diagrams are `==` exactly when they have the same domain, codomain, boxes and offsets. -/
theorem eqv_iff (a b : Diagram) :
    a.eqv b = true ↔ a.dom = b.dom ∧ a.cod = b.cod ∧ a.boxes = b.boxes ∧ a.offsets = b.offsets :=
  Diagram.eqv_iff

/-- On well-typed values `==` is full structural equality (the ignored `layers` are determined). -/
theorem eqv_iff_eq (a b : Diagram) (ha : a.WF) (hb : b.WF) : a.eqv b = true ↔ a = b :=
  Diagram.eqv_iff_eq ha hb

theorem eqv_refl (a : Diagram) : a.eqv a = true := Diagram.eqv_refl a
theorem eqv_symm (a b : Diagram) (h : a.eqv b = true) : b.eqv a = true := Diagram.eqv_symm h
theorem eqv_trans (a b c : Diagram) (h1 : a.eqv b = true) (h2 : b.eqv c = true) :
    a.eqv c = true := Diagram.eqv_trans h1 h2

/-- Sums: `==` exactly when same domain, codomain and pairwise `==` terms in the same order. -/
theorem sum_eqv_iff (a b : Sum) :
    a.eqv b = true ↔ a.dom = b.dom ∧ a.cod = b.cod ∧ a.terms.length = b.terms.length ∧
      ∀ i (h1 : i < a.terms.length) (h2 : i < b.terms.length),
        (a.terms[i]).eqv (b.terms[i]) = true := by
  rw [Sum.eqv_iff, eqvList_iff]

theorem sum_eqv_refl (a : Sum) : a.eqv a = true := Sum.eqv_refl a
theorem sum_eqv_symm (a b : Sum) (h : a.eqv b = true) : b.eqv a = true := Sum.eqv_symm h
theorem sum_eqv_trans (a b c : Sum) (h1 : a.eqv b = true) (h2 : b.eqv c = true) :
    a.eqv c = true := Sum.eqv_trans h1 h2
theorem sum_eqv_iff_eq (a b : Sum) (ha : a.WF) (hb : b.WF) : a.eqv b = true ↔ a = b :=
  Sum.eqv_iff_eq ha hb

/-! ### Mixed Box / Diagram comparisons, as the code does them -/

/-- A box equals the one-box diagram that wraps it, both ways round. -/
theorem box_eqv_wrap (b : Box) :
    (Val.box b).eqv (Val.diag (Diagram.ofBox b)) = true ∧
    (Val.diag (Diagram.ofBox b)).eqv (Val.box b) = true := Val.box_eqv_wrap b

/-- The asymmetric `Box.__eq__` agrees, on well-typed values, with field-by-field comparison of
    the wrapped box (it does not compare offsets; a well-typed one-box diagram has offset 0). -/
theorem val_eqv_eq (u v : Val) (hu : u.WF) (hv : v.WF) :
    u.eqv v = u.toDiagram.eqv v.toDiagram := Val.eqv_eq_toDiagram hu hv

theorem val_eqv_refl (u : Val) (hu : u.WF) : u.eqv u = true := Val.eqv_refl hu
theorem val_eqv_symm (u v : Val) (hu : u.WF) (hv : v.WF) (h : u.eqv v = true) :
    v.eqv u = true := Val.eqv_symm hu hv h
theorem val_eqv_trans (u v w : Val) (hu : u.WF) (hv : v.WF) (hw : w.WF)
    (h1 : u.eqv v = true) (h2 : v.eqv w = true) : u.eqv w = true :=
  Val.eqv_trans hu hv hw h1 h2

/-! ### Equal values print alike, hence hash alike -/

theorem repr_congr (a b : Diagram) (h : a.eqv b = true) : reprDiagram a = reprDiagram b :=
  DV.repr_congr h

/-- `__hash__ = hash(repr(self))`: for ANY string hash `H`, equal diagrams hash alike. -/
theorem hash_congr {α} (H : String → α) (a b : Diagram) (h : a.eqv b = true) :
    H (reprDiagram a) = H (reprDiagram b) := DV.hash_congr H h

/-- The same across box instances and plain diagrams (a box and its wrapping diagram hash alike,
    so either can be the key of a functor's mapping). -/
theorem val_repr_congr (u v : Val) (hu : u.WF) (hv : v.WF) (h : u.eqv v = true) :
    u.repr = v.repr := Val.repr_congr hu hv h
theorem val_hash_congr {α} (H : String → α) (u v : Val) (hu : u.WF) (hv : v.WF)
    (h : u.eqv v = true) : H u.repr = H v.repr := Val.hash_congr H hu hv h

theorem sum_repr_congr (a b : Sum) (h : a.eqv b = true) : reprSum a = reprSum b :=
  Sum.repr_congr h

/-- Objects: `cat.Ob.__hash__ = hash(name)`, `rigid.Ob.__hash__ = hash(name)` if `z = 0` else
    `hash((name, z))` — a function of the compared fields. -/
theorem ob_hash_congr {α} (H1 : String → α) (H2 : String × Int → α) (x y : Ob) (h : x = y) :
    (if x.z = 0 then H1 x.name else H2 (x.name, x.z)) =
    (if y.z = 0 then H1 y.name else H2 (y.name, y.z)) := by rw [h]

/-- At winding number 0 the two `Ty.__repr__` (monoidal.py:170, rigid.py:106) print alike. -/
theorem reprTy_monoidal (t : Ty) (h : ∀ x ∈ t, x.z = 0) : reprTy t = reprTyMonoidal t := by
  unfold reprTy reprTyMonoidal reprTTy reprTTyMonoidal
  congr 2
  apply List.map_congr_left
  intro x hx
  simp [reprTTyEntry, h x hx]

/-! ### The printed form loses nothing -/

/-- `repr` of a type determines the type. -/
theorem reprTy_inj_partial (s t : Ty) (h : reprTTy s = reprTTy t) : s = t := reprTTy_inj h

/-- `repr` of a box determines the box. -/
theorem reprBox_inj_partial (a b : Box) (ha : a.Canon) (hb : b.Canon)
    (h : reprTBox a = reprTBox b) : a = b := reprTBox_inj ha hb h

/-- `repr` of a well-typed diagram determines it up to `==` (syntax-tree level). -/
theorem repr_inj_partial (a b : Diagram) (ha : a.WF) (hb : b.WF) (hca : a.Canon) (hcb : b.Canon)
    (h : reprTDiagram a = reprTDiagram b) : a.eqv b = true := reprTDiagram_inj ha hb hca hcb h

theorem val_repr_inj_partial (u v : Val) (hu : u.WF) (hv : v.WF) (hcu : u.toDiagram.Canon)
    (hcv : v.toDiagram.Canon) (h : u.reprT = v.reprT) : u.eqv v = true :=
  Val.reprT_inj hu hv hcu hcv h

theorem sum_repr_inj_partial (a b : Sum) (ha : a.WF) (hb : b.WF) (hca : ∀ t ∈ a.terms, t.Canon)
    (hcb : ∀ t ∈ b.terms, t.Canon) (h : reprTSum a = reprTSum b) : a.eqv b = true :=
  reprTSum_inj ha hb hca hcb h

/-- `Canon` ("boxes the Python classes can produce") is kept by the operations. -/
theorem canon_ops (a b d : Diagram) (ha : a.WF) (hb : b.WF) (hca : a.Canon) (hcb : b.Canon) :
    (a.then b = .ok d → d.Canon) ∧ (a.tensor b = .ok d → d.Canon) ∧ a.dagger.Canon :=
  ⟨Diagram.Canon.then hca hcb, Diagram.Canon.tensor ha hb hca hcb, Diagram.Canon.dagger ha hca⟩

/-- The missing piece, stated exactly: for diagrams whose name/data tokens satisfy `ok`, the
    rendered STRING determines the printed syntax tree.  For Python the intended `ok` is: the token
    is the `repr` of a value that the parser reads back as ONE expression (balanced brackets and
    quotes, no top-level `,` or `=`, no trailing `.dagger()`), is not itself of the form `Ob(…)`
    (else `Ty(Ob('a', z=1))` is ambiguous between an object named by an `Ob` and an adjoint), and
    distinct values have distinct tokens.  NOT proved. -/
def RenderDeterminesTree (ok : String → Prop) : Prop :=
  ∀ a b : Diagram, (reprTDiagram a).AllTok ok → (reprTDiagram b).AllTok ok →
    reprDiagram a = reprDiagram b → reprTDiagram a = reprTDiagram b

/-- Full statement (NOT proved; rests on `RenderDeterminesTree` + the `eval(repr(v)) == v` oracle):
    the printed STRING of a well-typed diagram determines it up to `==`. -/
def ReprStringInj (ok : String → Prop) : Prop :=
  ∀ a b : Diagram, a.WF → b.WF → a.Canon → b.Canon →
    (reprTDiagram a).AllTok ok → (reprTDiagram b).AllTok ok →
    reprDiagram a = reprDiagram b → a.eqv b = true

/-- The reduction that IS proved: the lexical/parsing step is the only thing missing. -/
theorem repr_inj_of_render (ok : String → Prop) (h : RenderDeterminesTree ok) :
    ReprStringInj ok := by
  intro a b ha hb hca hcb ta tb e
  exact reprTDiagram_inj ha hb hca hcb (h a b ta tb e)

/-! ### Non-vacuity -/

private def x : Ob := ⟨"'x'", 0⟩
private def yl : Ob := ⟨"'y'", -1⟩
private def f : Box := { name := "'f'", dom := [x], cod := [yl, yl], data := "[1, 2]" }

-- two construction histories of the same value: `(f >> f†) >> f` and `f >> (f† >> f)`, and the
-- public constructor, are `==` and print alike
private def okWith {α} (r : Except Err α) (p : α → Bool) : Bool :=
  match r with | .error _ => false | .ok d => p d
private def F : Diagram := Diagram.ofBox f

example : okWith (F.then F.dagger) (fun a => okWith (a.then F) fun l =>
    okWith (F.dagger.then F) fun b => okWith (F.then b) fun r =>
    okWith (Diagram.mk? [x] [yl, yl] [f, f.dag, f] [0, 0, 0]) fun m =>
      l.eqv r && r.eqv m) = true := by decide

example : reprDiagram F.dagger =
    "Box('f', Ty('x'), Ty(Ob('y', z=-1), Ob('y', z=-1)), data=[1, 2]).dagger()" := by rfl
example : reprDiagram (Diagram.id [x, yl]) = "Id(Ty('x', Ob('y', z=-1)))" := by rfl
example : (Val.box f).repr = (Val.diag F).repr := by rfl

end DV.C03
