/-
  Props/C03.lean — C03 "equality is structural, hash-consistent and printable".
  Property theorems only; proofs are appeals to Proofs/Eq.lean (and Proofs/Laws.lean).

  Model of the code's triples:
  * `Diagram.eqv`      = `monoidal.Diagram.__eq__` (monoidal.py:438-442): dom, cod, boxes, offsets;
  * `Box.eqvDiagram`   = `monoidal.Box.__eq__` against a plain diagram (monoidal.py:701-707);
  * `Val` / `Val.eqv`  = a Python value is a `Box` instance or a plain `Diagram`; `==` dispatched as
                         Python does (reflected `__eq__` of the subclass first);
  * `Sum.eqv`          = `cat.Sum.__eq__` (cat.py:666-670); types/objects/boxes: structural `=`
                         (`monoidal.Ty.__eq__` 165-166, `rigid.Ob.__eq__` 55-59, `cat.Box.__eq__` 600-604);
  * `reprDiagram`, `reprBox`, `reprTy`, `reprOb`, `reprSum` = the `__repr__` methods (Model/Repr.lean).
  Every `__hash__` in scope is `hash(repr(self))` (monoidal.py:168, 453, 709; cat.py:252, 598, 672)
  — so `repr_congr` IS hash consistency (`hash_congr`, for an arbitrary string hash `H`) — except
  `cat.Ob.__hash__ = hash(name)` and `rigid.Ob.__hash__ = hash(name)` / `hash((name, z))`, which
  hash exactly the fields `==` compares (`ob_hash_congr`).

  "However they were built": model values carry no construction history, so `eqv_iff` says it;
  that the CODE's values agree with the model's whatever the history is the correspondence run.

  "Their printed repr is constructor syntax that evaluates back to an equal value":
  Proved — `repr_inj` (and `val_repr_inj`, `sum_repr_inj`, `reprBox_inj`, `reprTy_inj`): the printed
  STRING of a well-typed value determines the value up to `==`, under the explicit token-hygiene
  hypothesis `TokensSafe`: every name token, and every `data` token other than `None`, is non-empty
  and contains none of the six characters `, ( ) [ ] =` (true of the reprs of identifier-like
  strings such as `'abc'`, of ints and of floats).  It goes in two steps: the string determines the
  printed syntax tree (`RT.render_inj`, unique decoding, Proofs/ReprString.lean), and the tree
  determines the value (`repr_inj_tree`: neither repr short-cut, nor the `.dagger()` suffix, nor
  the optional `z=` / `data=` arguments, nor the derived `Swap`/`Cup`/`Cap` forms conflate values).
  PARTIAL — not proved: (i) values whose `data` token itself contains brackets or commas (list- or
  dict-valued data) — `ReprInjAnyData` is kept as an unproved `def … : Prop`; for those only the
  tree-level theorem `repr_inj_tree` holds; (ii) that Python's `eval` rebuilds an equal value
  from the string is runtime behaviour of the interpreter.  Both rest on the oracle, which
  executes `eval(repr(v)) == v` on every generated value.
  Bubbles are not modelled (finding F8 lives in the oracle).

  Derived values (round 3): `downgrade()` is modelled (Model/Downgrade.lean) and proved to keep the
  triple coherent — `downgrade_total`, `downgrade_eqv_congr`, `downgrade_repr_congr`,
  `downgrade_hash_congr`, `reprM_congr`, `box_downgrade_spec`, `reprBoxM_eq`; as far as true:
  `downgraded_repr_not_inj` (the printed form of a downgraded value with adjoint types does not
  determine it: finding F43b), so `repr_inj` is NOT claimed for downgraded values.

  PRO types (round 5): the classes `monoidal.PRO` / `rigid.PRO` (Model/ReprPRO.lean) define only
  `__init__`, `upgrade` and `__repr__` (`PRO(n)`); `==` and `hash` are `monoidal.Ty`'s (the objects;
  `hash(repr(self))`).  `pro_eq_iff` (PRO(m) == PRO(n) iff m = n), `reprPRO_congr` / `pro_hash_congr`
  (equal PRO types print and hash alike), `reprPRO_inj` (the printed form determines the type, no
  hygiene hypothesis needed: the only token is an int), `pro_tensor`, `pro_slice` (the derived values
  stay in the class: `upgrade` never raises on them).  That `hash()` is DEFINED on the class at all
  (a Python class that overrides `__eq__` without `__hash__` is unhashable) is not a statement about
  values: it is checked by the oracle on every PRO value the check builds.
-/
import Proofs.ReprString
import Proofs.Downgrade
import Proofs.ReprPRO

namespace DV.C03
open DV

/-! ### Equality is structural -/

/-- Two diagrams are `==` exactly when they have the same domain, codomain, boxes and offsets. -/
theorem eqv_iff (a b : Diagram) :
    a.eqv b = true ↔ a.dom = b.dom ∧ a.cod = b.cod ∧ a.boxes = b.boxes ∧ a.offsets = b.offsets :=
  Diagram.eqv_iff

/-- On well-typed values `==` is full structural equality (the ignored `layers` are determined). -/
theorem eqv_iff_eq (a b : Diagram) (ha : a.WF) (hb : b.WF) : a.eqv b = true ↔ a = b :=
  Diagram.eqv_iff_eq ha hb

theorem eqv_refl (a : Diagram) : a.eqv a = true := Diagram.eqv_refl a
theorem eqv_symm (a b : Diagram) (h : a.eqv b = true) : b.eqv a = true := Diagram.eqv_symm h
theorem eqv_trans (a b c : Diagram) (h1 : a.eqv b = true) (h2 : b.eqv c = true) :
    a.eqv c = true := Diagram.eqv_trans h1 h2

/-- Sums: `==` exactly when same domain, codomain and pairwise `==` terms in the same order. -/
theorem sum_eqv_iff (a b : Sum) :
    a.eqv b = true ↔ a.dom = b.dom ∧ a.cod = b.cod ∧ a.terms.length = b.terms.length ∧
      ∀ i (h1 : i < a.terms.length) (h2 : i < b.terms.length),
        (a.terms[i]).eqv (b.terms[i]) = true := by
  rw [Sum.eqv_iff, eqvList_iff]

theorem sum_eqv_refl (a : Sum) : a.eqv a = true := Sum.eqv_refl a
theorem sum_eqv_symm (a b : Sum) (h : a.eqv b = true) : b.eqv a = true := Sum.eqv_symm h
theorem sum_eqv_trans (a b c : Sum) (h1 : a.eqv b = true) (h2 : b.eqv c = true) :
    a.eqv c = true := Sum.eqv_trans h1 h2
theorem sum_eqv_iff_eq (a b : Sum) (ha : a.WF) (hb : b.WF) : a.eqv b = true ↔ a = b :=
  Sum.eqv_iff_eq ha hb

/-! ### Mixed Box / Diagram comparisons, as the code does them -/

/-- A box equals the one-box diagram that wraps it, both ways round. -/
theorem box_eqv_wrap (b : Box) :
    (Val.box b).eqv (Val.diag (Diagram.ofBox b)) = true ∧
    (Val.diag (Diagram.ofBox b)).eqv (Val.box b) = true := Val.box_eqv_wrap b

/-- The asymmetric `Box.__eq__` agrees, on well-typed values, with field-by-field comparison of
    the wrapped box (it does not compare offsets; a well-typed one-box diagram has offset 0). -/
theorem val_eqv_eq (u v : Val) (hu : u.WF) (hv : v.WF) :
    u.eqv v = u.toDiagram.eqv v.toDiagram := Val.eqv_eq_toDiagram hu hv

theorem val_eqv_refl (u : Val) (hu : u.WF) : u.eqv u = true := Val.eqv_refl hu
theorem val_eqv_symm (u v : Val) (hu : u.WF) (hv : v.WF) (h : u.eqv v = true) :
    v.eqv u = true := Val.eqv_symm hu hv h
theorem val_eqv_trans (u v w : Val) (hu : u.WF) (hv : v.WF) (hw : w.WF)
    (h1 : u.eqv v = true) (h2 : v.eqv w = true) : u.eqv w = true :=
  Val.eqv_trans hu hv hw h1 h2

/-! ### Equal values print alike, hence hash alike -/

theorem repr_congr (a b : Diagram) (h : a.eqv b = true) : reprDiagram a = reprDiagram b :=
  DV.repr_congr h

/-- `__hash__ = hash(repr(self))`: for ANY string hash `H`, equal diagrams hash alike. -/
theorem hash_congr {α} (H : String → α) (a b : Diagram) (h : a.eqv b = true) :
    H (reprDiagram a) = H (reprDiagram b) := DV.hash_congr H h

/-- The same across box instances and plain diagrams (a box and its wrapping diagram hash alike,
    so either can be the key of a functor's mapping). -/
theorem val_repr_congr (u v : Val) (hu : u.WF) (hv : v.WF) (h : u.eqv v = true) :
    u.repr = v.repr := Val.repr_congr hu hv h
theorem val_hash_congr {α} (H : String → α) (u v : Val) (hu : u.WF) (hv : v.WF)
    (h : u.eqv v = true) : H u.repr = H v.repr := Val.hash_congr H hu hv h

theorem sum_repr_congr (a b : Sum) (h : a.eqv b = true) : reprSum a = reprSum b :=
  Sum.repr_congr h

/-- Objects: `cat.Ob.__hash__ = hash(name)`, `rigid.Ob.__hash__ = hash(name)` if `z = 0` else
    `hash((name, z))` — a function of the compared fields. -/
theorem ob_hash_congr {α} (H1 : String → α) (H2 : String × Int → α) (x y : Ob) (h : x = y) :
    (if x.z = 0 then H1 x.name else H2 (x.name, x.z)) =
    (if y.z = 0 then H1 y.name else H2 (y.name, y.z)) := by rw [h]

/-- At winding number 0 the two `Ty.__repr__` (monoidal.py:170, rigid.py:106) print alike. -/
theorem reprTy_monoidal (t : Ty) (h : ∀ x ∈ t, x.z = 0) : reprTy t = reprTyMonoidal t := by
  unfold reprTy reprTyMonoidal reprTTy reprTTyMonoidal
  congr 2
  apply List.map_congr_left
  intro x hx
  simp [reprTTyEntry, h x hx]

/-! ### The printed form loses nothing -/

/-- **`repr` is injective up to `==`** on well-typed diagrams over boxes the Python classes can
    produce, with hygienic tokens: diagrams that print alike are equal. -/
theorem repr_inj (a b : Diagram) (ha : a.WF) (hb : b.WF) (hca : a.Canon) (hcb : b.Canon)
    (hta : a.TokensSafe) (htb : b.TokensSafe) (h : reprDiagram a = reprDiagram b) :
    a.eqv b = true := DV.repr_inj ha hb hca hcb hta htb h

/-- … also across box instances and plain diagrams, … -/
theorem val_repr_inj (u v : Val) (hu : u.WF) (hv : v.WF) (hcu : u.toDiagram.Canon)
    (hcv : v.toDiagram.Canon) (htu : u.toDiagram.TokensSafe) (htv : v.toDiagram.TokensSafe)
    (h : u.repr = v.repr) : u.eqv v = true := Val.repr_inj hu hv hcu hcv htu htv h

/-- … for sums, boxes and types. -/
theorem sum_repr_inj (a b : Sum) (ha : a.WF) (hb : b.WF) (hca : ∀ t ∈ a.terms, t.Canon)
    (hcb : ∀ t ∈ b.terms, t.Canon) (hta : a.TokensSafe) (htb : b.TokensSafe)
    (h : reprSum a = reprSum b) : a.eqv b = true := reprSum_inj ha hb hca hcb hta htb h

theorem reprBox_inj (a b : Box) (ha : a.Canon) (hb : b.Canon) (hta : a.TokensSafe)
    (htb : b.TokensSafe) (h : reprBox a = reprBox b) : a = b := DV.reprBox_inj ha hb hta htb h

theorem reprTy_inj (s t : Ty) (hs : Ty.TokensSafe s) (ht : Ty.TokensSafe t)
    (h : reprTy s = reprTy t) : s = t := DV.reprTy_inj hs ht h

/-- Step 1: the printed string of a hygienic syntax tree determines the tree. -/
theorem render_inj (s t : RT) (hs : s.Good) (ht : t.Good) (h : s.render = t.render) : s = t :=
  RT.render_inj hs ht h

/-- Step 2 (no token hypothesis at all): the printed syntax tree determines the value up to `==`. -/
theorem repr_inj_tree (a b : Diagram) (ha : a.WF) (hb : b.WF) (hca : a.Canon) (hcb : b.Canon)
    (h : reprTDiagram a = reprTDiagram b) : a.eqv b = true := reprTDiagram_inj ha hb hca hcb h

theorem val_repr_inj_tree (u v : Val) (hu : u.WF) (hv : v.WF) (hcu : u.toDiagram.Canon)
    (hcv : v.toDiagram.Canon) (h : u.reprT = v.reprT) : u.eqv v = true :=
  Val.reprT_inj hu hv hcu hcv h

theorem sum_repr_inj_tree (a b : Sum) (ha : a.WF) (hb : b.WF) (hca : ∀ t ∈ a.terms, t.Canon)
    (hcb : ∀ t ∈ b.terms, t.Canon) (h : reprTSum a = reprTSum b) : a.eqv b = true :=
  reprTSum_inj ha hb hca hcb h

/-- `Canon` ("boxes the Python classes can produce") is kept by the operations. -/
theorem canon_ops (a b d : Diagram) (ha : a.WF) (hb : b.WF) (hca : a.Canon) (hcb : b.Canon) :
    (a.then b = .ok d → d.Canon) ∧ (a.tensor b = .ok d → d.Canon) ∧ a.dagger.Canon :=
  ⟨Diagram.Canon.then hca hcb, Diagram.Canon.tensor ha hb hca hcb, Diagram.Canon.dagger ha hca⟩

/-- Full statement for ARBITRARY data tokens (e.g. list- or dict-valued `data`, whose repr has
    brackets and commas of its own): NOT proved.  `ok` is the class of admitted tokens; for Python
    the intended one is "the repr of a value that parses back as one expression, and distinct
    values have distinct reprs".  Rests on the `eval(repr(v)) == v` oracle. -/
def ReprInjAnyData (ok : String → Prop) : Prop :=
  ∀ a b : Diagram, a.WF → b.WF → a.Canon → b.Canon →
    (reprTDiagram a).AllTok ok → (reprTDiagram b).AllTok ok →
    reprDiagram a = reprDiagram b → a.eqv b = true

/-! ### Derived values: `downgrade()` keeps the triple coherent

  `Box.downgrade` / `Diagram.downgrade` (Model/Downgrade.lean; monoidal.py:161-163, 328-332, 684-693):
  the objects of the types are kept, a `Swap`/`Cup`/`Cap` becomes the generic box carrying the
  name the class derives, the result is a `monoidal` value (types print their names only:
  `reprDiagramM`).  A model value has no history, so "whatever was done to the value before"
  is again the correspondence run (history stream of the check). -/

/-- `downgrade()` is total on well-typed diagrams: same `dom`, `cod`, offsets, downgraded boxes. -/
theorem downgrade_total (d : Diagram) (h : d.WF) :
    ∃ d', d.downgrade = .ok d' ∧ d'.WF ∧ d'.dom = d.dom ∧ d'.cod = d.cod ∧
      d'.boxes = d.boxes.map Box.downgrade ∧ d'.offsets = d.offsets := Diagram.downgrade_of_wf h

/-- Equal diagrams have equal downgrades … -/
theorem downgrade_eqv_congr (a b a' b' : Diagram) (h : a.eqv b = true)
    (ha : a.downgrade = .ok a') (hb : b.downgrade = .ok b') : a'.eqv b' = true :=
  Diagram.downgrade_eqv_congr h ha hb

/-- … which print alike, hence hash alike (`__hash__ = hash(repr(self))`, any string hash `H`). -/
theorem downgrade_repr_congr (a b a' b' : Diagram) (h : a.eqv b = true)
    (ha : a.downgrade = .ok a') (hb : b.downgrade = .ok b') : reprDiagramM a' = reprDiagramM b' :=
  Diagram.downgrade_repr_congr h ha hb
theorem downgrade_hash_congr {α} (H : String → α) (a b a' b' : Diagram) (h : a.eqv b = true)
    (ha : a.downgrade = .ok a') (hb : b.downgrade = .ok b') :
    H (reprDiagramM a') = H (reprDiagramM b') := by rw [Diagram.downgrade_repr_congr h ha hb]

/-- Any two `==` values of `monoidal` (downgraded or not) print alike. -/
theorem reprM_congr (a b : Diagram) (h : a.eqv b = true) : reprDiagramM a = reprDiagramM b :=
  DV.reprM_congr h

/-- A downgraded box is a generic box with the same `dom`, `cod`, `data` and dagger flag;
    downgrading is idempotent and leaves generic boxes alone. -/
theorem box_downgrade_spec (b : Box) :
    b.downgrade.kind = .gen ∧ b.downgrade.dom = b.dom ∧ b.downgrade.cod = b.cod ∧
    b.downgrade.data = b.data ∧ b.downgrade.dagger = b.dagger ∧
    b.downgrade.downgrade = b.downgrade ∧ (b.kind = .gen → b.downgrade = b) :=
  ⟨b.downgrade_kind, b.downgrade_dom, b.downgrade_cod, b.downgrade_data.1, b.downgrade_data.2,
    b.downgrade_idem, Box.downgrade_gen⟩

/-- At winding number 0 the `monoidal` printer is the `rigid` one (the two families print alike). -/
theorem reprBoxM_eq (b : Box) (hd : ∀ x ∈ b.dom, x.z = 0) (hc : ∀ x ∈ b.cod, x.z = 0) :
    reprBoxM b = reprBox b := by simp [reprBoxM, reprBox, reprTBoxM_eq hd hc]

/-- As far as true: injectivity of the printed form does NOT extend to downgraded values (`==`
    compares the winding numbers that `downgrade` keeps, `monoidal.Ty.__repr__` drops them). -/
theorem downgraded_repr_not_inj :
    ∃ a b : Box, a.downgrade ≠ b.downgrade ∧ reprBoxM a.downgrade = reprBoxM b.downgrade :=
  DV.reprBoxM_not_inj

/-! ### Non-vacuity -/

private def x : Ob := ⟨"'x'", 0⟩
private def yl : Ob := ⟨"'y'", -1⟩
private def f : Box := { name := "'f'", dom := [x], cod := [yl, yl], data := "[1, 2]" }

-- two construction histories of the same value: `(f >> f†) >> f` and `f >> (f† >> f)`, and the
-- public constructor, are `==` and print alike
private def okWith {α} (r : Except Err α) (p : α → Bool) : Bool :=
  match r with | .error _ => false | .ok d => p d
private def F : Diagram := Diagram.ofBox f

example : okWith (F.then F.dagger) (fun a => okWith (a.then F) fun l =>
    okWith (F.dagger.then F) fun b => okWith (F.then b) fun r =>
    okWith (Diagram.mk? [x] [yl, yl] [f, f.dag, f] [0, 0, 0]) fun m =>
      l.eqv r && r.eqv m) = true := by decide

example : reprDiagram F.dagger =
    "Box('f', Ty('x'), Ty(Ob('y', z=-1), Ob('y', z=-1)), data=[1, 2]).dagger()" := by rfl
example : reprDiagram (Diagram.id [x, yl]) = "Id(Ty('x', Ob('y', z=-1)))" := by rfl
example : (Val.box f).repr = (Val.diag F).repr := by rfl

-- downgrade of a rigid diagram with a swap on adjoint types: the swap becomes a generic box named
-- by `str` of its types, the winding numbers are no longer printed
private def sw : Box := { kind := .swap, name := "-", dom := [x, yl], cod := [yl, x] }
example : (Diagram.ofBox sw).downgrade.toOption.map reprDiagramM =
    some "Box('Swap(x, y.l)', Ty('x', 'y'), Ty('y', 'x'))" := by decide
example : (Diagram.ofBox sw).WF :=
  ⟨rfl, rfl, rfl, rfl, by simp [LArrow.WF, Chain, Diagram.ofBox, Layer.dom, Layer.cod]⟩

-- the hypotheses of `repr_inj` are met by a concrete three-box rigid diagram with a daggered box
-- and numeric data
private def h : Box := { name := "'h'", dom := [x], cod := [yl, yl], data := "2.5" }
private def D3 : Diagram :=
  ⟨[x], [yl, yl], [h, h.dag, h], [0, 0, 0],
    ⟨[x], [yl, yl], [⟨[], h, []⟩, ⟨[], h.dag, []⟩, ⟨[], h, []⟩]⟩⟩
example : D3.WF :=
  ⟨rfl, rfl, rfl, rfl, by simp [LArrow.WF, Chain, D3, Layer.dom, Layer.cod, h, Box.dag]⟩
example : D3.Canon := by intro b hb; simp [D3] at hb; rcases hb with rfl | rfl | rfl <;> trivial
example : D3.TokensSafe := by
  have hx : Ty.TokensSafe [x] := by intro o ho; simp at ho; subst ho; exact lit_safe "'x'"
  have hy : Ty.TokensSafe [yl, yl] := by intro o ho; simp at ho; subst ho; exact lit_safe "'y'"
  refine ⟨hx, hy, ?_⟩
  intro b hb
  simp [D3] at hb
  rcases hb with rfl | rfl | rfl
  · exact ⟨lit_safe "'h'", .inr (lit_safe "2.5"), hx, hy⟩
  · exact ⟨lit_safe "'h'", .inr (lit_safe "2.5"), hy, hx⟩
  · exact ⟨lit_safe "'h'", .inr (lit_safe "2.5"), hx, hy⟩
-- list-valued data is outside the hygiene hypothesis (it has a comma and brackets of its own)
example : ¬ SafeTok "[1, 2]" := by
  intro hs; have := hs.2 '[' (by decide); revert this; decide

/-! ### PRO types (monoidal.PRO, rigid.PRO) -/

/-- `PRO(m) == PRO(n)` exactly when they have the same number of wires. -/
theorem pro_eq_iff (m n : Nat) : proTy m = proTy n ↔ m = n := proTy_eq_iff m n

/-- Equal PRO values print alike ... -/
theorem reprPRO_congr (s t : Ty) (h : s = t) : reprPRO s = reprPRO t := DV.reprPRO_congr h

/-- ... hence hash alike, for any string hash (`monoidal.Ty.__hash__ = hash(repr(self))`). -/
theorem pro_hash_congr {α} (H : String → α) (m n : Nat) (h : proTy m = proTy n) :
    H (reprPRO (proTy m)) = H (reprPRO (proTy n)) := by rw [h]

/-- The printed form `PRO(n)` determines the type. -/
theorem reprPRO_inj (m n : Nat) (h : reprPRO (proTy m) = reprPRO (proTy n)) : proTy m = proTy n :=
  (proTy_eq_iff m n).mpr (DV.reprPRO_inj h)

/-- Tensor and slices of PRO types are PRO types again (`upgrade` finds only objects named 1). -/
theorem pro_tensor (m n : Nat) : proTensor m n = .ok (m + n) := proTensor_eq m n
theorem pro_slice (n : Nat) (i j : Option Int) :
    proSlice n i j = .ok (pySlice (proTy n) i j).length := proSlice_ok n i j

example : reprPRO (proTy 12) = "PRO(12)" := by decide
example : proSlice 5 (some 1) (some (-1)) = .ok 3 := by decide
example : proTy 2 ≠ proTy 3 := by decide
-- a type with a foreign object is refused by `PRO.upgrade` (monoidal.py:219-221)
example : proUpgrade [proOb, ⟨"'x'", 0⟩] = .error .type := by decide

end DV.C03
