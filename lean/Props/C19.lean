/-
  Props/C19.lean — C19 "Cartesian diagrams compute the function they draw".
  Property theorems only; proofs are appeals to Proofs/Cartesian.lean.

  Vocabulary (Model/Cartesian.lean, Proofs/Cartesian.lean):
    d.call xs     what `d(*xs)` returns: transcription of cartesian.Diagram.__call__, i.e. the
                  functor of monoidal.py:838-846 into `Function`s (then / tensor / id closures)
    b.call xs     the same for a single `Box` (the functor's Box branch: no identities composed)
    d.run xs      the property's reference semantics: feed the inputs through the boxes in order,
                  each box applied to the wires at its offset, outputs spliced back in place
    d.WF          each box finds its `dom` wires at its offset and the scan ends at `cod`
    b.Respects    on `dom` atomic arguments the box returns something that unpacks (tuplify) to
                  exactly `cod` atomic values — a bare value or a 1-tuple for `cod = 1`, `()` for 0
    AllAtoms xs   no Python tuple among the values: ints (`atom n`) and typed tokens (`tok ty n`:
                  floats, bools, None, strings, lists, dicts, sets …) alike.  Every theorem below
                  therefore holds for inputs of all these types, and says that the result carries
                  the very tokens a run puts on the wires: `1`, `1.0` and `True` (`atom 1`,
                  `tok float 1`, `tok bool 1`) are three different values (`typed_tokens_distinct`)
                  that Python's `==`/`hash` cannot tell apart.  The model has no history: `d.call`
                  is a function of the inputs alone, so the differential check may call one diagram
                  object several times and compare every call with the same `d.call`.

  Stated limit (not a partial proof): wires carry non-tuple values.  A box that puts a tuple on a
  single wire is re-split by `tuplify`; `limit_witness` below exhibits the counter-case, so the
  hypothesis `Respects` is not silent.  Everything else in the property is proved for all
  diagrams, all arities (0 and 1 are separate paths of `tuplify`/`untuplify`, handled in
  `tuplify_untuplify`, `strict_tensor`, `strict_then`) and all widths of Swap/Copy/Discard.
-/
import Proofs.Cartesian

namespace DV.C19
open DV DV.Cart

/-! ### Calling a diagram = running it -/

/-- Main clause.  For every well-typed diagram whose boxes respect their arity and every tuple
    of atomic inputs — of ANY length — `d(*xs)` is the packed result of the reference run:
    the same value, or the same exception class (a wrong number of inputs is a `TypeError`). -/
theorem call_eq_run (d : CDiagram) (hwf : d.WF) (hb : d.BoxesOK) (xs : List PyVal)
    (hx : AllAtoms xs) : d.call xs = (d.run xs).map untuplify := Cart.call_eq_run hwf hb xs hx

/-- The run of such a diagram puts exactly `cod` atomic values on the output wires. -/
theorem run_wires (d : CDiagram) (hwf : d.WF) (hb : d.BoxesOK) (xs ys : List PyVal)
    (hx : AllAtoms xs) (h : d.run xs = .ok ys) : ys.length = d.cod ∧ AllAtoms ys :=
  Cart.run_good hwf hb hx h

/-- A wrong number of inputs is refused with a `TypeError`. -/
theorem call_wrong_input_count (d : CDiagram) (hwf : d.WF) (hb : d.BoxesOK) (xs : List PyVal)
    (hx : AllAtoms xs) (h : xs.length ≠ d.dom) : d.call xs = .error .type := by
  rw [Cart.call_eq_run hwf hb xs hx]
  simp [CDiagram.run, h]
  rfl

/-- A `Box` called directly takes the other branch of the functor: it returns the function's own
    object, which unpacks to the run of the one-box diagram (for every box, no hypothesis). -/
theorem box_call_eq_run (b : CBox) (xs : List PyVal) :
    (b.call xs).map tuplify = b.diagram.run xs := Cart.box_call_eq_run b xs

/-- The diagrams the public constructor hands back are exactly the well-typed requests. -/
theorem mk_ok (dom cod : Nat) (bs : List CBox) (os : List Int) (d : CDiagram)
    (h : CDiagram.mk? dom cod bs os = .ok d) :
    d.WF ∧ d.dom = dom ∧ d.cod = cod ∧ d.boxes = bs ∧ d.offsets.map Int.ofNat = os :=
  Cart.mk?_ok h

theorem mk_of_wf (dom cod : Nat) (bs : List CBox) (os : List Nat) (h : WFfrom dom bs os cod) :
    CDiagram.mk? dom cod bs (os.map Int.ofNat) = .ok ⟨dom, cod, bs, os⟩ := Cart.mk?_of_wf h

/-- `>>` composes runs … -/
theorem run_then (a b : CDiagram) (ha : a.WF) (hba : a.BoxesOK) (h : a.cod = b.dom)
    (xs : List PyVal) (hx : AllAtoms xs) :
    ∃ c, a.then b = .ok c ∧ c.run xs = (a.run xs).bind b.run :=
  ⟨_, Cart.then_ok h, Cart.run_then ha hba h xs hx⟩

/-- … and `@` runs its factors side by side. -/
theorem run_tensor (a b : CDiagram) (ha : a.WF) (hba : a.BoxesOK) (xs ys : List PyVal)
    (hx : AllAtoms xs) (hlx : xs.length = a.dom) (hly : ys.length = b.dom) :
    (a.tensor b).run (xs ++ ys) =
      (a.run xs).bind (fun xs' => (b.run ys).bind (fun ys' => .ok (xs' ++ ys'))) :=
  Cart.run_tensor ha hba xs ys hx hlx hly

/-! ### Swap, Copy, Discard of every width -/

/-- `Swap(l, r)` is accepted by the scanning constructor and exchanges its two blocks of inputs
    as a whole (induction over the `l × r` network of cartesian.py:281-282). -/
theorem swap_spec (xs ys : List PyVal) (hx : AllAtoms xs) (hy : AllAtoms ys) :
    ∃ d, swapD xs.length ys.length = .ok d ∧ d.dom = xs.length + ys.length ∧
      d.cod = ys.length + xs.length ∧ d.WF ∧ d.BoxesOK ∧
      d.run (xs ++ ys) = .ok (ys ++ xs) ∧ d.call (xs ++ ys) = .ok (untuplify (ys ++ xs)) :=
  Cart.swap_spec xs ys hx hy

/-- `Copy(n)` duplicates its inputs as a whole (COPY on every wire, then induction over the
    unshuffle network of cartesian.py:295-297). -/
theorem copy_spec (xs : List PyVal) (hx : AllAtoms xs) :
    ∃ d, copyD xs.length = .ok d ∧ d.dom = xs.length ∧ d.cod = 2 * xs.length ∧ d.WF ∧
      d.BoxesOK ∧ d.run xs = .ok (xs ++ xs) ∧ d.call xs = .ok (untuplify (xs ++ xs)) :=
  Cart.copy_spec xs hx

/-- `Discard(n)` deletes all its inputs. -/
theorem discard_spec (xs : List PyVal) (hx : AllAtoms xs) :
    (discardD xs.length).dom = xs.length ∧ (discardD xs.length).cod = 0 ∧
      (discardD xs.length).WF ∧ (discardD xs.length).BoxesOK ∧
      (discardD xs.length).run xs = .ok [] ∧ (discardD xs.length).call xs = .ok (.tup []) :=
  Cart.discard_spec xs hx

/-! ### The cartesian axioms on all inputs -/

/-- Naturality of swap: `(f @ g >> Swap(f.cod, g.cod))(*xs, *ys) = (Swap(f.dom, g.dom) >> g @ f)(*xs, *ys)`
    for all well-typed `f`, `g` with good boxes that return on `xs`, `ys`. -/
theorem swap_natural (f g : CDiagram) (hf : f.WF) (hg : g.WF) (hbf : f.BoxesOK) (hbg : g.BoxesOK)
    (xs ys xs' ys' : List PyVal) (hx : AllAtoms xs) (hy : AllAtoms ys)
    (hfx : f.run xs = .ok xs') (hgy : g.run ys = .ok ys') :
    ∃ s1 s2 l r, swapD f.cod g.cod = .ok s1 ∧ swapD f.dom g.dom = .ok s2 ∧
      (f.tensor g).then s1 = .ok l ∧ s2.then (g.tensor f) = .ok r ∧
      l.call (xs ++ ys) = .ok (untuplify (ys' ++ xs')) ∧
      r.call (xs ++ ys) = .ok (untuplify (ys' ++ xs')) :=
  Cart.swap_natural hf hg hbf hbg hx hy hfx hgy

/-- Naturality of copy: `(f >> Copy(f.cod))(*xs) = (Copy(f.dom) >> f @ f)(*xs)`. -/
theorem copy_natural (f : CDiagram) (hf : f.WF) (hbf : f.BoxesOK) (xs xs' : List PyVal)
    (hx : AllAtoms xs) (hfx : f.run xs = .ok xs') :
    ∃ c1 c2 l r, copyD f.cod = .ok c1 ∧ copyD f.dom = .ok c2 ∧
      f.then c1 = .ok l ∧ c2.then (f.tensor f) = .ok r ∧
      l.call xs = .ok (untuplify (xs' ++ xs')) ∧ r.call xs = .ok (untuplify (xs' ++ xs')) :=
  Cart.copy_natural hf hbf hx hfx

/-- Naturality of discard: `(f >> Discard(f.cod))(*xs) = Discard(f.dom)(*xs) = ()`. -/
theorem discard_natural (f : CDiagram) (hf : f.WF) (hbf : f.BoxesOK) (xs xs' : List PyVal)
    (hx : AllAtoms xs) (hfx : f.run xs = .ok xs') :
    ∃ l, f.then (discardD f.cod) = .ok l ∧ l.call xs = .ok (.tup []) ∧
      (discardD f.dom).call xs = .ok (.tup []) :=
  Cart.discard_natural hf hbf hx hfx

/-! ### Non-vacuity: boxes that respect their arity exist for every arity -/

theorem affine_respects (m n : Nat) (s : Int) (bare : Bool) :
    ((Prim.affine m n s bare).box m n).Respects := Cart.affine_respects m n s bare

/-- Hierarchical boxes: a box whose function is the identity sub-diagram `Id(m)`. -/
theorem ident_respects (m : Nat) : ((Prim.ident m).box m m).Respects := Cart.ident_respects m

/-- Type-observing and type-preserving pool boxes, and 0-input states of any (non-tuple) value. -/
theorem tyc_respects (m i : Nat) : ((Prim.tyc m i).box m 1).Respects := Cart.tyc_respects m i

theorem proj_respects (m i : Nat) : ((Prim.proj m i).box m 1).Respects := Cart.proj_respects m i

theorem pick_respects (m : Nat) (is : List Nat) : ((Prim.pick m is).box m is.length).Respects :=
  Cart.pick_respects m is

theorem const_respects (m : Nat) (v : PyVal) (hv : v.isAtom = true) :
    ((Prim.const m v).box m 1).Respects := Cart.const_respects m v hv

theorem generators_respect : SWAP.Respects ∧ COPY.Respects ∧ DISCARD.Respects ∧ ADD.Respects :=
  ⟨Cart.SWAP_respects, Cart.COPY_respects, Cart.DISCARD_respects, Cart.ADD_respects⟩

/-- A diagram with arity-0 and arity-1 boxes on 2 wires:
    `const 7 : 0→1` (bare value) at 1, `ADD` at 1, `SWAP` at 0, `DISCARD` at 0, `unit : 0→0` at 1,
    `const (5,) : 0→1` (1-tuple) at 1, `COPY` at 0:   (x, y) ↦ (x, x, 5). -/
def ex1 : CDiagram :=
  ⟨2, 3, [(Prim.affine 0 1 7 true).box 0 1, ADD, SWAP, DISCARD, (Prim.affine 0 0 0 false).box 0 0,
          (Prim.affine 0 1 5 false).box 0 1, COPY], [1, 1, 0, 0, 1, 1, 0]⟩

example : ex1.WF := by decide
example : ex1.BoxesOK := by
  intro b hb
  simp only [ex1, List.mem_cons, List.not_mem_nil, or_false] at hb
  rcases hb with rfl | rfl | rfl | rfl | rfl | rfl | rfl
  · exact affine_respects 0 1 7 true
  · exact generators_respect.2.2.2
  · exact generators_respect.1
  · exact generators_respect.2.2.1
  · exact affine_respects 0 0 0 false
  · exact affine_respects 0 1 5 false
  · exact generators_respect.2.1
example : ex1.call [.atom 10, .atom 20] = .ok (.tup [.atom 10, .atom 10, .atom 5]) := by decide
example : ex1.run [.atom 10, .atom 20] = .ok [.atom 10, .atom 10, .atom 5] := by decide
example : ex1.call [.atom 10] = .error .type := by decide

/-- arity-1 output: the call returns the bare value, arity-0 output: the empty tuple. -/
example : (CDiagram.mk 2 1 [ADD] [0]).call [.atom 1, .atom 2] = .ok (.atom 3) := by decide
example : (CDiagram.mk 1 0 [DISCARD] [0]).call [.atom 1] = .ok (.tup []) := by decide
example : (CDiagram.id 0).call [] = .ok (.tup []) := by decide
example : (CDiagram.id 1).call [.atom 4] = .ok (.atom 4) := by decide
/-- The `Box` branch returns the 1-tuple unchanged; through a diagram it is unpacked. -/
example : ((Prim.affine 0 1 5 false).box 0 1).call [] = .ok (.tup [.atom 5]) := by decide
example : ((Prim.affine 0 1 5 false).box 0 1).diagram.call [] = .ok (.atom 5) := by decide

/-- Swap(2, 3), Copy(3), Discard(2) computed by the model (cartesian.py:277, 289, 306). -/
example : (swapD 2 3).bind (·.call [.atom 0, .atom 1, .atom 2, .atom 3, .atom 4]) =
    .ok (.tup [.atom 2, .atom 3, .atom 4, .atom 0, .atom 1]) := by decide
example : (copyD 3).bind (·.call [.atom 0, .atom 1, .atom 2]) =
    .ok (.tup [.atom 0, .atom 1, .atom 2, .atom 0, .atom 1, .atom 2]) := by decide
example : (discardD 2).call [.atom 43, .atom 44] = .ok (.tup []) := by decide

/-! ### Typed tokens: equal-looking values of different types stay apart -/

/-- `1`, `1.0`, `True` — and `0.0`, `-0.0` (entry 0 of the harness's table of other floats) —
    are pairwise different wire values, whatever Python's `==` says. -/
theorem typed_tokens_distinct :
    PyVal.atom 1 ≠ .tok .float 1 ∧ PyVal.atom 1 ≠ .tok .bool 1 ∧
      PyVal.tok .float 1 ≠ .tok .bool 1 ∧ PyVal.tok .float 0 ≠ .tok .floatx 0 ∧
      (∀ t n, (PyVal.tok t n).isAtom = true) := by
  refine ⟨by decide, by decide, by decide, by decide, fun _ _ => rfl⟩

/-- `SWAP >> tyc @ proj`: the type of the first output and the second output itself.  On
    `(1, 2.0)`, `(1.0, 2)` and `(True, None)` — three calls a cache keyed by `==` would confuse —
    the model answers with the types of THIS call. -/
def ex2 : CDiagram := ⟨2, 2, [SWAP, (Prim.tyc 1 0).box 1 1, (Prim.proj 1 0).box 1 1], [0, 0, 1]⟩

example : ex2.WF := by decide
example : ex2.BoxesOK := by
  intro b hb
  simp only [ex2, List.mem_cons, List.not_mem_nil, or_false] at hb
  rcases hb with rfl | rfl | rfl
  · exact generators_respect.1
  · exact tyc_respects 1 0
  · exact proj_respects 1 0
example : ex2.call [.atom 1, .tok .float 2] = .ok (.tup [.atom 1, .atom 1]) := by decide
example : ex2.call [.tok .float 1, .atom 2] = .ok (.tup [.atom 0, .tok .float 1]) := by decide
example : ex2.call [.tok .bool 1, .tok .none 0] = .ok (.tup [.atom 5, .tok .bool 1]) := by decide
/-- Structural diagrams move unhashable values (a list, a dict) like any other. -/
example : (swapD 1 2).bind (·.call [.tok .list 0, .tok .dict 1, .tok .float 1]) =
    .ok (.tup [.tok .dict 1, .tok .float 1, .tok .list 0]) := by decide
example : (copyD 2).bind (·.call [.tok .set 0, .tok .bool 0]) =
    .ok (.tup [.tok .set 0, .tok .bool 0, .tok .set 0, .tok .bool 0]) := by decide
/-- The numeric tower of the pool's arithmetic: `True + True` is the int 2, `1 + 1.0` the float 2.0,
    `None + 1` a `TypeError`. -/
example : ADD.call [.tok .bool 1, .tok .bool 1] = .ok (.atom 2) := by decide
example : ADD.call [.atom 1, .tok .float 1] = .ok (.tok .float 2) := by decide
example : ADD.call [.tok .none 0, .atom 1] = .error .type := by decide
/-- A 0-input box (a state) used twice is run twice: two wires. -/
example : (CDiagram.mk 0 2 [(Prim.const 0 (.tok .float 1)).box 0 1,
    (Prim.const 0 (.tok .float 1)).box 0 1] [0, 1]).call [] =
    .ok (.tup [.tok .float 1, .tok .float 1]) := by decide

/-! ### The documented limit: a tuple on a single wire is re-split -/

/-- `nest : 2 → 1` returns `((x, y),)` — one wire carrying the tuple `(x, y)` — then `DISCARD`
    deletes that wire.  The run succeeds with no output; the call re-splits the tuple into two
    arguments and the second layer refuses them (`(nest >> DISCARD)(1, 2)` is a `TypeError`). -/
def limitD : CDiagram := ⟨2, 0, [(Prim.nest 2).box 2 1, DISCARD], [0, 0]⟩

theorem limit_witness :
    limitD.WF ∧ limitD.run [.atom 1, .atom 2] = .ok [] ∧
      limitD.call [.atom 1, .atom 2] = .error .type ∧ ¬ ((Prim.nest 2).box 2 1).Respects := by
  refine ⟨by decide, by decide, by decide, ?_⟩
  intro h
  have := (h [.atom 1, .atom 2] (.tup [.tup [.atom 1, .atom 2]]) rfl
    (by intro z hz; simp at hz; rcases hz with rfl | rfl <;> rfl) rfl).2
  exact absurd (this (.tup [.atom 1, .atom 2]) (by simp [tuplify])) (by simp [PyVal.isAtom])

end DV.C19
