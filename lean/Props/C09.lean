/-
  Props/C09.lean — evaluating a diagram computes its compositional meaning.

  Statement (properties.jsonl C09): the tensor a tensor-functor assigns to a diagram equals the
  layer-by-layer composite (identity on the left wires) ⊗ (tensor of the box) ⊗ (identity on the
  right wires) of the tensors it assigns to the boxes, with swaps, cups, caps, daggered boxes,
  spiders, bubbles and sums interpreted by their defining tensors; in particular evaluation is
  invariant under interchange and normalisation, and `Diagram.eval` is the identity-on-arrays
  functor.

  Model: `TFunctor.call` (Model/Tensor.lean) transcribes the single-pass loop of
  `tensor.Functor.__call__` (tensor.py:365-391: `tensordot` on tracked axis positions, then
  `moveaxis` of the new axes; swaps special-cased as a `moveaxis` of the running array);
  `TFunctor.layerwise` is the reference semantics: the fold of
  `acc >> (Tensor.id(F left) @ F(box) @ Tensor.id(F right))` over the layers, with
  `F(swap) = Tensor.swap`, `F(cup) = Tensor.cups`, `F(cap) = Tensor.caps`,
  `F(f†) = F(f).dagger()` (tensor.py:352-361).

  PROVED (over any commutative star semiring, all diagrams, all object maps incl. dimension 1
  and multi-wire `Dim`s, all arrays; `GaussInt`, at which the compiled model runs, is one):
  * `functor_eval_eq_layers`: on every well-typed diagram (`Diagram.WF`, the C01 predicate)
    whose `Swap`/`Cup`/`Cap` boxes are genuine (`Genuine`: a swap exchanges its first wire with
    the rest, a cup has two input wires and no output, a cap the converse — what the classes of
    discopy guarantee) the two programs return the SAME result: the same tensor, or the same
    error (an array of the wrong size, or `Tensor.cups` refusing non-adjoint dimension tuples
    because winding numbers are erased).  No hypothesis on the functor.
    Proof: induction over the layers with the loop invariant `Inv` (the running array has axes
    `[F dom | F scan | 1…1]` and, reshaped, is the composite so far); the box branch is
    `stepBox_spec` (`tensordotAxes_block` for tensor.py:381-385, `moveaxisOrder_moveback` for
    386-389), the swap branch `stepSwap_spec` (`moveaxisOrder_blockswap` for 369-377).
  * `functor_eval_eq_layers_of_boxOK`: the same from the weaker hypothesis that every box is
    sent to a well-formed tensor of the type the functor assigns to it (`BoxOK`), discharged by
    `boxOK_of_genuine`: generators and daggered generators, swaps, nested cups and caps of
    every dimension tuple (`Proofs/TensorCups.lean`).
  * `functor_eval_eq_layers_of_expr`: the same for any diagram produced by the op language
    (`Expr.eval`, well-typed by C01) whose boxes pass the Boolean test the driver reports.
  * `call_ofBox`: a box seen as a one-box diagram evaluates to `F(box)` (the `Box` branch of
    `__call__`, tensor.py:356-361, agrees with the loop).
  * `functor_eval_type`, `functor_ty_monoidal`, `obj_to_dim_ignores_z`.

  * `eval_invariant_interchange`, `eval_invariant_normal_form`: if `F(d)` is defined then
    `F(d.interchange(i, j, left))` and `F(d.normal_form(left))` (monoidal.Diagram.normalize /
    normal_form as modelled in Model/Diagram.lean) are the SAME tensor.  Core:
    `tensor_layer_exchange` (two layers on disjoint wires commute, as an equality of tensors),
    associativity of `>>`, and `functor_eval_eq_layers` on both sides.

  NOT PROVED as Lean theorems (oracle of harness/props/c09.py only):
  * invariance under the RIGID normal form (snake removal, C07) — only the monoidal
    normalisation is covered above.
  * spiders, bubbles, sums: a spider is a generator whose array is `Tensor.spiderArray`
    (recorded in the model, covered as a generator); bubbles (`map func`) and sums
    (`Tensor.add` fold) are not part of `TFunctor.call`; the harness checks them on real code.
    `Diagram.eval` IS the call of the identity-on-arrays functor (tensor.py:429): nothing to
    prove, the harness checks it.
-/
import Proofs.TensorInterchange
import Proofs.GaussInt

namespace DV.C09
open DV DV.TFunctor

section
variable {R : Type} [CommSemiring R] [StarRing R]

/-- The object map ignores winding numbers (tensor.py:341-351). -/
theorem obj_to_dim_ignores_z (F : TFunctor R) (o : Ob) (z : Int) :
    F.ty [{ o with z := z }] = F.ty [o] := by
  simp [TFunctor.ty]

/-- The object map is monoidal: `F(s @ t) = F(s) @ F(t)`, `F(Ty()) = Dim(1)`. -/
theorem functor_ty_monoidal (F : TFunctor R) (s t : Ty) :
    F.ty (s ++ t) = F.ty s ++ F.ty t ∧ F.ty [] = [] :=
  ⟨ty_append F s t, rfl⟩

/-- Single-pass evaluation = layer-by-layer composite, from `BoxOK`. -/
theorem functor_eval_eq_layers_of_boxOK (F : TFunctor R) (d : Diagram) (hwf : d.WF)
    (hsw : ∀ b ∈ d.boxes, SwapOK b) (hbox : ∀ b ∈ d.boxes, BoxOK F b) :
    F.call d = F.layerwise d :=
  call_eq_layerwise F d hwf hsw hbox

/-- Every genuine box is sent to a well-formed tensor of the right type. -/
theorem boxOK_of_genuine (F : TFunctor R) (b : Box) (hb : Genuine b) : BoxOK F b :=
  TFunctor.boxOK_of_genuine F b hb

/-- **C09: single-pass evaluation = layer-by-layer composite**, for every functor, every
    well-typed diagram with genuine swap/cup/cap boxes, all dimensions, all arrays. -/
theorem functor_eval_eq_layers (F : TFunctor R) (d : Diagram) (hwf : d.WF)
    (hgen : ∀ b ∈ d.boxes, Genuine b) :
    F.call d = F.layerwise d :=
  call_eq_layerwise F d hwf (fun b hb => (hgen b hb).1)
    (fun b hb => TFunctor.boxOK_of_genuine F b (hgen b hb))

/-- The form the correspondence check exercises: a diagram built by the op language (well-typed
    by C01's `Expr.eval_wf`) whose special boxes pass the driver's Boolean test `fgenuine`. -/
theorem functor_eval_eq_layers_of_expr (F : TFunctor R) (e : Expr) (d : Diagram)
    (h : e.eval = .ok d) (hg : d.boxes.all TFunctor.genuineB = true) :
    F.call d = F.layerwise d :=
  functor_eval_eq_layers F d (Expr.eval_wf e h)
    (fun b hb => genuine_of_genuineB b (List.all_eq_true.1 hg b hb))

/-- The `Box` branch of `__call__` agrees with the loop on the one-box diagram. -/
theorem call_ofBox (F : TFunctor R) (b : Box) (hk : b.kind ≠ .swap) (hb : BoxOK F b) :
    F.call (Diagram.ofBox b) = F.box b := by
  rw [call_eq_layerwise F _ (Diagram.ofBox_wf b)
    (fun b' hb' => by
      have : b' = b := by simpa [Diagram.ofBox] using hb'
      intro h; rw [this] at h; exact absurd h hk)
    (fun b' hb' => by
      have : b' = b := by simpa [Diagram.ofBox] using hb'
      rw [this]; exact hb)]
  exact layerwise_ofBox F b hb

/-- The exchange law behind invariance under interchange, for tensors: two layers whose boxes
    act on disjoint wires commute (`f : A → B` left of `g : C → D`, any `L`, `M`, `Rr`):
    `(L ⊗ f ⊗ M ⊗ C ⊗ Rr) ≫ (L ⊗ B ⊗ M ⊗ g ⊗ Rr) = (L ⊗ A ⊗ M ⊗ g ⊗ Rr) ≫ (L ⊗ f ⊗ M ⊗ D ⊗ Rr)`.
    By `functor_eval_eq_layers` this is what one adjacent interchange does to the evaluation. -/
theorem tensor_layer_exchange (L M Rr : List Nat) (f g : Tensor R) (hf : f.WF) (hg : g.WF) :
    Tensor.thenCore (Tensor.layerT L ((M ++ g.dom) ++ Rr) f)
        (Tensor.layerT ((L ++ f.cod) ++ M) Rr g)
      = Tensor.thenCore (Tensor.layerT ((L ++ f.dom) ++ M) Rr g)
          (Tensor.layerT L ((M ++ g.cod) ++ Rr) f) :=
  Tensor.layer_exchange L M Rr f g hf hg

/-- **Evaluation is invariant under interchange**: if `F(d)` is defined, then
    `F(d.interchange(i, j, left)) = F(d)` (the single-pass evaluation of both). -/
theorem eval_invariant_interchange (F : TFunctor R) (d d' : Diagram) (i j : Int) (left : Bool)
    (hwf : d.WF) (hgen : ∀ b ∈ d.boxes, Genuine b) (h : d.interchange i j left = .ok d')
    (t : Tensor R) (ht : F.call d = .ok t) : F.call d' = .ok t := by
  have p := pres_interchange F hwf (fun b hb => TFunctor.boxOK_of_genuine F b (hgen b hb)) h
  rw [functor_eval_eq_layers F d hwf hgen] at ht
  rw [functor_eval_eq_layers F d' p.1 (fun b hb => hgen b (p.2.1 b hb))]
  exact p.2.2 t ht

/-- **Evaluation is invariant under normalisation**: if `F(d)` is defined, then
    `F(d.normal_form(left)) = F(d)`. -/
theorem eval_invariant_normal_form (F : TFunctor R) (d d' : Diagram) (left : Bool) (fuel : Nat)
    (hwf : d.WF) (hgen : ∀ b ∈ d.boxes, Genuine b) (h : d.normalForm left fuel = .ok d')
    (t : Tensor R) (ht : F.call d = .ok t) : F.call d' = .ok t := by
  have p := pres_normalForm F hwf (fun b hb => TFunctor.boxOK_of_genuine F b (hgen b hb)) h
  rw [functor_eval_eq_layers F d hwf hgen] at ht
  rw [functor_eval_eq_layers F d' p.1 (fun b hb => hgen b (p.2.1 b hb))]
  exact p.2.2 t ht

/-- The result of evaluation has the type the functor assigns to the diagram. -/
theorem functor_eval_type (F : TFunctor R) (d : Diagram) (t : Tensor R) (h : F.call d = .ok t) :
    t.WF ∧ t.dom = F.ty d.dom ∧ t.cod = F.ty d.cod := by
  unfold TFunctor.call at h
  split at h
  · cases h
  · exact mk?_ok h

end

/-! ### non-vacuity: a concrete rigid diagram with a generator, a daggered generator, a swap, a
    cap and a cup, a functor into Gaussian-integer tensors with unequal dimensions; the
    hypotheses hold and both programs return the same tensor (finite check, support only). -/

def xa : Ob := ⟨"a", 0⟩
def xb : Ob := ⟨"b", 0⟩
def bf : Box := { name := "f", dom := [xa], cod := [xb, xa] }
def bg : Box := { name := "g", dom := [xa], cod := [xa], dagger := true }
def bsw : Box := Box.swap xb xa
def bcap : Box := Box.cap xb xb.r
def bcup : Box := Box.cup xb xb.r

/-- `f ; swap ; (g† ⊗ b) ; (a ⊗ b ⊗ cap) ; (a ⊗ b ⊗ cup)` -/
def d0 : Diagram :=
  ⟨[xa], [xa, xb], [bf, bsw, bg, bcap, bcup], [0, 0, 0, 2, 2],
    ⟨[xa], [xa, xb],
      [⟨[], bf, []⟩, ⟨[], bsw, []⟩, ⟨[], bg, [xb]⟩, ⟨[xa, xb], bcap, []⟩, ⟨[xa, xb], bcup, []⟩]⟩⟩

def F0 : TFunctor GaussInt where
  ob := fun o => if o.name = "a" then [2] else [3]
  ar := fun b => if b.name = "f" then
      ⟨[12], #[⟨1, 0⟩, ⟨0, 1⟩, ⟨2, 0⟩, ⟨0, 0⟩, ⟨1, -1⟩, ⟨3, 0⟩, ⟨0, 0⟩, ⟨1, 0⟩, ⟨0, 2⟩, ⟨1, 1⟩, ⟨0, 0⟩, ⟨-1, 0⟩]⟩
    else ⟨[4], #[⟨1, 0⟩, ⟨0, 1⟩, ⟨2, 0⟩, ⟨1, 1⟩]⟩

example : d0.WF := by
  refine ⟨rfl, rfl, rfl, rfl, ?_⟩
  simp [LArrow.WF, d0, Chain, Layer.dom, Layer.cod, bf, bg, bsw, bcap, bcup, Box.swap, Box.cap,
    Box.cup, xa, xb, Ob.r]

example : ∀ b ∈ d0.boxes, Genuine b := by
  intro b hb
  simp only [d0, List.mem_cons, List.not_mem_nil, or_false] at hb
  rcases hb with rfl | rfl | rfl | rfl | rfl <;>
    refine ⟨?_, ?_, ?_⟩ <;> intro h <;>
    first
      | (simp [bf, bg, bsw, bcap, bcup, Box.swap, Box.cap, Box.cup] at h; done)
      | exact ⟨xb, xb.r, rfl, rfl⟩
      | rfl

-- the evaluation of `d0` under `F0` succeeds (finite check): the equality below is not an
-- equality of two errors
set_option maxRecDepth 100000 in
example : (F0.call d0).toOption.isSome = true := by decide +kernel

/-- the theorem applies to `d0`, `F0` -/
example : F0.call d0 = F0.layerwise d0 :=
  functor_eval_eq_layers F0 d0
    (by
      refine ⟨rfl, rfl, rfl, rfl, ?_⟩
      simp [LArrow.WF, d0, Chain, Layer.dom, Layer.cod, bf, bg, bsw, bcap, bcup, Box.swap,
        Box.cap, Box.cup, xa, xb, Ob.r])
    (by
      intro b hb
      simp only [d0, List.mem_cons, List.not_mem_nil, or_false] at hb
      rcases hb with rfl | rfl | rfl | rfl | rfl <;>
        refine ⟨?_, ?_, ?_⟩ <;> intro h <;>
        first
          | (simp [bf, bg, bsw, bcap, bcup, Box.swap, Box.cap, Box.cup] at h; done)
          | exact ⟨xb, xb.r, rfl, rfl⟩
          | rfl)

end DV.C09
